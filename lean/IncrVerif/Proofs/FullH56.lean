import IncrVerif.Proofs.FullH55
/-!
# C01 full fragment: the `didChange` invariant through a run of a change detector, part 3
(frames for the light steps of `lhsRelink`: `HF` — only heights and heap marks change —, `SHk` — what the invariant reads is constant, except
that necessity shrinks and flags go up)
-/
namespace IncrVerif.Proofs.FullH
open IncrVerif.Engine IncrVerif.Proofs IncrVerif.Proofs.Step IncrVerif.Proofs.Sched IncrVerif.Proofs.Quiet
open IncrVerif.Proofs.MapRefH (IsMapRef isMapRef_iff not_isMapRef_iff FM)

namespace KL

/-! ## `SHk` -/

/-- what the `didChange` invariant reads is constant, except that necessity shrinks and flags go up -/
structure SHk (s s' : State) : Prop where
  size : s'.nodes.size = s.nodes.size
  kind : ∀ m, (s'.nodeD m).kind = (s.nodeD m).kind
  valid : ∀ m, (s'.nodeD m).valid = (s.nodeD m).valid
  value : ∀ m, (s'.nodeD m).value = (s.nodeD m).value
  flag : ∀ m, (s'.nodeD m).didChange = false → (s.nodeD m).didChange = false
  nec : ∀ m, s'.isNecessary m = true → s.isNecessary m = true

theorem SHk.refl (s : State) : SHk s s := ⟨rfl, fun _ => rfl, fun _ => rfl, fun _ => rfl, fun _ h => h, fun _ h => h⟩
theorem SHk.trans {a b c : State} (h1 : SHk a b) (h2 : SHk b c) : SHk a c :=
  ⟨h2.size.trans h1.size, fun m => (h2.kind m).trans (h1.kind m), fun m => (h2.valid m).trans (h1.valid m),
    fun m => (h2.value m).trans (h1.value m), fun m h => h1.flag m (h2.flag m h), fun m h => h1.nec m (h2.nec m h)⟩

theorem SHk.value_eq {s s' : State} (h : SHk s s') (env : Env) (m : Nat) : s'.value env m = s.value env m :=
  value_congr env s s' h.size (fun k => by simp only [valueCore, h.kind, h.valid, h.value]) m

theorem KInv.of_shk {env : Env} {g : Nat → Option Val} {s s' : State} (K : KInv env g s) (h : SHk s s') :
    KInv env g s' := by
  intro m p i hv hn hk hd
  rw [h.valid] at hv; rw [h.kind] at hk; rw [h.value_eq]
  exact K m p i hv (h.nec m hn) hk (h.flag m hd)

theorem SHk.of_sh {s s' : State} (h : MapRefH.SH s s') : SHk s s' :=
  ⟨h.vf.size, h.vf.kind, h.vf.valid, h.vf.value, fun m hd => by rw [← h.flag]; exact hd, fun _ hm => h.nec hm⟩

/-! ## `HF`: only heights and heap marks change -/

def hfKey (nd : Node) := (nd.kind, nd.valid, nd.value, nd.didChange, nd.parents, nd.observers, nd.forceNecessary)

structure HF (s s' : State) : Prop where
  size : s'.nodes.size = s.nodes.size
  node : ∀ m, hfKey (s'.nodeD m) = hfKey (s.nodeD m)
  pinv : s'.propagateInvalidity = s.propagateInvalidity

instance : Step.PreOrd HF :=
  ⟨fun _ => ⟨rfl, fun _ => rfl, rfl⟩,
   fun h1 h2 => ⟨h2.size.trans h1.size, fun m => (h2.node m).trans (h1.node m), h2.pinv.trans h1.pinv⟩⟩

theorem HF.of_nodes {s s' : State} (h1 : s'.nodes = s.nodes) (h2 : s'.propagateInvalidity = s.propagateInvalidity) :
    HF s s' := by
  have : ∀ m, s'.nodeD m = s.nodeD m := fun m => by simp [State.nodeD, h1]
  exact ⟨by rw [h1], fun m => by rw [this], h2⟩

theorem HF.modNode (s : State) (n : Nat) (f : Node → Node) (hf : ∀ x, hfKey (f x) = hfKey x) :
    HF s { s with nodes := s.nodes.modify n f } := by
  refine ⟨by simp, fun m => ?_, rfl⟩
  rw [nodeD_modify]; split
  · exact hf _
  · rfl

theorem PresHF.modNode (n : Nat) (f : Node → Node) (hf : ∀ x, hfKey (f x) = hfKey x) :
    Step.Pres HF (Engine.modNode n f) := by
  unfold Engine.modNode; exact Step.Pres.modify fun s => HF.modNode s n f hf

macro_rules
  | `(tactic| qleaf) =>
    `(tactic| ((with_reducible apply Step.Pres.modify); intro _; exact KL.HF.of_nodes rfl rfl))
macro_rules
  | `(tactic| qleaf) => `(tactic| ((with_reducible apply KL.PresHF.modNode); intro _; rfl))

macro "hf_leaf " n:ident : command =>
  `(macro_rules | `(tactic| qleaf) => `(tactic| with_reducible apply $n))

theorem PresHF.setHeight (n h) : Step.Pres HF (Engine.setHeight n h) := by unfold Engine.setHeight; qpres
hf_leaf PresHF.setHeight
theorem PresHF.rchLink (n) : Step.Pres HF (Engine.rchLink n) := by unfold Engine.rchLink; qpres
hf_leaf PresHF.rchLink
theorem PresHF.rchUnlink (n) : Step.Pres HF (Engine.rchUnlink n) := by unfold Engine.rchUnlink; qpres
hf_leaf PresHF.rchUnlink
theorem PresHF.rchInsert (n) : Step.Pres HF (Engine.rchInsert n) := by unfold Engine.rchInsert; qpres
hf_leaf PresHF.rchInsert
theorem PresHF.rchIncreaseHeight (n) : Step.Pres HF (Engine.rchIncreaseHeight n) := by
  unfold Engine.rchIncreaseHeight; qpres
hf_leaf PresHF.rchIncreaseHeight
theorem PresHF.ahhAddUnlessMem (n) : Step.Pres HF (Engine.ahhAddUnlessMem n) := by
  unfold Engine.ahhAddUnlessMem; qpres
hf_leaf PresHF.ahhAddUnlessMem
theorem PresHF.ahhRemoveMin : Step.Pres HF Engine.ahhRemoveMin := by unfold Engine.ahhRemoveMin; qpres
hf_leaf PresHF.ahhRemoveMin
theorem PresHF.ensureHeightRequirement (a b c d) : Step.Pres HF (Engine.ensureHeightRequirement a b c d) := by
  unfold Engine.ensureHeightRequirement; qpres
hf_leaf PresHF.ensureHeightRequirement

theorem PresHF.adjustHeightsLoop (oc op fuel) : Step.Pres HF (Engine.adjustHeightsLoop oc op fuel) := by
  induction fuel with
  | zero => unfold Engine.adjustHeightsLoop; qpres
  | succ fuel ih =>
    unfold Engine.adjustHeightsLoop
    qpres
    all_goals first | exact ih | (apply Step.Pres.forIn; intro a b; qpres)
hf_leaf PresHF.adjustHeightsLoop

theorem PresHF.adjustHeights (oc op fuel) : Step.Pres HF (Engine.adjustHeights oc op fuel) := by
  unfold Engine.adjustHeights; qpres
hf_leaf PresHF.adjustHeights

theorem HF.nec {s s' : State} (h : HF s s') (m : Nat) : s'.isNecessary m = s.isNecessary m := by
  have e := h.node m
  simp only [hfKey, Prod.mk.injEq] at e
  exact MapRefH.nec_congr e.2.2.2.2.1 e.2.2.2.2.2.1 e.2.2.2.2.2.2

theorem SHk.of_hf {s s' : State} (h : HF s s') : SHk s s' := by
  have e := fun m => h.node m
  simp only [hfKey, Prod.mk.injEq] at e
  exact ⟨h.size, fun m => (e m).1, fun m => (e m).2.1, fun m => (e m).2.2.1,
    fun m hd => by rw [← (e m).2.2.2.1]; exact hd, fun m hm => by rw [← h.nec m]; exact hm⟩

end KL
end IncrVerif.Proofs.FullH
