import IncrVerif.Proofs.BindH98
/-!
# Binds, part 5d1: `den` is monotone in the fuel
-/
namespace IncrVerif.Proofs.BindH
open IncrVerif.Engine IncrVerif.Proofs IncrVerif.Proofs.Step IncrVerif.Proofs.Sched

namespace C3d

/-- `ev'` knows at least what `ev` knows -/
def LeEv (ev ev' : Nat → Option Val) : Prop := ∀ a w, ev a = some w → ev' a = some w

/-- pointwise: same length, and every known entry is known with the same value -/
def LeVals (V V' : List (Option Val)) : Prop :=
  V.length = V'.length ∧ ∀ (j : Nat) (w : Val), (V[j]?).join = some w → (V'[j]?).join = some w

theorem LeVals.refl (V : List (Option Val)) : LeVals V V := ⟨rfl, fun _ _ h => h⟩

theorem evalArgs_mono {ev ev' : Nat → Option Val} (h : LeEv ev ev') :
    ∀ (args : List Nat) (ws : List Val), evalArgs ev args = some ws → evalArgs ev' args = some ws := by
  intro args
  induction args with
  | nil => intro ws e; exact e
  | cons a as ih =>
    intro ws e
    simp only [evalArgs] at e ⊢
    cases h1 : ev a with
    | none => rw [h1] at e; cases e
    | some w =>
      cases h2 : evalArgs ev as with
      | none => rw [h1, h2] at e; cases e
      | some vs =>
        rw [h1, h2] at e
        rw [h a w h1, ih vs h2]
        exact e

theorem allSome_mono {α : Type} (f f' : α → Option Val) :
    ∀ (l : List α), (∀ a, a ∈ l → ∀ w, f a = some w → f' a = some w) →
    ∀ ws, allSome (l.map f) = some ws → allSome (l.map f') = some ws := by
  intro l
  induction l with
  | nil => intro _ ws e; exact e
  | cons a as ih =>
    intro h ws e
    simp only [List.map_cons, allSome] at e ⊢
    cases h1 : f a with
    | none => rw [h1] at e; cases e
    | some w =>
      cases h2 : allSome (as.map f) with
      | none => rw [h1, h2] at e; cases e
      | some vs =>
        rw [h1, h2] at e
        rw [h a (List.mem_cons_self ..) w h1, ih (fun b hb => h b (List.mem_cons_of_mem _ hb)) vs h2]
        exact e

theorem denOpnd_mono {ev ev' : Nat → Option Val} (h : LeEv ev ev') (top : Array Nat)
    {V V' : List (Option Val)} (hV : LeVals V V') (o : Opnd) (w : Val)
    (e : denOpnd ev top V o = some w) : denOpnd ev' top V' o = some w := by
  cases o with
  | outer k =>
    simp only [denOpnd] at e ⊢
    cases ht : top[k]? with
    | none => rw [ht] at e; cases e
    | some n => rw [ht] at e; exact h n w e
  | loc j => simp only [denOpnd] at e ⊢; exact hV.2 j w e
  | abs _ => simp only [denOpnd] at e; cases e
  | slot _ => simp only [denOpnd] at e; cases e

theorem denInstr_mono (env : Env) {ev ev' : Nat → Option Val} (h : LeEv ev ev') (top : Array Nat) (v : Val)
    {V V' : List (Option Val)} (hV : LeVals V V') (i : Instr) (w : Val)
    (e : denInstr env ev top v V i = some w) : denInstr env ev' top v V' i = some w := by
  cases i <;> simp only [denInstr] at e ⊢ <;> try (first | exact e | cases e)
  · rename_i f args
    cases h1 : allSome (args.map (denOpnd ev top V)) with
    | none => rw [h1] at e; cases e
    | some ws =>
      rw [h1] at e
      rw [allSome_mono _ _ args (fun a _ w hw => denOpnd_mono h top hV a w hw) ws h1]
      exact e
  · rename_i f init cs
    cases h1 : allSome (cs.map (denOpnd ev top V)) with
    | none => rw [h1] at e; cases e
    | some ws =>
      rw [h1] at e
      rw [allSome_mono _ _ cs (fun a _ w hw => denOpnd_mono h top hV a w hw) ws h1]
      exact e

theorem LeVals.snoc {V V' : List (Option Val)} (hV : LeVals V V') {a a' : Option Val}
    (ha : ∀ w, a = some w → a' = some w) : LeVals (V ++ [a]) (V' ++ [a']) := by
  obtain ⟨hl, hp⟩ := hV
  refine ⟨by simp only [List.length_append, hl, List.length_cons, List.length_nil], ?_⟩
  intro j w e
  by_cases hj : j < V.length
  · rw [List.getElem?_append_left hj] at e
    rw [List.getElem?_append_left (by omega)]
    exact hp j w e
  · by_cases hj2 : j = V.length
    · subst hj2
      rw [List.getElem?_append_right (Nat.le_refl _)] at e
      rw [List.getElem?_append_right (by omega)]
      simp only [Nat.sub_self, List.getElem?_cons_zero, Option.join_some] at e
      rw [hl]
      simp only [Nat.sub_self, List.getElem?_cons_zero, Option.join_some]
      exact ha w e
    · rw [List.getElem?_eq_none (by simp only [List.length_append, List.length_cons, List.length_nil]; omega)] at e
      cases e

theorem denInstrs_mono (env : Env) {ev ev' : Nat → Option Val} (h : LeEv ev ev') (top : Array Nat) (v : Val) :
    ∀ (is : List Instr) {V V' : List (Option Val)}, LeVals V V' →
      LeVals (denInstrs env ev top v is V) (denInstrs env ev' top v is V') := by
  intro is
  induction is with
  | nil => intro V V' hV; exact hV
  | cons i is ih =>
    intro V V' hV
    simp only [denInstrs]
    exact ih (hV.snoc (fun w hw => denInstr_mono env h top v hV i w hw))

theorem denT_mono (env : Env) {ev ev' : Nat → Option Val} (h : LeEv ev ev') (top : Array Nat) (t : Template)
    (v w : Val) (e : denT env ev top t v = some w) : denT env ev' top t v = some w := by
  unfold denT at e ⊢
  exact denOpnd_mono h top (denInstrs_mono env h top v t.instrs (LeVals.refl [])) t.ret w e

theorem den_mono_aux (env : Env) (s : State) :
    ∀ (k k' : Nat), k ≤ k' → ∀ n w, den env s k n = some w → den env s k' n = some w := by
  intro k
  induction k with
  | zero => intro k' _ n w e; unfold den at e; cases e
  | succ k ih =>
    intro k' hk n w e
    cases k' with
    | zero => omega
    | succ k' =>
      have hle : LeEv (den env s k) (den env s k') := fun a w ha => ih k' (by omega) a w ha
      unfold den at e ⊢
      cases hkd : (s.nodeD n).kind with
      | const c => rw [hkd] at e; exact e
      | var c => rw [hkd] at e; exact e
      | map f args =>
        rw [hkd] at e
        simp only at e ⊢
        cases h1 : evalArgs (fun a => den env s k a) args with
        | none => rw [h1] at e; cases e
        | some ws =>
          rw [h1] at e
          rw [evalArgs_mono hle args ws h1]
          exact e
      | fold f init cs =>
        rw [hkd] at e
        simp only at e ⊢
        cases h1 : evalArgs (fun a => den env s k a) cs with
        | none => rw [h1] at e; cases e
        | some ws =>
          rw [h1] at e
          rw [evalArgs_mono hle cs ws h1]
          exact e
      | bindLhsChange b => rw [hkd] at e; exact e
      | bindMain b lc =>
        rw [hkd] at e
        simp only at e ⊢
        cases hb : s.binds[b]? with
        | none => rw [hb] at e; cases e
        | some br =>
          rw [hb] at e
          simp only at e ⊢
          cases h1 : den env s k br.lhs with
          | none => rw [h1] at e; cases e
          | some v =>
            rw [h1] at e
            simp only at e
            rw [hle _ _ h1]
            exact denT_mono env hle s.top _ v w e
      | mapRef _ _ => rw [hkd] at e; cases e
      | mapWithOld _ _ => rw [hkd] at e; cases e
      | expert _ => rw [hkd] at e; cases e

end C3d

/-- more fuel does not change a result -/
theorem den_mono {env : Env} {s : State} {k n : Nat} {w : Val} (h : den env s k n = some w) (k' : Nat)
    (hk : k ≤ k') : den env s k' n = some w :=
  C3d.den_mono_aux env s k k' hk n w h

end IncrVerif.Proofs.BindH
