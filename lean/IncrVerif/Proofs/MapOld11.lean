import IncrVerif.Proofs.MapOld9
/-!
# map_with_old fragment: one `recomputeOne` of a map_with_old node — master equation

Generalisation of `Step.recomputeOne_mapWithOld_run` to every machine id (the operator closures `g ≥ opBase` log one
event per user-function call): with no fault armed, the step is `maybe_change_value_manual n none did true` run in the
state in which `n` is stamped, the events are logged, and the new output and closure state are stored.
-/
namespace IncrVerif.Proofs.MapOldH
open IncrVerif.Engine IncrVerif.Proofs IncrVerif.Proofs.Step IncrVerif.Proofs.Sched IncrVerif.Proofs.Quiet

theorem logged_logged (es es' : List Event) (t : State) : logged es (logged es' t) = logged (es ++ es') t := by
  simp [logged, List.append_assoc]

theorem logged_nil (t : State) : logged [] t = t := rfl

/-- a loop whose body only logs one event only logs -/
theorem forIn_log {α} (body : α → PUnit → M (ForInStep PUnit)) (l : List α)
    (hb : ∀ a (t : State), t.panicCountdown = none →
      ∃ e, (body a PUnit.unit).run.run t = (.ok (ForInStep.yield PUnit.unit), logged [e] t))
    (t : State) (hp : t.panicCountdown = none) :
    ∃ es, (forIn l PUnit.unit body : M PUnit).run.run t = (.ok PUnit.unit, logged es t) := by
  induction l generalizing t with
  | nil => exact ⟨[], rfl⟩
  | cons a l ih =>
    rw [List.forIn_cons]
    obtain ⟨e, he⟩ := hb a t hp
    rw [run_bind_ok he]
    obtain ⟨es, hes⟩ := ih (logged [e] t) hp
    refine ⟨es ++ [e], ?_⟩
    dsimp only
    rw [hes, logged_logged]

theorem withOldEvents_run (env : Env) (g n : Nat) (σ : Val) (old : Option Val) (x new : Val) (did : Bool)
    (t : State) (hp : t.panicCountdown = none) :
    ∃ es, (withOldEvents env g n σ old x new did).run.run t = (.ok (), logged es t) := by
  unfold withOldEvents
  by_cases hg : g < opBase
  · rw [if_pos hg, run_bind_tick_none _ _ hp, run_logEv]
    exact ⟨[_], rfl⟩
  · rw [if_neg hg]
    obtain ⟨es, hes⟩ := forIn_log (fun (c : String × List Val × String) (_ : PUnit) => (do
        tick
        logEv (Event.inv c.1 n c.2.1 c.2.2)
        pure (ForInStep.yield PUnit.unit) : M (ForInStep PUnit))) (env.withOldCalls g σ old x)
      (fun a t ht => ⟨_, by rw [run_bind_tick_none _ _ ht, run_bind_logEv]; rfl⟩) t hp
    refine ⟨es, ?_⟩
    rw [run_bind_ok hes]
    rfl

theorem recomputeOne_mwo_run (env : Env) (fuel n : Nat) (s : State) (nd : Node) (g i : Nat) (x : Val)
    (hn : s.nodes[n]? = some nd) (hv : nd.valid = true) (hk : nd.kind = .mapWithOld g i)
    (hx : s.value env i = some x) (hp : s.panicCountdown = none) :
    ∃ es, (recomputeOne env fuel n).run.run s =
      (maybeChangeValueManual env fuel n none (env.withOld g nd.oldState nd.value x).2.2 true).run.run
        (setWithOld n (env.withOld g nd.oldState nd.value x).2.1 (env.withOld g nd.oldState nd.value x).1
          (logged es (started n s))) := by
  have hk? : ({ nd with recomputedAt := s.stabNum } : Node).kind? = some (.mapWithOld g i) := by
    simp [Node.kind?, hv, hk]
  have hx' : (started n s).value env i = some x := by rw [started_value]; exact hx
  have hn' := started_getElem? n s nd hn
  have hpc : (setValue n none (started n s)).panicCountdown = none := hp
  obtain ⟨es, hes⟩ := withOldEvents_run env g n nd.oldState nd.value x
    (env.withOld g nd.oldState nd.value x).2.1 (env.withOld g nd.oldState nd.value x).2.2
    (setValue n none (started n s)) hpc
  refine ⟨es, ?_⟩
  unfold recomputeOne
  simp only [run_bind_get]
  cases hd : s.cfg.debug
  all_goals
    simp only [started, hd, Bool.false_eq_true, if_false, if_true, run_bind_modify,
      run_bind_bumpCounter, run_bind_get, run_bind_modNode] at hn' hx' hes ⊢
    rw [run_bind_ok (run_getNode_some hn'), hk?]
    dsimp only
    rw [run_bind_of (run_valueUnwrap env i _ _), hx']
    dsimp only
    rw [run_bind_modNode]
    simp only [setValue] at hes
    rw [run_bind_ok hes, run_bind_modNode]
    simp only [setWithOld, logged, array_modify_modify]
    rfl

end IncrVerif.Proofs.MapOldH
