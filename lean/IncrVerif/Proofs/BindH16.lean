import IncrVerif.Proofs.BindH15
/-!
# Binds, part K2: a Boolean checker for the drain invariant `DInv` (given a rank function and two labellings
`clean`, `low` that are closed under edges), and its soundness proof
-/
namespace IncrVerif.Proofs.BindH
open IncrVerif.Engine IncrVerif.Proofs IncrVerif.Proofs.Step IncrVerif.Proofs.Sched

namespace BK

/-! ## stamps -/

theorem default_recomputedAt : (default : Node).recomputedAt = -1 := rfl
theorem default_changedAt : (default : Node).changedAt = -1 := rfl

theorem stampsB_sound {s : State} (h : stampsB s = true) : Stamps s := by
  unfold stampsB at h
  simp only [Bool.and_eq_true, decide_eq_true_eq] at h
  obtain ⟨⟨h1, h2⟩, h3⟩ := h
  refine ⟨h1, ?_, ?_⟩
  · intro m
    by_cases hm : m < s.nodes.size
    · have := allN_sound h2 m hm
      simp only [Bool.and_eq_true, decide_eq_true_eq] at this
      exact this
    · rw [nodeD_default' s m hm, default_recomputedAt, default_changedAt]
      omega
  · intro c vc hc
    rw [List.all_eq_true] at h3
    have hm : vc ∈ s.vars.toList := by
      rw [Array.mem_toList_iff]
      exact Array.mem_of_getElem? hc
    exact of_decide_eq_true (h3 vc hm)

/-! ## targets -/

theorem targetB_sound {env : Env} {s : State} {m : Nat} {v : Val} (h : targetB env s m = some v) :
    TargetB env s m v := by
  unfold targetB at h
  unfold TargetB
  cases hk : (s.nodeD m).kind with
  | const w =>
    simp only [hk, Option.some.injEq] at h
    simp only [Target, hk]
    exact h.symm
  | var c =>
    simp only [hk] at h
    simp only [Target, hk]
    cases hvc : s.vars[c]? with
    | none => rw [hvc] at h; cases h
    | some vc =>
      rw [hvc] at h
      simp only [Option.map_some, Option.some.injEq] at h
      exact ⟨vc, rfl, h.symm⟩
  | map f args =>
    simp only [hk] at h
    simp only [Target, hk]
    cases hp : plainVals s args with
    | none => rw [hp] at h; cases h
    | some vals =>
      rw [hp] at h
      simp only [Option.map_some, Option.some.injEq] at h
      exact ⟨vals, rfl, h.symm⟩
  | fold f i cs =>
    simp only [hk] at h
    simp only [Target, hk]
    cases hp : plainVals s cs with
    | none => rw [hp] at h; cases h
    | some vals =>
      rw [hp] at h
      simp only [Option.map_some, Option.some.injEq] at h
      exact ⟨vals, rfl, h.symm⟩
  | bindLhsChange b =>
    simp only [hk, Option.some.injEq] at h
    exact h.symm
  | bindMain b lc =>
    simp only [hk] at h
    show ∃ br r, s.binds[b]? = some br ∧ br.rhs = some r ∧ (s.nodeD r).value = some v
    cases hb : s.binds[b]? with
    | none => rw [hb] at h; cases h
    | some br =>
      rw [hb] at h
      simp only at h
      cases hr : br.rhs with
      | none => rw [hr] at h; cases h
      | some r =>
        rw [hr] at h
        exact ⟨br, r, rfl, hr, h⟩
  | mapRef p i => simp only [hk] at h; cases h
  | mapWithOld g i => simp only [hk] at h; cases h
  | expert e => simp only [hk] at h; cases h

/-! ## the pieces -/

def qstaleChk (s : State) : Bool := allN s fun m => !(s.nodeD m).inRch || s.isStale m

def consChk (env : Env) (s : State) : Bool :=
  allN s fun m => !((s.nodeD m).valid && !s.isStale m) ||
    (match targetB env s m with
     | some v => decide ((s.nodeD m).value = some v)
     | none => false)

/-- a labelling that is closed under edges (the targets being nodes of the state) -/
def closedChk (s : State) (lab : Nat → Bool) : Bool :=
  allN s fun a => !lab a || (edgesOf s a).all fun c => decide (c < s.nodes.size) && lab c

/-- (a) a node recomputed in this round is `clean`; (b) `clean` nodes are neither stale nor current;
(c) `clean` is closed under edges -/
def freshChk (s : State) (x : Option Nat) (clean : Nat → Bool) : Bool :=
  (allN s fun a => decide ((s.nodeD a).recomputedAt < s.stabNum) || clean a)
  && (allN s fun a => !clean a || (!s.isStale a && decide (x ≠ some a)))
  && closedChk s clean

/-- the current node is necessary and `low`; `low` nodes are not queued; `low` is closed under edges -/
def curChk (s : State) (x : Option Nat) (low : Nat → Bool) : Bool :=
  match x with
  | none => true
  | some n => s.isNecessary n && low n && (allN s fun a => !low a || !(s.nodeD a).inRch) && closedChk s low

theorem closed_below {s : State} {lab : Nat → Bool} (h : closedChk s lab = true) {a d : Nat}
    (hb : Below s a d) (ha : a < s.nodes.size) (hl : lab a = true) : d < s.nodes.size ∧ lab d = true := by
  induction hb with
  | refl => exact ⟨ha, hl⟩
  | step he _ ih =>
    have := allN_sound h _ ha
    simp only [hl, Bool.not_true, Bool.false_or, List.all_eq_true, Bool.and_eq_true, decide_eq_true_eq] at this
    have := this _ (mem_edgesOf he)
    exact ih this.1 this.2

theorem below_of_ge {s : State} {a d : Nat} (hb : Below s a d) (ha : ¬ a < s.nodes.size) : a = d := by
  cases hb with
  | refl => rfl
  | step he _ => exact absurd he.lt_size ha

end BK

open BK in
def dinvRB (env : Env) (s : State) (x : Option Nat) (rk : Nat → Nat) (clean low : Nat → Bool) : Bool :=
  bgraphRB s rk && heapInvB s && stampsB s && qstaleChk s && pendingB s x && consChk env s &&
    freshChk s x clean && curChk s x low

open BK in
theorem dinvRB_sound {env : Env} {s : State} {x : Option Nat} {rk : Nat → Nat} {clean low : Nat → Bool}
    (hpure : ∀ f vals, env.fnEff f vals = []) (h : dinvRB env s x rk clean low = true) : DInv env s x := by
  unfold dinvRB at h
  simp only [Bool.and_eq_true] at h
  obtain ⟨⟨⟨⟨⟨⟨⟨h1, h2⟩, h3⟩, h4⟩, h5⟩, h6⟩, h7⟩, h8⟩ := h
  have hst := stampsB_sound h3
  refine ⟨bgraphRB_sound hpure h1, heapInvB_sound h2, hst, ?_, ?_, ?_, ?_, ?_⟩
  · -- qstale
    intro m hm
    have := allN_sound h4 m (lt_of_inRch hm)
    simp only [hm, Bool.not_true, Bool.false_or] at this
    exact this
  · -- pending
    intro m hn hs
    have := allN_sound h5 m (lt_of_nec hn)
    simp only [hn, hs, Bool.and_self, Bool.not_true, Bool.false_or, Bool.or_eq_true, decide_eq_true_eq] at this
    exact this
  · -- cons
    intro m hm hv hs
    have := allN_sound h6 m hm
    simp only [hv, hs, Bool.not_false, Bool.and_self, Bool.not_true, Bool.false_or] at this
    cases ht : targetB env s m with
    | none => rw [ht] at this; cases this
    | some v =>
      rw [ht] at this
      exact ⟨v, targetB_sound ht, of_decide_eq_true this⟩
  · -- fresh
    intro a d hb hbad
    unfold freshChk at h7
    simp only [Bool.and_eq_true] at h7
    obtain ⟨⟨ha, hbd⟩, hc⟩ := h7
    by_cases hlt : a < s.nodes.size
    · have := allN_sound ha a hlt
      simp only [Bool.or_eq_true, decide_eq_true_eq] at this
      rcases this with h | h
      · exact h
      · exfalso
        obtain ⟨hd, hcd⟩ := closed_below hc hb hlt h
        have := allN_sound hbd d hd
        simp only [hcd, Bool.not_true, Bool.false_or, Bool.and_eq_true, Bool.not_eq_true',
          decide_eq_true_eq] at this
        rcases hbad with h' | h'
        · rw [this.1] at h'; cases h'
        · exact this.2 h'
    · rw [nodeD_default' s a hlt, default_recomputedAt]
      have := hst.now
      omega
  · -- cur
    intro n hx
    subst hx
    simp only [curChk, Bool.and_eq_true] at h8
    obtain ⟨⟨⟨hn, hl⟩, hq⟩, hc⟩ := h8
    refine ⟨hn, ?_⟩
    intro d hb
    obtain ⟨hd, hld⟩ := closed_below hc hb (lt_of_nec hn) hl
    have := allN_sound hq d hd
    simp only [hld, Bool.not_true, Bool.false_or, Bool.not_eq_true'] at this
    exact this

end IncrVerif.Proofs.BindH
