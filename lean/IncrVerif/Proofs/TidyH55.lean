import IncrVerif.Proofs.MapRef29
/-!
# T1b, part 1: the BISIMULATION calculus for the fragment static + `map_ref`

`MapRefH.Sim g x x'` is a forward simulation (actual ok ⇒ virtual ok).  Total correctness needs the converse as well:
`BSimAt P g s x x'` = from `s` (satisfying the carried invariant `P`)
 * every successful run of `x` is matched by a successful run of `x'` from `virt g s` (same result, final state
   `virt g s'`), and `P s'`;
 * every successful run of `x'` from `virt g s` is matched by a successful run of `x` from `s` with the same result.
The carried invariant `P` is a parameter (`Keeps P`): `Fr` for the API actions, `P2 N` (`Fr` + node count + "children
have smaller indices" + "recorded parent entries are child edges") for the cascades and the drain.
-/
namespace IncrVerif.Proofs.TidyH.RT
open IncrVerif.Engine IncrVerif.Driver IncrVerif.Proofs IncrVerif.Proofs.Step IncrVerif.Proofs.Sched IncrVerif.Proofs.Quiet
open IncrVerif.Proofs.MapRefH

/-- what a benign node update keeps -/
def NKeep (nd nd' : Node) : Prop :=
  nd'.kind = nd.kind ∧ nd'.valid = nd.valid ∧ nd'.cutoff = nd.cutoff ∧ nd'.parents = nd.parents ∧ nd'.value = nd.value

/-- an invariant that the bisimulation can carry: it implies `Fr` and is kept by benign updates -/
class Keeps (P : State → Prop) : Prop where
  fr : ∀ {s : State}, P s → Fr s
  of_nodes : ∀ {s s' : State}, P s → s'.nodes = s.nodes → s'.propagateInvalidity = s.propagateInvalidity → P s'
  modify : ∀ {s : State} (n : Nat) (f : Node → Node), P s → (∀ nd, NKeep nd (f nd)) →
    P { s with nodes := s.nodes.modify n f }
  rmParent : ∀ {s : State} (c k : Nat), P s →
    P { s with nodes := s.nodes.modify c fun x => { x with parents := swapRemove x.parents k } }

instance : Keeps Fr where
  fr h := h
  of_nodes h e1 e2 := h.of_nodes e1 e2
  modify n f h hk := fr_modify h n f fun nd => ⟨(hk nd).1, (hk nd).2.1, (hk nd).2.2.1⟩
  rmParent c k h := fr_modify h c _ fun _ => ⟨rfl, rfl, rfl⟩

def BSimAt (P : State → Prop) (g : Nat → Option Val) (s : State) {α} (x x' : M α) : Prop :=
  P s → (∀ r s', x.run.run s = (.ok r, s') → x'.run.run (virt g s) = (.ok r, virt g s') ∧ P s') ∧
    (∀ r t, x'.run.run (virt g s) = (.ok r, t) → ∃ s', x.run.run s = (.ok r, s'))

def BSim (P : State → Prop) (g : Nat → Option Val) {α} (x x' : M α) : Prop := ∀ s, BSimAt P g s x x'

section
variable {P : State → Prop} {g : Nat → Option Val} {s : State} {α β : Type}

theorem BSim.at {x x' : M α} (h : BSim P g x x') (s : State) : BSimAt P g s x x' := h s

/-- the two halves, for use -/
theorem BSimAt.fwd {x x' : M α} (h : BSimAt P g s x x') (hp : P s) {r : α} {s' : State}
    (hr : x.run.run s = (.ok r, s')) : x'.run.run (virt g s) = (.ok r, virt g s') ∧ P s' := (h hp).1 r s' hr

theorem BSimAt.rev {x x' : M α} (h : BSimAt P g s x x') (hp : P s) {r : α} {t : State}
    (hr : x'.run.run (virt g s) = (.ok r, t)) : ∃ s', x.run.run s = (.ok r, s') ∧ t = virt g s' ∧ P s' := by
  obtain ⟨s', hs'⟩ := (h hp).2 r t hr
  obtain ⟨h1, h2⟩ := (h hp).1 r s' hs'
  rw [h1] at hr; cases hr
  exact ⟨s', hs', rfl, h2⟩

/-- **transfer**: a total-correctness statement about the virtual run gives one about the actual run -/
theorem BSimAt.tot {x x' : M α} (h : BSimAt P g s x x') (hp : P s) {Q : α → State → Prop}
    (T : Tot x' (virt g s) Q) : Tot x s (fun a s' => Q a (virt g s') ∧ P s') := by
  obtain ⟨a, t, h1, h2⟩ := T
  obtain ⟨s', hs', e, hp'⟩ := h.rev hp h1
  exact ⟨a, s', hs', by rw [← e]; exact h2, hp'⟩

theorem BSimAt.ret (a : α) : BSimAt P g s (pure a : M α) (pure a) := by
  intro hp
  refine ⟨fun r s' h => ?_, fun r t h => ?_⟩
  · rw [run_pure] at h; cases h; exact ⟨rfl, hp⟩
  · rw [run_pure] at h; cases h; exact ⟨s, rfl⟩

theorem BSimAt.thr (e e' : Panic) : BSimAt P g s (throw e : M α) (throw e') := by
  intro _
  refine ⟨fun r s' h => ?_, fun r t h => ?_⟩
  · rw [run_throw] at h; cases h
  · rw [run_throw] at h; cases h

theorem BSimAt.pan (e e' : String) : BSimAt P g s (Engine.panic e : M α) (Engine.panic e') := BSimAt.thr _ _

theorem BSimAt.seq {x x' : M α} {f f' : α → M β} (hx : BSimAt P g s x x')
    (hf : ∀ a s1, x.run.run s = (.ok a, s1) → BSimAt P g s1 (f a) (f' a)) :
    BSimAt P g s (x >>= f) (x' >>= f') := by
  intro hp
  refine ⟨fun r s' h => ?_, fun r t h => ?_⟩
  · obtain ⟨a, s1, h1, h2⟩ := bind_ok_inv h
    obtain ⟨e1, p1⟩ := hx.fwd hp h1
    rw [run_bind_ok e1]
    exact (hf a s1 h1).fwd p1 h2
  · obtain ⟨a, t1, h1, h2⟩ := bind_ok_inv h
    obtain ⟨s1, hs1, e, p1⟩ := hx.rev hp h1
    rw [e] at h2
    obtain ⟨s', hs', -, -⟩ := (hf a s1 hs1).rev p1 h2
    exact ⟨s', by rw [run_bind_ok hs1]; exact hs'⟩

theorem BSimAt.get_seq {k k' : State → M β} (h : BSimAt P g s (k s) (k' (virt g s))) :
    BSimAt P g s (get >>= k) (get >>= k') := by
  intro hp
  refine ⟨fun r s' hr => ?_, fun r t hr => ?_⟩
  · rw [run_bind_get] at hr ⊢; exact h.fwd hp hr
  · rw [run_bind_get] at hr
    obtain ⟨s', hs', -, -⟩ := h.rev hp hr
    exact ⟨s', by rw [run_bind_get]; exact hs'⟩

/-- the carried invariant of the current state may be used -/
theorem BSimAt.intro_inv {x x' : M α} (h : P s → BSimAt P g s x x') : BSimAt P g s x x' := fun hp => h hp hp

theorem BSimAt.get_seq' {k k' : State → M β} (h : P s → BSimAt P g s (k s) (k' (virt g s))) :
    BSimAt P g s (get >>= k) (get >>= k') := BSimAt.intro_inv fun hp => BSimAt.get_seq (h hp)

theorem BSimAt.getNode_seq [Keeps P] {n : Nat} {k k' : Node → M β}
    (h : ∀ nd, s.nodes[n]? = some nd → (∀ e, nd.kind ≠ .expert e) → nd.valid = true →
      BSimAt P g s (k nd) (k' (virtNode (g n) nd))) :
    BSimAt P g s (getNode n >>= k) (getNode n >>= k') := by
  intro hp
  have hn := Keeps.fr hp
  refine ⟨fun r s' hr => ?_, fun r t hr => ?_⟩
  · obtain ⟨nd, hnd, hr⟩ := bind_getNode_inv hr
    have hv : (virt g s).nodes[n]? = some (virtNode (g n) nd) := by rw [virt_getElem?, hnd]; rfl
    rw [run_bind_ok (run_getNode_some hv)]
    exact (h nd hnd (hn.some hnd).1 (hn.some hnd).2).fwd hp hr
  · obtain ⟨vnd, hvnd, hr⟩ := bind_getNode_inv hr
    rw [virt_getElem?] at hvnd
    cases hnd : s.nodes[n]? with
    | none => rw [hnd] at hvnd; cases hvnd
    | some nd =>
      rw [hnd] at hvnd
      simp only [Option.map_some, Option.some.injEq] at hvnd
      subst hvnd
      obtain ⟨s', hs', -, -⟩ := (h nd hnd (hn.some hnd).1 (hn.some hnd).2).rev hp hr
      exact ⟨s', by rw [run_bind_ok (run_getNode_some hnd)]; exact hs'⟩

theorem BSimAt.mod [Keeps P] {f f' : State → State} (h : virt g (f s) = f' (virt g s)) (hn : (f s).nodes = s.nodes)
    (hpi : (f s).propagateInvalidity = s.propagateInvalidity) :
    BSimAt P g s (modify f : M Unit) (modify f') := by
  intro hp
  refine ⟨fun r s' hr => ?_, fun r t hr => ?_⟩
  · rw [run_modify] at hr ⊢; cases hr; rw [h]; exact ⟨rfl, Keeps.of_nodes hp hn hpi⟩
  · rw [run_modify] at hr; cases hr; exact ⟨_, run_modify _ _⟩

theorem BSimAt.mod_seq [Keeps P] {f f' : State → State} {k k' : Unit → M β} (h : virt g (f s) = f' (virt g s))
    (hn : (f s).nodes = s.nodes) (hpi : (f s).propagateInvalidity = s.propagateInvalidity)
    (hk : BSimAt P g (f s) (k ()) (k' ())) :
    BSimAt P g s ((modify f : M Unit) >>= k) ((modify f' : M Unit) >>= k') :=
  BSimAt.seq (BSimAt.mod h hn hpi) fun a s1 h1 => by
    rw [run_modify] at h1; cases h1; exact hk

theorem BSimAt.cond {c c' : Prop} {_ : Decidable c} {_ : Decidable c'} {a b a' b' : M α} (hc : c ↔ c')
    (ha : c → BSimAt P g s a a') (hb : ¬ c → BSimAt P g s b b') :
    BSimAt P g s (if c then a else b) (if c' then a' else b') := by
  by_cases h : c
  · rw [if_pos h, if_pos (hc.1 h)]; exact ha h
  · rw [if_neg h, if_neg (fun h' => h (hc.2 h'))]; exact hb h

/-- change of the carried invariant -/
theorem BSimAt.change {P' : State → Prop} {x x' : M α} (h : BSimAt P' g s x x') (h1 : P s → P' s)
    (h2 : ∀ s', P' s' → P s') : BSimAt P g s x x' := by
  intro hp
  refine ⟨fun r s' hr => ?_, fun r t hr => (h (h1 hp)).2 r t hr⟩
  obtain ⟨e, p'⟩ := h.fwd (h1 hp) hr
  exact ⟨e, h2 s' p'⟩

/-- both programs re-written -/
theorem BSimAt.congr {x y x' y' : M α} {s0 : State} (h : BSimAt P g s0 y y')
    (e1 : x.run.run s = y.run.run s0) (e2 : x'.run.run (virt g s) = y'.run.run (virt g s0)) (hp0 : P s → P s0) :
    BSimAt P g s x x' := by
  intro hp
  refine ⟨fun r s' hr => ?_, fun r t hr => ?_⟩
  · rw [e1] at hr; rw [e2]; exact h.fwd (hp0 hp) hr
  · rw [e2] at hr
    obtain ⟨s', hs', -, -⟩ := h.rev (hp0 hp) hr
    exact ⟨s', by rw [e1]; exact hs'⟩

/-- a commuting node update that keeps the carried invariant -/
theorem BSimAt.modNode' (n : Nat) {f f' : Node → Node}
    (hf : ∀ gv nd, virtNode gv (f nd) = f' (virtNode gv nd))
    (hP : P s → P { s with nodes := s.nodes.modify n f }) :
    BSimAt P g s (Engine.modNode n f) (Engine.modNode n f') := by
  intro hp
  refine ⟨fun r s' hr => ?_, fun r t hr => ?_⟩
  · rw [run_modNode] at hr ⊢
    cases hr
    refine ⟨?_, hP hp⟩
    congr 1
    simp only [virt]
    congr 1
    apply Array.ext
    · simp
    · intro i h1 h2
      simp only [Array.getElem_mapIdx, Array.getElem_modify]
      split
      · rename_i e; subst e; exact (hf _ _).symm
      · rfl
  · rw [run_modNode] at hr; cases hr; exact ⟨_, run_modNode _ _ _⟩

/-- a commuting benign node update -/
theorem BSim.modNode [Keeps P] (n : Nat) {f f' : Node → Node}
    (hf : ∀ gv nd, virtNode gv (f nd) = f' (virtNode gv nd)) (hk : ∀ nd, NKeep nd (f nd)) :
    BSim P g (Engine.modNode n f) (Engine.modNode n f') :=
  fun _ => BSimAt.modNode' n hf fun hp => Keeps.modify n f hp hk

theorem BSim.forIn {γ : Type} (l : List γ) {f f' : γ → β → M (ForInStep β)}
    (h : ∀ a, a ∈ l → ∀ b, BSim P g (f a b) (f' a b)) (b : β) :
    BSim P g (ForIn.forIn l b f) (ForIn.forIn l b f') := by
  induction l generalizing b with
  | nil => intro s; rw [List.forIn_nil, List.forIn_nil]; exact BSimAt.ret _
  | cons a l ih =>
    intro s
    rw [List.forIn_cons, List.forIn_cons]
    refine BSimAt.seq (h a (List.mem_cons_self ..) b s) fun r s1 _ => ?_
    cases r with
    | done b' => exact BSimAt.ret _
    | yield b' => exact ih (fun a ha => h a (List.mem_cons_of_mem _ ha)) b' s1

theorem BSim.dassert (c : Bool) (site : String) : BSim P g (Engine.dassert c site) (Engine.dassert c site) := by
  intro s hp
  by_cases hc : s.cfg.debug = true ∧ c = false
  · refine ⟨fun r s' h => ?_, fun r t h => ?_⟩
    · rw [run_dassert, if_pos hc] at h; cases h
    · rw [run_dassert, if_pos (show (virt g s).cfg.debug = true ∧ c = false from hc)] at h; cases h
  · refine ⟨fun r s' h => ?_, fun r t h => ?_⟩
    · rw [run_dassert, if_neg hc] at h; cases h
      rw [run_dassert]
      exact ⟨if_neg (show ¬ ((virt g s).cfg.debug = true ∧ c = false) from hc), hp⟩
    · rw [run_dassert, if_neg (show ¬ ((virt g s).cfg.debug = true ∧ c = false) from hc)] at h; cases h
      exact ⟨s, by rw [run_dassert, if_neg hc]⟩

theorem BSim.assertM (c : Bool) (site : String) : BSim P g (Engine.assertM c site) (Engine.assertM c site) := by
  intro s hp
  cases c with
  | true =>
    refine ⟨fun r s' h => ?_, fun r t h => ?_⟩
    · rw [run_assertM, if_pos rfl] at h ⊢; cases h; exact ⟨rfl, hp⟩
    · rw [run_assertM, if_pos rfl] at h; cases h; exact ⟨s, by rw [run_assertM, if_pos rfl]⟩
  | false =>
    refine ⟨fun r s' h => ?_, fun r t h => ?_⟩
    · rw [run_assertM, if_neg (by decide)] at h; cases h
    · rw [run_assertM, if_neg (by decide)] at h; cases h

theorem BSimAt.ite_left {c : Prop} {_ : Decidable c} {a b x' : M α}
    (ha : c → BSimAt P g s a x') (hb : ¬ c → BSimAt P g s b x') : BSimAt P g s (if c then a else b) x' := by
  by_cases h : c
  · rw [if_pos h]; exact ha h
  · rw [if_neg h]; exact hb h

theorem BSimAt.map {x x' : M α} (f : α → β) (hx : BSimAt P g s x x') : BSimAt P g s (f <$> x) (f <$> x') := by
  rw [map_eq_pure_bind, map_eq_pure_bind]
  exact BSimAt.seq hx fun _ _ _ => BSimAt.ret _

theorem BSimAt.discard {x x' : M α} (hx : BSimAt P g s x x') : BSimAt P g s (discard x) (discard x') := by
  unfold Functor.discard
  exact BSimAt.map (Function.const α PUnit.unit) hx

/-- a read-only program followed by a continuation: the continuation starts in the same state -/
theorem BSimAt.ro_seq {x x' : M α} {f f' : α → M β} (hro : Step.Pres SameS x) (hx : BSimAt P g s x x')
    (hf : ∀ a, BSimAt P g s (f a) (f' a)) : BSimAt P g s (x >>= f) (x' >>= f') := by
  refine BSimAt.seq hx fun a s1 h1 => ?_
  have e : s1 = s := hro.h s _ s1 h1
  rw [e]; exact hf a

theorem BSim.mapM {γ : Type} {f f' : γ → M β} (h : ∀ a, BSim P g (f a) (f' a)) (l : List γ) :
    BSim P g (l.mapM f) (l.mapM f') := by
  induction l with
  | nil => intro s; simp only [List.mapM_nil]; exact BSimAt.ret _
  | cons a l ih =>
    intro s
    simp only [List.mapM_cons]
    exact BSimAt.seq (h a s) fun _ s1 _ => BSimAt.seq (ih s1) fun _ _ _ => BSimAt.ret _

end

/-- closes `∀ nd, NKeep nd (f nd)` -/
macro "vkeep" : tactic => `(tactic| (intro nd; exact ⟨rfl, rfl, rfl, rfl, rfl⟩))

/-- registered `BSim` lemmas -/
syntax "bsim_leaf" : tactic
macro_rules | `(tactic| bsim_leaf) => `(tactic| fail "no leaf")

set_option hygiene false in
macro "bsim_step" : tactic => `(tactic| first
  | with_reducible exact BSimAt.ret _
  | with_reducible exact BSimAt.thr _ _
  | with_reducible exact BSimAt.pan _ _
  | ((with_reducible refine BSimAt.get_seq' fun hps => ?_); try vnorm)
  | ((with_reducible refine BSimAt.getNode_seq fun nd hnd hne hval => ?_); try vnorm)
  | ((with_reducible refine BSimAt.mod_seq ?_ ?_ ?_ ?_) <;> (first | rfl | skip))
  | ((with_reducible refine BSimAt.mod ?_ ?_ ?_) <;> rfl)
  | ((with_reducible refine BSim.at ?_ _); bsim_leaf)
  | ((with_reducible refine BSim.at (BSim.forIn _ (fun _ _ _ => ?_) _) _); intro _)
  | (with_reducible refine BSimAt.seq ?_ fun _ _ _ => ?_)
  | (refine BSimAt.cond Iff.rfl (fun _ => ?_) (fun _ => ?_)))

macro "bsim" : tactic => `(tactic| repeat (any_goals bsim_step))

set_option hygiene false in
/-- a `match` on the kind of the node last read by `getNode` -/
macro "bsim_kind" : tactic => `(tactic| (
  simp only [virtNode_kind?]
  rcases hk : nd.kind? with _ | k
  all_goals try cases k
  all_goals simp only [Option.map_none, Option.map_some, virtKind]
  all_goals try exact absurd (kind_of_kind? hk) (hne _)
  bsim))

macro_rules | `(tactic| bsim_leaf) => `(tactic| with_reducible exact BSim.dassert _ _)
macro_rules | `(tactic| bsim_leaf) => `(tactic| with_reducible exact BSim.assertM _ _)
macro_rules | `(tactic| bsim_leaf) => `(tactic| ((with_reducible refine BSim.modNode _ ?_ ?_) <;> first | vcomm | vkeep))

end IncrVerif.Proofs.TidyH.RT
