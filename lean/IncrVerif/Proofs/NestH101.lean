import IncrVerif.Proofs.NestH100
/-!
# Total correctness of the drain when the graph GROWS during the drain, part 2: the direct-recompute chain and `drainHeap`

Potential argument relative to the node count `M` of the FINAL state (known in `TotIf`): `Φ_M(s) = unrun s + (M - s.nodes.size)` goes down by at least one with
every `recomputeOne` on the current node (`T2g.unrun_lt`: the node gets its stamp; a new node adds one to `unrun` and removes one from `M - size`).  A run of
a change detector is called with the CURRENT fuel, which must still be `≥ need1 M`; so

* the chain `recompute env fuel n` returns if `need1 M + Φ_M(s) ≤ fuel`      (`T2g.recompute_totG`),
* the drain `drainHeap env fuel` returns if `need1 M + Φ_M(s) + 1 ≤ fuel`    (`T2g.drainHeap_totG`),

and `Φ_M(s) ≤ M`: **`drain_totalG`: `LcStepTotG need1 env N → DrainTotG need2 env N` whenever `need1` is monotone, `1 ≤ need1 sz` and
`need1 sz + sz + 1 ≤ need2 sz`** (and the same for the chain, `chain_totalG`).

With ONE bound `needFuel` for both contracts (`LcStepTot env N → DrainTot env N`, as `T2x.lean` states them) the implication is NOT provable from the contract:
the drain with fuel `F = needFuel M` calls its last change detector with fuel `≤ F - 2 < needFuel M`.  Instances:
`drain_total2 : LcStepTotG stepFuel env N → DrainTot env N` with `stepFuel sz = 3 * sz + 7` (`stepFuel sz + sz + 1 = needFuel sz`), and
`drain_total2' : LcStepTot env N → DrainTotG (fun sz => needFuel sz + sz + 1) env N`.
-/
namespace IncrVerif.Proofs.NestH
open IncrVerif.Engine IncrVerif.Driver IncrVerif.Proofs IncrVerif.Proofs.Step IncrVerif.Proofs.Sched IncrVerif.Proofs.Quiet
open IncrVerif.Proofs.BindH

/-- CONTRACT (parametrised): the direct-recompute chain returns if the state it ends in has room for `need` -/
def ChainTotG (need : Nat → Nat) (env : Env) (N : Nat) : Prop :=
  ∀ (fuel n : Nat) (s : State), DInv env s (some n) → DT env N s →
    TotIf (recompute env fuel n) s (HasRoomG need N fuel) (fun _ s' => DT env N s' ∧ DInv env s' none)

namespace T2g

/-- **the chain**: whatever the outcome of `recompute env fuel n` from the drain invariant, if the state `s'` it ends in has at most `N` nodes and
`need M + Φ_M(s) ≤ fuel` (`M = s'.nodes.size`), then the chain returned, `DT` and the drain invariant hold again, and the potential went down -/
theorem recompute_totG {need : Nat → Nat} {env : Env} {N : Nat} (L : LcStepTotG need env N)
    (hmono : ∀ a b, a ≤ b → need a ≤ need b) (hpos : ∀ sz, 1 ≤ need sz) :
    ∀ (fuel n : Nat) (s s' : State) (r : Except Panic Unit), DInv env s (some n) → DT env N s →
    (recompute env fuel n).run.run s = (r, s') → s'.nodes.size ≤ N →
    need s'.nodes.size + unrun s + s'.nodes.size ≤ fuel + s.nodes.size →
    r = .ok () ∧ DT env N s' ∧ DInv env s' none ∧ unrun s' + s.nodes.size + 1 ≤ unrun s + s'.nodes.size := by
  intro fuel
  induction fuel with
  | zero =>
    intro n s s' r I _ h _ hf
    exfalso
    unfold recompute at h
    rw [run_throw] at h
    cases h
    obtain ⟨-, hnlt, -, -, hfr⟩ := I.cur_facts
    have := unrun_pos hnlt hfr
    omega
  | succ fuel ih =>
    intro n s s' r I D h hN hf
    obtain ⟨-, hnlt, -, -, hfr⟩ := I.cur_facts
    have hup := unrun_pos hnlt hfr
    unfold recompute at h
    rcases h1 : (recomputeOne env fuel n).run.run s with ⟨r1, s1⟩
    have hs1 := recomputeOne_size I h1
    rw [run_bind_of h1] at h
    cases r1 with
    | error e =>
      exfalso
      dsimp only at h
      have hp := hpos s1.nodes.size
      cases h
      obtain ⟨r0, e0, -⟩ := step_tot L I D h1 hN (by omega) (by omega)
      cases e0
    | ok r1 =>
      dsimp only at h
      obtain ⟨I1, A1, f1, hn1, -⟩ := recomputeOne_invB2 (lcStepsOK_F2' env) I (DT.aux D) h1
      have hlt := unrun_lt f1 I.stamps hnlt hfr hn1
      cases r1 with
      | none =>
        have h' : (pure () : M Unit).run.run s1 = (r, s') := h
        rw [run_pure] at h'
        have hp := hpos s1.nodes.size
        cases h'
        obtain ⟨r0, -, D1⟩ := step_tot L I D h1 hN (by omega) (by omega)
        exact ⟨rfl, D1, I1, hlt⟩
      | some p =>
        have h' : (recompute env fuel p).run.run s1 = (r, s') := h
        have hs' := recompute_size fuel p s1 s' r I1 A1 h'
        have hm := hmono _ _ hs'
        have hp := hpos s1.nodes.size
        obtain ⟨r0, -, D1⟩ := step_tot L I D h1 (by omega) (by omega) (by omega)
        obtain ⟨e, D', I', hlt'⟩ := ih p s1 s' r I1 D1 h' hN (by omega)
        exact ⟨e, D', I', by omega⟩

/-- **the drain**: whatever the outcome of `drainHeap env fuel` from the drain invariant, if the state `s'` it ends in has at most `N` nodes and
`need M + Φ_M(s) + 1 ≤ fuel` (`M = s'.nodes.size`), then the drain returned, and `DT` and the drain invariant hold again -/
theorem drainHeap_totG {need : Nat → Nat} {env : Env} {N : Nat} (L : LcStepTotG need env N)
    (hmono : ∀ a b, a ≤ b → need a ≤ need b) (hpos : ∀ sz, 1 ≤ need sz) :
    ∀ (fuel : Nat) (s s' : State) (r : Except Panic Unit), DInv env s none → DT env N s →
    (drainHeap env fuel).run.run s = (r, s') → s'.nodes.size ≤ N →
    need s'.nodes.size + unrun s + s'.nodes.size + 1 ≤ fuel + s.nodes.size →
    r = .ok () ∧ DT env N s' ∧ DInv env s' none := by
  intro fuel
  induction fuel with
  | zero =>
    intro s s' r _ _ h _ hf
    exfalso
    unfold drainHeap at h
    rw [run_throw] at h
    cases h
    omega
  | succ fuel ih =>
    intro s s' r I D h hN hf
    unfold drainHeap at h
    obtain ⟨r1, s1, h1⟩ := rchRemoveMin_ok I.heap
    rw [run_bind_of h1] at h
    dsimp only at h
    cases r1 with
    | none =>
      have hp := rchRemoveMin_inv I.heap h1
      simp only at hp
      have h' : (pure () : M Unit).run.run s1 = (r, s') := h
      rw [run_pure] at h'
      cases h'
      rw [hp.1]
      exact ⟨rfl, D, I⟩
    | some n =>
      obtain ⟨I1, f1⟩ := pop_invB I h1
      have A1 := (lcStepsOK_F2' env).pop s s1 n I (DT.aux D) h1
      have D1 := pop_DT I.heap h1 D
      have hle := unrun_le f1 I.stamps
      rcases h2 : (recompute env fuel n).run.run s1 with ⟨r2, s2⟩
      have h' : (recompute env fuel n >>= fun _ => drainHeap env fuel).run.run s1 = (r, s') := h
      rw [run_bind_of h2] at h'
      cases r2 with
      | error e =>
        exfalso
        dsimp only at h'
        cases h'
        obtain ⟨e0, -⟩ := recompute_totG L hmono hpos fuel n s1 _ _ I1 D1 h2 hN (by omega)
        cases e0
      | ok u =>
        dsimp only at h'
        obtain ⟨I2, A2, -⟩ := recompute_invB2 (lcStepsOK_F2' env) fuel n s1 s2 I1 A1 h2
        have hs' := drainHeap_size fuel s2 s' r I2 A2 h'
        have hm := hmono _ _ hs'
        obtain ⟨-, D2, -, hlt⟩ := recompute_totG L hmono hpos fuel n s1 s2 _ I1 D1 h2 (by omega) (by omega)
        exact ih s2 s' r I2 D2 h' hN (by omega)

end T2g

/-! ## the headline theorems -/

/-- **the direct-recompute chain is total** (parametrised contract) -/
theorem chain_totalG {need1 need2 : Nat → Nat} {env : Env} {N : Nat}
    (hmono : ∀ a b, a ≤ b → need1 a ≤ need1 b) (hpos : ∀ sz, 1 ≤ need1 sz) (h12 : ∀ sz, need1 sz + sz ≤ need2 sz)
    (L : LcStepTotG need1 env N) : ChainTotG need2 env N := by
  intro fuel n s I D r s' h hB
  obtain ⟨hN, hf⟩ := hB
  have h1 := unrun_le_size s
  have h2 := h12 s'.nodes.size
  obtain ⟨e, D', I', -⟩ := T2g.recompute_totG L hmono hpos fuel n s s' r I D h hN (by omega)
  exact ⟨(), e, D', I'⟩

/-- **the drain is total** (parametrised contract): the bound of the drain exceeds the bound of the runs of change detectors by `sz + 1` -/
theorem drain_totalG {need1 need2 : Nat → Nat} {env : Env} {N : Nat}
    (hmono : ∀ a b, a ≤ b → need1 a ≤ need1 b) (hpos : ∀ sz, 1 ≤ need1 sz) (h12 : ∀ sz, need1 sz + sz + 1 ≤ need2 sz)
    (L : LcStepTotG need1 env N) : DrainTotG need2 env N := by
  intro fuel s I D r s' h hB
  obtain ⟨hN, hf⟩ := hB
  have h1 := unrun_le_size s
  have h2 := h12 s'.nodes.size
  obtain ⟨e, D', -⟩ := T2g.drainHeap_totG L hmono hpos fuel s s' r I D h hN (by omega)
  exact ⟨(), e, D'⟩

/-- the same, also returning the drain invariant of the final state -/
theorem drain_totalG_inv {need1 need2 : Nat → Nat} {env : Env} {N : Nat}
    (hmono : ∀ a b, a ≤ b → need1 a ≤ need1 b) (hpos : ∀ sz, 1 ≤ need1 sz) (h12 : ∀ sz, need1 sz + sz + 1 ≤ need2 sz)
    (L : LcStepTotG need1 env N) (fuel : Nat) (s : State) (I : DInv env s none) (D : DT env N s) :
    TotIf (drainHeap env fuel) s (HasRoomG need2 N fuel) (fun _ s' => DT env N s' ∧ DInv env s' none) := by
  intro r s' h hB
  obtain ⟨hN, hf⟩ := hB
  have h1 := unrun_le_size s
  have h2 := h12 s'.nodes.size
  obtain ⟨e, D', I'⟩ := T2g.drainHeap_totG L hmono hpos fuel s s' r I D h hN (by omega)
  exact ⟨(), e, D', I'⟩

/-! ## instances for `needFuel` -/

/-- the fuel bound for ONE run of a change detector such that `stepFuel sz + sz + 1 = needFuel sz` -/
def stepFuel (sz : Nat) : Nat := 3 * sz + 7

/-- the only facts about `needFuel` / `stepFuel` that are used -/
theorem T2g.fuel_facts :
    (∀ a b, a ≤ b → stepFuel a ≤ stepFuel b) ∧ (∀ sz, 1 ≤ stepFuel sz) ∧ (∀ sz, stepFuel sz + sz + 1 ≤ needFuel sz) ∧
    (∀ a b, a ≤ b → needFuel a ≤ needFuel b) ∧ (∀ sz, 1 ≤ needFuel sz) := by
  unfold stepFuel needFuel
  refine ⟨?_, ?_, ?_, ?_, ?_⟩ <;> intros <;> omega

/-- **total correctness of the drain**, for the contracts of `T2x.lean` with the bound of the runs of change detectors lowered to `stepFuel` -/
theorem drain_total2 {env : Env} {N : Nat} (L : LcStepTotG stepFuel env N) : DrainTot env N :=
  drain_totalG T2g.fuel_facts.1 T2g.fuel_facts.2.1 T2g.fuel_facts.2.2.1 L

/-- the chain, same bounds -/
theorem chain_total2 {env : Env} {N : Nat} (L : LcStepTotG stepFuel env N) : ChainTotG needFuel env N :=
  chain_totalG T2g.fuel_facts.1 T2g.fuel_facts.2.1 (fun sz => by have := T2g.fuel_facts.2.2.1 sz; omega) L

/-- **total correctness of the drain**, for `LcStepTot` as it stands, with the bound of the drain raised by `sz + 1` -/
theorem drain_total2' {env : Env} {N : Nat} (L : LcStepTot env N) : DrainTotG (fun sz => needFuel sz + sz + 1) env N :=
  drain_totalG (need1 := needFuel) T2g.fuel_facts.2.2.2.1 T2g.fuel_facts.2.2.2.2 (fun _ => Nat.le_refl _) L

/-- the chain, same bounds -/
theorem chain_total2' {env : Env} {N : Nat} (L : LcStepTot env N) : ChainTotG (fun sz => needFuel sz + sz) env N :=
  chain_totalG (need1 := needFuel) T2g.fuel_facts.2.2.2.1 T2g.fuel_facts.2.2.2.2 (fun _ => Nat.le_refl _) L

end IncrVerif.Proofs.NestH
