import IncrVerif.Proofs.MapOld13
/-!
# map_with_old fragment: from-scratch evaluation, and the values after the drain (M1, L1)
-/
namespace IncrVerif.Proofs.MapOldH
open IncrVerif.Engine IncrVerif.Proofs IncrVerif.Proofs.Step IncrVerif.Proofs.Sched IncrVerif.Proofs.Quiet

/-- from-scratch evaluation of node `n` (fuel `k`) on the current values of the variables: as `Sched.eval`, and a
map_with_old node `mapWithOld g i` evaluates to the plain function `sp g` of machine `g` applied to the evaluation of
its input -/
def evalW (env : Env) (sp : Nat → Val → Val) (s : State) : Nat → Nat → Option Val
  | 0, _ => none
  | k+1, n =>
    match (s.nodeD n).kind with
    | .const v => some v
    | .var c => (s.vars[c]?).map (·.value)
    | .map f args => (evalArgs (fun a => evalW env sp s k a) args).map (env.fn f)
    | .fold f init cs => (evalArgs (fun a => evalW env sp s k a) cs).map (List.foldl (env.foldStep f) init)
    | .mapWithOld g i => (evalW env sp s k i).map (sp g)
    | _ => none

variable {env : Env} {C : Val → Prop} {sp : Nat → Val → Val} {s : State}

/-- the evaluation of the virtual static graph is the evaluation of the actual graph -/
theorem eval_virt {G : Nat → Prop} (F : WFrag env G s) (k n : Nat) :
    eval (virtEnv env sp) (virt s) k n = evalW env sp s k n := by
  induction k generalizing n with
  | zero => rfl
  | succ k ih =>
    unfold Sched.eval evalW
    have hfun : (fun a => Sched.eval (virtEnv env sp) (virt s) k a) = (fun a => evalW env sp s k a) := funext ih
    rw [hfun, virt_nodeD, virtNode_kind]
    have hlt : ∀ {f args}, (s.nodeD n).kind = .map f args → n < s.nodes.size := by
      intro f args hk
      by_cases h : n < s.nodes.size
      · exact h
      · rw [nodeD_default_of_ge s n (by omega)] at hk; cases hk
    cases hk : (s.nodeD n).kind with
    | map f args =>
      simp only [virtKind]
      have hR := F.kind n (hlt hk)
      rw [hk] at hR
      have : (virtEnv env sp).fn f = env.fn f := funext fun vals => virtEnv_fn_real env sp hR.1 vals
      rw [this]
    | mapWithOld g i =>
      simp only [virtKind, evalArgs]
      have hR := F.kind n (F.lt_of_mwo hk)
      rw [hk] at hR
      cases evalW env sp s k i with
      | none => rfl
      | some v => simp [virtEnv_fn_mach env sp hR.1]
    | _ => rfl

theorem evalW_congr {s s' : State} (hk : ∀ m, (s'.nodeD m).kind = (s.nodeD m).kind)
    (hv : s'.vars = s.vars) (k n : Nat) : evalW env sp s' k n = evalW env sp s k n := by
  induction k generalizing n with
  | zero => rfl
  | succ k ih =>
    unfold evalW
    rw [hk n, hv]
    have : (fun a => evalW env sp s' k a) = (fun a => evalW env sp s k a) := funext ih
    rw [this]
    simp only [ih]

/-- on the kinds of the fragment, the virtual kind determines the kind -/
theorem virtKind_inj {G : Nat → Prop} {k k' : Kind} (h : WKind env G k) (h' : WKind env G k')
    (e : virtKind k = virtKind k') : k = k' := by
  cases k <;> cases k' <;> simp only [virtKind] at e <;> simp only [WKind] at h h' <;> first
    | exact e
    | (exfalso; cases e; first | (have := h.1; unfold woBase at this; omega) | (have := h'.1; unfold woBase at this; omega))
    | (exfalso; cases e)
    | (injection e with e1 e2; injection e2 with e3
       have e4 : enc _ = enc _ := Nat.add_left_cancel e1
       have := congrArg dec e4
       rw [dec_enc h.1, dec_enc h'.1] at this
       subst this; subst e3; rfl)

theorem kind_of_frame {G : Nat → Prop} {s s' : State} (F : WFrag env G s) (F' : WFrag env G s')
    (f : Frame (virt s) (virt s')) (m : Nat) : (s'.nodeD m).kind = (s.nodeD m).kind := by
  have hsz : s'.nodes.size = s.nodes.size := by have := f.size; rwa [virt_size, virt_size] at this
  by_cases hm : m < s.nodes.size
  · have h1 := (f.shape m).kind
    rw [virt_nodeD, virt_nodeD, virtNode_kind, virtNode_kind] at h1
    exact virtKind_inj (F'.kind m (by rw [hsz]; exact hm)) (F.kind m hm) h1
  · rw [nodeD_default_of_ge s m (by omega), nodeD_default_of_ge s' m (by omega)]

/-- the drain invariant of the fragment static + map_with_old, between two pops -/
def DrainInvW (env : Env) (C : Val → Prop) (sp : Nat → Val → Val) (s : State) : Prop := DInvW env C sp s none

/-- **M1, L1.** With the drain invariant and an empty recompute heap, every necessary node is valid, is not stale,
and what it stores and READS is its from-scratch evaluation. -/
theorem drainedW_values (D : DInvW env C sp s none) (he : s.rch.length = 0) (n : Nat)
    (hn : s.isNecessary n = true) (k : Nat) (hk : (s.nodeD n).height.toNat < k) :
    (s.nodeD n).valid = true ∧ s.isStale n = false ∧ s.value env n = evalW env sp s k n ∧
      (evalW env sp s k n).isSome = true := by
  have hnv : (virt s).isNecessary n = true := by rw [virt_isNecessary]; exact hn
  have hk' : ((virt s).nodeD n).height.toNat < k := by rw [virt_nodeD, virtNode_height]; exact hk
  have he' : (virt s).rch.length = 0 := he
  obtain ⟨h1, h2, -, h4, h5⟩ := drained_values D.inv he' n hnv k hk'
  rw [virt_nodeD, virtNode_valid] at h1
  rw [virt_isStale] at h2
  rw [eval_virt D.frag] at h4 h5
  rw [D.frag.virt_value] at h4
  exact ⟨h1, h2, h4, h5⟩

/-- **M1, L3 + L1.** After a successful `drainHeap` from the drain invariant: the drain invariant, an empty heap,
the same graph and variables, and every necessary node reads its from-scratch value. -/
theorem drainHeapW_values {fuel : Nat} {s' : State} (V : ValOK env C sp) (D : DInvW env C sp s none)
    (h : (drainHeap env fuel).run.run s = (.ok (), s')) :
    DInvW env C sp s' none ∧ s'.rch.length = 0 ∧ DStep env sp s s' ∧ s'.vars = s.vars ∧
      ∀ n, s.isNecessary n = true → ∀ k, (s.nodeD n).height.toNat < k →
        s'.isNecessary n = true ∧ s'.isStale n = false ∧ s'.value env n = evalW env sp s k n ∧
          (evalW env sp s k n).isSome = true := by
  obtain ⟨D', he, f⟩ := drainHeapW_inv V fuel s s' D h
  refine ⟨D', he, f, f.frame.vars, fun n hn k hk => ?_⟩
  have hn' : s'.isNecessary n = true := by
    have := f.frame.nec n; rw [virt_isNecessary, virt_isNecessary] at this; rw [this]; exact hn
  have hh : (s'.nodeD n).height = (s.nodeD n).height := by
    have := (f.frame.shape n).height
    rwa [virt_nodeD, virt_nodeD, virtNode_height, virtNode_height] at this
  obtain ⟨-, h2, h3, h4⟩ := drainedW_values D' he n hn' k (by rw [hh]; exact hk)
  have hkind := kind_of_frame D.frag D'.frag f.frame
  have hev : evalW env sp s' k n = evalW env sp s k n := evalW_congr hkind f.frame.vars k n
  rw [hev] at h3 h4
  exact ⟨hn', h2, h3, h4⟩

end IncrVerif.Proofs.MapOldH
