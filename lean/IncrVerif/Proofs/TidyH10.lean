import IncrVerif.Proofs.TidyH9
/-!
# T2b, part 2: the exact-simulation ladder (heap, heights, necessity cascades, unlinking)
Obtained from `MapOld4–6` by changing the namespace and the tactic names.
-/
namespace IncrVerif.Proofs.TidyH.WT
open IncrVerif.Engine IncrVerif.Proofs IncrVerif.Proofs.Step IncrVerif.Proofs.Sched IncrVerif.Proofs.Quiet
open IncrVerif.Proofs.MapOldH

variable {sp : Nat → Val → Val}
section
macro_rules | `(tactic| esim_leaf) => `(tactic| with_reducible exact Sim.dassert _ _)
macro_rules | `(tactic| esim_leaf) => `(tactic| with_reducible exact Sim.assertM _ _)
macro_rules | `(tactic| esim_leaf) => `(tactic| ((with_reducible refine Sim.modNode _ ?_ ?_) <;> first | wcomm | wkindt))

theorem Sim.addParent (c i p : Nat) : Sim (Engine.addParent c i p) (Engine.addParent c i p) := by
  intro s; unfold Engine.addParent; esim
macro_rules | `(tactic| esim_leaf) => `(tactic| with_reducible exact Sim.addParent _ _ _)

theorem Sim.setHeight (n : Nat) (h : Int) : Sim (Engine.setHeight n h) (Engine.setHeight n h) := by
  intro s; unfold Engine.setHeight; esim
macro_rules | `(tactic| esim_leaf) => `(tactic| with_reducible exact Sim.setHeight _ _)


theorem Sim.rchLink (n : Nat) : Sim (Engine.rchLink n) (Engine.rchLink n) := by
  intro s; unfold Engine.rchLink; esim
macro_rules | `(tactic| esim_leaf) => `(tactic| with_reducible exact Sim.rchLink _)

theorem Sim.rchInsert (n : Nat) : Sim (Engine.rchInsert n) (Engine.rchInsert n) := by
  intro s; unfold Engine.rchInsert; esim
macro_rules | `(tactic| esim_leaf) => `(tactic| with_reducible exact Sim.rchInsert _)



/-- in the fragment there is no map_ref node: `markMapRefUnknown` does nothing, in both states -/
theorem Sim.markMapRefUnknown (fuel n : Nat) :
    Sim (Engine.markMapRefUnknown fuel n) (Engine.markMapRefUnknown fuel n) := by
  intro s
  cases fuel with
  | zero => unfold Engine.markMapRefUnknown; exact SimAt.thr _
  | succ fuel =>
    unfold Engine.markMapRefUnknown
    esim
    esim_kind
macro_rules | `(tactic| esim_leaf) => `(tactic| with_reducible exact Sim.markMapRefUnknown _ _)

end


section
/-- loops: same list, bodies simulate each other -/
macro "esim_loop" : tactic =>
  `(tactic| ((with_reducible refine Sim.at (Sim.forIn _ (fun _ _ => ?_) _) _); intro _))

theorem Sim.getBind (b : Nat) : Sim (Engine.getBind b) (Engine.getBind b) := by
  intro s; unfold Engine.getBind; esim
  split <;> esim
macro_rules | `(tactic| esim_leaf) => `(tactic| with_reducible exact Sim.getBind _)

theorem Sim.getExpert (b : Nat) : Sim (Engine.getExpert b) (Engine.getExpert b) := by
  intro s; unfold Engine.getExpert; esim
  split <;> esim
macro_rules | `(tactic| esim_leaf) => `(tactic| with_reducible exact Sim.getExpert _)

theorem Sim.logEv (e : Event) : Sim (Engine.logEv e) (Engine.logEv e) := by
  intro s; unfold Engine.logEv; esim
macro_rules | `(tactic| esim_leaf) => `(tactic| with_reducible exact Sim.logEv _)

theorem Sim.modExpert (e : Nat) (f : ExpertRec → ExpertRec) : Sim (Engine.modExpert e f) (Engine.modExpert e f) := by
  intro s; unfold Engine.modExpert; esim
macro_rules | `(tactic| esim_leaf) => `(tactic| with_reducible exact Sim.modExpert _ _)

theorem Sim.observabilityChange (e : Nat) (b : Bool) :
    Sim (Engine.observabilityChange e b) (Engine.observabilityChange e b) := by
  intro s; unfold Engine.observabilityChange; esim
macro_rules | `(tactic| esim_leaf) => `(tactic| with_reducible exact Sim.observabilityChange _ _)

theorem Sim.scopeHeight (sc : Scope) : Sim (Engine.scopeHeight sc) (Engine.scopeHeight sc) := by
  intro s; unfold Engine.scopeHeight
  cases sc with
  | top => esim
  | bind b => esim
macro_rules | `(tactic| esim_leaf) => `(tactic| with_reducible exact Sim.scopeHeight _)

theorem Sim.scopeIsNecessary (sc : Scope) : Sim (Engine.scopeIsNecessary sc) (Engine.scopeIsNecessary sc) := by
  intro s; unfold Engine.scopeIsNecessary
  cases sc with
  | top => esim
  | bind b => esim
macro_rules | `(tactic| esim_leaf) => `(tactic| with_reducible exact Sim.scopeIsNecessary _)

theorem Sim.handleAfterStabilisation (n : Nat) :
    Sim (Engine.handleAfterStabilisation n) (Engine.handleAfterStabilisation n) := by
  intro s; unfold Engine.handleAfterStabilisation; esim
macro_rules | `(tactic| esim_leaf) => `(tactic| with_reducible exact Sim.handleAfterStabilisation _)

theorem Sim.maybeHandleAfterStabilisation (n : Nat) :
    Sim (Engine.maybeHandleAfterStabilisation n) (Engine.maybeHandleAfterStabilisation n) := by
  intro s; unfold Engine.maybeHandleAfterStabilisation; esim
macro_rules | `(tactic| esim_leaf) => `(tactic| with_reducible exact Sim.maybeHandleAfterStabilisation _)


theorem Sim.link (env : Env) (fuel : Nat) :
    (∀ n, Sim (becameNecessary env fuel n) (becameNecessary (virtEnv env sp) fuel n)) ∧
    (∀ c i p, Sim (addParentWithoutAdjustingHeights env fuel c i p)
      (addParentWithoutAdjustingHeights (virtEnv env sp) fuel c i p)) := by
  induction fuel with
  | zero =>
    constructor
    · intro n s; unfold becameNecessary; esim
    · intro c i p s; unfold addParentWithoutAdjustingHeights; esim
  | succ fuel ih =>
    constructor
    · intro n s
      unfold becameNecessary
      esim
      all_goals first
        | exact ih.2 _ _ _ _
        | esim_kind
    · intro c i p s
      unfold addParentWithoutAdjustingHeights
      esim
      all_goals first
        | exact ih.1 _ _
        | esim_kind
        | (exfalso; simp_all; done)
      all_goals esim_kind

end


section
theorem Sim.removeParent (c i p : Nat) : Sim (Engine.removeParent c i p) (Engine.removeParent c i p) := by
  intro s; unfold Engine.removeParent; esim
  split <;> esim
macro_rules | `(tactic| esim_leaf) => `(tactic| with_reducible exact Sim.removeParent _ _ _)

theorem Sim.rchUnlink (n : Nat) : Sim (Engine.rchUnlink n) (Engine.rchUnlink n) := by
  intro s; unfold Engine.rchUnlink; esim
  split <;> esim
  split <;> esim
  split <;> esim
macro_rules | `(tactic| esim_leaf) => `(tactic| with_reducible exact Sim.rchUnlink _)

theorem Sim.rchRemove (n : Nat) : Sim (Engine.rchRemove n) (Engine.rchRemove n) := by
  intro s; unfold Engine.rchRemove; esim
macro_rules | `(tactic| esim_leaf) => `(tactic| with_reducible exact Sim.rchRemove _)

theorem Sim.rchRemoveMin : Sim Engine.rchRemoveMin Engine.rchRemoveMin := by
  intro s; unfold Engine.rchRemoveMin; esim
  split <;> esim
macro_rules | `(tactic| esim_leaf) => `(tactic| with_reducible exact Sim.rchRemoveMin)

theorem Sim.rchMinHeight : Sim Engine.rchMinHeight Engine.rchMinHeight := by
  intro s; unfold Engine.rchMinHeight; esim
  exact SimAt.ret _
macro_rules | `(tactic| esim_leaf) => `(tactic| with_reducible exact Sim.rchMinHeight)

theorem Sim.unlink (fuel : Nat) :
    (∀ n, Sim (becameUnnecessary fuel n) (becameUnnecessary fuel n)) ∧
    (∀ n, Sim (checkIfUnnecessary fuel n) (checkIfUnnecessary fuel n)) ∧
    (∀ n, Sim (removeChildren fuel n) (removeChildren fuel n)) := by
  induction fuel with
  | zero =>
    refine ⟨?_, ?_, ?_⟩
    · intro n s; unfold becameUnnecessary; esim
    · intro n s; unfold checkIfUnnecessary; esim
    · intro n s; unfold removeChildren; esim
  | succ fuel ih =>
    refine ⟨?_, ?_, ?_⟩
    · intro n s
      unfold becameUnnecessary
      esim
      all_goals first
        | exact ih.2.2 _ _
        | esim_kind
    · intro n s
      unfold checkIfUnnecessary
      esim
      all_goals exact ih.1 _ _
    · intro n s
      unfold removeChildren
      esim
      all_goals exact ih.2.1 _ _

theorem Sim.becameUnnecessary (fuel n : Nat) :
    Sim (Engine.becameUnnecessary fuel n) (Engine.becameUnnecessary fuel n) := (Sim.unlink fuel).1 n
theorem Sim.checkIfUnnecessary (fuel n : Nat) :
    Sim (Engine.checkIfUnnecessary fuel n) (Engine.checkIfUnnecessary fuel n) := (Sim.unlink fuel).2.1 n
theorem Sim.removeChildren (fuel n : Nat) :
    Sim (Engine.removeChildren fuel n) (Engine.removeChildren fuel n) := (Sim.unlink fuel).2.2 n
macro_rules | `(tactic| esim_leaf) => `(tactic| with_reducible exact Sim.becameUnnecessary _ _)
macro_rules | `(tactic| esim_leaf) => `(tactic| with_reducible exact Sim.checkIfUnnecessary _ _)
macro_rules | `(tactic| esim_leaf) => `(tactic| with_reducible exact Sim.removeChildren _ _)

theorem Sim.propagateInvalidity (fuel : Nat) :
    Sim (Engine.propagateInvalidity fuel) (Engine.propagateInvalidity fuel) := by
  intro s hn r s' hr
  cases fuel with
  | zero => unfold Engine.propagateInvalidity at hr ⊢; exact SimAt.thr _ hn r s' hr
  | succ fuel =>
    unfold Engine.propagateInvalidity at hr ⊢
    rw [run_bind_get] at hr ⊢
    rw [virt_propagateInvalidity]
    rw [hn.pinv] at hr ⊢
    cases hr
    exact ⟨rfl, hn⟩
macro_rules | `(tactic| esim_leaf) => `(tactic| with_reducible exact Sim.propagateInvalidity _)

theorem Sim.becameNecessary (env : Env) (fuel n : Nat) :
    Sim (Engine.becameNecessary env fuel n) (Engine.becameNecessary (virtEnv env sp) fuel n) := (Sim.link env fuel).1 n
theorem Sim.addParentWithoutAdjustingHeights (env : Env) (fuel c i p : Nat) :
    Sim (Engine.addParentWithoutAdjustingHeights env fuel c i p)
      (Engine.addParentWithoutAdjustingHeights (virtEnv env sp) fuel c i p) := (Sim.link env fuel).2 c i p
macro_rules | `(tactic| esim_leaf) => `(tactic| with_reducible exact Sim.becameNecessary _ _ _)
macro_rules | `(tactic| esim_leaf) => `(tactic| with_reducible exact Sim.addParentWithoutAdjustingHeights _ _ _ _ _)

theorem Sim.becameNecessaryPropagate (env : Env) (fuel n : Nat) :
    Sim (Engine.becameNecessaryPropagate env fuel n) (Engine.becameNecessaryPropagate (virtEnv env sp) fuel n) := by
  intro s; unfold Engine.becameNecessaryPropagate; esim
macro_rules | `(tactic| esim_leaf) => `(tactic| with_reducible exact Sim.becameNecessaryPropagate _ _ _)

end

end IncrVerif.Proofs.TidyH.WT
