import IncrVerif.Proofs.DriverH12
import IncrVerif.Proofs.DriverH13
/-!
# `RmSpec`, part 5: bookkeeping — `EF` from the frames, record updates read in the virtual state, the prepared state
-/
namespace IncrVerif.Proofs.DriverH
open IncrVerif.Engine IncrVerif.Driver IncrVerif.Proofs IncrVerif.Proofs.Step IncrVerif.Proofs.Sched
open IncrVerif.Proofs.ExpertH IncrVerif.Proofs.ExpertH.QR IncrVerif.Proofs.Xp

/-! ## `EF` from the frames -/

theorem EF.of_frames {e : Nat} {s s' : State} (cf : CFrame s s') (hf : HasF s s')
    (hnum : ∀ m, (s.nodeD m).numOnUpdateHandlers ≤ 0)
    (hp : s.propagateInvalidity = []) (hp' : s'.propagateInvalidity = [])
    (hpc : s.panicCountdown = none) (xg : XG s s')
    (hoth : ∀ e', e' ≠ e → s'.experts[e']? = s.experts[e']? ∨
      ∀ er er', s.experts[e']? = some er → s'.experts[e']? = some er' → recK er' = recK er)
    (hself : ∀ er', s'.experts[e]? = some er' → er'.forceStale = true) :
    EF (fun e' => e' = e) s s' := by
  have hk := cf.key
  simp only [stateKey, Prod.mk.injEq] at hk
  obtain ⟨k1, k2, k3, k4, k5, k6, k7, k8, k9, k10, k11, k12, -, k14, k15, -, k17, -, -⟩ := hk
  have hsame : ∀ e' er er', e' ≠ e → s.experts[e']? = some er → s'.experts[e']? = some er' → recK er' = recK er := by
    intro e' er er' hne h1 h2
    rcases hoth e' hne with h | h
    · rw [h, h1] at h2; cases h2; rfl
    · exact h er er' h1 h2
  refine ⟨cf.size, cf.node, ?_, xg.xsize, fun e0 er he => xg.xrec he, fun e0 er er' hD => hsame e0 er er' hD, ?_,
    Nat.le_of_eq xg.nextDep.symm⟩
  · simp only [eKey, Prod.mk.injEq]
    exact ⟨k1, k17, k3, k4, k5, k6, k2, k9, k10, k11, k7, k8, (hf hnum).1, by rw [hp, hp'], k12, k14, k15,
      by rw [cf.pc hpc, hpc]⟩
  · intro e0 er er' h1 h2
    by_cases h : e0 = e
    · subst h; exact Or.inr (hself er' h2)
    · have := hsame e0 er er' h h1 h2
      simp only [recK, Prod.mk.injEq] at this
      exact Or.inl ⟨this.1, this.2.1⟩

/-! ## record updates read in the virtual state -/

theorem xRec_putExpert_ne {e e' : Nat} (r : ExpertRec) (s : State) (h : e' ≠ e) :
    xRec (putExpert e r s).experts e' = xRec s.experts e' := by
  unfold xRec; rw [putExpert_get_ne _ _ (Ne.symm h)]

/-- replacing the record of the expert node `x` by one with `forceStale` up is a kind change of the virtual node -/
theorem rekind_putExpert {s : State} {x e : Nat} {er r' : ExpertRec} (hlt : x < s.nodes.size)
    (hk : (s.nodeD x).kind = .expert e) (hx : s.experts[e]? = some er)
    (hinj : ∀ m, (s.nodeD m).kind = .expert e → m = x) (hf : r'.forceStale = true) :
    Rekind x (.fold (xBase + r'.f) (.int 0) (r'.children.map (·.child))) (virt s) (virt (putExpert e r' s)) := by
  refine ⟨by rw [virt_size]; exact hlt, by rw [virt_size, virt_size]; rfl, rfl, rfl, rfl, rfl, rfl, ?_, ?_⟩
  · intro m hm
    rw [virt_nodeD, virt_nodeD, putExpert_nodeD]
    apply virtNode_congrD
    intro e' he'
    have : e' ≠ e := by
      intro h; rw [h] at he'; exact hm (hinj m he')
    exact xRec_putExpert_ne _ _ this
  · rw [virt_nodeD, virt_nodeD, putExpert_nodeD]
    unfold virtNode
    simp only [hk, virtKind, ExpertH.forced, xRec_some (putExpert_get r' hx), hf, if_true]

theorem virt_putExpert_kids {s : State} {x e : Nat} {er r' : ExpertRec}
    (hk : (s.nodeD x).kind = .expert e) (hx : s.experts[e]? = some er) :
    kids ((virt (putExpert e r' s)).nodeD x).kind = r'.children.map (·.child) := by
  rw [virt_kids, putExpert_nodeD, hk]
  simp only [kidsX, xRec_some (putExpert_get r' hx)]

/-! ## the prepared state -/

section
variable {E : Env} {rk : Nat → Nat} {s : State} {x e i : Nat} {er : ExpertRec}

theorem rmPrepared_eq (x e : Nat) (er : ExpertRec) (i : Nat) (s : State) :
    ∃ N, rmPrepared x e er i s =
      { s with nodes := N,
               experts := s.experts.setIfInBounds e
                 { er with children := swapToEnd er.children i, forceStale := true } } := by
  unfold rmPrepared
  split
  · unfold swappedIdx
    split
    · exact ⟨_, rfl⟩
    · exact ⟨_, rfl⟩
  · exact ⟨_, rfl⟩

theorem rmPrepared_setParents (x e : Nat) (er : ExpertRec) (i : Nat) (s : State) (m : Nat) :
    (rmPrepared x e er i s).nodeD m =
      { s.nodeD m with parents := ((rmPrepared x e er i s).nodeD m).parents } := by
  rw [rmPrepared_nodeD]
  split
  · unfold prepNode
    split
    · rfl
    · rfl
  · rfl

theorem renameIdx_id_of_not_mem (x i k : Nat) (l : List (Nat × Nat)) (h1 : (x, i) ∉ l) (h2 : (x, k) ∉ l) :
    l.map (renameIdx x i k) = l := by
  have : ∀ pc ∈ l, renameIdx x i k pc = pc := by
    intro pc hpc
    unfold renameIdx
    have e1 : (pc == (x, i)) = false := by
      simp only [beq_eq_false_iff_ne, ne_eq]; intro h; rw [h] at hpc; exact h1 hpc
    have e2 : (pc == (x, k)) = false := by
      simp only [beq_eq_false_iff_ne, ne_eq]; intro h; rw [h] at hpc; exact h2 hpc
    simp [e1, e2]
  conv => rhs; rw [← List.map_id l]
  exact List.map_congr_left this

theorem renameIdx_self_id (x i : Nat) (l : List (Nat × Nat)) : l.map (renameIdx x i i) = l := by
  have : ∀ pc ∈ l, renameIdx x i i pc = pc := by
    intro pc _
    unfold renameIdx
    by_cases h : pc = (x, i)
    · simp [h]
    · have e1 : (pc == (x, i)) = false := by simpa using h
      simp [e1]
  conv => rhs; rw [← List.map_id l]
  exact List.map_congr_left this

/-- the parent lists of the prepared state, given that the entries `(x, j)` sit in the list of child `j` -/
theorem rmPrepared_parents (hi : i < er.children.length)
    (hsym : ∀ m j, (x, j) ∈ (s.nodeD m).parents → (er.children[j]?).map (·.child) = some m) (m : Nat) :
    ((rmPrepared x e er i s).nodeD m).parents =
      (s.nodeD m).parents.map (renameIdx x i (er.children.length - 1)) := by
  have hl : er.children.length - 1 < er.children.length := by omega
  rw [rmPrepared_nodeD]
  by_cases hm : m < s.nodes.size
  · rw [if_pos hm]
    unfold prepNode
    by_cases hne : (i != er.children.length - 1) = true
    · by_cases hmc : m = (er.children[i]?.getD default).child ∨
          m = (er.children[er.children.length - 1]?.getD default).child
      · rw [if_pos ⟨hne, hmc⟩]; rfl
      · rw [if_neg (fun h => hmc h.2)]
        symm
        apply renameIdx_id_of_not_mem
        · intro h
          have := hsym m i h
          rw [List.getElem?_eq_getElem hi] at this
          apply hmc; left
          rw [List.getElem?_eq_getElem hi]
          simpa using this.symm
        · intro h
          have := hsym m _ h
          rw [List.getElem?_eq_getElem hl] at this
          apply hmc; right
          rw [List.getElem?_eq_getElem hl]
          simpa using this.symm
    · rw [if_neg (fun h => hne h.1)]
      have : i = er.children.length - 1 := by simpa using hne
      rw [← this, renameIdx_self_id]
  · rw [if_neg hm, nodeD_default_of_ge s m (by omega)]; rfl

end

end IncrVerif.Proofs.DriverH
