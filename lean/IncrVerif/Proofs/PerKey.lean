import IncrVerif.Proofs.Memo
import IncrVerif.Proofs.SymDiff
/-!
# Helper lemmas for C16 (per-key operators `incr_mapi_`, `incr_mapi_cutoff`): local facts

* `createNode_run'`: the closed form of `createNode`.
* `perKey_run`: what `elabInstr … (.perKey cut fam x)` builds.
* `expertValue` for the operator's result node and for a per-key input node.
* `perKeyDriver` when the input map did not change.
-/
namespace IncrVerif.Proofs.PerKey
open IncrVerif.Engine IncrVerif.Proofs.Obs

/-- the state after `createNode k sc c` -/
def created (k : Kind) (sc : Scope) (c : CutoffK) (s : State) : State :=
  let s1 : State := { s with counters := { s.counters with created := s.counters.created + 1 },
                             nodes := s.nodes.push { kind := k, createdIn := sc, cutoff := c } }
  match sc with
  | .top => s1
  | .bind b => { s1 with binds := s1.binds.modify b fun x =>
      { x with allNodesCreatedOnRhs := x.allNodesCreatedOnRhs ++ [s.nodes.size] } }

theorem createNode_run' (k : Kind) (sc : Scope) (c : CutoffK) (s : State) :
    (createNode k sc c).run.run s = (.ok s.nodes.size, created k sc c s) := by
  unfold createNode created
  cases sc <;> simp only [bumpCounter, modBind, run_bind, run_get, run_modify, run_pure]

@[simp] theorem created_nodes (k sc c s) :
    (created k sc c s).nodes = s.nodes.push { kind := k, createdIn := sc, cutoff := c } := by
  unfold created; cases sc <;> rfl
@[simp] theorem created_experts (k sc c s) : (created k sc c s).experts = s.experts := by
  unfold created; cases sc <;> rfl
@[simp] theorem created_perkeys (k sc c s) : (created k sc c s).perkeys = s.perkeys := by
  unfold created; cases sc <;> rfl
@[simp] theorem created_nextDep (k sc c s) : (created k sc c s).nextDep = s.nextDep := by
  unfold created; cases sc <;> rfl
@[simp] theorem created_currentScope (k sc c s) : (created k sc c s).currentScope = s.currentScope := by
  unfold created; cases sc <;> rfl

theorem modify_push_self {α} (a : Array α) (x : α) (f : α → α) :
    (a.push x).modify a.size f = a.push (f x) := by
  apply Array.ext
  · simp
  · intro i h1 h2
    simp only [Array.getElem_modify, Array.getElem_push]
    by_cases h : i < a.size
    · have : a.size ≠ i := by omega
      simp [h, this]
    · have : i = a.size := by simp at h1; omega
      simp [this]

/-- the four nodes, the expert record and the operator record a per-key operator starts with -/
theorem perKey_run (loc : List Nat) (lhsVal : Val) (cut : Option CutoffK) (fam : Nat) (x : Opnd)
    (s : State) (a0 : Nat) (hres : Own.resolve s loc x = .ok a0) :
    ∃ s', (elabInstr loc lhsVal (.perKey cut fam x)).run.run s = (.ok (some (s.nodes.size + 3)), s') ∧
      s'.nodes = (((s.nodes.push { kind := .map fnIdent [a0], createdIn := s.currentScope }).push
          { kind := .expert s.experts.size, createdIn := s.currentScope }).push
          { kind := .map (fnPerKey + s.perkeys.size) [s.nodes.size], createdIn := s.currentScope }).push
          { kind := .map fnIdent [s.nodes.size + 1], createdIn := s.currentScope } ∧
      s'.experts = s.experts.push
        { f := 0, pk := some (s.perkeys.size, none), node := s.nodes.size + 1,
          children := [{ dep := s.nextDep, child := s.nodes.size + 2, cb := none }], forceStale := true } ∧
      s'.perkeys = s.perkeys.push
        { fam := fam, cut := cut, result := s.nodes.size + 1, lhsChange := s.nodes.size + 2 } ∧
      s'.nextDep = s.nextDep + 1 ∧ s'.currentScope = s.currentScope := by
  unfold elabInstr
  simp only [run_bind, run_get, Own.resolveOpnd_run, hres, createNode_run', run_modify, modExpert,
    map_eq_pure_bind, run_pure, created_nodes, created_experts, created_perkeys, created_nextDep,
    created_currentScope, Array.size_push]
  refine ⟨_, rfl, ?_, ?_, ?_, ?_, ?_⟩
  · simp
  · simp [modify_push_self]
  · simp
  · simp
  · simp

/-! ## the values of the operator's own expert nodes -/

theorem run_getExpert_some {s : State} {e : Nat} {er : ExpertRec} (h : s.experts[e]? = some er) :
    (getExpert e).run.run s = (.ok er, s) := by
  simp only [getExpert, run_bind, run_get, h, run_pure]

/-- what the edge callbacks of the result node have stored so far, by key (the operator's `acc`) -/
def accOf (s : State) (er : ExpertRec) (op : Nat) : List (Int × Int) :=
  (s.perkeys[op]?.getD default).prevNodes.filterMap fun (k, (_, dep)) =>
    match er.slots.lookup dep with
    | some v => some (k, v.toInt)
    | none => none

theorem expertValue_result (env : Env) (e : Nat) (depVals slotVals : List (Option Val)) (s : State)
    (er : ExpertRec) (op : Nat) (he : s.experts[e]? = some er) (hpk : er.pk = some (op, none)) :
    (expertValue env e depVals slotVals).run.run s
      = (.ok (.map (IncrVerif.AMap.ofList (accOf s er op))), s) := by
  unfold expertValue
  rw [run_bind_ok (run_getExpert_some he), run_bind, run_get]
  simp only [hpk]
  rfl

theorem expertValue_input (env : Env) (e : Nat) (depVals slotVals : List (Option Val)) (s : State)
    (er : ExpertRec) (op : Nat) (key : Int) (he : s.experts[e]? = some er)
    (hpk : er.pk = some (op, some key)) :
    (expertValue env e depVals slotVals).run.run s =
      match ((s.perkeys[op]?.map (·.prevMap)).getD []).lookup key with
      | some v => (.ok (.int v), s)
      | none => (.error (.site "incremental-map:per-key:prev_map-unwrap"), s) := by
  unfold expertValue
  rw [run_bind_ok (run_getExpert_some he), run_bind, run_get]
  simp only [hpk]
  cases ((s.perkeys[op]?.map (·.prevMap)).getD []).lookup key <;> rfl

/-! ## the driver when the input map did not change -/

theorem modify_self {α} (a : Array α) (i : Nat) (f : α → α) (h : ∀ x, a[i]? = some x → f x = x) :
    a.modify i f = a := by
  apply Array.ext
  · simp
  · intro j h1 h2
    simp only [Array.getElem_modify]
    split
    · rename_i hij
      subst hij
      exact h _ (Array.getElem?_eq_getElem h2)
    · rfl

theorem perKeyDriver_nil (env : Env) (fuel op : Nat) (newMap : List (Int × Int)) (s : State)
    (hd : IncrVerif.MapOps.symmetricDiff (s.perkeys[op]?.getD default).prevMap newMap = []) :
    (perKeyDriver env fuel op newMap).run.run s =
      (.ok (), { s with perkeys := s.perkeys.modify op fun p => { p with prevMap := newMap } }) := by
  unfold perKeyDriver
  simp only [run_bind, run_get, hd, List.forIn_nil, run_pure, run_modify]

theorem perKeyDriver_same (env : Env) (fuel op : Nat) (s : State)
    (hs : IncrVerif.AMap.Sorted (s.perkeys[op]?.getD default).prevMap) :
    (perKeyDriver env fuel op (s.perkeys[op]?.getD default).prevMap).run.run s = (.ok (), s) := by
  rw [perKeyDriver_nil env fuel op _ s ((IncrVerif.Proofs.symmetricDiff_nil_iff _ _ hs hs).2 rfl)]
  congr 1
  have : s.perkeys.modify op (fun p => { p with prevMap := (s.perkeys[op]?.getD default).prevMap })
      = s.perkeys := by
    apply modify_self
    intro x hx
    simp [hx]
  rw [this]

/-! ## concrete states for the non-vacuity examples of `Props/C16.lean` -/

/-- one node (a constant holding a map), named `n0` -/
def exPkStart : State :=
  { State.init 4 with
    nodes := #[{ kind := .const (.map [(5, 1)]), createdIn := .top }], top := #[0], handles := [0] }

/-- an operator instance 0 in mid-life: result record 0 (its callbacks stored 42 for dependency 7),
per-key input record 1 for key 5, per-key input record 2 for key 6 (not in the map);
`prevMap = {5 ↦ 1}`, `prevNodes = {5 ↦ (node 9, dependency 7)}` -/
def exPkLive : State :=
  { State.init 4 with
    experts := #[{ f := 0, pk := some (0, none), slots := [(7, .int 42)] },
                 { f := 0, pk := some (0, some 5) }, { f := 0, pk := some (0, some 6) }],
    perkeys := #[{ fam := 0, prevMap := [(5, 1)], prevNodes := [(5, (9, 7))] }] }

end IncrVerif.Proofs.PerKey
