import IncrVerif.Proofs.OnceF14
/-!
# C02, combined fragment, part 15: the value frame `VR` (continued) — node creation, variable writes, effects, per-key operators
-/
open IncrVerif.Engine IncrVerif.Proofs IncrVerif.Proofs.Step
namespace IncrVerif.Proofs.OnceF

/-! ### node creation, var writes, effects -/
theorem PresV.bumpCounter (n0 : Nat) (f : Counters → Counters) : Step.Pres (VR n0) (bumpCounter f) := by
  unfold Engine.bumpCounter; qpres
v_leaf PresV.bumpCounter
theorem PresV.createNode (n0 : Nat) (k sc c) : Step.Pres (VR n0) (createNode k sc c) := by
  unfold Engine.createNode; qpres
v_leaf PresV.createNode
theorem PresV.createVar (n0 : Nat) (v sc) : Step.Pres (VR n0) (createVar v sc) := by unfold Engine.createVar; qpres
v_leaf PresV.createVar
theorem PresV.createBind (n0 : Nat) (b l) : Step.Pres (VR n0) (createBind b l) := by unfold Engine.createBind; qpres
v_leaf PresV.createBind
set_option maxHeartbeats 1000000 in
theorem PresV.elabInstr (n0 : Nat) (loc v i) : Step.Pres (VR n0) (elabInstr loc v i) := by
  cases i with
  | mapOp op => cases op <;> (simp only [Engine.elabInstr]; qpres)
  | _ => simp only [Engine.elabInstr]; qpres
v_leaf PresV.elabInstr
theorem PresV.elabTemplateBase (n0 : Nat) (t v init) : Step.Pres (VR n0) (elabTemplateBase t v init) := by
  unfold Engine.elabTemplateBase; qpres
v_leaf PresV.elabTemplateBase
theorem PresV.memoCall (n0 : Nat) (env m key) : Step.Pres (VR n0) (memoCall env m key) := by
  unfold Engine.memoCall; qpres
v_leaf PresV.memoCall
theorem PresV.elabInstrM (n0 : Nat) (env loc v i) : Step.Pres (VR n0) (elabInstrM env loc v i) := by
  unfold Engine.elabInstrM; qpres
v_leaf PresV.elabInstrM
theorem PresV.elabTemplate (n0 : Nat) (env t v) : Step.Pres (VR n0) (elabTemplate env t v) := by
  unfold Engine.elabTemplate; qpres
v_leaf PresV.elabTemplate
theorem PresV.didSetVarWhileNotStabilising (n0 : Nat) (v) : Step.Pres (VR n0) (didSetVarWhileNotStabilising v) := by
  unfold Engine.didSetVarWhileNotStabilising; qpres
v_leaf PresV.didSetVarWhileNotStabilising
theorem PresV.writeVar (n0 : Nat) (v f b) : Step.Pres (VR n0) (writeVar v f b) := by unfold Engine.writeVar; qpres
v_leaf PresV.writeVar
theorem PresV.disallowFutureUse (n0 : Nat) (o) : Step.Pres (VR n0) (disallowFutureUse o) := by
  unfold Engine.disallowFutureUse; qpres
v_leaf PresV.disallowFutureUse
/-- dropping a `Var` handle touches `vars` and `deadVars` only -/
theorem PresV.dropVarHandle (n0 : Nat) (v) : Step.Pres (VR n0) (dropVarHandle v) := by
  unfold Engine.dropVarHandle; qpres
v_leaf PresV.dropVarHandle
theorem PresV.runEffectBasic (n0 : Nat) (env e) : Step.Pres (VR n0) (runEffectBasic env e) := by
  unfold Engine.runEffectBasic; qpres
v_leaf PresV.runEffectBasic
theorem PresV.runEffects (n0 : Nat) (env fuel effs arg) : Step.Pres (VR n0) (runEffects env fuel effs arg) := by
  unfold Engine.runEffects; qpres
v_leaf PresV.runEffects


/-! ### per-key operators, operator closures -/
theorem PresV.expertValue (n0 : Nat) (env e d sl) : Step.Pres (VR n0) (expertValue env e d sl) := by
  unfold Engine.expertValue; qpres
v_leaf PresV.expertValue
theorem PresV.withOldEvents (n0 : Nat) (env g n σ old x new did) :
    Step.Pres (VR n0) (withOldEvents env g n σ old x new did) := by
  unfold Engine.withOldEvents; qpres
v_leaf PresV.withOldEvents
set_option maxHeartbeats 1000000 in
theorem PresV.perKeyDriver (n0 : Nat) (env fuel op m) : Step.Pres (VR n0) (perKeyDriver env fuel op m) := by
  unfold Engine.perKeyDriver; qpres
v_leaf PresV.perKeyDriver


end IncrVerif.Proofs.OnceF
