import IncrVerif.Proofs.FullH63
/-!
# C01 full fragment: NON-VACUITY, part 5 — the observer is disallowed, the node is re-observed (kernel-checked)
-/
namespace IncrVerif.Proofs.FullH
open IncrVerif.Engine IncrVerif.Driver IncrVerif.Proofs IncrVerif.Proofs.Step IncrVerif.Proofs.Sched IncrVerif.Proofs.Quiet
open IncrVerif.Proofs.BindH

set_option maxRecDepth 100000 in
/-- the observer is disallowed: after the fifth `stabilise` it is unlinked, it cannot be read, the bind's main node 4 is unnecessary;
the re-observation (observer 1) reads, after the sixth `stabilise`, `(2+3)+3 = 8` (outer lhs `n1 = 2` even, inner lhs `n2 = 3` odd) and,
after the seventh (`n2 := 6`: the INNER lhs is even again), `(2+6)+70 = 78` -/
theorem exHistF_reobserve :
    C2h.readB fEnv (exHistF.take 14) 0 = none ∧
    EX.factF (exHistF.take 14) (fun s => (s.observers[0]?.map (·.state), s.isNecessary 4)) = some (some .unlinked, false) ∧
    C2h.readB fEnv (exHistF.take 19) 1 = some (.int 8) ∧
    C2h.readB fEnv exHistF 1 = some (.int 78) ∧
    C2h.readB fEnv exHistF 0 = none :=
  ⟨by decide +kernel, by decide +kernel, by decide +kernel, by decide +kernel, by decide +kernel⟩

end IncrVerif.Proofs.FullH
