import IncrVerif.Proofs.BindH30
import IncrVerif.Proofs.BindH42
/-!
# Binds, BF2: the auxiliary invariant `F0Inv` is kept by a run of a static-kind / `bindMain` node and by `remove_min`
-/
namespace IncrVerif.Proofs.BindH
open IncrVerif.Engine IncrVerif.Proofs IncrVerif.Proofs.Step IncrVerif.Proofs.Sched IncrVerif.Proofs.Quiet
namespace BF

/-- `F0Inv` only reads: the shape of the nodes (kind, createdIn, validity, cutoff, parents, observers,
`forceNecessary`), the `heightInAhh` markers, the number of nodes, `binds`, `top`, `ahh`, `propagateInvalidity`,
`currentScope`, `panicCountdown` -/
theorem F0Inv.transfer {env : Env} {s s' : State} (A : F0Inv env s)
    (hsz : s'.nodes.size = s.nodes.size)
    (hsh : ∀ m, SameShape (s.nodeD m) (s'.nodeD m))
    (hah : HAh s s')
    (hb : s'.binds = s.binds) (htop : s'.top = s.top) (hahh : s'.ahh = s.ahh)
    (hpinv : s'.propagateInvalidity = s.propagateInvalidity) (hsc : s'.currentScope = s.currentScope)
    (hpc : s'.panicCountdown = none) : F0Inv env s' := by
  have hch : ∀ m, m < s.nodes.size → s'.children m = s.children m := fun m hm =>
    children_congr_B (hsh m).kind (hsh m).valid hb (A.frag.node m hm).kind
  refine
    { frag := ⟨hpc, hsc.trans A.frag.scope, fun n hn => ?_⟩
      nodup := fun c => by rw [(hsh c).parents]; exact A.nodup c
      ahh := ⟨by rw [hahh]; exact A.ahh.length, ?_, fun m => (hah m).trans (A.ahh.marks m)⟩
      noRhsNodes := fun b br h => A.noRhsNodes b br (by rw [← hb]; exact h)
      closures := fun b br v h => ?_
      rhsOld := fun b br o h ho => ?_
      recs := fun b br h => ?_
      pinv := hpinv.trans A.pinv
      noForce := fun m => by rw [(hsh m).forceNecessary]; exact A.noForce m
      lcObs := fun m b h => by rw [(hsh m).observers]; exact A.lcObs m b (by rw [← (hsh m).kind]; exact h)
      lcCut := fun m b h => by rw [(hsh m).cutoff]; exact A.lcCut m b (by rw [← (hsh m).kind]; exact h) }
  · -- the fragment
    rw [hsz] at hn
    have N := A.frag.node n hn
    have sh := hsh n
    refine ⟨by rw [sh.valid]; exact N.valid, by rw [sh.kind]; exact N.kind, by rw [sh.cutoff]; exact N.cutoff,
      by rw [sh.createdIn]; exact N.top, fun c hc => N.kidsLt c (by rw [← hch n hn]; exact hc), ?_, ?_, ?_⟩
    · intro b h
      rw [hb]; exact N.lcRec b (by rw [← sh.kind]; exact h)
    · intro b lc h
      rw [hb]; exact N.mainRec b lc (by rw [← sh.kind]; exact h)
    · intro c b hc h
      rw [sh.kind]
      exact N.lcChild c b (by rw [← hch n hn]; exact hc) (by rw [← (hsh c).kind]; exact h)
  · -- the buckets of the adjust-heights heap
    intro i hi
    have hi' : i < s.ahh.queues.size := by rw [← hahh]; exact hi
    have := A.ahh.buckets i hi'
    simp only [hahh]; exact this
  · -- closures
    obtain ⟨h1, k, r, h2, h3, h4, h5⟩ := A.closures b br v (by rw [← hb]; exact h)
    exact ⟨h1, k, r, h2, by rw [htop]; exact h3, h4, fun b' => by rw [(hsh r).kind]; exact h5 b'⟩
  · obtain ⟨h1, h2⟩ := A.rhsOld b br o (by rw [← hb]; exact h) ho
    exact ⟨h1, fun b' => by rw [(hsh o).kind]; exact h2 b'⟩
  · obtain ⟨h1, h2, h3, h4⟩ := A.recs b br (by rw [← hb]; exact h)
    exact ⟨h1, by rw [hsz]; exact h2, by rw [(hsh _).kind]; exact h3, by rw [(hsh _).kind]; exact h4⟩

end BF

/-- `F0Inv` is kept by a successful `recomputeOne` on a necessary node of a static kind or of kind `bindMain` -/
theorem recomputeOne_stepB_F0 {env : Env} {fuel n : Nat} {s s' : State} {r : Option Nat}
    (g : BGraph env s) (hi : HeapInv s) (hn : s.isNecessary n = true)
    (hk : StaticKind env (s.nodeD n).kind ∨ ∃ b lc, (s.nodeD n).kind = .bindMain b lc)
    (hvals : ∀ c, c ∈ s.children n → ∃ v, (s.nodeD c).value = some v)
    (h : (recomputeOne env fuel n).run.run s = (.ok r, s')) (A : F0Inv env s) : F0Inv env s' := by
  obtain ⟨v, ch, -, R⟩ := recomputeOne_stepB g hi hn hk hvals h
  have K := BF.recomputeOne_keyD_B g hn hk hvals h
  have H := BF.recomputeOne_hah g hn hk hvals h
  simp only [KeyD, stateKeyD, Prod.mk.injEq] at K
  obtain ⟨-, -, hsc, htop, -, -, hpinv, -, -, -, hahh⟩ := K
  refine BF.F0Inv.transfer A R.size (fun m => ?_) H R.binds htop hahh hpinv hsc R.pc
  by_cases e : m = n
  · rw [e]; exact R.shape
  · exact SameShape.of_nodeSame (R.other m e)

/-- `F0Inv` is kept by `remove_min` -/
theorem pop_F0 {env : Env} {s s1 : State} {n : Nat} (hi : HeapInv s)
    (hr : rchRemoveMin.run.run s = (.ok (some n), s1)) (A : F0Inv env s) : F0Inv env s1 := by
  have hpop := rchRemoveMin_inv hi hr
  simp only at hpop
  obtain ⟨-, -, -, hs1, -⟩ := hpop
  have hnode : ∀ m, s1.nodeD m =
      if n = m ∧ m < s.nodes.size then { s.nodeD m with heightInRch := -1 } else s.nodeD m := by
    intro m
    rw [hs1]
    exact nodeD_modify { s with rch := s1.rch } n m (fun x => { x with heightInRch := -1 })
  refine BF.F0Inv.transfer A (by rw [hs1]; simp) (fun m => ?_) (fun m => ?_) (by rw [hs1]) (by rw [hs1])
    (by rw [hs1]) (by rw [hs1]) (by rw [hs1]) (by rw [hs1]; exact A.frag.pc)
  · rw [hnode]; split <;> exact ⟨rfl, rfl, rfl, rfl, rfl, rfl, rfl, rfl⟩
  · rw [hnode]; split <;> rfl

end IncrVerif.Proofs.BindH
