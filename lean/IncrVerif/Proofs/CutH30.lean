import IncrVerif.Proofs.CutH29
-- Port of Proofs/Sched11.lean to ARBITRARY cutoffs (scratch name T11); overview in Props/C06History.lean
/-!
# Safety of the drain for ARBITRARY cutoffs: the theorems

Port of `Proofs/Sched11.lean`.  `mhas_ok`, `mcvm_safe`, `rchRemoveMin_ok` are re-used from `Sched`.
-/
namespace IncrVerif.Proofs.CutH
open IncrVerif.Engine IncrVerif.Proofs IncrVerif.Proofs.Step IncrVerif.Proofs.Sched
variable {e : Bool}

/-- under `Safe.dep` the cutoff check of `maybe_change_value` has a verdict -/
theorem mcvChanges_isSome (env : Env) {s : State} {n : Nat} (v : Val)
    (hdep : ∀ i, (s.nodeD n).cutoff = .dependOn i → i < s.nodes.size) :
    ∃ d, mcvChanges env s n v = some d := by
  unfold mcvChanges
  cases (s.nodeD n).value with
  | none => exact ⟨_, rfl⟩
  | some old =>
    dsimp only
    unfold cutoffVerdict
    cases hc : (s.nodeD n).cutoff with
    | dependOn i => simp only [some_of_lt (hdep i hc), Option.map_some]; exact ⟨_, rfl⟩
    | _ => exact ⟨_, rfl⟩

/-! ## `maybe_change_value` and `recompute_one` -/

/-- `maybe_change_value n v` run in a state `S0` of the `Upd` family of `s` -/
theorem mcv_safe {env : Env} {fuel n : Nat} {v : Val} {s S0 s' : State} {pe : Panic}
    (g : Graph env s) (hi : HeapInv s) (S : Safe s) (hn : s.isNecessary n = true)
    (hfresh : ∀ p, p ∈ (s.nodeD n).parents.map (·.1) → (s.nodeD p).recomputedAt < s.stabNum)
    (hU : Upd n s S0)
    (h : (maybeChangeValue env fuel n v).run.run S0 = (.error pe, s')) :
    pe = .outOfFuel ∧ fuel = 0 := by
  obtain ⟨hlt, _, _, _⟩ := g.nec n hn
  have hlt0 : n < S0.nodes.size := by rw [hU.size]; exact hlt
  have hn0 := some_of_lt hlt0
  generalize hW : setValue n (some v) (logged (mcvLog env S0 n v) S0) = W
  have hUW : Upd n s W := by rw [← hW]; exact (hU.logged _).setValue _
  obtain ⟨d, hd⟩ := mcvChanges_isSome env (s := S0) (n := n) v (fun i hi => by
    rw [hU.shape.cutoff] at hi; rw [hU.size]; exact S.dep n i hi)
  cases d
  rotate_left
  · rw [mcv_run' env fuel n v S0 _ hn0 hU.pc, hd] at h
    dsimp only at h
    rw [hW] at h
    have hltW : n < W.nodes.size := by rw [hUW.size]; exact hlt
    have hUT : Upd n s (touched n W) := hUW.touched
    have eT : (touched n W).nodeD n = { W.nodeD n with changedAt := W.stabNum } := by
      rw [touched_nodeD, if_pos ⟨rfl, hltW⟩]
    have hparT : ((touched n W).nodeD n).parents = (s.nodeD n).parents := hUT.shape.parents
    refine mcvm_safe hltW (hUT.heap hi) ?_ h
    intro p hp
    rw [hparT] at hp
    obtain ⟨hpn, hkid, -, -, hne⟩ := g.parent_facts hp
    obtain ⟨h1, h2, h3, h5⟩ := g.nec p hpn
    have ep : (touched n W).nodeD p = s.nodeD p := hUT.other p hne
    refine ⟨⟨by rw [hUT.size]; exact h1, by rw [ep]; exact h2, by rw [ep]; exact h3,
      by rw [hUT.nec]; exact hpn⟩, by rw [ep]; exact hkid, ?_, by rw [ep]; exact h5, ?_, ?_⟩
    · rw [ep, eT]
      show _ < W.stabNum
      rw [hUW.stabNum]; exact hfresh p hp
    · rw [ep, hUT.rch]; exact S.height p hpn
    · rw [ep]; exact S.scope p hpn
  · rw [mcv_suppress env fuel n v S0 _ hn0 hU.pc hd] at h
    cases h

/-- a `recomputeOne` on a necessary node of a static graph whose children all have values and whose
parents have not been recomputed in this round cannot fail an assertion -/
theorem recomputeOne_safe_static {env : Env} {fuel n : Nat} {s s' : State} {pe : Panic}
    (g : Graph env s) (hi : HeapInv s) (S : Safe s) (hn : s.isNecessary n = true)
    (hfresh : ∀ p, p ∈ (s.nodeD n).parents.map (·.1) → (s.nodeD p).recomputedAt < s.stabNum)
    (hvals : ∃ vals, plainVals s (kids (s.nodeD n).kind) = some vals)
    (h : (recomputeOne env fuel n).run.run s = (.error pe, s')) : pe = .outOfFuel ∧ fuel = 0 := by
  obtain ⟨hlt, hv, hk, _⟩ := g.nec n hn
  have hnn := some_of_lt hlt
  have hU := Upd.started n s g.pc
  obtain ⟨vals, hvals⟩ := hvals
  have hvo := g.valuesOf hn
  rw [hvals] at hvo
  cases hkd : (s.nodeD n).kind with
  | const w =>
    rw [recomputeOne_const_run env fuel n s _ w hnn hv hkd] at h
    exact mcv_safe g hi S hn hfresh hU h
  | var c =>
    obtain ⟨vc, hvc⟩ := g.var n c hn hkd
    rw [recomputeOne_var_run env fuel n s _ c vc hnn hv hkd hvc] at h
    exact mcv_safe g hi S hn hfresh hU h
  | map f args =>
    rw [hkd] at hk hvo
    by_cases hf : f < fnZip
    · rw [recomputeOne_map_run env fuel n s _ f args vals hnn hv hkd hf hvo (hk.2 hf vals) g.pc] at h
      exact mcv_safe g hi S hn hfresh (hU.logged _) h
    · rw [recomputeOne_mapBuiltin_run env fuel n s _ f args vals hnn hv hkd hf hk.1 hvo] at h
      exact mcv_safe g hi S hn hfresh hU h
  | fold f init cs =>
    rw [hkd] at hvo
    rw [recomputeOne_fold_run env fuel n s _ f init cs vals hnn hv hkd hvo g.pc] at h
    exact mcv_safe g hi S hn hfresh (hU.logged _) h
  | mapRef _ _ => rw [hkd] at hk; exact hk.elim
  | mapWithOld _ _ => rw [hkd] at hk; exact hk.elim
  | bindLhsChange _ => rw [hkd] at hk; exact hk.elim
  | bindMain _ _ => rw [hkd] at hk; exact hk.elim
  | expert _ => rw [hkd] at hk; exact hk.elim

/-- a `recomputeOne` on the current node of the invariant cannot fail an assertion; it can only run
out of fuel, and only with `fuel = 0` -/
theorem recomputeOne_safe {env : Env} {fuel n : Nat} {s s' : State} {pe : Panic}
    (I : Inv env e s (some n)) (S : Safe s)
    (h : (recomputeOne env fuel n).run.run s = (.error pe, s')) : pe = .outOfFuel ∧ fuel = 0 := by
  refine recomputeOne_safe_static I.graph I.heap S (I.cur n rfl).1 ?_ I.kids_values h
  intro p hp
  exact I.fresh n (Or.inr rfl) p (I.graph.parent_facts hp).2.2.1

/-- a successful `recomputeOne` keeps `Safe` -/
theorem recomputeOne_keeps_safe {env : Env} {fuel n : Nat} {s s' : State} {r : Option Nat}
    (I : Inv env e s (some n)) (S : Safe s)
    (h : (recomputeOne env fuel n).run.run s = (.ok r, s')) : Safe s' :=
  S.frame (recomputeOne_inv I h).2.1

/-- `remove_min` under the heap invariant cannot fail, and keeps `Safe` -/
theorem rchRemoveMin_safe {env : Env} {s : State} (I : DrainInv env e s) (S : Safe s) :
    ∃ r s1, rchRemoveMin.run.run s = (.ok r, s1) ∧ Safe s1 := by
  obtain ⟨r, s1, hr⟩ := rchRemoveMin_ok I.heap
  refine ⟨r, s1, hr, ?_⟩
  cases r with
  | none => obtain ⟨rfl, -⟩ := rchRemoveMin_inv I.heap hr; exact S
  | some n => exact S.frame (pop_inv I hr).2

/-! ## the chain and the loop -/

theorem recompute_safe {env : Env} : ∀ (fuel n : Nat) (s s' : State) (pe : Panic), Inv env e s (some n) →
    Safe s → (recompute env fuel n).run.run s = (.error pe, s') → pe = .outOfFuel := by
  intro fuel
  induction fuel with
  | zero => intro n s s' pe _ _ h; unfold recompute at h; cases h; rfl
  | succ fuel ih =>
    intro n s s' pe I S h
    unfold recompute at h
    rcases bind_err_inv h with h1 | ⟨r, s1, h1, h2⟩
    · exact (recomputeOne_safe I S h1).1
    · have I1 := (recomputeOne_inv I h1).1
      have S1 := recomputeOne_keeps_safe I S h1
      cases r with
      | none => rw [run_pure] at h2; cases h2
      | some p => exact ih p s1 s' pe I1 S1 h2

theorem recompute_keeps_safe {env : Env} : ∀ (fuel n : Nat) (s s' : State), Inv env e s (some n) →
    Safe s → (recompute env fuel n).run.run s = (.ok (), s') → Safe s' :=
  fun fuel n s s' I S h => S.frame (recompute_inv fuel n s s' I h).2

/-- **no assertion fails during a drain**: a `drainHeap` from a state with the drain invariant and
`Safe` either returns or runs out of fuel -/
theorem drainHeap_safe {env : Env} : ∀ (fuel : Nat) (s s' : State) (pe : Panic), DrainInv env e s →
    Safe s → (drainHeap env fuel).run.run s = (.error pe, s') → pe = .outOfFuel := by
  intro fuel
  induction fuel with
  | zero => intro s s' pe _ _ h; unfold drainHeap at h; cases h; rfl
  | succ fuel ih =>
    intro s s' pe I S h
    unfold drainHeap at h
    obtain ⟨r0, t0, hr0, S0⟩ := rchRemoveMin_safe I S
    rcases bind_err_inv h with h1 | ⟨r, s1, h1, h2⟩
    · rw [hr0] at h1; cases h1
    cases r with
    | none => rw [run_pure] at h2; cases h2
    | some n =>
      obtain ⟨I1, f1⟩ := pop_inv I h1
      have S1 := S.frame f1
      rcases bind_err_inv h2 with h3 | ⟨u, s2, h3, h4⟩
      · exact recompute_safe fuel n s1 s' pe I1 S1 h3
      · obtain ⟨I2, f2⟩ := recompute_inv fuel n s1 s2 I1 h3
        exact ih s2 s' pe I2 (S1.frame f2) h4

end IncrVerif.Proofs.CutH
