import IncrVerif.Proofs.DriverH19
/-!
# Effects of a driver, part 3: `expertRemoveDependency` as a step, the effect `xRm`
-/
namespace IncrVerif.Proofs.DriverH
open IncrVerif.Engine IncrVerif.Driver IncrVerif.Proofs IncrVerif.Proofs.Step IncrVerif.Proofs.Sched
open IncrVerif.Proofs.ExpertH IncrVerif.Proofs.ExpertH.QR IncrVerif.Proofs.EffH

theorem mem_swapPop {l : List ExpertEdge} {i dep : Nat} {ed : ExpertEdge}
    (hi : l.findIdx? (·.dep == dep) = some i) (hm : ed ∈ l) (hne : ed.dep ≠ dep) : ed ∈ Xp.swapPop l i := by
  obtain ⟨hlt, ⟨edge, he, hd⟩, -⟩ := Xp.findIdx_facts l dep i hi
  rw [(Xp.swapPop_perm l i hlt).mem_iff, List.mem_eraseIdx_iff_getElem?]
  obtain ⟨j, hj⟩ := List.getElem?_of_mem hm
  refine ⟨j, ?_, hj⟩
  intro hji
  subst hji
  rw [he] at hj; cases hj
  exact hne hd

/-- a successful `expertRemoveDependency` between two effects: the edges with another name stay -/
theorem rm_step {E : Env} (hR : RmSpec E) {fuel x dep e n : Nat} {t t1 : State} {er : ExpertRec}
    (M : Mid E t) (hxl : x < t.nodes.size) (hk : (t.nodeD x).kind = .expert e) (hr : t.experts[e]? = some er)
    (h : (expertRemoveDependency fuel x dep).run.run t = (.ok (), t1)) :
    Mid E t1 ∧ EF (fun e' => e' = e) t t1 ∧ t1.nextDep = t.nextDep ∧
      (∃ er1, t1.experts[e]? = some er1 ∧ er1.script = er.script ∧ er1.sel = er.sel ∧
        ∀ ed, ed ∈ er.children → ed.dep ≠ dep → ed ∈ er1.children) ∧
      ((∃ ed, ed ∈ er.children ∧ ed.dep ≠ dep ∧ ed.child = n) → t.isNecessary n = true → t1.isNecessary n = true) := by
  have hx : Xp.IsExpert t x (t.nodeD x) e er := ⟨some_of_lt hxl, M.frag.valid x hxl, hk, hr⟩
  cases hf : er.children.findIdx? (·.dep == dep) with
  | none =>
    exfalso
    cases hro : Xp.runningOk t x with
    | true =>
      rw [Xp.expertRemoveDependency_not_attached fuel x dep hx hro hf] at h
      cases h
    | false =>
      obtain ⟨p, hp⟩ := Xp.expertRemoveDependency_assert_fails fuel x dep hx hro
      rw [hp] at h
      cases h
  | some i =>
    obtain ⟨M1, ef1, hnd, ⟨er1, hr1, hch, hsc, hsl, -⟩, hnx, hnall⟩ := hR fuel x dep e i t t1 er M hxl hk hr hf h
    refine ⟨M1, ef1, hnd, ⟨er1, hr1, hsc, hsl, fun ed hm hne => by rw [hch]; exact mem_swapPop hf hm hne⟩, ?_⟩
    rintro ⟨ed, hm, hne, hc⟩ hn
    cases hxn : t.isNecessary x with
    | false => rw [hnall hxn]; exact hn
    | true =>
      exact nec_of_child M1 ((ef1.kind x).trans hk) hr1 (by rw [hch]; exact mem_swapPop hf hm hne) hc
        (by rw [hnx]; exact hxn)

theorem step_xRm {env : Env} (hR : RmSpec (noEff env)) {fuel n : Nat} {eo : Opnd} {i : Nat} {es : List Effect}
    {arg : Int} {t s' : State} (M : Mid (noEff env) t) (ok : EffOK t n (.xRm eo i))
    (h : (runEffects env fuel (.xRm eo i :: es) arg).run.run t = (.ok (), s')) :
    ∃ t', (runEffects env fuel es arg).run.run t' = (.ok (), s') ∧ Step1 (noEff env) n (.xRm eo i) t t' := by
  obtain ⟨x, hx, hd⟩ := ok
  have hcons := cons_gen _ (fun l => runEffects env fuel l arg) (fun l => rfl) (.xRm eo i) es
  dsimp only at hcons
  rw [hcons] at h
  simp only [bind_assoc] at h
  have hd' := hd
  obtain ⟨hxl, e, er, hk, hr, edn, hn1, hn2, hn3, hn4, hn5⟩ := hd'
  rw [run_bind_ok (run_resolveOpnd hx), run_bind_ok (run_expertIdxRaw hxl hk)] at h
  simp only [bind_assoc] at h
  rw [Xp.run_bind_getExpert er _ hr] at h
  by_cases hlen : er.script.length > 0
  · rw [if_pos hlen] at h
    simp only [bind_assoc, pure_bind] at h
    generalize hdep : er.script[i % er.script.length]?.getD 0 = dep at h
    have hmem : dep ∈ er.script := by
      have hlt : i % er.script.length < er.script.length := Nat.mod_lt _ hlen
      rw [List.getElem?_eq_getElem hlt] at hdep
      rw [← hdep]
      exact List.getElem_mem hlt
    rw [Xp.run_bind_modExpert er _ _ hr] at h
    obtain ⟨u, t1, h1, h2⟩ := bind_ok_inv h
    have hs : SameBut er { er with script := er.script.filter (· != dep) } := SameBut.script _ _
    have hr0 := Xp.putExpert_get (s := t) { er with script := er.script.filter (· != dep) } hr
    obtain ⟨M1, ef1, hnd, ⟨er1, hr1, hsc, hsl, hch⟩, hnec⟩ :=
      rm_step (n := n) hR (M.put hr hs) hxl hk hr0 h1
    have ef := (EF.put hr hs).trans ef1
    have hne : ∀ ed, Prot t.nextDep er ed → ed.dep ≠ dep := fun ed hp hq => hp.2.2.1 (hq ▸ hmem)
    refine ⟨_, h2, M1, ⟨x, e, hx, hk, ef⟩, ?_, ?_⟩
    · refine drives_step ef ?_
      intro er0 hr'
      rw [hr] at hr'; cases hr'
      refine ⟨er1, hr1, ?_⟩
      intro ed hp
      refine ⟨hch ed hp.1 (hne ed hp), hp.2.1, ?_, ?_⟩
      · rw [hsc]
        intro hm
        exact hp.2.2.1 (List.mem_filter.1 hm).1
      · rw [hsl]; exact hp.2.2.2
    · exact hnec ⟨edn, hn1, hne edn ⟨hn1, hn3, hn4, hn5⟩, hn2⟩
  · rw [if_neg hlen] at h
    simp only [pure_bind] at h
    exact ⟨t, h, M, ⟨x, e, hx, hk, EF.refl _ _⟩, fun _ _ h => h, fun h => h⟩

end IncrVerif.Proofs.DriverH
