import IncrVerif.Proofs.LeakH11
/-!
# C12 over histories, part 12: `stabiliseEnd` returns, dead variables allowed

`stabiliseEnd_total` (`Proofs/Quiet25.lean`) assumes `deadVars = []`; here the `break_rc_cycle` loop runs.
-/
namespace IncrVerif.Proofs.LeakH
open IncrVerif.Engine IncrVerif.Driver IncrVerif.Proofs IncrVerif.Proofs.Step IncrVerif.Proofs.Sched
open IncrVerif.Proofs.Quiet

structure MidL (s t : State) : Prop where
  size : t.nodes.size = s.nodes.size
  node : ∀ m, ∃ b, t.nodeD m = { s.nodeD m with inHandleAfterStab := b }
  observers : t.observers = s.observers

theorem MidL.modNode {s t : State} (M : MidL s t) (n : Nat) (b : Bool) :
    MidL s { t with nodes := t.nodes.modify n fun x => { x with inHandleAfterStab := b } } := by
  refine ⟨?_, ?_, M.observers⟩
  · rw [← M.size]; exact Array.size_modify ..
  · intro m
    obtain ⟨b0, hb0⟩ := M.node m
    rw [nodeD_modify]
    split
    · exact ⟨b, by rw [hb0]⟩
    · exact ⟨b0, hb0⟩

/-- a loop whose iterations all return, yield, and keep `K` -/
theorem forIn_tot_keep {α β} (K : State → Prop) (f : α → β → M (ForInStep β)) (l : List α)
    (hf : ∀ a b t, K t → Tot (f a b) t (fun r t' => K t' ∧ ∃ b', r = .yield b')) :
    ∀ b t, K t → Tot (forIn l b f) t (fun _ t' => K t') := by
  induction l with
  | nil => intro b t hk; exact ⟨b, t, by rw [List.forIn_nil, run_pure], hk⟩
  | cons a l ih =>
    intro b t hk
    obtain ⟨r, t1, h1, k1, b1, er⟩ := hf a b t hk
    rw [er] at h1
    obtain ⟨b2, t2, h2, k2⟩ := ih b1 t1 k1
    exact ⟨b2, t2, by rw [List.forIn_cons, run_bind_ok h1]; exact h2, k2⟩

theorem loop3L {s : State}
    (f : Nat → List (Nat × NodeUpdate) → M (ForInStep (List (Nat × NodeUpdate))))
    (hf : ∀ n q t, ∃ nu, (f n q).run.run t = (.ok (.yield (q ++ [(n, nu)])),
      { t with nodes := t.nodes.modify n fun x => { x with inHandleAfterStab := false } }))
    (hs : List Nat) (hhs : ∀ n, n ∈ hs → n < s.nodes.size) :
    ∀ q t, MidL s t → (∀ p, p ∈ q → p.1 < s.nodes.size) →
      ∃ q' t', (forIn hs q f).run.run t = (.ok q', t') ∧ MidL s t' ∧ (∀ p, p ∈ q' → p.1 < s.nodes.size) := by
  induction hs with
  | nil => intro q t M hq; exact ⟨q, t, by rw [List.forIn_nil, run_pure], M, hq⟩
  | cons a l ih =>
    intro q t M hq
    obtain ⟨nu, h1⟩ := hf a q t
    have hq' : ∀ p, p ∈ q ++ [(a, nu)] → p.1 < s.nodes.size := by
      intro p hp
      simp only [List.mem_append, List.mem_singleton] at hp
      rcases hp with hp | hp
      · exact hq p hp
      · rw [hp]; exact hhs a (List.mem_cons_self ..)
    obtain ⟨q2, t2, h2, M2, hq2⟩ := ih (fun n hn => hhs n (List.mem_cons_of_mem _ hn)) _ _ (M.modNode a false) hq'
    exact ⟨q2, t2, by rw [List.forIn_cons, run_bind_ok h1]; exact h2, M2, hq2⟩

theorem stabiliseEnd_total_dead {env : Env} {fuel : Nat} {s : State} (h1 : s.setDuringStab = [])
    (hobs : ∀ (o : Nat) (ob : ObsRec), s.observers[o]? = some ob → ob.handlers = [])
    (hhs : ∀ n, n ∈ s.handleAfterStab → n < s.nodes.size)
    (hno : ∀ n o, o ∈ (s.nodeD n).observers → o < s.observers.size) :
    Tot (stabiliseEnd env fuel) s (fun _ _ => True) := by
  unfold stabiliseEnd
  refine Tot.bind_modify ?_
  refine Tot.bind_get ?_
  dsimp only
  refine Tot.bind_modify ?_
  rw [h1, List.forIn_nil]
  refine Tot.bind_ok (run_pure _ _) ?_
  refine Tot.bind_get ?_
  dsimp only
  refine Tot.bind_modify ?_
  -- the dead variables
  refine Tot.bind (Q := fun _ t => MidL s t ∧ t.handleAfterStab = s.handleAfterStab) ?_ ?_
  · refine forIn_tot_keep (fun t => MidL s t ∧ t.handleAfterStab = s.handleAfterStab) _ _ ?_ _ _ ?_
    · intro v b t ⟨M, hh⟩
      exact ⟨_, _, rfl, ⟨⟨M.size, M.node, M.observers⟩, hh⟩, _, rfl⟩
    · exact ⟨⟨rfl, fun m => ⟨_, rfl⟩, rfl⟩, rfl⟩
  intro _ t5 _ ⟨M5, hh5⟩
  refine Tot.bind_get ?_
  try dsimp only
  refine Tot.bind_modify ?_
  refine Tot.bind (Q := fun q t => MidL s t ∧ ∀ p, p ∈ q → p.1 < s.nodes.size) ?_ ?_
  · rw [hh5]
    refine loop3L (s := s) _ ?_ s.handleAfterStab hhs [] _ ?_ ?_
    · intro n q t
      exact ⟨_, by rw [run_bind_modNode, run_bind_get, run_pure]⟩
    · exact ⟨M5.size, M5.node, M5.observers⟩
    · intro p hp; cases hp
  intro q t _ ⟨M, hq⟩
  refine Tot.bind_modify ?_
  refine Tot.bind_get ?_
  refine Tot.bind (P25.forIn_same _ _ q ?_ _) ?_
  · intro x hx b
    have hlt : x.1 < t.nodes.size := by rw [M.size]; exact hq x hx
    refine Tot.bind_getNode hlt ?_
    refine Tot.bind (P25.forIn_same _ _ _ ?_ _) ?_
    · intro o ho b2
      have ho' : o ∈ (s.nodeD x.1).observers := by
        obtain ⟨bb, hbb⟩ := M.node x.1
        have : (t.nodeD x.1).observers = (s.nodeD x.1).observers := by rw [hbb]
        rw [← this]; exact ho
      have hlo := hno _ _ ho'
      have hsome : s.observers[o]? = some s.observers[o] := Array.getElem?_eq_getElem hlo
      have hh := hobs o _ hsome
      refine Tot.bind_ok (P25.runAll_ret (ob := s.observers[o]) ?_ hh) (Tot.pure ⟨rfl, _, rfl⟩)
      show t.observers[o]? = _
      rw [M.observers]; exact hsome
    · intro _ t1 _ e
      rw [e]
      exact Tot.pure ⟨rfl, _, rfl⟩
  intro _ t1 _ e
  rw [e]
  refine Tot.bind_modify ?_
  exact ⟨(), _, run_modify _ _, trivial⟩

end IncrVerif.Proofs.LeakH
