import IncrVerif.Proofs.TidyH52
import IncrVerif.Proofs.TidyH49
/-!
# T4, part 6: the headline theorems — total correctness for the expert fragment X1

A VALID history of actions of fragment X1 (`ValidRun`: every action is an action of X1 — static actions,
`create (expert f)` with a "sum" closure, `addDep e c cb` whose new edge closes no cycle, `stabilise` — names existing
things, a creation leaves `nodes.size + 1 ≤ N`, `stabilise`/`addDep` have `3 * nodes.size + 4 ≤ fuelDefault`), run from
`State.init N d`, NEVER PANICS, whatever `cfg.debug` is: no "cyclic" panic, no "height-limit", no assertion, no
`model:` error, the fuel suffices.
-/
namespace IncrVerif.Proofs.TidyH.XT
open IncrVerif.Engine IncrVerif.Driver IncrVerif.Proofs IncrVerif.Proofs.Step IncrVerif.Proofs.Sched
open IncrVerif.Proofs.ExpertH IncrVerif.Proofs.ExpertH.QR IncrVerif.Proofs.TidyH.XT.XR

theorem addDep_spec : AddDepSpec := fun Q T hx hc hacyc hf => addDep_totalX Q T hx hc hacyc hf

/-- **every valid action of fragment X1 returns and keeps both invariants** -/
theorem step_totalX {env : Env} {rk : Nat → Nat} {N : Nat} {s : State} {a : Action}
    {tk : Array Nat} (Q : QInvX env rk s) (T : TInvX N s) (ha : XActionOK env s a) (hok : ActionOKx N s a) :
    ∃ r s', (stepAction env a tk).run.run s = (.ok r, s') ∧ r.2 = tk ∧ (∃ rk', QInvX env rk' s') ∧ TInvX N s' ∧
      GrownX a s s' :=
  step_totalX_of addDep_spec Q T ha hok

/-- **`addDep` returns** (action level) -/
theorem addDep_action_totalX {env : Env} {rk : Nat → Nat} {N : Nat} {s : State} {eo co : Opnd}
    {cb : Bool} {tk : Array Nat} (Q : QInvX env rk s) (T : TInvX N s) (ha : AddDepOK s eo co)
    (hok : ActionOKx N s (.addDep eo co cb)) :
    ∃ r s', (stepAction env (.addDep eo co cb) tk).run.run s = (.ok r, s') ∧ r.2 = tk ∧
      (∃ rk', QInvX env rk' s') ∧ TInvX N s' ∧ GrownX (.addDep eo co cb) s s' :=
  step_addDep_total addDep_spec Q T ha hok

/-- **valid runs never panic** -/
theorem run_totalX {env : Env} {N : Nat} {acts : List Action} {rk : Nat → Nat} {s : State} {tk : Array Nat}
    (Q : QInvX env rk s) (T : TInvX N s) (hv : ValidRun env N acts s tk) :
    ∃ s' tk', runActions env acts s tk = .ok (s', tk') ∧ (∃ rk', QInvX env rk' s') ∧ TInvX N s' :=
  run_totalX_of addDep_spec Q T hv

/-- **T4: a valid history of fragment X1 never panics.** -/
theorem history_never_panicsX {env : Env} {N : Nat} {d : Bool} {acts : List Action}
    (hv : ValidRun env N acts (State.init N d) #[]) :
    ∃ s' tk', runActions env acts (State.init N d) #[] = .ok (s', tk') ∧ (∃ rk, QInvX env rk s') ∧ TInvX N s' :=
  run_totalX (qinvX_init env N d) (tinvX_init N d) hv

/-- hence, unconditionally: at every `stabilise` of a valid history of fragment X1 all conclusions of
`C14History.history_every_stabilise` hold -/
theorem valid_history_stabiliseX {env : Env} {N : Nat} {d : Bool} {as bs : List Action}
    (hv : ValidRun env N (as ++ Action.stabilise :: bs) (State.init N d) #[]) :
    ∃ s1 tk1 s2 rk1 s tk, runActions env as (State.init N d) #[] = .ok (s1, tk1) ∧ QInvX env rk1 s1 ∧
      (stabilise env fuelDefault).run.run s1 = (.ok (), s2) ∧ StabilisedX env rk1 fuelDefault s1 s2 ∧
      ReadsOKX env s2 ∧ ObsSettled s2 ∧ (∀ n, s2.isNecessary n = true → s2.isStale n = false) ∧
      runActions env bs s2 tk1 = .ok (s, tk) ∧ (∃ rk, QInvX env rk s) ∧ TInvX N s := by
  obtain ⟨s, tk, h, Q, T⟩ := history_never_panicsX hv
  obtain ⟨s1, tk1, s2, rk1, h1, Q1, h2, R, h3, h4, h5, h6⟩ := history_stabilise_x hv.runOK h
  exact ⟨s1, tk1, s2, rk1, s, tk, h1, Q1, h2, R, h3, h4, h5, h6, Q, T⟩

end IncrVerif.Proofs.TidyH.XT
