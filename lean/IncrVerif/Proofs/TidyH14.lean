import IncrVerif.Proofs.TidyH13
import IncrVerif.Proofs.TidyH3
/-!
# T2b, part 5: `stabilise` of the fragment static + map_with_old RETURNS

`TInvW N s`: `Quiet.TInv N s` without the clause `top.size = nodes.size` (false in the fragment: `create (.mapOp …)` adds
three or five nodes and one top-level name).  All its clauses read fields that `virt` leaves alone.
`stabiliseW_total`: copy of `Quiet.stabilise_total_q`; the invariants are those of the VIRTUAL state, the runs of the two
observer loops are transferred by the exact simulation, the drain is `drainHeapW_total_inv`.
-/
namespace IncrVerif.Proofs.TidyH.WT
open IncrVerif.Engine IncrVerif.Driver IncrVerif.Proofs IncrVerif.Proofs.Step IncrVerif.Proofs.Sched IncrVerif.Proofs.Quiet
open IncrVerif.Proofs.MapOldH

/-- what the "no panic" argument needs besides `QInvW` (`Quiet.TInv` without `topSize`) -/
structure TInvW (N : Nat) (s : State) : Prop where
  hb : HBo s allClosed
  room : Room N s
  linked : ∀ (c : Nat) (vc : VarCell), s.vars[c]? = some vc → vc.linked = true
  /-- the observers waiting to be added: no duplicates, each still `created` or already `unlinked` -/
  newNodup : s.newObservers.Nodup
  newState : ∀ (o : Nat) (ob : ObsRec), o ∈ s.newObservers → s.observers[o]? = some ob →
    ob.state = .created ∨ ob.state = .unlinked

theorem hbo_virt {s : State} {op : Nat → Op} : HBo (virt s) op ↔ HBo s op := by
  unfold HBo
  simp only [virt_isNecessary, virt_nodeD, virtNode_height]

theorem room_virt {N : Nat} {s : State} : Room N (virt s) ↔ Room N s :=
  ⟨fun R => ⟨R.ahh, R.rch, by have := R.size; rwa [virt_size] at this⟩,
   fun R => ⟨R.ahh, R.rch, by rw [virt_size]; exact R.size⟩⟩

theorem tinvW_virt {N : Nat} {s : State} : TInvW N (virt s) ↔ TInvW N s :=
  ⟨fun T => ⟨hbo_virt.1 T.hb, room_virt.1 T.room, T.linked, T.newNodup, T.newState⟩,
   fun T => ⟨hbo_virt.2 T.hb, room_virt.2 T.room, T.linked, T.newNodup, T.newState⟩⟩

theorem TInv.toW {N : Nat} {s : State} (T : TInv N s) : TInvW N s :=
  ⟨T.hb, T.room, T.linked, T.newNodup, T.newState⟩

variable {env : Env} {C : Val → Prop} {sp : Nat → Val → Val} {s : State}

/-- **`stabilise` returns** (fragment static + map_with_old, enough fuel), and the extra invariant is kept. -/
theorem stabiliseW_total {N fuel : Nat} (V : ValOK env C sp) (Q : QInvW env C sp s) (T : TInvW N s)
    (hf : 3 * s.nodes.size + 4 ≤ fuel) :
    Tot (stabilise env fuel) s (fun _ s' => TInvW N s' ∧ s'.top = s.top) := by
  have Qv := Q.q
  -- the state with the status set
  obtain ⟨s0, hs0⟩ : ∃ s0 : State, s0 = { s with status := .stabilising } := ⟨_, rfl⟩
  have hs0v : virt s0 = { virt s with status := .stabilising } := by rw [hs0]; rfl
  have W0 : WFr s s0 := by rw [hs0]; exact ⟨rfl, fun _ => rfl, rfl, id⟩
  have F0 : WFrag env (Good env C sp) s0 := W0.frag Q.frag
  have hp0 : s0.propagateInvalidity = [] := by rw [hs0]; exact Q.pinv
  have fr0 : Fr s0 := F0.fr hp0
  have hnd0 : ∀ m, (virt s0).nodeD m = (virt s).nodeD m := fun m => by rw [hs0]; rfl
  have hsz0 : (virt s0).nodes.size = s.nodes.size := by rw [hs0, virt_size]
  have S0 : SInv (virtEnv env sp) (virt s0) (virt s0).newObservers (virt s0).disallowedObservers := by
    rw [hs0v]
    exact ⟨Qv.struct.congr (SameG.of_nodes rfl rfl rfl rfl rfl),
      ⟨Qv.obs.inRange, Qv.obs.mem, Qv.obs.created, Qv.obs.newIn, Qv.obs.dis, Qv.obs.disIn, Qv.obs.disNodup⟩,
      Qv.pinv, Qv.handlers⟩
  have hb0 : HBo (virt s0) allClosed := by
    intro m hm ho
    rw [hnd0]
    have := T.hb m (by rw [← virt_isNecessary, State.isNecessary, ← hnd0]; exact hm) ho
    rwa [virt_nodeD, virtNode_height]
  have R0 : Room N (virt s0) := by
    rw [hs0]; exact ⟨T.room.ahh, T.room.rch, by rw [virt_size]; exact T.room.size⟩
  -- the two loops
  have hf1 : 2 * (virt s0).nodes.size + 2 ≤ fuel := by rw [hsz0]; omega
  have T1 := addNewObservers_total (fuel := fuel) (env := virtEnv env sp) S0 hb0 R0
    (by rw [hs0]; exact T.newNodup) (by rw [hs0]; exact T.newState) hf1
  obtain ⟨_, t1, h1, hb1, fr1⟩ := (Sim.addNewObservers (sp := sp) env fuel s0).tot fr0 T1
  obtain ⟨hv1, -⟩ := (Sim.addNewObservers (sp := sp) env fuel s0).fwd fr0 _ t1 h1
  obtain ⟨S1, hn1, hd1, F1, O1, N1⟩ := addNewObservers_s S0 hv1
  have hf2 : 3 * (virt t1).nodes.size + 3 ≤ fuel := by rw [F1.size, hsz0]; omega
  have T2 := unlinkDisallowedObservers_total (fuel := fuel) S1 hn1 hb1 hf2
  obtain ⟨_, t2, h2, hb2, fr2⟩ := (Sim.unlinkDisallowedObservers fuel t1).tot fr1 T2
  obtain ⟨hv2, -⟩ := (Sim.unlinkDisallowedObservers fuel t1).fwd fr1 _ t2 h2
  obtain ⟨S2, hn2, hd2, F2, O2⟩ := unlinkDisallowedObservers_s S1 hn1 hv2
  have F : PFrame (virt s0) (virt t2) := F1.trans F2
  have R2 : Room N (virt t2) := R0.of_pframe F
  rw [hs0] at h1
  obtain ⟨D2, -, -, hsd2, hdv2, hobs2, -⟩ := prefix_drainInvW Q h1 h2
  -- the drain
  have Sf : Safe (virt t2) := by
    refine ⟨fun n hn => ?_, fun n hn => (GInv.node S2.struct (nec_lt_size hn)).top⟩
    have h1 := hb2 n hn rfl
    have h2 := nec_lt_size hn
    have h3 := R2.size
    rw [R2.rch]; omega
  have hsz2 : t2.nodes.size = s.nodes.size := by rw [← virt_size t2, F.size, hsz0]
  have hf3 : t2.nodes.size + 2 ≤ fuel := by rw [hsz2]; omega
  obtain ⟨t3, h3, D3, he3, f3⟩ := drainHeapW_total_inv V D2 Sf hf3
  have c3 := f3.calm
  have k3 := f3.keyD
  simp only [KeyD, stateKeyD, Prod.mk.injEq] at k3
  obtain ⟨k_obs, -, -, k_top, -, -, -, -, -, -, k_ahh⟩ := k3
  -- the end
  have hnum2 : ∀ m, ((virt t2).nodeD m).numOnUpdateHandlers ≤ 0 := S2.handlers
  have hhas0 : HasRange (virt s0) := by
    intro n hn; rw [hs0] at hn
    have : s.handleAfterStab = [] := Qv.handleAfterStab
    rw [show (virt ({ s with status := Status.stabilising } : State)).handleAfterStab = s.handleAfterStab from rfl,
      this] at hn
    cases hn
  have hhas2 : HasRange (virt t2) :=
    unlinkDisallowedObservers_hasRange hv2 (addNewObservers_hasRange hv1 hhas0)
  have hhas3 : HasRange (virt t3) := by
    intro n hn
    rw [c3.has hnum2] at hn
    rw [f3.frame.size]; exact hhas2 n hn
  have a1 : t3.setDuringStab = [] := by
    have := c3.setDuringStab
    have e1 : (virt t3).setDuringStab = t3.setDuringStab := rfl
    rw [← e1, this]; exact hsd2
  have a2 : t3.deadVars = [] := by
    have := c3.deadVars
    have e1 : (virt t3).deadVars = t3.deadVars := rfl
    rw [← e1, this]; exact hdv2
  have a3 : ∀ (o : Nat) (ob : ObsRec), t3.observers[o]? = some ob → ob.handlers = [] := by
    intro o ob ho
    have e1 : (virt t3).observers = t3.observers := rfl
    rw [← e1, k_obs] at ho
    exact hobs2 o ob ho
  obtain ⟨_, s', h4, -⟩ := stabiliseEnd_total (env := env) (fuel := fuel) (s := t3) a1 a2 a3
    (by
      intro n hn
      have := hhas3 n hn
      rwa [virt_size] at this)
    (by
      intro n o ho
      have ho' : o ∈ ((virt t3).nodeD n).observers := by rw [virt_nodeD, virtNode_observers]; exact ho
      rw [(f3.frame.shape n).observers] at ho'
      obtain ⟨ob, hob, -⟩ := (S2.obs.mem n o).1 ho'
      have e1 : (virt t3).observers = t3.observers := rfl
      rw [← e1, k_obs]
      exact (Array.getElem?_eq_some_iff.1 hob).1)
  have E := stabiliseEnd_fin (env := env) (fuel := fuel) (s := t3) (s' := s') a1 a2 a3 h4
  -- the run
  have hrun : (stabilise env fuel).run.run s = (.ok (), s') := by
    unfold stabilise
    have hst : (s.status == Status.notStabilising) = true := by
      have : s.status = .notStabilising := Qv.status
      rw [this]; rfl
    rw [run_bind_get, run_bind_ok (show (assertM (s.status == Status.notStabilising)
      "state:stabilise:status").run.run s = (.ok (), s) by rw [run_assertM, hst]; rfl),
      run_bind_modify]
    rw [run_bind_ok h1, run_bind_ok h2, run_bind_ok h3]
    exact h4
  refine Tot.of_ok hrun ?_
  -- the extra invariant at the end
  have hnd' : ∀ m, ∃ b, s'.nodeD m = { t3.nodeD m with inHandleAfterStab := b } := E.node
  have hnec3 : ∀ m, s'.isNecessary m = (virt t2).isNecessary m := fun m => by
    obtain ⟨b, hb⟩ := hnd' m
    have : s'.isNecessary m = t3.isNecessary m := by simp only [State.isNecessary, hb]; rfl
    rw [this, ← virt_isNecessary t3, f3.frame.nec]
  have hsize' : s'.nodes.size = s.nodes.size := by
    rw [E.size, ← virt_size t3, f3.frame.size, virt_size, hsz2]
  have htop : s'.top = s.top := by
    rw [E.top]
    have e1 : (virt t3).top = t3.top := rfl
    rw [← e1, k_top, F.top, hs0]; rfl
  refine ⟨⟨?_, ⟨?_, ?_, by rw [hsize']; exact T.room.size⟩, ?_, ?_, ?_⟩, htop⟩
  · intro m hm ho
    obtain ⟨b, hb⟩ := hnd' m
    have e1 : (s'.nodeD m).height = ((virt t3).nodeD m).height := by
      rw [hb, virt_nodeD, virtNode_height]
    rw [e1, (f3.frame.shape m).height]
    exact hb2 m (by rw [← hnec3]; exact hm) ho
  · rw [E.ahh]
    have e1 : (virt t3).ahh = t3.ahh := rfl
    rw [← e1, k_ahh]; exact R2.ahh
  · rw [E.rch, ← R2.rch]
    have e1 : (virt t3).rch = t3.rch := rfl
    rw [← e1]
    exact maxAllowed_congr f3.frame.qsize
  · intro c vc hc
    rw [E.vars] at hc
    have e1 : (virt t3).vars = t3.vars := rfl
    rw [← e1, f3.frame.vars, F.vars, hs0] at hc
    exact T.linked c vc hc
  · rw [E.newObservers]
    have e1 : (virt t3).newObservers = t3.newObservers := rfl
    rw [← e1, c3.newObservers, hn2]; exact List.nodup_nil
  · intro o ob ho
    rw [E.newObservers] at ho
    have e1 : (virt t3).newObservers = t3.newObservers := rfl
    rw [← e1, c3.newObservers, hn2] at ho; cases ho

end IncrVerif.Proofs.TidyH.WT
