import IncrVerif.Proofs.FullT7
/-!
# C04 combined fragment: bisimulation of the functions that may INVALIDATE (twin of FullH11; the ghost may be erased: `BSimX`)
(`invalidateNode`, `propagateInvalidity`, `becameNecessaryPropagate`, `stateAddParent`, `changeChildBindRhs`)
-/
namespace IncrVerif.Proofs.FullT
set_option linter.unusedSectionVars false
open IncrVerif.Engine IncrVerif.Proofs IncrVerif.Proofs.Step IncrVerif.Proofs.Sched IncrVerif.Proofs.Quiet IncrVerif.Proofs.FullH

/-- … kept also by node updates that leave the kind and the parent list alone (validity, stored value, `forceNecessary` may change): what invalidation needs -/
class KeepsI (P : State → Prop) : Prop extends KeepsG P where
  modifyKP : ∀ {s : State} (n : Nat) (f : Node → Node), P s → (∀ nd, (f nd).kind = nd.kind ∧ (f nd).parents = nd.parents) →
    P { s with nodes := s.nodes.modify n f }

instance : KeepsI (fun _ => True) where
  modifyKP := fun _ _ _ _ => trivial

instance : KeepsI PInv where
  modifyKP := fun {s} n f h hk => h.of_nodeD (by simp)
    (fun m => by rw [nodeD_modify]; split; exact (hk _).1; rfl)
    (fun m x hx => by
      rw [nodeD_modify] at hx; split at hx
      · rw [(hk _).2] at hx; exact hx
      · exact hx)

/-- registered `BSimX` lemmas -/
syntax "bsimx_leaf" : tactic
macro_rules | `(tactic| bsimx_leaf) => `(tactic| fail "no leaf")

set_option hygiene false in
macro "bsimx_step" : tactic => `(tactic| first
  | with_reducible exact BSimXAt.ret _
  | with_reducible exact BSimXAt.thr _ _
  | with_reducible exact BSimXAt.pan _ _
  | ((with_reducible refine BSimXAt.get_seq ?_); try fnorm)
  | ((with_reducible refine BSimXAt.getNode_seq fun nd hnd hne => ?_); try fnorm)
  | ((with_reducible refine BSimXAt.mod_seq ?_ ?_ (by rfl) ?_) <;> (first | rfl | skip))
  | ((with_reducible refine BSimAt.toX (BSimAt.mod ?_ ?_ ?_)) <;> rfl)
  | ((with_reducible refine BSimXAt.modG_seq ?_ ?_ ?_) <;> (first | rfl | skip))
  | ((with_reducible refine BSimAt.toX (BSimAt.modG ?_ ?_)) <;> rfl)
  | ((with_reducible refine BSimAt.toX (BSim.at ?_ _)); bsim_leaf)
  | ((with_reducible refine BSimX.at ?_ _ _); bsimx_leaf)
  | ((with_reducible refine BSimX.at (BSimX.forIn _ (fun _ _ _ => ?_) _) _ _); intro _ _)
  | (with_reducible refine BSimXAt.seq ?_ fun _ _ _ _ => ?_)
  | (refine BSimXAt.cond Iff.rfl (fun _ => ?_) (fun _ => ?_)))

macro "bsimx" : tactic => `(tactic| repeat (any_goals bsimx_step))

set_option hygiene false in
/-- a `match` on the kind of the node last read by `getNode` -/
macro "bsimx_kind" : tactic => `(tactic| (
  simp only [virtNode_kind?]
  rcases hk : nd.kind? with _ | k
  all_goals try cases k
  all_goals simp only [Option.map_none, Option.map_some, virtKind]
  all_goals try exact absurd (kind_of_kind? hk) (hne _)
  bsimx))

/-- closes `∀ nd, (f nd).kind = nd.kind ∧ (f nd).parents = nd.parents` -/
macro "fkp" : tactic => `(tactic| (intro nd; exact ⟨rfl, rfl⟩))

section
variable {K : Kind → Prop} {P : State → Prop} [KeepsI P] {g : Nat → Option Val} {sp : Nat → Val → Val}

/-- a commuting node update that touches neither kinds nor parent lists (but maybe validity, the stored value, `forceNecessary`) -/
theorem BSim.modNodeI (n : Nat) {f f' : Node → Node} (hf : ∀ gv nd, virtNode gv (f nd) = f' (virtNode gv nd))
    (hk : ∀ nd, (f nd).kind = nd.kind ∧ (f nd).cutoff = nd.cutoff ∧ (f nd).oldState = nd.oldState ∧
      (nd.valid = false → (f nd).valid = false) ∧ ((f nd).didChange = false → nd.didChange = false))
    (hp : ∀ nd, (f nd).kind = nd.kind ∧ (f nd).parents = nd.parents) :
    BSim K P g (Engine.modNode n f) (Engine.modNode n f') :=
  fun _ => BSimAt.modNode' n hf hk fun h => KeepsI.modifyKP n f h hp
macro_rules | `(tactic| bsim_leaf) => `(tactic| ((with_reducible refine BSim.modNodeI _ ?_ ?_ ?_) <;> first | fcomm | fkind | fkp))

/-- the ghost entry of `n` is erased by an update of `n` (`virt_erase`); the continuation must end with `n` invalid -/
theorem BSimXAt.erase_seq {β : Type} {s : State} {n : Nat} {f f' : Node → Node} {k k' : Unit → M β}
    (hf : ∀ gv nd, virtNode none (f nd) = f' (virtNode gv nd))
    (hk : ∀ nd, (f nd).kind = nd.kind ∧ (f nd).cutoff = nd.cutoff ∧ (f nd).oldState = nd.oldState ∧
      (nd.valid = false → (f nd).valid = false) ∧ ((f nd).didChange = false → nd.didChange = false))
    (hp : ∀ nd, (f nd).kind = nd.kind ∧ (f nd).parents = nd.parents)
    (hinv : ∀ r s', (k ()).run.run { s with nodes := s.nodes.modify n f } = (.ok r, s') → (s'.nodeD n).valid = false)
    (h : BSimXAt K P (eraseG g n) { s with nodes := s.nodes.modify n f } (k ()) (k' ())) :
    BSimXAt K P g s (Engine.modNode n f >>= k) (Engine.modNode n f' >>= k') := by
  have hE := virt_erase g s n f f' hf
  have frB : Fr K g s → Fr K (eraseG g n) { s with nodes := s.nodes.modify n f } := fun hfr =>
    fr_modify (hfr.eraseG n) n f (fun nd => ⟨(hk nd).1, (hk nd).2.1⟩)
  refine ⟨fun hfr r s' hr => ?_, fun hfr hp0 => ⟨fun r s' hr => ?_, fun r t hr => ?_⟩⟩
  · rw [run_bind_modNode] at hr ⊢
    rw [← hE]
    obtain ⟨g2, e2, fr2, gr2⟩ := h.1 (frB hfr) r s' hr
    exact ⟨g2, e2, fr2, GR.of_erase (vm_modify s n f hk) gr2 (hinv r s' hr)⟩
  · rw [run_bind_modNode] at hr
    obtain ⟨_, -, -, -, p⟩ := h.fwd (frB hfr) (KeepsI.modifyKP n f hp0 hp) hr
    exact p
  · rw [run_bind_modNode, ← hE] at hr
    obtain ⟨s', -, hs', -⟩ := h.rev (frB hfr) (KeepsI.modifyKP n f hp0 hp) hr
    exact ⟨s', by rw [run_bind_modNode]; exact hs'⟩

theorem BSim.invTail (n : Nat) : BSim K P g (FullH.invTail n) (FullH.invTail n) := by
  intro s; unfold FullH.invTail; bsim

theorem BSimX.invCT (fuel : Nat) (ih : ∀ n, BSimX K P (Engine.invalidateNode fuel n) (Engine.invalidateNode fuel n))
    (k : Kind) (n : Nat) : BSimX K P (FullH.invCT fuel k n) (FullH.invCT fuel (virtKind k) n) := by
  intro g s
  cases k <;> simp only [virtKind, FullH.invCT]
  case bindMain b lc =>
    bsimx
    · exact ih _ _ _
    · exact (BSim.invTail n _).toX
  all_goals exact (BSim.invTail n _).toX

theorem BSimX.invalidateNode (fuel n : Nat) : BSimX K P (Engine.invalidateNode fuel n) (Engine.invalidateNode fuel n) := by
  induction fuel generalizing n with
  | zero => intro g s; unfold Engine.invalidateNode; exact BSimXAt.thr _ _
  | succ fuel ih =>
    intro g s
    rw [invalidateNode_succ]
    refine BSimXAt.getNode_seq fun nd hnd hne => ?_
    simp only [virtNode_valid, virtNode_createdIn, virtNode_kind]
    refine BSimXAt.cond Iff.rfl (fun _ => BSimXAt.ret _) (fun hval => ?_)
    refine BSimXAt.seqA (BSim.maybeHandleAfterStabilisation n s) fun _ sA hA _ => ?_
    refine BSimXAt.get_seq ?_
    rw [virt_stabNum]
    refine BSimXAt.erase_seq (by fcomm) (by fkind) (by fkp) (fun r s' hr => ?_) ?_
    · have hfull : (Engine.invalidateNode (fuel + 1) n).run.run s = (.ok r, s') := by
        rw [invalidateNode_succ, run_bind_ok (run_getNode_some hnd), if_neg hval, run_bind_ok hA, run_bind_get, run_bind_modNode]
        exact hr
      exact (Inval.invalidateNode_ok hfull).2.1
    · bsimx
      all_goals exact BSimX.invCT fuel ih _ _ _ _
macro_rules | `(tactic| bsimx_leaf) => `(tactic| with_reducible exact BSimX.invalidateNode _ _)

set_option maxHeartbeats 1000000 in
theorem BSimX.propagateInvalidity (fuel : Nat) :
    BSimX K P (Engine.propagateInvalidity fuel) (Engine.propagateInvalidity fuel) := by
  induction fuel with
  | zero => intro g s; unfold Engine.propagateInvalidity; exact BSimXAt.thr _ _
  | succ fuel ih =>
    intro g s
    unfold Engine.propagateInvalidity
    refine BSimXAt.get_seq ?_
    fnorm
    split
    · exact BSimXAt.ret _
    · rename_i n rest hpi
      bsimx
      all_goals first
        | exact ih _ _
        | (simp only [virtNode_kind?]
           rcases hk : (({ s with propagateInvalidity := rest } : State).nodeD n).kind? with _ | k
           all_goals try cases k
           all_goals simp only [Option.map_none, Option.map_some, virtKind]
           all_goals bsimx
           all_goals exact ih _ _)
macro_rules | `(tactic| bsimx_leaf) => `(tactic| with_reducible exact BSimX.propagateInvalidity _)

end

/-! ## the functions that link (contracts `BnC`, `ApC` of the linking cascade): carried invariant `PInv` -/

section
variable {K : Kind → Prop} {g : Nat → Option Val} {env : Env} {sp : Nat → Val → Val}

theorem dassert_ok_state {c : Bool} {site : String} {s s' : State} {u : Unit}
    (h : (Engine.dassert c site).run.run s = (.ok u, s')) : s' = s := by
  rw [run_dassert] at h; split at h <;> cases h; rfl

theorem BSimXAt.becameNecessaryPropagate (B : BnC K env sp) (fuel n : Nat) {s : State} (hfuel : 3 * s.nodes.size + 2 ≤ fuel) :
    BSimXAt K PInv g s (Engine.becameNecessaryPropagate env fuel n) (Engine.becameNecessaryPropagate (virtEnv env sp) fuel n) := by
  unfold Engine.becameNecessaryPropagate
  refine BSimXAt.seqA (B g fuel n s hfuel) fun _ s1 _ _ => ?_
  exact BSimX.propagateInvalidity fuel g s1

/-- `state_add_parent`: the new edge must be sane (`ApC`): `parent` exists, and if it is a `map_ref` node then `child` is its input -/
theorem BSimXAt.stateAddParent (L : ApC K env sp) (fuel child index parent : Nat) {s : State}
    (hfuel : 3 * s.nodes.size + 2 ≤ fuel) (hp : parent < s.nodes.size)
    (hmr : ∀ pr j, (s.nodeD parent).kind = .mapRef pr j → j = child) :
    BSimXAt K PInv g s (Engine.stateAddParent env fuel child index parent)
      (Engine.stateAddParent (virtEnv env sp) fuel child index parent) := by
  unfold Engine.stateAddParent
  refine BSimXAt.get_seq ?_
  fnorm
  refine BSimXAt.seqA (BSim.dassert _ _ s) fun _ s1 h1 _ => ?_
  obtain rfl := dassert_ok_state h1
  refine BSimXAt.seqA (L g fuel child index parent s1 hfuel hp hmr) fun _ s2 _ _ => ?_
  bsimx

/-- `change_child_bind_rhs`: `main` is a `bindMain` node (else nothing happens), so the new edge is sane -/
theorem BSimXAt.changeChildBindRhs (L : ApC K env sp) (fuel main : Nat) (old : Option Nat) (new index : Nat) {s : State}
    (hfuel : 3 * s.nodes.size + 2 ≤ fuel) :
    BSimXAt K PInv g s (Engine.changeChildBindRhs env fuel main old new index)
      (Engine.changeChildBindRhs (virtEnv env sp) fuel main old new index) := by
  unfold Engine.changeChildBindRhs
  refine BSimXAt.getNode_seq fun nd hnd hne => ?_
  have hlt := lt_of_some hnd
  have hD := nodeD_of_some hnd
  simp only [virtNode_kind?]
  rcases hk : nd.kind? with _ | k
  all_goals try cases k
  all_goals simp only [Option.map_none, Option.map_some, virtKind]
  all_goals try exact BSimXAt.ret _
  case some.bindMain b lc =>
    have hkind : (s.nodeD main).kind = .bindMain b lc := by rw [hD]; exact kind_of_kind? hk
    cases old with
    | none =>
      exact BSimXAt.stateAddParent L fuel new index main hfuel hlt (fun pr j e => by rw [hkind] at e; cases e)
    | some o =>
      dsimp only
      refine BSimXAt.cond Iff.rfl (fun _ => BSimXAt.ret _) (fun _ => ?_)
      refine BSimXAt.seqA (BSim.removeParent o index main s) fun _ s1 h1 v1 => ?_
      obtain ⟨nd1, pi, -, -, rfl⟩ := removeParent_ok_inv h1
      refine BSimXAt.seqA (BSim.at (by bsim_leaf) _) fun _ s2 h2 v2 => ?_
      rw [run_modNode] at h2; cases h2
      have v := v1.trans v2
      refine BSimXAt.seq (BSimXAt.stateAddParent L fuel new index main (by simpa using hfuel) (by simpa using hlt)
        (fun pr j e => by rw [(v.kind main hlt).1, hkind] at e; cases e)) fun _ s3 g3 _ => ?_
      bsimx

end
end IncrVerif.Proofs.FullT
