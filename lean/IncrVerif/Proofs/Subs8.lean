import IncrVerif.Proofs.Subs1
/-!
# Subscriptions, part 7: the `changedAt` stamp of the current round is exact (cutoff `.eq`)

`Graph.nec` allows the cutoffs `.eq` AND `.never`.  A necessary node with cutoff `.never` that is recomputed
to the value it already had is stamped `changedAt := stabNum` although its value did not change
(`cutoffVerdict … = some false`, so `mcvChanges = some true`).  Hence "stamp of this round ⇒ the value
differs" needs the hypothesis that the necessary nodes carry the default cutoff `.eq` (`hcut` below; it follows
from `Struct`/`SNode.cutoff`).  `drainHeap_valchg_gen` is the statement without that hypothesis.
-/
namespace IncrVerif.Proofs.SubsH
open IncrVerif.Engine IncrVerif.Driver IncrVerif.Proofs IncrVerif.Proofs.Step IncrVerif.Proofs.Sched
open IncrVerif.Proofs.Quiet

/-! ## one `recomputeOne` -/

/-- what one successful `recomputeOne env fuel n` of the static fragment does to values and stamps -/
structure VC.Step (n : Nat) (s s' : State) : Prop where
  stabNum : s'.stabNum = s.stabNum
  other : ∀ m, m ≠ n → (s'.nodeD m).value = (s.nodeD m).value ∧
    (s'.nodeD m).changedAt = (s.nodeD m).changedAt ∧ (s'.nodeD m).recomputedAt = (s.nodeD m).recomputedAt
  recomputedAt : (s'.nodeD n).recomputedAt = s.stabNum
  isSome : ∃ v, (s'.nodeD n).value = some v
  /-- cut off: nothing but `recomputedAt` moves; not cut off: the value differs (cutoff `.eq`) or the cutoff
  is `.never`, and the node is stamped -/
  self : ((s'.nodeD n).value = (s.nodeD n).value ∧ (s'.nodeD n).changedAt = (s.nodeD n).changedAt) ∨
    ((s'.nodeD n).value ≠ (s.nodeD n).value ∧ (s'.nodeD n).changedAt = s.stabNum) ∨
    ((s.nodeD n).cutoff = .never ∧ (s'.nodeD n).changedAt = s.stabNum)

/-- the verdict of the two static cutoffs, with the converse direction for `.eq` -/
theorem valchg_changes (env : Env) (S : State) (n : Nat) (v : Val)
    (hc : (S.nodeD n).cutoff = .eq ∨ (S.nodeD n).cutoff = .never) :
    (mcvChanges env S n v = some true ∧ ((S.nodeD n).value ≠ some v ∨ (S.nodeD n).cutoff = .never)) ∨
      (mcvChanges env S n v = some false ∧ (S.nodeD n).value = some v) := by
  unfold mcvChanges cutoffVerdict
  cases hv : (S.nodeD n).value with
  | none => exact Or.inl ⟨rfl, Or.inl (by simp)⟩
  | some old =>
    rcases hc with hc | hc <;> rw [hc]
    · by_cases e : old = v
      · subst e; right; simp
      · left; exact ⟨by simp [e], Or.inl (by simpa using e)⟩
    · left; exact ⟨rfl, Or.inr rfl⟩

/-- `maybe_change_value n v` run in a state `S0` that is `s` with `n`'s `recomputedAt` stamped -/
theorem valchg_mcv {env : Env} {fuel n : Nat} {v : Val} {s S0 s' : State} {r : Option Nat}
    (hlt : n < s.nodes.size) (hcut : (s.nodeD n).cutoff = .eq ∨ (s.nodeD n).cutoff = .never)
    (hU : Upd n s S0) (hval : (S0.nodeD n).value = (s.nodeD n).value)
    (hrec : (S0.nodeD n).recomputedAt = s.stabNum)
    (hch : (S0.nodeD n).changedAt = (s.nodeD n).changedAt)
    (h : (maybeChangeValue env fuel n v).run.run S0 = (.ok r, s')) : VC.Step n s s' := by
  have hlt0 : n < S0.nodes.size := by rw [hU.size]; exact hlt
  have hn0 := some_of_lt hlt0
  have hcut0 : (S0.nodeD n).cutoff = .eq ∨ (S0.nodeD n).cutoff = .never := by
    rw [hU.shape.cutoff]; exact hcut
  generalize hW : setValue n (some v) (logged (mcvLog env S0 n v) S0) = W
  have hUW : Upd n s W := by rw [← hW]; exact (hU.logged _).setValue _
  have eW : W.nodeD n = { S0.nodeD n with value := some v } := by
    rw [← hW, setValue_nodeD, if_pos ⟨rfl, hlt0⟩]; rfl
  rcases valchg_changes env S0 n v hcut0 with ⟨hd, hne⟩ | ⟨hd, hold⟩
  · -- propagate
    rw [mcv_run' env fuel n v S0 _ hn0 hU.pc, hd] at h
    dsimp only at h
    rw [hW] at h
    have hltW : n < W.nodes.size := by rw [hUW.size]; exact hlt
    have q : Quiet (touched n W) s' := mcvm_true_quiet _ _ _ _ _ _ _ _ h
    have hUT : Upd n s (touched n W) := hUW.touched
    have eT : (touched n W).nodeD n = { W.nodeD n with changedAt := W.stabNum } := by
      rw [touched_nodeD, if_pos ⟨rfl, hltW⟩]
    have e1 : (s'.nodeD n).value = some v := by rw [(q.node n).value, eT, eW]
    have e2 : (s'.nodeD n).changedAt = s.stabNum := by
      rw [(q.node n).changedAt, eT]; exact hUW.stabNum
    refine ⟨q.stabNum.trans hUT.stabNum, fun m hm => ?_, ?_, ⟨v, e1⟩, Or.inr ?_⟩
    · have := q.node m
      rw [hUT.other m hm] at this
      exact ⟨this.value, this.changedAt, this.recomputedAt⟩
    · rw [(q.node n).recomputedAt, eT, eW]; exact hrec
    · rcases hne with hne | hne
      · left; refine ⟨?_, e2⟩
        rw [e1, ← hval]; exact fun e => hne e.symm
      · right; exact ⟨by rw [← hU.shape.cutoff]; exact hne, e2⟩
  · -- suppress
    rw [mcv_suppress env fuel n v S0 _ hn0 hU.pc hd, hW] at h
    cases h
    refine ⟨hUW.stabNum, fun m hm => ?_, ?_, ⟨v, by rw [eW]⟩, Or.inl ⟨?_, ?_⟩⟩
    · rw [hUW.other m hm]; exact ⟨rfl, rfl, rfl⟩
    · rw [eW]; exact hrec
    · rw [eW, ← hval, hold]
    · rw [eW]; exact hch

/-- **one `recomputeOne`** of a necessary node of the static fragment whose children have values -/
theorem valchg_recomputeOne {env : Env} {fuel n : Nat} {s s' : State} {r : Option Nat}
    (g : Graph env s) (hn : s.isNecessary n = true)
    (hvals : ∃ vals, plainVals s (kids (s.nodeD n).kind) = some vals)
    (h : (recomputeOne env fuel n).run.run s = (.ok r, s')) : VC.Step n s s' := by
  obtain ⟨hlt, hv, hk, hcut, _⟩ := g.nec n hn
  have hnn := some_of_lt hlt
  have hU := Upd.started n s g.pc
  have e1 : ((started n s).nodeD n).value = (s.nodeD n).value := by
    rw [started_nodeD]; split <;> rfl
  have e2 : ((started n s).nodeD n).recomputedAt = s.stabNum := by
    rw [started_nodeD, if_pos ⟨rfl, hlt⟩]
  have e3 : ((started n s).nodeD n).changedAt = (s.nodeD n).changedAt := by
    rw [started_nodeD]; split <;> rfl
  obtain ⟨vals, hvals⟩ := hvals
  have hvo := g.valuesOf hn
  rw [hvals] at hvo
  cases hkd : (s.nodeD n).kind with
  | const w =>
    rw [recomputeOne_const_run env fuel n s _ w hnn hv hkd] at h
    exact valchg_mcv hlt hcut hU e1 e2 e3 h
  | var c =>
    obtain ⟨vc, hvc⟩ := g.var n c hn hkd
    rw [recomputeOne_var_run env fuel n s _ c vc hnn hv hkd hvc] at h
    exact valchg_mcv hlt hcut hU e1 e2 e3 h
  | map f args =>
    rw [hkd] at hk hvo
    by_cases hf : f < fnZip
    · rw [recomputeOne_map_run env fuel n s _ f args vals hnn hv hkd hf hvo (hk.2 hf vals) g.pc] at h
      exact valchg_mcv hlt hcut (hU.logged _) e1 e2 e3 h
    · rw [recomputeOne_mapBuiltin_run env fuel n s _ f args vals hnn hv hkd hf hk.1 hvo] at h
      exact valchg_mcv hlt hcut hU e1 e2 e3 h
  | fold f init cs =>
    rw [hkd] at hvo
    rw [recomputeOne_fold_run env fuel n s _ f init cs vals hnn hv hkd hvo g.pc] at h
    exact valchg_mcv hlt hcut (hU.logged _) e1 e2 e3 h
  | mapRef _ _ => rw [hkd] at hk; exact hk.elim
  | mapWithOld _ _ => rw [hkd] at hk; exact hk.elim
  | bindLhsChange _ => rw [hkd] at hk; exact hk.elim
  | bindMain _ _ => rw [hkd] at hk; exact hk.elim
  | expert _ => rw [hkd] at hk; exact hk.elim

/-! ## the relation threaded through the drain -/

/-- `s` is a state of the drain that started in `s0` -/
structure VC (s0 s : State) : Prop where
  stabNum : s.stabNum = s0.stabNum
  shape : ∀ m, SameShape (s0.nodeD m) (s.nodeD m)
  /-- a node that has not run in this round is untouched -/
  old : ∀ m, (s.nodeD m).recomputedAt < s0.stabNum →
    (s.nodeD m).value = (s0.nodeD m).value ∧ (s.nodeD m).changedAt = (s0.nodeD m).changedAt
  chg : ∀ m, (s.nodeD m).value ≠ (s0.nodeD m).value → (s.nodeD m).changedAt = s0.stabNum
  now : ∀ m, (s.nodeD m).changedAt = s0.stabNum → (s.nodeD m).value ≠ (s0.nodeD m).value ∨
    (s0.isNecessary m = true ∧ (s0.nodeD m).cutoff = .never)
  keep : ∀ m, (s.nodeD m).changedAt ≠ s0.stabNum → (s.nodeD m).changedAt = (s0.nodeD m).changedAt

theorem VC.refl {s : State} (hst : ∀ m, (s.nodeD m).changedAt < s.stabNum) : VC s s where
  stabNum := rfl
  shape _ := SameShape.refl _
  old _ _ := ⟨rfl, rfl⟩
  chg _ h := (h rfl).elim
  now m h := by have := hst m; omega
  keep _ _ := rfl

/-- steps that move no value and no stamp (`rchRemoveMin`) -/
theorem VC.of_same {s0 s s1 : State} (V : VC s0 s) (f : Frame s s1)
    (hs : ∀ m, (s1.nodeD m).value = (s.nodeD m).value ∧ (s1.nodeD m).changedAt = (s.nodeD m).changedAt ∧
      (s1.nodeD m).recomputedAt = (s.nodeD m).recomputedAt) : VC s0 s1 where
  stabNum := f.stabNum.trans V.stabNum
  shape m := (V.shape m).trans (f.shape m)
  old m h := by rw [(hs m).1, (hs m).2.1]; rw [(hs m).2.2] at h; exact V.old m h
  chg m h := by rw [(hs m).2.1]; rw [(hs m).1] at h; exact V.chg m h
  now m h := by rw [(hs m).1]; rw [(hs m).2.1] at h; exact V.now m h
  keep m h := by rw [(hs m).2.1] at h ⊢; exact V.keep m h

/-- a `recomputeOne` on a node that has not run in this round -/
theorem VC.step {s0 s s1 : State} {n : Nat} (V : VC s0 s)
    (hst : ∀ m, (s0.nodeD m).changedAt < s0.stabNum) (f : Frame s s1)
    (hn : s.isNecessary n = true) (hfresh : (s.nodeD n).recomputedAt < s.stabNum)
    (S : VC.Step n s s1) : VC s0 s1 := by
  have hnow := V.stabNum
  obtain ⟨hv0, hc0⟩ := V.old n (by rw [← hnow]; exact hfresh)
  have hnec0 : s0.isNecessary n = true := by rw [← hn]; exact ((V.shape n).isNecessary).symm
  refine ⟨f.stabNum.trans hnow, fun m => (V.shape m).trans (f.shape m), fun m h => ?_, fun m h => ?_,
    fun m h => ?_, fun m h => ?_⟩
  · by_cases hm : m = n
    · subst hm; rw [S.recomputedAt, hnow] at h; omega
    · obtain ⟨a, b, c⟩ := S.other m hm
      rw [a, b]; rw [c] at h; exact V.old m h
  · by_cases hm : m = n
    · subst hm
      rcases S.self with ⟨a, _⟩ | ⟨_, b⟩ | ⟨_, b⟩
      · rw [a, hv0] at h; exact (h rfl).elim
      · rw [b, hnow]
      · rw [b, hnow]
    · obtain ⟨a, b, _⟩ := S.other m hm
      rw [b]; rw [a] at h; exact V.chg m h
  · by_cases hm : m = n
    · subst hm
      rcases S.self with ⟨_, b⟩ | ⟨a, _⟩ | ⟨a, _⟩
      · rw [b, hc0] at h; have := hst m; omega
      · left; rw [← hv0]; exact a
      · right; exact ⟨hnec0, by rw [← (V.shape m).cutoff]; exact a⟩
    · obtain ⟨a, b, _⟩ := S.other m hm
      rw [a]; rw [b] at h; exact V.now m h
  · by_cases hm : m = n
    · subst hm
      rcases S.self with ⟨_, b⟩ | ⟨_, b⟩ | ⟨_, b⟩
      · rw [b, hc0]
      · rw [b, hnow] at h; exact (h rfl).elim
      · rw [b, hnow] at h; exact (h rfl).elim
    · obtain ⟨_, b, _⟩ := S.other m hm
      rw [b] at h ⊢; exact V.keep m h

theorem valchg_recompute {env : Env} {s0 : State} (hst : ∀ m, (s0.nodeD m).changedAt < s0.stabNum) :
    ∀ (fuel n : Nat) (s s' : State), Inv env s (some n) → VC s0 s →
      (recompute env fuel n).run.run s = (.ok (), s') → VC s0 s' := by
  intro fuel
  induction fuel with
  | zero => intro n s s' _ _ h; unfold recompute at h; cases h
  | succ fuel ih =>
    intro n s s' I V h
    unfold recompute at h
    obtain ⟨r, s1, h1, h2⟩ := bind_ok_inv h
    have S := valchg_recomputeOne I.graph (I.cur n rfl).1 I.kids_values h1
    obtain ⟨I1, f1, -⟩ := recomputeOne_inv I h1
    have V1 := V.step hst f1 (I.cur n rfl).1 (I.fresh n (Or.inr rfl) n (Anc.refl n)) S
    cases r with
    | none => obtain ⟨-, rfl⟩ := pure_ok_inv h2; exact V1
    | some p => exact ih p s1 s' I1 V1 h2

theorem valchg_pop {env : Env} {s0 s s1 : State} {n : Nat} (I : Inv env s none) (V : VC s0 s)
    (hr : rchRemoveMin.run.run s = (.ok (some n), s1)) : VC s0 s1 := by
  obtain ⟨-, f⟩ := pop_inv I hr
  obtain ⟨-, -, -, hs1, -⟩ := rchRemoveMin_inv I.heap hr
  refine V.of_same f fun m => ?_
  rw [hs1]
  show (State.nodeD { s with nodes := _ } m).value = _ ∧ (State.nodeD { s with nodes := _ } m).changedAt = _ ∧
    (State.nodeD { s with nodes := _ } m).recomputedAt = _
  rw [nodeD_modify]; split <;> exact ⟨rfl, rfl, rfl⟩

theorem valchg_drainHeap {env : Env} {s0 : State} (hst : ∀ m, (s0.nodeD m).changedAt < s0.stabNum) :
    ∀ (fuel : Nat) (s s' : State), DrainInv env s → VC s0 s →
      (drainHeap env fuel).run.run s = (.ok (), s') → VC s0 s' := by
  intro fuel
  induction fuel with
  | zero => intro s s' _ _ h; unfold drainHeap at h; cases h
  | succ fuel ih =>
    intro s s' I V h
    unfold drainHeap at h
    obtain ⟨r, s1, h1, h2⟩ := bind_ok_inv h
    cases r with
    | none =>
      obtain ⟨-, rfl⟩ := pure_ok_inv h2
      obtain ⟨rfl, -⟩ := rchRemoveMin_inv I.heap h1
      exact V
    | some n =>
      obtain ⟨u, s2, h3, h4⟩ := bind_ok_inv h2
      obtain ⟨I1, -⟩ := pop_inv I h1
      obtain ⟨I2, -⟩ := recompute_inv fuel n s1 s2 I1 h3
      exact ih s2 s' I2 (valchg_recompute hst fuel n s1 s2 I1 (valchg_pop I V h1) h3) h4

/-! ## the theorems -/

/-- the drain, any static cutoff (`.eq` or `.never`): a changed value is stamped; a stamp of this round means
a changed value or a necessary node with cutoff `.never`; other nodes keep value and stamp -/
theorem drainHeap_valchg_gen {env : Env} {fuel : Nat} {s s' : State} (I : DrainInv env s)
    (hst : ∀ m, (s.nodeD m).changedAt < s.stabNum)
    (h : (drainHeap env fuel).run.run s = (.ok (), s')) :
    ∀ m, ((s'.nodeD m).value ≠ (s.nodeD m).value → (s'.nodeD m).changedAt = s.stabNum) ∧
      ((s'.nodeD m).changedAt = s.stabNum → (s'.nodeD m).value ≠ (s.nodeD m).value ∨
        (s.isNecessary m = true ∧ (s.nodeD m).cutoff = .never)) ∧
      ((s'.nodeD m).changedAt ≠ s.stabNum → (s'.nodeD m).changedAt = (s.nodeD m).changedAt) := by
  have V := valchg_drainHeap hst fuel s s' I (VC.refl hst) h
  exact fun m => ⟨V.chg m, V.now m, V.keep m⟩

/-- **After the drain a node carries the stamp of the current round iff its stored value differs from
the one before the drain**; nodes without that stamp kept value and stamp.  (`hcut`: the necessary nodes carry
the default cutoff; without it the statement is false, see the header.) -/
theorem drainHeap_valchg {env : Env} {fuel : Nat} {s s' : State} (I : DrainInv env s)
    (hst : ∀ m, (s.nodeD m).recomputedAt < s.stabNum ∧ (s.nodeD m).changedAt < s.stabNum)
    (hcut : ∀ m, s.isNecessary m = true → (s.nodeD m).cutoff = .eq)
    (h : (drainHeap env fuel).run.run s = (.ok (), s')) :
    ∀ m, ((s'.nodeD m).changedAt = s.stabNum ↔ (s'.nodeD m).value ≠ (s.nodeD m).value) ∧
      ((s'.nodeD m).changedAt ≠ s.stabNum → (s'.nodeD m).changedAt = (s.nodeD m).changedAt) := by
  intro m
  obtain ⟨a, b, c⟩ := drainHeap_valchg_gen I (fun m => (hst m).2) h m
  refine ⟨⟨fun e => ?_, a⟩, c⟩
  rcases b e with b | ⟨b1, b2⟩
  · exact b
  · rw [hcut m b1] at b2; cases b2

/-! ## the statement without `hcut` is false: a kernel-checked counterexample

One necessary variable node with cutoff `.never`, whose cell was re-set to the value it already had. -/

def VC.cexS : State :=
  { State.init 1 with
    nodes := #[{ kind := .var 0, createdIn := .top, cutoff := .never, value := some (.int 5), recomputedAt := 0,
                 changedAt := 0, height := 0, heightInRch := 0, forceNecessary := true }],
    vars := #[{ value := .int 5, setAt := 1, node := 0 }],
    rch := { queues := #[[0], []], length := 1, lowerBound := 0 },
    stabNum := 1, status := .stabilising }

theorem VC.cases1 (P : Nat → Prop) (h0 : P 0) (h1 : ∀ m, 1 ≤ m → P m) : ∀ m, P m := by
  intro m
  match m with
  | 0 => exact h0
  | m + 1 => exact h1 _ (by omega)

theorem VC.cexS_ge (m : Nat) (h : 1 ≤ m) : VC.cexS.nodeD m = default := nodeD_default_of_ge VC.cexS m h

theorem VC.cexS_inRch : ∀ m, (VC.cexS.nodeD m).inRch = true → m = 0 := by
  refine VC.cases1 _ ?_ ?_
  · intro _; rfl
  · intro m hm h; rw [VC.cexS_ge m hm] at h; cases h

theorem VC.cexS_bucket (h : Nat) (hh : h < VC.cexS.rch.queues.size) :
    VC.cexS.rch.queues[h] = if h = 0 then [0] else [] := by
  have h2 : h < 2 := hh
  match h, hh, h2 with
  | 0, _, _ => rfl
  | 1, _, _ => rfl

theorem VC.cexS_heapWF : HeapWF VC.cexS where
  mem := by
    intro h hh n
    rw [VC.cexS_bucket h hh]
    revert n
    refine VC.cases1 _ ?_ ?_
    · by_cases e : h = 0
      · subst e; decide
      · simp only [e, if_false]
        constructor
        · intro h'; cases h'
        · intro ⟨_, h'⟩
          have : (0 : Int) = (h : Int) := h'
          omega
    · intro m hm
      constructor
      · intro h'; split at h' <;> simp at h' <;> omega
      · intro ⟨h', _⟩
        have : m < 1 := h'
        omega
  nodup := by
    intro h hh
    rw [VC.cexS_bucket h hh]
    split <;> simp
  length := by decide
  range := by
    intro n hn
    have hn' : n < 1 := hn
    match n, hn' with
    | 0, _ => right; decide

theorem VC.cexS_drainInv : DrainInv exEnv VC.cexS where
  graph :=
    { pc := rfl
      nec := by
        refine VC.cases1 _ ?_ ?_
        · intro _; exact ⟨by decide, rfl, True.intro, Or.inr rfl, by decide⟩
        · intro m hm h; rw [State.isNecessary, VC.cexS_ge m hm] at h; cases h
      var := by
        refine VC.cases1 _ ?_ ?_
        · intro c _ hk; cases hk; exact ⟨_, rfl⟩
        · intro m hm c h; rw [State.isNecessary, VC.cexS_ge m hm] at h; cases h
      child := by
        refine VC.cases1 _ ?_ ?_
        · intro _ i c h; simp [VC.cexS, State.nodeD, kids] at h
        · intro m hm h; rw [State.isNecessary, VC.cexS_ge m hm] at h; cases h
      parent := by
        refine VC.cases1 _ ?_ ?_
        · intro p i h; simp [VC.cexS, State.nodeD] at h
        · intro m hm p i h; rw [VC.cexS_ge m hm] at h; cases h }
  heap :=
    { wf := VC.cexS_heapWF
      hgt := fun m h => by cases VC.cexS_inRch m h; rfl
      lb := fun m h => by cases VC.cexS_inRch m h; decide
      lb0 := by decide
      nec := fun m h => by cases VC.cexS_inRch m h; rfl }
  stamps :=
    { now := by decide
      node := by
        refine VC.cases1 _ ?_ ?_
        · decide
        · intro m hm; rw [VC.cexS_ge m hm]; decide
      var := by
        intro c vc h
        match c with
        | 0 =>
          have : vc = { value := .int 5, setAt := 1, node := 0 } := by
            have h' : some ({ value := .int 5, setAt := 1, node := 0 } : VarCell) = some vc := h
            cases h'; rfl
          subst this; decide
        | c + 1 => simp [VC.cexS] at h }
  pending := by
    refine VC.cases1 _ ?_ ?_
    · intro _ _; exact Or.inl rfl
    · intro m hm h; rw [State.isNecessary, VC.cexS_ge m hm] at h; cases h
  cons := by
    refine VC.cases1 _ ?_ ?_
    · intro _ h
      have : VC.cexS.isStale 0 = true := by decide
      rw [this] at h; cases h
    · intro m hm h; rw [State.isNecessary, VC.cexS_ge m hm] at h; cases h
  fresh := by
    intro d _ a ha
    clear ha
    revert a
    refine VC.cases1 _ ?_ ?_
    · decide
    · intro m hm; rw [VC.cexS_ge m hm]; decide
  cur n h := by cases h

theorem VC.cexS_stamps : ∀ m, (VC.cexS.nodeD m).recomputedAt < VC.cexS.stabNum ∧ (VC.cexS.nodeD m).changedAt < VC.cexS.stabNum := by
  refine VC.cases1 _ ?_ ?_
  · decide
  · intro m hm; rw [VC.cexS_ge m hm]; decide

/-- the drain succeeds, node 0 gets the stamp of the round and keeps its value -/
theorem VC.cexS_run : returned ((drainHeap exEnv 10).run.run VC.cexS) = true ∧
    ((((drainHeap exEnv 10).run.run VC.cexS).2).nodeD 0).changedAt = VC.cexS.stabNum ∧
    ((((drainHeap exEnv 10).run.run VC.cexS).2).nodeD 0).value = (VC.cexS.nodeD 0).value := by
  decide +kernel

/-- **the statement of `drainHeap_valchg` without the cutoff hypothesis is false** -/
theorem valchg_without_hcut_false :
    ¬ ∀ {env : Env} {fuel : Nat} {s s' : State}, DrainInv env s →
      (∀ m, (s.nodeD m).recomputedAt < s.stabNum ∧ (s.nodeD m).changedAt < s.stabNum) →
      (drainHeap env fuel).run.run s = (.ok (), s') →
      ∀ m, ((s'.nodeD m).changedAt = s.stabNum ↔ (s'.nodeD m).value ≠ (s.nodeD m).value) ∧
        ((s'.nodeD m).changedAt ≠ s.stabNum → (s'.nodeD m).changedAt = (s.nodeD m).changedAt) := by
  intro H
  obtain ⟨h1, h2, h3⟩ := VC.cexS_run
  obtain ⟨r, s', e⟩ := (returned_iff _).1 h1
  cases r
  rw [e] at h2 h3
  exact ((H VC.cexS_drainInv VC.cexS_stamps e 0).1.1 h2) h3

end IncrVerif.Proofs.SubsH
