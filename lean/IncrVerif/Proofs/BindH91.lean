import IncrVerif.Proofs.BindH80
import IncrVerif.Proofs.BindH12
/-!
# Binds, part 4d: the state fields a drain must not touch (`DKey`), and the auxiliary invariant of a drain inside `stabilise`
-/
namespace IncrVerif.Proofs.BindH
open IncrVerif.Engine IncrVerif.Proofs IncrVerif.Proofs.Step IncrVerif.Proofs.Sched IncrVerif.Proofs.Quiet

/-- the non-graph fields that the drain leaves alone (in the fragment: no effects, no update handlers) -/
structure DKey (t s : State) : Prop where
  observers : s.observers = t.observers
  allObservers : s.allObservers = t.allObservers
  newObservers : s.newObservers = t.newObservers
  disallowedObservers : s.disallowedObservers = t.disallowedObservers
  setDuringStab : s.setDuringStab = t.setDuringStab
  deadVars : s.deadVars = t.deadVars
  handleAfterStab : s.handleAfterStab = t.handleAfterStab
  alive : s.alive = t.alive
  status : s.status = t.status

theorem DKey.refl (s : State) : DKey s s := ⟨rfl, rfl, rfl, rfl, rfl, rfl, rfl, rfl, rfl⟩

theorem DKey.trans {a b c : State} (h1 : DKey a b) (h2 : DKey b c) : DKey a c :=
  ⟨h2.observers.trans h1.observers, h2.allObservers.trans h1.allObservers, h2.newObservers.trans h1.newObservers,
   h2.disallowedObservers.trans h1.disallowedObservers, h2.setDuringStab.trans h1.setDuringStab,
   h2.deadVars.trans h1.deadVars, h2.handleAfterStab.trans h1.handleAfterStab, h2.alive.trans h1.alive,
   h2.status.trans h1.status⟩

/-- node-level frame of a drain relative to its start state `t`: old nodes keep kind, scope and observer list; nodes created since are scope nodes -/
structure NKey (t s : State) : Prop where
  grow : t.nodes.size ≤ s.nodes.size
  old : ∀ m, m < t.nodes.size → (s.nodeD m).kind = (t.nodeD m).kind ∧
    (s.nodeD m).createdIn = (t.nodeD m).createdIn ∧ (s.nodeD m).observers = (t.nodeD m).observers
  new : ∀ m, t.nodes.size ≤ m → m < s.nodes.size → ∃ b, (s.nodeD m).createdIn = .bind b

theorem NKey.refl (s : State) : NKey s s :=
  ⟨Nat.le_refl _, fun _ _ => ⟨rfl, rfl, rfl⟩, fun m h1 h2 => absurd h2 (by omega)⟩

theorem NKey.trans {a b c : State} (h1 : NKey a b) (h2 : NKey b c) : NKey a c where
  grow := Nat.le_trans h1.grow h2.grow
  old m hm := by
    obtain ⟨k1, k2, k3⟩ := h1.old m hm
    obtain ⟨k4, k5, k6⟩ := h2.old m (Nat.lt_of_lt_of_le hm h1.grow)
    exact ⟨k4.trans k1, k5.trans k2, k6.trans k3⟩
  new m hm hm' := by
    by_cases hb : m < b.nodes.size
    · obtain ⟨b0, hb0⟩ := h1.new m hm hb
      exact ⟨b0, by rw [(h2.old m hb).2.1]; exact hb0⟩
    · exact h2.new m (by omega) hm'

/-- the auxiliary invariant of a drain inside `stabilise`: `F1Inv` plus the frames relative to the state `t` in which the drain started -/
def AuxS (env : Env) (t : State) (s : State) : Prop := F1Inv env s ∧ DKey t s ∧ NKey t s

/-- what has to be shown about one step: it keeps the `DKey` fields -/
def DKeyStep (s s' : State) : Prop := DKey s s'

/-- from the scheduling hypothesis for `F1Inv` and the `DKey` frame of every step, the scheduling hypothesis for `AuxS` -/
theorem lcStepsOK_auxS {env : Env} (H : LcStepsOK env (F1Inv env))
    (hstep : ∀ (fuel n : Nat) (s s' : State) (r : Option Nat), DInv env s (some n) → F1Inv env s →
      (recomputeOne env fuel n).run.run s = (.ok r, s') → DKey s s' ∧ NKey s s')
    (hpop : ∀ (s s1 : State) (n : Nat), rchRemoveMin.run.run s = (.ok (some n), s1) → DKey s s1 ∧ NKey s s1)
    (t : State) : LcStepsOK env (AuxS env t) where
  lc fuel n b s s' r I A hk h := by
    obtain ⟨h1, h2⟩ := H.lc fuel n b s s' r I A.1 hk h
    obtain ⟨k1, k2⟩ := hstep fuel n s s' r I A.1 h
    exact ⟨h1, h2, A.2.1.trans k1, A.2.2.trans k2⟩
  other fuel n s s' r I A hk h := by
    obtain ⟨k1, k2⟩ := hstep fuel n s s' r I A.1 h
    exact ⟨H.other fuel n s s' r I A.1 hk h, A.2.1.trans k1, A.2.2.trans k2⟩
  pop s s1 n I A h := by
    obtain ⟨k1, k2⟩ := hpop s s1 n h
    exact ⟨H.pop s s1 n I A.1 h, A.2.1.trans k1, A.2.2.trans k2⟩

end IncrVerif.Proofs.BindH
