import IncrVerif.Proofs.NestH45
/-!
# Nested binds (F2), part 4c-3: an extension by pristine top-level nodes keeps `F2Inv` and the invariant between actions `QInv2` (under the extended rank)
-/
namespace IncrVerif.Proofs.NestH
open IncrVerif.Engine IncrVerif.Driver IncrVerif.Proofs IncrVerif.Proofs.Step IncrVerif.Proofs.Sched IncrVerif.Proofs.Quiet
open IncrVerif.Proofs.BindH

namespace N4c

theorem top_push_keeps {s s1 : State} {r0 : Nat} (ht : s1.top = s.top.push r0) :
    ∀ (k r : Nat), s.top[k]? = some r → s1.top[k]? = some r := by
  intro k r hr
  have hk : k < s.top.size := (Array.getElem?_eq_some_iff.1 hr).1
  rw [ht, Array.getElem?_push, if_neg (by omega)]; exact hr

section
variable {env : Env} {rk rk' : Nat → Nat} {s s1 : State}

theorem f2inv2 (E : C2c.Ext s s1) (F : F2Inv env rk s) (U : RkUp rk rk' s.nodes.size) (H : NewOK2 env rk' s s1) :
    F2Inv env rk' s1 := by
  have A := F.frag
  obtain ⟨r0, ht, hr1, hr2, hr3⟩ := H.top
  -- an old valid node and its children
  have kid_old : ∀ {n c : Nat}, n < s.nodes.size → (s1.nodeD n).valid = true → c ∈ s.children n → c < s.nodes.size :=
    fun hn _ hc => (A.node _ hn).kidsIn _ hc
  refine
    { frag := frag2 E A U H
      nodup := ?_, ahh := ⟨by rw [E.ahh]; exact F.ahh.length, by rw [E.ahh]; exact F.ahh.buckets, ?_⟩
      pinv := by rw [E.pinv]; exact F.pinv
      noForce := ?_, noHandlers := ?_, inv := ?_, scopeObs := ?_, lcObs := ?_, lcCut := ?_, topOK := ?_
      closures := ?_, lhsOK := ?_, rhsNone := ?_, deadNone := ?_, rhsOK := ?_ }
  · intro c
    by_cases h : c < s.nodes.size
    · rw [E.old c h]; exact F.nodup c
    · rw [(E.new c (by omega)).parents]; exact List.nodup_nil
  · intro m
    by_cases h : m < s.nodes.size
    · rw [E.old m h]; exact F.ahh.marks m
    · exact (E.new m (by omega)).heightInAhh
  · intro m
    by_cases h : m < s.nodes.size
    · rw [E.old m h]; exact F.noForce m
    · exact (E.new m (by omega)).force
  · intro m
    by_cases h : m < s.nodes.size
    · rw [E.old m h]; exact F.noHandlers m
    · exact (E.new m (by omega)).handlers
  · intro m hv
    have hlt := E.lt_of_invalid hv
    rw [E.old m hlt] at hv ⊢
    exact F.inv m hv
  · intro m b hsc
    have hlt := E.lt_of_scope hsc
    rw [E.old m hlt] at hsc ⊢
    exact F.scopeObs m b hsc
  · intro m b hk
    by_cases hlt : m < s.nodes.size
    · rw [E.old m hlt] at hk ⊢
      exact F.lcObs m b hk
    · exact (E.new m (by omega)).observers
  · intro m b hk
    by_cases hlt : m < s.nodes.size
    · rw [E.old m hlt] at hk ⊢
      exact F.lcCut m b hk
    · exact H.lcCut m b (by omega) hk
  · intro k r h
    rw [ht, Array.getElem?_push] at h
    split at h
    · injection h with h
      rw [← h]
      exact ⟨hr2, (E.new r0 hr1).createdIn, hr3⟩
    · obtain ⟨h1, h2, h3⟩ := F.topOK k r h
      have := E.grow
      rw [E.old r h1]
      exact ⟨by omega, h2, h3⟩
  · -- closures
    intro b br hb
    by_cases h : b < s.binds.size
    · rw [E.bold b h] at hb
      obtain ⟨f, hf⟩ := F.closures b br hb
      refine ⟨f, BodyOK2.mono_top (top_push_keeps ht) ?_ f br.body hf⟩
      intro r hr ⟨k, hk⟩
      rw [U.old r (F.topOK k r hk).1, U.old _ (A.lc_lt hb)]
      exact hr
    · exact (H.bind b br (by omega) hb).2.2.2.1
  · -- lhsOK
    intro b br hb hv
    by_cases h : b < s.binds.size
    · rw [E.bold b h] at hb
      -- the lhs is the child of the valid (old) change detector, hence old
      have hl := A.lc_lt hb
      rw [E.old _ hl] at hv
      have ho : br.lhs < s.nodes.size := by
        apply (A.node br.lhsChange hl).kidsIn br.lhs
        unfold State.children Node.kind?
        rw [hv, (A.recs b br hb).2.2.1]
        simp only [if_true, hb]
        exact List.mem_cons_self ..
      rw [E.old _ ho]
      exact F.lhsOK b br hb hv
    · exact (H.bind b br (by omega) hb).2.2.2.2
  · intro b br hb hr
    by_cases h : b < s.binds.size
    · rw [E.bold b h] at hb
      exact F.rhsNone b br hb hr
    · exact (H.bind b br (by omega) hb).2.1
  · -- deadNone
    intro b br hb hv
    by_cases h : b < s.binds.size
    · rw [E.bold b h] at hb
      obtain ⟨h1, h2, -⟩ := A.recs b br hb
      rw [E.old br.main h2] at hv
      exact F.deadNone b br hb hv
    · exact (H.bind b br (by omega) hb).2.1
  · -- rhsOK
    intro b br o hb hr hv
    by_cases h : b < s.binds.size
    · rw [E.bold b h] at hb
      obtain ⟨h1, h2, -, h4, -⟩ := A.recs b br hb
      rw [E.old br.main h2] at hv
      -- the right-hand side is a child of the valid main node, hence old
      have ho : o < s.nodes.size := by
        apply (A.node br.main h2).kidsIn o
        unfold State.children Node.kind?
        rw [hv, h4]
        simp only [if_true, hb, hr]
        exact List.mem_cons_of_mem _ (List.mem_cons_self ..)
      obtain ⟨h5, h6⟩ := F.rhsOK b br o hb hr hv
      rw [E.old o ho]
      refine ⟨h5, ?_⟩
      rcases h6 with ⟨h6, h7⟩ | h6
      · exact Or.inl ⟨h6, by rw [U.old o ho, U.old _ (A.lc_lt hb)]; exact h7⟩
      · exact Or.inr h6
    · have := (H.bind b br (by omega) hb).2.2.1
      rw [this] at hr; cases hr

/-- **creation, pure part.**  An extension by pristine top-level nodes whose new nodes, records and naming-table entry are fine keeps `QInv2`,
under the extended rank. -/
theorem qinv2 (E : C2c.Ext s s1) (Q : QInv2 env rk s) (U : RkUp rk rk' s.nodes.size) (H : NewOK2 env rk' s s1) :
    QInv2 env rk' s1 where
  struct := struct2 E Q.struct Q.vars U H
  f2 := f2inv2 E Q.f2 U H
  vars := H.vars
  obs := E.obsOK Q.obs
  obsTop o ob h := by
    rw [E.observers] at h
    have hlt := (Q.obs.inRange o ob h).1
    rw [E.old ob.node hlt]
    exact Q.obsTop o ob h
  now := by rw [E.stabNum]; exact Q.now
  stamps m := by
    rw [E.stabNum]
    by_cases e : m < s.nodes.size
    · rw [E.old m e]; exact Q.stamps m
    · have := Q.now
      rw [(E.new m (by omega)).recomputedAt, (E.new m (by omega)).changedAt]
      exact ⟨by omega, by omega⟩
  varStamp c vc h := by
    rw [E.stabNum]
    rcases E.vars with e | ⟨v, ev⟩
    · rw [e] at h; exact Q.varStamp c vc h
    · rw [ev, Array.getElem?_push] at h
      split at h
      · injection h with h
        rw [← h]; exact Int.le_refl _
      · exact Q.varStamp c vc h
  cons m hm hv hs := by
    by_cases e : m < s.nodes.size
    · rw [isStale_old2 E Q.struct.frag Q.vars e] at hs
      rw [E.old m e] at hv
      exact consistent_old2 E Q.struct.frag e hv (Q.cons m e hv hs)
    · rw [H.stale m (by omega) hm] at hs; cases hs
  status := by rw [E.status]; exact Q.status
  alive := by rw [E.alive]; exact Q.alive
  setDuringStab := by rw [E.setDuringStab]; exact Q.setDuringStab
  deadVars := by rw [E.deadVars]; exact Q.deadVars
  handleAfterStab := by rw [E.handleAfterStab]; exact Q.handleAfterStab

end
end N4c
end IncrVerif.Proofs.NestH
