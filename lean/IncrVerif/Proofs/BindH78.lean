import IncrVerif.Proofs.BindH61
import IncrVerif.Proofs.BindH43
import IncrVerif.Proofs.Sched8
/-!
# Binds, fragment F1, CF1: the auxiliary invariant `F1Inv` is kept by a run of a static-kind / `bindMain` node and by `remove_min`

Port of `BF1`/`BF2` from `F0Inv` to `F1Inv`.  The extra frame needed is `numOnUpdateHandlers` (not in `SameShape`/`NodeSame`): it comes from
`Sched.Calm` (`Sched.PresC.maybeChangeValue`) and a closed form of `recomputeOne` that names the start state.
-/
namespace IncrVerif.Proofs.BindH
open IncrVerif.Engine IncrVerif.Proofs IncrVerif.Proofs.Step IncrVerif.Proofs.Sched IncrVerif.Proofs.Quiet
namespace CF

/-- `BF.recomputeOne_closed` with the start state named: `started n s` with some events logged -/
theorem recomputeOne_closed' {env : Env} {fuel n : Nat} {s s' : State} {r : Option Nat}
    (g : BGraph env s) (hn : s.isNecessary n = true)
    (hk : StaticKind env (s.nodeD n).kind ∨ ∃ b lc, (s.nodeD n).kind = .bindMain b lc)
    (hvals : ∀ c, c ∈ s.children n → ∃ v, (s.nodeD c).value = some v)
    (h : (recomputeOne env fuel n).run.run s = (.ok r, s')) :
    ∃ v es, (maybeChangeValue env fuel n v).run.run (Step.logged es (Step.started n s)) = (.ok r, s') := by
  have hlt := BS.nec_lt hn
  have hv := (g.nec n hn).1
  have hnn := some_of_lt hlt
  have e0 : ∀ S : State, Step.logged [] S = S := fun _ => rfl
  rcases hk with hk | ⟨b, lc, hkd⟩
  · obtain ⟨vals, hpv, hvo⟩ := BS.vals_of_children g hlt hv hk hvals
    cases hkd : (s.nodeD n).kind with
    | const w =>
      rw [recomputeOne_const_run env fuel n s _ w hnn hv hkd] at h
      exact ⟨_, [], by rw [e0]; exact h⟩
    | var c =>
      obtain ⟨vc, hvc⟩ := g.var n c hlt hv hkd
      rw [recomputeOne_var_run env fuel n s _ c vc hnn hv hkd hvc] at h
      exact ⟨_, [], by rw [e0]; exact h⟩
    | map f args =>
      rw [hkd] at hk hpv hvo
      by_cases hf : f < fnZip
      · rw [recomputeOne_map_run env fuel n s _ f args vals hnn hv hkd hf hvo (hk.2 hf vals) g.pc] at h
        exact ⟨_, _, h⟩
      · rw [recomputeOne_mapBuiltin_run env fuel n s _ f args vals hnn hv hkd hf hk.1 hvo] at h
        exact ⟨_, [], by rw [e0]; exact h⟩
    | fold f init cs =>
      rw [hkd] at hpv hvo
      rw [recomputeOne_fold_run env fuel n s _ f init cs vals hnn hv hkd hvo g.pc] at h
      exact ⟨_, _, h⟩
    | mapRef _ _ => rw [hkd] at hk; exact hk.elim
    | mapWithOld _ _ => rw [hkd] at hk; exact hk.elim
    | bindLhsChange _ => rw [hkd] at hk; exact hk.elim
    | bindMain _ _ => rw [hkd] at hk; exact hk.elim
    | expert _ => rw [hkd] at hk; exact hk.elim
  · obtain ⟨br, hbr, -, -, -⟩ := g.mainRec n b lc hlt hv hkd
    cases hr : br.rhs with
    | none =>
      obtain ⟨e, t, he⟩ := BS.recomputeOne_bindMain_norhs env fuel n s _ b lc br hnn hv hkd hbr hr
      rw [he] at h; cases h
    | some r0 =>
      have hch : s.children n = [lc, r0] := by
        simp only [State.children, BS.kind?_of_valid hv, hkd, hbr, hr]
      have hmem : r0 ∈ s.children n := by rw [hch]; simp
      obtain ⟨hrlt, hrv⟩ := (g.node n hlt hv).2.2 r0 hmem
      obtain ⟨v, hval⟩ := hvals r0 hmem
      have hval' : s.value env r0 = some v := by
        rw [value_plain env s r0 (BS.BKind.not_mapRef (g.node r0 hrlt hrv).1)]; exact hval
      rw [recomputeOne_bindMain_run env fuel n s _ b lc r0 br _ v hnn hv hkd hbr hr (some_of_lt hrlt) hrv
        hval'] at h
      exact ⟨_, [], by rw [e0]; exact h⟩

/-- no node's count of update handlers changes -/
theorem recomputeOne_num {env : Env} {fuel n : Nat} {s s' : State} {r : Option Nat}
    (g : BGraph env s) (hn : s.isNecessary n = true)
    (hk : StaticKind env (s.nodeD n).kind ∨ ∃ b lc, (s.nodeD n).kind = .bindMain b lc)
    (hvals : ∀ c, c ∈ s.children n → ∃ v, (s.nodeD c).value = some v)
    (h : (recomputeOne env fuel n).run.run s = (.ok r, s')) (m : Nat) :
    (s'.nodeD m).numOnUpdateHandlers = (s.nodeD m).numOnUpdateHandlers := by
  obtain ⟨v, es, h0⟩ := recomputeOne_closed' g hn hk hvals h
  rw [((PresC.maybeChangeValue env fuel n v).h _ _ s' h0).num m]
  show ((Step.started n s).nodeD m).numOnUpdateHandlers = _
  rw [started_nodeD]; split <;> rfl

/-- `All1` only reads the shape of the nodes, the node count, `binds`, `currentScope`, `panicCountdown` -/
theorem all1_transfer {env : Env} {s s' : State} {dy : List Nat} (A : All1 env s dy)
    (hsz : s'.nodes.size = s.nodes.size)
    (hsh : ∀ m, SameShape (s.nodeD m) (s'.nodeD m))
    (hb : s'.binds = s.binds) (hsc : s'.currentScope = .top) (hpc : s'.panicCountdown = none) :
    All1 env s' dy := by
  have hch : ∀ m, s'.children m = s.children m := fun m => by
    by_cases hm : m < s.nodes.size
    · exact children_congr_B (hsh m).kind (hsh m).valid hb (A.node m hm).kind
    · rw [children_default s m (by omega), children_default s' m (by rw [hsz]; omega)]
  have eK : ∀ m, (s'.nodeD m).kind = (s.nodeD m).kind := fun m => (hsh m).kind
  have eV : ∀ m, (s'.nodeD m).valid = (s.nodeD m).valid := fun m => (hsh m).valid
  have eC : ∀ m, (s'.nodeD m).createdIn = (s.nodeD m).createdIn := fun m => (hsh m).createdIn
  refine ⟨hpc, hsc, fun n hn => ?_, ?_, ?_, ?_, ?_⟩
  · have sn := A.node n (by rw [← hsz]; exact hn)
    refine ⟨by rw [eK]; exact sn.kind, by rw [(hsh n).cutoff]; exact sn.cutoff, ?_, ?_, ?_, ?_, ?_, ?_, ?_⟩
    · rw [hch, hsz]; exact sn.kidsIn
    · intro c hc; rw [hch] at hc; rw [eV]; exact sn.kidsValid c hc
    · rw [eK, hb]; exact sn.lcRec
    · rw [eK, hb]; exact sn.mainRec
    · intro c b hc hk
      rw [hch] at hc
      rw [eK] at hk ⊢
      exact sn.lcChild c b hc hk
    · intro h
      rw [eC] at h
      obtain ⟨h1, h2⟩ := sn.top h
      refine ⟨by rw [eV]; exact h1, ?_⟩
      intro c hc
      rw [hch] at hc
      rw [eC, eK]
      exact h2 c hc
    · intro b h
      rw [eC] at h
      obtain ⟨h1, h2, br, h3, h4, h5⟩ := sn.inScope b h
      refine ⟨by rw [eK]; exact h1, by rw [eK]; exact h2, br, by rw [hb]; exact h3, h4, ?_⟩
      intro c hc
      rw [hch] at hc
      rw [eC]
      exact h5 c hc
  · intro b br hbr
    rw [hb] at hbr
    rw [hsz, eK, eK, eC, eC]
    exact A.recs b br hbr
  · intro b br hbr m
    rw [hb] at hbr
    rw [hsz, eV, eC]
    exact A.gen b br hbr m
  · intro b br hbr
    rw [hb] at hbr
    exact A.genDy b br hbr
  · intro m hm
    rw [hsz, eC]
    exact A.dyIn m hm

theorem opndOK_congr {s s' : State} (htop : s'.top = s.top) (lc nloc : Nat) (o : Opnd) :
    OpndOK s' lc nloc o ↔ OpndOK s lc nloc o := by
  cases o <;> simp only [OpndOK, htop]

theorem instrOK_congr {env : Env} {s s' : State} (htop : s'.top = s.top) (lc nloc : Nat) (i : Instr) :
    InstrOK env s' lc nloc i ↔ InstrOK env s lc nloc i := by
  cases i <;> simp only [InstrOK, opndOK_congr htop]

theorem templOK_congr {env : Env} {s s' : State} (htop : s'.top = s.top) (lc : Nat) (t : Template) :
    TemplOK env s' lc t ↔ TemplOK env s lc t := by
  simp only [TemplOK, instrOK_congr htop, opndOK_congr htop]

/-- `F1Inv` only reads: the shape of the nodes, the `heightInAhh` and `numOnUpdateHandlers` markers, `inRch` of INVALID nodes,
the number of nodes, `binds`, `top`, `ahh`, `propagateInvalidity`, `currentScope`, `panicCountdown` -/
theorem F1Inv.transfer {env : Env} {s s' : State} (A : F1Inv env s)
    (hsz : s'.nodes.size = s.nodes.size)
    (hsh : ∀ m, SameShape (s.nodeD m) (s'.nodeD m))
    (hnum : ∀ m, (s'.nodeD m).numOnUpdateHandlers = (s.nodeD m).numOnUpdateHandlers)
    (hin : ∀ m, (s'.nodeD m).inRch = true → (s.nodeD m).inRch = true ∨ (s.nodeD m).valid = true)
    (hah : BF.HAh s s')
    (hb : s'.binds = s.binds) (htop : s'.top = s.top) (hahh : s'.ahh = s.ahh)
    (hpinv : s'.propagateInvalidity = s.propagateInvalidity) (hsc : s'.currentScope = s.currentScope)
    (hpc : s'.panicCountdown = none) : F1Inv env s' := by
  refine
    { frag := all1_transfer A.frag hsz hsh hb (hsc.trans A.frag.scope) hpc
      nodup := fun c => by rw [(hsh c).parents]; exact A.nodup c
      ahh := ⟨by rw [hahh]; exact A.ahh.length, ?_, fun m => (hah m).trans (A.ahh.marks m)⟩
      pinv := hpinv.trans A.pinv
      noForce := fun m => by rw [(hsh m).forceNecessary]; exact A.noForce m
      noHandlers := fun m => by rw [hnum]; exact A.noHandlers m
      inv := fun m hv => ?_
      scopeObs := fun m b h => by
        rw [(hsh m).observers]; exact A.scopeObs m b (by rw [← (hsh m).createdIn]; exact h)
      lcObs := fun m b h => by rw [(hsh m).observers]; exact A.lcObs m b (by rw [← (hsh m).kind]; exact h)
      lcCut := fun m b h => by rw [(hsh m).cutoff]; exact A.lcCut m b (by rw [← (hsh m).kind]; exact h)
      topOK := fun k r h => ?_
      closures := fun b br v h => (templOK_congr htop _ _).2 (A.closures b br v (by rw [← hb]; exact h))
      rhsNone := fun b br h => A.rhsNone b br (by rw [← hb]; exact h)
      rhsOK := fun b br o h ho => ?_ }
  · -- the buckets of the adjust-heights heap
    intro i hi
    have hi' : i < s.ahh.queues.size := by rw [← hahh]; exact hi
    have := A.ahh.buckets i hi'
    simp only [hahh]; exact this
  · -- invalid nodes
    have hv0 : (s.nodeD m).valid = false := by rw [← (hsh m).valid]; exact hv
    obtain ⟨h1, h2, h3⟩ := A.inv m hv0
    refine ⟨by rw [(hsh m).parents]; exact h1, by rw [(hsh m).observers]; exact h2, ?_⟩
    cases hq : (s'.nodeD m).inRch with
    | false => rfl
    | true =>
      rcases hin m hq with h | h
      · rw [h3] at h; cases h
      · rw [hv0] at h; cases h
  · obtain ⟨h1, h2, h3⟩ := A.topOK k r (by rw [← htop]; exact h)
    exact ⟨by rw [hsz]; exact h1, by rw [(hsh r).createdIn]; exact h2, fun b' => by rw [(hsh r).kind]; exact h3 b'⟩
  · rw [(hsh o).createdIn, (hsh o).kind, (hsh o).valid]
    exact A.rhsOK b br o (by rw [← hb]; exact h) ho

end CF

/-- `F1Inv` is kept by a successful `recomputeOne` on a necessary node of a static kind or of kind `bindMain` -/
theorem recomputeOne_stepB_F1 {env : Env} {fuel n : Nat} {s s' : State} {r : Option Nat}
    (g : BGraph env s) (hi : HeapInv s) (hn : s.isNecessary n = true)
    (hk : StaticKind env (s.nodeD n).kind ∨ ∃ b lc, (s.nodeD n).kind = .bindMain b lc)
    (hvals : ∀ c, c ∈ s.children n → ∃ v, (s.nodeD c).value = some v)
    (h : (recomputeOne env fuel n).run.run s = (.ok r, s')) (A : F1Inv env s) : F1Inv env s' := by
  obtain ⟨v, ch, -, R⟩ := recomputeOne_stepB g hi hn hk hvals h
  have K := BF.recomputeOne_keyD_B g hn hk hvals h
  have H := BF.recomputeOne_hah g hn hk hvals h
  simp only [KeyD, stateKeyD, Prod.mk.injEq] at K
  obtain ⟨-, -, hsc, htop, -, -, hpinv, -, -, -, hahh⟩ := K
  refine CF.F1Inv.transfer A R.size (fun m => ?_) (CF.recomputeOne_num g hn hk hvals h) (fun m hq => ?_) H R.binds
    htop hahh hpinv hsc R.pc
  · by_cases e : m = n
    · rw [e]; exact R.shape
    · exact SameShape.of_nodeSame (R.other m e)
  · rcases R.newIn m hq with h1 | ⟨-, h2⟩
    · exact Or.inl h1
    · obtain ⟨⟨p, i⟩, hpi, rfl⟩ := List.mem_map.1 h2
      exact Or.inr (g.nec p (g.parent n p i hpi).1).1

/-- `F1Inv` is kept by `remove_min` -/
theorem pop_F1 {env : Env} {s s1 : State} {n : Nat} (hi : HeapInv s)
    (hr : rchRemoveMin.run.run s = (.ok (some n), s1)) (A : F1Inv env s) : F1Inv env s1 := by
  have hpop := rchRemoveMin_inv hi hr
  simp only at hpop
  obtain ⟨-, -, -, hs1, -⟩ := hpop
  have hnode : ∀ m, s1.nodeD m =
      if n = m ∧ m < s.nodes.size then { s.nodeD m with heightInRch := -1 } else s.nodeD m := by
    intro m
    rw [hs1]
    exact nodeD_modify { s with rch := s1.rch } n m (fun x => { x with heightInRch := -1 })
  refine CF.F1Inv.transfer A (by rw [hs1]; simp) (fun m => ?_) (fun m => ?_) (fun m hq => Or.inl ?_) (fun m => ?_)
    (by rw [hs1]) (by rw [hs1]) (by rw [hs1]) (by rw [hs1]) (by rw [hs1]) (by rw [hs1]; exact A.frag.pc)
  · rw [hnode]; split <;> exact ⟨rfl, rfl, rfl, rfl, rfl, rfl, rfl, rfl⟩
  · rw [hnode]; split <;> rfl
  · rw [hnode] at hq
    split at hq
    · simp [Node.inRch] at hq
    · exact hq
  · rw [hnode]; split <;> rfl

end IncrVerif.Proofs.BindH
