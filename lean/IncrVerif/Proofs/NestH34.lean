import IncrVerif.Proofs.NestH33
/-!
# Nested binds (F2), phase 3 (`lhsInvalidateOld`), part 4: the dying subtrees are unnecessary; the static facts `All2` after the phase

* `dying_facts`: every dying node is a valid, parentless node of some scope (`GInv2.scope_no_parents` for the deeper ones); `sub_of_dying`: `Sub rk s a`
  for the nodes of the dying generation.
* `Ctx2`: the hypotheses of `InvalSpec2` + the exact description `Mid2 s (Dying s dy) s'` of the final state.  From it `All2 env rk s' []` (`Ctx2.frag'`).
-/
namespace IncrVerif.Proofs.NestH
open IncrVerif.Engine IncrVerif.Proofs IncrVerif.Proofs.Step IncrVerif.Proofs.Sched IncrVerif.Proofs.Quiet
open IncrVerif.Proofs.BindH

namespace NI

section facts
variable {env : Env} {rk : Nat → Nat} {s : State} {ex : Nat → Prop} {dy : List Nat} {b : Nat}

/-- every dying node is a valid, parentless node of some scope -/
theorem dying_facts (I : GInv2 env rk s allClosed ex dy)
    (hdy : ∀ m, m ∈ dy → (s.nodeD m).createdIn = .bind b ∧ (s.nodeD m).parents = [] ∧ (s.nodeD m).valid = true)
    (hnf : ∀ m, (s.nodeD m).forceNecessary = false) {m : Nat} (hm : Dying s dy m) :
    m < s.nodes.size ∧ (s.nodeD m).valid = true ∧ (∃ b', (s.nodeD m).createdIn = .bind b') ∧
      (s.nodeD m).parents = [] := by
  induction hm with
  | base h1 =>
    obtain ⟨h2, h3, h4⟩ := hdy _ h1
    exact ⟨(I.frag.dyIn _ h1).1, h4, ⟨b, h2⟩, h3⟩
  | @inner p m b2 lc2 hp hk hl hv hsc ih =>
    obtain ⟨hpl, hpv, ⟨b', hpsc⟩, hpp⟩ := ih
    obtain ⟨br2, hb2, hmain, -⟩ := (I.frag.node p hpl).mainRec b2 lc2 hk
    have hnn : s.isNecessary p = false := by
      simp only [State.isNecessary, Node.isNecessary, hpp, I.scopeObs p b' hpsc, hnf p]
      rfl
    have := I.scope_no_parents hb2 (fun x => x < s.nodes.size ∧ (s.nodeD x).createdIn = .bind b2) (fun x h => h)
      (fun q x hq hx _ => ⟨lt_size_of_mem_children hx, hq⟩)
      (fun x _ _ hw => by
        rw [wants_closed rfl, hmain, hnn] at hw
        cases hw)
      (fun x k h => by cases h) (fun x _ => hnf x) m ⟨hl, hsc⟩
    exact ⟨hl, hv, ⟨b2, hsc⟩, this⟩

/-- every dying node lies below the main node of the bind -/
theorem dying_rk (I : GInv2 env rk s allClosed ex dy)
    (hdy : ∀ m, m ∈ dy → (s.nodeD m).createdIn = .bind b ∧ (s.nodeD m).parents = [] ∧ (s.nodeD m).valid = true)
    (hnf : ∀ m, (s.nodeD m).forceNecessary = false) {brb : BindRec} (hb : s.binds[b]? = some brb)
    {m : Nat} (hm : Dying s dy m) : rk m < rk brb.main := by
  induction hm with
  | base h1 => exact (I.frag.scope_rk (I.frag.dyIn _ h1).1 (hdy _ h1).1 hb).2
  | @inner p m b2 lc2 hp hk hl hv hsc ih =>
    have hpl := (dying_facts I hdy hnf hp).1
    obtain ⟨br2, hb2, hmain, -⟩ := (I.frag.node p hpl).mainRec b2 lc2 hk
    have := (I.frag.scope_rk hl hsc hb2).2
    rw [hmain] at this
    omega

theorem dying_nec (I : GInv2 env rk s allClosed ex dy)
    (hdy : ∀ m, m ∈ dy → (s.nodeD m).createdIn = .bind b ∧ (s.nodeD m).parents = [] ∧ (s.nodeD m).valid = true)
    (hnf : ∀ m, (s.nodeD m).forceNecessary = false) {m : Nat} (hm : Dying s dy m) : s.isNecessary m = false := by
  obtain ⟨-, -, ⟨b', hsc⟩, hpar⟩ := dying_facts I hdy hnf hm
  simp only [State.isNecessary, Node.isNecessary, hpar, I.scopeObs m b' hsc, hnf m]
  rfl

theorem dying_unq (I : GInv2 env rk s allClosed ex dy)
    (hdy : ∀ m, m ∈ dy → (s.nodeD m).createdIn = .bind b ∧ (s.nodeD m).parents = [] ∧ (s.nodeD m).valid = true)
    (hnf : ∀ m, (s.nodeD m).forceNecessary = false) {m : Nat} (hm : Dying s dy m) : (s.nodeD m).inRch = false := by
  cases hq : (s.nodeD m).inRch with
  | false => rfl
  | true =>
    rcases I.qnec m hq with h | ⟨k, h⟩
    · rw [dying_nec I hdy hnf hm] at h; cases h
    · cases h

/-- what the run needs to know about the subtrees of the dying generation -/
theorem sub_of_dying (I : GInv2 env rk s allClosed ex dy)
    (hdy : ∀ m, m ∈ dy → (s.nodeD m).createdIn = .bind b ∧ (s.nodeD m).parents = [] ∧ (s.nodeD m).valid = true)
    (hnf : ∀ m, (s.nodeD m).forceNecessary = false) (hnh : ∀ m, (s.nodeD m).numOnUpdateHandlers = 0)
    {a : Nat} (ha : a ∈ dy) : Sub rk s a := by
  have A := I.frag
  obtain ⟨brb, hb, -⟩ := A.scope_bind (A.dyIn a ha).1 (hdy a ha).1
  refine ⟨fun m hm => ?_, fun m b2 lc2 hm hk => ?_⟩
  · have hd := dying_of_mem ha hm
    obtain ⟨hl, hv, -, -⟩ := dying_facts I hdy hnf hd
    exact ⟨hl, hv, dying_nec I hdy hnf hd, dying_unq I hdy hnf hd, hnh m⟩
  · have hd := dying_of_mem ha hm
    have hl := (dying_facts I hdy hnf hd).1
    obtain ⟨br2, hb2, hmain, -⟩ := (A.node m hl).mainRec b2 lc2 hk
    have hne : b2 ≠ b := by
      intro e
      rw [e, hb] at hb2; cases hb2
      have := dying_rk I hdy hnf hb hd
      rw [hmain] at this
      exact Nat.lt_irrefl _ this
    refine ⟨br2, hb2, hmain, fun x => ?_, fun x hx hsc => ?_⟩
    · rw [← A.gen b2 br2 hb2 x]
      constructor
      · exact Or.inl
      · rintro (h | ⟨h1, h2⟩)
        · exact h
        · rw [(hdy x h1).1] at h2
          injection h2 with h2
          exact absurd h2.symm hne
    · have := (A.scope_rk hx hsc hb2).2
      rw [hmain] at this
      exact this

theorem recsK_of (A : All2 env rk s dy) : RecsK s := fun b' br0 hb => ⟨br0.lhsChange, (A.recs b' br0 hb).2.2.2.1⟩

end facts

/-- the situation after phase 3 -/
structure Ctx2 (env : Env) (rk : Nat → Nat) (s : State) (ex : Nat → Prop) (dy : List Nat) (b : Nat) (s' : State) : Prop where
  I : GInv2 env rk s allClosed ex dy
  hdy : ∀ m, m ∈ dy → (s.nodeD m).createdIn = .bind b ∧ (s.nodeD m).parents = [] ∧ (s.nodeD m).valid = true
  hrhs : ∀ br1 r, s.binds[b]? = some br1 → br1.rhs = some r → r ∉ dy
  hnf : ∀ m, (s.nodeD m).forceNecessary = false
  M : Mid2 s (Dying s dy) s'

namespace Ctx2
variable {env : Env} {rk : Nat → Nat} {s s' : State} {ex : Nat → Prop} {dy : List Nat} {b : Nat}

theorem kindEq (C : Ctx2 env rk s ex dy b s') (m : Nat) : (s'.nodeD m).kind = (s.nodeD m).kind := C.M.kindEq m

theorem createdEq (C : Ctx2 env rk s ex dy b s') (m : Nat) : (s'.nodeD m).createdIn = (s.nodeD m).createdIn :=
  C.M.createdEq m

theorem cutoffEq (C : Ctx2 env rk s ex dy b s') (m : Nat) : (s'.nodeD m).cutoff = (s.nodeD m).cutoff := by
  by_cases h : Dying s dy m
  · rw [C.M.dead m h]; rfl
  · rw [C.M.other m h]

theorem parentsEq (C : Ctx2 env rk s ex dy b s') (m : Nat) : (s'.nodeD m).parents = (s.nodeD m).parents := by
  by_cases h : Dying s dy m
  · rw [C.M.dead m h]; rfl
  · rw [C.M.other m h]

theorem obsEq (C : Ctx2 env rk s ex dy b s') (m : Nat) : (s'.nodeD m).observers = (s.nodeD m).observers := by
  by_cases h : Dying s dy m
  · rw [C.M.dead m h]; rfl
  · rw [C.M.other m h]

theorem forceEq (C : Ctx2 env rk s ex dy b s') (m : Nat) :
    (s'.nodeD m).forceNecessary = (s.nodeD m).forceNecessary := by
  by_cases h : Dying s dy m
  · rw [C.M.dead m h]; rfl
  · rw [C.M.other m h]

theorem heightEq (C : Ctx2 env rk s ex dy b s') (m : Nat) : (s'.nodeD m).height = (s.nodeD m).height := by
  by_cases h : Dying s dy m
  · rw [C.M.dead m h]; rfl
  · rw [C.M.other m h]

theorem hrchEq (C : Ctx2 env rk s ex dy b s') (m : Nat) : (s'.nodeD m).heightInRch = (s.nodeD m).heightInRch := by
  by_cases h : Dying s dy m
  · rw [C.M.dead m h]; rfl
  · rw [C.M.other m h]

theorem inRchEq (C : Ctx2 env rk s ex dy b s') (m : Nat) : (s'.nodeD m).inRch = (s.nodeD m).inRch := by
  simp only [Node.inRch, C.hrchEq m]

theorem necEq (C : Ctx2 env rk s ex dy b s') (m : Nat) : s'.isNecessary m = s.isNecessary m := by
  simp only [State.isNecessary, Node.isNecessary, C.parentsEq m, C.obsEq m, C.forceEq m]

theorem deadInvalid (C : Ctx2 env rk s ex dy b s') {m : Nat} (h : Dying s dy m) : (s'.nodeD m).valid = false := by
  rw [C.M.dead m h]; rfl

theorem facts (C : Ctx2 env rk s ex dy b s') {m : Nat} (h : Dying s dy m) :
    m < s.nodes.size ∧ (s.nodeD m).valid = true ∧ (∃ b', (s.nodeD m).createdIn = .bind b') ∧
      (s.nodeD m).parents = [] := dying_facts C.I C.hdy C.hnf h

theorem dyNec (C : Ctx2 env rk s ex dy b s') {m : Nat} (h : Dying s dy m) : s.isNecessary m = false :=
  dying_nec C.I C.hdy C.hnf h

theorem dyUnq (C : Ctx2 env rk s ex dy b s') {m : Nat} (h : Dying s dy m) : (s.nodeD m).inRch = false :=
  dying_unq C.I C.hdy C.hnf h

/-- a node that is valid after the phase did not die -/
theorem not_dying_of_valid (C : Ctx2 env rk s ex dy b s') {m : Nat} (h : (s'.nodeD m).valid = true) : ¬ Dying s dy m :=
  fun hd => by rw [C.deadInvalid hd] at h; cases h

/-- no surviving node has a dying child -/
theorem kids_not_dying (C : Ctx2 env rk s ex dy b s') {m c : Nat} (hm : ¬ Dying s dy m) (hc : c ∈ s.children m) :
    ¬ Dying s dy c := by
  intro hcd
  have A := C.I.frag
  have hml := lt_size_of_mem_children hc
  have hmv : (s.nodeD m).valid = true := by
    cases hv : (s.nodeD m).valid with
    | true => rfl
    | false => rw [children_of_invalid hv] at hc; cases hc
  cases hcd with
  | base h1 =>
    obtain ⟨hcs, -, -⟩ := C.hdy c h1
    rcases C.I.parent_of_scope hc hcs with ⟨hpsc, h2⟩ | ⟨lc, hkp⟩
    · exact hm (.base (h2.1 h1))
    · obtain ⟨br, hb, hmn, -⟩ := (A.node m hml).mainRec b lc hkp
      rw [← hmn] at hmv hc
      rw [C.I.main_children hb hmv] at hc
      rcases List.mem_cons.1 hc with e | e
      · have := (A.scope_rk (A.dyIn c h1).1 hcs hb).1
        rw [e] at this
        exact Nat.lt_irrefl _ this
      · cases hr : br.rhs with
        | none => rw [hr] at e; cases e
        | some r =>
          rw [hr] at e
          simp only [Option.toList_some, List.mem_singleton] at e
          rw [e] at h1
          exact C.hrhs br r hb hr h1
  | @inner p _ b2 lc2 hp hk hl hv hsc =>
    have hpl := (C.facts hp).1
    obtain ⟨br2, hb2, hmain, -⟩ := (A.node p hpl).mainRec b2 lc2 hk
    rcases C.I.parent_of_scope hc hsc with ⟨hpsc, -⟩ | ⟨lc, hkp⟩
    · exact hm (.inner hp hk hml hmv hpsc)
    · obtain ⟨br, hb, hmn, -⟩ := (A.node m hml).mainRec b2 lc hkp
      rw [hb2] at hb; cases hb
      rw [← hmn, hmain] at hm
      exact hm hp

/-- the bind tables agree up to the lists -/
theorem bsame (C : Ctx2 env rk s ex dy b s') : CN.BSame s s' := by
  intro b'
  cases hs : s.binds[b']? with
  | none =>
    refine Or.inl ⟨rfl, ?_⟩
    rw [Array.getElem?_eq_none_iff] at hs ⊢
    rw [C.M.bindsSize]; exact hs
  | some br0 =>
    by_cases hd : Dying s dy br0.main
    · exact Or.inr ⟨br0, [], rfl, (C.M.binds b' br0 hs).1 hd⟩
    · exact Or.inr ⟨br0, br0.allNodesCreatedOnRhs, rfl, (C.M.binds b' br0 hs).2 hd⟩

/-- a record of the new table -/
theorem binds_inv (C : Ctx2 env rk s ex dy b s') {b' : Nat} {br' : BindRec} (hb : s'.binds[b']? = some br') :
    ∃ br0, s.binds[b']? = some br0 ∧
      ((Dying s dy br0.main ∧ br' = { br0 with allNodesCreatedOnRhs := [] }) ∨ (¬ Dying s dy br0.main ∧ br' = br0)) := by
  cases hs : s.binds[b']? with
  | none =>
    have : s'.binds[b']? = none := by
      rw [Array.getElem?_eq_none_iff] at hs ⊢
      rw [C.M.bindsSize]; exact hs
    rw [this] at hb; cases hb
  | some br0 =>
    refine ⟨br0, rfl, ?_⟩
    by_cases hd : Dying s dy br0.main
    · rw [(C.M.binds b' br0 hs).1 hd] at hb
      cases hb
      exact Or.inl ⟨hd, rfl⟩
    · rw [(C.M.binds b' br0 hs).2 hd] at hb
      cases hb
      exact Or.inr ⟨hd, rfl⟩

theorem children_other (C : Ctx2 env rk s ex dy b s') {m : Nat} (hm : ¬ Dying s dy m) : s'.children m = s.children m := by
  by_cases hl : m < s.nodes.size
  · exact CN.children_congr_C (C.M.other m hm) C.bsame (C.I.frag.node m hl).kind
  · rw [children_default s m (by omega), children_default s' m (by rw [C.M.size]; omega)]

theorem children_dead (C : Ctx2 env rk s ex dy b s') {m : Nat} (hm : Dying s dy m) : s'.children m = [] :=
  Inval.children_invalid s' m (C.deadInvalid hm)

theorem stale_other (C : Ctx2 env rk s ex dy b s') {m : Nat} (hm : ¬ Dying s dy m) : s'.isStale m = s.isStale m := by
  by_cases hl : m < s.nodes.size
  · refine CN.isStale_congr_C (C.I.frag.node m hl).kind (C.M.other m hm) (C.children_other hm) C.M.vars (fun c hc => ?_)
    rw [C.M.other c (C.kids_not_dying hm hc)]
  · rw [BL.isStale_default s m (by omega), BL.isStale_default s' m (by rw [C.M.size]; omega)]

/-- the two nodes of a bind die together -/
theorem lc_iff_main (C : Ctx2 env rk s ex dy b s') {b' : Nat} {br0 : BindRec} (hb0 : s.binds[b']? = some br0) :
    Dying s dy br0.lhsChange ↔ Dying s dy br0.main := by
  have A := C.I.frag
  obtain ⟨h1, h2, h3, h4, h5⟩ := A.recs b' br0 hb0
  have hrv := A.recValid b' br0 hb0
  have hlcl := A.lc_lt hb0
  -- both in the scope `b` of the dying generation: same generation
  have key : (s.nodeD br0.main).createdIn = .bind b → (s.nodeD br0.main).valid = true →
      (br0.lhsChange ∈ dy ↔ br0.main ∈ dy) := by
    intro hsc hv
    obtain ⟨-, br, -, -, hkids⟩ := (A.node br0.main h2).inScope b hsc
    have hc : br0.lhsChange ∈ s.children br0.main := by
      rw [C.I.main_children hb0 hv]; exact List.mem_cons_self ..
    rcases hkids _ hc with h | ⟨-, h⟩ | ⟨b2, lc2, hk, hsc2⟩
    · rw [← h5, hsc] at h; cases h
    · exact h
    · exfalso
      rw [h4] at hk
      injection hk with e1 e2
      subst e1
      have := (A.scope_rk hlcl hsc2 hb0).1
      exact Nat.lt_irrefl _ this
  constructor
  · intro hd
    have hv : (s.nodeD br0.main).valid = true := by rw [hrv]; exact (C.facts hd).2.1
    cases hd with
    | base h => exact .base ((key (by rw [h5]; exact (C.hdy _ h).1) hv).1 h)
    | @inner p _ b2 lc2 hp hk _ _ hsc => exact .inner hp hk h2 hv (by rw [h5]; exact hsc)
  · intro hd
    have hv : (s.nodeD br0.main).valid = true := (C.facts hd).2.1
    cases hd with
    | base h => exact .base ((key (C.hdy _ h).1 hv).2 h)
    | @inner p _ b2 lc2 hp hk _ _ hsc => exact .inner hp hk hlcl (by rw [← hrv]; exact hv) (by rw [← h5]; exact hsc)

/-! ## the static facts -/

theorem node' (C : Ctx2 env rk s ex dy b s') (n : Nat) (hn : n < s'.nodes.size) : N2 env rk s' [] n := by
  have hl : n < s.nodes.size := by rw [← C.M.size]; exact hn
  have N := C.I.frag.node n hl
  have hlc : ∀ b0, (s'.nodeD n).kind = .bindLhsChange b0 → ∃ br, s'.binds[b0]? = some br ∧ br.lhsChange = n := by
    intro b0 hk
    rw [C.kindEq] at hk
    obtain ⟨br, h1, h2⟩ := N.lcRec b0 hk
    obtain ⟨l, h3⟩ := C.bsame.fwd h1
    exact ⟨_, h3, h2⟩
  have hmr : ∀ b0 lc, (s'.nodeD n).kind = .bindMain b0 lc →
      ∃ br, s'.binds[b0]? = some br ∧ br.main = n ∧ br.lhsChange = lc := by
    intro b0 lc hk
    rw [C.kindEq] at hk
    obtain ⟨br, h1, h2, h3⟩ := N.mainRec b0 lc hk
    obtain ⟨l, h4⟩ := C.bsame.fwd h1
    exact ⟨_, h4, h2, h3⟩
  by_cases hd : Dying s dy n
  · -- a dead node: no children any more
    have hch := C.children_dead hd
    refine ⟨by rw [C.kindEq]; exact N.kind, by rw [C.cutoffEq]; exact N.cutoff, ?_, ?_, ?_, hlc, hmr, ?_, ?_, ?_⟩
    · intro c hc; rw [hch] at hc; cases hc
    · intro c hc; rw [hch] at hc; cases hc
    · intro c hc; rw [hch] at hc; cases hc
    · intro c b' hc; rw [hch] at hc; cases hc
    · intro h
      rw [C.createdEq] at h
      obtain ⟨b', hb'⟩ := (C.facts hd).2.2.1
      rw [hb'] at h
      cases h
    · intro b' h
      rw [C.createdEq] at h
      obtain ⟨h1, br, h3, h4, -⟩ := N.inScope b' h
      obtain ⟨l, h5⟩ := C.bsame.fwd h3
      refine ⟨by rw [C.kindEq]; exact h1, _, h5, h4, ?_⟩
      intro c hc; rw [hch] at hc; cases hc
  · have hch := C.children_other hd
    refine ⟨by rw [C.kindEq]; exact N.kind, by rw [C.cutoffEq]; exact N.cutoff, ?_, ?_, ?_, hlc, hmr, ?_, ?_, ?_⟩
    · rw [hch, C.M.size]; exact N.kidsIn
    · intro c hc
      rw [hch] at hc
      rw [C.M.other c (C.kids_not_dying hd hc)]
      exact N.kidsValid c hc
    · rw [hch]; exact N.kidLt
    · intro c b' hc hk
      rw [hch] at hc
      rw [C.kindEq] at hk ⊢
      exact N.lcChild c b' hc hk
    · intro h
      rw [C.createdEq] at h
      obtain ⟨h1, h2⟩ := N.top h
      refine ⟨by rw [C.M.other n hd]; exact h1, ?_⟩
      intro c hc
      rw [hch] at hc
      rw [C.createdEq, C.kindEq]
      exact h2 c hc
    · intro b' h
      rw [C.createdEq] at h
      obtain ⟨h1, br, h3, h4, h5⟩ := N.inScope b' h
      obtain ⟨l, h6⟩ := C.bsame.fwd h3
      refine ⟨by rw [C.kindEq]; exact h1, _, h6, h4, ?_⟩
      intro c hc
      rw [hch] at hc
      rw [C.createdEq, C.kindEq]
      rcases h5 c hc with h7 | ⟨h7, -⟩ | h7
      · exact Or.inl h7
      · exact Or.inr (Or.inl ⟨h7, by simp⟩)
      · exact Or.inr (Or.inr h7)

theorem frag' (C : Ctx2 env rk s ex dy b s') : All2 env rk s' [] := by
  have A := C.I.frag
  refine ⟨by rw [C.M.pc]; exact A.pc, by rw [C.M.scope]; exact A.scope, C.node', ?_, ?_, ?_, ?_, ?_, ?_, ?_, ?_⟩
  · intro b' br hb
    obtain ⟨br0, hb0, -, -, e3, e4, -⟩ := C.bsame.bwd' hb
    rw [e3, e4, C.M.size, C.kindEq, C.kindEq, C.createdEq, C.createdEq]
    exact A.recs b' br0 hb0
  · intro b' br hb m
    rw [C.M.size]
    obtain ⟨br0, hb0, hcase⟩ := C.binds_inv hb
    have hkm := (A.recs b' br0 hb0).2.2.2.1
    constructor
    · rintro (h | ⟨h, -⟩)
      · rcases hcase with ⟨hd, e⟩ | ⟨hd, e⟩
        · rw [e] at h; cases h
        · rw [e] at h
          have hnd := A.genDy b' br0 hb0 m h
          obtain ⟨h1, h2, h3⟩ := (A.gen b' br0 hb0 m).1 (Or.inl h)
          have hndy : ¬ Dying s dy m := by
            intro hdm
            cases hdm with
            | base h' => exact hnd h'
            | @inner p _ b2 lc2 hp hk _ _ hsc =>
              rw [h3] at hsc
              injection hsc with e1
              subst e1
              obtain ⟨br2, hb2, hmain, -⟩ := (A.node p (C.facts hp).1).mainRec b' lc2 hk
              rw [hb0] at hb2; cases hb2
              rw [hmain] at hd
              exact hd hp
          rw [C.M.other m hndy]
          exact ⟨h1, h2, h3⟩
      · cases h
    · rintro ⟨h1, h2, h3⟩
      left
      have hnd := C.not_dying_of_valid h2
      rw [C.M.other m hnd] at h2 h3
      rcases hcase with ⟨hd, e⟩ | ⟨hd, e⟩
      · exact absurd (Dying.inner hd hkm h1 h2 h3) hnd
      · rw [e]
        rcases (A.gen b' br0 hb0 m).2 ⟨h1, h2, h3⟩ with h | ⟨h, -⟩
        · exact h
        · exact absurd (Dying.base h) hnd
  · intro b' br _ m _ hm; cases hm
  · intro m hm; cases hm
  · intro n b' br hn hv hsc hb
    have hnd := C.not_dying_of_valid hv
    rw [C.M.other n hnd] at hv hsc
    rw [C.M.size] at hn
    obtain ⟨br0, hb0, -, -, e3, e4, -⟩ := C.bsame.bwd' hb
    rw [e3, e4]
    obtain ⟨h1, h2⟩ := A.scopeValid n b' br0 hn hv hsc hb0
    have hm : ¬ Dying s dy br0.main := fun hd => hnd (.inner hd (A.recs b' br0 hb0).2.2.2.1 hn hv hsc)
    have hlc : ¬ Dying s dy br0.lhsChange := fun hd => hm ((C.lc_iff_main hb0).1 hd)
    rw [C.M.other _ hlc, C.M.other _ hm]
    exact ⟨h1, h2⟩
  · intro b' br hb
    obtain ⟨br0, hb0, -, -, e3, e4, -⟩ := C.bsame.bwd' hb
    rw [e3, e4]
    by_cases hd : Dying s dy br0.main
    · rw [C.deadInvalid hd, C.deadInvalid ((C.lc_iff_main hb0).2 hd)]
    · rw [C.M.other _ hd, C.M.other _ (fun h => hd ((C.lc_iff_main hb0).1 h))]
      exact A.recValid b' br0 hb0
  · intro n b' br hn hsc hb
    rw [C.M.size] at hn
    rw [C.createdEq] at hsc
    obtain ⟨br0, hb0, -, -, e3, e4, -⟩ := C.bsame.bwd' hb
    rw [e3, e4]
    exact A.scopeRk n b' br0 hn hsc hb0
  · intro n m hn hm
    rw [C.M.size] at hn hm
    exact A.rkInj n m hn hm

end Ctx2

end NI

end IncrVerif.Proofs.NestH
