import IncrVerif.Proofs.BindH1
/-!
# Binds, part 3a: the drain invariant for graphs with binds — definitions

Fragment (of the states, not of the programs): every VALID node is of a static kind (`const`, `var`, pure `map`, `fold`)
or one of the two bind kinds; cutoff `.eq` or `.never`; no fault armed.  The graph CHANGES during the drain: a run of a
`bindLhsChange` node creates nodes, re-links the bind's main node, makes nodes necessary/unnecessary and invalidates the
previous generation.

* `Edge s a c`: `c` is a child of `a` (`State.children`, for ANY valid `a`, necessary or not), or `a` is a valid node
  created in scope `.bind b` and `c` is the change detector of `b` (a *virtual* edge: the scope height rule makes the
  change detector behave like a child of every node of its scope).  `Below s a d`: reflexive-transitive closure.
* `BGraph env s`: the structure of the graph at rest (between two `recomputeOne`s).
* `TargetB`, `ConsistentB`: the defining equation of a node, bind kinds included.
* `DInv env s x`: the drain invariant; `x` = the node that is about to run.
* `StepRelB`: what a run of a static or `bindMain` node does (the graph is unchanged).
* `StepL`: what a run of a `bindLhsChange` node does (the contract between the structural proofs and the scheduling
  argument).
-/
namespace IncrVerif.Proofs.BindH
open IncrVerif.Engine IncrVerif.Proofs IncrVerif.Proofs.Step IncrVerif.Proofs.Sched

/-! ## the fragment -/

/-- kinds of the bind fragment -/
def BKind (env : Env) : Kind → Prop
  | .bindLhsChange _ => True
  | .bindMain _ _ => True
  | k => StaticKind env k

/-! ## edges -/

inductive Edge (s : State) : Nat → Nat → Prop
  | child {a c : Nat} : c ∈ s.children a → Edge s a c
  | scope {a b : Nat} {br : BindRec} : (s.nodeD a).valid = true → (s.nodeD a).createdIn = .bind b →
      s.binds[b]? = some br → Edge s a br.lhsChange

inductive Below (s : State) : Nat → Nat → Prop
  | refl (a : Nat) : Below s a a
  | step {a c d : Nat} : Edge s a c → Below s c d → Below s a d

/-! ## structure at rest -/

structure BGraph (env : Env) (s : State) : Prop where
  pc : s.panicCountdown = none
  /-- every valid node: kind of the fragment, cutoff, its children exist and are valid -/
  node : ∀ n, n < s.nodes.size → (s.nodeD n).valid = true →
    BKind env (s.nodeD n).kind ∧ ((s.nodeD n).cutoff = .eq ∨ (s.nodeD n).cutoff = .never) ∧
      ∀ c, c ∈ s.children n → c < s.nodes.size ∧ (s.nodeD c).valid = true
  /-- necessary nodes are valid and have a height -/
  nec : ∀ n, s.isNecessary n = true → (s.nodeD n).valid = true ∧ 0 ≤ (s.nodeD n).height
  var : ∀ n c, n < s.nodes.size → (s.nodeD n).valid = true → (s.nodeD n).kind = .var c →
    ∃ vc, s.vars[c]? = some vc
  /-- child edges of necessary nodes are recorded, children are necessary and strictly lower -/
  child : ∀ n, s.isNecessary n = true → ∀ i c, (s.children n)[i]? = some c →
    s.isNecessary c = true ∧ (n, i) ∈ (s.nodeD c).parents ∧ (s.nodeD c).height < (s.nodeD n).height
  /-- recorded parent entries are child edges of necessary nodes -/
  parent : ∀ c p i, (p, i) ∈ (s.nodeD c).parents →
    s.isNecessary p = true ∧ (s.children p)[i]? = some c
  /-- a valid node created in a bind's scope: the bind exists, its change detector is a valid node; THE SCOPE
  HEIGHT RULE for necessary ones -/
  scope : ∀ n b, n < s.nodes.size → (s.nodeD n).valid = true → (s.nodeD n).createdIn = .bind b →
    ∃ br, s.binds[b]? = some br ∧ br.lhsChange < s.nodes.size ∧ (s.nodeD br.lhsChange).valid = true ∧
      (s.isNecessary n = true →
        s.isNecessary br.lhsChange = true ∧ (s.nodeD br.lhsChange).height < (s.nodeD n).height)
  /-- bind kinds name their record -/
  lcRec : ∀ n b, n < s.nodes.size → (s.nodeD n).valid = true → (s.nodeD n).kind = .bindLhsChange b →
    ∃ br, s.binds[b]? = some br ∧ br.lhsChange = n
  mainRec : ∀ n b lc, n < s.nodes.size → (s.nodeD n).valid = true → (s.nodeD n).kind = .bindMain b lc →
    ∃ br, s.binds[b]? = some br ∧ br.main = n ∧ br.lhsChange = lc ∧
      (s.nodeD lc).createdIn = (s.nodeD n).createdIn
  /-- only the main node of a bind has the bind's change detector as a child -/
  lcChild : ∀ m c b, m < s.nodes.size → (s.nodeD m).valid = true → c ∈ s.children m →
    (s.nodeD c).kind = .bindLhsChange b → (s.nodeD m).kind = .bindMain b c
  /-- the graph (all edges of valid nodes, virtual edges included) is acyclic -/
  acyc : ∃ rk : Nat → Nat, ∀ a c, Edge s a c → rk c < rk a

/-! ## defining equations -/

/-- `v` is what node `n`'s defining expression yields on the current stored values of its children -/
def TargetB (env : Env) (s : State) (n : Nat) (v : Val) : Prop :=
  match (s.nodeD n).kind with
  | .bindLhsChange _ => v = .unit
  | .bindMain b _ => ∃ br r, s.binds[b]? = some br ∧ br.rhs = some r ∧ (s.nodeD r).value = some v
  | _ => Target env s n v

def ConsistentB (env : Env) (s : State) (n : Nat) : Prop :=
  ∃ v, TargetB env s n v ∧ (s.nodeD n).value = some v

/-! ## the drain invariant -/

structure DInv (env : Env) (s : State) (x : Option Nat) : Prop where
  graph : BGraph env s
  heap : HeapInv s
  stamps : Stamps s
  /-- only stale nodes are queued -/
  qstale : ∀ m, (s.nodeD m).inRch = true → s.isStale m = true
  /-- stale necessary nodes are queued (or current) -/
  pending : ∀ m, s.isNecessary m = true → s.isStale m = true → (s.nodeD m).inRch = true ∨ x = some m
  /-- EVERY valid node that is not stale (necessary or not) is consistent with its children -/
  cons : ∀ m, m < s.nodes.size → (s.nodeD m).valid = true → s.isStale m = false → ConsistentB env s m
  /-- above a stale node or the current node (through all edges, virtual ones included) nothing has been
  recomputed in this round -/
  fresh : ∀ a d, Below s a d → (s.isStale d = true ∨ x = some d) → (s.nodeD a).recomputedAt < s.stabNum
  /-- the current node is necessary and nothing at or below it is queued -/
  cur : ∀ n, x = some n → s.isNecessary n = true ∧ ∀ d, Below s n d → (s.nodeD d).inRch = false

/-! ## a run of a static or bind-main node -/

/-- everything queued is above the change detector of the scope `p` was created in (the D2 guard) -/
def ScopeClear (s s' : State) (p : Nat) : Prop :=
  ∀ b br, (s.nodeD p).createdIn = .bind b → s.binds[b]? = some br →
    ∀ m, (s'.nodeD m).inRch = true → (s.nodeD br.lhsChange).height < (s.nodeD m).height

/-- why `p` may be handed over for direct recomputation after `n` changed -/
def HandOK (s s' : State) (n p : Nat) : Prop :=
  (s.children p = [n] ∧ ScopeClear s s' p) ∨
  (∀ m, (s'.nodeD m).inRch = true → (s.nodeD p).height ≤ (s.nodeD m).height) ∨
  (∃ b lc, (s.nodeD p).kind = .bindMain b lc ∧ s.children p = [lc, n] ∧ ScopeClear s s' p ∧
    ∀ m, (s'.nodeD m).inRch = true → (s.nodeD lc).height < (s.nodeD m).height)

/-- `s'` is `s` after a successful `recomputeOne env fuel n` on a static or bind-main node that computed `v`, stamped
`changedAt` iff `ch`, and returned `r` -/
structure StepRelB (n : Nat) (v : Val) (ch : Bool) (r : Option Nat) (s s' : State) : Prop where
  size : s'.nodes.size = s.nodes.size
  vars : s'.vars = s.vars
  binds : s'.binds = s.binds
  stabNum : s'.stabNum = s.stabNum
  pc : s'.panicCountdown = none
  qsize : s'.rch.queues.size = s.rch.queues.size
  other : ∀ m, m ≠ n → NodeSame (s.nodeD m) (s'.nodeD m)
  shape : SameShape (s.nodeD n) (s'.nodeD n)
  value : (s'.nodeD n).value = some v
  recomputedAt : (s'.nodeD n).recomputedAt = s.stabNum
  changedAt : (s'.nodeD n).changedAt = if ch = true then s.stabNum else (s.nodeD n).changedAt
  unch : ch = false → (s.nodeD n).value = some v ∧ r = none
  heap : HeapInv s'
  newIn : ∀ m, (s'.nodeD m).inRch = true →
    (s.nodeD m).inRch = true ∨ (ch = true ∧ m ∈ (s.nodeD n).parents.map (·.1))
  parentsIn : ch = true → ∀ p, p ∈ (s.nodeD n).parents.map (·.1) → (s'.nodeD p).inRch = true ∨ r = some p
  ret : ∀ p, r = some p → ch = true ∧ p ∈ (s.nodeD n).parents.map (·.1) ∧ (s'.nodeD p).inRch = false ∧
    HandOK s s' n p

/-! ## a run of a change detector -/

/-- `s'` is `s` after a successful `recomputeOne env fuel n` on the change detector `n` of bind `b` (record `br` before,
`br'` after).  `dead`: the nodes of the previous generation. -/
structure StepL (env : Env) (n b : Nat) (br br' : BindRec) (r : Option Nat) (s s' : State) : Prop where
  bind : s.binds[b]? = some br
  bind' : s'.binds[b]? = some br'
  lc : br.lhsChange = n ∧ br'.lhsChange = n ∧ br'.main = br.main ∧ br'.lhs = br.lhs ∧ br'.body = br.body
  bindsOther : s'.binds.size = s.binds.size ∧ ∀ b', b' ≠ b → s'.binds[b']? = s.binds[b']?
  grow : s.nodes.size ≤ s'.nodes.size
  vars : s'.vars = s.vars
  stabNum : s'.stabNum = s.stabNum
  /-- structure and heap of the new state, wholesale -/
  graph' : BGraph env s'
  heap' : HeapInv s'
  stamps' : Stamps s'
  qstale' : ∀ m, (s'.nodeD m).inRch = true → s'.isStale m = true
  pending' : ∀ m, s'.isNecessary m = true → s'.isStale m = true → (s'.nodeD m).inRch = true ∨ r = some m
  /-- the change detector itself -/
  self : (s'.nodeD n).recomputedAt = s.stabNum ∧ (s'.nodeD n).changedAt = s.stabNum ∧
    (s'.nodeD n).value = some .unit ∧ (s'.nodeD n).valid = true ∧ (s'.nodeD n).kind = (s.nodeD n).kind ∧
    s'.children n = s.children n ∧ (s'.nodeD n).createdIn = (s.nodeD n).createdIn
  /-- old nodes: died (invalid now, they were valid nodes of scope `b`), or unchanged in what evaluation reads -/
  old : ∀ m, m < s.nodes.size → m ≠ n →
    ((s.nodeD m).valid = true ∧ (s'.nodeD m).valid = false ∧ (s.nodeD m).createdIn = .bind b) ∨
    ((s'.nodeD m).valid = (s.nodeD m).valid ∧ (s'.nodeD m).kind = (s.nodeD m).kind ∧
      (s'.nodeD m).createdIn = (s.nodeD m).createdIn ∧
      (s'.nodeD m).value = (s.nodeD m).value ∧ (s'.nodeD m).recomputedAt = (s.nodeD m).recomputedAt ∧
      (s'.nodeD m).changedAt = (s.nodeD m).changedAt ∧
      (m ≠ br.main → s'.children m = s.children m))
  /-- new nodes: never computed, created in scope `b` -/
  new : ∀ m, s.nodes.size ≤ m → m < s'.nodes.size →
    (s'.nodeD m).recomputedAt = -1 ∧ (s'.nodeD m).createdIn = .bind b ∧
      ((s'.nodeD m).valid = true → s'.isStale m = true)
  /-- the main node: has the change detector as a child, before and after -/
  main : br.main < s.nodes.size ∧ n ∈ s.children br.main ∧ n ∈ s'.children br.main ∧ br.main ≠ n
  /-- the main node may be handed over, and only when nothing queued is lower -/
  ret : ∀ p, r = some p → p = br.main ∧ (s'.nodeD p).inRch = false ∧ s'.isNecessary p = true ∧
    ∀ m, (s'.nodeD m).inRch = true → (s'.nodeD p).height ≤ (s'.nodeD m).height

end IncrVerif.Proofs.BindH
