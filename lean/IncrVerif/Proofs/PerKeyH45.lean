import IncrVerif.Proofs.PerKeyH44
import IncrVerif.Proofs.PerKeyH25
import IncrVerif.Proofs.PerKeyH39
/-!
# Per-key operators, static steps part 3: the step, read in `V`

A run of a node that is neither a change detector nor an expert node: matched on the structural twin
(`recomputeOne_tsim`), simulated on its virtual state `W` (`ExpertH.recomputeOne_sim`), described there by
`BindH.StepRelB` (`BindH.recomputeOne_stepB`), moved to `V s`, `V s'` along `Kin`.
-/
namespace IncrVerif.Proofs.PerKeyH
open IncrVerif.Engine IncrVerif.Driver IncrVerif.Proofs IncrVerif.Proofs.Step IncrVerif.Proofs.Sched
open IncrVerif.Proofs.ExpertH IncrVerif.Proofs.EffH IncrVerif.Proofs.DriverH IncrVerif.Proofs.Xp
open IncrVerif.Proofs.ExpertH.QR

theorem tKind_of_pkind {env : Env} {k : Kind} (h : PKind env k) (hne : ∀ e, k ≠ .expert e)
    (hf : ∀ f args, k = .map f args → f < fnPerKey) : TKind env k := by
  have hx := xKind_of_pkind h hf
  cases k <;> first | trivial | exact hx | exact h.elim | exact absurd rfl (hne _)

theorem pkind_map_ne_fLc {env : Env} {f : Nat} {args : List Nat} (h : PKind env (.map f args)) (hf : f < fnPerKey) :
    f ≠ fLc := by
  simp only [PKind] at h
  unfold fLc
  rcases h with h | h | h | h
  · have := h.1; unfold fnZip at this; omega
  · rw [h]; decide
  · rw [h]; decide
  · omega

/-- the defining equation of a node of a static kind of the fragment is the same in the virtual twin and in `V` -/
theorem target_V {env : Env} {l : List Event} {s : State} {n : Nat} {v : Val} (F : PFrag env s)
    (hne : ∀ e, (s.nodeD n).kind ≠ .expert e) (hf : ∀ f args, (s.nodeD n).kind = .map f args → f < fnPerKey)
    (ht : BindH.TargetB (virtEnv (twEnv env)) (virt (twL l s)) n v) : BindH.TargetB (penv env) (V s) n v := by
  have hpk := F.kindD n
  have K := kin_twin_V l s
  cases hk : (s.nodeD n).kind with
  | const w =>
    have hW : ((virt (twL l s)).nodeD n).kind = .const w := by rw [Kvirt_twL_kind, hk]; rfl
    have hV : ((V s).nodeD n).kind = .const w := by rw [V_kind, hk]; rfl
    simp only [BindH.TargetB, Target, hW] at ht
    simp only [BindH.TargetB, Target, hV]; exact ht
  | var c =>
    have hW : ((virt (twL l s)).nodeD n).kind = .var c := by rw [Kvirt_twL_kind, hk]; rfl
    have hV : ((V s).nodeD n).kind = .var c := by rw [V_kind, hk]; rfl
    simp only [BindH.TargetB, Target, hW] at ht
    simp only [BindH.TargetB, Target, hV]; exact ht
  | map f args =>
    have hfl := hf f args hk
    rw [hk] at hpk
    have hW : ((virt (twL l s)).nodeD n).kind = .map f args := by
      rw [Kvirt_twL_kind, hk, twKind_small hfl]; rfl
    have hV : ((V s).nodeD n).kind = .map f args := by
      rw [V_kind, hk, vKind_map, if_neg (by omega)]
    simp only [BindH.TargetB, Target, hW] at ht
    simp only [BindH.TargetB, Target, hV]
    obtain ⟨vals, h1, h2⟩ := ht
    refine ⟨vals, by rw [K.plainVals args]; exact h1, ?_⟩
    rw [penv_fn_ne env (pkind_map_ne_fLc hpk hfl)]; exact h2
  | fold f init cs =>
    rw [hk] at hpk
    have hfx : f < xBase := hpk
    have hW : ((virt (twL l s)).nodeD n).kind = .fold f init cs := by rw [Kvirt_twL_kind, hk]; rfl
    have hV : ((V s).nodeD n).kind = .fold f init cs := by rw [V_kind, hk]; rfl
    simp only [BindH.TargetB, Target, hW] at ht
    simp only [BindH.TargetB, Target, hV]
    obtain ⟨vals, h1, h2⟩ := ht
    refine ⟨vals, by rw [K.plainVals cs]; exact h1, ?_⟩
    have e1 : (virtEnv (twEnv env)).foldStep f = env.foldStep f := by
      funext acc x
      show (if xBase ≤ f then _ else _) = _
      rw [if_neg (by omega)]; rfl
    rw [penv_foldStep_lt env hfx, ← e1]; exact h2
  | expert e => exact absurd hk (hne e)
  | bindLhsChange _ => rw [hk] at hpk; exact hpk.elim
  | bindMain _ _ => rw [hk] at hpk; exact hpk.elim
  | mapRef _ _ => rw [hk] at hpk; exact hpk.elim
  | mapWithOld _ _ => rw [hk] at hpk; exact hpk.elim

/-- **the run of a static node, read in `V`** -/
theorem static_core {env : Env} {fuel n : Nat} {s s' : State} {r : Option Nat} (D : PD env s (some n))
    (hne : ∀ e, (s.nodeD n).kind ≠ .expert e)
    (hf : ∀ f args, (s.nodeD n).kind = .map f args → f < fnPerKey)
    (h : (recomputeOne env fuel n).run.run s = (.ok r, s')) :
    ∃ v ch, BindH.TargetB (penv env) (V s) n v ∧ BindH.StepRelB n v ch r (V s) (V s') ∧ Fr s' ∧ SF s s' := by
  have I := D.inv
  have A := D.aux
  have F := A.frag
  obtain ⟨hnecV, hltV, -, -, -⟩ := I.cur_facts
  have hlt : n < s.nodes.size := by rw [← V_size]; exact hltV
  have fr := fr_of_pfrag F A.pinv
  have hpk := F.kindD n
  -- the twin
  obtain ⟨⟨l', htw⟩, fr'⟩ := recomputeOne_tsim fr hlt (tKind_of_pkind hpk hne hf) [] h
  have FT := xfrag_twin [] F
  have frT := fr_twin [] F A.pinv
  have hltT : n < (twL [] s).nodes.size := by rw [KtwL_size]; exact hlt
  have hneT : ∀ e, ((twL [] s).nodeD n).kind ≠ .expert e := by
    intro e he
    rw [KtwL_kind, KtwKind_eq_expert] at he
    exact hne e he
  obtain ⟨hsim, -⟩ := recomputeOne_sim frT hltT (FT.kind n hltT) hneT htw
  -- the virtual twin
  have K := kin_twin_V [] s
  have K' := kin_twin_V l' s'
  have hsW := sk_virt_twin [] F
  have hsV := sk_V F
  have gW := K.symm.bgraph I.graph hsV hsW
  have hW := K.symm.heapInv I.heap
  have necW : (virt (twL [] s)).isNecessary n = true := by rw [K.symm.isNecessary]; exact hnecV
  have hvalsW : ∀ c, c ∈ (virt (twL [] s)).children n → ∃ v, ((virt (twL [] s)).nodeD c).value = some v := by
    intro c hc
    rw [K.symm.children (hsV n) (hsW n)] at hc
    rw [K.symm.value]
    exact I.kids_values c hc
  obtain ⟨v, ch, htW, RW⟩ := BindH.recomputeOne_stepB gW hW necW (Or.inl (hsW n)) hvalsW hsim
  -- the frames
  obtain ⟨sf, -⟩ := SF.of_run fr hlt (xKind_of_pkind hpk hf) hne h
  -- to `V`
  have R := K.stepRelB K' (KK.of_all (V_kind_frame sf)) hsW hsV RW
  exact ⟨v, ch, target_V F hne hf htW, R, fr', sf⟩

end IncrVerif.Proofs.PerKeyH
