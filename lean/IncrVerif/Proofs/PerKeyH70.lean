import IncrVerif.Proofs.PerKeyH39
/-!
# Per-key operators, pure part 2: the assembled map is the model's `accOf` map
-/
namespace IncrVerif.Proofs.PerKeyH
open IncrVerif IncrVerif.Engine IncrVerif.Proofs IncrVerif.Proofs.ExpertH IncrVerif.Proofs.EffH

/-! ## `asmPairs`: membership, keys -/

theorem mem_asmPairs (tags : List (Int × Int)) (vals : List Val) (k x : Int) :
    (k, x) ∈ asmPairs tags vals ↔ ∃ (i : Nat) (v : Val), tags[i]? = some (k, 1) ∧ vals[i]? = some v ∧ v.toInt = x := by
  induction tags generalizing vals with
  | nil => simp
  | cons kt tags ih =>
    rcases kt with ⟨k0, t0⟩
    cases vals with
    | nil => simp
    | cons v0 vs =>
      rw [asmPairs_cons, List.mem_append, ih]
      constructor
      · rintro (h | ⟨i, v, h1, h2, h3⟩)
        · by_cases ht : t0 = 1
          · rw [if_pos ht] at h
            simp only [List.mem_singleton, Prod.mk.injEq] at h
            exact ⟨0, v0, by simp [h.1, ht], by simp, h.2.symm⟩
          · rw [if_neg ht] at h; simp at h
        · exact ⟨i + 1, v, by simpa using h1, by simpa using h2, h3⟩
      · rintro ⟨i, v, h1, h2, h3⟩
        cases i with
        | zero =>
          simp only [List.getElem?_cons_zero, Option.some.injEq, Prod.mk.injEq] at h1 h2
          left
          rw [if_pos h1.2]
          simp [h1.1, h2, h3]
        | succ i =>
          right
          exact ⟨i, v, by simpa using h1, by simpa using h2, h3⟩

theorem mem_keys_asmPairs (tags : List (Int × Int)) (vals : List Val) (k : Int)
    (h : k ∈ (asmPairs tags vals).map (·.1)) : (k, 1) ∈ tags := by
  obtain ⟨⟨k', x⟩, hm, rfl⟩ := List.mem_map.mp h
  obtain ⟨i, v, h1, _, _⟩ := (mem_asmPairs tags vals k' x).mp hm
  exact List.mem_of_getElem? h1

theorem asmPairs_keys_nodup (tags : List (Int × Int)) (vals : List Val)
    (h : tags.Pairwise (fun a b => a.2 = 1 → b.2 = 1 → a.1 ≠ b.1)) :
    ((asmPairs tags vals).map (·.1)).Nodup := by
  induction tags generalizing vals with
  | nil => simp
  | cons kt tags ih =>
    rcases kt with ⟨k0, t0⟩
    cases vals with
    | nil => simp
    | cons v0 vs =>
      rw [List.pairwise_cons] at h
      rw [asmPairs_cons]
      by_cases ht : t0 = 1
      · rw [if_pos ht]
        simp only [List.singleton_append, List.map_cons, List.nodup_cons]
        refine ⟨?_, ih vs h.2⟩
        intro hm
        exact h.1 _ (mem_keys_asmPairs tags vs k0 hm) ht rfl rfl
      · rw [if_neg ht]
        simpa using ih vs h.2

/-! ## `tagsOf` -/

/-- the tag of one edge -/
def tagOf (prevNodes : List (Int × (Nat × Nat))) (ed : ExpertEdge) : Int × Int :=
  match prevNodes.find? (fun p => p.2.2 == ed.dep) with
  | some p => (p.1, 1)
  | none => (0, 0)

theorem tagsOf_eq_map (prevNodes : List (Int × (Nat × Nat))) (children : List ExpertEdge) :
    tagsOf prevNodes children = children.map (tagOf prevNodes) := rfl

theorem tagsOf_length (prevNodes : List (Int × (Nat × Nat))) (children : List ExpertEdge) :
    (tagsOf prevNodes children).length = children.length := by
  simp [tagsOf]

theorem tagsOf_ne_nil (prevNodes : List (Int × (Nat × Nat))) {children : List ExpertEdge} (h : children ≠ []) :
    tagsOf prevNodes children ≠ [] := by
  simpa [tagsOf] using h

/-- a map that is injective on the list: from `Nodup` of the image -/
theorem eq_of_nodup_map {α β : Type} {f : α → β} {l : List α} (h : (l.map f).Nodup) {a b : α}
    (ha : a ∈ l) (hb : b ∈ l) (e : f a = f b) : a = b := by
  induction l with
  | nil => simp at ha
  | cons x l ih =>
    rw [List.map_cons, List.nodup_cons] at h
    rcases List.mem_cons.mp ha with rfl | ha' <;> rcases List.mem_cons.mp hb with rfl | hb'
    · rfl
    · exact absurd (List.mem_map.mpr ⟨b, hb', e.symm⟩) h.1
    · exact absurd (List.mem_map.mpr ⟨a, ha', e⟩) h.1
    · exact ih h.2 ha' hb'

theorem tagOf_of_mem {prevNodes : List (Int × (Nat × Nat))} (hd : (prevNodes.map (·.2.2)).Nodup)
    {p : Int × (Nat × Nat)} (hp : p ∈ prevNodes) {ed : ExpertEdge} (he : p.2.2 = ed.dep) :
    tagOf prevNodes ed = (p.1, 1) := by
  unfold tagOf
  rcases hf : prevNodes.find? (fun p => p.2.2 == ed.dep) with _ | p'
  · rw [List.find?_eq_none] at hf
    have := hf p hp
    simp [he] at this
  · rw [hf]
    have h1 := List.mem_of_find?_eq_some hf
    have h2 := List.find?_some hf
    simp only [beq_iff_eq] at h2
    have : p' = p := eq_of_nodup_map hd h1 hp (h2.trans he.symm)
    rw [this]

theorem tagOf_eq_one {prevNodes : List (Int × (Nat × Nat))} {ed : ExpertEdge} {k : Int}
    (h : tagOf prevNodes ed = (k, 1)) : ∃ p ∈ prevNodes, p.2.2 = ed.dep ∧ p.1 = k := by
  unfold tagOf at h
  rcases hf : prevNodes.find? (fun p => p.2.2 == ed.dep) with _ | p'
  · rw [hf] at h; simp at h
  · rw [hf] at h
    have h1 := List.mem_of_find?_eq_some hf
    have h2 := List.find?_some hf
    simp only [beq_iff_eq] at h2
    simp only [Prod.mk.injEq, and_true] at h
    exact ⟨p', h1, h2, h⟩

theorem tagOf_snd_one {prevNodes : List (Int × (Nat × Nat))} {ed : ExpertEdge}
    (h : (tagOf prevNodes ed).2 = 1) : ∃ p ∈ prevNodes, p.2.2 = ed.dep ∧ p.1 = (tagOf prevNodes ed).1 :=
  tagOf_eq_one (k := (tagOf prevNodes ed).1) (Prod.ext rfl h)

theorem tagOf_of_not_mem {prevNodes : List (Int × (Nat × Nat))} {ed : ExpertEdge}
    (h : ∀ p ∈ prevNodes, p.2.2 ≠ ed.dep) : tagOf prevNodes ed = (0, 0) := by
  unfold tagOf
  rcases hf : prevNodes.find? (fun p => p.2.2 == ed.dep) with _ | p'
  · rw [hf]
  · exfalso
    have h1 := List.mem_of_find?_eq_some hf
    have h2 := List.find?_some hf
    simp only [beq_iff_eq] at h2
    exact absurd h2 (h p' h1)

/-- the keys of the assembled pairs are distinct -/
theorem asmPairs_tagsOf_nodup {prevNodes : List (Int × (Nat × Nat))} {children : List ExpertEdge}
    (hk : (prevNodes.map (·.1)).Nodup) (hc : (children.map (·.dep)).Nodup) (vals : List Val) :
    ((asmPairs (tagsOf prevNodes children) vals).map (·.1)).Nodup := by
  apply asmPairs_keys_nodup
  rw [tagsOf_eq_map, List.pairwise_map]
  have hc' : children.Pairwise (fun a b => a.dep ≠ b.dep) := by
    simpa [List.Nodup, List.pairwise_map] using hc
  refine hc'.imp ?_
  intro a b hab ha hb e
  obtain ⟨p, hp, hpd, hpk⟩ := tagOf_snd_one ha
  obtain ⟨q, hq, hqd, hqk⟩ := tagOf_snd_one hb
  have : p = q := eq_of_nodup_map hk hp hq (by rw [hpk, hqk, e])
  subst this
  exact hab (hpd.symm.trans hqd)

/-! ## 6. the bridge, general form (the change detector's edge is not special) -/

/-- the list the model assembles (`PerKey.accOf` with the record's fields made explicit) -/
def accList (prevNodes : List (Int × (Nat × Nat))) (slots : List (Nat × Val)) : List (Int × Int) :=
  prevNodes.filterMap fun (k, (_, dep)) =>
    match slots.lookup dep with
    | some v => some (k, v.toInt)
    | none => none

theorem accOf_eq_accList (s : State) (er : ExpertRec) (op : Nat) :
    PerKey.accOf s er op = accList (pkRec s op).prevNodes er.slots := rfl

theorem mem_accList (prevNodes : List (Int × (Nat × Nat))) (slots : List (Nat × Val)) (k x : Int) :
    (k, x) ∈ accList prevNodes slots ↔
      ∃ p ∈ prevNodes, ∃ w, slots.lookup p.2.2 = some w ∧ p.1 = k ∧ w.toInt = x := by
  unfold accList
  rw [List.mem_filterMap]
  constructor
  · rintro ⟨⟨k', n, d⟩, hp, h⟩
    simp only at h
    rcases hl : slots.lookup d with _ | w
    · rw [hl] at h; simp at h
    · rw [hl] at h
      simp only [Option.some.injEq, Prod.mk.injEq] at h
      exact ⟨_, hp, w, hl, h.1, h.2⟩
  · rintro ⟨⟨k', n, d⟩, hp, w, hl, h1, h2⟩
    refine ⟨_, hp, ?_⟩
    simp only at hl h1 ⊢
    rw [hl]
    simp [h1, h2]

theorem accList_keys_nodup {prevNodes : List (Int × (Nat × Nat))} (hk : (prevNodes.map (·.1)).Nodup)
    (slots : List (Nat × Val)) : ((accList prevNodes slots).map (·.1)).Nodup := by
  refine List.Nodup.sublist ?_ hk
  apply AMap.keys_filterMap_sublist (fun p : Int × (Nat × Nat) => p.1)
  rintro ⟨k', n, d⟩ kv h
  simp only at h
  rcases hl : slots.lookup d with _ | w
  · rw [hl] at h; simp at h
  · rw [hl] at h
    simp only [Option.some.injEq] at h
    rw [← h]

/-- membership in the assembled pairs -/
theorem mem_asmPairs_tagsOf {prevNodes : List (Int × (Nat × Nat))} (hd : (prevNodes.map (·.2.2)).Nodup)
    (children : List ExpertEdge) (vals : List Val) (k x : Int) :
    (k, x) ∈ asmPairs (tagsOf prevNodes children) vals ↔
      ∃ (i : Nat) (ed : ExpertEdge) (v : Val), children[i]? = some ed ∧ vals[i]? = some v ∧ v.toInt = x ∧
        ∃ p ∈ prevNodes, p.2.2 = ed.dep ∧ p.1 = k := by
  rw [mem_asmPairs, tagsOf_eq_map]
  constructor
  · rintro ⟨i, v, h1, h2, h3⟩
    rw [List.getElem?_map] at h1
    rcases hc : children[i]? with _ | ed
    · rw [hc] at h1; simp at h1
    · rw [hc] at h1
      simp only [Option.map_some, Option.some.injEq] at h1
      exact ⟨i, ed, v, hc, h2, h3, tagOf_eq_one h1⟩
  · rintro ⟨i, ed, v, h1, h2, h3, p, hp, hpd, hpk⟩
    refine ⟨i, v, ?_, h2, h3⟩
    rw [List.getElem?_map, h1, Option.map_some, tagOf_of_mem hd hp hpd, hpk]

/-- **The bridge (general form).**  `children` have distinct dependency names, every entry of `prevNodes` has an
edge, and every edge that names an entry of `prevNodes` has its value in `slots` -/
theorem asm_bridge {prevNodes : List (Int × (Nat × Nat))} {children : List ExpertEdge} {vals : List Val}
    {slots : List (Nat × Val)}
    (hk : (prevNodes.map (·.1)).Nodup) (hd : (prevNodes.map (·.2.2)).Nodup)
    (hc : (children.map (·.dep)).Nodup)
    (hcov : ∀ p ∈ prevNodes, ∃ ed ∈ children, ed.dep = p.2.2)
    (hslot : ∀ (i : Nat) (ed : ExpertEdge), children[i]? = some ed → (∃ p ∈ prevNodes, p.2.2 = ed.dep) →
      slots.lookup ed.dep = vals[i]?) :
    AMap.ofList (asmPairs (tagsOf prevNodes children) vals) = AMap.ofList (accList prevNodes slots) := by
  apply ofList_eq_of_mem_iff (asmPairs_tagsOf_nodup hk hc vals) (accList_keys_nodup hk slots)
  intro k x
  rw [mem_asmPairs_tagsOf hd, mem_accList]
  constructor
  · rintro ⟨i, ed, v, h1, h2, h3, p, hp, hpd, hpk⟩
    refine ⟨p, hp, v, ?_, hpk, h3⟩
    rw [hpd, hslot i ed h1 ⟨p, hp, hpd⟩, h2]
  · rintro ⟨p, hp, w, hl, hpk, hw⟩
    obtain ⟨ed, hed, hedd⟩ := hcov p hp
    obtain ⟨i, hi⟩ := List.mem_iff_getElem?.mp hed
    have hv : vals[i]? = some w := by
      rw [← hslot i ed hi ⟨p, hp, hedd.symm⟩, hedd, hl]
    exact ⟨i, ed, w, hi, hv, hw, p, hp, hedd.symm, hpk⟩

/-! ## 7. `lookup` of the assembled map -/

theorem lookup_asm_some {prevNodes : List (Int × (Nat × Nat))} {children : List ExpertEdge} {vals : List Val}
    (hk : (prevNodes.map (·.1)).Nodup) (hd : (prevNodes.map (·.2.2)).Nodup)
    (hc : (children.map (·.dep)).Nodup)
    {k : Int} {n d : Nat} (hp : (k, (n, d)) ∈ prevNodes)
    {i : Nat} {ed : ExpertEdge} (hi : children[i]? = some ed) (hed : ed.dep = d)
    {v : Val} (hv : vals[i]? = some v) :
    AMap.lookup (AMap.ofList (asmPairs (tagsOf prevNodes children) vals)) k = some v.toInt := by
  rw [lookup_ofList_eq_some_iff (asmPairs_tagsOf_nodup hk hc vals), mem_asmPairs_tagsOf hd]
  exact ⟨i, ed, v, hi, hv, rfl, _, hp, hed.symm, rfl⟩

theorem lookup_asm_none {prevNodes : List (Int × (Nat × Nat))} {children : List ExpertEdge} {vals : List Val}
    (hk : (prevNodes.map (·.1)).Nodup) (hc : (children.map (·.dep)).Nodup)
    {k : Int} (hn : k ∉ prevNodes.map (·.1)) :
    AMap.lookup (AMap.ofList (asmPairs (tagsOf prevNodes children) vals)) k = none := by
  rw [lookup_ofList_eq_none_iff (asmPairs_tagsOf_nodup hk hc vals)]
  intro hm
  have := mem_keys_asmPairs _ _ _ hm
  rw [tagsOf_eq_map] at this
  obtain ⟨ed, _, he⟩ := List.mem_map.mp this
  obtain ⟨p, hp, _, hpk⟩ := tagOf_eq_one he
  exact hn (List.mem_map.mpr ⟨p, hp, hpk⟩)

/-- an entry of `prevNodes` whose dependency has no edge is not bound -/
theorem lookup_asm_none_of_no_edge {prevNodes : List (Int × (Nat × Nat))} {children : List ExpertEdge}
    {vals : List Val} (hk : (prevNodes.map (·.1)).Nodup) (hc : (children.map (·.dep)).Nodup)
    {k : Int} {n d : Nat} (hp : (k, (n, d)) ∈ prevNodes) (hne : ∀ ed ∈ children, ed.dep ≠ d) :
    AMap.lookup (AMap.ofList (asmPairs (tagsOf prevNodes children) vals)) k = none := by
  rw [lookup_ofList_eq_none_iff (asmPairs_tagsOf_nodup hk hc vals)]
  intro hm
  have := mem_keys_asmPairs _ _ _ hm
  rw [tagsOf_eq_map] at this
  obtain ⟨ed, hed, he⟩ := List.mem_map.mp this
  obtain ⟨p, hp', hpd, hpk⟩ := tagOf_eq_one he
  have : p = (k, (n, d)) := eq_of_nodup_map hk hp' hp hpk
  subst this
  exact hne ed hed hpd.symm

/-! ## the `lcEdge :: rest` form -/

/-- the hypotheses of the bridge, in the shape the per-key operator provides them -/
structure AsmHyp (prevNodes : List (Int × (Nat × Nat))) (lcEdge : ExpertEdge) (rest : List ExpertEdge)
    (vals : List Val) (slots : List (Nat × Val)) : Prop where
  keys : (prevNodes.map (·.1)).Nodup
  deps : (prevNodes.map (·.2.2)).Nodup
  lc : ∀ p ∈ prevNodes, p.2.2 ≠ lcEdge.dep
  restNodup : (rest.map (·.dep)).Nodup
  /-- the dependency names of `rest` are exactly those of `prevNodes` -/
  exact : ∀ d, d ∈ rest.map (·.dep) ↔ d ∈ prevNodes.map (·.2.2)
  len : vals.length = (lcEdge :: rest).length
  slot : ∀ i (h : i < rest.length), slots.lookup rest[i].dep = vals[i + 1]?

theorem AsmHyp.children_nodup {prevNodes lcEdge rest vals slots} (H : AsmHyp prevNodes lcEdge rest vals slots) :
    (((lcEdge :: rest).map (·.dep))).Nodup := by
  rw [List.map_cons, List.nodup_cons]
  refine ⟨?_, H.restNodup⟩
  intro hm
  obtain ⟨p, hp, e⟩ := List.mem_map.mp ((H.exact _).mp hm)
  exact H.lc p hp e

theorem asm_bridge_lc {prevNodes lcEdge rest vals slots} (H : AsmHyp prevNodes lcEdge rest vals slots) :
    AMap.ofList (asmPairs (tagsOf prevNodes (lcEdge :: rest)) vals) =
      AMap.ofList (prevNodes.filterMap fun (k, (_, dep)) =>
        match slots.lookup dep with
        | some v => some (k, v.toInt)
        | none => none) := by
  refine asm_bridge H.keys H.deps H.children_nodup ?_ ?_
  · intro p hp
    obtain ⟨ed, hed, e⟩ := List.mem_map.mp ((H.exact _).mpr (List.mem_map.mpr ⟨p, hp, rfl⟩))
    exact ⟨ed, List.mem_cons_of_mem _ hed, e⟩
  · intro i ed hi hex
    cases i with
    | zero =>
      simp only [List.getElem?_cons_zero, Option.some.injEq] at hi
      subst hi
      obtain ⟨p, hp, e⟩ := hex
      exact absurd e (H.lc p hp)
    | succ i =>
      simp only [List.getElem?_cons_succ] at hi
      obtain ⟨h, e⟩ := List.getElem?_eq_some_iff.mp hi
      have := H.slot i h
      rw [e] at this
      exact this

/-- in terms of the model's `accOf` -/
theorem asm_bridge_accOf {s : State} {er : ExpertRec} {op : Nat} {lcEdge rest vals}
    (H : AsmHyp (pkRec s op).prevNodes lcEdge rest vals er.slots) :
    AMap.ofList (asmPairs (tagsOf (pkRec s op).prevNodes (lcEdge :: rest)) vals) =
      AMap.ofList (PerKey.accOf s er op) :=
  asm_bridge_lc H

theorem lookup_asm_lc_some {prevNodes lcEdge rest vals slots} (H : AsmHyp prevNodes lcEdge rest vals slots)
    {k : Int} {n d : Nat} (hp : (k, (n, d)) ∈ prevNodes)
    {i : Nat} (hi : i < rest.length) (hed : rest[i].dep = d) :
    ∃ h : i + 1 < vals.length,
      AMap.lookup (AMap.ofList (asmPairs (tagsOf prevNodes (lcEdge :: rest)) vals)) k = some vals[i + 1].toInt := by
  have h : i + 1 < vals.length := by rw [H.len]; simp; omega
  refine ⟨h, ?_⟩
  exact lookup_asm_some H.keys H.deps H.children_nodup hp (i := i + 1) (ed := rest[i])
    (by simp [hi]) hed (by simp [h])

theorem lookup_asm_lc_none {prevNodes lcEdge rest vals slots} (H : AsmHyp prevNodes lcEdge rest vals slots)
    {k : Int} (hn : k ∉ prevNodes.map (·.1)) :
    AMap.lookup (AMap.ofList (asmPairs (tagsOf prevNodes (lcEdge :: rest)) vals)) k = none :=
  lookup_asm_none H.keys H.children_nodup hn

/-- every key of `prevNodes` is bound: to the value at the position of its edge -/
theorem lookup_asm_lc_mem {prevNodes lcEdge rest vals slots} (H : AsmHyp prevNodes lcEdge rest vals slots)
    {k : Int} {n d : Nat} (hp : (k, (n, d)) ∈ prevNodes) :
    ∃ i, ∃ (hi : i < rest.length) (h : i + 1 < vals.length), rest[i].dep = d ∧
      slots.lookup d = some vals[i + 1] ∧
      AMap.lookup (AMap.ofList (asmPairs (tagsOf prevNodes (lcEdge :: rest)) vals)) k = some vals[i + 1].toInt := by
  obtain ⟨ed, hed, e⟩ := List.mem_map.mp ((H.exact d).mpr (List.mem_map.mpr ⟨_, hp, rfl⟩))
  obtain ⟨i, hi, rfl⟩ := List.getElem_of_mem hed
  obtain ⟨h, hl⟩ := lookup_asm_lc_some H hp hi e
  refine ⟨i, hi, h, e, ?_, hl⟩
  have := H.slot i hi
  rw [e] at this
  rw [this, List.getElem?_eq_getElem h]

/-- the virtual result node's fold computes the model's value -/
theorem penv_fold_result (env : Env) {s : State} {er : ExpertRec} {op : Nat} {lcEdge rest vals}
    (H : AsmHyp (pkRec s op).prevNodes lcEdge rest vals er.slots) :
    vals.foldl ((penv env).foldStep xAsm) (asmInit (tagsOf (pkRec s op).prevNodes (lcEdge :: rest))) =
      .map (AMap.ofList (PerKey.accOf s er op)) := by
  rw [penv_fold_xAsm env _ vals (by rw [tagsOf_length, H.len]) (tagsOf_ne_nil _ (by simp)),
    asm_bridge_accOf H]

end IncrVerif.Proofs.PerKeyH
