import IncrVerif.Proofs.NestH121
/-!
# Nested binds (F2), part 7h: `progStep` is the `prog` component of `Spec.Shadow.step` (the driver's construction of the reference program)
-/
namespace IncrVerif.Proofs.NestH
open IncrVerif.Engine IncrVerif.Driver IncrVerif.Spec
namespace N7

/-- the first phase of `Shadow.step`: record the creation index -/
def shadowPre (sh : Shadow) (a : Action) (api : String) : Shadow :=
  match a, api.splitOn "#" with
    | .create _, [_, n] => match n.toNat? with
      | some n => { sh with topAbs := sh.topAbs.push n }
      | none => sh
    | _, _ => sh

/-- the second phase of `Shadow.step` -/
def shadowPost (sh : Shadow) (a : Action) (idx : Nat) (api : String) : Shadow :=
  let ok := api.startsWith "ok"
  match a with
  | .create i =>
    match i with
    | .cutoff _ _ => sh
    | .var v =>
      { sh with prog := { sh.prog with nodes := sh.prog.nodes.push i,
                                       varOf := (sh.prog.nodes.size, sh.prog.vars.size) :: sh.prog.varOf,
                                       vars := sh.prog.vars.push v } }
    | _ => if ok then { sh with prog := { sh.prog with nodes := sh.prog.nodes.push i } } else sh
  | .observe n => { sh with obs := sh.obs.push (n, 1, false, idx) }
  | .cloneObs o => { sh with obs := sh.obs.modify o fun (n, c, d, k) => (n, c + 1, d, k) }
  | .dropObs o => { sh with obs := sh.obs.modify o fun (n, c, d, k) => (n, c - 1, d, k) }
  | .disallow o => { sh with obs := sh.obs.modify o fun (n, c, _, k) => (n, c, true, k) }
  | .subscribe o _ => if api.startsWith "ok t" then { sh with tokens := sh.tokens.push o } else sh
  | .set v x => { sh with prog := { sh.prog with vars := sh.prog.vars.modify v fun _ => x } }
  | .modify v d | .update v d | .replaceWith v d =>
    { sh with prog := { sh.prog with vars := sh.prog.vars.modify v fun x => addInt7 x d } }
  | .replace v x => { sh with prog := { sh.prog with vars := sh.prog.vars.modify v fun _ => x } }
  | _ => sh

theorem shadow_step_eq (sh : Shadow) (a : Action) (idx : Nat) (api : String) :
    sh.step a idx api = shadowPost (shadowPre sh a api) a idx api := by
  unfold Shadow.step shadowPost shadowPre
  rfl

theorem shadowPre_prog (sh : Shadow) (a : Action) (api : String) : (shadowPre sh a api).prog = sh.prog := by
  unfold shadowPre
  split
  · split <;> rfl
  · rfl

theorem shadowPost_prog (sh : Shadow) (a : Action) (idx : Nat) (api : String) (hok : api.startsWith "ok" = true) :
    (shadowPost sh a idx api).prog = progStep sh.prog a := by
  unfold shadowPost
  simp only [hok]
  cases a <;> try rfl
  · rename_i i
    cases i <;> rfl
  · simp only [progStep]; split <;> rfl

end N7

/-- `progStep` is what `Spec.Shadow.step` does to the program text when the implementation answers `ok …` (as the model does for every `create` of the fragment) -/
theorem shadow_step_prog (sh : Shadow) (a : Action) (idx : Nat) (api : String) (hok : api.startsWith "ok" = true) :
    (sh.step a idx api).prog = progStep sh.prog a := by
  rw [N7.shadow_step_eq, N7.shadowPost_prog _ _ _ _ hok, N7.shadowPre_prog]

theorem shadow_init_prog (h : History) :
    (Shadow.init h).prog = progInit h.defs.toEnv (fun g => match h.defs.olds.lookup g with | some .echo => true | _ => false) := rfl
end IncrVerif.Proofs.NestH
