import IncrVerif.Proofs.PerKeyH5
import IncrVerif.Proofs.ExpertH52
/-!
# Per-key operators: a decidable sufficient check of `RunOKP` (for kernel-checked example histories)

`effOf : Nat → List Effect` with `∀ f vals, env.fnEff f vals = effOf f` (the shape of `Defs.toEnv`).
* `usesB t`: one backward pass over the instruction list computing the used local indices; sound for `UsesInput t`
  (NOT part of the check since stage 1b: families that ignore their input are in the fragment).
* `templOKB effOf t` → `TemplOK env t`.
* `keysSubB a b` ↔ `keysSub a b`; `sortedValB`.
* `pInstrOKB`, `pWriteOKB`, `mapVarB`, `pActionOKB env effOf s a` → `PActionOK env s a`.
* `runOKPB env effOf acts s tk` runs the history on the model; `runOKPB_sound`.
* `toEnv_heff`: the effect lists of `Defs.toEnv d`.
-/
namespace IncrVerif.Proofs.PerKeyH
open IncrVerif.Engine IncrVerif.Driver IncrVerif.Proofs IncrVerif.Proofs.Step IncrVerif.Proofs.Sched
open IncrVerif.Proofs.ExpertH IncrVerif.Proofs.EffH IncrVerif.Proofs.DriverH

/-! ## `UsesInput` -/

/-- the local indices among operands -/
def locsOf : List Opnd → List Nat
  | [] => []
  | .loc i :: os => i :: locsOf os
  | _ :: os => locsOf os

theorem mem_locsOf {os : List Opnd} {u : Nat} (h : u ∈ locsOf os) : Opnd.loc u ∈ os := by
  induction os with
  | nil => cases h
  | cons o os ih =>
    cases o <;> simp only [locsOf, List.mem_cons] at h ⊢
    case loc i =>
      rcases h with h | h
      · exact Or.inl (by rw [h])
      · exact Or.inr (ih h)
    all_goals exact Or.inr (ih h)

/-- backward pass from instruction `j - 1` down to instruction `0`: `U` = the used local indices found so far
(instruction `j` creates `.loc (j + 1)`; its operands are earlier locals, so one pass suffices) -/
def usedB (t : Template) : Nat → List Nat → List Nat
  | 0, U => U
  | j + 1, U =>
    match t.instrs[j]? with
    | some i => if U.contains (j + 1) then usedB t j (locsOf (instrOpnds i) ++ U) else usedB t j U
    | none => usedB t j U

def usesB (t : Template) : Bool := (usedB t t.instrs.length (locsOf [t.ret])).contains 0

theorem usedB_sound (t : Template) : ∀ (j : Nat) (U : List Nat), (∀ u, u ∈ U → Uses t (.loc u)) →
    ∀ u, u ∈ usedB t j U → Uses t (.loc u) := by
  intro j
  induction j with
  | zero => intro U hU u hu; exact hU u hu
  | succ j ih =>
    intro U hU u hu
    unfold usedB at hu
    cases hi : t.instrs[j]? with
    | none => rw [hi] at hu; exact ih U hU u hu
    | some i =>
      rw [hi] at hu
      simp only at hu
      by_cases hc : U.contains (j + 1) = true
      · rw [if_pos hc] at hu
        refine ih _ ?_ u hu
        intro w hw
        rcases List.mem_append.1 hw with h1 | h2
        · exact Uses.step (hU (j + 1) (by simpa using hc)) hi (mem_locsOf h1)
        · exact hU w h2
      · rw [if_neg hc] at hu
        exact ih U hU u hu

theorem usesB_sound {t : Template} (h : usesB t = true) : UsesInput t := by
  unfold usesB at h
  refine usedB_sound t _ _ ?_ 0 (by simpa using h)
  intro u hu
  have := mem_locsOf hu
  simp only [List.mem_singleton] at this
  rw [this]
  exact Uses.ret

/-! ## templates -/

def tInstrOKB (effOf : Nat → List Effect) : Instr → Bool
  | .const _ | .lhsConst => true
  | .map f _ => decide (f < fnZip) && (effOf f).isEmpty
  | .fold f _ cs => decide (f < xBase) && !cs.isEmpty
  | _ => false

theorem tInstrOKB_sound {env : Env} {effOf : Nat → List Effect} (heff : ∀ f vals, env.fnEff f vals = effOf f)
    {i : Instr} (h : tInstrOKB effOf i = true) : TInstrOK env i := by
  cases i <;> simp only [tInstrOKB] at h <;> try (first | trivial | cases h)
  case map f args =>
    simp only [Bool.and_eq_true, decide_eq_true_eq, List.isEmpty_iff] at h
    exact ⟨h.1, fun vals => by rw [heff f vals]; exact h.2⟩
  case fold f init cs =>
    simp only [Bool.and_eq_true, decide_eq_true_eq, Bool.not_eq_true', List.isEmpty_eq_false_iff] at h
    exact ⟨h.1, h.2⟩

def tOpndOKB (j : Nat) : Opnd → Bool
  | .outer _ => true
  | .loc i => decide (i ≤ j)
  | _ => false

theorem tOpndOKB_sound {j : Nat} {o : Opnd} (h : tOpndOKB j o = true) : OpndOK j o := by
  cases o <;> simp only [tOpndOKB] at h <;> try (first | trivial | cases h)
  simpa [OpndOK] using h

def templOKB (effOf : Nat → List Effect) (t : Template) : Bool :=
  t.instrs.all (tInstrOKB effOf) &&
  ((List.range t.instrs.length).all fun j =>
    match t.instrs[j]? with
    | some i => (instrOpnds i).all (tOpndOKB j)
    | none => true) &&
  tOpndOKB t.instrs.length t.ret

theorem templOKB_sound {env : Env} {effOf : Nat → List Effect} (heff : ∀ f vals, env.fnEff f vals = effOf f)
    {t : Template} (h : templOKB effOf t = true) : TemplOK env t := by
  unfold templOKB at h
  simp only [Bool.and_eq_true] at h
  obtain ⟨⟨h1, h2⟩, h3⟩ := h
  refine ⟨fun i hi => tInstrOKB_sound heff (List.all_eq_true.1 h1 i hi), ?_, tOpndOKB_sound h3⟩
  intro j i hj o ho
  have hlt : j < t.instrs.length := by
    obtain ⟨hlt, -⟩ := List.getElem?_eq_some_iff.1 hj
    exact hlt
  have := List.all_eq_true.1 h2 j (List.mem_range.2 hlt)
  rw [hj] at this
  exact tOpndOKB_sound (List.all_eq_true.1 this o ho)

/-! ## `keysSub`, sortedness -/

def keysSubB (a b : List (Int × Int)) : Bool := a.all fun kv => (b.lookup kv.1).isSome

theorem lookup_isSome_mem {a : List (Int × Int)} {k : Int} (h : (a.lookup k).isSome = true) : ∃ v, (k, v) ∈ a := by
  induction a with
  | nil => simp at h
  | cons kv a ih =>
    obtain ⟨k', v'⟩ := kv
    by_cases hk : k = k'
    · exact ⟨v', by rw [hk]; exact List.mem_cons_self⟩
    · have hb : (k == k') = false := by simpa using hk
      rw [List.lookup_cons, hb] at h
      obtain ⟨v, hv⟩ := ih h
      exact ⟨v, List.mem_cons_of_mem _ hv⟩

theorem mem_lookup_isSome {a : List (Int × Int)} {k v : Int} (h : (k, v) ∈ a) : (a.lookup k).isSome = true := by
  induction a with
  | nil => cases h
  | cons kv a ih =>
    obtain ⟨k', v'⟩ := kv
    rw [List.lookup_cons]
    by_cases hk : k = k'
    · have hb : (k == k') = true := by simpa using hk
      rw [hb]; rfl
    · have hb : (k == k') = false := by simpa using hk
      rw [hb]
      rcases List.mem_cons.1 h with h1 | h1
      · exact absurd (congrArg Prod.fst h1) hk
      · exact ih h1

theorem keysSubB_iff {a b : List (Int × Int)} : keysSubB a b = true ↔ keysSub a b := by
  unfold keysSubB keysSub
  rw [List.all_eq_true]
  constructor
  · intro h k hk
    obtain ⟨v, hv⟩ := lookup_isSome_mem hk
    exact h (k, v) hv
  · intro h kv hkv
    exact h kv.1 (mem_lookup_isSome (v := kv.2) hkv)

theorem keysSubB_sound {a b : List (Int × Int)} (h : keysSubB a b = true) : keysSub a b := keysSubB_iff.1 h

/-- a stored value is not a map, or a sorted map -/
def sortedValB : Val → Bool
  | .map m => decide (IncrVerif.AMap.Sorted m)
  | _ => true

theorem sortedValB_sound {v : Val} (h : sortedValB v = true) : ∀ m, v = .map m → IncrVerif.AMap.Sorted m := by
  intro m hm
  subst hm
  simpa [sortedValB] using h

/-! ## instructions, writes, actions -/

/-- the value of the var node, if any, is a sorted map whose keys are keys of `m` -/
def nodeValB (s : State) (o : Nat) (m : List (Int × Int)) : Bool :=
  match (s.nodeD o).value with
  | none => true
  | some (.map m2) => decide (IncrVerif.AMap.Sorted m2) && keysSubB m2 m
  | some _ => false

theorem nodeValB_sound {s : State} {o : Nat} {m : List (Int × Int)} (h : nodeValB s o m = true) :
    ∀ w, (s.nodeD o).value = some w → ∃ m2, w = .map m2 ∧ IncrVerif.AMap.Sorted m2 ∧ keysSub m2 m := by
  intro w hw
  unfold nodeValB at h
  rw [hw] at h
  cases w <;> simp only at h <;> try (cases h)
  rename_i m2
  simp only [Bool.and_eq_true, decide_eq_true_eq] at h
  exact ⟨m2, rfl, h.1, keysSubB_sound h.2⟩

/-- the operand of the operator is a top-level variable node holding a sorted map (and the node's value, if any, is a
sorted map with a smaller key set) -/
def mapInputB (s : State) : Opnd → Bool
  | .outer k =>
    match s.top[k]? with
    | some o =>
      match (s.nodeD o).kind with
      | .var c =>
        match s.vars[c]? with
        | some vc =>
          match vc.value with
          | .map m => decide (IncrVerif.AMap.Sorted m) && nodeValB s o m
          | _ => false
        | none => false
      | _ => false
    | none => false
  | _ => false

theorem mapInputB_sound {s : State} {x : Opnd} (h : mapInputB s x = true) :
    ∃ k o c vc m, x = .outer k ∧ s.top[k]? = some o ∧ (s.nodeD o).kind = .var c ∧ s.vars[c]? = some vc ∧
      vc.value = .map m ∧ IncrVerif.AMap.Sorted m ∧
      (∀ w, (s.nodeD o).value = some w → ∃ m2, w = .map m2 ∧ IncrVerif.AMap.Sorted m2 ∧ keysSub m2 m) := by
  cases x <;> simp only [mapInputB] at h <;> try (cases h)
  rename_i k
  cases ho : s.top[k]? with
  | none => rw [ho] at h; cases h
  | some o =>
    rw [ho] at h
    simp only at h
    cases hk : (s.nodeD o).kind <;> rw [hk] at h <;> simp only at h <;> try (cases h)
    rename_i c
    cases hc : s.vars[c]? with
    | none => rw [hc] at h; cases h
    | some vc =>
      rw [hc] at h
      simp only at h
      cases hv : vc.value <;> rw [hv] at h <;> simp only at h <;> try (cases h)
      rename_i m
      simp only [Bool.and_eq_true, decide_eq_true_eq] at h
      exact ⟨k, o, c, vc, m, rfl, ho, hk, hc, hv, h.1, nodeValB_sound h.2⟩

/-- the cutoff argument of a per-key operator: absent, or the default `.eq` -/
def cutOKB : Option CutoffK → Bool
  | none => true
  | some .eq => true
  | _ => false

theorem cutOKB_sound {cut : Option CutoffK} (h : cutOKB cut = true) : cut = none ∨ cut = some .eq := by
  cases cut with
  | none => exact Or.inl rfl
  | some c => cases c <;> first | exact Or.inr rfl | cases h

def pInstrOKB (env : Env) (effOf : Nat → List Effect) (s : State) : Instr → Bool
  | .const _ => true
  | .var v => sortedValB v
  | .map f args => decide (f < fnZip) && (effOf f).isEmpty && args.all ExpertH.opndB
  | .fold f _ cs => decide (f < xBase) && cs.all ExpertH.opndB
  | .zip a b => ExpertH.opndB a && ExpertH.opndB b
  | .perKey cut fam x => cutOKB cut && templOKB effOf (env.perKey fam) && mapInputB s x &&
      (templOuter (env.perKey fam)).all fun k => (s.top[k]?).isSome
  | _ => false

theorem pInstrOKB_sound {env : Env} {effOf : Nat → List Effect} (heff : ∀ f vals, env.fnEff f vals = effOf f)
    {s : State} {i : Instr} (h : pInstrOKB env effOf s i = true) : PInstrOK env s i := by
  have hall : ∀ (l : List Opnd), l.all ExpertH.opndB = true → ∀ a, a ∈ l → QR.OpndOK a :=
    fun l hl a ha => ExpertH.opndB_sound (List.all_eq_true.1 hl a ha)
  cases i <;> simp only [pInstrOKB] at h <;> try (first | trivial | cases h)
  case var v => exact sortedValB_sound h
  case map f args =>
    simp only [Bool.and_eq_true, decide_eq_true_eq, List.isEmpty_iff] at h
    exact ⟨h.1.1, fun vals => by rw [heff f vals]; exact h.1.2, hall args h.2⟩
  case fold f init cs =>
    simp only [Bool.and_eq_true, decide_eq_true_eq] at h
    exact ⟨h.1, hall cs h.2⟩
  case zip a b =>
    simp only [Bool.and_eq_true] at h
    exact ⟨ExpertH.opndB_sound h.1, ExpertH.opndB_sound h.2⟩
  case perKey cut fam x =>
    simp only [Bool.and_eq_true] at h
    obtain ⟨⟨⟨h1, h2⟩, h3⟩, h4⟩ := h
    refine ⟨cutOKB_sound h1, templOKB_sound heff h2, mapInputB_sound h3, fun k hk => ?_⟩
    have := List.all_eq_true.1 h4 k hk
    exact Option.isSome_iff_exists.1 this

def pWriteOKB (s : State) (v : Nat) (new : Val) : Bool :=
  sortedValB new &&
    match s.vars[v]? with
    | some vc =>
      match vc.value with
      | .map m =>
        (match new with
         | .map m' => keysSubB m m'
         | _ => false)
      | _ => true
    | none => true

theorem pWriteOKB_sound {s : State} {v : Nat} {new : Val} (h : pWriteOKB s v new = true) : PWriteOK s v new := by
  unfold pWriteOKB at h
  simp only [Bool.and_eq_true] at h
  refine ⟨sortedValB_sound h.1, ?_⟩
  intro vc m hvc hm
  have h2 := h.2
  rw [hvc] at h2
  simp only [hm] at h2
  cases new <;> simp only at h2 <;> try (cases h2)
  rename_i m'
  exact ⟨m', rfl, keysSubB_sound h2⟩

def mapVarB (s : State) (v : Nat) : Bool :=
  match s.vars[v]? with
  | some vc =>
    match vc.value with
    | .map _ => true
    | _ => false
  | none => false

theorem mapVarB_false {s : State} {v : Nat} (h : mapVarB s v = false) : ¬ MapVar s v := by
  rintro ⟨vc, m, hvc, hm⟩
  unfold mapVarB at h
  rw [hvc] at h
  simp only [hm] at h
  cases h

def pActionOKB (env : Env) (effOf : Nat → List Effect) (s : State) : Action → Bool
  | .create i => pInstrOKB env effOf s i
  | .observe n => ExpertH.opndB n
  | .cloneObs _ | .dropObs _ | .disallow _ => true
  | .set v x => pWriteOKB s v x
  | .replace v x => pWriteOKB s v x
  | .modify v _ | .update v _ | .replaceWith v _ => !mapVarB s v
  | .get _ | .stabilise | .isStable | .stats => true
  | _ => false

theorem pActionOKB_sound {env : Env} {effOf : Nat → List Effect} (heff : ∀ f vals, env.fnEff f vals = effOf f)
    {s : State} {a : Action} (h : pActionOKB env effOf s a = true) : PActionOK env s a := by
  cases a <;> simp only [pActionOKB] at h <;> try (first | trivial | cases h)
  case create i => exact pInstrOKB_sound heff h
  case observe n => exact ExpertH.opndB_sound h
  case set v x => exact pWriteOKB_sound h
  case replace v x => exact pWriteOKB_sound h
  case modify v d => exact mapVarB_false (by simpa using h)
  case update v d => exact mapVarB_false (by simpa using h)
  case replaceWith v d => exact mapVarB_false (by simpa using h)

/-! ## runs -/

/-- run the history on the model and check every action in the state in which it is executed -/
def runOKPB (env : Env) (effOf : Nat → List Effect) : List Action → State → Array Nat → Bool
  | [], _, _ => true
  | a :: as, s, tk =>
    pActionOKB env effOf s a &&
      match (stepAction env a tk).run.run s with
      | (.ok r, s') => runOKPB env effOf as s' r.2
      | (.error _, _) => true

theorem runOKPB_sound {env : Env} {effOf : Nat → List Effect} (heff : ∀ f vals, env.fnEff f vals = effOf f) :
    ∀ (acts : List Action) (s : State) (tk : Array Nat), runOKPB env effOf acts s tk = true →
      RunOKP env acts s tk := by
  intro acts
  induction acts with
  | nil => intro s tk _; trivial
  | cons a as ih =>
    intro s tk h
    simp only [runOKPB, Bool.and_eq_true] at h
    refine ⟨pActionOKB_sound heff h.1, fun r s' hr => ?_⟩
    have h2 := h.2
    rw [hr] at h2
    exact ih s' r.2 h2

/-! ## the harness environment -/

/-- the effect list of function `f` in `Defs.toEnv d` -/
def effOfDefs (d : Defs) (f : Nat) : List Effect := ((d.fns.lookup f).map (·.effects)).getD []

theorem toEnv_heff (d : Defs) : ∀ f vals, d.toEnv.fnEff f vals = effOfDefs d f := by
  intro f vals
  simp only [Defs.toEnv, effOfDefs]
  cases d.fns.lookup f <;> rfl

/-- the check for harness environments -/
theorem runOKP_of_check {d : Defs} {acts : List Action} {s : State} {tk : Array Nat}
    (h : runOKPB d.toEnv (effOfDefs d) acts s tk = true) : RunOKP d.toEnv acts s tk :=
  runOKPB_sound (toEnv_heff d) acts s tk h

end IncrVerif.Proofs.PerKeyH
