import IncrVerif.Proofs.NestH9
/-!
# Nested binds (F2): a new observer (pure step lemmas for `GInv2`)

Port of `BindH53` (`CL5`).  The observed node must be a top-level node that is not a change detector
(`GInv2.scopeObs`, `GInv2.lcObs`).
-/
namespace IncrVerif.Proofs.NestH
open IncrVerif.Engine IncrVerif.Proofs IncrVerif.Proofs.Step IncrVerif.Proofs.Sched IncrVerif.Proofs.Quiet
open IncrVerif.Proofs.BindH

namespace NL
open BL CL

section
variable {env : Env} {rk : Nat → Nat} {s s' : State} {op : Nat → Op} {ex : Nat → Prop} {dy : List Nat}

/-! ## observers -/

/-- a new observer on a node that is already necessary -/
theorem GInv2.addObs_nec {n : Nat} {l : List Nat} (I : GInv2 env rk s op ex dy) (U : NodeUpd n (fObservers l) s s')
    (hb : s'.binds = s.binds)
    (hl : l ≠ []) (hn : s.isNecessary n = true)
    (htop : (s.nodeD n).createdIn = .top) (hnlc : ∀ b, (s.nodeD n).kind ≠ .bindLhsChange b) :
    GInv2 env rk s' op ex dy := by
  have hnv : (s.nodeD n).valid = true := ((I.frag.node n U.lt).top htop).1
  have K := keeps_fObservers l
  have E := KeyEq.of_upd U K hb
  have hpa : ∀ m, (s'.nodeD m).parents = (s.nodeD m).parents := fun m => by
    by_cases e : m = n
    · rw [e]; exact U.parents_self
    · exact U.parents_other e
  have hht : ∀ m, (s'.nodeD m).height = (s.nodeD m).height := fun m => by
    by_cases e : m = n
    · rw [e]; exact U.height_self
    · exact U.height_other e
  have hnec : ∀ m, s'.isNecessary m = s.isNecessary m := fun m => by
    by_cases e : m = n
    · rw [e, hn]; exact (U.nec_self_iff K).2 (Or.inr (Or.inl hl))
    · exact U.nec_other e
  have hw : ∀ q i, Wants s' op q i ↔ Wants s op q i := fun q i => by unfold Wants; rw [hnec]
  have x1 : ∀ m, (s'.nodeD m).valid = false →
      (s'.nodeD m).parents = [] ∧ (s'.nodeD m).observers = [] ∧ (s'.nodeD m).forceNecessary = false ∧
        (s'.nodeD m).inRch = false ∧ op m = .closed := by
    intro m hv
    rw [E.valid] at hv
    have e : m ≠ n := fun e => by rw [e, hnv] at hv; cases hv
    obtain ⟨h1, h2, h3, h4, h5⟩ := I.inv m hv
    exact ⟨by rw [hpa]; exact h1, by rw [U.observers_other e]; exact h2, by rw [U.forceNecessary K]; exact h3,
      by rw [U.inRch K]; exact h4, h5⟩
  have x2 : ∀ m b, (s'.nodeD m).createdIn = .bind b → (s'.nodeD m).observers = [] := by
    intro m b h
    rw [E.createdIn] at h
    have e : m ≠ n := fun e => by rw [e, htop] at h; cases h
    rw [U.observers_other e]; exact I.scopeObs m b h
  have x3 : ∀ m b, (s'.nodeD m).kind = .bindLhsChange b → (s'.nodeD m).observers = [] := by
    intro m b h
    rw [E.kind] at h
    have e : m ≠ n := fun e => by rw [e] at h; exact hnlc b h
    rw [U.observers_other e]; exact I.lcObs m b h
  refine { frag := KeyEq2.frag2 E I.frag (by rw [U.pc]; exact I.frag.pc) (by rw [U.scope]; exact I.frag.scope),
           inv := x1, scopeObs := x2, lcObs := x3,
           par := ?_, conv := ?_, nodup := ?_, hlt := ?_, hpos := ?_,
           lnec := ?_, unec := ?_, heap := U.heap K I.heap, hgt := ?_, qnec := ?_, queued := ?_,
           qstale := ?_, opLt := ?_, scopeH := ?_ }
  · intro c q i hm
    rw [hpa] at hm
    rw [KeyEq2.children2 E I.frag, hw]; exact I.par c q i hm
  · intro q i c hk hw'
    rw [KeyEq2.children2 E I.frag] at hk
    rw [hw] at hw'
    rw [hpa]; exact I.conv q i c hk hw'
  · intro m; rw [hpa]; exact I.nodup m
  · intro c q i hm ho
    rw [hpa] at hm
    rw [hht, hht]
    exact I.hlt c q i hm ho
  · intro m hn ho
    rw [hnec] at hn
    rw [hht]; exact I.hpos m hn ho
  · intro q k ho
    rw [hnec]; exact I.lnec q k ho
  · intro q k ho
    rw [hnec]; exact I.unec q k ho
  · intro m hq ho
    rw [U.inRch K] at hq
    rw [U.heightInRch K, hht]; exact I.hgt m hq ho
  · intro m hq
    rw [U.inRch K] at hq
    rw [hnec]; exact I.qnec m hq
  · intro m ho hn hs hx
    rw [hnec] at hn
    rw [KeyEq2.isStale2 E I.frag] at hs
    rw [U.inRch K]; exact I.queued m ho hn hs hx
  · intro m hq
    rw [U.inRch K] at hq
    rw [KeyEq2.isStale2 E I.frag]; exact I.qstale m hq
  · intro m ho
    rw [U.size]; exact I.opLt m ho
  · intro m b br hv hsc hb' hn' ho
    rw [E.valid] at hv; rw [E.createdIn] at hsc; rw [E.binds] at hb'; rw [hnec] at hn'
    rw [hht, hht]
    exact I.scopeH m b br hv hsc hb' hn' ho

/-- a new observer on an unnecessary node: it is now open with no edge recorded, and it is not queued -/
theorem GInv2.addObs_open {n : Nat} {l : List Nat} (I : GInv2 env rk s op ex dy) (U : NodeUpd n (fObservers l) s s')
    (hb : s'.binds = s.binds)
    (hl : l ≠ []) (hn : s.isNecessary n = false) (hcl : op n = .closed)
    (htop : (s.nodeD n).createdIn = .top) (hnlc : ∀ b, (s.nodeD n).kind ≠ .bindLhsChange b) :
    GInv2 env rk s' (upd op n (.linking 0)) ex dy ∧ (s'.nodeD n).parents = [] ∧ (s'.nodeD n).inRch = false := by
  have hnv : (s.nodeD n).valid = true := ((I.frag.node n U.lt).top htop).1
  have K := keeps_fObservers l
  have E := KeyEq.of_upd U K hb
  have hpa : ∀ m, (s'.nodeD m).parents = (s.nodeD m).parents := fun m => by
    by_cases e : m = n
    · rw [e]; exact U.parents_self
    · exact U.parents_other e
  have hnq : (s.nodeD n).inRch = false := GInv2.not_queued_of_not_nec I hn hcl
  refine ⟨?_, by rw [hpa]; exact parents_nil_of_not_nec hn, by rw [U.inRch K]; exact hnq⟩
  have hht : ∀ m, (s'.nodeD m).height = (s.nodeD m).height := fun m => by
    by_cases e : m = n
    · rw [e]; exact U.height_self
    · exact U.height_other e
  have hnec : ∀ m, m ≠ n → s'.isNecessary m = s.isNecessary m := fun m e => U.nec_other e
  have hnecn : s'.isNecessary n = true := (U.nec_self_iff K).2 (Or.inr (Or.inl hl))
  have hopn : upd op n (.linking 0) n = .linking 0 := upd_self ..
  have hopo : ∀ m, m ≠ n → upd op n (.linking 0) m = op m := fun m h => upd_other _ _ _ h
  have hcl' : ∀ m, upd op n (.linking 0) m = .closed → m ≠ n ∧ op m = .closed :=
    fun m h => upd_closed_inv (Op.linking_ne_closed _) h
  have hw : ∀ q i, Wants s' (upd op n (.linking 0)) q i ↔ Wants s op q i := fun q i => by
    by_cases e : q = n
    · rw [e, wants_linking hopn, wants_closed hcl, hn]; simp
    · unfold Wants; rw [hopo q e, hnec q e]
  have x1 : ∀ m, (s'.nodeD m).valid = false →
      (s'.nodeD m).parents = [] ∧ (s'.nodeD m).observers = [] ∧ (s'.nodeD m).forceNecessary = false ∧
        (s'.nodeD m).inRch = false ∧ upd op n (.linking 0) m = .closed := by
    intro m hv
    rw [E.valid] at hv
    have e : m ≠ n := fun e => by rw [e, hnv] at hv; cases hv
    obtain ⟨h1, h2, h3, h4, h5⟩ := I.inv m hv
    exact ⟨by rw [hpa]; exact h1, by rw [U.observers_other e]; exact h2, by rw [U.forceNecessary K]; exact h3,
      by rw [U.inRch K]; exact h4, by rw [hopo m e]; exact h5⟩
  have x2 : ∀ m b, (s'.nodeD m).createdIn = .bind b → (s'.nodeD m).observers = [] := by
    intro m b h
    rw [E.createdIn] at h
    have e : m ≠ n := fun e => by rw [e, htop] at h; cases h
    rw [U.observers_other e]; exact I.scopeObs m b h
  have x3 : ∀ m b, (s'.nodeD m).kind = .bindLhsChange b → (s'.nodeD m).observers = [] := by
    intro m b h
    rw [E.kind] at h
    have e : m ≠ n := fun e => by rw [e] at h; exact hnlc b h
    rw [U.observers_other e]; exact I.lcObs m b h
  refine { frag := KeyEq2.frag2 E I.frag (by rw [U.pc]; exact I.frag.pc) (by rw [U.scope]; exact I.frag.scope),
           inv := x1, scopeObs := x2, lcObs := x3,
           par := ?_, conv := ?_, nodup := ?_, hlt := ?_, hpos := ?_,
           lnec := ?_, unec := ?_, heap := U.heap K I.heap, hgt := ?_, qnec := ?_, queued := ?_,
           qstale := ?_, opLt := ?_, scopeH := ?_ }
  · intro c q i hm
    rw [hpa] at hm
    rw [KeyEq2.children2 E I.frag, hw]; exact I.par c q i hm
  · intro q i c hk hw'
    rw [KeyEq2.children2 E I.frag] at hk
    rw [hw] at hw'
    rw [hpa]; exact I.conv q i c hk hw'
  · intro m; rw [hpa]; exact I.nodup m
  · intro c q i hm ho
    rw [hpa] at hm
    rw [hht, hht]
    exact I.hlt c q i hm (hcl' q ho).2
  · intro m hn' ho
    obtain ⟨h1, h2⟩ := hcl' m ho
    rw [hnec m h1] at hn'
    rw [hht]; exact I.hpos m hn' h2
  · intro q k ho
    by_cases e : q = n
    · rw [e]; exact hnecn
    · rw [hopo q e] at ho
      rw [hnec q e]; exact I.lnec q k ho
  · intro q k ho
    have e : q ≠ n := by intro e; rw [e, hopn] at ho; cases ho
    rw [hopo q e] at ho
    rw [hnec q e]; exact I.unec q k ho
  · intro m hq ho
    rw [U.inRch K] at hq
    rw [U.heightInRch K, hht]; exact I.hgt m hq (hcl' m ho).2
  · intro m hq
    rw [U.inRch K] at hq
    have e : m ≠ n := by intro e; rw [e, hnq] at hq; cases hq
    rw [hnec m e]
    rcases I.qnec m hq with h | ⟨k, h⟩
    · exact Or.inl h
    · exact Or.inr ⟨k, by rw [hopo m e]; exact h⟩
  · intro m ho hn' hs hx
    obtain ⟨h1, h2⟩ := hcl' m ho
    rw [hnec m h1] at hn'
    rw [KeyEq2.isStale2 E I.frag] at hs
    rw [U.inRch K]; exact I.queued m h2 hn' hs hx
  · intro m hq
    rw [U.inRch K] at hq
    rw [KeyEq2.isStale2 E I.frag]; exact I.qstale m hq
  · intro m ho
    rw [U.size]
    by_cases e : m = n
    · rw [e]; exact U.lt
    · rw [hopo m e] at ho; exact I.opLt m ho
  · intro m b br hv hsc hb' hn' ho
    obtain ⟨h1, h2⟩ := hcl' m ho
    rw [E.valid] at hv; rw [E.createdIn] at hsc; rw [E.binds] at hb'; rw [hnec m h1] at hn'
    rw [hht, hht]
    exact I.scopeH m b br hv hsc hb' hn' h2

end

end NL

end IncrVerif.Proofs.NestH
