import IncrVerif.Proofs.FullT8
/-!
# C04 combined fragment: bisimulation of the notification walk, part 2 (twin of `FullH10`)
(`maybeChangeValueManual`, `maybeChangeValue`)
-/
namespace IncrVerif.Proofs.FullT
set_option linter.unusedSectionVars false
open IncrVerif.Engine IncrVerif.Proofs IncrVerif.Proofs.Step IncrVerif.Proofs.Sched IncrVerif.Proofs.Quiet IncrVerif.Proofs.FullH

section
variable {K : Kind → Prop} {g : Nat → Option Val} {sp : Nat → Val → Val}

/-! ## with notification on both sides (every node but a map_ref node) -/

/-- inside the carried invariant `WalkInv env fuel n []`: the changed node `n` READS a value, `MRPV`, `size ≤ fuel` -/
theorem BSim.mcvm_pv (env : Env) (fuel n : Nat) (o o' : Option Val) (did : Bool) :
    BSim K (WalkInv env fuel n []) g (Engine.maybeChangeValueManual env fuel n o did true)
      (Engine.maybeChangeValueManual (virtEnv env sp) fuel n o' did true) := by
  intro s
  unfold Engine.maybeChangeValueManual
  simp only [↓reduceIte]
  refine BSimAt.cond Iff.rfl (fun _ => BSimAt.ret _) (fun _ => ?_)
  bsim
  -- from here on the carried invariant speaks about the parent list just read
  refine BSimAt.change (P' := WalkInv env fuel n nd.parents) ?_
    (fun _ hp => by have := hp.of_parents; rwa [nodeD_of_some hnd] at this) (fun _ h => h.weaken (by simp))
  rcases hpar : nd.parents with _ | ⟨⟨p0, ci0⟩, rest⟩
  · exact BSimAt.ret _
  dsimp only
  bsim
  · exact BSimAt.childChanged_pv (List.mem_cons_of_mem _ (by assumption)) _ _ _
  · exact BSimAt.childChanged_pv (x := (p0, ci0)) (List.mem_cons_self ..) _ _ _

/-- **`maybe_change_value_manual`, notifying**: the changed node `n` READS a value -/
theorem BSimAt.maybeChangeValueManual (env : Env) (fuel n : Nat) (o o' : Option Val) (did : Bool) {s : State}
    (hv : (s.value env n).isSome = true) (hm : MRPV s) (hsz : s.nodes.size ≤ fuel) :
    BSimAt K PInv g s (Engine.maybeChangeValueManual env fuel n o did true)
      (Engine.maybeChangeValueManual (virtEnv env sp) fuel n o' did true) :=
  (BSim.mcvm_pv env fuel n o o' did s).change (fun _ hp => ⟨hp, hm, hv, hsz, by simp⟩) (fun _ h => h.inv)

/-- … for a node that is not a `map_ref` node and stores a value -/
theorem BSimAt.maybeChangeValueManual_stored (env : Env) (fuel n : Nat) (o o' : Option Val) (did : Bool) {s : State}
    (hk : ∀ p i, (s.nodeD n).kind ≠ .mapRef p i) (hval : (s.nodeD n).value.isSome = true) (hm : MRPV s) (hsz : s.nodes.size ≤ fuel) :
    BSimAt K PInv g s (Engine.maybeChangeValueManual env fuel n o did true)
      (Engine.maybeChangeValueManual (virtEnv env sp) fuel n o' did true) :=
  BSimAt.maybeChangeValueManual env fuel n o o' did (by rw [value_stored (Or.inr hk)]; exact hval) hm hsz

end

/-! ## the own step of a map_ref node: the actual run does not notify, the virtual run does (a no-op) -/

section
variable {K : Kind → Prop} {P : State → Prop} [Keeps P] {g : Nat → Option Val} {sp : Nat → Val → Val}

/-- sequencing that remembers a frame fact about the first program -/
theorem BSimAt.seqP {α β : Type} {R : State → State → Prop} {s : State} {x x' : M α} {f f' : α → M β}
    (hp : Step.Pres R x) (hx : BSimAt K P g s x x') (hf : ∀ a s1, R s s1 → BSimAt K P g s1 (f a) (f' a)) :
    BSimAt K P g s (x >>= f) (x' >>= f') :=
  BSimAt.seq hx fun a s1 h1 => hf a s1 (hp.h s _ s1 h1)

/-- a loop whose bodies bisimulate each other under a state condition that the (frame relation of the) bodies keep -/
theorem BSimAt.forInR {γ β : Type} {R : State → State → Prop} (I : State → Prop) (hIR : ∀ s s', I s → R s s' → I s')
    (l : List γ) {f f' : γ → β → M (ForInStep β)} (hq : ∀ a b, Step.Pres R (f a b))
    (h : ∀ a, a ∈ l → ∀ b s, I s → BSimAt K P g s (f a b) (f' a b)) (b : β) (s : State) (hs : I s) :
    BSimAt K P g s (ForIn.forIn l b f) (ForIn.forIn l b f') := by
  induction l generalizing b s with
  | nil => rw [List.forIn_nil, List.forIn_nil]; exact BSimAt.ret _
  | cons a l ih =>
    rw [List.forIn_cons, List.forIn_cons]
    refine BSimAt.seqP (hq a b) (h a (List.mem_cons_self ..) b s hs) fun r s1 q => ?_
    cases r with
    | done b' => exact BSimAt.ret _
    | yield b' => exact ih (fun a' ha' => h a' (List.mem_cons_of_mem _ ha')) b' s1 (hIR _ _ hs q)

/-- a notification of the virtual engine (a no-op: the parent is valid) that the actual engine does not make -/
theorem BSimAt.ccRight {β : Type} {s : State} {x : M β} {k' : Unit → M β} {env' : Env} {fuel' p n ci : Nat} {o' : Option Val}
    (hf : 0 < fuel') (hv : (s.nodeD p).valid = true)
    (hex : ∀ r s', x.run.run s = (.ok r, s') → ∃ nd, s.nodes[p]? = some nd)
    (hk : BSimAt K P g s x (k' ())) :
    BSimAt K P g s x (Engine.childChanged env' fuel' p n ci o' >>= k') := by
  obtain ⟨f', rfl⟩ : ∃ f', fuel' = f' + 1 := ⟨fuel' - 1, by omega⟩
  refine ⟨fun hfr r s' h => ?_, fun hfr hp => ⟨(hk.2 hfr hp).1, fun r t hr => ?_⟩⟩
  · obtain ⟨nd, hnd⟩ := hex r s' h
    have hval : nd.valid = true := by rwa [nodeD_of_some hnd] at hv
    rw [run_bind_ok (virt_childChanged_run hnd hval (hfr.some hnd))]
    exact hk.1 hfr r s' h
  · obtain ⟨u, t1, h1, h2⟩ := bind_ok_inv hr
    obtain ⟨vnd, hvnd, -⟩ := childChanged_ok_parent h1
    rw [virt_getElem?] at hvnd
    cases hnd : s.nodes[p]? with
    | none => rw [hnd] at hvnd; cases hvnd
    | some nd =>
      have hval : nd.valid = true := by rwa [nodeD_of_some hnd] at hv
      rw [run_bind_ok (virt_childChanged_run hnd hval (hfr.some hnd))] at hr
      exact (hk.2 hfr hp).2 r t hr

/-- **the own step of a map_ref node** (no notification by the actual run; the virtual run notifies, which does nothing): the parents of `n` must be valid -/
theorem BSimAt.maybeChangeValueManual_quiet (env : Env) (fuel n : Nat) (o o' : Option Val) (did : Bool) {s : State}
    (hf : 0 < fuel) (hpv : ∀ x ∈ (s.nodeD n).parents, (s.nodeD x.1).valid = true) :
    BSimAt K P g s (Engine.maybeChangeValueManual env fuel n o did false)
      (Engine.maybeChangeValueManual (virtEnv env sp) fuel n o' did true) := by
  unfold Engine.maybeChangeValueManual
  simp only [↓reduceIte, Bool.false_eq_true]
  refine BSimAt.cond Iff.rfl (fun _ => BSimAt.ret _) (fun _ => ?_)
  refine BSimAt.get_seq ?_
  fnorm
  refine BSimAt.seqP (R := FullH.PV) ?_ (BSim.modNode _ (by fcomm) (by fkind) (by fpar) s) fun _ s1 q1 => ?_
  · exact Step.Pres.modify fun t => FullH.PV.modNode t n _ fun x => ⟨rfl, rfl⟩
  refine BSimAt.seqP (R := FullH.PV) ?_ (BSim.bumpCounter _ s1) fun _ s2 q2 => ?_
  · exact Step.Pres.modify fun t => FullH.PV.of_nodes rfl
  refine BSimAt.seqP (R := FullH.PV) ?_ (BSim.maybeHandleAfterStabilisation _ s2) fun _ s3 q3 => ?_
  · exact (Step.Pres.maybeHandleAfterStabilisation n).mono fun _ _ => FullH.PV.of_quiet
  have q : FullH.PV s s3 := Step.PreOrd.trans (Step.PreOrd.trans q1 q2) q3
  refine BSimAt.getNode_seq fun nd hnd hne => ?_
  fnorm
  have hpar : nd.parents = (s.nodeD n).parents := by rw [← q.parents n, nodeD_of_some hnd]
  have hex : ∀ {β : Type} (p : Nat) (s : State) (k : Node → M β) (r : β) (s' : State),
      (do let t ← get
          dassert (t.needsToBeComputed p) "node:maybe_change_value:parent-needs-to-be-computed"
          let nd ← getNode p
          k nd : M β).run.run s = (.ok r, s') → ∃ nd, s.nodes[p]? = some nd := by
    intro β p s k r s' h
    rw [run_bind_get] at h
    obtain ⟨na, hna, -⟩ := bind_getNode_inv (bind_dassert_inv h)
    exact ⟨na, hna⟩
  -- the condition kept along the walk: the parents are valid
  have hI : ∀ t, Step.Quiet s3 t → ∀ x ∈ nd.parents, (t.nodeD x.1).valid = true := by
    intro t qt x hx
    rw [(qt.node x.1).valid, q.valid]
    exact hpv x (hpar ▸ hx)
  revert hI
  generalize nd.parents = ps
  intro hI
  split
  · exact BSimAt.ret _
  · rename_i p0 ci0 rest
    refine BSimAt.seqP (R := Step.Quiet) ?_
      (BSimAt.forInR (R := Step.Quiet) (fun t => Step.Quiet s3 t) (fun _ _ h1 h2 => Step.PreOrd.trans h1 h2) rest ?_ ?_ _ s3
        (Step.PreOrd.refl _)) fun _ s4 q4 => ?_
    · apply Step.Pres.forIn; intro a b'; qpres
    · intro a b'; qpres
    · intro a ha b' t qt
      refine BSimAt.ccRight hf (hI t qt a (List.mem_cons_of_mem _ ha)) (hex _ _ _) ?_
      bsim
    · refine BSimAt.ccRight hf (hI s4 q4 (p0, ci0) (List.mem_cons_self ..)) (hex _ _ _) ?_
      bsim

end

/-! ## `maybe_change_value` on a node that is not a map_ref node -/

section
variable {K : Kind → Prop} {g : Nat → Option Val} {sp : Nat → Val → Val}

theorem MRPV.of_nodeD {s s' : State} (h : MRPV s) (hk : ∀ m, (s'.nodeD m).kind = (s.nodeD m).kind)
    (hv : ∀ m, (s'.nodeD m).valid = (s.nodeD m).valid) (hp : ∀ m x, x ∈ (s'.nodeD m).parents → x ∈ (s.nodeD m).parents) : MRPV s' := by
  intro c pr j p i hkc hvc hx
  rw [hv]
  exact h c pr j p i (by rw [← hk]; exact hkc) (by rw [← hv]; exact hvc) (hp c _ hx)

/-- writing the value of a node that is not a map_ref node commutes with `virt` -/
theorem BSimAt.modNode_value {s : State} {n : Nat} (v : Option Val) (h : ∀ p i, (s.nodeD n).kind ≠ .mapRef p i) :
    BSimAt K PInv g s (Engine.modNode n fun x => { x with value := v }) (Engine.modNode n fun x => { x with value := v }) := by
  refine BSimAt.mk' (SimAt.modNode_value v h) (fun _ hp r s' hr => ?_) (fun _ _ r t hr => ?_)
  · rw [run_modNode] at hr; cases hr
    refine hp.of_nodeD (by simp) (fun m => ?_) (fun m x hx => ?_)
    · rw [nodeD_modify]; split <;> rfl
    · rw [nodeD_modify] at hx; split at hx <;> exact hx
  · rw [run_modNode] at hr; cases hr; exact ⟨_, run_modNode _ _ _⟩

/-- the tail of `maybe_change_value`: store the new value, then notify -/
theorem BSimAt.setThenNotify (env : Env) (fuel n : Nat) (v : Val) (o o' : Option Val) (c : Bool) {s : State} (hn : n < s.nodes.size)
    (hk : ∀ p i, (s.nodeD n).kind ≠ .mapRef p i) (hm : MRPV s) (hsz : s.nodes.size ≤ fuel) :
    BSimAt K PInv g s
      (do Engine.modNode n fun x => { x with value := some v }
          Engine.maybeChangeValueManual env fuel n o c true)
      (do Engine.modNode n fun x => { x with value := some v }
          Engine.maybeChangeValueManual (virtEnv env sp) fuel n o' c true) := by
  refine BSimAt.seq (BSimAt.modNode_value _ hk) fun _ s3 h3 => ?_
  rw [run_modNode] at h3; cases h3
  refine BSimAt.maybeChangeValueManual_stored env fuel n o o' c ?_ ?_ ?_ (by simpa using hsz)
  · intro p i; rw [nodeD_modify]; split <;> exact hk p i
  · rw [nodeD_modify, if_pos ⟨rfl, hn⟩]; rfl
  · refine hm.of_nodeD (fun m => ?_) (fun m => ?_) (fun m x hx => ?_)
    · rw [nodeD_modify]; split <;> rfl
    · rw [nodeD_modify]; split <;> rfl
    · rw [nodeD_modify] at hx; split at hx <;> exact hx

/-- CONTRACT `McvC` of `T4`, with the extra hypothesis `MRPV t` (the recorded parents of valid `map_ref` nodes are valid) -/
def McvC' (K : Kind → Prop) (env : Env) (sp : Nat → Val → Val) : Prop :=
  ∀ (g : Nat → Option Val) (fuel n : Nat) (v : Val) (t : State), (∀ p i, (t.nodeD n).kind ≠ .mapRef p i) →
    (t.nodeD n).cutoff = virtCut (t.nodeD n).kind (t.nodeD n).cutoff → MRPV t → t.nodes.size ≤ fuel →
    BSimAt K PInv g t (maybeChangeValue env fuel n v) (maybeChangeValue (virtEnv env sp) fuel n v)

/-- **`maybe_change_value`** of an EXACT node that is not a `map_ref` node -/
theorem mcvC' (K : Kind → Prop) (env : Env) (sp : Nat → Val → Val) : McvC' K env sp := by
  intro g fuel n v t hk hc hm hsz
  unfold Engine.maybeChangeValue
  refine BSimAt.getNode_seq fun nd hnd hne => ?_
  have hn : n < t.nodes.size := lt_of_some hnd
  have hnk : ∀ p i, nd.kind ≠ .mapRef p i := by
    have := hk; rw [nodeD_of_some hnd] at this; exact this
  rw [virtNode_value_of_not_mapRef _ _ hnk]
  dsimp only
  refine BSimAt.seq (BSimAt.modNode_value none hk) fun _ s1 h1 => ?_
  rw [run_modNode] at h1; cases h1
  have hk1 : ∀ p i, (({ t with nodes := t.nodes.modify n fun x => { x with value := none } } : State).nodeD n).kind
      ≠ .mapRef p i := by
    intro p i; rw [nodeD_modify]; split <;> exact hk p i
  have hm1 : MRPV ({ t with nodes := t.nodes.modify n fun x => { x with value := none } } : State) := by
    refine hm.of_nodeD (fun m => ?_) (fun m => ?_) (fun m x hx => ?_)
    · rw [nodeD_modify]; split <;> rfl
    · rw [nodeD_modify]; split <;> rfl
    · rw [nodeD_modify] at hx; split at hx <;> exact hx
  have hsz1 : ({ t with nodes := t.nodes.modify n fun x => { x with value := none } } : State).nodes.size ≤ fuel := by
    simpa using hsz
  have hn1 : n < ({ t with nodes := t.nodes.modify n fun x => { x with value := none } } : State).nodes.size := by
    simpa using hn
  cases nd.value with
  | none =>
    simp only [pure_bind]
    exact BSimAt.setThenNotify env fuel n v _ _ _ hn1 hk1 hm1 hsz1
  | some ov =>
    dsimp only
    have hc1 : (({ t with nodes := t.nodes.modify n fun x => { x with value := none } } : State).nodeD n).cutoff =
        virtCut (({ t with nodes := t.nodes.modify n fun x => { x with value := none } } : State).nodeD n).kind
          (({ t with nodes := t.nodes.modify n fun x => { x with value := none } } : State).nodeD n).cutoff := by
      rw [nodeD_modify]; split <;> exact hc
    refine BSimAt.seq (BSimAt.shouldCutoff env n ov v hc1) fun c s2 h2 => ?_
    have q := (Step.Pres.shouldCutoff env n ov v).h _ _ _ h2
    have u := SubSt.of_quiet q
    simp only [pure_bind]
    refine BSimAt.setThenNotify env fuel n v _ _ _ (by rw [u.size]; exact hn1) ?_ (u.mrpv hm1) (by rw [u.size]; exact hsz1)
    intro p i; rw [u.kind]; exact hk1 p i

/-- the contract of `T4` follows when `MRPV` is known -/
theorem BSimAt.maybeChangeValue {env : Env} {fuel n : Nat} {v : Val} {t : State}
    (hk : ∀ p i, (t.nodeD n).kind ≠ .mapRef p i)
    (hc : (t.nodeD n).cutoff = virtCut (t.nodeD n).kind (t.nodeD n).cutoff) (hm : MRPV t) (hsz : t.nodes.size ≤ fuel) :
    BSimAt K PInv g t (Engine.maybeChangeValue env fuel n v) (Engine.maybeChangeValue (virtEnv env sp) fuel n v) :=
  mcvC' K env sp g fuel n v t hk hc hm hsz

end
end IncrVerif.Proofs.FullT
