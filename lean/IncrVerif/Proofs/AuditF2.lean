import IncrVerif.Proofs.AuditF1
import IncrVerif.Proofs.FullH61
/-!
# C11, part 2: the audit holds at every quiescent point of every history of the COMBINED fragment

`QInvF env sp s g` contains `QG2 (VE env sp) (virt g s)`; `AuditF1` turns that into `Audit s`.  Here: whole histories (`history_audit`), every intermediate
state (`history_audit_every`), and the extra clauses right after a `stabilise` (`history_stabilise_audit`: the recompute heap is EMPTY, every needed node is
valid, not stale and — unless it is a `map_ref` node, which stores nothing — has a value).  Corollaries for fragment F2 (static core + nested binds, `C03Nested`)
and for the static core (`C01History`'s action list).
-/
namespace IncrVerif.Proofs.AuditF
open IncrVerif.Engine IncrVerif.Driver IncrVerif.Proofs IncrVerif.Proofs.Step IncrVerif.Proofs.Sched IncrVerif.Proofs.Quiet
open IncrVerif.Proofs.NestH (QG2 QI2 QInv2 HistF2 ActionF2)
open IncrVerif.Proofs.FullH

section
variable {env : Env} {sp : Nat → Val → Val}

theorem audit_of_qinvF {s : State} {g : Nat → Option Val} (Q : QInvF env sp s g) : Audit s := audit_of_virt_qg2 Q.q

theorem audit_of_qinvFE {s : State} (Q : QInvFE env sp s) : Audit s := by
  obtain ⟨g, Q⟩ := Q
  exact audit_of_qinvF Q

/-- every valid node that is not stale and is not a `map_ref` node stores a value -/
theorem value_of_qinvF {s : State} {g : Nat → Option Val} (Q : QInvF env sp s g) (n : Nat) (hn : n < s.nodes.size)
    (hv : (s.nodeD n).valid = true) (hs : s.isStale n = false) (hk : ∀ p i, (s.nodeD n).kind ≠ .mapRef p i) :
    ∃ v, (s.nodeD n).value = some v := by
  obtain ⟨rk, Qv⟩ := Q.q.1
  obtain ⟨v, -, h⟩ := Qv.cons n (by rw [virt_size]; exact hn) (by rw [virt_nodeD, virtNode_valid]; exact hv)
    (by rw [virt_isStale]; exact hs)
  rw [virt_nodeD, virtNode_value_of_not_mapRef _ _ hk] at h
  exact ⟨v, h⟩

theorem sum_length_nil : ∀ (l : List (List Nat)), (∀ x, x ∈ l → x = []) → (l.map List.length).sum = 0
  | [], _ => rfl
  | x :: l, h => by
    rw [List.map_cons, List.sum_cons, h x List.mem_cons_self, sum_length_nil l (fun y hy => h y (List.mem_cons_of_mem _ hy))]
    rfl

/-- when no needed node is stale the recompute heap is empty: every bucket, and the counter -/
theorem Audit.heap_empty {s : State} (A : Audit s) (hf : ∀ n, s.isNecessary n = true → s.isStale n = false) :
    s.rch.length = 0 ∧ (∀ (h : Nat) (hh : h < s.rch.queues.size), s.rch.queues[h] = []) ∧ ∀ m, (s.nodeD m).inRch = false := by
  have hb := A.buckets_empty hf
  refine ⟨?_, hb, fun m => ?_⟩
  · rw [A.heapWF.length]
    unfold bucketSum
    apply sum_length_nil
    intro x hx
    obtain ⟨i, hi, e⟩ := List.getElem_of_mem hx
    rw [← e, Array.getElem_toList]
    exact hb i (by simpa using hi)
  · cases hq : (s.nodeD m).inRch with
    | false => rfl
    | true =>
      obtain ⟨h1, h2⟩ := (A.queued m).1 hq
      rw [hf m h1] at h2; cases h2

/-- **C11 for the combined fragment: whole histories.** -/
theorem history_audit (E : EnvS env sp) (hF : FirstFn env) {N : Nat} {d : Bool} {acts : List Action} {s : State} {tk : Array Nat}
    (hH : HistFull env sp 0 acts) (h : Quiet.runActions env acts (State.init N d) #[] = .ok (s, tk)) : Audit s :=
  audit_of_qinvFE (history_inv E hF hH h)

/-- **… audited after every single API action**: every intermediate state of the history passes the audit -/
theorem history_audit_every (E : EnvS env sp) (hF : FirstFn env) {N : Nat} {d : Bool} {as bs : List Action} {s : State} {tk : Array Nat}
    (hH : HistFull env sp 0 (as ++ bs)) (h : Quiet.runActions env (as ++ bs) (State.init N d) #[] = .ok (s, tk)) :
    ∃ s1 tk1, Quiet.runActions env as (State.init N d) #[] = .ok (s1, tk1) ∧ Audit s1 ∧
      Quiet.runActions env bs s1 tk1 = .ok (s, tk) := by
  obtain ⟨s1, tk1, h1, h2⟩ := Quiet.runActions_prefix h
  exact ⟨s1, tk1, h1, history_audit E hF (histFull_append as bs 0 hH) h1, h2⟩

/-- **… and after every `stabilise`** the recompute heap is empty, the observer work lists are empty, and every needed node is valid, not stale and (unless it is
a `map_ref` node) has a value -/
theorem history_stabilise_audit (E : EnvS env sp) (hF : FirstFn env) {N : Nat} {d : Bool} {as bs : List Action} {s : State} {tk : Array Nat}
    (hH : HistFull env sp 0 (as ++ Action.stabilise :: bs))
    (h : Quiet.runActions env (as ++ Action.stabilise :: bs) (State.init N d) #[] = .ok (s, tk)) :
    ∃ s1 tk1 s2, Quiet.runActions env as (State.init N d) #[] = .ok (s1, tk1) ∧ Audit s1 ∧
      (stabilise env fuelDefault).run.run s1 = (.ok (), s2) ∧ Audit s2 ∧
      s2.rch.length = 0 ∧ (∀ (k : Nat) (hk : k < s2.rch.queues.size), s2.rch.queues[k] = []) ∧ (∀ m, (s2.nodeD m).inRch = false) ∧
      s2.newObservers = [] ∧ s2.disallowedObservers = [] ∧
      (∀ n, s2.isNecessary n = true → (s2.nodeD n).valid = true ∧ s2.isStale n = false ∧
        ((∃ v, (s2.nodeD n).value = some v) ∨ ∃ p i, (s2.nodeD n).kind = .mapRef p i)) ∧
      Quiet.runActions env bs s2 tk1 = .ok (s, tk) := by
  obtain ⟨s1, tk1, h1, h2⟩ := Quiet.runActions_prefix h
  have Q1 := history_inv E hF (histFull_append as _ 0 hH) h1
  simp only [Quiet.runActions] at h2
  rcases hx : (stepAction env .stabilise tk1).run.run s1 with ⟨_ | r, s2⟩
  · rw [hx] at h2; cases h2
  · rw [hx] at h2
    replace h2 : Quiet.runActions env bs s2 r.2 = .ok (s, tk) := h2
    obtain ⟨hst, htk⟩ := stabilise_run_of_step hx
    rw [htk] at h2
    obtain ⟨g, Q⟩ := Q1
    obtain ⟨g', R⟩ := stabilise_full' E hF Q hst
    have A2 := audit_of_qinvF R.inv
    obtain ⟨e1, e2, e3⟩ := A2.heap_empty (fun n hn => (R.fresh n hn).2)
    refine ⟨s1, tk1, s2, h1, audit_of_qinvF Q, hst, A2, e1, e2, e3, R.newObservers, R.disallowedObservers, ?_, h2⟩
    intro n hn
    obtain ⟨k1, k2⟩ := R.fresh n hn
    refine ⟨k1, k2, ?_⟩
    by_cases hk : ∃ p i, (s2.nodeD n).kind = .mapRef p i
    · exact Or.inr hk
    · exact Or.inl (value_of_qinvF R.inv n (A2.nec n hn).1 k1 k2 (fun p i e => hk ⟨p, i, e⟩))

end

/-! ## corollaries: fragment F2 (static core + nested binds) and the static core -/

/-- **C11 for fragment F2** (`C03Nested`: static core + binds, nested binds) -/
theorem history_audit_F2 {env : Env} {N : Nat} {d : Bool} {acts : List Action} {s : State} {tk : Array Nat}
    (hH : HistF2 env 0 acts) (h : Quiet.runActions env acts (State.init N d) #[] = .ok (s, tk)) : Audit s :=
  audit_of_qg2 (NestH.history_F2 hH h)

theorem actionF2_of_static {env : Env} {T : Nat} {a : Action} (h : Quiet.StaticAction env a) : ActionF2 env T a := by
  cases a <;> first | exact h | skip
  rename_i i
  cases i <;> first | exact h | exact h.elim

theorem histF2_of_static {env : Env} : ∀ (acts : List Action) (T : Nat), (∀ a, a ∈ acts → Quiet.StaticAction env a) → HistF2 env T acts
  | [], _, _ => trivial
  | a :: as, _, h => ⟨actionF2_of_static (h a List.mem_cons_self), histF2_of_static as _ (fun b hb => h b (List.mem_cons_of_mem _ hb))⟩

/-- **C11 for the static core** (the histories of `C01History`) -/
theorem history_audit_static {env : Env} {N : Nat} {d : Bool} {acts : List Action} {s : State} {tk : Array Nat}
    (hH : ∀ a, a ∈ acts → Quiet.StaticAction env a) (h : Quiet.runActions env acts (State.init N d) #[] = .ok (s, tk)) : Audit s :=
  history_audit_F2 (histF2_of_static acts 0 hH) h

end IncrVerif.Proofs.AuditF
