import IncrVerif.Proofs.NestH109
import IncrVerif.Proofs.NestH89
import IncrVerif.Proofs.NestH90
import IncrVerif.Proofs.NestH78
import IncrVerif.Proofs.NestH81
import IncrVerif.Proofs.NestH84
import IncrVerif.Proofs.NestH30
import IncrVerif.Proofs.NestH68
/-!
# Total correctness for nested binds (F2), phase 2 of the run of a change detector, part 1: `stateAddParent rhs 1 main` returns

Mirror of `NR3` (`NR.stateAddParent_spec2`) and of `NR.link_part` / `NR.unforce_part` (`NR4`).  What can panic in `stateAddParent rhs 1 main`:
* the first `dassert` (`main` is necessary: it is labelled `.linking 1`);
* `addParentWithoutAdjustingHeights` (→ `addParentWithoutAdjustingHeights_total2'`; `hmain`: if `main` is the main node of an INNER bind — a node of
  scope `.bind b'` — then the main node of `b'` is necessary);
* `adjustHeights rhs main` (→ `adjustHeights_total2`; `hge` is the `if` test, `h0`: `main` was closed and necessary before it was opened);
* `propagateInvalidity` on the empty stack (`1 ≤ fuel`);
* the second `dassert`;
* `rchInsert main`: `main` is not queued (the `if` test), it is necessary and stale, `0 ≤ height ≤ N`.
The height bound `HBo2` is threaded: `adjustHeights_total2` gives it for the closed parent; when `adjustHeights` is not called the parent keeps the height
it had before it was opened (`hbm`).
-/
namespace IncrVerif.Proofs.NestH
open IncrVerif.Engine IncrVerif.Proofs IncrVerif.Proofs.Step IncrVerif.Proofs.Sched IncrVerif.Proofs.Quiet
open IncrVerif.Proofs.BindH

namespace T2d
open NR

/-- a state that differs only in the nodes, with the same node count, has the same room -/
theorem room_nodes {N : Nat} {s s' : State} (R : Room N s) (ha : s'.ahh = s.ahh) (hr : s'.rch = s.rch)
    (hsz : s'.nodes.size = s.nodes.size) : Room N s' :=
  ⟨by rw [ha]; exact R.ahh, by rw [hr]; exact R.rch, by rw [hsz]; exact R.size⟩

/-- `state_add_parent rhs 1 main` returns and keeps the height bound and the room; hypotheses of `NR.stateAddParent_spec2` + bound + room + `hmain` + fuel -/
theorem sap_tot {env : Env} {rk : Nat → Nat} {N fuel b n main rhs : Nat} {t : State} {ex : Nat → Prop} {dy : List Nat}
    {br : BindRec}
    (I : GInv2 env rk t (upd allClosed main (.linking 1)) ex dy) (hex : ex main) (hah : AhhEmpty t)
    (hb : t.binds[b]? = some br) (hm : br.main = main) (hl : br.lhsChange = n) (hr : br.rhs = some rhs)
    (hhn : (t.nodeD n).height < (t.nodeD main).height) (h0 : 0 ≤ (t.nodeD main).height)
    (hgq : (t.nodeD main).inRch = true → (t.nodeD main).heightInRch = (t.nodeD main).height)
    (hpi : t.propagateInvalidity = [])
    (hF : ∀ m b' br', (t.nodeD m).forceNecessary = true → (t.nodeD m).createdIn = .bind b' →
      t.binds[b']? = some br' →
      t.isNecessary br'.lhsChange = true ∧ upd allClosed main (.linking 1) br'.lhsChange = .closed)
    (hdy : ∀ m, m ∈ dy → (t.nodeD m).createdIn = .bind b)
    (hst : (t.nodeD main).recomputedAt < (t.nodeD n).changedAt)
    (hsh : ∀ b' br', (t.nodeD main).createdIn = .bind b' → t.binds[b']? = some br' →
      (t.nodeD br'.lhsChange).height < (t.nodeD main).height ∧ t.isNecessary br'.lhsChange = true)
    (hB : HBo2 rk t (upd allClosed main (.linking 1))) (R : Room N t)
    (hbm : (t.nodeD main).height ≤ (cnt rk t.nodes.size main : Int) + 1)
    (hmain : ∀ (b' : Nat) (br' : BindRec), (t.nodeD main).createdIn = .bind b' → t.binds[b']? = some br' →
      t.isNecessary br'.main = true)
    (hf : 3 * t.nodes.size + 3 ≤ fuel) :
    Tot (stateAddParent env fuel rhs 1 main) t (fun _ t' => HBo2 rk t' allClosed ∧ Room N t') := by
  obtain ⟨f, rfl⟩ : ∃ f, fuel = f + 1 := ⟨fuel - 1, by omega⟩
  have hopm : upd allClosed main (.linking 1) main = .linking 1 := upd_self _ _ _
  have hms : main < t.nodes.size := I.opLt main (by rw [hopm]; exact Op.linking_ne_closed _)
  obtain ⟨r1, -, -, hkm, -⟩ := I.frag.recs b br hb
  rw [hm] at r1 hkm
  rw [hl] at r1 hkm
  have hnm : n ≠ main := by omega
  have hvm : (t.nodeD main).valid = true := I.valid_of_open (by rw [hopm]; exact Op.linking_ne_closed _)
  have hch : t.children main = [n, rhs] := by
    have := I.main_children hb (by rw [hm]; exact hvm)
    rw [hm, hl, hr] at this; exact this
  have hstale : t.isStale main = true := BR.isStale_main hvm hkm hb hst
  have hk1 : (t.children main)[1]? = some rhs := by rw [hch]; rfl
  have hk0 : (t.children main)[0]? = some n := by rw [hch]; rfl
  have hrkr : rk rhs < rk main := I.kid_rk hk1
  have hrs : rhs < t.nodes.size := I.kid_in hk1
  have hnecn : t.isNecessary n = true :=
    nec_of_mem_parents (I.conv main 0 n hk0 ((wants_linking hopm).2 (by omega)))
  have hcr := cnt_lt_size (rk := rk) hrs
  obtain ⟨u1, t1, hap, hHB1, I1, hab1, hl1, -, R1⟩ := addParentWithoutAdjustingHeights_total2' (fuel := f + 1) I hB R hopm hk1
    (by
      intro m hmo
      by_cases e : m = main
      · rw [e]; exact hrkr
      · rw [upd_other _ _ _ e] at hmo; exact absurd rfl hmo)
    (by
      intro m k
      by_cases e : m = main
      · rw [e, hopm]; exact fun e => by cases e
      · rw [upd_other _ _ _ e]; exact fun e => by cases e)
    hF hmain (by omega)
  rw [upd_upd] at I1 hHB1
  have K1 : BR.KRel t t1 := BR.KRel.of_cframe hl1.fr hl1.pinv
  have E1 : AhhEmpty t1 :=
    BR.ahhEmpty_frame hah (BR.CFrame.ahh hl1.fr) (((BR.PresM.link env (f + 1)).2 _ _ _).h _ _ _ hap)
  have hsz1 : t1.nodes.size = t.nodes.size := hl1.fr.size
  have hch1 : t1.children main = [n, rhs] := by
    rw [KeyEq2.children2 (BL.KeyEq.of_cframe hl1.fr) I.frag]; exact hch
  have hm1 : t1.nodeD main = t.nodeD main := hab1 main hrkr
  have hn1 : (t1.nodeD n).height = (t.nodeD n).height := hl1.hgt n (fun h => h) hnecn
  have hnec1 : t1.isNecessary main = true := I1.lnec main 2 (upd_self _ _ _)
  have hb1 : t1.binds[b]? = some br := by rw [K1.binds]; exact hb
  have hsh1 : ∀ b' br', (t1.nodeD main).createdIn = .bind b' → t1.binds[b']? = some br' →
      (t1.nodeD br'.lhsChange).height < (t1.nodeD main).height := by
    intro b' br' hc' hb'
    rw [hm1] at hc' ⊢
    rw [K1.binds] at hb'
    obtain ⟨h1, h2⟩ := hsh b' br' hc' hb'
    rw [hl1.hgt br'.lhsChange (fun h => h) h2]; exact h1
  -- the tail of the function, from a state in which everything is closed
  have tail : ∀ t2, GInv2 env rk t2 allClosed ex dy → BR.KRel t1 t2 → t2.isNecessary main = true →
      HBo2 rk t2 allClosed → Room N t2 →
      Tot (do propagateInvalidity (f + 1)
              let s ← get
              dassert (s.isNecessary main) "node:state_add_parent:parent-necessary"
              let p ← getNode main
              let c ← getNode rhs
              if !p.inRch && (p.recomputedAt == -1 || c.changedAt > p.recomputedAt) then
                rchInsert main) t2 (fun _ t' => HBo2 rk t' allClosed ∧ Room N t') := by
    intro t2 I2 K2 hnec2 hHB2 Rm2
    have K12 : BR.KRel t t2 := K1.trans K2
    have hms2 : main < t2.nodes.size := by rw [K12.size]; exact hms
    have hrs2 : rhs < t2.nodes.size := by rw [K12.size]; exact hrs
    refine Tot.bind_ok (Inval.propagateInvalidity_nil f t2 (by rw [K12.pinv]; exact hpi)) ?_
    refine Tot.bind_get ?_
    refine Tot.bind_dassert (fun _ => hnec2) ?_
    refine Tot.bind_getNode hms2 ?_
    refine Tot.bind_getNode hrs2 ?_
    split
    · rename_i hcond
      have hnq : (t2.nodeD main).inRch = false := by
        simp only [Bool.and_eq_true, Bool.not_eq_true'] at hcond
        exact hcond.1
      have hst2 : t2.isStale main = true := by
        rw [KeyEq2.isStale2 (CR.KRel.keyEq K12) I.frag main]; exact hstale
      have hpre : (!(t2.nodeD main).inRch && t2.needsToBeComputed main) = true := by
        rw [hnq, State.needsToBeComputed, hnec2, hst2]; rfl
      have h02 : 0 ≤ (t2.nodeD main).height := I2.hpos main hnec2 rfl
      have hmax : (t2.nodeD main).height ≤ (N : Int) := hHB2.le_max Rm2 hms2 hnec2 rfl
      have hins := P21.rchInsert_ok hms2 hpre h02 (by rw [Rm2.rch]; exact hmax)
      obtain ⟨-, -, -, -, -, -, hlr⟩ := rchInsert_rel hins
      refine Tot.of_ok hins ⟨?_, Rm2.of_cframe (hlr (fun _ => False)).fr⟩
      have hnd : ∀ m, ∃ x, (inserted main (t2.nodeD main).height t2).nodeD m =
          { t2.nodeD m with heightInRch := x } := by
        intro m
        rw [inserted_nodeD]
        split
        · exact ⟨_, rfl⟩
        · exact ⟨_, rfl⟩
      have hsz : (inserted main (t2.nodeD main).height t2).nodes.size = t2.nodes.size := Array.size_modify ..
      intro m hmn ho
      obtain ⟨x, hx⟩ := hnd m
      rw [hx, hsz]
      refine hHB2 m ?_ ho
      rw [State.isNecessary, hx] at hmn
      exact hmn
    · exact Tot.pure ⟨hHB2, Rm2⟩
  unfold stateAddParent
  refine Tot.bind_get ?_
  refine Tot.bind_dassert (fun _ => I.lnec main 1 hopm) ?_
  refine Tot.bind_ok hap ?_
  refine Tot.bind_getNode (by rw [hsz1]; exact hrs) ?_
  refine Tot.bind_getNode (by rw [hsz1]; exact hms) ?_
  by_cases hge : (t1.nodeD rhs).height ≥ (t1.nodeD main).height
  · rw [if_pos hge]
    have hedge : (main, 1) ∈ (t1.nodeD rhs).parents :=
      I1.conv main 1 rhs (by rw [hch1]; rfl) ((wants_linking (upd_self _ _ _)).2 (by omega))
    refine Tot.bind (adjustHeights_total2 I1 hHB1 R1 (by rw [upd_self, hch1]; rfl)
      (fun m e => by rw [upd_other _ _ _ e]; rfl) ⟨1, hedge⟩
      (by
        intro c i hmem hc
        have hk := (I1.par c main i hmem).1
        rw [hch1] at hk
        rcases i with _ | _ | i
        · simp only [List.getElem?_cons_zero, Option.some.injEq] at hk
          rw [← hk, hm1, hn1]; exact hhn
        · simp only [List.getElem?_cons_succ, List.getElem?_cons_zero, Option.some.injEq] at hk
          exact absurd hk.symm hc
        · simp at hk)
      (by rw [hm1]; exact hgq) (fun _ => Or.inl hex) E1
      (by
        intro m hmd b' br' hc' hb'
        rw [CR.KRel.createdIn K1, hdy m hmd] at hc'
        injection hc' with hc'
        rw [← hc', hb1] at hb'
        cases hb'
        have := I1.frag.lc_rk_main hb1 (by rw [hm, hm1]; exact hvm)
        rw [hm] at this; exact this)
      hsh1 hge (by rw [hm1]; exact h0) (by rw [hsz1]; omega)) ?_
    rintro _ t2 _ ⟨I2, -, R2, -, hHB2, Rm2⟩
    rw [upd_upd, BR.upd_allClosed_closed] at I2 hHB2
    exact tail t2 I2 (BR.KRel.of_hrel R2) (by rw [R2.nec]; exact hnec1) hHB2 Rm2
  · rw [if_neg hge]
    have I2 := close_full I1 (upd_self _ _ _) (by rw [hch1]; exact Nat.le_refl 2)
      (by
        intro i c hk
        rw [hch1] at hk
        rcases i with _ | _ | i
        · simp only [List.getElem?_cons_zero, Option.some.injEq] at hk
          rw [← hk, hm1, hn1]; exact hhn
        · simp only [List.getElem?_cons_succ, List.getElem?_cons_zero, Option.some.injEq] at hk
          rw [← hk]; omega
        · simp at hk)
      (by rw [hm1]; exact h0) (by rw [hm1]; exact hgq) (fun _ => Or.inl hex) hsh1
    rw [upd_upd, BR.upd_allClosed_closed] at I2
    have hHB2 : HBo2 rk t1 allClosed := by
      intro m hmn ho
      by_cases e : m = main
      · rw [e, hm1, hsz1]; exact hbm
      · exact hHB1 m hmn (by rw [upd_other _ _ _ e]; exact ho)
    exact tail t1 I2 (BR.KRel.refl _) hnec1 hHB2 R1

end T2d

end IncrVerif.Proofs.NestH
