import IncrVerif.Proofs.BindH38
/-!
# Binds, the run of a change detector in fragment F0, part 4: the three phases put together

`lc_mid`: from the drain invariant, through `relink` (by `RelinkSpec`), to the last step (`maybeChangeValue`),
with the intermediate state `t` (after `relink`) described against the initial state.
-/
namespace IncrVerif.Proofs.BindH
open IncrVerif.Engine IncrVerif.Proofs IncrVerif.Proofs.Step IncrVerif.Proofs.Sched IncrVerif.Proofs.Quiet
namespace BC

theorem pre_kind (n : Nat) (br : BindRec) (v : Val) (s : State) (m : Nat) :
    ((pre n br v s).nodeD m).kind = (s.nodeD m).kind := by
  rw [pre_nodeD]; split <;> rfl

theorem pre_force (n : Nat) (br : BindRec) (v : Val) (s : State) (m : Nat) :
    ((pre n br v s).nodeD m).forceNecessary = (s.nodeD m).forceNecessary := by
  rw [pre_nodeD]; split <;> rfl

theorem pre_chg (n : Nat) (br : BindRec) (v : Val) (s : State) (m : Nat) :
    ((pre n br v s).nodeD m).changedAt = (s.nodeD m).changedAt := by
  rw [pre_nodeD]; split <;> rfl

theorem pre_nec (n : Nat) (br : BindRec) (v : Val) (s : State) (m : Nat) :
    (pre n br v s).isNecessary m = s.isNecessary m := by
  unfold State.isNecessary
  rw [pre_nodeD]; split <;> rfl

/-- everything known about the state `t` after `relink` and about the last step -/
structure Mid (env : Env) (n b rhs : Nat) (br : BindRec) (r : Option Nat) (s t s' : State) : Prop where
  hb : s.binds[b]? = some br
  hlc : br.lhsChange = n
  hnm : n < br.main
  hml : br.main < s.nodes.size
  hkm : (s.nodeD br.main).kind = .bindMain b n
  hmem : n ∈ s.children br.main
  hrn : rhs < n
  hrk : ∀ b', (s.nodeD rhs).kind ≠ .bindLhsChange b'
  rel : MidRel n b rhs br s t
  ginv : GInvB env t allClosed (· = br.main)
  ahh : AhhEmpty t
  pinv : t.propagateInvalidity = []
  noForce : ∀ m, (t.nodeD m).forceNecessary = false
  necMain : t.isNecessary br.main = true
  necN : t.isNecessary n = true
  graph : BGraph env t
  step : StepRelB n .unit true r t s'
  last : LastK t s'

theorem lc_mid {env : Env} (RS : RelinkSpec env) {fuel n b : Nat} {s s' : State} {r : Option Nat}
    (I : DInv env s (some n)) (A : F0Inv env s) (hk : (s.nodeD n).kind = .bindLhsChange b)
    (hcut : (s.nodeD n).cutoff = .never)
    (h : (recomputeOne env fuel n).run.run s = (.ok r, s')) :
    ∃ br rhs t, Mid env n b rhs br r s t s' := by
  obtain ⟨hn, hlt, hv, hnq, -⟩ := I.cur_facts
  obtain ⟨br, hb, hlc, hnm, hml, hkm, hmem, hmn, hmr⟩ := lc_facts I A hk
  have G := ginvB_of_dinv I A
  obtain ⟨v, k, rhs, t, hret, htop, hrel, hfin⟩ :=
    lc_run_inv hlt hv hk hb I.graph.pc (fun br' h' => A.noRhsNodes b br' h')
      (fun v => by
        obtain ⟨h1, k, _, h2, _⟩ := A.closures b br v hb
        exact ⟨h1, k, h2⟩) h
  -- the new right-hand side
  obtain ⟨hrn, hrk⟩ : rhs < n ∧ ∀ b', (s.nodeD rhs).kind ≠ .bindLhsChange b' := by
    obtain ⟨-, k', r', h2, h3, h4, h5⟩ := A.closures b br v hb
    rw [hret] at h2
    cases h2
    rw [htop] at h3
    cases h3
    rw [hlc] at h4
    exact ⟨h4, h5⟩
  -- the state in which `relink` starts
  have hBn : BKind env ((pre n br v s).nodeD n).kind := by rw [pre_kind, hk]; trivial
  have hfresh : (pre n br v s).isStale n = false := by
    apply isStale_fresh hBn (show 0 ≤ s.stabNum from I.stamps.now)
    · show ((pre n br v s).nodeD n).recomputedAt = s.stabNum
      rw [pre_self br v hlt]
    · exact I.stamps.var
    · intro c
      show ((pre n br v s).nodeD c).changedAt ≤ s.stabNum
      rw [pre_chg]; exact (I.stamps.node c).2
  have G1 : GInvB env (pre n br v s) allClosed (· = br.main) :=
    ginvB_restamp G rfl rfl (pre_size ..) rfl rfl rfl (fun m e => pre_other br v s e) (pre_self br v hlt) hnq
      hfresh (fun m e hmn' hms _ => by
        rcases I.pending m hmn' hms with h1 | h1
        · exact h1
        · exact absurd (Option.some.inj h1).symm e)
  have hne : br.main ≠ n := by omega
  have hrne : rhs ≠ n := by omega
  obtain ⟨Gt, At, R, hpt, hft⟩ := RS fuel b n br.main rhs br.rhs (pre n br v s) t br (· = br.main) hrel G1 rfl
    (ahhEmpty_pre br v A.ahh) hb rfl rfl hlc (by rw [pre_kind]; exact hk) (by rw [pre_kind]; exact hkm) hnm
    (by rw [pre_size]; exact hml) (by rw [pre_nec]; exact hmn) hrn
    (fun b' => by rw [pre_kind]; exact hrk b')
    (fun o ho => by
      obtain ⟨h1, h2⟩ := A.rhsOld b br o hb ho
      rw [hlc] at h1
      exact ⟨h1, fun b' => by rw [pre_kind]; exact h2 b'⟩)
    A.noRhsNodes (fun m => by rw [pre_force]; exact A.noForce m) A.pinv
    (by rw [pre_other br v s hne]; exact hmr) (by rw [pre_self br v hlt]; rfl)
    (fun m => by rw [pre_chg]; exact (I.stamps.node m).2)
  have M := midRel_of hlt R
  have necMain : t.isNecessary br.main = true :=
    M.nec_above G Gt hb s.nodes.size br.main (by omega) (Nat.le_refl _) hmn
  have hcm := M.children_main' A.frag hml hkm
  have necN : t.isNecessary n = true := by
    have h0 : (t.children br.main)[0]? = some n := by rw [hcm]; rfl
    exact nec_of_mem_parents (Gt.conv br.main 0 n h0 ((wants_closed rfl).2 necMain))
  have g : BGraph env t := by
    apply bgraph_of_ginvB Gt
    intro m c hm hkc
    rw [M.size] at hm
    rw [(M.nk m).kind] at hkc
    rw [M.vars]
    exact I.graph.var m c hm (A.frag.node m hm).valid hkc
  obtain ⟨S, L⟩ := mcv_last g (heapInv_of_ginvB Gt) necN (by rw [M.recN, M.stabNum])
    (by rw [(M.nk n).cutoff]; exact hcut) (hfin hpt)
  exact ⟨br, rhs, t, hb, hlc, hnm, hml, hkm, hmem, hrn, hrk, M, Gt, At, hpt, hft, necMain, necN, g, S, L⟩

end BC
end IncrVerif.Proofs.BindH
