import IncrVerif.Engine.Core
/-!
# C02, combined fragment, part 1: what "valid and not stale" says about the stamps of a node and of its inputs

`fresh_inputs`: a valid node that is not stale has been computed (`recomputedAt ≠ -1`; a `var` node: after the last write of its cell), and NONE OF ITS CHILDREN
HAS CHANGED SINCE IT LAST RAN: `changedAt(child) ≤ recomputedAt(node)`.  Pure unfolding of `State.isStale` (the model's `is_stale`), all kinds.
-/
namespace IncrVerif.Proofs.OnceF
open IncrVerif.Engine

theorem fresh_inputs {s : State} {n : Nat} (hv : (s.nodeD n).valid = true) (h : s.isStale n = false) :
    (∀ c, c ∈ s.children n → (s.nodeD c).changedAt ≤ (s.nodeD n).recomputedAt) ∧
    ((∀ c, (s.nodeD n).kind ≠ .var c) → (s.nodeD n).recomputedAt ≠ -1) ∧
    (∀ c vc, (s.nodeD n).kind = .var c → s.vars[c]? = some vc → vc.setAt ≤ (s.nodeD n).recomputedAt) := by
  have hk : (s.nodeD n).kind? = some (s.nodeD n).kind := by simp [Node.kind?, hv]
  have hch : ∀ c, (s.nodeD n).kind = .var c → s.children n = [] := by
    intro c e; unfold State.children; rw [hk, e]
  have hch2 : ∀ v, (s.nodeD n).kind = .const v → s.children n = [] := by
    intro c e; unfold State.children; rw [hk, e]
  unfold State.isStale at h
  simp only [hk] at h
  cases hkd : (s.nodeD n).kind with
  | var c =>
    rw [hkd] at h
    refine ⟨?_, ?_, ?_⟩
    · rw [hch c hkd]; intro c hc; cases hc
    · intro hh; exact absurd rfl (hh c)
    · intro c' vc e hvc
      cases e
      simp only [hvc] at h
      simpa using h
  | const v =>
    rw [hkd] at h
    refine ⟨?_, ?_, ?_⟩
    · rw [hch2 v hkd]; intro c hc; cases hc
    · intro _; simpa using h
    · intro c vc e; cases e
  | _ =>
    rw [hkd] at h
    simp only [Bool.or_eq_false_iff, List.any_eq_false, beq_eq_false_iff_ne, decide_eq_true_eq] at h
    refine ⟨?_, ?_, ?_⟩
    · intro c hc; have := h.2 c hc; omega
    · intro _; first | exact h.1 | exact h.1.2
    · intro c vc e; cases e

end IncrVerif.Proofs.OnceF
