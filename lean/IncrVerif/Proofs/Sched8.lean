import IncrVerif.Proofs.Sched7
/-!
# L4: `stabilise` on an idle quiescent state

* `Calm s s'`: the bookkeeping that `stabiliseEnd` looks at (status, deferred writes, dead vars, new and
  disallowed observers, update-handler counts and — when no node has update handlers — the
  `handleAfterStab` list) is untouched.  `maybeChangeValue` is `Calm` in every state; so is a
  `recomputeOne` of the static fragment, `recompute`, and `drainHeap`.
* `stabilise_quiet`: from `QuietInv` and `Idle`, a successful `stabilise` is: set the status, run
  `drainHeap` from a state satisfying `DrainInv`, bump the round number.  Afterwards `QuietInv` and `Idle`
  hold again, no necessary node is stale, and every necessary node carries its from-scratch value.
-/
namespace IncrVerif.Proofs.Sched
open IncrVerif.Engine IncrVerif.Proofs IncrVerif.Proofs.Step

/-! ## `Calm` -/

structure Calm (s s' : State) : Prop where
  status : s'.status = s.status
  setDuringStab : s'.setDuringStab = s.setDuringStab
  deadVars : s'.deadVars = s.deadVars
  newObservers : s'.newObservers = s.newObservers
  disallowedObservers : s'.disallowedObservers = s.disallowedObservers
  num : ∀ m, (s'.nodeD m).numOnUpdateHandlers = (s.nodeD m).numOnUpdateHandlers
  has : (∀ m, (s.nodeD m).numOnUpdateHandlers ≤ 0) → s'.handleAfterStab = s.handleAfterStab

theorem Calm.refl (s : State) : Calm s s := ⟨rfl, rfl, rfl, rfl, rfl, fun _ => rfl, fun _ => rfl⟩

theorem Calm.trans {a b c : State} (h1 : Calm a b) (h2 : Calm b c) : Calm a c where
  status := h2.status.trans h1.status
  setDuringStab := h2.setDuringStab.trans h1.setDuringStab
  deadVars := h2.deadVars.trans h1.deadVars
  newObservers := h2.newObservers.trans h1.newObservers
  disallowedObservers := h2.disallowedObservers.trans h1.disallowedObservers
  num m := (h2.num m).trans (h1.num m)
  has h := (h2.has (fun m => by rw [h1.num]; exact h m)).trans (h1.has h)

instance : PreOrd Calm := ⟨Calm.refl, Calm.trans⟩

theorem Calm.of_eq {s s' : State} (h1 : s'.nodes = s.nodes) (h2 : s'.status = s.status)
    (h3 : s'.setDuringStab = s.setDuringStab) (h4 : s'.deadVars = s.deadVars)
    (h5 : s'.newObservers = s.newObservers) (h6 : s'.disallowedObservers = s.disallowedObservers)
    (h7 : s'.handleAfterStab = s.handleAfterStab) : Calm s s' := by
  refine ⟨h2, h3, h4, h5, h6, fun m => ?_, fun _ => h7⟩
  have : s'.nodeD m = s.nodeD m := by simp [State.nodeD, h1]
  rw [this]

theorem Calm.modNode (s : State) (n : Nat) (f : Node → Node)
    (hf : ∀ x, (f x).numOnUpdateHandlers = x.numOnUpdateHandlers) :
    Calm s { s with nodes := s.nodes.modify n f } := by
  refine ⟨rfl, rfl, rfl, rfl, rfl, fun m => ?_, fun _ => rfl⟩
  rw [nodeD_modify]
  split
  · exact hf _
  · rfl

theorem PresC.modNode (n : Nat) (f : Node → Node)
    (hf : ∀ x, (f x).numOnUpdateHandlers = x.numOnUpdateHandlers) : Step.Pres Calm (modNode n f) := by
  unfold Engine.modNode; exact Step.Pres.modify fun s => Calm.modNode s n f hf

macro_rules
  | `(tactic| qleaf) =>
    `(tactic| ((with_reducible apply Step.Pres.modify); intro _;
               exact Calm.of_eq rfl rfl rfl rfl rfl rfl rfl))
macro_rules
  | `(tactic| qleaf) => `(tactic| ((with_reducible apply PresC.modNode); intro _; rfl))

/-- register a `Pres Calm` lemma as a leaf -/
macro "calm_leaf " n:ident : command =>
  `(macro_rules | `(tactic| qleaf) => `(tactic| with_reducible apply $n))

theorem PresC.tick : Step.Pres Calm tick := by unfold Engine.tick; qpres
calm_leaf PresC.tick
theorem PresC.logEv (e) : Step.Pres Calm (logEv e) := by unfold Engine.logEv; qpres
calm_leaf PresC.logEv
theorem PresC.bumpCounter (f) : Step.Pres Calm (bumpCounter f) := by unfold Engine.bumpCounter; qpres
calm_leaf PresC.bumpCounter
theorem PresC.modExpert (e f) : Step.Pres Calm (modExpert e f) := by unfold Engine.modExpert; qpres
calm_leaf PresC.modExpert
theorem PresC.shouldCutoff (env n o v) : Step.Pres Calm (shouldCutoff env n o v) := by
  unfold Engine.shouldCutoff; qpres
calm_leaf PresC.shouldCutoff
theorem PresC.edgeOnChange (env e edge) : Step.Pres Calm (edgeOnChange env e edge) := by
  unfold Engine.edgeOnChange; qpres
calm_leaf PresC.edgeOnChange
theorem PresC.runEdgeCallback (env e i) : Step.Pres Calm (runEdgeCallback env e i) := by
  unfold Engine.runEdgeCallback; qpres
calm_leaf PresC.runEdgeCallback
theorem PresC.rchLink (n) : Step.Pres Calm (rchLink n) := by unfold Engine.rchLink; qpres
calm_leaf PresC.rchLink
theorem PresC.rchInsert (n) : Step.Pres Calm (rchInsert n) := by unfold Engine.rchInsert; qpres
calm_leaf PresC.rchInsert
theorem PresC.rchMinHeight : Step.Pres Calm rchMinHeight := by unfold Engine.rchMinHeight; qpres
calm_leaf PresC.rchMinHeight

/-- `maybe_handle_after_stabilisation` pushes the node only when it has update handlers -/
theorem PresC.maybeHandleAfterStabilisation (n : Nat) :
    Step.Pres Calm (maybeHandleAfterStabilisation n) := by
  constructor
  intro s r s' h
  unfold Engine.maybeHandleAfterStabilisation at h
  rw [run_bind, run_getNode] at h
  cases hn : s.nodes[n]? with
  | none => rw [hn] at h; cases h; exact Calm.refl s
  | some nd =>
    rw [hn] at h
    simp only at h
    split at h
    · rename_i hpos
      -- the node has handlers: `has` is vacuous
      have hnum : ¬ ∀ m, (s.nodeD m).numOnUpdateHandlers ≤ 0 := by
        intro hall
        have := hall n
        rw [nodeD_of_some hn] at this
        omega
      unfold Engine.handleAfterStabilisation at h
      rw [run_bind, run_getNode, hn] at h
      simp only at h
      split at h
      · simp only [run_bind, run_modNode, run_modify] at h
        cases h
        refine ⟨rfl, rfl, rfl, rfl, rfl, fun m => ?_, fun hall => absurd hall hnum⟩
        show (State.nodeD { s with nodes := _ } m).numOnUpdateHandlers = _
        rw [nodeD_modify]
        split <;> rfl
      · rw [run_pure] at h; cases h; exact Calm.refl s
    · rw [run_pure] at h; cases h; exact Calm.refl s
calm_leaf PresC.maybeHandleAfterStabilisation

theorem PresC.childChanged (env : Env) (fuel p c ci : Nat) (o : Option Val) :
    Step.Pres Calm (childChanged env fuel p c ci o) := by
  induction fuel generalizing p c ci o with
  | zero => unfold Engine.childChanged; qpres
  | succ fuel ih =>
    unfold Engine.childChanged
    qpres
    all_goals (apply Step.Pres.forIn; intro a b; qpres; exact ih _ _ _ _)
calm_leaf PresC.childChanged

theorem PresC.parentIterCanRecomputeNow (p c : Nat) :
    Step.Pres Calm (parentIterCanRecomputeNow p c) := by
  unfold Engine.parentIterCanRecomputeNow; qpres
calm_leaf PresC.parentIterCanRecomputeNow

theorem PresC.maybeChangeValueManual (env fuel n o d b) :
    Step.Pres Calm (maybeChangeValueManual env fuel n o d b) := by
  unfold Engine.maybeChangeValueManual
  qpres
  all_goals (apply Step.Pres.forIn; intro a b; qpres)
calm_leaf PresC.maybeChangeValueManual

theorem PresC.maybeChangeValue (env fuel n v) : Step.Pres Calm (maybeChangeValue env fuel n v) := by
  unfold Engine.maybeChangeValue; qpres

end IncrVerif.Proofs.Sched
