import IncrVerif.Proofs.MemoH9
/-!
# K3, recompute part (1): memoised calls, templates, and the "knowledge" layer `KB.PresK`

* `KB.memoCall`, `KB.elabInstrM`, `KB.elabTemplate`: `Pres TV` for every memoised call / instruction / template;
* `KB.PresK I x`: `x` is a `FR` step, and from a state satisfying the (future-monotone) knowledge `I` it is a
  `TV` step — under the premises `NoPK s'` (of the FINAL state) and `RegScoped s` (of the start state), which
  are exactly what `TV.valid` may assume.  `PresK TrueP x → Pres TV x`.
-/
namespace IncrVerif.Proofs.MemoH
open IncrVerif.Engine IncrVerif.Proofs.Obs IncrVerif.Proofs.Memo

namespace KB

/-! ## small `TV` facts -/

/-- `FR` step + (`NoPK s' → RegScoped s → TV`) is a `TV` step -/
theorem TV.of_cond {s s' : State} (h : FR s s') (hc : NoPK s' → RegScoped s → TV s s') : TV s s' :=
  ⟨h.fut, h.reg, fun hn hr ht => (hc hn hr).valid hn hr ht⟩

/-- a new name in `top` (and a new handle) -/
theorem TV.of_push (s : State) (n : Nat) (hs : List Nat) :
    TV s { s with top := s.top.push n, handles := hs } := by
  have hf : Fut s { s with top := s.top.push n, handles := hs } :=
    ⟨Nat.le_refl _, fun _ _ => rfl, fun k x hk => by
      show (s.top.push n)[k]? = some x
      have hlt : k < s.top.size := by
        rcases Nat.lt_or_ge k s.top.size with h | h
        · exact h
        · rw [Array.getElem?_eq_none h] at hk; cases hk
      rw [Array.getElem?_push]
      rw [if_neg (Nat.ne_of_lt hlt)]; exact hk⟩
  exact ⟨hf, RegScoped.of_eq rfl rfl, fun _ _ ht x hx => ht x (hx.back hf hx.lt)⟩

/-! ## goal 1: memoised calls, instructions, templates -/

theorem memoCall (env : Env) (m : Nat) (key : Int) : Pres TV (Engine.memoCall env m key) := by
  constructor
  intro s r s' hrun
  rw [memoCall_run] at hrun
  split at hrun
  · cases hrun; exact TV.refl _
  · rcases ht : tick.run.run s with ⟨_ | _, s1⟩
    · rw [ht] at hrun; cases hrun
      exact (PresF.tick (R := TV)).h _ _ _ ht
    · rw [ht] at hrun
      have h1 : TV s s1 := (PresF.tick (R := TV)).h _ _ _ ht
      have h2 : TV s1 (memoStart m key s1) := TV.of_eq rfl rfl rfl
      dsimp only at hrun
      rcases he : (elabTemplateBase (env.memo m) (.int key)).run.run (memoStart m key s1) with ⟨_ | n, s2⟩
      · rw [he] at hrun; cases hrun
        exact h1.trans (h2.trans ((PresF.elabTemplateBase (R := TV) _ _ _).h _ _ _ he))
      · rw [he] at hrun; cases hrun
        have h3 : TV (memoStart m key s1) s2 := (PresF.elabTemplateBase (R := TV) _ _ _).h _ _ _ he
        have h4 : TV s2 (memoFinish s1.currentScope m key n s2) := TV.of_eq rfl rfl rfl
        exact h1.trans (h2.trans (h3.trans h4))

theorem elabInstrM (env : Env) (loc v) (i : Instr) : Pres TV (Engine.elabInstrM env loc v i) := by
  unfold Engine.elabInstrM
  split
  · exact Pres.map _ (memoCall env _ _)
  · exact PresF.elabInstr _ _ _

theorem elabTemplate (env : Env) (t : Template) (v) : Pres TV (Engine.elabTemplate env t v) := by
  unfold Engine.elabTemplate
  refine Pres.bind (Pres.forIn_mem' fun i _ b => ?_) fun _ => Pres.resolveOpnd _ _
  refine Pres.bind (elabInstrM env _ _ i) fun r => ?_
  split <;> exact Pres.pure _

theorem memoCallFR (env : Env) (m : Nat) (key : Int) : Pres FR (Engine.memoCall env m key) :=
  (memoCall env m key).mono fun _ _ h => h.fr

theorem bodiesTrue (env : Env) : BodiesP (fun _ _ => True) env := fun _ _ _ _ _ _ _ => trivial

/-! ## knowledge -/

/-- predicates on states that are kept along futures -/
class FutMono (I : State → Prop) : Prop where
  mono : ∀ s s', Fut s s' → I s → I s'

def TrueP : State → Prop := fun _ => True
def AndP (I J : State → Prop) : State → Prop := fun s => I s ∧ J s
/-- node `n` exists and has kind `k` -/
def KindAt (n : Nat) (k : Kind) : State → Prop := fun s => n < s.nodes.size ∧ (s.nodeD n).kind = k
/-- the nodes of `L` exist and were created in scope `.bind b` -/
def Sc (L : List Nat) (b : Nat) : State → Prop :=
  fun s => ∀ r ∈ L, r < s.nodes.size ∧ (s.nodeD r).createdIn = .bind b

instance : FutMono TrueP := ⟨fun _ _ _ h => h⟩
instance (I J) [FutMono I] [FutMono J] : FutMono (AndP I J) :=
  ⟨fun s s' hf h => ⟨FutMono.mono s s' hf h.1, FutMono.mono s s' hf h.2⟩⟩
instance (n k) : FutMono (KindAt n k) :=
  ⟨fun s s' hf h => by
    have hc := hf.core n h.1
    simp only [nodeK, Prod.mk.injEq] at hc
    exact ⟨Nat.lt_of_lt_of_le h.1 hf.nodesLe, hc.1.trans h.2⟩⟩
instance (L b) : FutMono (Sc L b) :=
  ⟨fun s s' hf h r hr => by
    have hc := hf.core r (h r hr).1
    simp only [nodeK, Prod.mk.injEq] at hc
    exact ⟨Nat.lt_of_lt_of_le (h r hr).1 hf.nodesLe, hc.2.trans (h r hr).2⟩⟩

theorem KindAt.notSTop {n : Nat} {k : Kind} {s : State} (h : KindAt n k s) (hk : ¬ StaticK k) :
    ¬ STop s n := fun hs => hk (h.2 ▸ hs.static)

theorem Sc.notSTop {L : List Nat} {b : Nat} {s : State} (h : Sc L b s) {r : Nat} (hr : r ∈ L) :
    ¬ STop s r := fun hs => by
  have := hs.scope
  rw [(h r hr).2] at this
  cases this

/-- the knowledge-carrying judgement -/
structure PresK (I : State → Prop) {α} (x : M α) : Prop where
  fr : Pres FR x
  tv : ∀ s r s', x.run.run s = (r, s') → I s → NoPK s' → RegScoped s → TV s s'

theorem PresK.of_pres {I : State → Prop} {α} {x : M α} (h : Pres TV x) : PresK I x :=
  ⟨h.mono fun _ _ h => h.fr, fun s r s' hrun _ _ _ => h.h s r s' hrun⟩

theorem PresK.toPres {α} {x : M α} (h : PresK TrueP x) : Pres TV x :=
  ⟨fun s r s' hrun => TV.of_cond (h.fr.h s r s' hrun) fun hn hr => h.tv s r s' hrun trivial hn hr⟩

theorem PresK.weaken {I J : State → Prop} {α} {x : M α} (h : PresK J x) (hij : ∀ s, I s → J s) :
    PresK I x :=
  ⟨h.fr, fun s r s' hrun hi hn hr => h.tv s r s' hrun (hij s hi) hn hr⟩

theorem PresK.bind {I : State → Prop} [FutMono I] {α β} {x : M α} {f : α → M β}
    (hx : PresK I x) (hf : ∀ a, PresK I (f a)) : PresK I (x >>= f) := by
  refine ⟨Pres.bind hx.fr fun a => (hf a).fr, ?_⟩
  intro s r s' h hi hn hr
  rw [run_bind] at h
  rcases hx' : x.run.run s with ⟨r1, s1⟩
  rw [hx'] at h
  cases r1 with
  | error e => cases h; exact hx.tv s _ _ hx' hi hn hr
  | ok a =>
    dsimp only at h
    have hfr := (hf a).fr.h s1 r s' h
    have h1 := hx.tv s _ s1 hx' hi (hn.back hfr.fut) hr
    exact h1.trans ((hf a).tv s1 r s' h (FutMono.mono s s1 h1.fut hi) hn (h1.reg hr))

theorem PresK.forIn_mem {I : State → Prop} [FutMono I] {α β} {l : List α} {init : β}
    {f : α → β → M (ForInStep β)} (hf : ∀ a, a ∈ l → ∀ b, PresK I (f a b)) :
    PresK I (forIn l init f) := by
  induction l generalizing init with
  | nil => rw [List.forIn_nil]; exact PresK.of_pres (Pres.pure _)
  | cons a l ih =>
    rw [List.forIn_cons]
    refine PresK.bind (hf a List.mem_cons_self init) fun r => ?_
    cases r with
    | done b => exact PresK.of_pres (Pres.pure _)
    | yield b => exact ih fun a' ha' b => hf a' (List.mem_cons_of_mem _ ha') b

/-- reading a node teaches its kind -/
theorem PresK.getNode_bind {I : State → Prop} [FutMono I] {β} (n : Nat) {f : Node → M β}
    (hf : ∀ nd, PresK (AndP I (KindAt n nd.kind)) (f nd)) : PresK I (getNode n >>= f) := by
  refine ⟨Pres.bind (Pres.getNode _) fun a => (hf a).fr, ?_⟩
  intro s r s' h hi hn hr
  rw [run_bind] at h
  unfold Engine.getNode at h
  simp only [run_bind, run_get] at h
  cases hnd : s.nodes[n]? with
  | none =>
    rw [hnd] at h
    simp only [Engine.panic, run_throw] at h
    cases h; exact TV.refl _
  | some nd =>
    rw [hnd] at h
    simp only [run_pure] at h
    have hlt : n < s.nodes.size := by
      rcases Nat.lt_or_ge n s.nodes.size with h | h
      · exact h
      · rw [Array.getElem?_eq_none h] at hnd; cases hnd
    refine (hf nd).tv s r s' h ⟨hi, hlt, ?_⟩ hn hr
    simp only [State.nodeD, hnd, Option.getD_some]

/-- reading a bind record teaches (under `RegScoped`) where its registered nodes live -/
theorem PresK.getBind_bind {I : State → Prop} [FutMono I] {β} (b : Nat) {f : BindRec → M β}
    (hf : ∀ br, PresK (AndP I (Sc br.allNodesCreatedOnRhs b)) (f br)) : PresK I (getBind b >>= f) := by
  refine ⟨Pres.bind (Pres.getBind _) fun a => (hf a).fr, ?_⟩
  intro s r s' h hi hn hr
  rw [run_bind] at h
  unfold Engine.getBind at h
  simp only [run_bind, run_get] at h
  cases hbr : s.binds[b]? with
  | none =>
    rw [hbr] at h
    simp only [Engine.panic, run_throw] at h
    cases h; exact TV.refl _
  | some br =>
    rw [hbr] at h
    simp only [run_pure] at h
    exact (hf br).tv s r s' h ⟨hi, fun x hx => hr b br hbr x hx⟩ hn hr

/-- invalidating a node known not to be hereditarily static -/
theorem PresK.invalidate {env : Env} (hA : ASpec env) {I : State → Prop} (fuel n : Nat)
    (hI : ∀ s, I s → ¬ STop s n) : PresK I (invalidateNode fuel n) :=
  ⟨PresI.invalidateNode fuel n, fun s r s' hrun hi _ _ => hA.inval fuel n s r s' hrun (hI s hi)⟩

/-- a computation that cannot run to a `NoPK` state from a state satisfying `I` -/
theorem PresK.dead {I : State → Prop} {α} {x : M α} (hfr : Pres FR x) (hI : ∀ s, I s → ¬ NoPK s) :
    PresK I x :=
  ⟨hfr, fun s r s' hrun hi hn _ => absurd (hn.back (hfr.h s r s' hrun).fut) (hI s hi)⟩

theorem KindAt.notNoPK {n f : Nat} {args : List Nat} {s : State} (h : KindAt n (.map f args) s)
    (hf : f ≥ fnPerKey) : ¬ NoPK s := fun hn => absurd (hn n f args h.1 h.2) (Nat.not_lt.2 hf)

theorem kind?_some {nd : Node} {k : Kind} (h : nd.kind? = some k) : nd.kind = k := by
  unfold Node.kind? at h
  split at h
  · cases h; rfl
  · cases h

end KB

end IncrVerif.Proofs.MemoH
