import IncrVerif.Proofs.PerKeyH104
import IncrVerif.Proofs.PerKeyH5
/-!
# The callback discipline `SlotInv` in the per-key fragment, part 6: the prefix and the end of `stabilise`, taking a node
out of the heap, the API actions (C)

Most ingredients of `ExpertH61–65` are stated for arbitrary states (all nodes valid, nothing waiting in
`propagateInvalidity`); here they are instantiated for the per-key states (`PFrag`, `PQ`).
-/
namespace IncrVerif.Proofs.PerKeyH
open IncrVerif.Engine IncrVerif.Driver IncrVerif.Proofs IncrVerif.Proofs.Step IncrVerif.Proofs.Sched
open IncrVerif.Proofs.ExpertH IncrVerif.Proofs.EffH IncrVerif.Proofs.Xp IncrVerif.Proofs.DriverH
open IncrVerif.Proofs.ExpertH.QR

/-! ## facts of `PQ` -/

theorem PQ.pinv {env : Env} {rk : Nat → Nat} {s : State} (Q : PQ env rk s) : s.propagateInvalidity = [] := Q.q.pinv

/-- the children of the records are nodes -/
theorem kids_of_allStatic {env : Env} {rk : Nat → Nat} {s : State} (_F : PFrag env s) (A : AllStatic (penv env) rk (V s)) :
    ∀ n e er, (s.nodeD n).kind = .expert e → s.experts[e]? = some er →
      ∀ ed, ed ∈ er.children → ed.child < s.nodes.size := by
  intro n e er hk he ed hed
  have hlt : n < s.nodes.size := lt_of_expert hk
  have := (A.node n (by rw [V_size]; exact hlt)).kidsIn ed.child (by
    rw [V_kids, hk]; simp only [kidsX, xRec_some he]
    exact List.mem_map_of_mem hed)
  rwa [V_size] at this

theorem PQ.kids {env : Env} {rk : Nat → Nat} {s : State} (Q : PQ env rk s) :
    ∀ n e er, (s.nodeD n).kind = .expert e → s.experts[e]? = some er →
      ∀ ed, ed ∈ er.children → ed.child < s.nodes.size :=
  kids_of_allStatic Q.frag Q.q.struct.static

/-! ## C1. the prefix of `stabilise` -/

/-- `add_new_observers` (from the state in which `stabilise` has set the status) -/
theorem addNewObservers_slots_pk {env : Env} {fuel : Nat} {s t1 : State} {r : Except Panic Unit}
    (F : PFrag env s) (hp : s.propagateInvalidity = []) (L : SlotInv env s)
    (h : (addNewObservers env fuel).run.run { s with status := .stabilising } = (r, t1)) :
    SlotInv env t1 ∧ (∀ m, (t1.nodeD m).valid = true) := by
  have hv0 : ∀ m, (({ s with status := .stabilising } : State).nodeD m).valid = true := F.validD
  have hp0 : ({ s with status := .stabilising } : State).propagateInvalidity = [] := hp
  exact ⟨addNewObservers_slots hv0 hp0 (slotInv_status L .stabilising) h,
    (((PresC.addNewObservers env fuel).h _ _ _ h) hv0 hp0).1.allValid hv0⟩

/-- `unlink_disallowed_observers` (any state without invalid nodes: `ExpertH.unlinkDisallowedObservers_slots` as is) -/
theorem unlinkDisallowedObservers_slots_pk {env : Env} {fuel : Nat} {t1 t2 : State}
    (hv : ∀ m, (t1.nodeD m).valid = true) (L : SlotInv env t1)
    (h : (unlinkDisallowedObservers fuel).run.run t1 = (.ok (), t2)) : SlotInv env t2 :=
  unlinkDisallowedObservers_slots hv L h

/-- **the prefix of `stabilise`** from the invariant between actions -/
theorem prefix_slots {env : Env} {rk : Nat → Nat} {fuel : Nat} {s t1 t2 : State} (Q : PQ env rk s)
    (h1 : (addNewObservers env fuel).run.run { s with status := .stabilising } = (.ok (), t1))
    (h2 : (unlinkDisallowedObservers fuel).run.run t1 = (.ok (), t2)) : SlotInv env t1 ∧ SlotInv env t2 := by
  obtain ⟨L1, hv1⟩ := addNewObservers_slots_pk Q.frag Q.pinv Q.slots h1
  exact ⟨L1, unlinkDisallowedObservers_slots hv1 L1 h2⟩

/-! ## C2. taking a node out of the heap -/

theorem pop_slots {env : Env} {s s1 : State} {r : Option Nat} (hH : HeapInv s) (L : SlotInv env s)
    (h : rchRemoveMin.run.run s = (.ok r, s1)) : SlotInv env s1 := by
  have hinv := rchRemoveMin_inv hH h
  cases r with
  | none => obtain ⟨rfl, -⟩ := hinv; exact L
  | some n =>
    obtain ⟨-, -, -, hs1, -⟩ := hinv
    have xf : XF s s1 := PresX.rchRemoveMin.h _ _ _ h
    have hnd : ∀ m, s1.nodeD m =
        if n = m ∧ m < s.nodes.size then { s.nodeD m with heightInRch := -1 } else s.nodeD m := by
      intro m; rw [hs1]; exact nodeD_modify s n m _
    have hx : s1.experts = s.experts := by rw [hs1]
    have hvars : s1.vars = s.vars := by rw [hs1]
    have hb : s1.binds = s.binds := by rw [hs1]
    refine L.of_frame xf hx (fun m => ?_) (fun m => ?_) (fun m => ?_)
    · apply value_congr env s s1 xf.size
      intro k; rw [hnd]; split <;> rfl
    · unfold State.isNecessary; rw [hnd]; split <;> rfl
    · have hk : ∀ k, (s1.nodeD k).kind? = (s.nodeD k).kind? := fun k => by rw [hnd]; split <;> rfl
      have hr : ∀ k, (s1.nodeD k).recomputedAt = (s.nodeD k).recomputedAt := fun k => by rw [hnd]; split <;> rfl
      have hc : ∀ k, (s1.nodeD k).changedAt = (s.nodeD k).changedAt := fun k => by rw [hnd]; split <;> rfl
      unfold State.isStale State.children
      simp only [hk, hr, hc, hx, hvars, hb]

/-! ## C3. the end of `stabilise` -/

theorem children_congr_p {env : Env} {s s' : State} (F : PFrag env s)
    (hk : ∀ m, (s'.nodeD m).kind = (s.nodeD m).kind) (hvl : ∀ m, (s'.nodeD m).valid = (s.nodeD m).valid)
    (hx : s'.experts = s.experts) (m : Nat) : s'.children m = s.children m := by
  unfold State.children Node.kind?
  rw [hk m, hvl m, hx]
  have hK := F.kindD m
  by_cases hv : (s.nodeD m).valid = true
  · simp only [hv, if_true]
    cases hkd : (s.nodeD m).kind <;> rw [hkd] at hK <;> first | rfl | exact False.elim hK
  · simp only [hv]
    rfl

/-- `stabiliseEnd` (no deferred writes, no dead variables, no handlers) keeps `SlotInv` -/
theorem slotInv_finished_pk {env : Env} {t s' : State} (F : PFrag env t) (L : SlotInv env t) (E : Finished' t s') :
    SlotInv env s' := by
  have hnode : ∀ m, (s'.nodeD m).kind = (t.nodeD m).kind ∧ (s'.nodeD m).valid = (t.nodeD m).valid ∧
      (s'.nodeD m).recomputedAt = (t.nodeD m).recomputedAt ∧ (s'.nodeD m).changedAt = (t.nodeD m).changedAt ∧
      (s'.nodeD m).value = (t.nodeD m).value ∧ (s'.nodeD m).isNecessary = (t.nodeD m).isNecessary := by
    intro m
    obtain ⟨b, hb⟩ := E.node m
    rw [hb]
    exact ⟨rfl, rfl, rfl, rfl, rfl, rfl⟩
  have xf : XF t s' :=
    ⟨E.size, fun m => (hnode m).1, by rw [E.experts], fun e => by rw [E.experts], E.nextDep⟩
  refine L.of_frame xf E.experts (fun m => ?_) (fun m => ?_) (fun m => ?_)
  · have hk : ∀ p i, (s'.nodeD m).kind ≠ .mapRef p i := by rw [(hnode m).1]; exact F.sl_noMapRef m
    rw [value_plain env s' m hk, value_plain env t m (F.sl_noMapRef m)]
    exact (hnode m).2.2.2.2.1
  · simp only [State.isNecessary]; exact (hnode m).2.2.2.2.2
  · exact isStale_congr_fields (fun k => ⟨(hnode k).1, (hnode k).2.1, (hnode k).2.2.1, (hnode k).2.2.2.1⟩)
      E.experts E.vars m (children_congr_p F (fun k => (hnode k).1) (fun k => (hnode k).2.1) E.experts m)

/-- the run form -/
theorem stabiliseEnd_slots_pk {env : Env} {fuel : Nat} {t s' : State} (F : PFrag env t) (L : SlotInv env t)
    (h1 : t.setDuringStab = []) (h2 : t.deadVars = [])
    (hobs : ∀ (o : Nat) (ob : ObsRec), t.observers[o]? = some ob → ob.handlers = [])
    (h : (stabiliseEnd env fuel).run.run t = (.ok (), s')) : SlotInv env s' :=
  slotInv_finished_pk F L (stabiliseEnd_fin h1 h2 hobs h)

/-! ## C4. the API actions that are neither `stabilise` nor `create (perKey …)` -/

theorem xinstr_of_pinstr {env : Env} {s : State} {i : Instr} (hi : PInstrOK env s i)
    (hnp : ∀ cut fam x, i ≠ .perKey cut fam x) : XInstr i := by
  cases i <;> first | trivial | exact hi.elim | exact absurd rfl (hnp _ _ _)

theorem xact_of_paction {env : Env} {s : State} {a : Action} (ha : PActionOK env s a) (hns : a ≠ .stabilise)
    (hnc : ∀ i, a ≠ .create i) : XAct a := by
  cases a <;> first | trivial | exact ha.elim | exact absurd rfl hns | exact absurd rfl (hnc _)

/-- **`observe`, `disallow`, the writes, `create` of a static node, … keep `SlotInv`** -/
theorem action_static_slots_pk {env : Env} {rk : Nat → Nat} {s s' : State} {a : Action} {tk : Array Nat}
    {r : String × Array Nat} (Q : PQ env rk s) (ha : PActionOK env s a) (hns : a ≠ .stabilise)
    (hnp : ∀ cut fam x, a ≠ .create (.perKey cut fam x))
    (h : (stepAction env a tk).run.run s = (.ok r, s')) : SlotInv env s' := by
  by_cases hc : ∃ i, a = .create i
  · obtain ⟨i, rfl⟩ := hc
    have hi : XInstr i := xinstr_of_pinstr (s := s) ha fun cut fam x e => hnp cut fam x (by rw [e])
    exact cfx_slots_pf Q.frag Q.kids Q.slots ((PresCF.create env tk hi).h _ _ _ h)
  · exact xact_slots Q.slots (xact_of_paction ha hns fun i e => hc ⟨i, e⟩) h

end IncrVerif.Proofs.PerKeyH
