import IncrVerif.Proofs.FaultH16
import IncrVerif.Proofs.TidyH1
/-!
# Faults in whole histories, part 9: `T` is the number of `map` nodes with a user function and of `fold` nodes the fault-free
drain runs

`invokes k`: does the recomputation of a node of kind `k` invoke a user closure (`tick`)?  In the static fragment: a `map`
with a user function (`f < fnZip`) and every `fold`; not `var`, `const`, the built-in `zip`.  The fault-free drain logs
exactly one entry per invoking node it runs (`drainTicks`, counted along `TidyH.drainSteps`: the nodes of `Sched.drainTrace`
with the state each runs in).
-/
namespace IncrVerif.Proofs.FaultH
open IncrVerif.Engine IncrVerif.Proofs IncrVerif.Proofs.Step IncrVerif.Proofs.Sched

variable {env : Env}

/-- does recomputing a node of this kind invoke a user closure? -/
def invokes : Kind → Bool
  | .map f _ => decide (f < fnZip)
  | .fold _ _ _ => true
  | _ => false

/-- the number of invocations of one recomputation of node `n` in `s` -/
def tk (s : State) (n : Nat) : Nat := if invokes (s.nodeD n).kind then 1 else 0

namespace P9

theorem fr_started {s : State} (h : Fr env s) (n : Nat) : Fr env (started n s) := by
  have h1 : Fr env ({ s with nodes := s.nodes.modify n fun x => { x with recomputedAt := s.stabNum } } : State) :=
    fr_modify h n _ (fun _ => ⟨rfl, rfl, rfl⟩)
  exact h1.of_nodes rfl rfl

theorem fr_logged {s : State} (h : Fr env s) (es : List Event) : Fr env (logged es s) := h.of_nodes rfl rfl

/-- `maybe_change_value` logs nothing in the fragment -/
theorem mcv_log {fuel n : Nat} {v : Val} {s s' : State} {r : Except Panic (Option Nat)} (h : Fr env s)
    (hr : (maybeChangeValue env fuel n v).run.run s = (r, s')) : s'.log = s.log :=
  (Comm.maybeChangeValue env fuel n v none s h r s' hr).2.2

theorem kids_none_map (fuel n : Nat) (s : State) (nd : Node) (f : Nat) (args : List Nat)
    (hn : s.nodes[n]? = some nd) (hv : nd.valid = true) (hk : nd.kind = .map f args)
    (hvals : valuesOf env s args = none) :
    ((recomputeOne env fuel n).run.run s).1 = .error (.site "node:recompute_one:child-value") := by
  have hk? : ({ nd with recomputedAt := s.stabNum } : Node).kind? = some (.map f args) := by
    simp [Node.kind?, hv, hk]
  have hvals' : valuesOf env (started n s) args = none := by
    rw [valuesOf_congr env s (started n s) args (fun a _ => started_value env n s a)]; exact hvals
  have hn' := started_getElem? n s nd hn
  unfold recomputeOne
  simp only [run_bind_get]
  cases hd : s.cfg.debug
  all_goals
    simp only [started, hd, Bool.false_eq_true, if_false, if_true, run_bind_modify,
      run_bind_bumpCounter, run_bind_get, run_bind_modNode] at hn' hvals' ⊢
    rw [run_bind_ok (run_getNode_some hn'), hk?]
    dsimp only
    rw [run_bind_of (run_mapM_valueUnwrap env _ _ args), hvals']

theorem kids_none_fold (fuel n : Nat) (s : State) (nd : Node) (f : Nat) (init : Val) (cs : List Nat)
    (hn : s.nodes[n]? = some nd) (hv : nd.valid = true) (hk : nd.kind = .fold f init cs)
    (hvals : valuesOf env s cs = none) :
    ((recomputeOne env fuel n).run.run s).1 = .error (.site "node:recompute_one:child-value") := by
  have hk? : ({ nd with recomputedAt := s.stabNum } : Node).kind? = some (.fold f init cs) := by
    simp [Node.kind?, hv, hk]
  have hvals' : valuesOf env (started n s) cs = none := by
    rw [valuesOf_congr env s (started n s) cs (fun a _ => started_value env n s a)]; exact hvals
  have hn' := started_getElem? n s nd hn
  unfold recomputeOne
  simp only [run_bind_get]
  cases hd : s.cfg.debug
  all_goals
    simp only [started, hd, Bool.false_eq_true, if_false, if_true, run_bind_modify,
      run_bind_bumpCounter, run_bind_get, run_bind_modNode] at hn' hvals' ⊢
    rw [run_bind_ok (run_getNode_some hn'), hk?]
    dsimp only
    rw [run_bind_of (run_mapM_valueUnwrap env _ _ cs), hvals']

theorem var_none (fuel n : Nat) (s : State) (nd : Node) (c : Nat)
    (hn : s.nodes[n]? = some nd) (hv : nd.valid = true) (hk : nd.kind = .var c) (hc : s.vars[c]? = none) :
    ((recomputeOne env fuel n).run.run s).1 = .error (.site "model:no-such-var") := by
  have hk? : ({ nd with recomputedAt := s.stabNum } : Node).kind? = some (.var c) := by
    simp [Node.kind?, hv, hk]
  have hn' := started_getElem? n s nd hn
  unfold recomputeOne
  simp only [run_bind_get]
  cases hd : s.cfg.debug
  all_goals
    simp only [started, hd, Bool.false_eq_true, if_false, if_true, run_bind_modify,
      run_bind_bumpCounter, run_bind_get, run_bind_modNode] at hn' ⊢
    rw [run_bind_ok (run_getNode_some hn'), hk?]
    dsimp only
    simp only [getVar, bind_assoc, run_bind_get, hc]
    rfl

end P9

/-- **one recomputation that returns logs exactly one entry if it invokes a closure, none otherwise** -/
theorem recomputeOne_log_len {fuel n : Nat} {s s' : State} {r : Option Nat} (hfr : Fr env s)
    (hp : s.panicCountdown = none) (h : (recomputeOne env fuel n).run.run s = (.ok r, s')) :
    s'.log.length = s.log.length + tk s n := by
  cases hnd : s.nodes[n]? with
  | none => rw [recomputeOne_missing_run env fuel n s hnd] at h; cases h
  | some nd =>
    have hD : s.nodeD n = nd := nodeD_of_some hnd
    have hv : nd.valid = true := (hfr.some hnd).2.2.1
    have hk : StaticKind env nd.kind := hfr.someK hnd
    have hfs := P9.fr_started hfr n
    unfold tk
    rw [hD]
    cases hkd : nd.kind with
    | const w =>
      rw [recomputeOne_const_run env fuel n s nd w hnd hv hkd] at h
      rw [P9.mcv_log hfs h]; rfl
    | var c =>
      cases hc : s.vars[c]? with
      | none =>
        have := P9.var_none (env := env) fuel n s nd c hnd hv hkd hc
        rw [h] at this; cases this
      | some vc =>
        rw [recomputeOne_var_run env fuel n s nd c vc hnd hv hkd hc] at h
        rw [P9.mcv_log hfs h]; rfl
    | map f args =>
      rw [hkd] at hk
      cases hvals : valuesOf env s args with
      | none =>
        have := P9.kids_none_map (env := env) fuel n s nd f args hnd hv hkd hvals
        rw [h] at this; cases this
      | some vals =>
        by_cases hf : f < fnZip
        · rw [recomputeOne_map_run env fuel n s nd f args vals hnd hv hkd hf hvals (hk.2 hf vals) hp] at h
          rw [P9.mcv_log (P9.fr_logged hfs _) h]
          simp [invokes, hf, logged, started]
        · rw [recomputeOne_mapBuiltin_run env fuel n s nd f args vals hnd hv hkd hf hk.1 hvals] at h
          rw [P9.mcv_log hfs h]
          simp [invokes, hf, started]
    | fold f init cs =>
      cases hvals : valuesOf env s cs with
      | none =>
        have := P9.kids_none_fold (env := env) fuel n s nd f init cs hnd hv hkd hvals
        rw [h] at this; cases this
      | some vals =>
        rw [recomputeOne_fold_run env fuel n s nd f init cs vals hnd hv hkd hvals hp] at h
        rw [P9.mcv_log (P9.fr_logged hfs _) h]
        simp [invokes, logged, started]
    | mapRef _ _ => rw [hkd] at hk; exact hk.elim
    | mapWithOld _ _ => rw [hkd] at hk; exact hk.elim
    | bindLhsChange _ => rw [hkd] at hk; exact hk.elim
    | bindMain _ _ => rw [hkd] at hk; exact hk.elim
    | expert _ => rw [hkd] at hk; exact hk.elim

/-- the invocations of the nodes a drain runs, each counted in the state it runs in -/
def ticksOf (l : List (Nat × State)) : Nat := (l.map fun p => tk p.2 p.1).sum

theorem ticksOf_append (a b : List (Nat × State)) : ticksOf (a ++ b) = ticksOf a + ticksOf b := by
  simp [ticksOf, List.map_append, List.sum_append]

theorem recompute_log_len : ∀ (fuel n : Nat) (s s' : State), Fr env s → s.panicCountdown = none →
    (recompute env fuel n).run.run s = (.ok (), s') →
    Fr env s' ∧ s'.panicCountdown = none ∧
      s'.log.length = s.log.length + ticksOf (TidyH.chainSteps env fuel n s) := by
  intro fuel
  induction fuel with
  | zero => intro n s s' _ _ h; unfold recompute at h; cases h
  | succ fuel ih =>
    intro n s s' hfr hp h
    unfold recompute at h
    obtain ⟨r, s1, h1, h2⟩ := bind_ok_inv h
    obtain ⟨fr1, pc1, -⟩ := Lock.recomputeOne (env := env) fuel n s hfr hp _ _ h1
    have l1 := recomputeOne_log_len hfr hp h1
    unfold TidyH.chainSteps
    rw [h1]
    cases r with
    | none =>
      obtain ⟨-, rfl⟩ := pure_ok_inv h2
      exact ⟨fr1, pc1, by rw [l1]; simp [ticksOf]⟩
    | some p =>
      obtain ⟨fr2, pc2, l2⟩ := ih p s1 s' fr1 pc1 h2
      refine ⟨fr2, pc2, ?_⟩
      rw [l2, l1]
      simp only [ticksOf, List.map_cons, List.sum_cons]
      omega

theorem drainHeap_log_len : ∀ (fuel : Nat) (s s' : State), Fr env s → s.panicCountdown = none →
    (drainHeap env fuel).run.run s = (.ok (), s') →
    s'.log.length = s.log.length + ticksOf (TidyH.drainSteps env fuel s) := by
  intro fuel
  induction fuel with
  | zero => intro s s' _ _ h; unfold drainHeap at h; cases h
  | succ fuel ih =>
    intro s s' hfr hp h
    unfold drainHeap at h
    obtain ⟨r, s1, h1, h2⟩ := bind_ok_inv h
    obtain ⟨e1, fr1, l1⟩ := Comm.rchRemoveMin (env := env) none s hfr _ _ h1
    have pc1 : s1.panicCountdown = none := by
      rw [setCd_self hp, h1] at e1
      exact congrArg (fun p => p.2.panicCountdown) e1
    unfold TidyH.drainSteps
    rw [h1]
    cases r with
    | none =>
      obtain ⟨-, rfl⟩ := pure_ok_inv h2
      rw [l1]; simp [ticksOf]
    | some n =>
      dsimp only at h2 ⊢
      obtain ⟨_, s2, h3, h4⟩ := bind_ok_inv h2
      obtain ⟨fr2, pc2, l2⟩ := recompute_log_len fuel n s1 s2 fr1 pc1 h3
      have l3 := ih s2 s' fr2 pc2 h4
      rw [h3]
      dsimp only
      rw [ticksOf_append, l3, l2, l1]
      omega

end IncrVerif.Proofs.FaultH
