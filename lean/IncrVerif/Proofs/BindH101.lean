import IncrVerif.Proofs.BindH98
import IncrVerif.Proofs.BindH65
/-!
# Binds, part 5e1: the closure run registers exactly the IMAGE of the closure's template — operands, instructions, one iteration

`C3e.resolve_eq`, `C3e.mapM_resolve_eq`: in the fragment `resolveOpnd` computes `resolveP`/`resolveAll`.
`C3e.elab_kind`: an instruction of an F1 closure pushes a node of kind `kindOfInstr …`.
`C3e.LK`: the second loop invariant of `elabTemplate` (proved alongside `CN.LI`): the local list is the list registered so far, and its nodes
have the kinds the template prescribes.
-/
namespace IncrVerif.Proofs.BindH
open IncrVerif.Engine IncrVerif.Proofs IncrVerif.Proofs.Step IncrVerif.Proofs.Sched IncrVerif.Proofs.Quiet

namespace C3e

/-! ## `resolveP`, `resolveAll`, `kindOfInstr` only read the naming table -/

theorem resolveP_congr {s s' : State} (h : s'.top = s.top) (loc : List Nat) (o : Opnd) :
    resolveP s' loc o = resolveP s loc o := by
  cases o <;> simp only [resolveP, h]

theorem resolveAll_congr {s s' : State} (h : s'.top = s.top) (loc : List Nat) :
    ∀ l : List Opnd, resolveAll s' loc l = resolveAll s loc l
  | [] => rfl
  | o :: os => by
    simp only [resolveAll, resolveP_congr h, resolveAll_congr h loc os]

theorem kindOfInstr_congr {s s' : State} (h : s'.top = s.top) (loc : List Nat) (v : Val) (i : Instr) :
    kindOfInstr s' loc v i = kindOfInstr s loc v i := by
  cases i <;> simp only [kindOfInstr, resolveAll_congr h]

theorem elabOf_congr {s s' : State} {t : Template} {v : Val} {locs : List Nat} {rhs : Nat}
    (htop : s'.top = s.top) (hn : ∀ m, s'.nodeD m = s.nodeD m) (E : ElabOf s t v locs rhs) :
    ElabOf s' t v locs rhs where
  len := E.len
  kinds j i m hi hm := by
    rw [kindOfInstr_congr htop, hn m]
    exact E.kinds j i m hi hm
  ret := by
    rw [resolveP_congr htop]
    exact E.ret

/-! ## operands -/

theorem resolve_eq {s0 t t' : State} {lc j : Nat} {loc : List Nat} {o : Opnd} {c : Nat}
    (htop : t.top = s0.top) (hlen : loc.length = j) (ho : OpndOK s0 lc j o)
    (h : (resolveOpnd loc o).run.run t = (.ok c, t')) : t' = t ∧ resolveP t loc o = some c := by
  cases o with
  | outer k =>
    obtain ⟨r, hr, -⟩ := ho
    unfold resolveOpnd at h
    simp only at h
    rw [run_bind_get, htop, hr] at h
    obtain ⟨e1, e2⟩ := pure_ok_inv h
    refine ⟨e2, ?_⟩
    show t.top[k]? = some c
    rw [htop, hr, e1]
  | loc i =>
    have hi : i < loc.length := by rw [hlen]; exact ho
    have hc : loc[i]? = some loc[i] := List.getElem?_eq_getElem hi
    unfold resolveOpnd at h
    simp only [hc] at h
    obtain ⟨e1, e2⟩ := pure_ok_inv h
    refine ⟨e2, ?_⟩
    show loc[i]? = some c
    rw [hc, e1]
  | abs _ => exact ho.elim
  | slot _ => exact ho.elim

theorem mapM_resolve_eq {s0 t : State} {lc j : Nat} {loc : List Nat}
    (htop : t.top = s0.top) (hlen : loc.length = j) :
    ∀ (l : List Opnd) (r : List Nat) (t' : State), (∀ a, a ∈ l → OpndOK s0 lc j a) →
      (l.mapM (fun o => resolveOpnd loc o)).run.run t = (.ok r, t') →
      t' = t ∧ resolveAll t loc l = some r := by
  intro l
  induction l with
  | nil =>
    intro r t' _ h
    rw [List.mapM_nil] at h
    obtain ⟨e1, e2⟩ := pure_ok_inv h
    rw [e1]; exact ⟨e2, rfl⟩
  | cons a l ih =>
    intro r t' hl h
    rw [List.mapM_cons] at h
    obtain ⟨x, t1, h1, h2⟩ := bind_ok_inv h
    obtain ⟨et, hx⟩ := resolve_eq htop hlen (hl a (List.mem_cons_self ..)) h1
    rw [et] at h2
    obtain ⟨xs, t2, h3, h4⟩ := bind_ok_inv h2
    obtain ⟨et2, hxs⟩ := ih xs t2 (fun y hy => hl y (List.mem_cons_of_mem _ hy)) h3
    obtain ⟨e1, e2⟩ := pure_ok_inv h4
    rw [e1, e2]
    refine ⟨et2, ?_⟩
    simp only [resolveAll, hx, hxs]

/-! ## one instruction -/

/-- an instruction of an F1 closure pushes exactly one node, of the kind `kindOfInstr` prescribes -/
theorem elab_kind {env : Env} {s0 t t1 : State} {b lc j : Nat} {loc : List Nat} {i : Instr}
    {v : Val} {ro : Option Nat} (htop : t.top = s0.top) (hlen : loc.length = j)
    (hsc : t.currentScope = .bind b)
    (hi : InstrOK env s0 lc j i) (h : (elabInstrM env loc v i).run.run t = (.ok ro, t1)) :
    ∃ k, ro = some t.nodes.size ∧ kindOfInstr t loc v i = some k ∧ CN.Push k b t t1 := by
  cases i with
  | const w =>
    unfold elabInstrM at h
    simp only at h
    unfold elabInstr at h
    rw [run_bind_get] at h
    simp only [hsc] at h
    obtain ⟨n, h1, e⟩ := map_ok_inv h
    obtain ⟨en, C⟩ := CN.createNode_push h1
    exact ⟨.const w, by rw [e, en], rfl, C⟩
  | lhsConst =>
    unfold elabInstrM at h
    simp only at h
    unfold elabInstr at h
    rw [run_bind_get] at h
    simp only [hsc] at h
    obtain ⟨n, h1, e⟩ := map_ok_inv h
    obtain ⟨en, C⟩ := CN.createNode_push h1
    exact ⟨.const v, by rw [e, en], rfl, C⟩
  | map f args =>
    unfold elabInstrM at h
    simp only at h
    unfold elabInstr at h
    rw [run_bind_get] at h
    simp only [hsc] at h
    obtain ⟨as, t2, h1, h2⟩ := bind_ok_inv h
    obtain ⟨et, has⟩ := mapM_resolve_eq htop hlen args as t2 hi.2.2 h1
    rw [et] at h2
    obtain ⟨n, h3, e⟩ := map_ok_inv h2
    obtain ⟨en, C⟩ := CN.createNode_push h3
    refine ⟨.map f as, by rw [e, en], ?_, C⟩
    simp only [kindOfInstr, has, Option.map_some]
  | fold f init cs =>
    unfold elabInstrM at h
    simp only at h
    unfold elabInstr at h
    rw [run_bind_get] at h
    simp only [hsc] at h
    obtain ⟨as, t2, h1, h2⟩ := bind_ok_inv h
    obtain ⟨et, has⟩ := mapM_resolve_eq htop hlen cs as t2 hi h1
    rw [et] at h2
    split at h2
    · rename_i hemp
      obtain ⟨n, h3, e⟩ := map_ok_inv h2
      obtain ⟨en, C⟩ := CN.createNode_push h3
      refine ⟨.const init, by rw [e, en], ?_, C⟩
      simp only [kindOfInstr, has, Option.map_some, hemp, if_true]
    · rename_i hemp
      obtain ⟨n, h3, e⟩ := map_ok_inv h2
      obtain ⟨en, C⟩ := CN.createNode_push h3
      refine ⟨.fold f init as, by rw [e, en], ?_, C⟩
      simp only [kindOfInstr, has, Option.map_some, hemp]
      rfl
  | _ => exact hi.elim

/-! ## the second loop invariant -/

/-- the local list of `elabTemplate` is the list registered so far, and its nodes have the kinds template `tm` prescribes for lhs value `v` -/
structure LK (b : Nat) (br : BindRec) (s0 : State) (tm : Template) (v : Val) (j : Nat) (loc : List Nat)
    (t : State) : Prop where
  bind : t.binds[b]? = some { br with allNodesCreatedOnRhs := loc }
  top : t.top = s0.top
  len : loc.length = j
  lt : ∀ m, m ∈ loc → m < t.nodes.size
  kinds : ∀ j' i m, tm.instrs[j']? = some i → loc[j']? = some m →
    kindOfInstr t (loc.take j') v i = some (t.nodeD m).kind

/-- one iteration -/
theorem LK.step {b : Nat} {br : BindRec} {s0 t t1 : State} {tm : Template} {v : Val} {j : Nat} {loc : List Nat}
    {i : Instr} {k : Kind} (L : LK b br s0 tm v j loc t) (hj : tm.instrs[j]? = some i)
    (hk : kindOfInstr t loc v i = some k) (C : CN.Push k b t t1) :
    LK b br s0 tm v (j + 1) (loc ++ [t.nodes.size]) t1 := by
  refine ⟨?_, C.top.trans L.top, by rw [List.length_append, L.len]; rfl, ?_, ?_⟩
  · rw [C.binds, Array.getElem?_modify, if_pos rfl, L.bind]; rfl
  · intro m hm
    rw [C.size]
    rcases List.mem_append.1 hm with hm | hm
    · have := L.lt m hm; omega
    · rw [List.mem_singleton.1 hm]; omega
  · intro j' i' m hi' hm
    rw [kindOfInstr_congr C.top]
    rcases Nat.lt_or_ge j' loc.length with hlt | hge
    · rw [List.getElem?_append_left hlt] at hm
      have hml : m ∈ loc := List.mem_of_getElem? hm
      rw [List.take_append_of_le_length (Nat.le_of_lt hlt), C.nodeD_lt (L.lt m hml)]
      exact L.kinds j' i' m hi' hm
    · have hj' : j' = loc.length := by
        rcases Nat.lt_or_ge loc.length j' with h | h
        · rw [List.getElem?_eq_none (by rw [List.length_append, List.length_singleton]; omega)] at hm
          cases hm
        · omega
      subst hj'
      rw [List.getElem?_append_right (Nat.le_refl _), Nat.sub_self] at hm
      have hm' : t.nodes.size = m := by simpa using hm
      subst hm'
      rw [L.len, hj] at hi'
      cases hi'
      rw [List.take_left', C.nodeD_new]
      · exact hk
      · rfl

end C3e

end IncrVerif.Proofs.BindH
