import IncrVerif.Proofs.GateF5
/-!
# C06, combined fragment, part 6: the stamp frame `RR` (continued) — the necessity cascades (all outcomes), and the functions that reach `invalidateNode`, WHEN THEY RETURN

`POk R m`: the relation holds between the initial and the final state of every SUCCESSFUL run of `m`.  `invalidateNode` stamps `recomputedAt := now` on the dying node and clears
`valid` only at the end, so the frame `RR` holds for completed runs only (`POk.invalidateNode`, proved with the auxiliary relation `TT`: the node itself is excepted until `valid` is
cleared).
-/
open IncrVerif.Engine IncrVerif.Proofs IncrVerif.Proofs.Step
namespace IncrVerif.Proofs.GateF

set_option maxHeartbeats 600000 in
theorem PresR.necessary (ex : Nat → Prop) (env : Env) (fuel : Nat) :
    (∀ n, Step.Pres (RR ex) (becameNecessary env fuel n)) ∧
    (∀ c i p, Step.Pres (RR ex) (addParentWithoutAdjustingHeights env fuel c i p)) := by
  induction fuel with
  | zero =>
    constructor
    · intro n; unfold Engine.becameNecessary; qpres
    · intro c i p; unfold Engine.addParentWithoutAdjustingHeights; qpres
  | succ fuel ih =>
    constructor
    · intro n; unfold Engine.becameNecessary; qpres; all_goals exact ih.2 _ _ _
    · intro c i p; unfold Engine.addParentWithoutAdjustingHeights; qpres; all_goals exact ih.1 _
theorem PresR.becameNecessary (ex : Nat → Prop) (env fuel n) : Step.Pres (RR ex) (becameNecessary env fuel n) :=
  (PresR.necessary ex env fuel).1 n
r_leaf PresR.becameNecessary
theorem PresR.addParentWithoutAdjustingHeights (ex : Nat → Prop) (env fuel c i p) :
    Step.Pres (RR ex) (addParentWithoutAdjustingHeights env fuel c i p) := (PresR.necessary ex env fuel).2 c i p
r_leaf PresR.addParentWithoutAdjustingHeights

set_option maxHeartbeats 600000 in
theorem PresR.unnecessary (ex : Nat → Prop) (fuel : Nat) :
    (∀ n, Step.Pres (RR ex) (becameUnnecessary fuel n)) ∧ (∀ n, Step.Pres (RR ex) (checkIfUnnecessary fuel n)) ∧
    (∀ n, Step.Pres (RR ex) (removeChildren fuel n)) := by
  induction fuel with
  | zero =>
    refine ⟨?_, ?_, ?_⟩
    · intro n; unfold Engine.becameUnnecessary; qpres
    · intro n; unfold Engine.checkIfUnnecessary; qpres
    · intro n; unfold Engine.removeChildren; qpres
  | succ fuel ih =>
    refine ⟨?_, ?_, ?_⟩
    · intro n; unfold Engine.becameUnnecessary; qpres; all_goals exact ih.2.2 _
    · intro n; unfold Engine.checkIfUnnecessary; qpres; all_goals exact ih.1 _
    · intro n; unfold Engine.removeChildren; qpres; all_goals exact ih.2.1 _
theorem PresR.becameUnnecessary (ex : Nat → Prop) (fuel n) : Step.Pres (RR ex) (becameUnnecessary fuel n) :=
  (PresR.unnecessary ex fuel).1 n
r_leaf PresR.becameUnnecessary
theorem PresR.checkIfUnnecessary (ex : Nat → Prop) (fuel n) : Step.Pres (RR ex) (checkIfUnnecessary fuel n) :=
  (PresR.unnecessary ex fuel).2.1 n
r_leaf PresR.checkIfUnnecessary
theorem PresR.removeChildren (ex : Nat → Prop) (fuel n) : Step.Pres (RR ex) (removeChildren fuel n) :=
  (PresR.unnecessary ex fuel).2.2 n
r_leaf PresR.removeChildren


/-! ### expert API -/
theorem PresR.assertRunningIsChild (ex : Nat → Prop) (n name) : Step.Pres (RR ex) (assertRunningIsChild n name) := by
  unfold Engine.assertRunningIsChild; qpres
r_leaf PresR.assertRunningIsChild
theorem PresR.expertMakeStale (ex : Nat → Prop) (n) : Step.Pres (RR ex) (expertMakeStale n) := by
  unfold Engine.expertMakeStale; qpres
r_leaf PresR.expertMakeStale
theorem PresR.swapEdgeIndices (ex : Nat → Prop) (n c1 i1 c2 i2) : Step.Pres (RR ex) (swapEdgeIndices n c1 i1 c2 i2) := by
  unfold Engine.swapEdgeIndices; qpres
r_leaf PresR.swapEdgeIndices
theorem PresR.expertRemoveDependency (ex : Nat → Prop) (fuel n dep) : Step.Pres (RR ex) (expertRemoveDependency fuel n dep) := by
  unfold Engine.expertRemoveDependency; qpres
r_leaf PresR.expertRemoveDependency

/-! ### successful runs -/

structure POk {α} (R : State → State → Prop) (m : M α) : Prop where
  h : ∀ s a s', m.run.run s = (.ok a, s') → R s s'

theorem POk.of_pres {α} {R : State → State → Prop} {m : M α} (h : Step.Pres R m) : POk R m := ⟨fun s a s' e => h.h s (.ok a) s' e⟩

theorem POk.bind {α β} {R : State → State → Prop} [PreOrd R] {x : M α} {f : α → M β} (hx : POk R x) (hf : ∀ a, POk R (f a)) :
    POk R (x >>= f) := by
  constructor
  intro s b s' h
  obtain ⟨a, s1, h1, h2⟩ := bind_ok_inv h
  exact PreOrd.trans (hx.h s a s1 h1) ((hf a).h s1 b s' h2)

theorem POk.forIn {α β} {R : State → State → Prop} [PreOrd R] (l : List α) (init : β) (f : α → β → M (ForInStep β))
    (hf : ∀ a b, POk R (f a b)) : POk R (forIn l init f) := by
  induction l generalizing init with
  | nil => rw [List.forIn_nil]; exact POk.of_pres (Step.Pres.pure _)
  | cons a l ih =>
    rw [List.forIn_cons]
    refine POk.bind (hf a init) fun r => ?_
    cases r with
    | done b => exact POk.of_pres (Step.Pres.pure _)
    | yield b => exact ih b

syntax "okleaf" : tactic
macro_rules | `(tactic| okleaf) => `(tactic| fail "no ok leaf")

macro "okprim" : tactic => `(tactic| first
  | with_reducible apply Step.Pres.pure
  | with_reducible apply Step.Pres.get
  | with_reducible apply Step.Pres.panic
  | with_reducible apply Step.Pres.throw)

macro "okstep" : tactic => `(tactic| first
  | (refine POk.of_pres ?_; okprim)
  | with_reducible apply POk.bind
  | with_reducible apply POk.forIn
  | okleaf
  | (refine POk.of_pres ?_; qpres; done)
  | intro _ | split | dsimp only)

macro "okpres" : tactic => `(tactic| repeat (any_goals okstep))

macro "o_leaf " n:ident : command =>
  `(macro_rules | `(tactic| okleaf) => `(tactic| with_reducible apply $n))

/-! ### `invalidateNode` -/

/-- the frame with `n` excepted, and `n` invalid at the end -/
def TT (ex : Nat → Prop) (n : Nat) (s s' : State) : Prop := RR ex s s' ∧ (n < s.nodes.size → (s'.nodeD n).valid = false)

theorem TT.bind1 {α β} {ex : Nat → Prop} {n : Nat} {x : M α} {f : α → M β} (hx : POk (RR ex) x) (hf : ∀ a, POk (TT ex n) (f a)) :
    POk (TT ex n) (x >>= f) := by
  constructor
  intro s b s' h
  obtain ⟨a, s1, h1, h2⟩ := bind_ok_inv h
  have r1 := hx.h s a s1 h1
  obtain ⟨r2, k⟩ := (hf a).h s1 b s' h2
  exact ⟨PreOrd.trans r1 r2, fun hn => k (Nat.lt_of_lt_of_le hn r1.size)⟩

theorem TT.bind2 {α β} {ex : Nat → Prop} {n : Nat} {x : M α} {f : α → M β} (hx : POk (TT ex n) x) (hf : ∀ a, POk (RR ex) (f a)) :
    POk (TT ex n) (x >>= f) := by
  constructor
  intro s b s' h
  obtain ⟨a, s1, h1, h2⟩ := bind_ok_inv h
  obtain ⟨r1, k⟩ := hx.h s a s1 h1
  have r2 := (hf a).h s1 b s' h2
  exact ⟨PreOrd.trans r1 r2, fun hn => r2.inval n (k hn)⟩

theorem TT.kill (ex : Nat → Prop) (n : Nat) : POk (TT ex n) (modNode n fun x => { x with valid := false }) := by
  constructor
  intro s a s' h
  have r : RR ex s s' := (PresR.modNode ex n (fun x => { x with valid := false }) (fun _ => ⟨rfl, Or.inr rfl⟩)).h s _ s' h
  refine ⟨r, fun hn => ?_⟩
  rw [run_modNode] at h
  cases h
  rw [nodeD_modify, if_pos ⟨rfl, hn⟩]

set_option maxHeartbeats 1000000 in
theorem POk.invalidateNode (fuel : Nat) : ∀ (ex : Nat → Prop) (n : Nat), POk (RR ex) (invalidateNode fuel n) := by
  induction fuel with
  | zero => intro ex n; unfold Engine.invalidateNode; okpres
  | succ fuel ih =>
    intro ex n
    constructor
    intro s a s' h
    unfold Engine.invalidateNode at h
    obtain ⟨nd, hnd, h⟩ := bind_getNode_inv h
    by_cases hv : nd.valid = true
    · rw [if_neg (by simp [hv])] at h
      have hT : TT (fun m => ex m ∨ m = n) n s s' := by
        refine (?_ : POk (TT (fun m => ex m ∨ m = n) n) _).h s a s' h
        repeat (any_goals first
          | refine TT.bind2 (TT.kill _ _) ?_
          | refine TT.bind1 ?_ ?_
          | intro _ | split | dsimp only)
        all_goals okpres
        all_goals exact ih _ _
      obtain ⟨r, k⟩ := hT
      have hlt : n < s.nodes.size := by
        false_or_by_contra
        rename_i hge
        rw [Array.getElem?_eq_none (by omega)] at hnd
        cases hnd
      refine ⟨r.size, r.inval, fun m hm => ?_⟩
      by_cases hmn : m = n
      · subst hmn; exact Or.inr (k hlt)
      · exact r.stamp m (fun e => e.elim hm hmn)
    · rw [if_pos (by simp [hv])] at h
      obtain ⟨-, rfl⟩ := pure_ok_inv h
      exact PreOrd.refl _
o_leaf POk.invalidateNode

set_option maxHeartbeats 2000000 in
theorem POk.propagateInvalidity (ex : Nat → Prop) (fuel) : POk (RR ex) (propagateInvalidity fuel) := by
  induction fuel with
  | zero => unfold Engine.propagateInvalidity; okpres
  | succ fuel ih => unfold Engine.propagateInvalidity; okpres; all_goals exact ih
o_leaf POk.propagateInvalidity
set_option maxHeartbeats 2000000 in
theorem POk.stateAddParent (ex : Nat → Prop) (env fuel c i p) : POk (RR ex) (stateAddParent env fuel c i p) := by
  unfold Engine.stateAddParent; okpres
o_leaf POk.stateAddParent
set_option maxHeartbeats 2000000 in
theorem POk.changeChildBindRhs (ex : Nat → Prop) (env fuel m o nw i) :
    POk (RR ex) (changeChildBindRhs env fuel m o nw i) := by
  unfold Engine.changeChildBindRhs; okpres
o_leaf POk.changeChildBindRhs
set_option maxHeartbeats 2000000 in
theorem POk.expertAddDependency (ex : Nat → Prop) (env fuel n c cb) :
    POk (RR ex) (expertAddDependency env fuel n c cb) := by
  unfold Engine.expertAddDependency; okpres
o_leaf POk.expertAddDependency
set_option maxHeartbeats 2000000 in
theorem POk.expertInvalidate (ex : Nat → Prop) (fuel n) : POk (RR ex) (expertInvalidate fuel n) := by
  unfold Engine.expertInvalidate; okpres
o_leaf POk.expertInvalidate

end IncrVerif.Proofs.GateF
