import IncrVerif.Proofs.NestH19
import IncrVerif.Proofs.BindH80
/-!
# Nested binds (F2), part 4a: the invariant BETWEEN API actions, and the fragment of actions

`QInv2 env rk s` is `BindH.QInv1` for graphs with nested binds (ghost rank `rk`); `QI2 env s := ∃ rk, QInv2 env rk s`.
-/
namespace IncrVerif.Proofs.NestH
open IncrVerif.Engine IncrVerif.Proofs IncrVerif.Proofs.Step IncrVerif.Proofs.Sched IncrVerif.Proofs.Quiet
open IncrVerif.Proofs.BindH

structure QInv2 (env : Env) (rk : Nat → Nat) (s : State) : Prop where
  struct : Struct2 env rk s
  f2 : F2Inv env rk s
  vars : VarsOK s
  obs : ObsOK s
  /-- observers watch top-level nodes that are not change detectors -/
  obsTop : ∀ (o : Nat) (ob : ObsRec), s.observers[o]? = some ob →
    (s.nodeD ob.node).createdIn = .top ∧ ∀ b, (s.nodeD ob.node).kind ≠ .bindLhsChange b
  now : 0 ≤ s.stabNum
  stamps : ∀ m, (s.nodeD m).recomputedAt < s.stabNum ∧ (s.nodeD m).changedAt < s.stabNum
  varStamp : ∀ (c : Nat) (vc : VarCell), s.vars[c]? = some vc → vc.setAt ≤ s.stabNum
  cons : ∀ m, m < s.nodes.size → (s.nodeD m).valid = true → s.isStale m = false → ConsistentB env s m
  status : s.status = .notStabilising
  alive : s.alive = true
  setDuringStab : s.setDuringStab = []
  deadVars : s.deadVars = []
  handleAfterStab : s.handleAfterStab = []

/-- the invariant between API actions -/
def QI2 (env : Env) (s : State) : Prop := ∃ rk, QInv2 env rk s

/-! ## the fragment of programs -/

/-- instructions of closures of fragment F2: those of F1 and `bind body' o` with a fine inner body (`P body'`) -/
def InstrF2 (env : Env) (P : Nat → Prop) (T nloc : Nat) : Instr → Prop
  | .bind body' o => P body' ∧ OpndF1 T nloc o
  | i => InstrF1 env T nloc i

/-- the closure `body` may be used by a bind created when the naming table had `T` entries: for every input value its template consists of `const`/`lhsConst`/
pure `map`/`fold`/`bind body' o` instructions over top-level nodes `n0 … n(T-1)` and earlier locals, and returns one of these; the nested bodies likewise
(with one unit of fuel less: the nesting is well-founded, e.g. `body' < body`) -/
def BodyF2 (env : Env) (T : Nat) : Nat → Nat → Prop
  | 0, _ => False
  | f+1, body => ∀ v : Val, (∀ j i, (env.body body v).instrs[j]? = some i → InstrF2 env (BodyF2 env T f) T j i) ∧
      OpndF1 T (env.body body v).instrs.length (env.body body v).ret

/-- top-level creation instructions of the fragment, when the naming table has `T` entries -/
def InstrTop2 (env : Env) (T : Nat) : Instr → Prop
  | .bind body lhs => (∃ k, lhs = .outer k) ∧ ∃ f, BodyF2 env T f body
  | i => StaticInstr env i

/-- the API actions of the fragment, when the naming table has `T` entries -/
def ActionF2 (env : Env) (T : Nat) : Action → Prop
  | .create i => InstrTop2 env T i
  | .observe n => Quiet.OpndOK n
  | .cloneObs _ | .dropObs _ | .disallow _ => True
  | .set _ _ | .modify _ _ | .update _ _ | .replace _ _ | .replaceWith _ _ | .get _ => True
  | .stabilise | .isStable | .stats => True
  | _ => False

/-- a nesting of closures in which inner bodies have smaller indices is well-founded: fuel `body + 1` suffices -/
theorem BodyF2.mono_fuel {env : Env} {T : Nat} : ∀ (f g body : Nat), f ≤ g → BodyF2 env T f body → BodyF2 env T g body := by
  intro f
  induction f with
  | zero => intro g body _ h; exact h.elim
  | succ f ih =>
    intro g body hfg h
    cases g with
    | zero => omega
    | succ g =>
      intro v
      obtain ⟨h1, h2⟩ := h v
      refine ⟨?_, h2⟩
      intro j i hj
      have := h1 j i hj
      cases i <;> first | exact this | skip
      exact ⟨ih g _ (by omega) this.1, this.2⟩

/-- a closure body that is fine for a table with `T` entries is fine for the state: the template condition of `F2Inv.closures` -/
theorem bodyOK2_of_body {env : Env} {rk : Nat → Nat} {s : State} {T lc : Nat} (hT : T ≤ s.top.size)
    (htop : ∀ (k r : Nat), k < T → s.top[k]? = some r → rk r < rk lc) :
    ∀ (f body : Nat), BodyF2 env T f body → BodyOK2 env rk s lc f body := by
  have hop : ∀ nloc o, OpndF1 T nloc o → OpndOK2 rk s lc nloc o := by
    intro nloc o ho
    cases o with
    | outer k =>
      have hk : k < s.top.size := Nat.lt_of_lt_of_le ho hT
      exact ⟨s.top[k], by rw [Array.getElem?_eq_getElem hk], htop k _ ho (by rw [Array.getElem?_eq_getElem hk])⟩
    | loc j => exact ho
    | abs _ => exact ho.elim
    | slot _ => exact ho.elim
  intro f
  induction f with
  | zero => intro body h; exact h.elim
  | succ f ih =>
    intro body hB v
    obtain ⟨h1, h2⟩ := hB v
    refine ⟨?_, hop _ _ h2⟩
    intro j i hj
    have := h1 j i hj
    cases i <;> first | exact this | exact this.elim | skip
    · exact ⟨this.1, this.2.1, fun a ha => hop _ _ (this.2.2 a ha)⟩
    · exact fun a ha => hop _ _ (this a ha)
    · exact ⟨ih _ this.1, hop _ _ this.2⟩

end IncrVerif.Proofs.NestH
