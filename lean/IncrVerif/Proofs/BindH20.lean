import IncrVerif.Proofs.BindH19
/-!
# Binds, linking cascade, part 1: what `GInvB` reads of a state; the pure step lemmas `addEdge_*`, `setHeight_open`

Port of the `GInv`-dependent parts of `Quiet2/3` and the first half of `Quiet4`.
-/
namespace IncrVerif.Proofs.BindH
open IncrVerif.Engine IncrVerif.Proofs IncrVerif.Proofs.Step IncrVerif.Proofs.Sched IncrVerif.Proofs.Quiet

namespace BL

theorem isStale_default (s : State) (n : Nat) (h : s.nodes.size ≤ n) : s.isStale n = true := by
  unfold State.isStale
  rw [nodeD_default s n h]
  rfl

/-- the two states agree on what the fragment, the child lists and staleness read -/
structure KeyEq (s s' : State) : Prop where
  size : s'.nodes.size = s.nodes.size
  binds : s'.binds = s.binds
  vars : s'.vars = s.vars
  valid : ∀ m, (s'.nodeD m).valid = (s.nodeD m).valid
  kind : ∀ m, (s'.nodeD m).kind = (s.nodeD m).kind
  cutoff : ∀ m, (s'.nodeD m).cutoff = (s.nodeD m).cutoff
  createdIn : ∀ m, (s'.nodeD m).createdIn = (s.nodeD m).createdIn
  recomputedAt : ∀ m, (s'.nodeD m).recomputedAt = (s.nodeD m).recomputedAt
  changedAt : ∀ m, (s'.nodeD m).changedAt = (s.nodeD m).changedAt

namespace KeyEq
variable {env : Env} {s s' : State}

theorem children (E : KeyEq s s') (A : AllB env s) (m : Nat) : s'.children m = s.children m := by
  by_cases hm : m < s.nodes.size
  · exact children_congr_B (E.kind m) (E.valid m) E.binds (A.node m hm).kind
  · rw [children_default s m (by omega), children_default s' m (by rw [E.size]; omega)]

theorem isStale (E : KeyEq s s') (A : AllB env s) (m : Nat) : s'.isStale m = s.isStale m := by
  by_cases hm : m < s.nodes.size
  · exact isStale_congr_B (A.node m hm).kind (E.kind m) (E.valid m) (E.recomputedAt m) E.vars E.binds
      (fun c _ => E.changedAt c)
  · rw [isStale_default s m (by omega), isStale_default s' m (by rw [E.size]; omega)]

theorem frag (E : KeyEq s s') (A : AllB env s) (hpc : s'.panicCountdown = none)
    (hsc : s'.currentScope = .top) : AllB env s' := by
  refine ⟨hpc, hsc, fun n hn => ?_⟩
  have sn := A.node n (by rw [← E.size]; exact hn)
  refine ⟨by rw [E.valid]; exact sn.valid, by rw [E.kind]; exact sn.kind, by rw [E.cutoff]; exact sn.cutoff,
    by rw [E.createdIn]; exact sn.top, ?_, ?_, ?_, ?_⟩
  · rw [E.children A]; exact sn.kidsLt
  · rw [E.kind, E.binds]; exact sn.lcRec
  · rw [E.kind, E.binds]; exact sn.mainRec
  · intro c b hc hk
    rw [E.children A] at hc
    rw [E.kind] at hk ⊢
    exact sn.lcChild c b hc hk

theorem of_upd {n : Nat} {f : Node → Node} (U : NodeUpd n f s s') (K : KeepsG f) (hb : s'.binds = s.binds) :
    KeyEq s s' :=
  ⟨U.size, hb, U.vars, U.valid K, U.kind K, U.cutoff K, U.createdIn K, U.recomputedAt K, U.changedAt K⟩

theorem of_same (h : SameB s s') : KeyEq s s' :=
  ⟨h.g.size, h.binds, h.g.vars, fun m => (h.g.node m).valid, fun m => (h.g.node m).kind,
    fun m => (h.g.node m).cutoff, fun m => (h.g.node m).createdIn, fun m => (h.g.node m).recomputedAt,
    fun m => (h.g.node m).changedAt⟩

end KeyEq

theorem CFrame.binds {s s' : State} (h : CFrame s s') : s'.binds = s.binds := by
  have := h.key; simp only [stateKey, Prod.mk.injEq] at this; exact this.2.2.2.2.2.2.2.2.2.2.2.2.2.2.2.2.1

theorem CFrame.vars {s s' : State} (h : CFrame s s') : s'.vars = s.vars := by
  have := h.key; simp only [stateKey, Prod.mk.injEq] at this; exact this.1

theorem CFrame.scope {s s' : State} (h : CFrame s s') : s'.currentScope = s.currentScope := by
  have := h.key; simp only [stateKey, Prod.mk.injEq] at this; exact this.2.2.2.2.2.1

theorem KeyEq.of_cframe {s s' : State} (h : CFrame s s') : KeyEq s s' := by
  have hn : ∀ m, _ := fun m => by have := h.node m; simp only [nodeKey, Prod.mk.injEq] at this; exact this
  exact ⟨h.size, CFrame.binds h, CFrame.vars h, fun m => (hn m).2.2.2.2.1, fun m => (hn m).1,
    fun m => (hn m).2.2.1, fun m => (hn m).2.1, fun m => (hn m).2.2.2.2.2.1, fun m => (hn m).2.2.2.2.2.2.1⟩

/-! ## congruence -/

theorem GInvB.congr {env : Env} {s s' : State} {op : Nat → Op} {ex : Nat → Prop} (I : GInvB env s op ex)
    (hB : SameB s s') : GInvB env s' op ex := by
  have h := hB.g
  have E := KeyEq.of_same hB
  exact {
    frag := E.frag I.frag (by rw [h.pc]; exact I.frag.pc) (by rw [h.scope]; exact I.frag.scope)
    par := fun c p i hm => by
      rw [(h.node c).parents] at hm
      rw [E.children I.frag, h.wants]
      exact I.par c p i hm
    conv := fun p i c hk hw => by
      rw [E.children I.frag] at hk
      rw [h.wants] at hw
      rw [(h.node c).parents]
      exact I.conv p i c hk hw
    nodup := fun c => by rw [(h.node c).parents]; exact I.nodup c
    hlt := fun c p i hm ho => by
      rw [(h.node c).parents] at hm
      rw [(h.node c).height, (h.node p).height]
      exact I.hlt c p i hm ho
    hpos := fun n hn ho => by
      rw [h.nec] at hn
      rw [(h.node n).height]; exact I.hpos n hn ho
    lnec := fun p k ho => by rw [h.nec]; exact I.lnec p k ho
    unec := fun p k ho => by rw [h.nec]; exact I.unec p k ho
    heap := I.heap.congr h.rch h.size (fun m => (h.node m).heightInRch)
    hgt := fun m hq ho => by
      rw [h.inRch] at hq
      rw [(h.node m).heightInRch, (h.node m).height]; exact I.hgt m hq ho
    qnec := fun m hq => by
      rw [h.inRch] at hq
      rw [h.nec]; exact I.qnec m hq
    queued := fun m ho hn hs hx => by
      rw [h.nec] at hn
      rw [E.isStale I.frag] at hs
      rw [h.inRch]; exact I.queued m ho hn hs hx
    qstale := fun m hq => by
      rw [h.inRch] at hq
      rw [E.isStale I.frag]; exact I.qstale m hq
    opLt := fun m ho => by rw [h.size]; exact I.opLt m ho }

/-- an unnecessary closed node is not queued -/
theorem GInvB.not_queued_of_not_nec {env : Env} {s : State} {op : Nat → Op} {ex : Nat → Prop}
    (I : GInvB env s op ex) {c : Nat}
    (hc : s.isNecessary c = false) (hcl : op c = .closed) : (s.nodeD c).inRch = false := by
  cases h : (s.nodeD c).inRch
  · rfl
  · rcases I.qnec c h with h1 | ⟨k, h1⟩
    · rw [hc] at h1; cases h1
    · rw [hcl] at h1; cases h1

section
variable {env : Env} {s s' : State} {op : Nat → Op} {ex : Nat → Prop}

/-! ## linking -/

/-- `addParent c idx p` where `c` is already necessary (and closed) -/
theorem GInvB.addEdge_nec {c p idx : Nat} (I : GInvB env s op ex)
    (U : NodeUpd c (fParents ((s.nodeD c).parents ++ [(p, idx)])) s s') (hb : s'.binds = s.binds)
    (hop : op p = .linking idx) (hk : (s.children p)[idx]? = some c)
    (hc : s.isNecessary c = true) (_hcl : op c = .closed) :
    GInvB env s' (upd op p (.linking (idx + 1))) ex := by
  have K := keeps_fParents ((s.nodeD c).parents ++ [(p, idx)])
  have E := KeyEq.of_upd U K hb
  have hcp : c < p := I.kid_lt hk
  have hne : c ≠ p := by omega
  have hpc : (s'.nodeD c).parents = (s.nodeD c).parents ++ [(p, idx)] := U.parents_self
  have hht : ∀ m, (s'.nodeD m).height = (s.nodeD m).height := fun m => by
    by_cases h : m = c
    · rw [h]; exact U.height_self
    · exact U.height_other h
  have hmem : ∀ m x, x ∈ (s'.nodeD m).parents ↔ (x ∈ (s.nodeD m).parents ∨ (m = c ∧ x = (p, idx))) := by
    intro m x
    by_cases h : m = c
    · rw [h, hpc, List.mem_append, List.mem_singleton]; simp
    · rw [U.parents_other h]; simp [h]
  have hnec : ∀ m, s'.isNecessary m = s.isNecessary m := fun m => by
    by_cases h : m = c
    · rw [h, hc]; exact nec_of_mem_parents (x := (p, idx)) ((hmem c _).2 (Or.inr ⟨rfl, rfl⟩))
    · exact U.nec_other h
  have hcl' : ∀ m, upd op p (.linking (idx + 1)) m = .closed → m ≠ p ∧ op m = .closed :=
    fun m h => upd_closed_inv (Op.linking_ne_closed _) h
  have hw : ∀ q i, Wants s' (upd op p (.linking (idx + 1))) q i ↔ (Wants s op q i ∨ (q = p ∧ i = idx)) := by
    intro q i
    by_cases h : q = p
    · rw [h, wants_linking (upd_self ..), wants_linking hop]
      constructor
      · intro h1
        by_cases h2 : i = idx
        · exact Or.inr ⟨rfl, h2⟩
        · exact Or.inl (by omega)
      · rintro (h1 | ⟨-, h1⟩) <;> omega
    · unfold Wants
      rw [upd_other _ _ _ h, hnec]
      simp [h]
  refine { frag := E.frag I.frag (by rw [U.pc]; exact I.frag.pc) (by rw [U.scope]; exact I.frag.scope),
           par := ?_, conv := ?_, nodup := ?_, hlt := ?_, hpos := ?_,
           lnec := ?_, unec := ?_, heap := U.heap K I.heap, hgt := ?_, qnec := ?_, queued := ?_,
           qstale := ?_, opLt := ?_ }
  · intro c' q i hm
    rw [E.children I.frag, hw]
    rcases (hmem _ _).1 hm with h | ⟨h1, h2⟩
    · exact ⟨(I.par c' q i h).1, Or.inl (I.par c' q i h).2⟩
    · cases h2; rw [h1]; exact ⟨hk, Or.inr ⟨rfl, rfl⟩⟩
  · intro q i c' hk' hw'
    rw [E.children I.frag] at hk'
    rw [hmem]
    rcases (hw q i).1 hw' with h | ⟨h1, h2⟩
    · exact Or.inl (I.conv q i c' hk' h)
    · rw [h1, h2, hk] at hk'; cases hk'; exact Or.inr ⟨rfl, by rw [h1, h2]⟩
  · intro m
    by_cases h : m = c
    · rw [h, hpc, List.nodup_append]
      refine ⟨I.nodup c, by simp, ?_⟩
      intro a ha b hb
      rw [List.mem_singleton] at hb
      rw [hb]; intro e; rw [e] at ha
      have := (wants_linking hop).1 (I.par c p idx ha).2
      omega
    · rw [U.parents_other h]; exact I.nodup m
  · intro c' q i hm ho
    obtain ⟨h1, h2⟩ := hcl' q ho
    rw [hht, hht]
    rcases (hmem _ _).1 hm with h | ⟨-, h3⟩
    · exact I.hlt c' q i h h2
    · cases h3; exact absurd rfl h1
  · intro m hn ho
    rw [hnec] at hn
    rw [hht]; exact I.hpos m hn (hcl' m ho).2
  · intro q k ho
    rw [hnec]
    by_cases h : q = p
    · rw [h]; exact I.lnec p idx hop
    · rw [upd_other _ _ _ h] at ho; exact I.lnec q k ho
  · intro q k ho
    rw [hnec]
    by_cases h : q = p
    · rw [h, upd_self] at ho; cases ho
    · rw [upd_other _ _ _ h] at ho; exact I.unec q k ho
  · intro m hq ho
    rw [U.inRch K] at hq
    rw [U.heightInRch K, hht]; exact I.hgt m hq (hcl' m ho).2
  · intro m hq
    rw [U.inRch K] at hq
    rw [hnec]
    rcases I.qnec m hq with h | ⟨k, h⟩
    · exact Or.inl h
    · refine Or.inr ⟨k, ?_⟩
      have : m ≠ p := by intro e; rw [e, hop] at h; cases h
      rw [upd_other _ _ _ this]; exact h
  · intro m ho hn hs hx
    rw [hnec] at hn
    rw [E.isStale I.frag] at hs
    rw [U.inRch K]; exact I.queued m (hcl' m ho).2 hn hs hx
  · intro m hq
    rw [U.inRch K] at hq
    rw [E.isStale I.frag]; exact I.qstale m hq
  · intro m ho
    rw [U.size]
    by_cases h : m = p
    · rw [h]; exact I.opLt p (by rw [hop]; exact Op.linking_ne_closed _)
    · rw [upd_other _ _ _ h] at ho; exact I.opLt m ho

/-- `addParent c idx p` where `c` was unnecessary (and closed): `c` is now open with no edge recorded, and it is
not queued -/
theorem GInvB.addEdge_open {c p idx : Nat} (I : GInvB env s op ex)
    (U : NodeUpd c (fParents ((s.nodeD c).parents ++ [(p, idx)])) s s') (hb : s'.binds = s.binds)
    (hop : op p = .linking idx) (hk : (s.children p)[idx]? = some c)
    (hc : s.isNecessary c = false) (hcl : op c = .closed) :
    GInvB env s' (upd (upd op p (.linking (idx + 1))) c (.linking 0)) ex ∧
      (s'.nodeD c).parents = [(p, idx)] ∧ (s'.nodeD c).inRch = false := by
  have K := keeps_fParents ((s.nodeD c).parents ++ [(p, idx)])
  have E := KeyEq.of_upd U K hb
  have hcp : c < p := I.kid_lt hk
  have hne : c ≠ p := by omega
  have hpar0 : (s.nodeD c).parents = [] := parents_nil_of_not_nec hc
  have hpc : (s'.nodeD c).parents = [(p, idx)] := by rw [U.parents_self]; simp [fParents, hpar0]
  have hcq : (s.nodeD c).inRch = false := GInvB.not_queued_of_not_nec I hc hcl
  refine ⟨?_, hpc, by rw [U.inRch K]; exact hcq⟩
  have hht : ∀ m, (s'.nodeD m).height = (s.nodeD m).height := fun m => by
    by_cases h : m = c
    · rw [h]; exact U.height_self
    · exact U.height_other h
  have hmem : ∀ m x, x ∈ (s'.nodeD m).parents ↔ (x ∈ (s.nodeD m).parents ∨ (m = c ∧ x = (p, idx))) := by
    intro m x
    by_cases h : m = c
    · rw [h, hpc, hpar0, List.mem_singleton]; simp
    · rw [U.parents_other h]; simp [h]
  have hnec : ∀ m, m ≠ c → s'.isNecessary m = s.isNecessary m := fun m h => U.nec_other h
  have hnecc : s'.isNecessary c = true :=
    nec_of_mem_parents (x := (p, idx)) ((hmem c _).2 (Or.inr ⟨rfl, rfl⟩))
  have hopc : upd (upd op p (.linking (idx + 1))) c (.linking 0) c = .linking 0 := upd_self ..
  have hopp : upd (upd op p (.linking (idx + 1))) c (.linking 0) p = .linking (idx + 1) := by
    rw [upd_other _ _ _ (Ne.symm hne), upd_self]
  have hopo : ∀ m, m ≠ c → m ≠ p → upd (upd op p (.linking (idx + 1))) c (.linking 0) m = op m := by
    intro m h1 h2; rw [upd_other _ _ _ h1, upd_other _ _ _ h2]
  have hcl' : ∀ m, upd (upd op p (.linking (idx + 1))) c (.linking 0) m = .closed →
      m ≠ c ∧ m ≠ p ∧ op m = .closed := by
    intro m h
    obtain ⟨h1, h2⟩ := upd_closed_inv (Op.linking_ne_closed _) h
    obtain ⟨h3, h4⟩ := upd_closed_inv (Op.linking_ne_closed _) h2
    exact ⟨h1, h3, h4⟩
  have hw : ∀ q i, Wants s' (upd (upd op p (.linking (idx + 1))) c (.linking 0)) q i ↔
      (Wants s op q i ∨ (q = p ∧ i = idx)) := by
    intro q i
    by_cases h : q = p
    · rw [h, wants_linking hopp, wants_linking hop]
      constructor
      · intro h1
        by_cases h2 : i = idx
        · exact Or.inr ⟨rfl, h2⟩
        · exact Or.inl (by omega)
      · rintro (h1 | ⟨-, h1⟩) <;> omega
    · by_cases h' : q = c
      · rw [h', wants_linking hopc, wants_closed hcl, hc]; simp [hne]
      · unfold Wants
        rw [hopo q h' h, hnec q h']
        simp [h]
  refine { frag := E.frag I.frag (by rw [U.pc]; exact I.frag.pc) (by rw [U.scope]; exact I.frag.scope),
           par := ?_, conv := ?_, nodup := ?_, hlt := ?_, hpos := ?_,
           lnec := ?_, unec := ?_, heap := U.heap K I.heap, hgt := ?_, qnec := ?_, queued := ?_,
           qstale := ?_, opLt := ?_ }
  · intro c' q i hm
    rw [E.children I.frag, hw]
    rcases (hmem _ _).1 hm with h | ⟨h1, h2⟩
    · exact ⟨(I.par c' q i h).1, Or.inl (I.par c' q i h).2⟩
    · cases h2; rw [h1]; exact ⟨hk, Or.inr ⟨rfl, rfl⟩⟩
  · intro q i c' hk' hw'
    rw [E.children I.frag] at hk'
    rw [hmem]
    rcases (hw q i).1 hw' with h | ⟨h1, h2⟩
    · exact Or.inl (I.conv q i c' hk' h)
    · rw [h1, h2, hk] at hk'; cases hk'; exact Or.inr ⟨rfl, by rw [h1, h2]⟩
  · intro m
    by_cases h : m = c
    · rw [h, hpc]; simp
    · rw [U.parents_other h]; exact I.nodup m
  · intro c' q i hm ho
    obtain ⟨-, h1, h2⟩ := hcl' q ho
    rw [hht, hht]
    rcases (hmem _ _).1 hm with h | ⟨-, h3⟩
    · exact I.hlt c' q i h h2
    · cases h3; exact absurd rfl h1
  · intro m hn ho
    obtain ⟨h1, -, h2⟩ := hcl' m ho
    rw [hnec m h1] at hn
    rw [hht]; exact I.hpos m hn h2
  · intro q k ho
    by_cases h' : q = c
    · rw [h']; exact hnecc
    · rw [hnec q h']
      by_cases h : q = p
      · rw [h]; exact I.lnec p idx hop
      · rw [hopo q h' h] at ho; exact I.lnec q k ho
  · intro q k ho
    by_cases h' : q = c
    · rw [h', hopc] at ho; cases ho
    · rw [hnec q h']
      by_cases h : q = p
      · rw [h, hopp] at ho; cases ho
      · rw [hopo q h' h] at ho; exact I.unec q k ho
  · intro m hq ho
    rw [U.inRch K] at hq
    rw [U.heightInRch K, hht]; exact I.hgt m hq (hcl' m ho).2.2
  · intro m hq
    rw [U.inRch K] at hq
    have h' : m ≠ c := by intro e; rw [e, hcq] at hq; cases hq
    rw [hnec m h']
    rcases I.qnec m hq with h | ⟨k, h⟩
    · exact Or.inl h
    · refine Or.inr ⟨k, ?_⟩
      have : m ≠ p := by intro e; rw [e, hop] at h; cases h
      rw [hopo m h' this]; exact h
  · intro m ho hn hs hx
    obtain ⟨h1, -, h2⟩ := hcl' m ho
    rw [hnec m h1] at hn
    rw [E.isStale I.frag] at hs
    rw [U.inRch K]; exact I.queued m h2 hn hs hx
  · intro m hq
    rw [U.inRch K] at hq
    rw [E.isStale I.frag]; exact I.qstale m hq
  · intro m ho
    rw [U.size]
    by_cases h' : m = c
    · rw [h']; exact U.lt
    · by_cases h : m = p
      · rw [h]; exact I.opLt p (by rw [hop]; exact Op.linking_ne_closed _)
      · rw [hopo m h' h] at ho; exact I.opLt m ho

/-- the height of an open node whose parents are all open is not constrained -/
theorem GInvB.setHeight_open {n : Nat} {h : Int} (I : GInvB env s op ex) (U : NodeUpd n (fHeight h) s s')
    (hb : s'.binds = s.binds)
    (hop : op n ≠ .closed) (hpar : ∀ p i, (p, i) ∈ (s.nodeD n).parents → op p ≠ .closed) :
    GInvB env s' op ex := by
  have K := keeps_fHeight h
  have E := KeyEq.of_upd U K hb
  have hpa : ∀ m, (s'.nodeD m).parents = (s.nodeD m).parents := fun m => by
    by_cases e : m = n
    · rw [e]; exact U.parents_self
    · exact U.parents_other e
  have hnec : ∀ m, s'.isNecessary m = s.isNecessary m := fun m => by
    by_cases e : m = n
    · rw [e]
      simp only [State.isNecessary, Node.isNecessary, U.self.parents, U.self.observers, U.self.forceNecessary]
      rfl
    · exact U.nec_other e
  have hw : ∀ q i, Wants s' op q i ↔ Wants s op q i := fun q i => by unfold Wants; rw [hnec]
  have hcn : ∀ m, op m = .closed → m ≠ n := fun m ho e => hop (e ▸ ho)
  refine { frag := E.frag I.frag (by rw [U.pc]; exact I.frag.pc) (by rw [U.scope]; exact I.frag.scope),
           par := ?_, conv := ?_, nodup := ?_, hlt := ?_, hpos := ?_,
           lnec := ?_, unec := ?_, heap := U.heap K I.heap, hgt := ?_, qnec := ?_, queued := ?_,
           qstale := ?_, opLt := ?_ }
  · intro c q i hm
    rw [hpa] at hm
    rw [E.children I.frag, hw]; exact I.par c q i hm
  · intro q i c hk hw'
    rw [E.children I.frag] at hk
    rw [hw] at hw'
    rw [hpa]; exact I.conv q i c hk hw'
  · intro m; rw [hpa]; exact I.nodup m
  · intro c q i hm ho
    rw [hpa] at hm
    have h1 : c ≠ n := by intro e; rw [e] at hm; exact hpar q i hm ho
    rw [U.height_other h1, U.height_other (hcn q ho)]
    exact I.hlt c q i hm ho
  · intro m hn ho
    rw [hnec] at hn
    rw [U.height_other (hcn m ho)]; exact I.hpos m hn ho
  · intro q k ho
    rw [hnec]; exact I.lnec q k ho
  · intro q k ho
    rw [hnec]; exact I.unec q k ho
  · intro m hq ho
    rw [U.inRch K] at hq
    rw [U.heightInRch K, U.height_other (hcn m ho)]; exact I.hgt m hq ho
  · intro m hq
    rw [U.inRch K] at hq
    rw [hnec]; exact I.qnec m hq
  · intro m ho hn hs hx
    rw [hnec] at hn
    rw [E.isStale I.frag] at hs
    rw [U.inRch K]; exact I.queued m ho hn hs hx
  · intro m hq
    rw [U.inRch K] at hq
    rw [E.isStale I.frag]; exact I.qstale m hq
  · intro m ho
    rw [U.size]; exact I.opLt m ho

end

end BL

end IncrVerif.Proofs.BindH
