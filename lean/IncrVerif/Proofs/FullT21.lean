import IncrVerif.Proofs.FullT16
import IncrVerif.Proofs.FullT7
import IncrVerif.Proofs.FullH61
/-!
# C04 combined fragment: THE DRAIN RETURNS — from the contract `StepTotF` ("one `recomputeOne` on the current node returns if the state it ends in has room")

Mirror of `NestH.T2g.recompute_totG` / `drainHeap_totG` (Proofs/NestH101): the potential is `unrun (virt g s) + (M - size)`, `M` = the node count of the final state;
the invariants are the drain invariant `DInvF` of the combined fragment, the carried invariant `PInv` of the bisimulation, and the totality invariant `NestH.DT` of the VIRTUAL state.
-/
namespace IncrVerif.Proofs.FullT
open IncrVerif.Engine IncrVerif.Driver IncrVerif.Proofs IncrVerif.Proofs.Step IncrVerif.Proofs.Sched IncrVerif.Proofs.Quiet IncrVerif.Proofs.FullH
open IncrVerif.Proofs.BindH (DInv BGraph StepRelB TargetB FrameB)
open IncrVerif.Proofs.NestH (AuxS2 Aux2 GenOK2 F2Inv DT HBo2 RhsRan Lim cnt TotIf HasRoomG)

/-- the invariants carried through the actual drain -/
structure DF (env : Env) (sp : Nat → Val → Val) (N : Nat) (t s : State) (g : Nat → Option Val) (x : Option Nat) : Prop where
  d : DInvF env sp t s g x
  p : PInv s
  t : DT (VE env sp) N (virt g s)

/-- CONTRACT: one `recomputeOne` of the actual drain, whatever its outcome, returned if the state it ends in has room (at most `N` nodes, `need size ≤ fuel`);
the invariants hold again (for new ghost values) -/
def StepTotF (need : Nat → Nat) (env : Env) (sp : Nat → Val → Val) (N : Nat) : Prop :=
  ∀ (fuel n : Nat) (t s : State) (g : Nat → Option Val), DF env sp N t s g (some n) →
    ∀ (r1 : Except Panic (Option Nat)) (s1 : State), (recomputeOne env fuel n).run.run s = (r1, s1) → s1.nodes.size ≤ N → need s1.nodes.size ≤ fuel →
      ∃ r, r1 = .ok r ∧ ∃ g', DF env sp N t s1 g' r ∧ FrameB (virt g s) (virt g' s1) ∧ ((virt g' s1).nodeD n).recomputedAt = s.stabNum

section
variable {env : Env} {sp : Nat → Val → Val} {N : Nat}

theorem cur_lt {t s : State} {g : Nat → Option Val} {n : Nat} (D : DInvF env sp t s g (some n)) : n < s.nodes.size := by
  have := D.inv.cur_facts.2.1; rwa [virt_size] at this

theorem recomputeOne_sizeF {t s s' : State} {g : Nat → Option Val} {fuel n : Nat} {r : Except Panic (Option Nat)}
    (D : DInvF env sp t s g (some n)) (h : (recomputeOne env fuel n).run.run s = (r, s')) : s.nodes.size ≤ s'.nodes.size :=
  (recomputeOne_stamp env fuel n s s' _ r (some_of_lt (cur_lt D)) h).2.2.2

theorem recompute_sizeF (E : EnvS env sp) (hF : FirstFn env) : ∀ (fuel n : Nat) (t s s' : State) (g : Nat → Option Val) (r : Except Panic Unit),
    DInvF env sp t s g (some n) → (recompute env fuel n).run.run s = (r, s') → s.nodes.size ≤ s'.nodes.size := by
  intro fuel
  induction fuel with
  | zero =>
    intro n t s s' g r _ h
    unfold recompute at h
    rw [run_throw] at h
    cases h
    exact Nat.le_refl _
  | succ fuel ih =>
    intro n t s s' g r D h
    unfold recompute at h
    rcases h1 : (recomputeOne env fuel n).run.run s with ⟨r1, s1⟩
    have hs1 := recomputeOne_sizeF D h1
    rw [run_bind_of h1] at h
    cases r1 with
    | error e =>
      dsimp only at h
      cases h
      exact hs1
    | ok r1 =>
      dsimp only at h
      obtain ⟨g1, D1, -⟩ := recomputeOne_full' E hF D h1
      cases r1 with
      | none =>
        have : s' = s1 := by
          have h' : (pure () : M Unit).run.run s1 = (r, s') := h
          rw [run_pure] at h'
          cases h'; rfl
        rw [this]; exact hs1
      | some p =>
        exact Nat.le_trans hs1 (ih p t s1 s' g1 r D1 h)

theorem rchRemoveMin_okF {t s : State} {g : Nat → Option Val} (D : DInvF env sp t s g none) :
    ∃ r s1, rchRemoveMin.run.run s = (.ok r, s1) :=
  rchRemoveMin_ok (heapInv_of_virt D.inv.heap)

theorem drainHeap_sizeF (E : EnvS env sp) (hF : FirstFn env) : ∀ (fuel : Nat) (t s s' : State) (g : Nat → Option Val) (r : Except Panic Unit),
    DInvF env sp t s g none → (drainHeap env fuel).run.run s = (r, s') → s.nodes.size ≤ s'.nodes.size := by
  intro fuel
  induction fuel with
  | zero =>
    intro t s s' g r _ h
    unfold drainHeap at h
    rw [run_throw] at h
    cases h
    exact Nat.le_refl _
  | succ fuel ih =>
    intro t s s' g r D h
    unfold drainHeap at h
    obtain ⟨r1, s1, h1⟩ := rchRemoveMin_okF D
    rw [run_bind_of h1] at h
    dsimp only at h
    cases r1 with
    | none =>
      have hp := rchRemoveMin_inv (heapInv_of_virt D.inv.heap) h1
      simp only at hp
      have : s' = s1 := by
        have h' : (pure () : M Unit).run.run s1 = (r, s') := h
        rw [run_pure] at h'
        cases h'; rfl
      rw [this, hp.1]
      exact Nat.le_refl _
    | some n =>
      obtain ⟨D1, f1⟩ := pop_full D h1
      have hg1 : s.nodes.size ≤ s1.nodes.size := by have := f1.grow; rwa [virt_size, virt_size] at this
      rcases h2 : (recompute env fuel n).run.run s1 with ⟨r2, s2⟩
      have hs2 := recompute_sizeF E hF fuel n t s1 s2 g r2 D1 h2
      have h' : (recompute env fuel n >>= fun _ => drainHeap env fuel).run.run s1 = (r, s') := h
      rw [run_bind_of h2] at h'
      cases r2 with
      | error e =>
        dsimp only at h'
        cases h'
        exact Nat.le_trans hg1 hs2
      | ok u =>
        dsimp only at h'
        obtain ⟨g2, D2, -⟩ := recompute_full (kit E hF) fuel n t s1 s2 g D1 h2
        exact Nat.le_trans hg1 (Nat.le_trans hs2 (ih t s2 s' g2 r D2 h'))

/-- **the chain** -/
theorem recompute_totF {need : Nat → Nat} (E : EnvS env sp) (hF : FirstFn env) (L : StepTotF need env sp N)
    (hmono : ∀ a b, a ≤ b → need a ≤ need b) (hpos : ∀ sz, 1 ≤ need sz) :
    ∀ (fuel n : Nat) (t s s' : State) (g : Nat → Option Val) (r : Except Panic Unit), DF env sp N t s g (some n) →
    (recompute env fuel n).run.run s = (r, s') → s'.nodes.size ≤ N →
    need s'.nodes.size + unrun (virt g s) + s'.nodes.size ≤ fuel + s.nodes.size →
    r = .ok () ∧ ∃ g', DF env sp N t s' g' none ∧ unrun (virt g' s') + s.nodes.size + 1 ≤ unrun (virt g s) + s'.nodes.size := by
  intro fuel
  induction fuel with
  | zero =>
    intro n t s s' g r X h _ hf
    exfalso
    unfold recompute at h
    rw [run_throw] at h
    cases h
    obtain ⟨-, hnlt, -, -, hfr⟩ := X.d.inv.cur_facts
    have := unrun_pos hnlt hfr
    omega
  | succ fuel ih =>
    intro n t s s' g r X h hN hf
    have I := X.d.inv
    obtain ⟨-, hnlt, -, -, hfr⟩ := I.cur_facts
    have hup := unrun_pos hnlt hfr
    unfold recompute at h
    rcases h1 : (recomputeOne env fuel n).run.run s with ⟨r1, s1⟩
    have hs1 := recomputeOne_sizeF X.d h1
    rw [run_bind_of h1] at h
    cases r1 with
    | error e =>
      exfalso
      dsimp only at h
      have hp := hpos s1.nodes.size
      cases h
      obtain ⟨r0, e0, -⟩ := L fuel n t s g X _ _ h1 hN (by omega)
      cases e0
    | ok r1 =>
      dsimp only at h
      have hstep : ∀ (hN1 : s1.nodes.size ≤ N) (hf1 : need s1.nodes.size ≤ fuel),
          ∃ g', DF env sp N t s1 g' r1 ∧ unrun (virt g' s1) + s.nodes.size + 1 ≤ unrun (virt g s) + s1.nodes.size := by
        intro hN1 hf1
        obtain ⟨r0, e0, g', X1, f1, hn1⟩ := L fuel n t s g X _ _ h1 hN1 hf1
        cases e0
        have hlt := NestH.T2g.unrun_lt f1 I.stamps hnlt hfr hn1
        rw [virt_size, virt_size] at hlt
        exact ⟨g', X1, hlt⟩
      cases r1 with
      | none =>
        have h' : (pure () : M Unit).run.run s1 = (r, s') := h
        rw [run_pure] at h'
        have hp := hpos s1.nodes.size
        cases h'
        obtain ⟨g', X1, hlt⟩ := hstep hN (by omega)
        exact ⟨rfl, g', X1, hlt⟩
      | some p =>
        have h' : (recompute env fuel p).run.run s1 = (r, s') := h
        have hp := hpos s1.nodes.size
        -- the size of the final state bounds the size of `s1`
        have hs' : s1.nodes.size ≤ s'.nodes.size := by
          obtain ⟨g1, D1, -⟩ := recomputeOne_full' E hF X.d h1
          exact recompute_sizeF E hF fuel p t s1 s' g1 r D1 h'
        have hm := hmono _ _ hs'
        obtain ⟨g', X1, hlt⟩ := hstep (by omega) (by omega)
        obtain ⟨e, g'', X2, hlt'⟩ := ih p t s1 s' g' r X1 h' hN (by omega)
        exact ⟨e, g'', X2, by omega⟩

/-- **the drain** -/
theorem drainHeap_totF {need : Nat → Nat} (E : EnvS env sp) (hF : FirstFn env) (L : StepTotF need env sp N)
    (hmono : ∀ a b, a ≤ b → need a ≤ need b) (hpos : ∀ sz, 1 ≤ need sz) :
    ∀ (fuel : Nat) (t s s' : State) (g : Nat → Option Val) (r : Except Panic Unit), DF env sp N t s g none →
    (drainHeap env fuel).run.run s = (r, s') → s'.nodes.size ≤ N →
    need s'.nodes.size + unrun (virt g s) + s'.nodes.size + 1 ≤ fuel + s.nodes.size →
    r = .ok () ∧ ∃ g', DF env sp N t s' g' none := by
  intro fuel
  induction fuel with
  | zero =>
    intro t s s' g r _ h _ hf
    exfalso
    unfold drainHeap at h
    rw [run_throw] at h
    cases h
    omega
  | succ fuel ih =>
    intro t s s' g r X h hN hf
    unfold drainHeap at h
    obtain ⟨r1, s1, h1⟩ := rchRemoveMin_okF X.d
    rw [run_bind_of h1] at h
    dsimp only at h
    cases r1 with
    | none =>
      have hp := rchRemoveMin_inv (heapInv_of_virt X.d.inv.heap) h1
      simp only at hp
      have h' : (pure () : M Unit).run.run s1 = (r, s') := h
      rw [run_pure] at h'
      cases h'
      rw [hp.1]
      exact ⟨rfl, g, X⟩
    | some n =>
      obtain ⟨D1, f1⟩ := pop_full X.d h1
      obtain ⟨hv, -, -⟩ := Sim.rchRemoveMin (K := FK env sp) (g := g) s X.d.frag.fr (some n) s1 h1
      have T1 : DT (VE env sp) N (virt g s1) := NestH.T2g.pop_DT X.d.inv.heap hv X.t
      have P1 : PInv s1 := ((BSim.rchRemoveMin (K := FK env sp) (P := PInv) (g := g) s).fwd X.d.frag.fr X.p h1).2.2.2
      have X1 : DF env sp N t s1 g (some n) := ⟨D1, P1, T1⟩
      have hle := NestH.T2g.unrun_le f1 X.d.inv.stamps
      rw [virt_size, virt_size] at hle
      rcases h2 : (recompute env fuel n).run.run s1 with ⟨r2, s2⟩
      have h' : (recompute env fuel n >>= fun _ => drainHeap env fuel).run.run s1 = (r, s') := h
      rw [run_bind_of h2] at h'
      cases r2 with
      | error e =>
        exfalso
        dsimp only at h'
        cases h'
        obtain ⟨e0, -⟩ := recompute_totF E hF L hmono hpos fuel n t s1 _ g _ X1 h2 hN (by omega)
        cases e0
      | ok u =>
        dsimp only at h'
        obtain ⟨g2, D2, -⟩ := recompute_full (kit E hF) fuel n t s1 s2 g D1 h2
        have hs' := drainHeap_sizeF E hF fuel t s2 s' g2 r D2 h'
        have hm := hmono _ _ hs'
        obtain ⟨-, g2', X2, hlt⟩ := recompute_totF E hF L hmono hpos fuel n t s1 s2 g _ X1 h2 (by omega) (by omega)
        exact ih t s2 s' g2' r X2 h' hN (by omega)

end
end IncrVerif.Proofs.FullT
