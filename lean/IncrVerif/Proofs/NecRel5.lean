import IncrVerif.Proofs.NecRel4
import IncrVerif.Proofs.Necessity
/-!
# NecRel5 — transfer of `NecWF` to release mode (`cfg.debug = false`)

A release-mode state (`Release s`: debug off, the debug-only field `currentlyRunning` never written) has debug
twins `debugTwin s cr` (debug on, any value of the debug-only field).  If the debug run of `x` from a twin
returns normally, the release run from `s` returns the same value, ends in the erasure of the debug run's
final state, and keeps `NecWF` (`Sim.release`).
-/
namespace IncrVerif.Proofs.NecRel
open IncrVerif.Engine IncrVerif.Proofs IncrVerif.Proofs.Nec

/-- release-mode states as they arise from `State.init N false`: debug off, `currentlyRunning` untouched -/
def Release (s : State) : Prop := s.cfg.debug = false ∧ s.currentlyRunning = none

/-- the same state in a debug build; `cr` is the content of the debug-only field -/
def debugTwin (s : State) (cr : Option Nat) : State :=
  { s with cfg := { debug := true }, currentlyRunning := cr }

theorem release_init (N : Nat) : Release (State.init N false) := ⟨rfl, rfl⟩
theorem release_erase (s : State) : Release (erase s) := ⟨rfl, rfl⟩
theorem debugTwin_debug (s : State) (cr : Option Nat) : (debugTwin s cr).cfg.debug = true := rfl
theorem debugTwin_init (N : Nat) : debugTwin (State.init N false) none = State.init N true := rfl

theorem erase_debugTwin (s : State) (h : Release s) (cr : Option Nat) : erase (debugTwin s cr) = s := by
  obtain ⟨h1, h2⟩ := h
  have hc : s.cfg = { debug := false } := by
    cases hcfg : s.cfg with
    | mk d => rw [hcfg] at h1; simp only at h1; rw [h1]
  calc erase (debugTwin s cr) = { s with cfg := { debug := false }, currentlyRunning := none } := rfl
    _ = s := by rw [← hc, ← h2]

/-- `NecWF` reads `nodes`, `binds`, `experts` only: not the debug switch, not `currentlyRunning` -/
theorem necWF_erase {s : State} (h : NecWF s) : NecWF (erase s) :=
  ⟨h.e1, h.e2, h.e3, h.e4, h.kinds.congr (fun _ => rfl) rfl rfl rfl⟩

theorem necWF_debugTwin {s : State} (h : NecWF s) (cr : Option Nat) : NecWF (debugTwin s cr) :=
  ⟨h.e1, h.e2, h.e3, h.e4, h.kinds.congr (fun _ => rfl) rfl rfl rfl⟩

theorem necWF_of_erase {s : State} (h : NecWF (erase s)) : NecWF s :=
  ⟨h.e1, h.e2, h.e3, h.e4, h.kinds.congr (fun _ => rfl) rfl rfl rfl⟩

/-- **the transfer**: a release run that a debug build would have accepted returns the same value, ends in
the erasure of the debug run's final state, and keeps the invariant -/
theorem Sim.release {α} {x : M α} (hx : Sim x)
    (hok : ∀ (s s' : State) (a : α), NecWF s → s.cfg.debug = true → x.run.run s = (.ok a, s') →
      NecWF s' ∧ s'.cfg.debug = true)
    (s : State) (hrel : Release s) (hN : NecWF s) (cr : Option Nat) (a : α) (sd' : State)
    (hdbg : x.run.run (debugTwin s cr) = (.ok a, sd')) :
    x.run.run s = (.ok a, erase sd') ∧ NecWF (erase sd') ∧ Release (erase sd') := by
  have h1 := hx _ _ _ hdbg
  rw [erase_debugTwin s hrel] at h1
  exact ⟨h1, necWF_erase (hok _ _ _ (necWF_debugTwin hN cr) rfl hdbg).1, release_erase _⟩

/-- debug-mode preservation for `recomputeOne`, whatever it returns (from `recomputeOne_v`) -/
theorem recomputeOne_ok (env : Env) (fuel n : Nat) (s s' : State) (r : Option Nat) (hN : NecWF s)
    (hd : s.cfg.debug = true) (hr : (recomputeOne env fuel n).run.run s = (.ok r, s')) :
    NecWF s' ∧ s'.cfg.debug = true := by
  have h := run_of_triple (R := fun r v v' => RPost r v v') (fun v => recomputeOne_v v env fuel n) s s' _ hr
    (necV_of_necWF hN hd)
  exact necWF_of_necV h.1

theorem didSetVarWhileNotStabilising_ok (x : Nat) (s s' : State) (hN : NecWF s)
    (hd : s.cfg.debug = true) (hr : (didSetVarWhileNotStabilising x).run.run s = (.ok (), s')) :
    NecWF s' ∧ s'.cfg.debug = true :=
  NP.run (fun v => didSetVarWhileNotStabilising_v v x) s s' () hN hd hr

theorem propagateInvalidity_ok (fuel : Nat) (s s' : State) (hN : NecWF s)
    (hd : s.cfg.debug = true) (hr : (propagateInvalidity fuel).run.run s = (.ok (), s')) :
    NecWF s' ∧ s'.cfg.debug = true :=
  NP.run (fun v => propagateInvalidity_v v fuel) s s' () hN hd hr

end IncrVerif.Proofs.NecRel
