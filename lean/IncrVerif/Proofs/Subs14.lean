import IncrVerif.Proofs.Subs10
import IncrVerif.Proofs.Subs13
/-!
# Subscriptions, part 12b: every action of the fragment keeps the invariant (S1); whole histories
-/
namespace IncrVerif.Proofs.SubsH
open IncrVerif.Engine IncrVerif.Driver IncrVerif.Proofs IncrVerif.Proofs.Step IncrVerif.Proofs.Sched
open IncrVerif.Proofs.Quiet

/-- the API actions of the static fragment with subscriptions: the static actions (`Quiet.StaticAction`) and
`subscribe`, `unsubscribe`, `stateUnsub` -/
def SubAction (env : Env) : Action → Prop
  | .subscribe _ _ | .unsubscribe _ _ | .stateUnsub _ => True
  | a => StaticAction env a

theorem SubAction.of_static {env : Env} {a : Action} (h : StaticAction env a) : SubAction env a := by
  cases a <;> first | exact h | trivial

/-- **S1: every action of the fragment that returns keeps the invariant**; every action other than
`stabilise` is an `NStep` -/
theorem step_u {env : Env} {s s' : State} {a : Action} {tokens : Array Nat} {r : String × Array Nat}
    (U : UInv env s) (heff : PureHandlers env) (ha : SubAction env a)
    (h : (stepAction env a tokens).run.run s = (.ok r, s')) :
    UInv env s' ∧ (a ≠ .stabilise → NStep s s') := by
  cases a <;> try exact ha.elim
  case create i =>
    obtain ⟨Q', -, K⟩ := step_create U.core ha h
    exact ⟨⟨Q', K.hinv U.hinv⟩, fun _ => NStep.of_kframe K⟩
  case observe n =>
    have := step_obsAction (a := .observe n) U ha h
    exact ⟨this.1, fun _ => this.2.2⟩
  case cloneObs o =>
    have := step_obsAction (a := .cloneObs o) U trivial h
    exact ⟨this.1, fun _ => this.2.2⟩
  case dropObs o =>
    have := step_obsAction (a := .dropObs o) U trivial h
    exact ⟨this.1, fun _ => this.2.2⟩
  case disallow o =>
    have := step_obsAction (a := .disallow o) U trivial h
    exact ⟨this.1, fun _ => this.2.2⟩
  case subscribe o hid => exact ⟨(step_subscribe U h).1, fun _ => step_subscribe_n U h⟩
  case unsubscribe o t => exact ⟨(step_unsubscribe U h).1, fun _ => step_unsubscribe_n U h⟩
  case stateUnsub t => exact ⟨(step_stateUnsub U h).1, fun _ => step_stateUnsub_n U h⟩
  case stabilise => exact ⟨(stabilise_u U heff (step_stabilise h)).inv, fun hne => absurd rfl hne⟩
  all_goals
    (obtain ⟨Q', -, K⟩ := step_write U.core (by trivial) h
     exact ⟨⟨Q', K.hinv U.hinv⟩, fun _ => NStep.of_kframe K⟩)

/-- the initial state satisfies the invariant -/
theorem uinv_init (env : Env) (N : Nat) (d : Bool) : UInv env (State.init N d) :=
  ⟨QInv.of_quiet (qinv_init env N d), hinv_init N d⟩

/-- a list of actions of the fragment that runs without panic from a state satisfying the invariant ends in a
state satisfying it -/
theorem runActions_u {env : Env} {acts : List Action} {s s' : State} {tk tk' : Array Nat}
    (U : UInv env s) (heff : PureHandlers env) (ha : ∀ a, a ∈ acts → SubAction env a)
    (h : runActions env acts s tk = .ok (s', tk')) : UInv env s' := by
  induction acts generalizing s tk with
  | nil => simp only [runActions] at h; cases h; exact U
  | cons a as ih =>
    simp only [runActions] at h
    rcases hx : (stepAction env a tk).run.run s with ⟨_ | r, s1⟩
    · rw [hx] at h; cases h
    · rw [hx] at h
      exact ih (step_u U heff (ha a (List.mem_cons_self ..)) hx).1
        (fun b hb => ha b (List.mem_cons_of_mem _ hb)) h

/-- the initial state followed by a list of actions of the fragment -/
theorem history_u {env : Env} {N : Nat} {d : Bool} {acts : List Action} {s : State} {tk : Array Nat}
    (heff : PureHandlers env) (ha : ∀ a, a ∈ acts → SubAction env a)
    (h : runActions env acts (State.init N d) #[] = .ok (s, tk)) : UInv env s :=
  runActions_u (uinv_init env N d) heff ha h

/-- every state reached by a prefix of the history satisfies the invariant -/
theorem history_prefix_u {env : Env} {N : Nat} {d : Bool} {as bs : List Action} {s : State} {tk : Array Nat}
    (heff : PureHandlers env) (ha : ∀ a, a ∈ as ++ bs → SubAction env a)
    (h : runActions env (as ++ bs) (State.init N d) #[] = .ok (s, tk)) :
    ∃ s1 tk1, runActions env as (State.init N d) #[] = .ok (s1, tk1) ∧ UInv env s1 ∧
      runActions env bs s1 tk1 = .ok (s, tk) := by
  obtain ⟨s1, tk1, h1, h2⟩ := runActions_prefix h
  exact ⟨s1, tk1, h1, history_u heff (fun a hm => ha a (List.mem_append_left _ hm)) h1, h2⟩

/-- at every `stabilise` of a history: the invariant before, all conclusions of `stabilise_u` -/
theorem history_stabilise_u {env : Env} {N : Nat} {d : Bool} {as bs : List Action} {s : State}
    {tk : Array Nat} (heff : PureHandlers env)
    (ha : ∀ a, a ∈ as ++ Action.stabilise :: bs → SubAction env a)
    (h : runActions env (as ++ Action.stabilise :: bs) (State.init N d) #[] = .ok (s, tk)) :
    ∃ s1 tk1 s2, runActions env as (State.init N d) #[] = .ok (s1, tk1) ∧ UInv env s1 ∧
      (stabilise env fuelDefault).run.run s1 = (.ok (), s2) ∧ Stabilised env fuelDefault s1 s2 ∧
      runActions env bs s2 tk1 = .ok (s, tk) := by
  obtain ⟨s1, tk1, h1, U1, h2⟩ := history_prefix_u heff ha h
  simp only [runActions] at h2
  rcases hx : (stepAction env .stabilise tk1).run.run s1 with ⟨_ | r, s2⟩
  · rw [hx] at h2; cases h2
  · rw [hx] at h2
    replace h2 : runActions env bs s2 r.2 = .ok (s, tk) := h2
    have hst := step_stabilise hx
    have R := stabilise_u U1 heff hst
    have htk : r.2 = tk1 := by
      unfold stepAction at hx
      dsimp only at hx
      obtain ⟨u, s3, h3, h4⟩ := bind_ok_inv hx
      obtain ⟨e, -⟩ := pure_ok_inv h4
      rw [e]
    rw [htk] at h2
    exact ⟨s1, tk1, s2, h1, U1, hst, R, h2⟩

end IncrVerif.Proofs.SubsH
