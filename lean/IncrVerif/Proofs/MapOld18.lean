import IncrVerif.Proofs.MapOld2
/-!
# map_with_old fragment: node creation keeps `QInvW`, pure part

`Created k s s1 tp` (Quiet10): `s1` is `s` plus one fresh top-level node of kind `k`, naming table `tp`.
* `Created.qinvG` / `Created.qinv'`: `Created.qinv` for a naming table that is not (only) the pushed one;
* `Created.virt`: the virtual states are related by `Created (virtKind k)`;
* `Created.keepsW`: the new state satisfies `QInvW`.
-/
namespace IncrVerif.Proofs.Quiet
open IncrVerif.Engine IncrVerif.Driver IncrVerif.Proofs IncrVerif.Proofs.Step IncrVerif.Proofs.Sched

namespace Created
variable {env : Env} {k : Kind} {s s1 : State} {tp : Array Nat}

/-- `Created.qinv` for an arbitrary naming table whose entries are nodes of the new state -/
theorem qinvG (C : Created k s s1 tp) (Q : QInv env s) (hk : StaticKind env k)
    (hkids : ∀ c, c ∈ kids k → c < s.nodes.size)
    (htp : ∀ (kk n : Nat), tp[kk]? = some n → n < s.nodes.size + 1) : QInv env s1 where
  struct := C.struct Q hk hkids
  vars := C.varsOK Q.vars
  obs := C.obsOK Q.obs
  now := by rw [C.stabNum]; exact Q.now
  stamps m := by
    rw [C.stabNum]
    by_cases e : m = s.nodes.size
    · rw [e, C.nodeD_new]
      have := Q.now
      exact ⟨show (-1 : Int) < _ by omega, show (-1 : Int) < _ by omega⟩
    · rw [C.nodeD_old e]; exact Q.stamps m
  varStamp c vc h := by
    rw [C.stabNum]
    rcases C.vars with ⟨-, e⟩ | ⟨v, -, ev⟩
    · rw [e] at h; exact Q.varStamp c vc h
    · rw [ev, Array.getElem?_push] at h
      split at h
      · injection h with h
        rw [← h]; exact Int.le_refl _
      · exact Q.varStamp c vc h
  cons m hm hs := by
    rw [C.size] at hm
    by_cases e : m = s.nodes.size
    · rw [e, C.stale_new Q.now hk] at hs; cases hs
    · have hlt : m < s.nodes.size := by omega
      rw [C.staleOf_old Q hlt] at hs
      exact C.consistent_old Q hlt (Q.cons m hlt hs)
  status := by rw [C.status]; exact Q.status
  alive := by rw [C.alive]; exact Q.alive
  setDuringStab := by rw [C.setDuringStab]; exact Q.setDuringStab
  deadVars := by rw [C.deadVars]; exact Q.deadVars
  handleAfterStab := by rw [C.handleAfterStab]; exact Q.handleAfterStab
  handlers m := by
    by_cases e : m = s.nodes.size
    · rw [e, C.nodeD_new]; exact Int.le_refl _
    · rw [C.nodeD_old e]; exact Q.handlers m
  pinv := by rw [C.pinv]; exact Q.pinv
  top kk n h := by
    rw [C.top] at h
    rw [C.size]
    exact htp kk n h

/-- **creation of an intermediate node** (not entered in the naming table) -/
theorem qinv' (C : Created k s s1 s.top) (Q : QInv env s) (hk : StaticKind env k)
    (hkids : ∀ c, c ∈ kids k → c < s.nodes.size) : QInv env s1 :=
  C.qinvG Q hk hkids (fun kk n h => by have := Q.top kk n h; omega)

end Created
end IncrVerif.Proofs.Quiet

namespace IncrVerif.Proofs.MapOldH
open IncrVerif.Engine IncrVerif.Driver IncrVerif.Proofs IncrVerif.Proofs.Step IncrVerif.Proofs.Sched IncrVerif.Proofs.Quiet

theorem virtKind_var_iff (k : Kind) (c : Nat) : virtKind k = .var c ↔ k = .var c := by
  cases k <;> simp [virtKind]

theorem virtNode_newNode (k : Kind) : virtNode (newNode k) = newNode (virtKind k) := rfl

theorem virt_push (s : State) (nd : Node) :
    (virt { s with nodes := s.nodes.push nd }).nodes = (virt s).nodes.push (virtNode nd) := by
  simp [virt]

/-- the virtual states of a creation are related by the creation of the virtual kind -/
theorem CrCreated_virt {k : Kind} {s s1 : State} {tp : Array Nat} (Cr : Created k s s1 tp) :
    Created (virtKind k) (virt s) (virt s1) tp := by
  refine ⟨?_, ?_, Cr.rch, Cr.pc, Cr.scope, Cr.stabNum, Cr.status, Cr.alive, Cr.setDuringStab, Cr.deadVars,
    Cr.handleAfterStab, Cr.pinv, Cr.observers, Cr.newObservers, Cr.disallowedObservers, Cr.top⟩
  · show s1.nodes.map virtNode = (s.nodes.map virtNode).push (newNode (virtKind k))
    rw [Cr.nodes, Array.map_push, virtNode_newNode]
  · rcases Cr.vars with ⟨h, e⟩ | ⟨v, ek, ev⟩
    · exact Or.inl ⟨fun c hc => h c ((virtKind_var_iff k c).1 hc), e⟩
    · refine Or.inr ⟨v, ?_, ?_⟩
      · rw [ek]; rfl
      · show s1.vars = s.vars.push { value := v, setAt := s.stabNum, node := (virt s).nodes.size }
        rw [virt_size]; exact ev

/-- **one created node keeps the invariant**; `tp` is the old naming table or the old one plus the new node -/
theorem CrCreated_keepsW {env : Env} {C : Val → Prop} {sp : Nat → Val → Val} {k : Kind} {s s1 : State}
    {tp : Array Nat} (Cr : Created k s s1 tp) (Q : QInvW env C sp s)
    (htp : ∀ (kk n : Nat), tp[kk]? = some n → n < s.nodes.size + 1)
    (hk : WKind env (Good env C sp) k) (hl : LitOK C k) (hkids : ∀ c, c ∈ kidsW k → c < s.nodes.size)
    (hvars : ∀ (c : Nat) (vc : VarCell), s1.vars[c]? = some vc → C vc.value) : QInvW env C sp s1 := by
  refine ⟨⟨?_, ?_, ?_, ?_⟩, ?_, ⟨?_, ?_, hvars, ?_⟩⟩
  · rw [Cr.pc]; exact Q.frag.pc
  · intro n hn
    rw [Cr.size] at hn
    by_cases e : n = s.nodes.size
    · rw [e, Cr.nodeD_new]; exact hk
    · rw [Cr.nodeD_old e]; exact Q.frag.kind n (by omega)
  · intro n hn
    rw [Cr.size] at hn
    by_cases e : n = s.nodes.size
    · rw [e, Cr.nodeD_new]; rfl
    · rw [Cr.nodeD_old e]; exact Q.frag.valid n (by omega)
  · intro n hn
    rw [Cr.size] at hn
    by_cases e : n = s.nodes.size
    · rw [e, Cr.nodeD_new]; exact hkids
    · rw [Cr.nodeD_old e]; exact Q.frag.back n (by omega)
  · refine (CrCreated_virt Cr).qinvG Q.q (staticKind_virt sp hk) ?_ ?_
    · intro c hc
      rw [kids_virtKind] at hc
      rw [virt_size]; exact hkids c hc
    · intro kk n h
      rw [virt_size]; exact htp kk n h
  · intro n v h
    by_cases e : n = s.nodes.size
    · rw [e, Cr.nodeD_new] at h; cases h
    · rw [Cr.nodeD_old e] at h; exact Q.m.vals n v h
  · intro n hn
    rw [Cr.size] at hn
    by_cases e : n = s.nodes.size
    · rw [e, Cr.nodeD_new]; exact hl
    · rw [Cr.nodeD_old e]; exact Q.m.lits n (by omega)
  · intro n g i h
    by_cases e : n = s.nodes.size
    · rw [e, Cr.nodeD_new]; exact MReach.init
    · rw [Cr.nodeD_old e] at h ⊢; exact Q.m.mach n g i h

end IncrVerif.Proofs.MapOldH
