import IncrVerif.Proofs.HeightH1
/-!
# C19 for whole histories, part 2: the linking cascade computes EXACTLY the static heights, and panics with the
height diagnostic exactly when a node needs more than the limit

`becameNecessary n` from a state satisfying the structural invariant, the exact-height invariant `HEx` and
`RoomH N`: it returns iff `needH n ≤ N`; then `n` (and every node that became necessary with it) has height
`needH`, and `maxHeightSeen` has become `max old (needH n)`; otherwise it panics with `"height-limit"` (no other
panic) and `maxHeightSeen = N + 1`.
-/
namespace IncrVerif.Proofs.HeightH
open IncrVerif.Engine IncrVerif.Driver IncrVerif.Proofs IncrVerif.Proofs.Step IncrVerif.Proofs.Sched
open IncrVerif.Proofs.Quiet IncrVerif.Proofs.Quiet.P21

theorem RoomH.of_cframe {N : Nat} {s s' : State} (R : RoomH N s) (h : CFrame s s')
    (hs : s'.maxHeightSeen = s.maxHeightSeen) : RoomH N s' := by
  have hk := h.key
  simp only [stateKey, Prod.mk.injEq] at hk
  have h1 : s'.rch.queues.size = s.rch.queues.size := hk.2.2.2.2.2.2.2.2.2.2.2.2.2.2.1
  have h2 : s'.ahh = s.ahh := hk.2.2.2.2.2.2.2.2.2.2.2.2.2.2.2.1
  exact ⟨by rw [h2]; exact R.ahh, by rw [← R.rch]; simp only [Heap.maxAllowed, h1], by rw [hs]; exact R.seen,
    by rw [hs]; exact R.seen0⟩

/-- the same with a grown `maxHeightSeen` -/
theorem RoomH.of_cframe' {N : Nat} {s s' : State} (R : RoomH N s) (h : CFrame s s')
    (hs : s.maxHeightSeen ≤ s'.maxHeightSeen) (hN : s'.maxHeightSeen ≤ (N : Int)) : RoomH N s' := by
  have hk := h.key
  simp only [stateKey, Prod.mk.injEq] at hk
  have h1 : s'.rch.queues.size = s.rch.queues.size := hk.2.2.2.2.2.2.2.2.2.2.2.2.2.2.1
  have h2 : s'.ahh = s.ahh := hk.2.2.2.2.2.2.2.2.2.2.2.2.2.2.2.1
  exact ⟨by rw [h2]; exact R.ahh, by rw [← R.rch]; simp only [Heap.maxAllowed, h1], hN,
    by have := R.seen0; omega⟩

/-- `setHeight n h` within the limit returns -/
theorem setHeight_within {N : Nat} {n : Nat} {h : Int} {s : State} (R : RoomH N s) (hh : h ≤ (N : Int)) :
    (setHeight n h).run.run s = (.ok (), heightSet n h s) := by
  rw [setHeight_run, if_neg (by have := R.ahh; omega)]; rfl

/-- `setHeight n h` above the limit panics with the height diagnostic, having recorded `h` -/
theorem setHeight_beyond {N : Nat} {n : Nat} {h : Int} {s : State} (R : RoomH N s) (hh : (N : Int) < h) :
    (setHeight n h).run.run s = (.error heightPanic, { s with maxHeightSeen := h }) := by
  rw [setHeight_run, if_pos (by have := R.ahh; have := R.seen; omega)]; rfl

theorem mhas_seen {n : Nat} {s s' : State} {r : Except Panic Unit}
    (h : (maybeHandleAfterStabilisation n).run.run s = (r, s')) : s'.maxHeightSeen = s.maxHeightSeen := by
  rcases mhas_cases h with e | e <;> rw [e] <;> rfl

theorem tail_out {env : Env} {p : Nat} {t : State} {Q : Unit → State → Prop} {P : State → Prop} (g : Nat → M Unit)
    (hp : p < t.nodes.size) (hv : (t.nodeD p).valid = true) (hk : StaticKind env (t.nodeD p).kind)
    (hq : Q () t) :
    Out (do let x ← getNode p
            match x.kind? with
            | some (.expert e) => g e
            | _ => pure ()) t Q P :=
  Out.of_tot (tail_tot g hp hv hk hq)

/-! ## the two statements -/

def BNOut (env : Env) (N fuel : Nat) : Prop :=
  ∀ n s op, GInv env s op → HEx s op → RoomH N s → op n = .linking 0 → (∀ m, op m ≠ .closed → n ≤ m) →
    (∀ p i, (p, i) ∈ (s.nodeD n).parents → op p ≠ .closed) → 2 * n + 2 ≤ fuel →
    Out (becameNecessary env fuel n) s
      (fun _ s' => needH s n ≤ N ∧ HEx s' (upd op n .closed) ∧
        s'.maxHeightSeen = max s.maxHeightSeen (needH s n : Int))
      (fun s' => N < needH s n ∧ s'.maxHeightSeen = (N : Int) + 1)

def APOut (env : Env) (N fuel : Nat) : Prop :=
  ∀ c idx p s op, GInv env s op → HEx s op → RoomH N s → op p = .linking idx →
    (kids (s.nodeD p).kind)[idx]? = some c → (∀ m, op m ≠ .closed → c < m) → 2 * c + 3 ≤ fuel →
    Out (addParentWithoutAdjustingHeights env fuel c idx p) s
      (fun _ s' => needH s c ≤ N ∧ HEx s' (upd op p (.linking (idx + 1))) ∧
        s'.maxHeightSeen = max s.maxHeightSeen (needH s c : Int))
      (fun s' => N < needH s c ∧ s'.maxHeightSeen = (N : Int) + 1)

theorem ap_out (env : Env) (N fuel : Nat) (ih : BNOut env N fuel) : APOut env N (fuel + 1) := by
  intro c idx p s op I hx R hop hk hlow hf
  have hp : p < s.nodes.size := I.opLt p (by rw [hop]; exact fun e => by cases e)
  have hcp : c < p := I.kid_lt hk
  have hc : c < s.nodes.size := by omega
  have hne : c ≠ p := by omega
  have hcl : op c = .closed := by
    cases e : op c with
    | closed => rfl
    | linking k => have := hlow c (by rw [e]; exact fun e => by cases e); omega
    | unlinking k => have := hlow c (by rw [e]; exact fun e => by cases e); omega
  unfold addParentWithoutAdjustingHeights
  refine Out.bind_get (Out.bind_dassert (fun _ => (I.lnec p idx hop).1) ?_)
  refine Out.bind_get ?_
  dsimp only
  unfold addParent
  refine Out.bind_modNode (fun s1 hs1 => ?_)
  have U : NodeUpd c (fParents ((s.nodeD c).parents ++ [(p, idx)])) s s1 := by
    rw [hs1]; exact NodeUpd.modify' hc rfl
  have hl1 : LRel (fun _ => False) s s1 := by
    rw [hs1]
    refine ⟨CFrame.modNode s c _ (fun _ => rfl), rfl, fun m x hx => ?_, fun m _ _ => ?_⟩
    · rw [nodeD_modify]; split
      · rename_i e; rw [← e.1] at hx ⊢; exact List.mem_append_left _ hx
      · exact hx
    · rw [nodeD_modify]; split <;> rfl
  have hoth1 : ∀ m, m ≠ c → s1.nodeD m = s.nodeD m := by
    intro m hm; rw [hs1, nodeD_modify, if_neg (fun e => hm e.1.symm)]
  have hhgt1 : ∀ m, (s1.nodeD m).height = (s.nodeD m).height := by
    intro m; rw [hs1, nodeD_modify]; split <;> rfl
  have hseen1 : s1.maxHeightSeen = s.maxHeightSeen := by rw [hs1]
  have hk1 : ∀ m, (s1.nodeD m).kind = (s.nodeD m).kind := hl1.fr.kind
  have hc1 : c < s1.nodes.size := by rw [U.size]; exact hc
  have hp1 : p < s1.nodes.size := by rw [U.size]; exact hp
  have R1 : RoomH N s1 := R.of_cframe hl1.fr hseen1
  have hvalid : (s1.nodeD c).valid = true := by rw [U.self.valid]; exact (I.node hc).valid
  refine Out.bind_getNode hc1 ?_
  simp only [hvalid, Bool.not_true, Bool.false_eq_true, if_false]
  cases hwas : s.isNecessary c with
  | true =>
    simp only [Bool.not_true, Bool.false_eq_true, if_false]
    refine Out.bind_getNode hc1 ?_
    have hcq : (s1.nodeD c).kind? = some (s.nodeD c).kind := by
      rw [Node.kind?, U.self.valid, U.self.kind]
      show (if (s.nodeD c).valid = true then some (s.nodeD c).kind else none) = _
      rw [(I.node hc).valid]; rfl
    rw [hcq]
    have hsk := (I.node hc).kind
    have hfin : needH s c ≤ N ∧ HEx s1 (upd op p (.linking (idx + 1))) ∧
        s1.maxHeightSeen = max s.maxHeightSeen (needH s c : Int) := by
      refine ⟨hx.le R hwas hcl, ?_, ?_⟩
      · refine hx.transfer hk1 (by rw [hseen1]; exact Int.le_refl _) (fun m hm ho => ?_)
        have hmp : m ≠ p := fun e => by rw [e, upd_self] at ho; cases ho
        rw [upd_other _ _ _ hmp] at ho
        refine ⟨?_, ho, hhgt1 m⟩
        by_cases e : m = c
        · rw [e]; exact hwas
        · rw [State.isNecessary, hoth1 m e] at hm; exact hm
      · rw [hseen1]; have := (hx c hwas hcl).2; omega
    have hpv : (s1.nodeD p).valid = true := by rw [hoth1 p (Ne.symm hne)]; exact (I.node hp).valid
    have hpk : StaticKind env (s1.nodeD p).kind := by rw [hoth1 p (Ne.symm hne)]; exact (I.node hp).kind
    cases hkd : (s.nodeD c).kind <;> rw [hkd] at hsk <;>
      first | exact tail_out _ hp1 hpv hpk hfin | exact hsk.elim
  | false =>
    simp only [Bool.not_false, if_true]
    obtain ⟨I1, hpar1⟩ := I.addEdge_open U hop hk hwas hcl
    have hx1 : HEx s1 (upd (upd op p (.linking (idx + 1))) c (.linking 0)) := by
      refine hx.transfer hk1 (by rw [hseen1]; exact Int.le_refl _) (fun m hm ho => ?_)
      have hmc : m ≠ c := fun e => by rw [e, upd_self] at ho; cases ho
      rw [upd_other _ _ _ hmc] at ho
      have hmp : m ≠ p := fun e => by rw [e, upd_self] at ho; cases ho
      rw [upd_other _ _ _ hmp] at ho
      refine ⟨?_, ho, hhgt1 m⟩
      rw [State.isNecessary, hoth1 m hmc] at hm; exact hm
    have hlow1 : ∀ m, upd (upd op p (.linking (idx + 1))) c (.linking 0) m ≠ .closed → c ≤ m := by
      intro m hm
      by_cases e : m = c
      · omega
      · rw [upd_other _ _ _ e] at hm
        by_cases e2 : m = p
        · omega
        · rw [upd_other _ _ _ e2] at hm
          exact Nat.le_of_lt (hlow m hm)
    have hpar1' : ∀ q i, (q, i) ∈ (s1.nodeD c).parents →
        upd (upd op p (.linking (idx + 1))) c (.linking 0) q ≠ .closed := by
      intro q i hq
      rw [hpar1] at hq
      simp only [List.mem_singleton, Prod.mk.injEq] at hq
      rw [hq.1, upd_other _ _ _ (Ne.symm hne), upd_self]
      exact fun e => by cases e
    have T := ih c s1 _ I1 hx1 R1 (upd_self _ _ _) hlow1 hpar1' (by omega)
    rw [needH_congr hk1 c, hseen1] at T
    refine Out.bind T (fun _ s2 h2 ⟨q1, q2, q3⟩ => ?_)
    obtain ⟨I2, hab2, hl2⟩ := (link_spec env fuel).1 c s1 s2 _ h2 I1 (upd_self _ _ _) hlow1 hpar1'
    rw [upd_upd, upd_eq_self _ c .closed (by rw [upd_other _ _ _ hne]; exact hcl)] at q2
    have hp2 : p < s2.nodes.size := by rw [hl2.fr.size]; exact hp1
    have hpe : s2.nodeD p = s.nodeD p := by rw [hab2 p hcp]; exact hoth1 p (Ne.symm hne)
    exact tail_out _ hp2 (by rw [hpe]; exact (I.node hp).valid) (by rw [hpe]; exact (I.node hp).kind)
      ⟨q1, q2, q3⟩

theorem bn_out (env : Env) (N fuel : Nat) (ih : APOut env N fuel) : BNOut env N (fuel + 1) := by
  intro n s op I hx R hop hlow hpar hf
  have hn : n < s.nodes.size := I.opLt n (by rw [hop]; exact fun e => by cases e)
  have sn := I.node hn
  have K : KidsLt s := kidsLt_of_ginv I
  have hopn : op n ≠ .closed := by rw [hop]; exact fun e => by cases e
  have hneed1 := needH_pos s n
  unfold becameNecessary
  refine Out.bind_getNode hn ?_
  rw [sn.top]
  refine Out.bind_ok (scopeIsNecessary_top_run s) ?_
  dsimp only
  simp only [Bool.not_true, Bool.and_false, Bool.false_eq_true, if_false]
  refine Out.bind_modify (fun s0 hs0 => ?_)
  have R0 : Irrel n s s0 := by rw [hs0]; exact Irrel.of_nodes rfl rfl rfl rfl rfl
  have hseen0 : s0.maxHeightSeen = s.maxHeightSeen := by rw [hs0]
  have hn0 : n < s0.nodes.size := by rw [R0.same.size]; exact hn
  obtain ⟨s1, h1⟩ := P21.mhas_ok hn0
  refine Out.bind_ok h1 ?_
  refine Out.bind_ok (scopeHeight_top_run s1) ?_
  have R1 : Irrel n s s1 := R0.trans (Irrel.mhas h1)
  have hseen1 : s1.maxHeightSeen = s.maxHeightSeen := (mhas_seen h1).trans hseen0
  have I1 : GInv env s1 op := I.congr R1.same
  have hn1 : n < s1.nodes.size := by rw [R1.same.size]; exact hn
  have hpar1 : ∀ p i, (p, i) ∈ (s1.nodeD n).parents → op p ≠ .closed := by
    intro p i hp; rw [(R1.same.node n).parents] at hp; exact hpar p i hp
  have F1 : CFrame s s1 := (R1.rel (fun _ => False)).fr
  have Rm1 : RoomH N s1 := R.of_cframe F1 hseen1
  -- the first `setHeight n 1`
  by_cases hN1 : (N : Int) < 0 + 1
  · refine Out.of_err (run_bind_err (setHeight_beyond Rm1 hN1)) ⟨by omega, ?_⟩
    show (0 : Int) + 1 = N + 1
    omega
  have h2 := setHeight_within (n := n) Rm1 (Int.not_lt.1 hN1)
  refine Out.bind_ok h2 ?_
  generalize hs2 : heightSet n (0 + 1) s1 = s2 at h2
  have hseen2 : s2.maxHeightSeen = max s.maxHeightSeen 1 := by rw [← hs2, ← hseen1]; rfl
  obtain ⟨U2, hab2, hl2, hh2, hoth2⟩ := setHeight_ok_upd hn1 h2
  have I2 : GInv env s2 op := I1.setHeight_open U2 hopn hpar1
  have hn2 : n < s2.nodes.size := by rw [U2.size]; exact hn1
  have F2 : CFrame s s2 := F1.trans hl2.fr
  have Rm2 : RoomH N s2 := Rm1.of_cframe' hl2.fr (by rw [hseen2, hseen1]; omega)
    (by rw [hseen2]; have := R.seen; omega)
  have hcs : s2.children n = kids (s2.nodeD n).kind := I2.children hn2
  have hkn : kids (s2.nodeD n).kind = kids (s.nodeD n).kind := by rw [F2.kind]
  have hx2 : HEx s2 op := by
    refine hx.transfer F2.kind (by rw [hseen2]; omega) (fun m hm ho => ?_)
    have hmn : m ≠ n := fun e => by rw [e] at ho; exact hopn ho
    rw [State.isNecessary, hoth2 m hmn] at hm
    refine ⟨by rw [← R1.same.nec m]; exact hm, ho, ?_⟩
    rw [hoth2 m hmn, (R1.same.node m).height]
  refine Out.bind_getNode hn2 ?_
  refine Out.bind_get ?_
  -- the loop
  refine Out.bind (Q := fun (b : Int × Nat) t => b.2 = (s2.children n).length ∧
      GInv env t (upd op n (.linking (s2.children n).length)) ∧
      (∀ m, n ≤ m → t.nodeD m = s2.nodeD m) ∧ LRel (fun _ => False) s2 t ∧
      b.1 = (linkH s n (s2.children n).length : Int) ∧
      HEx t (upd op n (.linking (s2.children n).length)) ∧
      linkH s n (s2.children n).length ≤ N + 1 ∧ s2.maxHeightSeen ≤ t.maxHeightSeen ∧
      t.maxHeightSeen ≤ (N : Int) ∧
      t.maxHeightSeen ≤ max s2.maxHeightSeen (linkH s n (s2.children n).length : Int))
    (forIn_out _ (s2.children n)
      (fun j (b : Int × Nat) t => b.2 = j ∧ GInv env t (upd op n (.linking j)) ∧
        (∀ m, n ≤ m → t.nodeD m = s2.nodeD m) ∧ LRel (fun _ => False) s2 t ∧
        b.1 = (linkH s n j : Int) ∧
        HEx t (upd op n (.linking j)) ∧
        linkH s n j ≤ N + 1 ∧ s2.maxHeightSeen ≤ t.maxHeightSeen ∧
        t.maxHeightSeen ≤ (N : Int) ∧
        t.maxHeightSeen ≤ max s2.maxHeightSeen (linkH s n j : Int))
      _ ?hstep _ s2 ?hinit) ?rest
  case hinit =>
    refine ⟨rfl, by rw [upd_eq_self _ _ _ hop]; exact I2, fun _ _ => rfl, LRel.refl _ _, ?_,
      by rw [upd_eq_self _ _ _ hop]; exact hx2, by rw [linkH_zero]; omega, Int.le_refl _, Rm2.seen, by omega⟩
    show (s2.nodeD n).height = _
    rw [hh2, linkH_zero]; rfl
  case hstep =>
    intro j c b t hj ⟨hbj, It, hsame, hrel, hb1, hHB, hlk, hsl, hsN, hsu⟩
    have hkj : (kids (t.nodeD n).kind)[b.2]? = some c := by
      rw [hsame n (Nat.le_refl _), ← hcs, hbj]; exact hj
    have hkjs : (kids (s.nodeD n).kind)[j]? = some c := by
      rw [← hkn, ← hcs]; exact hj
    have hcn : c < n := It.kid_lt hkj
    have hlowc : ∀ m, upd op n (.linking j) m ≠ .closed → c < m := by
      intro m hm
      by_cases e : m = n
      · omega
      · rw [upd_other _ _ _ e] at hm; have := hlow m hm; omega
    have hclc : op c = .closed := by
      cases e : op c with
      | closed => rfl
      | linking k => have := hlow c (by rw [e]; exact fun e => by cases e); omega
      | unlinking k => have := hlow c (by rw [e]; exact fun e => by cases e); omega
    have Ft : CFrame s t := F2.trans hrel.fr
    have Rt : RoomH N t := Rm2.of_cframe' hrel.fr hsl hsN
    have hcn' : needH s c < needH s n := needH_child_lt K (List.mem_of_getElem? hkjs)
    have T := ih c b.2 n t _ It hHB Rt (by rw [upd_self, hbj]) hkj hlowc (by omega)
    rw [needH_cframe Ft c] at T
    refine Out.bind' T (fun t' ⟨p1, p2⟩ => ⟨by omega, p2⟩) (fun _ t1 ha ⟨q1, q2, q3⟩ => ?_)
    obtain ⟨It1, hab, hl, hnecc⟩ := (link_spec env fuel).2 c b.2 n t t1 _ ha It (by rw [upd_self, hbj]) hkj hlowc
    rw [upd_upd, hbj] at It1 q2
    have hct1 : c < t1.nodes.size := by
      rw [hl.fr.size, hrel.fr.size]; omega
    have Ft1 : CFrame s t1 := Ft.trans hl.fr
    have hch : (t1.nodeD c).height = (needH s c : Int) := by
      have := (q2 c hnecc (by rw [upd_other _ _ _ (by omega)]; exact hclc)).1
      rw [needH_cframe Ft1 c] at this; exact this
    have hlk1 := linkH_succ hkjs
    have hstep : ∀ h' : Int, h' = (linkH s n (j + 1) : Int) →
        (j + 1 = j + 1) ∧ GInv env t1 (upd op n (.linking (j + 1))) ∧
        (∀ m, n ≤ m → t1.nodeD m = s2.nodeD m) ∧ LRel (fun _ => False) s2 t1 ∧
        h' = (linkH s n (j + 1) : Int) ∧
        HEx t1 (upd op n (.linking (j + 1))) ∧
        linkH s n (j + 1) ≤ N + 1 ∧ s2.maxHeightSeen ≤ t1.maxHeightSeen ∧
        t1.maxHeightSeen ≤ (N : Int) ∧
        t1.maxHeightSeen ≤ max s2.maxHeightSeen (linkH s n (j + 1) : Int) := by
      intro h' he
      refine ⟨rfl, It1, fun m hm => (hab m (by omega)).trans (hsame m hm), hrel.trans hl, he, q2,
        by omega, by omega, by omega, by omega⟩
    refine Out.bind_getNode hct1 ?_
    by_cases hge : (t1.nodeD c).height ≥ b.1
    · rw [if_pos hge]
      refine Out.pure ⟨_, rfl, ?_⟩
      have := hstep ((t1.nodeD c).height + 1) (by omega)
      rw [hbj]; exact this
    · rw [if_neg hge]
      refine Out.pure ⟨_, rfl, ?_⟩
      have := hstep b.1 (by omega)
      rw [hbj]; exact this
  case rest =>
    intro b s3 h3 ⟨hbl, I3, hsame3, hrel3, hb1, hHB3, hlk3, hsl3, hsN3, hsu3⟩
    have hlen : (s2.children n).length = (kids (s.nodeD n).kind).length := by rw [hcs, hkn]
    rw [hlen, linkH_full K n] at hb1 hlk3 hsu3
    have hn3 : n < s3.nodes.size := by rw [hrel3.fr.size]; exact hn2
    have F3 : CFrame s s3 := F2.trans hrel3.fr
    have Rm3 : RoomH N s3 := Rm2.of_cframe' hrel3.fr hsl3 hsN3
    -- the final `setHeight n (needH n)`
    by_cases hNn : (N : Int) < b.1
    · refine Out.of_err (run_bind_err (setHeight_beyond Rm3 hNn)) ⟨by omega, ?_⟩
      show b.1 = N + 1
      omega
    have hle : needH s n ≤ N := by omega
    have h4 := setHeight_within (n := n) Rm3 (Int.not_lt.1 hNn)
    refine Out.bind_ok h4 ?_
    generalize hs4 : heightSet n b.1 s3 = s4 at h4
    have hseen4 : s4.maxHeightSeen = max s.maxHeightSeen (needH s n : Int) := by
      rw [← hs4]
      show max s3.maxHeightSeen b.1 = _
      omega
    obtain ⟨U4, hab4, hl4, hh4, hoth4⟩ := setHeight_ok_upd hn3 h4
    have hpar3 : ∀ p i, (p, i) ∈ (s3.nodeD n).parents →
        upd op n (.linking (s2.children n).length) p ≠ .closed := by
      intro p i hp
      have hpn : n < p := I3.par_lt hp
      rw [upd_other _ _ _ (by omega)]
      rw [hsame3 n (Nat.le_refl _), U2.self.parents] at hp
      exact hpar1 p i hp
    have I4 : GInv env s4 (upd op n (.linking (s2.children n).length)) :=
      I3.setHeight_open U4 (by rw [upd_self]; exact fun e => by cases e) hpar3
    have hn4 : n < s4.nodes.size := by rw [U4.size]; exact hn3
    have F4 : CFrame s s4 := F3.trans hl4.fr
    have hnec4 := I4.lnec n _ (upd_self _ _ _)
    have h04 : 0 ≤ (s4.nodeD n).height := by rw [hh4]; omega
    have hrch4 : s4.rch.maxAllowed = (N : Int) := by
      have hk := F4.key
      simp only [stateKey, Prod.mk.injEq] at hk
      have h1 : s4.rch.queues.size = s.rch.queues.size := hk.2.2.2.2.2.2.2.2.2.2.2.2.2.2.1
      rw [← R.rch]; simp only [Heap.maxAllowed, h1]
    -- the exact heights for the final labelling, for any state with the same heights, necessity, kinds and seen
    have hfin : ∀ s' : State, (∀ m, (s'.nodeD m).height = (s4.nodeD m).height) →
        (∀ m, s'.isNecessary m = s4.isNecessary m) → (∀ m, (s'.nodeD m).kind = (s4.nodeD m).kind) →
        s'.maxHeightSeen = s4.maxHeightSeen →
        needH s n ≤ N ∧ HEx s' (upd op n .closed) ∧
          s'.maxHeightSeen = max s.maxHeightSeen (needH s n : Int) := by
      intro s' hh hnc hkk hss
      refine ⟨hle, fun m hm ho => ?_, by rw [hss]; exact hseen4⟩
      have hks : ∀ m, (s'.nodeD m).kind = (s.nodeD m).kind := fun m => (hkk m).trans (F4.kind m)
      rw [needH_congr hks, hh, hss, hseen4]
      by_cases e : m = n
      · rw [e, hh4]; exact ⟨hb1, by omega⟩
      · rw [upd_other _ _ _ e] at ho
        rw [hnc] at hm
        rw [State.isNecessary, hoth4 m e] at hm
        rw [hoth4 m e]
        have := hHB3 m hm (by rw [upd_other _ _ _ e]; exact ho)
        rw [needH_cframe F3 m] at this
        exact ⟨this.1, by omega⟩
    refine Out.bind_get ?_
    refine Out.bind_dassert (fun _ => by rw [hnec4.2]; rfl) ?_
    refine Out.bind_dassert (fun _ => hnec4.1) ?_
    rw [I4.isStale hn4]
    cases hst : staleOf s4 n with
    | false =>
      simp only [Bool.false_eq_true, if_false]
      exact tail_out _ hn4 (I4.node hn4).valid (I4.node hn4).kind
        (hfin s4 (fun _ => rfl) (fun _ => rfl) (fun _ => rfl) rfl)
    | true =>
      simp only [if_true]
      refine Out.bind_ok
        (markMapRefUnknown_static_run (by omega) hn4 (I4.node hn4).valid (I4.node hn4).kind) ?_
      have hpre : (!(s4.nodeD n).inRch && s4.needsToBeComputed n) = true := by
        rw [hnec4.2, State.needsToBeComputed, hnec4.1, I4.isStale hn4, hst]; rfl
      refine Out.bind_ok (P21.rchInsert_ok hn4 hpre h04 (by rw [hrch4, hh4]; omega)) ?_
      have hnd : ∀ m, ∃ x, (inserted n (s4.nodeD n).height s4).nodeD m =
          { s4.nodeD m with heightInRch := x } := by
        intro m
        rw [inserted_nodeD]
        split
        · exact ⟨_, rfl⟩
        · exact ⟨_, rfl⟩
      have hsz : (inserted n (s4.nodeD n).height s4).nodes.size = s4.nodes.size := Array.size_modify ..
      refine tail_out (env := env) _ (by rw [hsz]; exact hn4) ?_ ?_ (hfin _ ?_ ?_ ?_ rfl)
      · obtain ⟨x, hx⟩ := hnd n; rw [hx]; exact (I4.node hn4).valid
      · obtain ⟨x, hx⟩ := hnd n; rw [hx]; exact (I4.node hn4).kind
      · intro m; obtain ⟨x, hx⟩ := hnd m; rw [hx]
      · intro m; obtain ⟨x, hx⟩ := hnd m; rw [State.isNecessary, hx]; rfl
      · intro m; obtain ⟨x, hx⟩ := hnd m; rw [hx]

theorem link_out (env : Env) (N fuel : Nat) : BNOut env N fuel ∧ APOut env N fuel := by
  induction fuel with
  | zero =>
    constructor
    · intro n s op _ _ _ _ _ _ hf; omega
    · intro c idx p s op _ _ _ _ _ _ hf; omega
  | succ fuel ih => exact ⟨bn_out env N fuel ih.2, ap_out env N fuel ih.1⟩

/-- **The linking cascade, exactly.**  It returns iff the static height of `n` is within the limit; then every
closed necessary node (now including `n` and everything below it) has exactly its static height and
`maxHeightSeen` is `max old (needH n)`.  Otherwise it panics with `"height-limit"` — no other panic is possible —
and `maxHeightSeen` is `N + 1`. -/
theorem becameNecessary_out {env : Env} {N fuel n : Nat} {s : State} {op : Nat → Op}
    (I : GInv env s op) (hx : HEx s op) (R : RoomH N s)
    (hop : op n = .linking 0) (hlow : ∀ m, op m ≠ .closed → n ≤ m)
    (hpar : ∀ p i, (p, i) ∈ (s.nodeD n).parents → op p ≠ .closed) (hf : 2 * n + 2 ≤ fuel) :
    Out (becameNecessary env fuel n) s
      (fun _ s' => needH s n ≤ N ∧ HEx s' (upd op n .closed) ∧
        s'.maxHeightSeen = max s.maxHeightSeen (needH s n : Int))
      (fun s' => N < needH s n ∧ s'.maxHeightSeen = (N : Int) + 1) :=
  (link_out env N fuel).1 n s op I hx R hop hlow hpar hf

end IncrVerif.Proofs.HeightH
