import IncrVerif.Proofs.Sched5
/-!
# Safety of the drain: under the invariant no assertion can fail

`Safe s`: the two facts about the static graph that the heap operations assert and that the invariant
does not contain: every necessary node's height is within the recompute heap's range, and every
necessary node was created at top level (so `scope.height()` cannot fail).

Theorems: from `Inv`/`DrainInv` and `Safe`, a run of `recomputeOne` / `recompute` / `drainHeap` that ends
in a panic can only have run out of fuel (`Panic.outOfFuel`): no `assert!`, `debug_assert!`, `unwrap` or
model-level lookup fails — with `cfg.debug = true` or `false`.  For `recomputeOne` moreover `fuel = 0`.

This file: `Safe`, the total-correctness calculus `Runs`, and the primitives of the notification walk
(`child_changed`, `insert`, `parent_iter_can_recompute_now`) on a state satisfying the walk invariant
`KInv`.  `P2.lean`: the walk and the theorems.
-/
namespace IncrVerif.Proofs.Sched
open IncrVerif.Engine IncrVerif.Proofs IncrVerif.Proofs.Step

structure Safe (s : State) : Prop where
  height : ∀ n, s.isNecessary n = true → (s.nodeD n).height ≤ s.rch.maxAllowed
  scope : ∀ n, s.isNecessary n = true → (s.nodeD n).createdIn = .top

theorem maxAllowed_congr {s s' : State} (hq : s'.rch.queues.size = s.rch.queues.size) :
    s'.rch.maxAllowed = s.rch.maxAllowed := by
  simp only [Heap.maxAllowed, hq]

/-- `Safe` only depends on the graph and the number of buckets -/
theorem Safe.transfer {s s' : State} (S : Safe s) (hsh : ∀ m, SameShape (s.nodeD m) (s'.nodeD m))
    (hq : s'.rch.queues.size = s.rch.queues.size) : Safe s' := by
  refine ⟨fun n hn => ?_, fun n hn => ?_⟩
  · rw [isNecessary_of_shape hsh] at hn
    rw [(hsh n).height, maxAllowed_congr hq]; exact S.height n hn
  · rw [isNecessary_of_shape hsh] at hn
    rw [(hsh n).createdIn]; exact S.scope n hn

theorem Safe.frame {s s' : State} (S : Safe s) (f : Frame s s') : Safe s' :=
  S.transfer f.shape f.qsize

/-! ## a total-correctness calculus for single runs -/

/-- the run of `x` from `s` either returns `a` in a state `s1` with `Q a s1`, or ends in a panic `e`
with `P e` -/
def Runs {α} (P : Panic → Prop) (x : M α) (s : State) (Q : α → State → Prop) : Prop :=
  match x.run.run s with
  | (.ok a, s1) => Q a s1
  | (.error e, _) => P e

section runs
variable {α β : Type} {P : Panic → Prop} {x : M α} {s : State} {Q : α → State → Prop}

theorem Runs.of_ok {a : α} {s1 : State} (h : x.run.run s = (.ok a, s1)) (hq : Q a s1) :
    Runs P x s Q := by
  unfold Runs; rw [h]; exact hq

theorem Runs.of_err {e : Panic} {s1 : State} (h : x.run.run s = (.error e, s1)) (hp : P e) :
    Runs P x s Q := by
  unfold Runs; rw [h]; exact hp

theorem Runs.err (R : Runs P x s Q) {e : Panic} {s' : State} (h : x.run.run s = (.error e, s')) :
    P e := by
  unfold Runs at R; rw [h] at R; exact R

theorem Runs.ok (R : Runs P x s Q) {a : α} {s' : State} (h : x.run.run s = (.ok a, s')) :
    Q a s' := by
  unfold Runs at R; rw [h] at R; exact R

theorem Runs.mono {Q' : α → State → Prop} (R : Runs P x s Q) (h : ∀ a t, Q a t → Q' a t) :
    Runs P x s Q' := by
  unfold Runs at R ⊢
  rcases hx : x.run.run s with ⟨_ | a, s1⟩ <;> rw [hx] at R
  · exact R
  · exact h a s1 R

/-- the same run, written differently -/
theorem Runs.congr {y : M α} {s0 : State} (h : x.run.run s = y.run.run s0) (R : Runs P y s0 Q) :
    Runs P x s Q := by
  unfold Runs at R ⊢; rw [h]; exact R

theorem Runs.bind {f : α → M β} {Q' : β → State → Prop} (hx : Runs P x s Q)
    (hf : ∀ a s1, Q a s1 → Runs P (f a) s1 Q') : Runs P (x >>= f) s Q' := by
  unfold Runs at hx ⊢
  rw [run_bind]
  rcases h : x.run.run s with ⟨_ | a, s1⟩ <;> rw [h] at hx
  · exact hx
  · exact hf a s1 hx

theorem Runs.pure {a : α} (h : Q a s) : Runs P (pure a : M α) s Q := Runs.of_ok (run_pure a s) h

theorem Runs.get {Q : State → State → Prop} (h : Q s s) : Runs P (get : M State) s Q :=
  Runs.of_ok (run_get s) h

theorem Runs.dassert {c : Bool} {site : String} {Q : Unit → State → Prop} (hc : c = true)
    (h : Q () s) : Runs P (dassert c site) s Q := by
  refine Runs.of_ok ?_ h
  rw [run_dassert, if_neg]
  rintro ⟨-, h⟩; rw [hc] at h; cases h

theorem Runs.getNode {n : Nat} {nd : Node} {Q : Node → State → Prop} (hn : s.nodes[n]? = some nd)
    (h : Q nd s) : Runs P (getNode n) s Q :=
  Runs.of_ok (run_getNode_some hn) h

/-- the first half of a bind returns `a` in `s1` -/
theorem Runs.bind_ok {f : α → M β} {Q' : β → State → Prop} {a : α} {s1 : State}
    (h : x.run.run s = (.ok a, s1)) (R : Runs P (f a) s1 Q') : Runs P (x >>= f) s Q' :=
  Runs.congr (run_bind_ok h) R

theorem Runs.bind_get {f : State → M β} {Q' : β → State → Prop} (R : Runs P (f s) s Q') :
    Runs P ((MonadState.get : M State) >>= f) s Q' := Runs.bind_ok (run_get s) R

theorem Runs.bind_dassert {c : Bool} {site : String} {f : Unit → M β} {Q' : β → State → Prop}
    (hc : c = true) (R : Runs P (f ()) s Q') : Runs P (Engine.dassert c site >>= f) s Q' := by
  refine Runs.bind_ok ?_ R
  rw [run_dassert, if_neg]
  rintro ⟨-, h⟩; rw [hc] at h; cases h

theorem Runs.bind_getNode {n : Nat} {nd : Node} {f : Node → M β} {Q' : β → State → Prop}
    (hn : s.nodes[n]? = some nd) (R : Runs P (f nd) s Q') : Runs P (Engine.getNode n >>= f) s Q' :=
  Runs.bind_ok (run_getNode_some hn) R

end runs

/-- a bind that panicked: the first half panicked, or it returned and the second half panicked -/
theorem bind_err_inv {α β} {x : M α} {f : α → M β} {s s' : State} {e : Panic}
    (h : (x >>= f).run.run s = (.error e, s')) :
    x.run.run s = (.error e, s') ∨
      ∃ a s1, x.run.run s = (.ok a, s1) ∧ (f a).run.run s1 = (.error e, s') := by
  rw [run_bind] at h
  rcases hx : x.run.run s with ⟨e1 | a, s1⟩
  · rw [hx] at h; cases h; exact Or.inl rfl
  · rw [hx] at h; exact Or.inr ⟨a, s1, rfl, h⟩

/-- **loop rule**: if from every state satisfying `K` the body either returns in a state satisfying `K`
or ends in a panic satisfying `P`, then so does the loop -/
theorem Runs.forIn {α} {P : Panic → Prop} (K : State → Prop) (f : α → PUnit → M (ForInStep PUnit))
    (l : List α)
    (hbody : ∀ b, b ∈ l → ∀ t, K t → Runs P (f b ⟨⟩) t (fun _ t' => K t')) :
    ∀ t, K t → Runs P (forIn l PUnit.unit f) t (fun _ t' => K t') := by
  induction l with
  | nil => intro t hk; rw [List.forIn_nil]; exact Runs.pure hk
  | cons a l ih =>
    intro t hk
    rw [List.forIn_cons]
    refine Runs.bind (hbody a (List.mem_cons_self ..) t hk) ?_
    intro x s1 hk1
    cases x with
    | done b => exact Runs.pure hk1
    | yield b => exact ih (fun b hb => hbody b (List.mem_cons_of_mem _ hb)) s1 hk1

/-! ## the primitives of the notification walk -/

/-- `child_changed` on a valid parent of a static kind returns at once (when there is fuel) -/
theorem childChanged_static_run {env : Env} {fuel p c ci : Nat} {o : Option Val} {t : State} {pn : Node}
    (hp : t.nodes[p]? = some pn) (hv : pn.valid = true) (hk : StaticKind env pn.kind) :
    (childChanged env (fuel + 1) p c ci o).run.run t = (.ok (), t) := by
  unfold childChanged
  rw [run_bind_ok (run_getNode_some hp)]
  have hk? : pn.kind? = some pn.kind := by simp [Node.kind?, hv]
  rw [hk?]
  cases hkd : pn.kind <;> rw [hkd] at hk <;> first | rfl | exact hk.elim

theorem childChanged_zero_run {env : Env} {p c ci : Nat} {o : Option Val} {t : State} :
    (childChanged env 0 p c ci o).run.run t = (.error .outOfFuel, t) := by
  unfold childChanged; rfl

/-- `child_changed` on a valid parent of a static kind: does nothing, or `fuel = 0` -/
theorem childChanged_runs {env : Env} {fuel p c ci : Nat} {o : Option Val} {t : State} {pn : Node}
    (hp : t.nodes[p]? = some pn) (hv : pn.valid = true) (hk : StaticKind env pn.kind) :
    Runs (fun e => e = .outOfFuel ∧ fuel = 0) (childChanged env fuel p c ci o) t
      (fun _ t' => t' = t) := by
  cases fuel with
  | zero => exact Runs.of_err childChanged_zero_run ⟨rfl, rfl⟩
  | succ fuel => exact Runs.of_ok (childChanged_static_run hp hv hk) rfl

/-- `insert` of a not queued node that needs to be computed and whose height is in range: no
assertion fails -/
theorem rchInsert_safe_run {t : State} {p : Nat} {nd : Node} (hp : t.nodes[p]? = some nd)
    (hnot : nd.inRch = false) (hneeds : t.needsToBeComputed p = true) (h0 : 0 ≤ nd.height)
    (hmax : nd.height ≤ t.rch.maxAllowed) :
    (rchInsert p).run.run t = (.ok (), inserted p nd.height t) := by
  rw [rchInsert_run, hp]
  dsimp only
  rw [if_neg (by rintro ⟨-, h⟩; rw [hnot, hneeds] at h; cases h),
    if_neg (by rintro ⟨-, h⟩; omega), if_neg (by omega), if_neg (by omega)]

/-- what the safety walk needs of a parent `p` of `n`, in the state `T` in which the notification
starts -/
structure ParentSafe (env : Env) (T : State) (n p : Nat) : Prop where
  ok : ParentOK env T p
  child : n ∈ kids (T.nodeD p).kind
  stale : (T.nodeD p).recomputedAt < (T.nodeD n).changedAt
  h0 : 0 ≤ (T.nodeD p).height
  hmax : (T.nodeD p).height ≤ T.rch.maxAllowed
  scope : (T.nodeD p).createdIn = .top

/-- a parent of the changed node needs to be computed, throughout the notification walk -/
theorem ParentSafe.needs {env : Env} {T t : State} {n p : Nat} (h : ParentSafe env T n p)
    (q : Quiet T t) : t.needsToBeComputed p = true := by
  have ok := h.ok.quiet q
  unfold State.needsToBeComputed
  rw [ok.nec, isStale_static t p ok.valid ok.kind, Bool.true_and]
  refine staleOf_of_child (c := n) (by rw [(q.node p).kind]; exact h.child) ?_
  rw [(q.node n).changedAt, (q.node p).recomputedAt]
  exact h.stale

theorem KInv.maxAllowed {T t : State} {P : List Nat} (k : KInv T P t) :
    t.rch.maxAllowed = T.rch.maxAllowed := maxAllowed_congr k.qsize

/-- `insert p` for a not yet queued parent `p`, during the walk -/
theorem KInv.insert_run {env : Env} {T t : State} {P : List Nat} {n p : Nat} {nd : Node}
    (k : KInv T P t) (hp : ParentSafe env T n p) (hmem : p ∈ P) (hnd : t.nodes[p]? = some nd)
    (hnot : nd.inRch = false) :
    (rchInsert p).run.run t = (.ok (), IncrVerif.Proofs.inserted p nd.height t) ∧
      KInv T P (IncrVerif.Proofs.inserted p nd.height t) := by
  have e : t.nodeD p = nd := nodeD_of_some hnd
  have hh : nd.height = (T.nodeD p).height := by rw [← e]; exact (k.q.node p).height
  have h0 : 0 ≤ nd.height := by rw [hh]; exact hp.h0
  have hmax : nd.height ≤ t.rch.maxAllowed := by rw [hh, k.maxAllowed]; exact hp.hmax
  exact ⟨rchInsert_safe_run hnd hnot (hp.needs k.q) h0 hmax, k.inserted hp.ok hmem hnd hnot h0 hmax⟩

/-- `parent_iter_can_recompute_now p0 n` for a not queued parent `p0` of `n`, during the walk: no
assertion fails, no lookup fails -/
theorem KInv.picrn_run {env : Env} {T t : State} {P : List Nat} {n p0 : Nat} {pn : Node}
    (k : KInv T P t) (hp : ParentSafe env T n p0) (hmem : p0 ∈ P) (hn : n < T.nodes.size)
    (hpn : t.nodes[p0]? = some pn) (hnot : pn.inRch = false) :
    ∃ b t', (parentIterCanRecomputeNow p0 n).run.run t = (.ok b, t') ∧ KInv T P t' := by
  have e : t.nodeD p0 = pn := nodeD_of_some hpn
  have ok := hp.ok.quiet k.q
  have hv : pn.valid = true := by rw [← e]; exact ok.valid
  have hk? : pn.kind? = some pn.kind := by simp [Node.kind?, hv]
  have hkind : pn.kind = (T.nodeD p0).kind := by rw [← e]; exact (k.q.node p0).kind
  have hscope : pn.createdIn = .top := by rw [← e, (k.q.node p0).createdIn]; exact hp.scope
  have hnt : n < t.nodes.size := by rw [k.q.size]; exact hn
  have hchild : n ∈ kids pn.kind := by rw [hkind]; exact hp.child
  have hcan : ∃ can, canRecomputeNow t pn pn.kind (t.nodeD n).height (minHeightOf t) = .ok can := by
    have hst : StaticKind env pn.kind := by rw [hkind]; exact hp.ok.kind
    cases hkd : pn.kind <;> rw [hkd] at hchild hst
    case const => cases hchild
    case var => cases hchild
    case fold => exact ⟨_, rfl⟩
    case map f args =>
      simp only [canRecomputeNow]
      split
      · exact ⟨_, rfl⟩
      · rw [hscope]; exact ⟨_, rfl⟩
    all_goals exact hst.elim
  obtain ⟨can, hcan⟩ := hcan
  rw [Step.picrn_run, hpn]
  simp only [hk?, some_of_lt hnt, hcan]
  by_cases h1 : (can || decide (pn.height ≤ minHeightOf t)) = true
  · rw [if_pos h1]; exact ⟨_, _, rfl, k.withMinHeight⟩
  rw [if_neg h1]
  have k' := k.withMinHeight
  have hneeds : t.needsToBeComputed p0 = true := hp.needs k.q
  rw [if_neg (by rintro ⟨-, h⟩; rw [hneeds] at h; cases h),
    if_neg (by rintro ⟨-, h⟩; rw [hnot] at h; cases h)]
  obtain ⟨hrun, k''⟩ := k'.insert_run hp hmem (show (Step.withMinHeight t).nodes[p0]? = some pn from hpn) hnot
  rw [hrun]
  exact ⟨_, _, rfl, k''⟩

end IncrVerif.Proofs.Sched
