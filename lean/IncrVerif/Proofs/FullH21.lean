import IncrVerif.Proofs.FullH20
/-!
# C01 full fragment: the `didChange` invariant through the linking cascade, part 2 (`add_parent`)

Port of `MapRef21`: the order is the ghost rank `rk`.
-/
namespace IncrVerif.Proofs.FullH
open IncrVerif.Engine IncrVerif.Proofs IncrVerif.Proofs.Step IncrVerif.Proofs.Sched IncrVerif.Proofs.Quiet
open IncrVerif.Proofs.MapRefH

/-- the statement for `became_necessary` -/
def BNK (env : Env) (g : Nat → Option Val) (rk : Nat → Nat) (fuel : Nat) : Prop :=
  ∀ n s s', CK rk s → Inherit env g s → (becameNecessary env fuel n).run.run s = (.ok (), s') →
    (∀ m, rk m < rk n → s.isNecessary m = true → KN env g s m) →
    (∀ m, (rk m < rk n ∨ m = n) → s'.isNecessary m = true → KN env g s' m) ∧
    (IsMapRef (s.nodeD n).kind → Unclean env g s n → ∀ a, MkV s a n → (s'.nodeD a).didChange = true) ∧
    (∀ m, ¬ rk m < rk n → (s'.nodeD m).parents = (s.nodeD m).parents) ∧ GRk s s'

/-- the statement for `add_parent_without_adjusting_heights` (the child is valid) -/
def APK (env : Env) (g : Nat → Option Val) (rk : Nat → Nat) (fuel : Nat) : Prop :=
  ∀ c idx p s s', CK rk s → Inherit env g s →
    (addParentWithoutAdjustingHeights env fuel c idx p).run.run s = (.ok (), s') → rk c < rk p →
    (s.nodeD c).valid = true →
    (∀ m, rk m < rk p → s.isNecessary m = true → KN env g s m) →
    (∀ m, rk m < rk p → s'.isNecessary m = true → KN env g s' m) ∧
    (∀ pr, (s.nodeD p).kind = .mapRef pr c → IsMapRef (s.nodeD c).kind → Unclean env g s c →
      ∀ a, MkV s a p → (s'.nodeD a).didChange = true) ∧
    (∀ m, ¬ rk m < rk c → m ≠ c → (s'.nodeD m).parents = (s.nodeD m).parents) ∧ GRk s s'

theorem ap_stepK (env : Env) (g : Nat → Option Val) (rk : Nat → Nat) (fuel : Nat) (ih : BNK env g rk fuel) :
    APK env g rk (fuel + 1) := by
  intro c idx p s s' F T h hcp hcv hpre
  unfold addParentWithoutAdjustingHeights at h
  rw [run_bind_get] at h
  replace h := bind_dassert_inv h
  rw [run_bind_get] at h
  dsimp only at h
  unfold addParent at h
  obtain ⟨s1, hs1, h⟩ := bind_modNode_inv h
  obtain ⟨nd, hnd, h⟩ := bind_getNode_inv h
  have hc1 : c < s1.nodes.size := lt_of_some hnd
  have hc : c < s.nodes.size := by rw [hs1] at hc1; simpa using hc1
  have fr1 : CFrame s s1 := by rw [hs1]; exact CFrame.modNode s c _ (fun _ => rfl)
  have fm1 : FM s s1 := by rw [hs1]; exact FM.modNode s c _ (fun _ h => h)
  have hpar1c : (s1.nodeD c).parents = (s.nodeD c).parents ++ [(p, idx)] := by
    rw [hs1, nodeD_modify, if_pos ⟨rfl, hc⟩]
  have hpar1o : ∀ m, m ≠ c → (s1.nodeD m).parents = (s.nodeD m).parents := by
    intro m hm; rw [hs1, nodeD_modify, if_neg (fun e => hm e.1.symm)]
  have G1 : GRk s s1 := by
    refine ⟨fr1, fm1, by rw [hs1], fun m x hx => ?_⟩
    by_cases e : m = c
    · rw [e, hpar1c]; rw [e] at hx; exact List.mem_append_left _ hx
    · rw [hpar1o m e]; exact hx
  have F1 : CK rk s1 := F.of_cframe fr1
  have T1 : Inherit env g s1 := T.of_cframe fr1
  have hcv1 : (s1.nodeD c).valid = true := by rw [fr1.toV.valid]; exact hcv
  have hvalid : nd.valid = true := by rw [← nodeD_of_some hnd]; exact hcv1
  simp only [hvalid, Bool.not_true, Bool.false_eq_true, if_false] at h
  have hnec1o : ∀ m, m ≠ c → s1.isNecessary m = s.isNecessary m := fun m hm =>
    nec_congr (hpar1o m hm) (fr1.observers m) (fr1.forceNecessary m)
  have hpre1 : ∀ m, rk m < rk p → m ≠ c → s1.isNecessary m = true → KN env g s1 m := fun m hm hmc hn =>
    G1.kn (hpre m hm (by rw [← hnec1o m hmc]; exact hn))
  have tail : ∀ t t', (do
        let x ← getNode p
        match x.kind? with
          | some (.expert e) => runEdgeCallback env e idx
          | _ => pure ()).run.run t = (.ok (), t') → Lt t t' := fun t t' ht => lt_run ht
  cases hwas : s.isNecessary c with
  | true =>
    rw [hwas] at h
    simp only [Bool.not_true, Bool.false_eq_true, if_false] at h
    obtain ⟨cn, hcn, h⟩ := bind_getNode_inv h
    have hcnD : s1.nodeD c = cn := nodeD_of_some hcn
    have hcq : cn.kind? = some (s.nodeD c).kind := by
      rw [← hcnD, Node.kind?, hcv1, fr1.kind]; rfl
    have hcd' : (s.nodeD c).didChange = true → cn.didChange = true := by rw [← hcnD]; exact fm1 c
    rw [hcq] at h
    have key : ∃ s2, Lt s1 s2 ∧
        (IsMapRef (s.nodeD c).kind → (s.nodeD c).didChange = true →
          ∀ a, MkV s1 a p → (s2.nodeD a).didChange = true) ∧
        (do
          let x ← getNode p
          match x.kind? with
            | some (.expert e) => runEdgeCallback env e idx
            | _ => pure ()).run.run s2 = (.ok (), s') := by
      cases hkd : (s.nodeD c).kind <;> rw [hkd] at h <;> dsimp only at h
      case mapRef pr' i' =>
        cases hd : cn.didChange with
        | false =>
          rw [hd] at h
          simp only [Bool.false_eq_true, if_false] at h
          refine ⟨s1, Lt.refl _, fun _ hf => ?_, h⟩
          rw [hcd' hf] at hd; cases hd
        | true =>
          rw [hd] at h
          simp only [if_true] at h
          obtain ⟨_, s2, h2, h⟩ := bind_ok_inv h
          exact ⟨s2, markMapRefUnknown_lt h2, fun _ _ => markMapRefUnknown_marksV h2, h⟩
      all_goals exact ⟨s1, Lt.refl _, fun hm => False.elim hm, h⟩
    obtain ⟨s2, L2, hmark, h⟩ := key
    have L3 := tail s2 s' h
    have L13 : Lt s1 s' := L2.trans L3
    have hKc : KN env g s c := hpre c hcp hwas
    refine ⟨fun m hm hn => ?_, fun pr hkp hmc hu a ha => ?_, fun m _ hm => ?_, G1.trans (GRk.of_lt L13)⟩
    · rw [L13.nec] at hn
      by_cases e : m = c
      · rw [e]; exact KC.lt_kn L13 (G1.kn hKc)
      · exact KC.lt_kn L13 (hpre1 m hm e hn)
    · exact L3.fm a (hmark hmc (hKc hcv hmc hu) a (G1.mk_mono ha))
    · rw [L13.pp.1, hpar1o m hm]
  | false =>
    rw [hwas] at h
    simp only [Bool.not_false, if_true] at h
    obtain ⟨_, s2, h2, h⟩ := bind_ok_inv h
    obtain ⟨A, B, C, G2⟩ := ih c s1 s2 F1 T1 h2
      (fun m hm hn => hpre1 m (by omega) (fun e => by rw [e] at hm; omega) hn)
    have L3 := tail s2 s' h
    refine ⟨fun m hm hn => ?_, fun pr hkp hmc hu a ha => ?_, fun m hm1 hm2 => ?_,
      (G1.trans G2).trans (GRk.of_lt L3)⟩
    · rw [L3.nec] at hn
      by_cases e : rk m < rk c ∨ m = c
      · exact KC.lt_kn L3 (A m e hn)
      · have e1 : ¬ rk m < rk c := fun x => e (Or.inl x)
        have e2 : m ≠ c := fun x => e (Or.inr x)
        have hn1 : s1.isNecessary m = true := by
          rw [← nec_congr (C m e1) (G2.fr.observers m) (G2.fr.forceNecessary m)]; exact hn
        exact KC.lt_kn L3 (G2.kn (hpre1 m hm e2 hn1))
    · have hmc1 : IsMapRef (s1.nodeD c).kind := by rw [fr1.kind]; exact hmc
      have hu1 : Unclean env g s1 c := (unclean_vframe fr1.toV c).2 hu
      have hup : MkV s1 a c := MkV.up (ci := idx) hcv1 hmc1 (by rw [hpar1c]; simp) (G1.mk_mono ha)
      exact L3.fm a (B hmc1 hu1 a hup)
    · rw [L3.pp.1, C m hm1, hpar1o m hm2]

end IncrVerif.Proofs.FullH
