import IncrVerif.Proofs.PerKeyH94
/-!
# `VSim`, part 8 (port of ExpertH30): the observer and variable operations
-/
namespace IncrVerif.Proofs.PerKeyH
open IncrVerif.Engine IncrVerif.Driver IncrVerif.Proofs IncrVerif.Proofs.Step IncrVerif.Proofs.Sched
open IncrVerif.Proofs.ExpertH IncrVerif.Proofs.EffH

theorem VSim.getObs (o : Nat) : VSim (Engine.getObs o) (Engine.getObs o) := by
  intro s; unfold Engine.getObs; vsim
  split <;> vsim
macro_rules | `(tactic| vsim_leaf) => `(tactic| with_reducible exact IncrVerif.Proofs.PerKeyH.VSim.getObs _)

theorem VSim.modObs (o : Nat) (f : ObsRec → ObsRec) : VSim (Engine.modObs o f) (Engine.modObs o f) := by
  intro s; unfold Engine.modObs; vsim
macro_rules | `(tactic| vsim_leaf) => `(tactic| with_reducible exact IncrVerif.Proofs.PerKeyH.VSim.modObs _ _)

theorem VSim.getVar (v : Nat) : VSim (Engine.getVar v) (Engine.getVar v) := by
  intro s; unfold Engine.getVar; vsim
  split <;> vsim
macro_rules | `(tactic| vsim_leaf) => `(tactic| with_reducible exact IncrVerif.Proofs.PerKeyH.VSim.getVar _)

theorem VSim.modVar (v : Nat) (f : VarCell → VarCell) : VSim (Engine.modVar v f) (Engine.modVar v f) := by
  intro s; unfold Engine.modVar; vsim
macro_rules | `(tactic| vsim_leaf) => `(tactic| with_reducible exact IncrVerif.Proofs.PerKeyH.VSim.modVar _ _)

theorem VSim.addNewObservers (env : Env) (fuel : Nat) :
    VSim (Engine.addNewObservers env fuel) (Engine.addNewObservers (penv env) fuel) := by
  intro s; unfold Engine.addNewObservers; vsim
  split <;> vsim
macro_rules | `(tactic| vsim_leaf) => `(tactic| with_reducible exact IncrVerif.Proofs.PerKeyH.VSim.addNewObservers _ _)

theorem VSim.unlinkDisallowedObservers (fuel : Nat) :
    VSim (Engine.unlinkDisallowedObservers fuel) (Engine.unlinkDisallowedObservers fuel) := by
  intro s; unfold Engine.unlinkDisallowedObservers; vsim
macro_rules | `(tactic| vsim_leaf) => `(tactic|
  with_reducible exact IncrVerif.Proofs.PerKeyH.VSim.unlinkDisallowedObservers _)

theorem VSim.disallowFutureUse (o : Nat) : VSim (Engine.disallowFutureUse o) (Engine.disallowFutureUse o) := by
  intro s; unfold Engine.disallowFutureUse; vsim
  split <;> vsim
macro_rules | `(tactic| vsim_leaf) => `(tactic| with_reducible exact IncrVerif.Proofs.PerKeyH.VSim.disallowFutureUse _)

theorem VSim.didSetVarWhileNotStabilising (v : Nat) :
    VSim (Engine.didSetVarWhileNotStabilising v) (Engine.didSetVarWhileNotStabilising v) := by
  intro s; unfold Engine.didSetVarWhileNotStabilising; vsim
macro_rules | `(tactic| vsim_leaf) => `(tactic|
  with_reducible exact IncrVerif.Proofs.PerKeyH.VSim.didSetVarWhileNotStabilising _)

theorem VSim.writeVar (v : Nat) (f : Val → Val) (isSet : Bool) :
    VSim (Engine.writeVar v f isSet) (Engine.writeVar v f isSet) := by
  intro s; unfold Engine.writeVar; vsim
  split <;> vsim
  split <;> vsim
macro_rules | `(tactic| vsim_leaf) => `(tactic| with_reducible exact IncrVerif.Proofs.PerKeyH.VSim.writeVar _ _ _)

end IncrVerif.Proofs.PerKeyH
