import IncrVerif.Proofs.NestH75
import IncrVerif.Proofs.StepStamp
/-!
# Nested binds (F2), part 7k: no function of the engine changes the KIND of an existing node or the closure (`body`) / left-hand side (`lhs`) of an existing bind record

`BKey s s'` is kept by EVERY function reachable from `stabilise` (and from the other API actions), whatever the outcome — a purely syntactic frame in the `Pres` style of
`Proofs/Step.lean` (port of the ladder of `BindH107`, `TopSame ↦ BKey`).
-/
open IncrVerif.Engine IncrVerif.Proofs IncrVerif.Proofs.Step
namespace IncrVerif.Proofs.NestH.N7k

/-- existing nodes keep their kind, existing bind records their closure and left-hand side -/
structure BKey (s s' : State) : Prop where
  size : s.nodes.size ≤ s'.nodes.size
  kind : ∀ m, m < s.nodes.size → (s'.nodeD m).kind = (s.nodeD m).kind
  binds : ∀ (b : Nat) (br : BindRec), s.binds[b]? = some br →
    ∃ br', s'.binds[b]? = some br' ∧ br'.body = br.body ∧ br'.lhs = br.lhs

instance : PreOrd BKey where
  refl _ := ⟨Nat.le_refl _, fun _ _ => rfl, fun b br h => ⟨br, h, rfl, rfl⟩⟩
  trans h1 h2 := by
    refine ⟨Nat.le_trans h1.size h2.size, fun m hm => ?_, fun b br h => ?_⟩
    · rw [h2.kind m (Nat.lt_of_lt_of_le hm h1.size), h1.kind m hm]
    · obtain ⟨br1, k1, k2, k3⟩ := h1.binds b br h
      obtain ⟨br2, k4, k5, k6⟩ := h2.binds b br1 k1
      exact ⟨br2, k4, k5.trans k2, k6.trans k3⟩

theorem BKey.of_eq {s s' : State} (hn : s'.nodes = s.nodes) (hb : s'.binds = s.binds) : BKey s s' :=
  ⟨by rw [hn]; exact Nat.le_refl _, fun m _ => by simp only [State.nodeD, hn], fun b br h => ⟨br, by rw [hb]; exact h, rfl, rfl⟩⟩

theorem BKey.of_push_node {s s' : State} {nd : Node} (hn : s'.nodes = s.nodes.push nd) (hb : s'.binds = s.binds) : BKey s s' := by
  refine ⟨by rw [hn, Array.size_push]; omega, fun m hm => ?_, fun b br h => ⟨br, by rw [hb]; exact h, rfl, rfl⟩⟩
  simp only [State.nodeD, hn]
  rw [Array.getElem?_push, if_neg (by omega)]

theorem BKey.of_push_bind {s s' : State} {x : BindRec} (hn : s'.nodes = s.nodes) (hb : s'.binds = s.binds.push x) : BKey s s' := by
  refine ⟨by rw [hn]; exact Nat.le_refl _, fun m _ => by simp only [State.nodeD, hn], fun b br h => ⟨br, ?_, rfl, rfl⟩⟩
  have hlt : b < s.binds.size := (Array.getElem?_eq_some_iff.1 h).1
  rw [hb, Array.getElem?_push, if_neg (by omega)]; exact h

macro_rules
  | `(tactic| qleaf) => `(tactic| ((with_reducible apply Step.Pres.modify); intro _; exact BKey.of_push_bind rfl rfl))
macro_rules
  | `(tactic| qleaf) => `(tactic| ((with_reducible apply Step.Pres.modify); intro _; exact BKey.of_push_node rfl rfl))
macro_rules
  | `(tactic| qleaf) => `(tactic| ((with_reducible apply Step.Pres.modify); intro _; exact BKey.of_eq rfl rfl))

theorem PresBK.modNode (n : Nat) (f : Node → Node) (hf : ∀ x, (f x).kind = x.kind) : Step.Pres BKey (modNode n f) := by
  unfold Engine.modNode
  apply Step.Pres.modify
  intro s
  refine ⟨by show s.nodes.size ≤ (s.nodes.modify n f).size; rw [Array.size_modify]; exact Nat.le_refl _, fun m _ => ?_,
    fun b br h => ⟨br, h, rfl, rfl⟩⟩
  rw [nodeD_modify]
  split
  · exact hf _
  · rfl
macro_rules
  | `(tactic| qleaf) => `(tactic| ((with_reducible apply PresBK.modNode); intro _; rfl))

theorem PresBK.modBind (b : Nat) (f : BindRec → BindRec) (hf : ∀ x, (f x).body = x.body ∧ (f x).lhs = x.lhs) :
    Step.Pres BKey (modBind b f) := by
  unfold Engine.modBind
  apply Step.Pres.modify
  intro s
  refine ⟨Nat.le_refl _, fun m _ => rfl, fun b' br h => ?_⟩
  show ∃ br', (s.binds.modify b f)[b']? = some br' ∧ _
  rw [Array.getElem?_modify]
  by_cases e : b = b'
  · rw [if_pos e, h]
    exact ⟨f br, rfl, (hf br).1, (hf br).2⟩
  · rw [if_neg e]
    exact ⟨br, h, rfl, rfl⟩
macro_rules
  | `(tactic| qleaf) => `(tactic| ((with_reducible apply PresBK.modBind); intro _; exact ⟨rfl, rfl⟩))

/-- register a `Step.Pres BKey` lemma as a leaf -/
macro "bk_leaf " n:ident : command =>
  `(macro_rules | `(tactic| qleaf) => `(tactic| with_reducible apply $n))

theorem PresBK.tick : Step.Pres BKey tick := by unfold Engine.tick; qpres
bk_leaf PresBK.tick
theorem PresBK.logEv (e) : Step.Pres BKey (logEv e) := by unfold Engine.logEv; qpres
bk_leaf PresBK.logEv
theorem PresBK.modExpert (b f) : Step.Pres BKey (modExpert b f) := by unfold Engine.modExpert; qpres
bk_leaf PresBK.modExpert
theorem PresBK.modVar (b f) : Step.Pres BKey (modVar b f) := by unfold Engine.modVar; qpres
bk_leaf PresBK.modVar
theorem PresBK.modObs (b f) : Step.Pres BKey (modObs b f) := by unfold Engine.modObs; qpres
bk_leaf PresBK.modObs
theorem PresBK.rchLink (n) : Step.Pres BKey (rchLink n) := by unfold Engine.rchLink; qpres
bk_leaf PresBK.rchLink
theorem PresBK.rchUnlink (n) : Step.Pres BKey (rchUnlink n) := by unfold Engine.rchUnlink; qpres
bk_leaf PresBK.rchUnlink
theorem PresBK.rchInsert (n) : Step.Pres BKey (rchInsert n) := by unfold Engine.rchInsert; qpres
bk_leaf PresBK.rchInsert
theorem PresBK.rchRemove (n) : Step.Pres BKey (rchRemove n) := by unfold Engine.rchRemove; qpres
bk_leaf PresBK.rchRemove
theorem PresBK.rchMinHeight : Step.Pres BKey rchMinHeight := by unfold Engine.rchMinHeight; qpres
bk_leaf PresBK.rchMinHeight
theorem PresBK.rchIncreaseHeight (n) : Step.Pres BKey (rchIncreaseHeight n) := by
  unfold Engine.rchIncreaseHeight; qpres
bk_leaf PresBK.rchIncreaseHeight
theorem PresBK.setHeight (n h) : Step.Pres BKey (setHeight n h) := by unfold Engine.setHeight; qpres
bk_leaf PresBK.setHeight
theorem PresBK.ahhAddUnlessMem (n) : Step.Pres BKey (ahhAddUnlessMem n) := by
  unfold Engine.ahhAddUnlessMem; qpres
bk_leaf PresBK.ahhAddUnlessMem
theorem PresBK.ahhRemoveMin : Step.Pres BKey ahhRemoveMin := by unfold Engine.ahhRemoveMin; qpres
bk_leaf PresBK.ahhRemoveMin
theorem PresBK.ensureHeightRequirement (a b c d) : Step.Pres BKey (ensureHeightRequirement a b c d) := by
  unfold Engine.ensureHeightRequirement; qpres
bk_leaf PresBK.ensureHeightRequirement


macro_rules | `(tactic| qleaf) => `(tactic| apply Pres.forIn)

theorem PresBK.adjustHeightsLoop (oc op fuel) : Step.Pres BKey (adjustHeightsLoop oc op fuel) := by
  induction fuel with
  | zero => unfold Engine.adjustHeightsLoop; qpres
  | succ fuel ih => unfold Engine.adjustHeightsLoop; qpres; all_goals exact ih
bk_leaf PresBK.adjustHeightsLoop
theorem PresBK.adjustHeights (oc op fuel) : Step.Pres BKey (adjustHeights oc op fuel) := by
  unfold Engine.adjustHeights; qpres
bk_leaf PresBK.adjustHeights
theorem PresBK.addParent (a b c) : Step.Pres BKey (addParent a b c) := by unfold Engine.addParent; qpres
bk_leaf PresBK.addParent
theorem PresBK.removeParent (a b c) : Step.Pres BKey (removeParent a b c) := by
  unfold Engine.removeParent; qpres
bk_leaf PresBK.removeParent
theorem PresBK.handleAfterStabilisation (n) : Step.Pres BKey (handleAfterStabilisation n) := by
  unfold Engine.handleAfterStabilisation; qpres
bk_leaf PresBK.handleAfterStabilisation
theorem PresBK.maybeHandleAfterStabilisation (n) : Step.Pres BKey (maybeHandleAfterStabilisation n) := by
  unfold Engine.maybeHandleAfterStabilisation; qpres
bk_leaf PresBK.maybeHandleAfterStabilisation
theorem PresBK.shouldCutoff (env n o v) : Step.Pres BKey (shouldCutoff env n o v) := by
  unfold Engine.shouldCutoff; qpres
bk_leaf PresBK.shouldCutoff
theorem PresBK.edgeOnChange (env e edge) : Step.Pres BKey (edgeOnChange env e edge) := by
  unfold Engine.edgeOnChange; qpres
bk_leaf PresBK.edgeOnChange
theorem PresBK.runEdgeCallback (env e i) : Step.Pres BKey (runEdgeCallback env e i) := by
  unfold Engine.runEdgeCallback; qpres
bk_leaf PresBK.runEdgeCallback
theorem PresBK.observabilityChange (e b) : Step.Pres BKey (observabilityChange e b) := by
  unfold Engine.observabilityChange; qpres
bk_leaf PresBK.observabilityChange
theorem PresBK.markMapRefUnknown (fuel n) : Step.Pres BKey (markMapRefUnknown fuel n) := by
  induction fuel generalizing n with
  | zero => unfold Engine.markMapRefUnknown; qpres
  | succ fuel ih => unfold Engine.markMapRefUnknown; qpres; all_goals exact ih _
bk_leaf PresBK.markMapRefUnknown

set_option maxHeartbeats 600000 in
theorem PresBK.necessary (env : Env) (fuel : Nat) :
    (∀ n, Step.Pres BKey (becameNecessary env fuel n)) ∧
    (∀ c i p, Step.Pres BKey (addParentWithoutAdjustingHeights env fuel c i p)) := by
  induction fuel with
  | zero =>
    constructor
    · intro n; unfold Engine.becameNecessary; qpres
    · intro c i p; unfold Engine.addParentWithoutAdjustingHeights; qpres
  | succ fuel ih =>
    constructor
    · intro n; unfold Engine.becameNecessary; qpres; all_goals exact ih.2 _ _ _
    · intro c i p; unfold Engine.addParentWithoutAdjustingHeights; qpres; all_goals exact ih.1 _
theorem PresBK.becameNecessary (env fuel n) : Step.Pres BKey (becameNecessary env fuel n) :=
  (PresBK.necessary env fuel).1 n
bk_leaf PresBK.becameNecessary
theorem PresBK.addParentWithoutAdjustingHeights (env fuel c i p) :
    Step.Pres BKey (addParentWithoutAdjustingHeights env fuel c i p) := (PresBK.necessary env fuel).2 c i p
bk_leaf PresBK.addParentWithoutAdjustingHeights

set_option maxHeartbeats 600000 in
theorem PresBK.unnecessary (fuel : Nat) :
    (∀ n, Step.Pres BKey (becameUnnecessary fuel n)) ∧ (∀ n, Step.Pres BKey (checkIfUnnecessary fuel n)) ∧
    (∀ n, Step.Pres BKey (removeChildren fuel n)) := by
  induction fuel with
  | zero =>
    refine ⟨?_, ?_, ?_⟩
    · intro n; unfold Engine.becameUnnecessary; qpres
    · intro n; unfold Engine.checkIfUnnecessary; qpres
    · intro n; unfold Engine.removeChildren; qpres
  | succ fuel ih =>
    refine ⟨?_, ?_, ?_⟩
    · intro n; unfold Engine.becameUnnecessary; qpres; all_goals exact ih.2.2 _
    · intro n; unfold Engine.checkIfUnnecessary; qpres; all_goals exact ih.1 _
    · intro n; unfold Engine.removeChildren; qpres; all_goals exact ih.2.1 _
theorem PresBK.becameUnnecessary (fuel n) : Step.Pres BKey (becameUnnecessary fuel n) :=
  (PresBK.unnecessary fuel).1 n
bk_leaf PresBK.becameUnnecessary
theorem PresBK.checkIfUnnecessary (fuel n) : Step.Pres BKey (checkIfUnnecessary fuel n) :=
  (PresBK.unnecessary fuel).2.1 n
bk_leaf PresBK.checkIfUnnecessary
theorem PresBK.removeChildren (fuel n) : Step.Pres BKey (removeChildren fuel n) :=
  (PresBK.unnecessary fuel).2.2 n
bk_leaf PresBK.removeChildren


theorem PresBK.invalidateNode (fuel n) : Step.Pres BKey (invalidateNode fuel n) := by
  induction fuel generalizing n with
  | zero => unfold Engine.invalidateNode; qpres
  | succ fuel ih => unfold Engine.invalidateNode; qpres; all_goals exact ih _
bk_leaf PresBK.invalidateNode

theorem PresBK.propagateInvalidity (fuel) : Step.Pres BKey (propagateInvalidity fuel) := by
  induction fuel with
  | zero => unfold Engine.propagateInvalidity; qpres
  | succ fuel ih => unfold Engine.propagateInvalidity; qpres; all_goals exact ih
bk_leaf PresBK.propagateInvalidity
theorem PresBK.stateAddParent (env fuel c i p) : Step.Pres BKey (stateAddParent env fuel c i p) := by
  unfold Engine.stateAddParent; qpres
bk_leaf PresBK.stateAddParent
theorem PresBK.changeChildBindRhs (env fuel m o nw i) :
    Step.Pres BKey (changeChildBindRhs env fuel m o nw i) := by
  unfold Engine.changeChildBindRhs; qpres
bk_leaf PresBK.changeChildBindRhs

/-! ### expert API -/
theorem PresBK.assertRunningIsChild (n name) : Step.Pres BKey (assertRunningIsChild n name) := by
  unfold Engine.assertRunningIsChild; qpres
bk_leaf PresBK.assertRunningIsChild
theorem PresBK.expertMakeStale (n) : Step.Pres BKey (expertMakeStale n) := by
  unfold Engine.expertMakeStale; qpres
bk_leaf PresBK.expertMakeStale
theorem PresBK.expertAddDependency (env fuel n c cb) :
    Step.Pres BKey (expertAddDependency env fuel n c cb) := by
  unfold Engine.expertAddDependency; qpres
bk_leaf PresBK.expertAddDependency
theorem PresBK.swapEdgeIndices (n c1 i1 c2 i2) : Step.Pres BKey (swapEdgeIndices n c1 i1 c2 i2) := by
  unfold Engine.swapEdgeIndices; qpres
bk_leaf PresBK.swapEdgeIndices
theorem PresBK.expertRemoveDependency (fuel n dep) : Step.Pres BKey (expertRemoveDependency fuel n dep) := by
  unfold Engine.expertRemoveDependency; qpres
bk_leaf PresBK.expertRemoveDependency
theorem PresBK.expertInvalidate (fuel n) : Step.Pres BKey (expertInvalidate fuel n) := by
  unfold Engine.expertInvalidate; qpres
bk_leaf PresBK.expertInvalidate

/-! ### node creation, var writes, effects -/
theorem PresBK.bumpCounter (f : Counters → Counters) : Step.Pres BKey (bumpCounter f) := by
  unfold Engine.bumpCounter; qpres
bk_leaf PresBK.bumpCounter
theorem PresBK.createNode (k sc c) : Step.Pres BKey (createNode k sc c) := by
  unfold Engine.createNode; qpres
bk_leaf PresBK.createNode
theorem PresBK.createVar (v sc) : Step.Pres BKey (createVar v sc) := by unfold Engine.createVar; qpres
bk_leaf PresBK.createVar
theorem PresBK.createBind (b l) : Step.Pres BKey (createBind b l) := by unfold Engine.createBind; qpres
bk_leaf PresBK.createBind
set_option maxHeartbeats 1000000 in
theorem PresBK.elabInstr (loc v i) : Step.Pres BKey (elabInstr loc v i) := by
  cases i with
  | mapOp op => cases op <;> (simp only [Engine.elabInstr]; qpres)
  | _ => simp only [Engine.elabInstr]; qpres
bk_leaf PresBK.elabInstr
theorem PresBK.elabTemplateBase (t v init) : Step.Pres BKey (elabTemplateBase t v init) := by
  unfold Engine.elabTemplateBase; qpres
bk_leaf PresBK.elabTemplateBase
theorem PresBK.memoCall (env m key) : Step.Pres BKey (memoCall env m key) := by
  unfold Engine.memoCall; qpres
bk_leaf PresBK.memoCall
theorem PresBK.elabInstrM (env loc v i) : Step.Pres BKey (elabInstrM env loc v i) := by
  unfold Engine.elabInstrM; qpres
bk_leaf PresBK.elabInstrM
theorem PresBK.elabTemplate (env t v) : Step.Pres BKey (elabTemplate env t v) := by
  unfold Engine.elabTemplate; qpres
bk_leaf PresBK.elabTemplate
theorem PresBK.didSetVarWhileNotStabilising (v) : Step.Pres BKey (didSetVarWhileNotStabilising v) := by
  unfold Engine.didSetVarWhileNotStabilising; qpres
bk_leaf PresBK.didSetVarWhileNotStabilising
theorem PresBK.writeVar (v f b) : Step.Pres BKey (writeVar v f b) := by unfold Engine.writeVar; qpres
bk_leaf PresBK.writeVar
theorem PresBK.disallowFutureUse (o) : Step.Pres BKey (disallowFutureUse o) := by
  unfold Engine.disallowFutureUse; qpres
bk_leaf PresBK.disallowFutureUse
/-- dropping a `Var` handle touches `vars` and `deadVars` only -/
theorem PresBK.dropVarHandle (v) : Step.Pres BKey (dropVarHandle v) := by
  unfold Engine.dropVarHandle; qpres
bk_leaf PresBK.dropVarHandle
theorem PresBK.runEffectBasic (env e) : Step.Pres BKey (runEffectBasic env e) := by
  unfold Engine.runEffectBasic; qpres
bk_leaf PresBK.runEffectBasic
theorem PresBK.runEffects (env fuel effs arg) : Step.Pres BKey (runEffects env fuel effs arg) := by
  unfold Engine.runEffects; qpres
bk_leaf PresBK.runEffects


/-! ### per-key operators, operator closures -/
theorem PresBK.expertValue (env e d sl) : Step.Pres BKey (expertValue env e d sl) := by
  unfold Engine.expertValue; qpres
bk_leaf PresBK.expertValue
theorem PresBK.withOldEvents (env g n σ old x new did) :
    Step.Pres BKey (withOldEvents env g n σ old x new did) := by
  unfold Engine.withOldEvents; qpres
bk_leaf PresBK.withOldEvents
set_option maxHeartbeats 1000000 in
theorem PresBK.perKeyDriver (env fuel op m) : Step.Pres BKey (perKeyDriver env fuel op m) := by
  unfold Engine.perKeyDriver; qpres
bk_leaf PresBK.perKeyDriver

/-! ### notifications, `maybeChangeValue`, `recomputeOne` -/
theorem PresBK.childChanged (env fuel p c ci o) : Step.Pres BKey (childChanged env fuel p c ci o) := by
  induction fuel generalizing p c ci o with
  | zero => unfold Engine.childChanged; qpres
  | succ fuel ih => unfold Engine.childChanged; qpres; all_goals exact ih _ _ _ _
bk_leaf PresBK.childChanged
theorem PresBK.parentIterCanRecomputeNow (p c) : Step.Pres BKey (parentIterCanRecomputeNow p c) := by
  unfold Engine.parentIterCanRecomputeNow; qpres
bk_leaf PresBK.parentIterCanRecomputeNow
theorem PresBK.maybeChangeValueManual (env fuel n o d b) :
    Step.Pres BKey (maybeChangeValueManual env fuel n o d b) := by
  unfold Engine.maybeChangeValueManual; qpres
bk_leaf PresBK.maybeChangeValueManual
theorem PresBK.maybeChangeValue (env fuel n v) : Step.Pres BKey (maybeChangeValue env fuel n v) := by
  unfold Engine.maybeChangeValue; qpres
bk_leaf PresBK.maybeChangeValue


set_option maxHeartbeats 1000000 in
theorem PresBK.recomputeOne (env fuel n) : Step.Pres BKey (recomputeOne env fuel n) := by
  unfold Engine.recomputeOne; qpres
bk_leaf PresBK.recomputeOne

theorem PresBK.recompute (env fuel n) : Step.Pres BKey (recompute env fuel n) := by
  induction fuel generalizing n with
  | zero => unfold Engine.recompute; qpres
  | succ fuel ih => unfold Engine.recompute; qpres; all_goals exact ih _
bk_leaf PresBK.recompute

theorem PresBK.rchRemoveMin : Step.Pres BKey rchRemoveMin := by unfold Engine.rchRemoveMin; qpres
bk_leaf PresBK.rchRemoveMin

theorem PresBK.drainHeap (env fuel) : Step.Pres BKey (drainHeap env fuel) := by
  induction fuel with
  | zero => unfold Engine.drainHeap; qpres
  | succ fuel ih => unfold Engine.drainHeap; qpres; all_goals exact ih
bk_leaf PresBK.drainHeap

theorem PresBK.becameNecessaryPropagate (env fuel n) : Step.Pres BKey (becameNecessaryPropagate env fuel n) := by
  unfold Engine.becameNecessaryPropagate; qpres
bk_leaf PresBK.becameNecessaryPropagate
theorem PresBK.addNewObservers (env fuel) : Step.Pres BKey (addNewObservers env fuel) := by
  unfold Engine.addNewObservers; qpres
bk_leaf PresBK.addNewObservers
theorem PresBK.unlinkDisallowedObservers (fuel) : Step.Pres BKey (unlinkDisallowedObservers fuel) := by
  unfold Engine.unlinkDisallowedObservers; qpres
bk_leaf PresBK.unlinkDisallowedObservers
theorem PresBK.runAll (env fuel o n nu now) : Step.Pres BKey (runAll env fuel o n nu now) := by
  unfold Engine.runAll; qpres
bk_leaf PresBK.runAll
theorem PresBK.stabiliseEnd (env fuel) : Step.Pres BKey (stabiliseEnd env fuel) := by
  unfold Engine.stabiliseEnd; qpres
bk_leaf PresBK.stabiliseEnd

/-- **`stabilise` never touches the naming table**, whatever its outcome. -/
theorem PresBK.stabilise (env fuel) : Step.Pres BKey (stabilise env fuel) := by
  unfold Engine.stabilise; qpres

end IncrVerif.Proofs.NestH.N7k
