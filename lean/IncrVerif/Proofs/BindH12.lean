import IncrVerif.Proofs.BindH8
import IncrVerif.Proofs.BindH11
/-!
# Binds, part 3f: `pop`, the direct-recompute chain, `drainHeap` keep the drain invariant; the values at the end
-/
namespace IncrVerif.Proofs.BindH
open IncrVerif.Engine IncrVerif.Proofs IncrVerif.Proofs.Step IncrVerif.Proofs.Sched

/-! ## the hypothesis about change detectors -/

/-- the hypothesis of the scheduling theorem: `Aux` is an auxiliary invariant (of the fragment at hand) such that,
from a state with the drain invariant and `Aux`, every successful run of a change detector is described by `StepL`
and keeps `Aux`, and so do the runs of the other nodes and `remove_min` -/
structure LcStepsOK (env : Env) (Aux : State → Prop) : Prop where
  lc : ∀ (fuel n b : Nat) (s s' : State) (r : Option Nat), DInv env s (some n) → Aux s →
    (s.nodeD n).kind = .bindLhsChange b → (recomputeOne env fuel n).run.run s = (.ok r, s') →
    (∃ br br', StepL env n b br br' r s s') ∧ Aux s'
  other : ∀ (fuel n : Nat) (s s' : State) (r : Option Nat), DInv env s (some n) → Aux s →
    (StaticKind env (s.nodeD n).kind ∨ ∃ b lc, (s.nodeD n).kind = .bindMain b lc) →
    (recomputeOne env fuel n).run.run s = (.ok r, s') → Aux s'
  pop : ∀ (s s1 : State) (n : Nat), DInv env s none → Aux s →
    rchRemoveMin.run.run s = (.ok (some n), s1) → Aux s1

/-! ## progress frame -/

/-- what every step keeps: the round number, the cells; a node stamped in this round keeps the stamp and its validity -/
structure FrameB (s s' : State) : Prop where
  stabNum : s'.stabNum = s.stabNum
  vars : s'.vars = s.vars
  grow : s.nodes.size ≤ s'.nodes.size
  ran : ∀ m, (s.nodeD m).recomputedAt = s.stabNum →
    (s'.nodeD m).recomputedAt = s.stabNum ∧ (s'.nodeD m).valid = (s.nodeD m).valid

theorem FrameB.refl (s : State) : FrameB s s := ⟨rfl, rfl, Nat.le_refl _, fun _ h => ⟨h, rfl⟩⟩

theorem FrameB.trans {a b c : State} (h1 : FrameB a b) (h2 : FrameB b c) : FrameB a c where
  stabNum := h2.stabNum.trans h1.stabNum
  vars := h2.vars.trans h1.vars
  grow := Nat.le_trans h1.grow h2.grow
  ran m hm := by
    obtain ⟨k1, k2⟩ := h1.ran m hm
    obtain ⟨k3, k4⟩ := h2.ran m (by rw [h1.stabNum]; exact k1)
    exact ⟨by rw [h1.stabNum] at k3; exact k3, k4.trans k2⟩

/-! ## `remove_min` -/

theorem pop_invB {env : Env} {s s1 : State} {n : Nat} (I : DInv env s none)
    (hr : rchRemoveMin.run.run s = (.ok (some n), s1)) : DInv env s1 (some n) ∧ FrameB s s1 := by
  have hpop := rchRemoveMin_inv I.heap hr
  simp only at hpop
  obtain ⟨hq, hmin, hheap1, hs1, -⟩ := hpop
  have hnlt : n < s.nodes.size := lt_size_of_inRch hq
  -- the nodes: only `n`'s marker changed
  have hnode : ∀ m, s1.nodeD m = if m = n then { s.nodeD m with heightInRch := -1 } else s.nodeD m := by
    intro m
    rw [hs1]
    have := nodeD_modify { s with rch := s1.rch } n m (fun x => { x with heightInRch := -1 })
    refine this.trans ?_
    by_cases e : m = n
    · subst e; rw [if_pos ⟨rfl, hnlt⟩, if_pos rfl]; rfl
    · rw [if_neg (fun h => e h.1.symm), if_neg e]; rfl
  have hshape : ∀ m, SameShape (s.nodeD m) (s1.nodeD m) := by
    intro m; rw [hnode]; split <;> exact ⟨rfl, rfl, rfl, rfl, rfl, rfl, rfl, rfl⟩
  have hval : ∀ m, (s1.nodeD m).value = (s.nodeD m).value ∧ (s1.nodeD m).recomputedAt = (s.nodeD m).recomputedAt ∧
      (s1.nodeD m).changedAt = (s.nodeD m).changedAt := by
    intro m; rw [hnode]; split <;> exact ⟨rfl, rfl, rfl⟩
  have hsize : s1.nodes.size = s.nodes.size := by rw [hs1]; simp
  have hvars : s1.vars = s.vars := by rw [hs1]
  have hbinds : s1.binds = s.binds := by rw [hs1]
  have hstab : s1.stabNum = s.stabNum := by rw [hs1]
  have hpc : s1.panicCountdown = s.panicCountdown := by rw [hs1]
  have hnec : ∀ m, s1.isNecessary m = s.isNecessary m := fun m => (hshape m).isNecessary
  have hq1 : ∀ m, (s1.nodeD m).inRch = true → m ≠ n ∧ (s.nodeD m).inRch = true := by
    intro m h
    rw [hnode] at h
    by_cases e : m = n
    · rw [if_pos e] at h; simp [Node.inRch] at h
    · rw [if_neg e] at h; exact ⟨e, h⟩
  -- package as a step relation with no change at all, to reuse the transfer lemmas
  have g := I.graph
  have hch : ∀ m, s1.children m = s.children m := by
    intro m
    by_cases hm : m < s.nodes.size
    · cases hv : (s.nodeD m).valid with
      | true =>
        exact children_congr_kind (hshape m).kind (hshape m).valid hbinds
          (fun e => (g.node m hm hv).1.not_expert e)
      | false =>
        unfold State.children Node.kind?
        rw [(hshape m).valid, hv]; rfl
    · unfold State.children
      rw [nodeD_default_of_ge s m (by omega), nodeD_default_of_ge s1 m (by rw [hsize]; omega)]; rfl
  have hedge : ∀ a c, Edge s1 a c ↔ Edge s a c := by
    intro a c
    constructor
    · intro h
      cases h with
      | child hc => rw [hch] at hc; exact Edge.child hc
      | scope hv hsc hb =>
        rw [(hshape a).valid] at hv; rw [(hshape a).createdIn] at hsc; rw [hbinds] at hb
        exact Edge.scope hv hsc hb
    · intro h
      cases h with
      | child hc => rw [← hch] at hc; exact Edge.child hc
      | scope hv hsc hb =>
        rw [← (hshape a).valid] at hv; rw [← (hshape a).createdIn] at hsc; rw [← hbinds] at hb
        exact Edge.scope hv hsc hb
  have hbelow : ∀ a d, Below s1 a d ↔ Below s a d := by
    intro a d
    constructor
    · intro h
      induction h with
      | refl => exact Below.refl _
      | step he _ ih => exact Below.step ((hedge _ _).1 he) ih
    · intro h
      induction h with
      | refl => exact Below.refl _
      | step he _ ih => exact Below.step ((hedge _ _).2 he) ih
  have hstale : ∀ m, s1.isStale m = s.isStale m := by
    intro m
    by_cases hm : m < s.nodes.size
    · cases hv : (s.nodeD m).valid with
      | true =>
        exact isStale_congr (g.node m hm hv).1 (hshape m).kind (hshape m).valid (hval m).2.1
          (fun c => by rw [hvars]) (hch m) (fun c _ => (hval c).2.2)
      | false =>
        rw [isStale_invalid hv, isStale_invalid (by rw [(hshape m).valid]; exact hv)]
    · unfold State.isStale State.children
      rw [nodeD_default_of_ge s m (by omega), nodeD_default_of_ge s1 m (by rw [hsize]; omega)]; rfl
  have g1 : BGraph env s1 := by
    refine ⟨by rw [hpc]; exact g.pc, ?_, ?_, ?_, ?_, ?_, ?_, ?_, ?_, ?_, ?_⟩
    · intro m hm hv
      rw [hsize] at hm; rw [(hshape m).valid] at hv
      obtain ⟨k1, k2, k3⟩ := g.node m hm hv
      refine ⟨by rw [(hshape m).kind]; exact k1, by rw [(hshape m).cutoff]; exact k2, ?_⟩
      intro c hc; rw [hch] at hc; rw [hsize, (hshape c).valid]; exact k3 c hc
    · intro m hm; rw [hnec] at hm; rw [(hshape m).valid, (hshape m).height]; exact g.nec m hm
    · intro m c hm hv hk
      rw [hsize] at hm; rw [(hshape m).valid] at hv; rw [(hshape m).kind] at hk; rw [hvars]
      exact g.var m c hm hv hk
    · intro m hm i c hc
      rw [hnec] at hm; rw [hch] at hc
      rw [hnec, (hshape c).parents, (hshape c).height, (hshape m).height]
      exact g.child m hm i c hc
    · intro c p i h
      rw [(hshape c).parents] at h; rw [hnec, hch]; exact g.parent c p i h
    · intro m b hm hv hsc
      rw [hsize] at hm; rw [(hshape m).valid] at hv; rw [(hshape m).createdIn] at hsc
      obtain ⟨br, k1, k2, k3, k4⟩ := g.scope m b hm hv hsc
      refine ⟨br, by rw [hbinds]; exact k1, by rw [hsize]; exact k2, by rw [(hshape _).valid]; exact k3, ?_⟩
      rw [hnec, hnec, (hshape _).height, (hshape m).height]; exact k4
    · intro m b hm hv hk
      rw [hsize] at hm; rw [(hshape m).valid] at hv; rw [(hshape m).kind] at hk; rw [hbinds]
      exact g.lcRec m b hm hv hk
    · intro m b lc hm hv hk
      rw [hsize] at hm; rw [(hshape m).valid] at hv; rw [(hshape m).kind] at hk
      rw [hbinds, (hshape lc).createdIn, (hshape m).createdIn]
      exact g.mainRec m b lc hm hv hk
    · intro m c b hm hv hc hk
      rw [hsize] at hm; rw [(hshape m).valid] at hv; rw [hch] at hc; rw [(hshape c).kind] at hk
      rw [(hshape m).kind]; exact g.lcChild m c b hm hv hc hk
    · obtain ⟨rk, h⟩ := g.acyc
      exact ⟨rk, fun a c he => h a c ((hedge a c).1 he)⟩
  have hnnec := I.heap.nec n hq
  refine ⟨⟨g1, hheap1, ?_, ?_, ?_, ?_, ?_, ?_⟩, ⟨hstab, hvars, by omega, fun m hm => ⟨?_, (hshape m).valid⟩⟩⟩
  · refine ⟨by rw [hstab]; exact I.stamps.now, fun m => ?_, fun c vc h => ?_⟩
    · rw [hstab, (hval m).2.1, (hval m).2.2]; exact I.stamps.node m
    · rw [hvars] at h; rw [hstab]; exact I.stamps.var c vc h
  · intro m h; rw [hstale]; exact I.qstale m (hq1 m h).2
  · intro m hm hst
    rw [hnec] at hm; rw [hstale] at hst
    by_cases e : m = n
    · exact Or.inr (by rw [e])
    · rcases I.pending m hm hst with h | h
      · left; rw [hnode, if_neg e]; exact h
      · cases h
  · intro m hm hv hst
    rw [hsize] at hm; rw [(hshape m).valid] at hv; rw [hstale] at hst
    obtain ⟨w, hw, hwv⟩ := I.cons m hm hv hst
    refine ⟨w, ?_, by rw [(hval m).1]; exact hwv⟩
    exact TargetB.congr hv (g.node m hm hv).1 (hshape m).kind hvars hbinds (fun c _ => (hval c).1) hw
  · intro a d hb hd
    rw [hbelow] at hb
    rw [hstab, (hval a).2.1]
    rcases hd with hd | hd
    · rw [hstale] at hd; exact I.fresh a d hb (Or.inl hd)
    · injection hd with hd
      subst hd
      exact I.fresh a n hb (Or.inl (I.qstale n hq))
  · intro m hm
    injection hm with hm
    subst hm
    refine ⟨by rw [hnec]; exact hnnec, ?_⟩
    intro d hd
    rw [hbelow] at hd
    cases hqd : (s1.nodeD d).inRch with
    | false => rfl
    | true =>
      exfalso
      obtain ⟨hne, hqd0⟩ := hq1 d hqd
      have := hmin d hqd0
      have := g.below_lt hd hnnec (Ne.symm hne)
      omega
  · rw [(hval m).2.1]; exact hm

/-! ## one `recomputeOne` -/

/-- the children of the current node carry values -/
theorem DInv.kids_values {env : Env} {s : State} {n : Nat} (I : DInv env s (some n)) :
    ∀ c, c ∈ s.children n → ∃ v, (s.nodeD c).value = some v := by
  intro c hc
  have g := I.graph
  obtain ⟨hn, -, -, -, -⟩ := I.cur_facts
  have he : Edge s n c := Edge.child hc
  obtain ⟨hcn, -⟩ := g.edge_nec hn he
  have hclt := g.nec_lt hcn
  have hcv := (g.nec c hcn).1
  have hst : s.isStale c = false := by
    cases h : s.isStale c with
    | false => rfl
    | true =>
      rcases I.pending c hcn h with h1 | h1
      · rw [(I.cur n rfl).2 c (Below.of_edge he)] at h1; cases h1
      · injection h1 with h1
        exact absurd h1 (g.edge_ne he)
  obtain ⟨w, -, hw⟩ := I.cons c hclt hcv hst
  exact ⟨w, hw⟩

theorem StepRelB.frame {n : Nat} {v : Val} {ch : Bool} {r : Option Nat} {s s' : State}
    (R : StepRelB n v ch r s s') : FrameB s s' where
  stabNum := R.stabNum
  vars := R.vars
  grow := by rw [R.size]; exact Nat.le_refl _
  ran m hm := by
    by_cases e : m = n
    · subst e; exact ⟨R.recomputedAt, R.shape.valid⟩
    · exact ⟨by rw [(R.other m e).recomputedAt]; exact hm, (R.other m e).valid⟩

theorem StepL.frame {env : Env} {n b : Nat} {br br' : BindRec} {r : Option Nat} {s s' : State}
    (R : StepL env n b br br' r s s') (I : DInv env s (some n)) : FrameB s s' where
  stabNum := R.stabNum
  vars := R.vars
  grow := R.grow
  ran m hm := by
    obtain ⟨-, hnlt, hnv, -, hnr⟩ := I.cur_facts
    by_cases e : m = n
    · subst e; omega
    by_cases hlt : m < s.nodes.size
    · rcases R.old m hlt e with ⟨h1, -, h3⟩ | ⟨h1, -, -, -, h5, -, -⟩
      · -- a node that dies has not run in this round
        exfalso
        have he : Edge s m n := by
          have := Edge.scope h1 h3 R.bind
          rw [R.lc.1] at this; exact this
        have := I.fresh m n (Below.of_edge he) (Or.inr rfl)
        omega
      · exact ⟨by rw [h5]; exact hm, h1⟩
    · rw [nodeD_default_of_ge s m (by omega)] at hm
      have h0 := I.stamps.now
      have : (-1 : Int) = s.stabNum := hm
      omega

/-- **One `recomputeOne` keeps the drain invariant** (given the description of the runs of change detectors). -/
theorem recomputeOne_invB {env : Env} {Aux : State → Prop} (H : LcStepsOK env Aux) {fuel n : Nat} {s s' : State}
    {r : Option Nat} (I : DInv env s (some n)) (hA : Aux s)
    (h : (recomputeOne env fuel n).run.run s = (.ok r, s')) :
    DInv env s' r ∧ Aux s' ∧ FrameB s s' ∧ (s'.nodeD n).recomputedAt = s.stabNum ∧
      (s'.nodeD n).valid = true := by
  have g := I.graph
  obtain ⟨hn, hnlt, hnv, -, -⟩ := I.cur_facts
  have hB := (g.node n hnlt hnv).1
  have hstatic : (StaticKind env (s.nodeD n).kind ∨ ∃ b lc, (s.nodeD n).kind = .bindMain b lc) ∨
      ∃ b, (s.nodeD n).kind = .bindLhsChange b := by
    cases hk : (s.nodeD n).kind <;> rw [hk] at hB <;>
      first
      | exact Or.inl (Or.inl hB)
      | exact Or.inl (Or.inr ⟨_, _, rfl⟩)
      | exact Or.inr ⟨_, rfl⟩
  rcases hstatic with hk | ⟨b, hk⟩
  · obtain ⟨v, ch, ht, R⟩ := recomputeOne_stepB g I.heap hn hk I.kids_values h
    exact ⟨stepB_inv I ht R, H.other fuel n s s' r I hA hk h, R.frame, R.recomputedAt,
      by rw [R.shape.valid]; exact hnv⟩
  · obtain ⟨⟨br, br', R⟩, hA'⟩ := H.lc fuel n b s s' r I hA hk h
    exact ⟨stepL_inv I hk R, hA', R.frame I, R.self.1, R.self.2.2.2.1⟩

/-! ## the chain and the drain -/

theorem recompute_invB {env : Env} {Aux : State → Prop} (H : LcStepsOK env Aux) :
    ∀ (fuel n : Nat) (s s' : State), DInv env s (some n) → Aux s →
    (recompute env fuel n).run.run s = (.ok (), s') → DInv env s' none ∧ Aux s' ∧ FrameB s s' := by
  intro fuel
  induction fuel with
  | zero => intro n s s' _ _ h; unfold recompute at h; cases h
  | succ fuel ih =>
    intro n s s' I hA h
    unfold recompute at h
    obtain ⟨r, s1, h1, h2⟩ := bind_ok_inv h
    obtain ⟨I1, hA1, f1, -, -⟩ := recomputeOne_invB H I hA h1
    cases r with
    | none =>
      obtain ⟨-, rfl⟩ := pure_ok_inv h2
      exact ⟨I1, hA1, f1⟩
    | some p =>
      obtain ⟨I2, hA2, f2⟩ := ih p s1 s' I1 hA1 h2
      exact ⟨I2, hA2, f1.trans f2⟩

theorem drainHeap_invB {env : Env} {Aux : State → Prop} (H : LcStepsOK env Aux) :
    ∀ (fuel : Nat) (s s' : State), DInv env s none → Aux s →
    (drainHeap env fuel).run.run s = (.ok (), s') →
    DInv env s' none ∧ Aux s' ∧ s'.rch.length = 0 ∧ FrameB s s' := by
  intro fuel
  induction fuel with
  | zero => intro s s' _ _ h; unfold drainHeap at h; cases h
  | succ fuel ih =>
    intro s s' I hA h
    unfold drainHeap at h
    obtain ⟨r, s1, h1, h2⟩ := bind_ok_inv h
    cases r with
    | none =>
      obtain ⟨-, rfl⟩ := pure_ok_inv h2
      have := rchRemoveMin_inv I.heap h1
      simp only at this
      obtain ⟨e, he⟩ := this
      subst e
      exact ⟨I, hA, he, FrameB.refl _⟩
    | some n =>
      obtain ⟨u, s2, h3, h4⟩ := bind_ok_inv h2
      obtain ⟨I1, f1⟩ := pop_invB I h1
      have hA1 := H.pop s s1 n I hA h1
      obtain ⟨I2, hA2, f2⟩ := recompute_invB H fuel n s1 s2 I1 hA1 h3
      obtain ⟨I3, hA3, he, f3⟩ := ih s2 s' I2 hA2 h4
      exact ⟨I3, hA3, he, (f1.trans f2).trans f3⟩

end IncrVerif.Proofs.BindH
