import IncrVerif.Proofs.Step
/-!
# C06, combined fragment, part 1: what a direct-recompute handover says (all kinds of nodes, purely syntactic)

`recomputeOne_handover`: if `recomputeOne env fuel n` returns `some p` (the parent it hands to the caller for direct recomputation) then, IN THE STATE IT RETURNS,
`n` carries `changedAt = stabNum` (its result was NOT suppressed by its cutoff in this very call) and `p` is recorded as a parent of `n`.  No hypothesis on the
state or the kind of `n`: every `some _` comes out of `maybeChangeValueManual`, whose tail after the stamping is `Step.Quiet` (`Step.mcvm_true_quiet`).
-/
namespace IncrVerif.Proofs.GateF
open IncrVerif.Engine IncrVerif.Proofs IncrVerif.Proofs.Step

/-- every `some r` the program returns satisfies `P` -/
def RetIn (x : M (Option Nat)) (P : Nat → Prop) : Prop :=
  ∀ s r s', x.run.run s = (.ok (some r), s') → P r

theorem RetIn.bind {α} {x : M α} {f : α → M (Option Nat)} {P : Nat → Prop} (hf : ∀ a, RetIn (f a) P) : RetIn (x >>= f) P := by
  intro s r s' h
  obtain ⟨a, s1, -, h2⟩ := bind_ok_inv h
  exact hf a s1 r s' h2

theorem RetIn.pure_none {P : Nat → Prop} : RetIn (pure none) P := by
  intro s r s' h
  obtain ⟨e, -⟩ := pure_ok_inv h
  cases e

theorem RetIn.pure_some {P : Nat → Prop} {p : Nat} (hp : P p) : RetIn (pure (some p)) P := by
  intro s r s' h
  obtain ⟨e, -⟩ := pure_ok_inv h
  cases e
  exact hp

/-- the parent handed over by `maybeChangeValueManual` is a recorded parent of the node in the state after the stamping -/
theorem mcvm_ret {env : Env} {fuel n : Nat} {o : Option Val} {d b : Bool} {s s' : State} {p : Nat}
    (h : (maybeChangeValueManual env fuel n o d b).run.run s = (.ok (some p), s')) :
    d = true ∧ p ∈ ((touched n s).nodeD n).parents.map (·.1) := by
  cases d with
  | false =>
    unfold maybeChangeValueManual at h
    simp only [Bool.not_false, if_true] at h
    obtain ⟨e, -⟩ := pure_ok_inv h
    cases e
  | true =>
    refine ⟨rfl, ?_⟩
    unfold maybeChangeValueManual at h
    simp only [Bool.not_true, Bool.false_eq_true, if_false, run_bind_get, run_bind_modNode,
      run_bind_bumpCounter] at h
    obtain ⟨u, s1, h1, h2⟩ := bind_ok_inv h
    have h1' : (maybeHandleAfterStabilisation n).run.run (touched n s) = (.ok u, s1) := h1
    have q1 : Step.Quiet (touched n s) s1 := (Step.Pres.maybeHandleAfterStabilisation n).h _ _ _ h1'
    obtain ⟨nd1, hnd1, h3⟩ := bind_getNode_inv h2
    have hpar1 : nd1.parents = ((touched n s).nodeD n).parents := by
      have := (q1.node n).parents
      rw [nodeD_of_some hnd1] at this
      exact this
    rw [hpar1] at h3
    rcases hps : ((touched n s).nodeD n).parents with _ | ⟨⟨p0, ci0⟩, rest⟩
    · rw [hps] at h3
      obtain ⟨e, -⟩ := pure_ok_inv h3
      cases e
    · rw [hps] at h3
      dsimp only at h3
      have : RetIn _ (· = p0) → p = p0 := fun R => R _ _ _ h3
      have hp : p = p0 := by
        apply this
        repeat (any_goals first
          | with_reducible exact RetIn.pure_none
          | exact RetIn.pure_some rfl
          | (with_reducible apply RetIn.bind; intro _)
          | split)
      rw [hp]
      simp

/-- what is known about a `some p` returned by the program, in the state it returns: the result of `n` was stamped as changed in this round, and `p` is a recorded
parent of `n` -/
def RetQ (n : Nat) (x : M (Option Nat)) : Prop :=
  ∀ s p s', x.run.run s = (.ok (some p), s') →
    (s'.nodeD n).changedAt = s'.stabNum ∧ p ∈ (s'.nodeD n).parents.map (·.1)

theorem RetQ.bind {α} {n : Nat} {x : M α} {f : α → M (Option Nat)} (hf : ∀ a, RetQ n (f a)) : RetQ n (x >>= f) := by
  intro s r s' h
  obtain ⟨a, s1, -, h2⟩ := bind_ok_inv h
  exact hf a s1 r s' h2

theorem RetQ.pure_none {n : Nat} : RetQ n (pure none) := by
  intro s r s' h
  obtain ⟨e, -⟩ := pure_ok_inv h
  cases e

theorem RetQ.panic {n : Nat} (site : String) : RetQ n (Engine.panic site : M (Option Nat)) := by
  intro s r s' h
  rw [run_panic] at h
  cases h

theorem RetQ.mcvm (env : Env) (fuel n : Nat) (o : Option Val) (d b : Bool) : RetQ n (maybeChangeValueManual env fuel n o d b) := by
  intro s p s' h
  obtain ⟨rfl, hp⟩ := mcvm_ret h
  have q := mcvm_true_quiet env fuel n o b s s' _ h
  have hlt : n < s.nodes.size := by
    by_cases hlt : n < s.nodes.size
    · exact hlt
    · rw [touched_nodeD, if_neg (by omega), show s.nodeD n = default from by simp [State.nodeD, Array.getElem?_eq_none (show s.nodes.size ≤ n by omega)]] at hp
      cases hp
  refine ⟨?_, ?_⟩
  · rw [(q.node n).changedAt, q.stabNum, touched_nodeD, if_pos ⟨rfl, hlt⟩]
    rfl
  · rw [(q.node n).parents]; exact hp

theorem RetQ.mcv (env : Env) (fuel n : Nat) (v : Val) : RetQ n (maybeChangeValue env fuel n v) := by
  unfold maybeChangeValue
  repeat (any_goals first
    | with_reducible apply RetQ.mcvm
    | (with_reducible apply RetQ.bind; intro _)
    | split
    | dsimp only)

/-- **the handover of `recomputeOne`**: a returned parent is a recorded parent of `n`, and `n` was stamped as changed in this round -/
theorem recomputeOne_handover (env : Env) (fuel n : Nat) : RetQ n (recomputeOne env fuel n) := by
  unfold recomputeOne
  repeat (any_goals first
    | with_reducible apply RetQ.mcvm
    | with_reducible apply RetQ.mcv
    | with_reducible exact RetQ.pure_none
    | with_reducible exact RetQ.panic _
    | (with_reducible apply RetQ.bind; intro _)
    | split
    | dsimp only)

end IncrVerif.Proofs.GateF
