import IncrVerif.Proofs.TidyH38
import IncrVerif.Proofs.TidyH32
/-!
# T4, `addDep` returns (part 1): frames of `TInvR`, the unnecessary case, the tails of the call
-/
namespace IncrVerif.Proofs.TidyH.XT
open IncrVerif.Engine IncrVerif.Driver IncrVerif.Proofs IncrVerif.Proofs.Step IncrVerif.Proofs.Sched
open IncrVerif.Proofs.ExpertH IncrVerif.Proofs.ExpertH.QR

namespace X4i

/-- the state fields `TInvR` reads besides heights, kinds, necessity and the heaps -/
structure TK (S S' : State) : Prop where
  size : S'.nodes.size = S.nodes.size
  vars : S'.vars = S.vars
  top : S'.top = S.top
  newObs : S'.newObservers = S.newObservers
  obs : S'.observers = S.observers

theorem TK.refl (S : State) : TK S S := ⟨rfl, rfl, rfl, rfl, rfl⟩

theorem TK.trans {a b c : State} (h1 : TK a b) (h2 : TK b c) : TK a c :=
  ⟨h2.size.trans h1.size, h2.vars.trans h1.vars, h2.top.trans h1.top, h2.newObs.trans h1.newObs,
    h2.obs.trans h1.obs⟩

theorem TInvR.of_tk {N : Nat} {S S' : State} (T : TInvR N S) (K : TK S S') (hb : HBd S' allClosed)
    (R : Room N S') : TInvR N S' where
  hb := hb
  room := R
  linked c vc h := by rw [K.vars] at h; exact T.linked c vc h
  topSize := by rw [K.top, K.size]; exact T.topSize
  newNodup := by rw [K.newObs]; exact T.newNodup
  newState o ob h1 h2 := by rw [K.newObs] at h1; rw [K.obs] at h2; exact T.newState o ob h1 h2

theorem TK.of_rekind {n : Nat} {k' : Kind} {S S2 : State} (R : Rekind n k' S S2) : TK S S2 := by
  have hk := R.key
  simp only [qKey, Prod.mk.injEq] at hk
  obtain ⟨-, -, -, -, -, -, -, h8, ho, hno, -⟩ := hk
  exact ⟨R.size, R.vars, h8, hno, ho⟩

theorem TK.of_cframe {S S' : State} (h : CFrame S S') : TK S S' := by
  have hk := h.key
  simp only [stateKey, Prod.mk.injEq] at hk
  obtain ⟨h1, h2, -, -, -, -, -, -, h9, -, -, h12, -⟩ := hk
  exact ⟨h.size, h1, h12, h9, h2⟩

theorem TK.of_hrel {S S' : State} (h : HRel S S') : TK S S' :=
  ⟨h.size, h.vars, h.top, h.misc.2.2.1, h.observers⟩

/-- the height bound survives a kind change that only adds children -/
theorem HBd_rekind {n : Nat} {k' : Kind} {S S2 : State} {op op' : Nat → Op} (hb : HBd S op) (R : Rekind n k' S S2)
    (hk : ∀ x, x ∈ kids (S.nodeD n).kind → x ∈ kids k') (hop : ∀ m, op' m = .closed → op m = .closed) :
    HBd S2 op' := by
  intro m hm ho
  rw [R.nec] at hm
  rw [R.height]
  have h1 := hb m hm (hop m ho)
  have h2 : dp S m ≤ dp S2 m := by
    refine dp_mono (fun x c hc => ?_) (by rw [R.size]; exact Nat.le_refl _) m
    by_cases e : x = n
    · rw [e, R.kind_self]; rw [e] at hc; exact hk c hc
    · rw [R.kind_other e]; exact hc
  omega

theorem dp_le_rekind {n : Nat} {k' : Kind} {S S2 : State} (R : Rekind n k' S S2)
    (hk : ∀ x, x ∈ kids (S.nodeD n).kind → x ∈ kids k') (m : Nat) : dp S m ≤ dp S2 m := by
  refine dp_mono (fun x c hc => ?_) (by rw [R.size]; exact Nat.le_refl _) m
  by_cases e : x = n
  · rw [e, R.kind_self]; rw [e] at hc; exact hk c hc
  · rw [R.kind_other e]; exact hc

theorem Room.of_rekind {N n : Nat} {k' : Kind} {S S2 : State} (Rm : Room N S) (R : Rekind n k' S S2)
    (ha : S2.ahh = S.ahh) : Room N S2 :=
  ⟨by rw [ha]; exact Rm.ahh, by rw [R.rch]; exact Rm.rch, by rw [R.size]; exact Rm.size⟩

/-! ## `inserted` -/

theorem inserted_height (p : Nat) (h : Int) (s : State) (m : Nat) :
    ((inserted p h s).nodeD m).height = (s.nodeD m).height := by
  rw [inserted_nodeD]; split <;> rfl

theorem inserted_kind (p : Nat) (h : Int) (s : State) (m : Nat) :
    ((inserted p h s).nodeD m).kind = (s.nodeD m).kind := by
  rw [inserted_nodeD]; split <;> rfl

theorem inserted_fields (p : Nat) (h : Int) (s : State) (m : Nat) :
    ((inserted p h s).nodeD m).kind = (s.nodeD m).kind ∧ ((inserted p h s).nodeD m).valid = (s.nodeD m).valid ∧
      ((inserted p h s).nodeD m).recomputedAt = (s.nodeD m).recomputedAt ∧
      ((inserted p h s).nodeD m).changedAt = (s.nodeD m).changedAt := by
  rw [inserted_nodeD]; split <;> exact ⟨rfl, rfl, rfl, rfl⟩

theorem inserted_children (p : Nat) (h : Int) (s : State) (m : Nat) :
    (inserted p h s).children m = s.children m := by
  have hk : ((inserted p h s).nodeD m).kind? = (s.nodeD m).kind? := by
    rw [inserted_nodeD]; split <;> rfl
  unfold State.children
  rw [hk]
  rfl

theorem inserted_isStale (p : Nat) (h : Int) (s : State) (m : Nat) :
    (inserted p h s).isStale m = s.isStale m :=
  isStale_congr_fields (fun k => inserted_fields p h s k) rfl rfl m (inserted_children p h s m)

theorem inserted_needsToBeComputed (p : Nat) (h : Int) (s : State) (m : Nat) :
    (inserted p h s).needsToBeComputed m = s.needsToBeComputed m := by
  unfold State.needsToBeComputed
  rw [inserted_isNecessary, inserted_isStale]

theorem inserted_size (p : Nat) (h : Int) (s : State) : (inserted p h s).nodes.size = s.nodes.size :=
  Array.size_modify ..

/-- queueing a node keeps the extra invariant -/
theorem tinvX_inserted {N p : Nat} {h : Int} {s : State} (T : TInvX N s) : TInvX N (inserted p h s) := by
  rw [tinvX_iff] at T ⊢
  obtain ⟨h1, h2, h3, h4, h5, h6, h7, h8⟩ := T
  have hd : ∀ m, dp (virt (inserted p h s)) m = dp (virt s) m := by
    intro m
    refine dp_congr (fun x => ?_) (by rw [virt_size, virt_size, inserted_size]) m
    rw [virt_nodeD, virt_nodeD, virtNode_kind, virtNode_kind, inserted_kind]
    rfl
  refine ⟨fun m hm => ?_, h2, ?_, by rw [inserted_size]; exact h4, h5, by rw [inserted_size]; exact h6, h7, h8⟩
  · rw [inserted_isNecessary] at hm
    rw [inserted_height, hd]; exact h1 m hm
  · rw [← h3]
    simp only [Heap.maxAllowed, inserted, Array.size_modify]

/-! ## the node is not necessary -/

theorem addDep_totalX_unnec {env : Env} {rk : Nat → Nat} {N fuel n c e : Nat} {cb : Bool} {s : State} {nd : Node}
    {er : ExpertRec} (Q : QInvX env rk s) (T : TInvX N s) (hx : Xp.IsExpert s n nd e er)
    (hnec : nd.isNecessary = false) (hc : c < s.nodes.size) (hacyc : ¬ Below s c n) :
    ∃ dep s', (expertAddDependency env fuel n c cb).run.run s = (.ok dep, s') ∧ (∃ rk', QInvX env rk' s') ∧
      TInvX N s' ∧ s'.nodes.size = s.nodes.size ∧ s'.vars.size = s.vars.size ∧
      s'.observers.size = s.observers.size ∧ s'.top = s.top := by
  have hD : s.nodeD n = nd := nodeD_of_some hx.node
  have hk : (s.nodeD n).kind = .expert e := by rw [hD]; exact hx.kind
  have hrun : (expertAddDependency env fuel n c cb).run.run s = (.ok s.nextDep, addedState e er c cb s) :=
    Xp.expertAddDependency_unnecessary env fuel n c cb hx hnec
  obtain ⟨rk', F', Q', A', -⟩ := addDep_unnec Q.frag Q.q Q.ahh hx hnec hc hacyc hrun
  refine ⟨_, _, hrun, ⟨rk', ⟨F', Q', A'⟩⟩, ?_, rfl, rfl, rfl, rfl⟩
  have R := rekind_added (c := c) (cb := cb) Q.frag hk hx.xrec
  have hkids0 : kids ((virt s).nodeD n).kind = er.children.map (·.child) := virt_kids_expert hk hx.xrec
  have hmem : ∀ x, x ∈ kids ((virt s).nodeD n).kind → x ∈ kids (addedKind er c) := by
    intro x hx'
    rw [hkids0] at hx'
    rw [kids_addedKind]
    exact List.mem_append_left _ hx'
  exact TInvR.of_tk T (TK.of_rekind R) (HBd_rekind T.hb R hmem (fun _ h => h)) (Room.of_rekind T.room R rfl)

/-! ## the tails of the call on a necessary node -/

/-- the end of `stateAddParent`: nothing to propagate; the node is queued if it is not and looks stale -/
theorem sap_tail_tot {fuel n c : Nat} {s4 : State} (hp : s4.propagateInvalidity = []) (hf : 1 ≤ fuel)
    (hn : n < s4.nodes.size) (hc : c < s4.nodes.size) (hnec : s4.isNecessary n = true)
    (hntc : s4.needsToBeComputed n = true) (h0 : 0 ≤ (s4.nodeD n).height)
    (hmax : (s4.nodeD n).height ≤ s4.rch.maxAllowed) :
    Tot (do propagateInvalidity fuel
            dassert ((← get).isNecessary n) "node:state_add_parent:parent-necessary"
            let p ← getNode n
            let c ← getNode c
            if !p.inRch && (p.recomputedAt == -1 || c.changedAt > p.recomputedAt) then
              rchInsert n : M Unit) s4
      (fun _ s5 => s5 = s4 ∨ ((s4.nodeD n).inRch = false ∧ s5 = inserted n (s4.nodeD n).height s4)) := by
  obtain ⟨f, rfl⟩ : ∃ f, fuel = f + 1 := ⟨fuel - 1, by omega⟩
  refine Tot.bind_ok (IncrVerif.Proofs.ExpertH.propagateInvalidity_nil f hp) ?_
  refine Tot.bind_get ?_
  refine Tot.bind_dassert (fun _ => hnec) ?_
  refine Tot.bind_getNode hn ?_
  refine Tot.bind_getNode hc ?_
  split
  · rename_i hcond
    have hq : (s4.nodeD n).inRch = false := by
      cases h : (s4.nodeD n).inRch
      · rfl
      · rw [h] at hcond; simp at hcond
    exact ⟨(), _, rchInsert_ok hn (by rw [hq, hntc]; rfl) h0 hmax, Or.inr ⟨hq, rfl⟩⟩
  · exact Tot.pure (Or.inl rfl)

/-- the end of `expertAddDependency`: the node is queued if it is not yet -/
theorem expert_tail_tot {n dep0 : Nat} {s5 : State} (hn : n < s5.nodes.size)
    (hntc : s5.needsToBeComputed n = true)
    (hins : (s5.nodeD n).inRch = false → 0 ≤ (s5.nodeD n).height ∧ (s5.nodeD n).height ≤ s5.rch.maxAllowed) :
    Tot (do dassert ((← get).needsToBeComputed n) "node:expert_add_dependency:needs-to-be-computed"
            if !(← getNode n).inRch then rchInsert n
            pure dep0 : M Nat) s5
      (fun _ s' => ((s5.nodeD n).inRch = true ∧ s' = s5) ∨
        ((s5.nodeD n).inRch = false ∧ s' = inserted n (s5.nodeD n).height s5)) := by
  refine Tot.bind_get ?_
  refine Tot.bind_dassert (fun _ => hntc) ?_
  refine Tot.bind_getNode hn ?_
  dsimp only
  cases hq : (s5.nodeD n).inRch
  · simp only [Bool.not_false, if_true]
    obtain ⟨h0, hmax⟩ := hins hq
    refine Tot.bind_ok (rchInsert_ok hn (by rw [hq, hntc]; rfl) h0 hmax) ?_
    exact Tot.pure (Or.inr ⟨trivial, rfl⟩)
  · simp only [Bool.not_true, Bool.false_eq_true, if_false]
    exact Tot.bind_ok (run_pure _ _) (Tot.pure (Or.inl ⟨trivial, rfl⟩))

/-- the sizes the driver tracks -/
def Same (s s' : State) : Prop :=
  s'.nodes.size = s.nodes.size ∧ s'.vars.size = s.vars.size ∧ s'.observers.size = s.observers.size ∧ s'.top = s.top

theorem same_of_tk {s s' : State} (K : TK (virt s) (virt s')) : Same s s' := by
  refine ⟨by have := K.size; rwa [virt_size, virt_size] at this, ?_, ?_, K.top⟩
  · have := K.vars; rw [virt_vars, virt_vars] at this; rw [this]
  · have := K.obs; rw [virt_observers, virt_observers] at this; rw [this]

theorem Same.inserted {s s' : State} (h : Same s s') (p : Nat) (x : Int) : Same s (inserted p x s') :=
  ⟨(inserted_size p x s').trans h.1, h.2.1, h.2.2.1, h.2.2.2⟩

theorem staleOf_restKey {S S' : State} (hnode : ∀ m, restKey (S'.nodeD m) = restKey (S.nodeD m))
    (hv : S'.vars = S.vars) (m : Nat) : staleOf S' m = staleOf S m := by
  have hn : ∀ m, (S'.nodeD m).kind = (S.nodeD m).kind ∧ (S'.nodeD m).recomputedAt = (S.nodeD m).recomputedAt ∧
      (S'.nodeD m).changedAt = (S.nodeD m).changedAt := by
    intro m
    have := hnode m
    simp only [restKey, Prod.mk.injEq] at this
    exact ⟨this.1, this.2.2.1, this.2.2.2.1⟩
  exact staleOf_congr (hn m).1 (hn m).2.1 hv (fun c _ => (hn c).2.2)

end X4i
end IncrVerif.Proofs.TidyH.XT
