import IncrVerif.Proofs.TidyH58
/-!
# T1b, part 5: bisimulation ladder — node creation, `elabInstr`, `stepAction` for the API actions other than
`stabilise` (conversion of the second half of MapRef19).  The carried invariant is `Fr` here (a new node must be shown
to keep it).
-/
namespace IncrVerif.Proofs.TidyH.RT
open IncrVerif.Engine IncrVerif.Driver IncrVerif.Proofs IncrVerif.Proofs.Step IncrVerif.Proofs.Sched IncrVerif.Proofs.Quiet
open IncrVerif.Proofs.MapRefH

section
variable {g : Nat → Option Val}

/-! ## node creation -/

theorem BSimAt.createNode' {s : State} {k k' : Kind} (sc : Scope) (c : CutoffK) (hg : g s.nodes.size = none)
    (hk : k' = virtKind k) (hne : ∀ e, k ≠ .expert e) (hc : ∀ p i, k = .mapRef p i → c = .eq) :
    BSimAt Fr g s (Engine.createNode k sc c) (Engine.createNode k' sc c) := by
  subst hk
  intro hn
  refine ⟨fun r s' hr => ?_, fun r t hr => ?_⟩
  · rw [run_createNode] at hr ⊢
    cases hr
    rw [virt_size, virt_crState k sc c s hg]
    exact ⟨rfl, fr_crState sc hn hne hc⟩
  · rw [run_createNode] at hr
    cases hr
    exact ⟨_, by rw [run_createNode, virt_size]⟩

theorem BSimAt.createNode {s : State} {k : Kind} {sc : Scope} {c : CutoffK} (hg : g s.nodes.size = none)
    (hne : ∀ e, k ≠ .expert e) (hc : ∀ p i, k = .mapRef p i → c = .eq) :
    BSimAt Fr g s (Engine.createNode k sc c) (Engine.createNode (virtKind k) sc c) :=
  BSimAt.createNode' sc c hg rfl hne hc

theorem BSimAt.createVar {s : State} (v : Val) (sc : Scope) (hg : g s.nodes.size = none) :
    BSimAt Fr g s (Engine.createVar v sc) (Engine.createVar v sc) := by
  unfold Engine.createVar
  refine BSimAt.get_seq ?_
  vnorm
  refine BSimAt.seq (BSimAt.createNode' sc .eq hg rfl (fun e h => by cases h) (fun p i h => by cases h)) fun _ _ _ => ?_
  bsim

/-! ## `elabInstr`, `stepAction` -/

/-- `some <$> createNode k sc` for a kind that is neither `expert` nor `mapRef` -/
macro "bcr_node" : tactic => `(tactic|
  exact BSimAt.map _ (BSimAt.createNode' _ _ (by assumption) rfl (fun e h => by cases h) (fun p i h => by cases h)))

theorem BSimAt.elabInstr {s : State} {i : Instr} (hg : g s.nodes.size = none) (hR : RInstr i) :
    BSimAt Fr g s (Engine.elabInstr [] .unit i) (Engine.elabInstr [] .unit (virtInstr i)) := by
  unfold Engine.elabInstr
  cases i <;> simp only [RInstr] at hR <;> simp only [virtInstr] <;> refine BSimAt.get_seq ?_ <;> try vnorm
  case const v => bcr_node
  case var v => exact BSimAt.map _ (BSimAt.createVar v .top hg)
  case map f args =>
    refine BSimAt.ro_seq (Step.Pres.mapM (fun a => RO.resolveOpnd [] a) args)
      (BSim.mapM (fun a => BSim.resolveOpnd [] a) args s) fun as => ?_
    bcr_node
  case fold f init cs =>
    refine BSimAt.ro_seq (Step.Pres.mapM (fun a => RO.resolveOpnd [] a) cs)
      (BSim.mapM (fun a => BSim.resolveOpnd [] a) cs s) fun as => ?_
    refine BSimAt.cond Iff.rfl (fun _ => ?_) (fun _ => ?_) <;> bcr_node
  case mapRef p i =>
    simp only [List.mapM_cons, List.mapM_nil, bind_assoc, pure_bind]
    refine BSimAt.ro_seq (RO.resolveOpnd [] i) (BSim.resolveOpnd [] i s) fun x => ?_
    exact BSimAt.map _ (BSimAt.createNode' _ _ hg rfl (fun e h => by cases h) (fun _ _ _ => rfl))
  case zip a b =>
    refine BSimAt.ro_seq (RO.resolveOpnd [] a) (BSim.resolveOpnd [] a s) fun x => ?_
    refine BSimAt.ro_seq (RO.resolveOpnd [] b) (BSim.resolveOpnd [] b s) fun y => ?_
    refine BSimAt.ro_seq (RO.isConstant x) (BSim.isConstant x s) fun cx => ?_
    refine BSimAt.ro_seq (RO.isConstant y) (BSim.isConstant y s) fun cy => ?_
    split <;> bcr_node

theorem BSimAt.elabInstrM {s : State} {i : Instr} (env : Env) (hg : g s.nodes.size = none) (hR : RInstr i) :
    BSimAt Fr g s (Engine.elabInstrM env [] .unit i) (Engine.elabInstrM (virtEnv env) [] .unit (virtInstr i)) := by
  rw [elabInstrM_eq _ _ _ hR, elabInstrM_eq _ _ _ hR.virt]
  exact BSimAt.elabInstr hg hR

theorem BSimAt.stepAction {s : State} {a : Action} (env : Env) (tk : Array Nat) (hg : g s.nodes.size = none)
    (hR : RAction a) :
    BSimAt Fr g s (Engine.stepAction env a tk) (Engine.stepAction (virtEnv env) (virtAction a) tk) := by
  unfold Engine.stepAction
  cases a <;> simp only [RAction] at hR <;> simp only [virtAction]
  case create i =>
    refine BSimAt.seq (BSimAt.elabInstrM env hg hR) fun r _ _ => ?_
    cases r <;> bsim
  all_goals first
    | (refine BSimAt.seq (BSimAt.discard (BSim.writeVar _ _ _ _)) fun _ _ _ => ?_; bsim; done)
    | (bsim; done)
    | (bsim; exact BSimAt.ret _)

end
end IncrVerif.Proofs.TidyH.RT
