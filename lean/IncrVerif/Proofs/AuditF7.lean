import IncrVerif.Proofs.AuditF6
import IncrVerif.Proofs.AuditF2
/-!
# C11, the HEIGHT-LIMIT clause, part c: API actions and whole histories

Every API action of the combined fragment that RETURNS keeps `HL` (same syntactic ladder); the initial state satisfies it; hence in every state reached by a history
(that returns) EVERY node — needed or not — has `height ≤ maxHeightSeen ≤ maxAllowed` of both heaps.  No hypothesis on the program is used except the list of action
kinds (no `setMaxHeight`, whose effect on the limit is treated in `C19History`).
-/
open IncrVerif.Engine IncrVerif.Driver IncrVerif.Proofs IncrVerif.Proofs.Step
namespace IncrVerif.Proofs.AuditF.HLim

ok_leaf POk.stabilise

/-- the action kinds of the combined fragment (those of `FullH.ActionFull`, with no condition on the operands) -/
def PlainAction : Action → Prop
  | .create _ | .observe _ | .cloneObs _ | .dropObs _ | .disallow _ => True
  | .set _ _ | .modify _ _ | .update _ _ | .replace _ _ | .replaceWith _ _ | .get _ => True
  | .stabilise | .isStable | .stats => True
  | _ => False

set_option maxHeartbeats 1000000 in
theorem POk.stepAction {env : Env} {a : Action} (tokens : Array Nat) (ha : PlainAction a) : POk (stepAction env a tokens) := by
  cases a <;> try exact ha.elim
  all_goals (unfold Engine.stepAction; okpres)

theorem hl_init (N : Nat) (d : Bool) : HL (State.init N d) := by
  refine ⟨Int.le_refl _, fun n => ?_, ?_, rfl⟩
  · have : (State.init N d).nodeD n = default := by simp [State.nodeD, State.init]
    rw [this]; show (default : Node).height ≤ (0 : Int); decide
  · show (0 : Int) ≤ ((mkHeap N).queues.size : Int) - 1
    simp [mkHeap]

theorem runActions_hl {env : Env} : ∀ (acts : List Action) {s s' : State} {tk tk' : Array Nat},
    (∀ a, a ∈ acts → PlainAction a) → HL s → Quiet.runActions env acts s tk = .ok (s', tk') → HL s'
  | [], s, s', tk, tk', _, H, h => by simp only [Quiet.runActions] at h; cases h; exact H
  | a :: as, s, s', tk, tk', ha, H, h => by
    simp only [Quiet.runActions] at h
    rcases hx : (stepAction env a tk).run.run s with ⟨_ | r, s1⟩
    · rw [hx] at h; cases h
    · rw [hx] at h
      exact runActions_hl as (fun b hb => ha b (List.mem_cons_of_mem _ hb))
        ((POk.stepAction tk (ha a List.mem_cons_self)).h s r s1 hx H) h

theorem plain_of_full {env : Env} {sp : Nat → Val → Val} {T : Nat} {a : Action} (h : FullH.ActionFull env sp T a) : PlainAction a := by
  cases a <;> first | trivial | exact h

theorem plain_of_hist {env : Env} {sp : Nat → Val → Val} : ∀ (acts : List Action) (T : Nat), FullH.HistFull env sp T acts →
    ∀ a, a ∈ acts → PlainAction a
  | [], _, _, a, ha => by cases ha
  | b :: bs, T, h, a, ha => by
    rcases List.mem_cons.1 ha with e | e
    · rw [e]; exact plain_of_full h.1
    · exact plain_of_hist bs _ h.2 a e

/-- **the height limit**: in every state reached by a history of the listed action kinds that returns, every node's height is within the limit of both heaps -/
theorem history_height_limit {env : Env} {N : Nat} {d : Bool} {acts : List Action} {s : State} {tk : Array Nat}
    (ha : ∀ a, a ∈ acts → PlainAction a) (h : Quiet.runActions env acts (State.init N d) #[] = .ok (s, tk)) :
    0 ≤ s.maxHeightSeen ∧ s.maxHeightSeen ≤ s.ahh.maxAllowed ∧ s.rch.maxAllowed = s.ahh.maxAllowed ∧
      ∀ n, (s.nodeD n).height ≤ s.maxHeightSeen ∧ (s.nodeD n).height ≤ s.rch.maxAllowed ∧ (s.nodeD n).height ≤ s.ahh.maxAllowed := by
  have H := runActions_hl acts ha (hl_init N d) h
  have e : s.rch.maxAllowed = s.ahh.maxAllowed := by simp only [Heap.maxAllowed, H.same]
  refine ⟨H.seen0, H.lim, e, fun n => ⟨H.node n, ?_, ?_⟩⟩
  · rw [e]; exact Int.le_trans (H.node n) H.lim
  · exact Int.le_trans (H.node n) H.lim

/-- **C11 for the combined fragment, with the height-limit clause** -/
theorem history_audit_limit {env : Env} {sp : Nat → Val → Val} (E : FullH.EnvS env sp) (hF : FullH.FirstFn env) {N : Nat} {d : Bool}
    {acts : List Action} {s : State} {tk : Array Nat}
    (hH : FullH.HistFull env sp 0 acts) (h : Quiet.runActions env acts (State.init N d) #[] = .ok (s, tk)) :
    Audit s ∧ ∀ n, s.isNecessary n = true →
      0 ≤ (s.nodeD n).height ∧ (s.nodeD n).height ≤ s.rch.maxAllowed ∧ (s.nodeD n).height ≤ s.ahh.maxAllowed := by
  have A := history_audit E hF hH h
  have L := history_height_limit (plain_of_hist acts 0 hH) h
  exact ⟨A, fun n hn => ⟨(A.nec n hn).2.2, (L.2.2.2 n).2.1, (L.2.2.2 n).2.2⟩⟩

end IncrVerif.Proofs.AuditF.HLim
