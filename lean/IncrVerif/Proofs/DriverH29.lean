import IncrVerif.Proofs.DriverH28
/-!
# Drivers, the steps of the drain that are not driver runs, part 2: the invariant along the frames

* `drvOK_frameX`: `DrvOK` along a step that keeps sizes, kinds, `top` and `Drives` (reusable).
* `drives_of_frames`: `Drives` along `XF` + `XS`.
* `DFX`: the bundle of frames every step of the drain that is not a driver run keeps.
* `auxD_of_frames`, `dstep_of_frames`, `dd_of_stepB`.
-/
namespace IncrVerif.Proofs.DriverH
open IncrVerif.Engine IncrVerif.Driver IncrVerif.Proofs IncrVerif.Proofs.Step IncrVerif.Proofs.Sched
open IncrVerif.Proofs.ExpertH IncrVerif.Proofs.ExpertH.QR IncrVerif.Proofs.EffH

/-! ## `DrvOK` along a frame -/

theorem kidsX_of_not_expertX (xs xs' : Array ExpertRec) {k : Kind} (h : ∀ e, k ≠ .expert e) :
    kidsX xs' k = kidsX xs k := by
  cases k <;> first | rfl | exact absurd rfl (h _)

/-- below a node under which there is no expert node, the paths do not depend on the expert records -/
theorem below_of_noExpert {s s' : State} (hk : ∀ m, (s'.nodeD m).kind = (s.nodeD m).kind) {a d : Nat}
    (h : ExpertH.Below s' a d) (hp : ∀ d, ExpertH.Below s a d → ∀ e, (s.nodeD d).kind ≠ .expert e) :
    ExpertH.Below s a d := by
  induction h with
  | refl a => exact .refl a
  | @step a b c h1 _ ih =>
    have hb : b ∈ kidsX s.experts (s.nodeD a).kind := by
      rw [hk, kidsX_of_not_expertX s.experts s'.experts (hp a (.refl a))] at h1; exact h1
    exact .step hb (ih fun d hd => hp d (.step hb hd))

theorem PS.frame {s s' : State} (hsz : s'.nodes.size = s.nodes.size)
    (hk : ∀ m, (s'.nodeD m).kind = (s.nodeD m).kind) {c : Nat} (h : PS s c) : PS s' c := by
  refine ⟨by rw [hsz]; exact h.1, fun d hd e => ?_⟩
  rw [hk]; exact h.2 d (below_of_noExpert hk hd h.2) e

theorem resOp_frame {s s' : State} (htop : s'.top = s.top) (o : Opnd) : resOp s' o = resOp s o := by
  cases o <;> simp [resOp, htop]

theorem EffOK.frame {s s' : State} (hsz : s'.nodes.size = s.nodes.size)
    (hk : ∀ m, (s'.nodeD m).kind = (s.nodeD m).kind) (htop : s'.top = s.top)
    (hD : ∀ m x, Drives s m x → Drives s' m x) {n : Nat} {eff : Effect} (h : EffOK s n eff) : EffOK s' n eff := by
  cases eff with
  | xAdd eo co cb =>
    obtain ⟨x, c, h1, h2, h3, h4⟩ := h
    exact ⟨x, c, by rw [resOp_frame htop]; exact h1, by rw [resOp_frame htop]; exact h2, hD _ _ h3,
      h4.frame hsz hk⟩
  | xRm eo i =>
    obtain ⟨x, h1, h3⟩ := h
    exact ⟨x, by rw [resOp_frame htop]; exact h1, hD _ _ h3⟩
  | xSel eo cb al targets =>
    obtain ⟨x, h1, h3, h4⟩ := h
    refine ⟨x, by rw [resOp_frame htop]; exact h1, hD _ _ h3, fun t ht => ?_⟩
    obtain ⟨c, hc, hps⟩ := h4 t ht
    exact ⟨c, by rw [resOp_frame htop]; exact hc, hps.frame hsz hk⟩
  | xStale eo =>
    obtain ⟨x, h1, h3⟩ := h
    exact ⟨x, by rw [resOp_frame htop]; exact h1, hD _ _ h3⟩
  | _ => exact h

/-- **`DrvOK` along a frame**: sizes, kinds, `top` unchanged, the protected dependencies kept -/
theorem drvOK_frameX {env : Env} {s s' : State} (hsz : s'.nodes.size = s.nodes.size)
    (hk : ∀ m, (s'.nodeD m).kind = (s.nodeD m).kind) (htop : s'.top = s.top)
    (hD : ∀ m x, Drives s m x → Drives s' m x) (h : DrvOK env s) : DrvOK env s' := by
  intro n f args hn hkn hf vals eff heff
  rw [hsz] at hn; rw [hk] at hkn
  exact (h n f args hn hkn hf vals eff heff).frame hsz hk htop hD

/-- `Drives` along the frames `XF` (children, `nextDep`) and `XS` (`script`, `sel`) -/
theorem drives_of_frames {s s' : State} (hx : XF s s') (hs : XS s s') {m x : Nat} (h : Drives s m x) :
    Drives s' m x := by
  obtain ⟨hlt, e, er, hk, he, ed, hmem, hc, hdep, hscr, hsel⟩ := h
  obtain ⟨er', he', -, -, hch, -, -⟩ := hx.xrec he
  obtain ⟨er'', he'', hsc, hsl⟩ := hs.get he
  rw [he'] at he''; cases he''
  exact ⟨by rw [hx.size]; exact hlt, e, er', by rw [hx.kind]; exact hk, he', ed, by rw [hch]; exact hmem, hc,
    by rw [hx.nextDep]; exact hdep, by rw [hsc]; exact hscr, fun d c h => hsel d c (by rw [← hsl]; exact h)⟩

/-! ## the frames of a step that is not a driver run -/

structure DFX (s s' : State) : Prop where
  size : s'.nodes.size = s.nodes.size
  kind : ∀ m, (s'.nodeD m).kind = (s.nodeD m).kind
  ahf : AhF s s'
  xs : XS s s'
  cfg : CfgF s s'
  calm : Calm s s'
  keyD : KeyD s s'

theorem DFX.trans {a b c : State} (h1 : DFX a b) (h2 : DFX b c) : DFX a c :=
  ⟨h2.size.trans h1.size, fun m => (h2.kind m).trans (h1.kind m), h1.ahf.trans h2.ahf, h1.xs.trans h2.xs,
    CfgF.trans h1.cfg h2.cfg, h1.calm.trans h2.calm, KeyD.trans h1.keyD h2.keyD⟩

theorem DFX.maybeChangeValue {env : Env} {fuel n : Nat} {v : Val} {T s' : State} {r : Except Panic (Option Nat)}
    (h : (maybeChangeValue env fuel n v).run.run T = (r, s')) : DFX T s' := by
  have hx := (PresX.maybeChangeValue env fuel n v).h _ _ _ h
  exact ⟨hx.size, hx.kind, (PresAh.maybeChangeValue env fuel n v).h _ _ _ h,
    (PresS.maybeChangeValue env fuel n v).h _ _ _ h, (PresCfg.maybeChangeValue env fuel n v).h _ _ _ h,
    (PresC.maybeChangeValue env fuel n v).h _ _ _ h, (PresK.maybeChangeValue env fuel n v).h _ _ _ h⟩

theorem DFX.started_logged (es : List Event) (n : Nat) (s : State) : DFX s (logged es (started n s)) := by
  have hx := xf_started_logged es n s
  exact ⟨hx.size, hx.kind, ahf_started_logged es n s, XS.of_experts rfl, rfl,
    (Calm.started n s).trans (Calm.logged es _), rfl⟩

/-! ## the auxiliary invariant along the frames -/

section
variable {E : Env} {s s' : State}

theorem shape_actual (hsh : ∀ m, SameShape ((virt s).nodeD m) ((virt s').nodeD m)) (m : Nat) :
    (s'.nodeD m).createdIn = (s.nodeD m).createdIn ∧ (s'.nodeD m).valid = (s.nodeD m).valid ∧
    (s'.nodeD m).cutoff = (s.nodeD m).cutoff ∧ (s'.nodeD m).height = (s.nodeD m).height ∧
    (s'.nodeD m).parents = (s.nodeD m).parents ∧ (s'.nodeD m).observers = (s.nodeD m).observers ∧
    (s'.nodeD m).forceNecessary = (s.nodeD m).forceNecessary := by
  have h := hsh m
  rw [virt_nodeD, virt_nodeD] at h
  exact ⟨h.createdIn, h.valid, h.cutoff, h.height, h.parents, h.observers, h.forceNecessary⟩

theorem allStatic_of_shapes {env : Env} {rk : Nat → Nat} {S S' : State} (A : AllStatic env rk S)
    (hsz : S'.nodes.size = S.nodes.size) (hsh : ∀ m, SameShape (S.nodeD m) (S'.nodeD m))
    (hpc : S'.panicCountdown = none) (hscope : S'.currentScope = S.currentScope) : AllStatic env rk S' := by
  refine ⟨hpc, by rw [hscope]; exact A.scope, fun n hn => ?_, A.inj, by rw [hsz]; exact A.top⟩
  rw [hsz] at hn
  have N := A.node n hn
  have h := hsh n
  exact ⟨by rw [h.valid]; exact N.valid, by rw [h.kind]; exact N.kind, by rw [h.cutoff]; exact N.cutoff,
    by rw [h.createdIn]; exact N.top, by rw [h.forceNecessary]; exact N.force,
    by rw [h.kind]; exact N.kidsLt, by rw [h.kind, hsz]; exact N.kidsIn⟩

theorem varsOK_of_shapes {S S' : State} (V : VarsOK S) (hsz : S'.nodes.size = S.nodes.size)
    (hsh : ∀ m, SameShape (S.nodeD m) (S'.nodeD m)) (hvars : S'.vars = S.vars) : VarsOK S' := by
  refine ⟨fun n c hn hk => ?_, fun c vc hc => ?_⟩
  · rw [hsz] at hn; rw [(hsh n).kind] at hk; rw [hvars]; exact V.node n c hn hk
  · rw [hvars] at hc
    obtain ⟨h1, h2⟩ := V.cell c vc hc
    exact ⟨by rw [hsz]; exact h1, by rw [(hsh _).kind]; exact h2⟩

/-- **the auxiliary invariant along a step** -/
theorem auxD_of_frames (A : AuxD E s) (F' : XFrag E s') (fr' : Fr s') (df : DFX s s')
    (hsh : ∀ m, SameShape ((virt s).nodeD m) ((virt s').nodeD m)) (hvars : s'.vars = s.vars) : AuxD E s' := by
  have hscope : s'.currentScope = s.currentScope := by
    have := df.keyD; simp only [KeyD, stateKeyD, Prod.mk.injEq] at this; exact this.2.2.1
  obtain ⟨rk, hrk⟩ := A.rank
  refine ⟨F', ahhEmpty_of_ahf A.ahh df.ahf, fr'.pinv, fun m => ?_, ⟨rk, ?_⟩, fun c => ?_, ?_⟩
  · rw [df.calm.num]; exact A.handlers m
  · exact allStatic_of_shapes hrk (by rw [virt_size, virt_size]; exact df.size) hsh fr'.pc hscope
  · rw [(shape_actual hsh c).2.2.2.2.1]; exact A.nodup c
  · exact varsOK_of_shapes A.vars (by rw [virt_size, virt_size]; exact df.size) hsh hvars

/-- **the drain frame from the frames of a step** -/
theorem dstep_of_frames (hfb : BindH.FrameB (virt s) (virt s')) (df : DFX s s')
    (hsh : ∀ m, SameShape ((virt s).nodeD m) ((virt s').nodeD m)) (hvars : s'.vars = s.vars)
    (hstab : s'.stabNum = s.stabNum) (hq : s'.rch.queues.size = s.rch.queues.size)
    (hpc : s'.panicCountdown = s.panicCountdown) (hh : ∀ m, (s.nodeD m).numOnUpdateHandlers ≤ 0) :
    DStep s s' := by
  have hk := df.keyD
  simp only [KeyD, stateKeyD, Prod.mk.injEq] at hk
  obtain ⟨k1, k2, k3, k4, -, k6, k7, k8, -, -, -⟩ := hk
  have hc := df.calm
  refine ⟨hfb, df.size, ?_, fun m => ?_⟩
  · simp only [eKey, Prod.mk.injEq]
    exact ⟨hvars, k8, hstab, hc.status, df.cfg, k3, k1, hc.newObservers, hc.disallowedObservers, k2,
      hc.setDuringStab, hc.deadVars, hc.has hh, k7, k4, k6, hq, hpc⟩
  · obtain ⟨h1, h2, h3, -, -, h6, h7⟩ := shape_actual hsh m
    simp only [dnKey, Prod.mk.injEq]
    exact ⟨df.kind m, h1, h3, h2, h6, h7, hc.num m⟩

end

/-! ## the invariant after a step described by `StepRelB` -/

/-- **the common end of the two cases of `stepOtherSpec`** -/
theorem dd_of_stepB {env : Env} {n : Nat} {v : Val} {ch : Bool} {r : Option Nat} {s s' : State}
    (D : DD env s (some n)) (ht : BindH.TargetB (virtEnv (noEff env)) (virt s) n v)
    (R : BindH.StepRelB n v ch r (virt s) (virt s')) (F' : XFrag (noEff env) s') (fr' : Fr s') (df : DFX s s')
    (hD : ∀ m x, Drives s m x → Drives s' m x) :
    DD env s' r ∧ DStep s s' ∧ ((virt s').nodeD n).recomputedAt = s.stabNum := by
  have htop : s'.top = s.top := by
    have := df.keyD; simp only [KeyD, stateKeyD, Prod.mk.injEq] at this; exact this.2.2.2.1
  refine ⟨⟨BindH.stepB_inv D.inv ht R, auxD_of_frames D.aux F' fr' df R.shapes R.vars,
    drvOK_frameX df.size df.kind htop hD D.drv⟩, ?_, R.recomputedAt⟩
  exact dstep_of_frames R.frame df R.shapes R.vars R.stabNum R.qsize
    (fr'.pc.trans D.aux.frag.pc.symm) D.aux.handlers

end IncrVerif.Proofs.DriverH
