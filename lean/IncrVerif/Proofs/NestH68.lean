import IncrVerif.Proofs.NestH25
import IncrVerif.Proofs.NestH30
import IncrVerif.Proofs.NestH35
import IncrVerif.Proofs.NestH40
import IncrVerif.Proofs.NestH58
import IncrVerif.Proofs.NestH66
/-!
# Nested binds (F2), END TO END, part a: no hypothesis about the steps

The three phase contracts are proved (`closure_spec2`, `relink_spec2`, `inval_spec2`); hence `lcStepF2 : LcStepF2 env` and the drain, `stabilise` and whole
histories without any hypothesis on the steps.
-/
namespace IncrVerif.Proofs.NestH
open IncrVerif.Engine IncrVerif.Driver IncrVerif.Proofs IncrVerif.Proofs.Step IncrVerif.Proofs.Sched IncrVerif.Proofs.Quiet
open IncrVerif.Proofs.BindH

/-- **a run of a change detector** (closure run incl. inner binds, re-linking, invalidation of the previous generation incl. inner generations, finish), from the
drain invariant and the auxiliary invariant: it satisfies `StepL2` and keeps `F2Inv` (for an extended ghost rank) -/
theorem lcStepF2 (env : Env) : LcStepF2 env := by
  intro fuel n b rk s s' r I A hk h
  exact recomputeOne_lcF2 (closure_spec2 env) (relink_spec2 env) (inval_spec2 env) I A hk h

/-- the scheduling hypothesis of the pure drain theorems holds for nested binds -/
theorem lcStepsOK_F2' (env : Env) : LcStepsOK2 env (Aux2 env) := lcStepsOK_F2 (lcStepF2 env)

/-- **the drain**, no hypothesis on the steps -/
theorem drainHeap_F2' {env : Env} {fuel : Nat} {s s' : State} (I : DInv env s none) (A : Aux2 env s)
    (h : (drainHeap env fuel).run.run s = (.ok (), s')) :
    DInv env s' none ∧ Aux2 env s' ∧ s'.rch.length = 0 ∧ s'.vars = s.vars ∧ s'.stabNum = s.stabNum ∧
    ∀ n, s'.isNecessary n = true → ∀ k, (s'.nodeD n).height.toNat < k →
      (s'.nodeD n).valid = true ∧ s'.isStale n = false ∧
        (s'.nodeD n).value = evalB env s' k n ∧ s'.value env n = evalB env s' k n ∧
        (evalB env s' k n).isSome = true :=
  drainHeap_F2 (lcStepF2 env) I A h

/-- **no node runs twice; no node of a dying generation (of any nesting depth) runs** -/
theorem drain_once_F2' {env : Env} (fuel : Nat) (s s' : State) (I : DInv env s none) (A : Aux2 env s)
    (h : (drainHeap env fuel).run.run s = (.ok (), s')) :
    (drainTrace env fuel s).Nodup ∧ ∀ m, m ∈ drainTrace env fuel s → RanOnceB s s' m :=
  drain_once_F2 (lcStepF2 env) fuel s s' I A h

/-- **`stabilise`** keeps the invariant between actions, with arbitrary pending observers -/
theorem stabilise_F2' {env : Env} {fuel : Nat} {s s' : State} (Q : QI2 env s)
    (h : (stabilise env fuel).run.run s = (.ok (), s')) : Stabilised2 env fuel s s' :=
  stabilise_F2 (lcStepF2 env) Q h

theorem stabilise_reads_F2' {env : Env} {fuel : Nat} {s s' : State} (Q : QI2 env s)
    (h : (stabilise env fuel).run.run s = (.ok (), s')) : ReadsOK1 env s' ∧ ObsSettled s' :=
  stabilise_reads_F2 (lcStepF2 env) Q h

theorem stab_F2 (env : Env) {fuel : Nat} {s s' : State} (Q : QI2 env s)
    (h : (stabilise env fuel).run.run s = (.ok (), s')) : QI2 env s' :=
  (stabilise_F2' Q h).inv

/-- **every API action of the fragment keeps the invariant** -/
theorem step_q2' {env : Env} {s s' : State} {a : Action} {tokens : Array Nat} {r : String × Array Nat}
    (Q : QI2 env s) (ha : ActionF2 env s.top.size a)
    (h : (stepAction env a tokens).run.run s = (.ok r, s')) : QI2 env s' :=
  step_q2 (stab_F2 env) Q ha h

/-- **whole histories**: every state reached from the initial state by a history of the fragment satisfies the invariant -/
theorem history_q2' {env : Env} {N : Nat} {d : Bool} {acts : List Action} {s : State} {tk : Array Nat}
    (hH : HistF2 env 0 acts) (h : Quiet.runActions env acts (State.init N d) #[] = .ok (s, tk)) : QI2 env s :=
  history_q2 (stab_F2 env) hH h

theorem history_prefix2' {env : Env} {N : Nat} {d : Bool} {as bs : List Action} {s : State} {tk : Array Nat}
    (hH : HistF2 env 0 (as ++ bs)) (h : Quiet.runActions env (as ++ bs) (State.init N d) #[] = .ok (s, tk)) :
    ∃ s1 tk1, Quiet.runActions env as (State.init N d) #[] = .ok (s1, tk1) ∧ QI2 env s1 ∧
      HistF2 env s1.top.size bs ∧ Quiet.runActions env bs s1 tk1 = .ok (s, tk) :=
  history_prefix2 (stab_F2 env) hH h

end IncrVerif.Proofs.NestH
