import IncrVerif.Proofs.PerKeyH1
import IncrVerif.Proofs.AssocMapLemmas
/-!
# Per-key operators, pure part: `AMap.ofList`, the assembling fold, `penv`

Only list/map lemmas: no engine state.
-/
namespace IncrVerif.Proofs.PerKeyH
open IncrVerif IncrVerif.Engine IncrVerif.Proofs IncrVerif.Proofs.ExpertH IncrVerif.Proofs.EffH

/-! ## 1. `ofList` is sorted; `lookup` of `insert` -/

theorem foldl_insert_sorted (l : List (Int × Int)) (acc : AMap Int) (h : AMap.Sorted acc) :
    AMap.Sorted (l.foldl (fun m kv => AMap.insert m kv.1 kv.2) acc) := by
  induction l generalizing acc with
  | nil => exact h
  | cons kv l ih => exact ih _ (AMap.sorted_insert acc h kv.1 kv.2)

theorem ofList_sorted (l : List (Int × Int)) : AMap.Sorted (AMap.ofList l) :=
  foldl_insert_sorted l [] AMap.sorted_nil

/-- (`AssocMapLemmas`) no sortedness needed -/
theorem lookup_insert (m : AMap Int) (k v k' : Int) :
    AMap.lookup (AMap.insert m k v) k' = if k' = k then some v else AMap.lookup m k' :=
  AMap.lookup_insert m k v k'

theorem lookup_insert_self (m : AMap Int) (k v : Int) : AMap.lookup (AMap.insert m k v) k = some v :=
  AMap.lookup_insert_self m k v

theorem lookup_insert_ne (m : AMap Int) (k v k' : Int) (h : k' ≠ k) :
    AMap.lookup (AMap.insert m k v) k' = AMap.lookup m k' :=
  AMap.lookup_insert_ne m k v k' h

/-! ## 2. `lookup` of `ofList` of a key-distinct list -/

theorem lookup_foldl_insert_nodup (l : List (Int × Int)) (h : (l.map (·.1)).Nodup) (acc : AMap Int) (k : Int) :
    AMap.lookup (l.foldl (fun m kv => AMap.insert m kv.1 kv.2) acc) k = (l.lookup k).or (AMap.lookup acc k) := by
  induction l generalizing acc with
  | nil => simp
  | cons kv l ih =>
    rcases kv with ⟨k0, v0⟩
    rw [List.map_cons, List.nodup_cons] at h
    rw [List.foldl_cons, ih h.2, List.lookup_cons]
    by_cases hk : k = k0
    · subst hk
      have hn : l.lookup k = none := by
        rw [List.lookup_eq_none_iff]
        intro p hp
        have : p.1 ≠ k := fun e => h.1 (List.mem_map.mpr ⟨p, hp, e⟩)
        simpa [bne_iff_ne] using fun e => this e.symm
      simp [hn, AMap.lookup_insert_self]
    · have : (k == k0) = false := by simpa using hk
      simp only [this]
      rw [AMap.lookup_insert_ne _ _ _ _ hk]

theorem lookup_ofList_nodup {l : List (Int × Int)} (h : (l.map (·.1)).Nodup) (k : Int) :
    AMap.lookup (AMap.ofList l) k = l.lookup k := by
  unfold AMap.ofList
  rw [lookup_foldl_insert_nodup l h [] k]
  simp

theorem list_lookup_eq_find (l : List (Int × Int)) (k : Int) :
    l.lookup k = (l.find? (fun p => p.1 == k)).map (·.2) := by
  induction l with
  | nil => rfl
  | cons kv l ih =>
    rcases kv with ⟨k0, v0⟩
    rw [List.lookup_cons, List.find?_cons]
    by_cases hk : k = k0
    · subst hk; simp
    · have h1 : (k == k0) = false := by simpa using hk
      have h2 : (k0 == k) = false := by simpa using fun e : k0 = k => hk e.symm
      simp only [h1, h2, ih]

theorem lookup_ofList_nodup_find {l : List (Int × Int)} (h : (l.map (·.1)).Nodup) (k : Int) :
    AMap.lookup (AMap.ofList l) k = (l.find? (fun p => p.1 == k)).map (·.2) := by
  rw [lookup_ofList_nodup h, list_lookup_eq_find]

/-- in a key-distinct list, `lookup` is membership -/
theorem list_lookup_eq_some_iff_mem {β : Type} {l : List (Int × β)} (h : (l.map (·.1)).Nodup) (k : Int) (v : β) :
    l.lookup k = some v ↔ (k, v) ∈ l := by
  induction l with
  | nil => simp
  | cons kv l ih =>
    rcases kv with ⟨k0, v0⟩
    rw [List.map_cons, List.nodup_cons] at h
    rw [List.lookup_cons, List.mem_cons]
    by_cases hk : k = k0
    · subst hk
      simp only [beq_self_eq_true, Option.some.injEq, Prod.mk.injEq, true_and]
      constructor
      · intro e; exact .inl e.symm
      · rintro (e | hm)
        · exact e.symm
        · exact absurd (List.mem_map.mpr ⟨(k, v), hm, rfl⟩) h.1
    · have h1 : (k == k0) = false := by simpa using hk
      simp only [h1, ih h.2, Prod.mk.injEq, hk, false_and, false_or]

theorem list_lookup_eq_none_iff_not_mem_keys {β : Type} (l : List (Int × β)) (k : Int) :
    l.lookup k = none ↔ k ∉ l.map (·.1) := by
  rw [List.lookup_eq_none_iff]
  constructor
  · intro h hm
    obtain ⟨p, hp, e⟩ := List.mem_map.mp hm
    have := h p hp
    simp [e] at this
  · intro h p hp
    have : p.1 ≠ k := fun e => h (List.mem_map.mpr ⟨p, hp, e⟩)
    simpa [bne_iff_ne] using fun e => this e.symm

theorem lookup_ofList_eq_some_iff {l : List (Int × Int)} (h : (l.map (·.1)).Nodup) (k v : Int) :
    AMap.lookup (AMap.ofList l) k = some v ↔ (k, v) ∈ l := by
  rw [lookup_ofList_nodup h, list_lookup_eq_some_iff_mem h]

theorem lookup_ofList_eq_none_iff {l : List (Int × Int)} (h : (l.map (·.1)).Nodup) (k : Int) :
    AMap.lookup (AMap.ofList l) k = none ↔ k ∉ l.map (·.1) := by
  rw [lookup_ofList_nodup h, list_lookup_eq_none_iff_not_mem_keys]

/-! ## 3. extensionality -/

theorem sorted_ext {a b : AMap Int} (ha : AMap.Sorted a) (hb : AMap.Sorted b)
    (h : ∀ k, AMap.lookup a k = AMap.lookup b k) : a = b :=
  AMap.ext_lookup a b ha hb h

/-! ## 4. `ofList` of key-distinct lists depends only on the set of bindings -/

theorem ofList_eq_of_mem_iff {l l' : List (Int × Int)} (hn : (l.map (·.1)).Nodup) (hn' : (l'.map (·.1)).Nodup)
    (h : ∀ k v, (k, v) ∈ l ↔ (k, v) ∈ l') : AMap.ofList l = AMap.ofList l' := by
  apply sorted_ext (ofList_sorted l) (ofList_sorted l')
  intro k
  apply Option.ext
  intro v
  rw [lookup_ofList_eq_some_iff hn, lookup_ofList_eq_some_iff hn', h]

theorem ofList_perm {l l' : List (Int × Int)} (hn : (l.map (·.1)).Nodup) (hp : l.Perm l') :
    AMap.ofList l = AMap.ofList l' :=
  ofList_eq_of_mem_iff hn ((hp.map _).nodup_iff.mp hn) (fun _ _ => hp.mem_iff)

/-! ## 5. the assembling fold -/

theorem asmPairs_cons (k t : Int) (tags : List (Int × Int)) (v : Val) (vals : List Val) :
    asmPairs ((k, t) :: tags) (v :: vals) = (if t = 1 then [(k, v.toInt)] else []) ++ asmPairs tags vals := rfl

@[simp] theorem asmPairs_nil_left (vals : List Val) : asmPairs [] vals = [] := rfl

@[simp] theorem asmPairs_nil_right (tags : List (Int × Int)) : asmPairs tags [] = [] := by
  cases tags with
  | nil => rfl
  | cons kt tags => rcases kt with ⟨k, t⟩; rfl

theorem asmStep_cons (k t : Int) (rest built : List (Int × Int)) (x : Val) :
    asmStep (.pair (.map ((k, t) :: rest)) (.map built)) x =
      (if rest.isEmpty then .map (AMap.ofList (if t = 1 then built ++ [(k, x.toInt)] else built))
       else .pair (.map rest) (.map (if t = 1 then built ++ [(k, x.toInt)] else built))) := rfl

theorem asm_fold_gen (tags : List (Int × Int)) (vals : List Val) (built : List (Int × Int))
    (hl : tags.length = vals.length) (hne : tags ≠ []) :
    vals.foldl asmStep (.pair (.map tags) (.map built)) = .map (AMap.ofList (built ++ asmPairs tags vals)) := by
  induction tags generalizing vals built with
  | nil => exact absurd rfl hne
  | cons kt rest ih =>
    rcases kt with ⟨k, t⟩
    cases vals with
    | nil => simp at hl
    | cons v vs =>
      simp only [List.length_cons, Nat.add_right_cancel_iff] at hl
      rw [List.foldl_cons, asmStep_cons, asmPairs_cons]
      cases rest with
      | nil =>
        have : vs = [] := List.length_eq_zero_iff.mp hl.symm
        subst this
        simp only [List.isEmpty_nil, if_true, List.foldl_nil, asmPairs_nil_left, List.append_nil]
        split <;> simp
      | cons kt' rest' =>
        simp only [List.isEmpty_cons, Bool.false_eq_true, if_false]
        rw [ih vs _ hl (by simp)]
        split <;> simp

theorem asm_fold (tags : List (Int × Int)) (vals : List Val)
    (hl : tags.length = vals.length) (hne : tags ≠ []) :
    vals.foldl asmStep (asmInit tags) = .map (AMap.ofList (asmPairs tags vals)) := by
  unfold asmInit
  rw [asm_fold_gen tags vals [] hl hne]
  simp

/-! ### through `penv` -/

theorem penv_foldStep_xAsm (env : Env) : (penv env).foldStep xAsm = asmStep := by
  funext acc x
  simp [penv, xAsm, xConst]

theorem penv_foldStep_xConst (env : Env) (acc x : Val) : (penv env).foldStep xConst acc x = acc := by
  simp [penv]

theorem penv_fn_fLc (env : Env) (vals : List Val) : (penv env).fn fLc vals = .unit := by
  simp [penv]

theorem penv_fn_lt (env : Env) {f : Nat} (h : f < fnZip) : (penv env).fn f = env.fn f := by
  funext vals
  have : f ≠ fLc := by unfold fLc; unfold fnZip at h; omega
  simp [penv, this]

theorem penv_fn_ne (env : Env) {f : Nat} (h : f ≠ fLc) : (penv env).fn f = env.fn f := by
  funext vals
  simp [penv, h]

theorem penv_fn_fnIdent (env : Env) : (penv env).fn fnIdent = env.fn fnIdent :=
  penv_fn_ne env (by decide)

theorem penv_fn_fnZip (env : Env) : (penv env).fn fnZip = env.fn fnZip :=
  penv_fn_ne env (by decide)

theorem penv_foldStep_lt (env : Env) {F : Nat} (h : F < xBase) : (penv env).foldStep F = env.foldStep F := by
  funext acc x
  have h1 : F ≠ xConst := by unfold xConst; omega
  have h2 : F ≠ xAsm := by unfold xAsm; omega
  simp [penv, h1, h2]

theorem penv_foldStep_other (env : Env) {F : Nat} (h1 : F ≠ xConst) (h2 : F ≠ xAsm) :
    (penv env).foldStep F = env.foldStep F := by
  funext acc x
  simp [penv, h1, h2]

theorem penv_fold_xConst (env : Env) (vals : List Val) (init : Val) :
    vals.foldl ((penv env).foldStep xConst) init = init := by
  induction vals with
  | nil => rfl
  | cons v vs ih => rw [List.foldl_cons, penv_foldStep_xConst, ih]

theorem penv_fold_xAsm (env : Env) (tags : List (Int × Int)) (vals : List Val)
    (hl : tags.length = vals.length) (hne : tags ≠ []) :
    vals.foldl ((penv env).foldStep xAsm) (asmInit tags) = .map (AMap.ofList (asmPairs tags vals)) := by
  rw [penv_foldStep_xAsm, asm_fold tags vals hl hne]

end IncrVerif.Proofs.PerKeyH
