import IncrVerif.Proofs.BindH91
import IncrVerif.Proofs.BindH90
import IncrVerif.Proofs.BindH13
import IncrVerif.Proofs.BindH78
import IncrVerif.Proofs.Quiet16
/-!
# Binds, part 4 (B4), `stabilise`, part 1: `stabiliseEnd` keeps the bind table, congruences
-/
namespace IncrVerif.Proofs.BindH
open IncrVerif.Engine IncrVerif.Driver IncrVerif.Proofs IncrVerif.Proofs.Step IncrVerif.Proofs.Sched IncrVerif.Proofs.Quiet

namespace C2s

/-! ## `stabiliseEnd` keeps the bind table -/

/-- what `Quiet.Finished'` does not say -/
structure MidB (s t : State) : Prop where
  binds : t.binds = s.binds
  observers : t.observers = s.observers

theorem stabiliseEnd_binds {env : Env} {fuel : Nat} {s s' : State} (h1 : s.setDuringStab = [])
    (h2 : s.deadVars = []) (hobs : ∀ (o : Nat) (ob : ObsRec), s.observers[o]? = some ob → ob.handlers = [])
    (h : (stabiliseEnd env fuel).run.run s = (.ok (), s')) : s'.binds = s.binds := by
  unfold stabiliseEnd at h
  obtain ⟨s1, e1, h⟩ := bind_modify_inv h
  rw [run_bind_get] at h
  try dsimp only at h
  obtain ⟨s2, e2, h⟩ := bind_modify_inv h
  have h1' : s1.setDuringStab = [] := by rw [e1]; exact h1
  rw [h1', List.forIn_nil] at h
  obtain ⟨_, s3, hp, h⟩ := bind_ok_inv h
  obtain ⟨_, e3⟩ := pure_ok_inv hp
  rw [e3] at h
  rw [run_bind_get] at h
  try dsimp only at h
  obtain ⟨s4, e4, h⟩ := bind_modify_inv h
  have h2' : s2.deadVars = [] := by rw [e2, e1]; exact h2
  rw [h2', List.forIn_nil] at h
  obtain ⟨_, s5, hp5, h⟩ := bind_ok_inv h
  obtain ⟨_, e5⟩ := pure_ok_inv hp5
  rw [e5] at h
  rw [run_bind_get] at h
  try dsimp only at h
  obtain ⟨s6, e6, h⟩ := bind_modify_inv h
  have M6 : MidB s s6 := by
    rw [e6, e4, e2, e1]
    exact ⟨rfl, rfl⟩
  obtain ⟨q, s7, hl3, h⟩ := bind_ok_inv h
  have M7 : MidB s s7 := by
    refine forIn_ok_keepB (MidB s) _ _ ?_ _ _ _ _ M6 hl3
    intro n _ b t r t' Mt hb
    obtain ⟨t1, et1, hb⟩ := bind_modNode_inv hb
    rw [run_bind_get] at hb
    obtain ⟨_, et'⟩ := pure_ok_inv hb
    rw [et', et1]
    exact ⟨Mt.binds, Mt.observers⟩
  obtain ⟨s8, e8, h⟩ := bind_modify_inv h
  rw [run_bind_get] at h
  obtain ⟨_, s9, hl4, h⟩ := bind_ok_inv h
  have e9 : s9 = s8 := by
    refine forIn_ok_keepB (fun t => t = s8) _ _ ?_ _ _ _ _ rfl hl4
    intro x _ b t r t' et hb
    obtain ⟨nd, _, hb⟩ := bind_getNode_inv hb
    obtain ⟨_, t1, hb1, hb⟩ := bind_ok_inv hb
    obtain ⟨_, et'⟩ := pure_ok_inv hb
    rw [et']
    refine forIn_ok_keepB (fun t => t = s8) _ _ ?_ _ _ _ _ et hb1
    intro o _ b2 u r2 u' eu hr
    obtain ⟨_, u1, hr1, hr⟩ := bind_ok_inv hr
    obtain ⟨_, eu'⟩ := pure_ok_inv hr
    rw [eu']
    have hobs' : ∀ (o : Nat) (ob : ObsRec), u.observers[o]? = some ob → ob.handlers = [] := by
      intro o ob ho
      rw [eu, e8] at ho
      exact hobs o ob (by rw [← M7.observers]; exact ho)
    rw [runAll_nohandlers hobs' hr1]; exact eu
  obtain ⟨s10, e10, h⟩ := bind_modify_inv h
  rw [run_modify] at h
  obtain ⟨_, e11⟩ := Prod.mk.inj h
  rw [← e11, e10, e9, e8]
  exact M7.binds

/-! ## congruences -/

/-- `evalB` reads kinds, cells and the bind table only -/
theorem evalB_congr {env : Env} {s s' : State} (hk : ∀ m, (s'.nodeD m).kind = (s.nodeD m).kind)
    (hv : s'.vars = s.vars) (hb : s'.binds = s.binds) (k n : Nat) : evalB env s' k n = evalB env s k n := by
  induction k generalizing n with
  | zero => rfl
  | succ k ih =>
    unfold evalB
    rw [hk n, hv, hb]
    have : (fun a => evalB env s' k a) = (fun a => evalB env s k a) := funext ih
    rw [this]

/-- the set of excused nodes may shrink to an equivalent one -/
theorem ginv1_ex_congr {env : Env} {s : State} {op : Nat → Op} {ex ex' : Nat → Prop} {dy : List Nat}
    (I : GInv1 env s op ex dy) (h : ∀ m, ex m → ex' m) : GInv1 env s op ex' dy :=
  { I with queued := fun m ho hn hs hex => I.queued m ho hn hs (fun e => hex (h m e)) }

theorem struct1_of_dinv {env : Env} {s : State} (I : DInv env s none) (A : F1Inv env s) : Struct1 env s :=
  ginv1_ex_congr (ginv1_of_dinv I A) (fun m e => by cases e)

end C2s

end IncrVerif.Proofs.BindH
