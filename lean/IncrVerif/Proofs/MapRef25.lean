import IncrVerif.Proofs.MapRef17
import IncrVerif.Proofs.MapRef24
import IncrVerif.Proofs.MapRef18
/-!
# map_ref fragment, part 11: the invariant between API actions, and `stabilise` with pending observers (M2)
-/
namespace IncrVerif.Proofs.MapRefH
open IncrVerif.Engine IncrVerif.Driver IncrVerif.Proofs IncrVerif.Proofs.Step IncrVerif.Proofs.Sched IncrVerif.Proofs.Quiet

/-- **the invariant between API actions** of the fragment static + map_ref, for ghost values `g`: the state is in
the fragment, the virtual static state satisfies the invariant `Quiet.QInv` of the static fragment, and the `didChange`
invariant holds. -/
structure QInvR (env : Env) (s : State) (g : Nat → Option Val) : Prop where
  frag : RFrag env s
  q : QInv (virtEnv env) (virt g s)
  k : KInv env g s

section
variable {env : Env} {g : Nat → Option Val} {s : State}

/-- a map_ref node that is not stale is unclean only through its input: from the consistency of the virtual state -/
theorem inherit_of_cons (F : RFrag env s)
    (hcons : ∀ m, m < s.nodes.size → staleOf (virt g s) m = false → Consistent (virtEnv env) (virt g s) m) :
    Inherit env g s := by
  intro m pr i hk hst hu
  have hlt := F.lt_of_mapRef hk
  have hs : staleOf (virt g s) m = false := by rw [virt_staleOf g s m (F.valid m hlt) (F.kind m hlt)]; exact hst
  obtain ⟨w, hw, hv⟩ := hcons m hlt hs
  have hkv : ((virt g s).nodeD m).kind = .map (projBase + pr) [i] := by
    rw [virt_nodeD, virtNode_kind, hk]; rfl
  unfold Target at hw
  rw [hkv] at hw
  obtain ⟨vals, hvals, hwv⟩ := hw
  rw [virt_plainVals] at hvals
  simp only [evalArgs] at hvals
  have hgm : g m = tv g s m := (tv_mapRef hk).symm
  have hread : s.value env m = (s.value env i).map (env.proj pr) := value_mapRef F hk
  cases hx : tv g s i with
  | none => rw [hx] at hvals; simp at hvals
  | some x =>
    rw [hx] at hvals
    simp at hvals
    subst hvals
    have hgm' : g m = some (env.proj pr x) := by
      rw [hgm]; show ((virt g s).nodeD m).value = _; rw [hv, hwv, virtEnv_fn_proj]; rfl
    -- if the input read `x`, `m` would be clean
    have hne : s.value env i ≠ some x := by
      intro h; apply hu; unfold Unclean at *; rw [hgm', hread, h]; rfl
    by_cases hmi : ∀ p j, (s.nodeD i).kind ≠ .mapRef p j
    · exact absurd ((tv_not_mapRef hmi).symm.trans hx) hne
    · have hmr : IsMapRef (s.nodeD i).kind := Classical.byContradiction fun h => hmi (not_isMapRef_iff.1 h)
      refine ⟨hmr, ?_⟩
      obtain ⟨p, j, hki⟩ := isMapRef_iff.1 hmr
      unfold Unclean
      have : g i = some x := by rw [← tv_mapRef (g := g) hki]; exact hx
      rw [this]
      exact fun h => hne h.symm

theorem QInvR.inherit (Q : QInvR env s g) : Inherit env g s :=
  inherit_of_cons Q.frag (fun m hm hs => Q.q.cons m (by rw [virt_size]; exact hm) hs)

theorem QInvR.pinv (Q : QInvR env s g) : s.propagateInvalidity = [] := Q.q.pinv

/-- `Finished'` (the description of `stabiliseEnd`) of the actual states gives it for the virtual states -/
theorem finished_virt {t s' : State} (g : Nat → Option Val) (E : Finished' t s') : Finished' (virt g t) (virt g s') where
  size := by rw [virt_size, virt_size]; exact E.size
  node m := by
    obtain ⟨b, hb⟩ := E.node m
    refine ⟨b, ?_⟩
    rw [virt_nodeD, virt_nodeD, hb]
    unfold virtNode
    cases (t.nodeD m).kind <;> rfl
  vars := E.vars
  rch := E.rch
  ahh := E.ahh
  observers := E.observers
  newObservers := E.newObservers
  disallowedObservers := E.disallowedObservers
  allObservers := E.allObservers
  scope := E.scope
  pc := E.pc
  top := E.top
  handles := E.handles
  alive := E.alive
  pinv := E.pinv
  cfg := E.cfg
  stabNum := E.stabNum
  status := E.status
  setDuringStab := E.setDuringStab
  deadVars := E.deadVars
  handleAfterStab := E.handleAfterStab

/-- what `stabilise` establishes, in terms of the actual state -/
structure StabilisedR (env : Env) (fuel : Nat) (s s' : State) (g g' : Nat → Option Val) : Prop where
  inv : QInvR env s' g'
  virt : StabilisedC (virtEnv env) (virt g s) (virt g' s')
  /-- every necessary node is not stale and READS its from-scratch value -/
  values : ∀ n, s'.isNecessary n = true → ∀ k, (s'.nodeD n).height.toNat < k →
    s'.isStale n = false ∧ s'.value env n = evalR env s' k n ∧ (evalR env s' k n).isSome = true
  /-- the drain starts in a state with the drain invariant of M1 and ends in one, with an empty heap -/
  drain : ∃ t2 t3, DrainInvR env t2 ∧ (drainHeap env fuel).run.run t2 = (.ok (), t3) ∧ DrainInvR env t3 ∧
    t3.rch.length = 0 ∧ t2.vars = s.vars ∧ ∀ m, s'.isNecessary m = t2.isNecessary m


theorem virt_status_set (g : Nat → Option Val) (s : State) (x : Status) :
    virt g { s with status := x } = { virt g s with status := x } := rfl

set_option maxHeartbeats 800000 in
/-- **M2: `stabilise` with pending observers**, fragment static + map_ref. -/
theorem stabiliseR {fuel : Nat} {s' : State} (Q : QInvR env s g)
    (h : (stabilise env fuel).run.run s = (.ok (), s')) : ∃ g', StabilisedR env fuel s s' g g' := by
  unfold stabilise at h
  rw [run_bind_get] at h
  obtain ⟨_, sa, ha, h⟩ := bind_ok_inv h
  have hsa : sa = s := by
    rw [run_assertM] at ha
    split at ha <;> cases ha
    rfl
  rw [hsa] at h
  obtain ⟨s0, hs0, h⟩ := bind_modify_inv h
  obtain ⟨_, t1, h1, h⟩ := bind_ok_inv h
  obtain ⟨_, t2, h2, h⟩ := bind_ok_inv h
  obtain ⟨_, t3, h3, h4⟩ := bind_ok_inv h
  have Qv := Q.q
  -- the state with the status set
  have hs0v : virt g s0 = { virt g s with status := .stabilising } := by rw [hs0]; rfl
  have V0 : VFrame s s0 := VFrame.of_nodes (by rw [hs0]) (by rw [hs0])
  have F0 : RFrag env s0 := RFrag.of_vframe V0 Q.frag
  have T0 : Inherit env g s0 := Inherit.of_vframe V0 Q.inherit
  have hp0 : s0.propagateInvalidity = [] := by rw [hs0]; exact Q.pinv
  have K0 : KInv env g s0 := by
    have : ∀ m, s0.nodeD m = s.nodeD m := fun m => by rw [hs0]; rfl
    refine Q.k.congr (fun m => by simp only [State.isNecessary, this]) (fun m => by rw [this])
      (fun m hd => by rw [← this]; exact hd) (fun m _ _ _ _ _ => ?_)
    exact value_congr env s s0 (by rw [hs0]) (fun k => by rw [this]) m
  have S0 : SInv (virtEnv env) (virt g s0) (virt g s0).newObservers (virt g s0).disallowedObservers := by
    rw [hs0v]
    exact ⟨Qv.struct.congr (SameG.of_nodes rfl rfl rfl rfl rfl),
      ⟨Qv.obs.inRange, Qv.obs.mem, Qv.obs.created, Qv.obs.newIn, Qv.obs.dis, Qv.obs.disIn, Qv.obs.disNodup⟩,
      Qv.pinv, Qv.handlers⟩
  -- the prefix: simulated by the virtual engine; the `didChange` invariant through the cascades
  obtain ⟨hv1, fr1⟩ := Sim.addNewObservers (g := g) env fuel s0 (F0.fr hp0) _ t1 h1
  obtain ⟨S1, hn1, hd1, P1, O1, -⟩ := addNewObservers_s S0 hv1
  obtain ⟨K1, hp1, -, V1⟩ := addNewObservers_keepsK' F0 T0 hp0 K0 h1
  have F1 : RFrag env t1 := RFrag.of_vframe V1 F0
  obtain ⟨hv2, fr2⟩ := Sim.unlinkDisallowedObservers (g := g) fuel t1 fr1 _ t2 h2
  obtain ⟨S2, hn2, hd2, P2, O2⟩ := unlinkDisallowedObservers_s S1 hn1 hv2
  have SH2 := unlinkDisallowedObservers_sh h2
  have K2 : KInv env g t2 := K1.of_sh SH2
  have F2 : RFrag env t2 := RFrag.of_vframe SH2.vf F1
  have hp2 : t2.propagateInvalidity = [] := SH2.pinv.trans hp1
  have P := P1.trans P2
  -- the drain
  obtain ⟨D2, U2⟩ := drain_start Qv hs0v S2 P
  have DR2 : DInvR env t2 g none := ⟨F2, D2, K2, hp2⟩
  obtain ⟨g3, DR3, he3, f3⟩ := drainHeapR_inv fuel t2 t3 g DR2 h3
  have U3 := f3.unnec U2
  -- the end
  have c3 := f3.calm
  have E := stabiliseEnd_fin (env := env) (fuel := fuel) (s := t3) (s' := s')
    (by
      have := c3.setDuringStab
      show t3.setDuringStab = []
      have e1 : (virt g3 t3).setDuringStab = t3.setDuringStab := rfl
      rw [← e1, this, P.setDuringStab, hs0v]; exact Qv.setDuringStab)
    (by
      have := c3.deadVars
      have e1 : (virt g3 t3).deadVars = t3.deadVars := rfl
      rw [← e1, this, P.deadVars, hs0v]; exact Qv.deadVars)
    (by
      intro o ob ho
      have hk := f3.keyD
      simp only [KeyD, stateKeyD, Prod.mk.injEq] at hk
      have e1 : (virt g3 t3).observers = t3.observers := rfl
      rw [← e1, hk.1] at ho
      exact (S2.obs.inRange o ob ho).2) h4
  have Ev := finished_virt g3 E
  have SC := stab_core Qv hs0v S2 hn2 hd2 P O1 O2 DR3.inv he3 f3.frame c3 f3.keyD U3 Ev
  -- the actual final state
  have hEn : ∀ m, ∃ b, s'.nodeD m = { t3.nodeD m with inHandleAfterStab := b } := E.node
  have hkind : ∀ m, (s'.nodeD m).kind = (t3.nodeD m).kind := fun m => by obtain ⟨b, hb⟩ := hEn m; rw [hb]
  have hvalid : ∀ m, (s'.nodeD m).valid = (t3.nodeD m).valid := fun m => by obtain ⟨b, hb⟩ := hEn m; rw [hb]
  have hcut : ∀ m, (s'.nodeD m).cutoff = (t3.nodeD m).cutoff := fun m => by obtain ⟨b, hb⟩ := hEn m; rw [hb]
  have hvalue : ∀ m, (s'.nodeD m).value = (t3.nodeD m).value := fun m => by obtain ⟨b, hb⟩ := hEn m; rw [hb]
  have hflag : ∀ m, (s'.nodeD m).didChange = (t3.nodeD m).didChange := fun m => by
    obtain ⟨b, hb⟩ := hEn m; rw [hb]
  have hnec : ∀ m, s'.isNecessary m = t3.isNecessary m := fun m => by
    obtain ⟨b, hb⟩ := hEn m; simp only [State.isNecessary, hb]; rfl
  have hheight : ∀ m, (s'.nodeD m).height = (t3.nodeD m).height := fun m => by obtain ⟨b, hb⟩ := hEn m; rw [hb]
  have hval : ∀ m, s'.value env m = t3.value env m := fun m =>
    value_congr env t3 s' E.size (fun k => by simp only [valueCore, hkind, hvalid, hvalue]) m
  have F' : RFrag env s' :=
    ⟨by rw [E.pc]; exact DR3.frag.pc, fun m hm => by rw [hkind]; exact DR3.frag.kind m (by rw [← E.size]; exact hm),
      fun m hm => by rw [hvalid]; exact DR3.frag.valid m (by rw [← E.size]; exact hm),
      fun m hm => by rw [hkind]; exact DR3.frag.back m (by rw [← E.size]; exact hm),
      fun m p i hk => by rw [hkind] at hk; rw [hcut]; exact DR3.frag.cut m p i hk⟩
  have K' : KInv env g3 s' :=
    DR3.k.congr hnec hkind (fun m hd => by rw [← hflag]; exact hd) (fun m _ _ _ _ _ => hval m)
  refine ⟨g3, ⟨F', SC.inv, K'⟩, SC, ?_, ?_⟩
  · intro n hn k hk
    have hn3 : t3.isNecessary n = true := by rw [← hnec]; exact hn
    obtain ⟨-, v2, v3, v4⟩ := drainedR_values DR3 he3 n hn3 k (by rw [← hheight]; exact hk)
    have hev : evalR env s' k n = evalR env t3 k n := evalR_congr hkind E.vars k n
    refine ⟨?_, by rw [hval, hev]; exact v3, by rw [hev]; exact v4⟩
    have := (SC.values n (by rw [virt_isNecessary]; exact hn) k
      (by rw [virt_nodeD, virtNode_height]; exact hk)).2.1
    rwa [virt_isStale] at this
  · refine ⟨t2, t3, ⟨g, DR2⟩, h3, ⟨g3, DR3⟩, he3, ?_, fun m => ?_⟩
    · have := P.vars; rw [hs0v] at this; exact this
    · rw [hnec]
      have := f3.frame.nec m
      rwa [virt_isNecessary, virt_isNecessary] at this

end
end IncrVerif.Proofs.MapRefH
