import IncrVerif.Proofs.BindH31
/-!
# Binds, `relink`, part 2: the new right-hand side in the record; frames (`MFr`: the marks of the adjust-heights heap,
`KRel`: what `RRelB` keeps), `propagateInvalidity` on an empty list
-/
namespace IncrVerif.Proofs.BindH
open IncrVerif.Engine IncrVerif.Proofs IncrVerif.Proofs.Step IncrVerif.Proofs.Sched IncrVerif.Proofs.Quiet

namespace BR

/-- **new right-hand side**: the record of bind `b` gets the right-hand side `rhs` while the bind's main node is
`.linking 1` (its child edge 1 is neither wanted nor recorded) -/
theorem setRhs {env : Env} {s s' : State} {op : Nat → Op} {ex : Nat → Prop} {b n main rhs : Nat} {br : BindRec}
    (I : GInvB env s op ex) (hop : op main = .linking 1)
    (hb : s.binds[b]? = some br) (hm : br.main = main)
    (hkm : (s.nodeD main).kind = .bindMain b n)
    (hnm : n < main) (hrm : rhs < main) (hrk : ∀ b', (s.nodeD rhs).kind ≠ .bindLhsChange b')
    (hnd : ∀ m, s'.nodeD m = s.nodeD m) (hsz : s'.nodes.size = s.nodes.size)
    (hpc : s'.panicCountdown = s.panicCountdown) (hsc : s'.currentScope = s.currentScope)
    (hrch : s'.rch = s.rch) (hvars : s'.vars = s.vars) (hexp : s'.experts = s.experts)
    (hb' : s'.binds[b]? = some { br with rhs := some rhs })
    (hbo : ∀ b', b' ≠ b → s'.binds[b']? = s.binds[b']?)
    (hst : (s.nodeD main).recomputedAt < (s.nodeD n).changedAt) :
    GInvB env s' op ex := by
  have hms : main < s.nodes.size := I.opLt main (by rw [hop]; exact Op.linking_ne_closed _)
  have sm := I.frag.node main hms
  have hvm := sm.valid
  have hch0 : s.children main = n :: br.rhs.toList := children_main hvm hkm hb
  have hch1 : s'.children main = [n, rhs] :=
    children_main (br := { br with rhs := some rhs }) (by rw [hnd]; exact hvm) (by rw [hnd]; exact hkm) hb'
  have hch : ∀ m, m ≠ main → s'.children m = s.children m := by
    intro m e
    by_cases hlt : m < s.nodes.size
    · have hkq : (s.nodeD m).kind? = some (s.nodeD m).kind := by
        unfold Node.kind?; rw [(I.frag.node m hlt).valid]; rfl
      unfold State.children
      rw [hnd, hexp, hkq]
      cases hkd : (s.nodeD m).kind with
      | bindLhsChange b' =>
        by_cases eb : b' = b
        · simp only [eb, hb', hb]
        · simp only [hbo b' eb]
      | bindMain b' lc =>
        have eb : b' ≠ b := by
          intro eb
          obtain ⟨br', h1, h2, -⟩ := (I.frag.node m hlt).mainRec b' lc hkd
          rw [eb, hb] at h1
          cases h1
          exact e (h2.symm.trans hm)
        simp only [hbo b' eb]
      | _ => rfl
    · rw [children_default s m (by omega), children_default s' m (by rw [hsz]; omega)]
  have hnec : ∀ m, s'.isNecessary m = s.isNecessary m := fun m => by simp only [State.isNecessary, hnd]
  have hstl : ∀ m, m ≠ main → s'.isStale m = s.isStale m := by
    intro m e
    unfold State.isStale
    simp only [hnd, hch m e, hvars, hexp]
  have hstm : s'.isStale main = true := by
    refine isStale_main (b := b) (lc := n) (br := { br with rhs := some rhs }) (by rw [hnd]; exact hvm)
      (by rw [hnd]; exact hkm) hb' ?_
    rw [hnd, hnd]; exact hst
  have hA : AllB env s' := by
    refine ⟨by rw [hpc]; exact I.frag.pc, by rw [hsc]; exact I.frag.scope, fun m hmlt => ?_⟩
    have sn := I.frag.node m (by rw [← hsz]; exact hmlt)
    refine ⟨by rw [hnd]; exact sn.valid, by rw [hnd]; exact sn.kind, by rw [hnd]; exact sn.cutoff,
      by rw [hnd]; exact sn.top, ?_, ?_, ?_, ?_⟩
    · by_cases e : m = main
      · rw [e, hch1]
        intro c hc
        simp only [List.mem_cons, List.not_mem_nil, or_false] at hc
        rcases hc with hc | hc
        · rw [hc]; exact hnm
        · rw [hc]; exact hrm
      · rw [hch m e]; exact sn.kidsLt
    · intro b' hk
      rw [hnd] at hk
      obtain ⟨br', h1, h2⟩ := sn.lcRec b' hk
      by_cases eb : b' = b
      · rw [eb] at h1 ⊢
        rw [hb] at h1
        cases h1
        exact ⟨_, hb', h2⟩
      · exact ⟨br', by rw [hbo b' eb]; exact h1, h2⟩
    · intro b' lc hk
      rw [hnd] at hk
      obtain ⟨br', h1, h2, h3⟩ := sn.mainRec b' lc hk
      by_cases eb : b' = b
      · rw [eb] at h1 ⊢
        rw [hb] at h1
        cases h1
        exact ⟨_, hb', h2, h3⟩
      · exact ⟨br', by rw [hbo b' eb]; exact h1, h2, h3⟩
    · intro c b' hc hk
      rw [hnd] at hk ⊢
      by_cases e : m = main
      · rw [e] at hc ⊢
        rw [hch1] at hc
        simp only [List.mem_cons, List.not_mem_nil, or_false] at hc
        rcases hc with hc | hc
        · rw [hc] at hk ⊢
          exact sm.lcChild n b' (by rw [hch0]; exact List.mem_cons_self ..) hk
        · rw [hc] at hk; exact absurd hk (hrk b')
      · rw [hch m e] at hc; exact sn.lcChild c b' hc hk
  refine transfer I hA hsz hrch (fun m => by rw [hnd]) (fun m => by rw [hnd]) (fun m => by rw [hnd]) ?_ ?_ ?_ ?_ ?_ ?_
    ?_ ?_ I.opLt (fun _ _ _ _ h1 h2 => absurd h1 h2) (fun _ h1 h2 => absurd h1 h2)
    (fun _ _ h1 h2 => absurd h1 h2) (fun _ h1 h2 => absurd h1 h2)
  · intro p i c hk hw
    refine ⟨?_, (wants_congr hnec p i).2 hw⟩
    by_cases e : p = main
    · rw [e] at hk hw ⊢
      have hi : i < 1 := (wants_linking hop).1 hw
      have hi0 : i = 0 := by omega
      rw [hi0, hch0] at hk
      rw [hi0, hch1]
      exact hk
    · rw [hch p e]; exact hk
  · intro p i c hk hw
    have hw' := (wants_congr hnec p i).1 hw
    refine ⟨?_, hw'⟩
    by_cases e : p = main
    · rw [e] at hk hw' ⊢
      have hi : i < 1 := (wants_linking hop).1 hw'
      have hi0 : i = 0 := by omega
      rw [hi0, hch1] at hk
      rw [hi0, hch0]
      exact hk
    · rw [← hch p e]; exact hk
  · intro m _ _ h; rw [← hnec]; exact h
  · intro p k ho; rw [hnec]; exact I.lnec p k ho
  · intro p k ho; rw [hnec]; exact I.unec p k ho
  · intro m hq; rw [hnec]; exact I.qnec m hq
  · intro m ho _ _ hs
    have e : m ≠ main := fun e => by rw [e, hop] at ho; cases ho
    rw [← hstl m e]; exact hs
  · intro m hq
    by_cases e : m = main
    · rw [e]; exact hstm
    · rw [hstl m e]; exact I.qstale m hq

/-! ## `propagateInvalidity` with nothing to do -/

theorem propagateInvalidity_nil {fuel : Nat} {s s' : State} {u : Unit}
    (h : (propagateInvalidity fuel).run.run s = (.ok u, s')) (hp : s.propagateInvalidity = []) : s' = s := by
  cases fuel with
  | zero => unfold propagateInvalidity at h; cases h
  | succ f =>
    unfold propagateInvalidity at h
    rw [run_bind_get] at h
    simp only [hp] at h
    exact (pure_ok_inv h).2

/-! ## the marks of the adjust-heights heap are not touched by the cascades -/

/-- the marks of the adjust-heights heap are unchanged -/
def MFr (s s' : State) : Prop := ∀ m, (s'.nodeD m).heightInAhh = (s.nodeD m).heightInAhh

instance : PreOrd MFr := ⟨fun _ _ => rfl, fun h1 h2 m => (h2 m).trans (h1 m)⟩

theorem PresM.modNode (n : Nat) (f : Node → Node) (hf : ∀ x, (f x).heightInAhh = x.heightInAhh) :
    Step.Pres MFr (modNode n f) := by
  unfold Engine.modNode
  refine Step.Pres.modify fun s m => ?_
  rw [nodeD_modify]; split
  · exact hf _
  · rfl

macro_rules
  | `(tactic| qleaf) => `(tactic| ((with_reducible apply Step.Pres.modify); intro _ _; rfl))
macro_rules
  | `(tactic| qleaf) => `(tactic| ((with_reducible apply PresM.modNode); intro _; rfl))

macro "mf_leaf " n:ident : command =>
  `(macro_rules | `(tactic| qleaf) => `(tactic| with_reducible apply $n))

theorem PresM.logEv (e) : Step.Pres MFr (logEv e) := by unfold Engine.logEv; qpres
mf_leaf PresM.logEv
theorem PresM.modExpert (e f) : Step.Pres MFr (modExpert e f) := by unfold Engine.modExpert; qpres
mf_leaf PresM.modExpert
theorem PresM.tick : Step.Pres MFr tick := by unfold Engine.tick; qpres
mf_leaf PresM.tick
theorem PresM.edgeOnChange (env e edge) : Step.Pres MFr (edgeOnChange env e edge) := by
  unfold Engine.edgeOnChange; qpres
mf_leaf PresM.edgeOnChange
theorem PresM.runEdgeCallback (env e i) : Step.Pres MFr (runEdgeCallback env e i) := by
  unfold Engine.runEdgeCallback; qpres
mf_leaf PresM.runEdgeCallback
theorem PresM.observabilityChange (e b) : Step.Pres MFr (observabilityChange e b) := by
  unfold Engine.observabilityChange; qpres
mf_leaf PresM.observabilityChange
theorem PresM.setHeight (n h) : Step.Pres MFr (setHeight n h) := by unfold Engine.setHeight; qpres
mf_leaf PresM.setHeight
theorem PresM.rchLink (n) : Step.Pres MFr (rchLink n) := by unfold Engine.rchLink; qpres
mf_leaf PresM.rchLink
theorem PresM.rchInsert (n) : Step.Pres MFr (rchInsert n) := by unfold Engine.rchInsert; qpres
mf_leaf PresM.rchInsert
theorem PresM.rchUnlink (n) : Step.Pres MFr (rchUnlink n) := by unfold Engine.rchUnlink; qpres
mf_leaf PresM.rchUnlink
theorem PresM.rchRemove (n) : Step.Pres MFr (rchRemove n) := by unfold Engine.rchRemove; qpres
mf_leaf PresM.rchRemove
theorem PresM.addParent (c i p) : Step.Pres MFr (addParent c i p) := by unfold Engine.addParent; qpres
mf_leaf PresM.addParent
theorem PresM.removeParent (c i p) : Step.Pres MFr (removeParent c i p) := by
  unfold Engine.removeParent; qpres
mf_leaf PresM.removeParent
theorem PresM.handleAfterStabilisation (n) : Step.Pres MFr (handleAfterStabilisation n) := by
  unfold Engine.handleAfterStabilisation; qpres
mf_leaf PresM.handleAfterStabilisation
theorem PresM.maybeHandleAfterStabilisation (n) : Step.Pres MFr (maybeHandleAfterStabilisation n) := by
  unfold Engine.maybeHandleAfterStabilisation; qpres
mf_leaf PresM.maybeHandleAfterStabilisation
theorem PresM.scopeIsNecessary (sc) : Step.Pres MFr (scopeIsNecessary sc) := by
  unfold Engine.scopeIsNecessary; qpres
mf_leaf PresM.scopeIsNecessary

theorem PresM.markMapRefUnknown (fuel n) : Step.Pres MFr (markMapRefUnknown fuel n) := by
  induction fuel generalizing n with
  | zero => unfold Engine.markMapRefUnknown; qpres
  | succ fuel ih =>
    unfold Engine.markMapRefUnknown
    qpres
    all_goals (apply Step.Pres.forIn; intro a b; qpres; exact ih _)
mf_leaf PresM.markMapRefUnknown

theorem PresM.link (env : Env) (fuel : Nat) :
    (∀ n, Step.Pres MFr (becameNecessary env fuel n)) ∧
    (∀ c i p, Step.Pres MFr (addParentWithoutAdjustingHeights env fuel c i p)) := by
  induction fuel with
  | zero =>
    constructor
    · intro n; unfold becameNecessary; qpres
    · intro c i p; unfold addParentWithoutAdjustingHeights; qpres
  | succ fuel ih =>
    constructor
    · intro n
      unfold becameNecessary
      qpres
      all_goals (apply Step.Pres.forIn; intro a b; qpres; exact ih.2 _ _ _)
    · intro c i p
      unfold addParentWithoutAdjustingHeights
      qpres
      all_goals exact ih.1 _

theorem PresM.unlink (fuel : Nat) :
    (∀ n, Step.Pres MFr (becameUnnecessary fuel n)) ∧
    (∀ n, Step.Pres MFr (checkIfUnnecessary fuel n)) ∧
    (∀ n, Step.Pres MFr (removeChildren fuel n)) := by
  induction fuel with
  | zero =>
    refine ⟨?_, ?_, ?_⟩
    · intro n; unfold becameUnnecessary; qpres
    · intro n; unfold checkIfUnnecessary; qpres
    · intro n; unfold removeChildren; qpres
  | succ fuel ih =>
    refine ⟨?_, ?_, ?_⟩
    · intro n
      unfold becameUnnecessary
      qpres
      all_goals exact ih.2.2 _
    · intro n
      unfold checkIfUnnecessary
      qpres
      all_goals exact ih.1 _
    · intro n
      unfold removeChildren
      qpres
      all_goals (apply Step.Pres.forIn; intro a b; qpres; exact ih.2.1 _)

theorem CFrame.ahh {s s' : State} (h : CFrame s s') : s'.ahh = s.ahh := by
  have := h.key; simp only [stateKey, Prod.mk.injEq] at this; exact this.2.2.2.2.2.2.2.2.2.2.2.2.2.2.2.1

theorem ahhEmpty_frame {s s' : State} (E : AhhEmpty s) (ha : s'.ahh = s.ahh) (hm : MFr s s') : AhhEmpty s' :=
  ⟨by rw [ha]; exact E.length, by rw [ha]; exact E.buckets, fun m => by rw [hm m]; exact E.marks m⟩

/-! ## what `RRelB` keeps, as a preorder -/

def rKey (s : State) :=
  (s.vars, s.stabNum, s.status, s.cfg, s.currentScope, s.rch.queues.size, s.top, s.propagateInvalidity, s.binds)

structure KRel (s s' : State) : Prop where
  size : s'.nodes.size = s.nodes.size
  node : ∀ m, nodeKey (s'.nodeD m) = nodeKey (s.nodeD m)
  key : rKey s' = rKey s

theorem KRel.refl (s : State) : KRel s s := ⟨rfl, fun _ => rfl, rfl⟩
theorem KRel.trans {a b c : State} (h1 : KRel a b) (h2 : KRel b c) : KRel a c :=
  ⟨h2.size.trans h1.size, fun m => (h2.node m).trans (h1.node m), h2.key.trans h1.key⟩

theorem KRel.of_cframe {s s' : State} (h : CFrame s s') (hp : s'.propagateInvalidity = s.propagateInvalidity) :
    KRel s s' := by
  refine ⟨h.size, h.node, ?_⟩
  have := h.key
  simp only [stateKey, Prod.mk.injEq] at this
  obtain ⟨k1, k2, k3, k4, k5, k6, k7, k8, k9, k10, k11, k12, k13, k14, k15, k16, k17, k18, k19⟩ := this
  simp only [rKey, k1, k3, k4, k5, k6, k12, k15, k17, hp]

theorem KRel.of_hrel {s s' : State} (h : HRel s s') : KRel s s' := by
  refine ⟨h.size, h.node, ?_⟩
  simp only [rKey, h.vars, h.stabNum, h.status, h.cfg, h.scope, h.qsize, h.top, h.pinv, h.binds]

section proj
variable {s s' : State} (h : KRel s s')
include h
theorem KRel.vars : s'.vars = s.vars := by
  have := h.key; simp only [rKey, Prod.mk.injEq] at this; exact this.1
theorem KRel.stabNum : s'.stabNum = s.stabNum := by
  have := h.key; simp only [rKey, Prod.mk.injEq] at this; exact this.2.1
theorem KRel.status : s'.status = s.status := by
  have := h.key; simp only [rKey, Prod.mk.injEq] at this; exact this.2.2.1
theorem KRel.cfg : s'.cfg = s.cfg := by
  have := h.key; simp only [rKey, Prod.mk.injEq] at this; exact this.2.2.2.1
theorem KRel.scope : s'.currentScope = s.currentScope := by
  have := h.key; simp only [rKey, Prod.mk.injEq] at this; exact this.2.2.2.2.1
theorem KRel.qsize : s'.rch.queues.size = s.rch.queues.size := by
  have := h.key; simp only [rKey, Prod.mk.injEq] at this; exact this.2.2.2.2.2.1
theorem KRel.top : s'.top = s.top := by
  have := h.key; simp only [rKey, Prod.mk.injEq] at this; exact this.2.2.2.2.2.2.1
theorem KRel.pinv : s'.propagateInvalidity = s.propagateInvalidity := by
  have := h.key; simp only [rKey, Prod.mk.injEq] at this; exact this.2.2.2.2.2.2.2.1
theorem KRel.binds : s'.binds = s.binds := by
  have := h.key; simp only [rKey, Prod.mk.injEq] at this; exact this.2.2.2.2.2.2.2.2
theorem KRel.force (m : Nat) : (s'.nodeD m).forceNecessary = (s.nodeD m).forceNecessary := by
  have := h.node m; simp only [nodeKey, Prod.mk.injEq] at this; exact this.2.2.2.2.2.2.2.2.1
end proj

end BR

end IncrVerif.Proofs.BindH
