import IncrVerif.Proofs.Heights
import Lean.Meta.Tactic.Simp.RegisterCommand
/-!
# Helper lemmas for the local step theorems (C06 cutoffs, C02 glitch-freedom, C01 consistency)

* a few more `run_*` rules (on top of the calculus of `Proofs/Heights.lean`);
* `Quiet s s'`: what the *notification* part of a recompute step (cutoff check, `child_changed`,
  heap insertions, `parent_iter_can_recompute_now`, handler bookkeeping) may do to the state: it never
  touches `kind`/`valid`/`value`/`changedAt`/`recomputedAt`/`cutoff`/`height`/`parents`/… of any node, never
  removes a node from the recompute heap, leaves vars, binds, counters and the round number alone,
  and only logs `cut` events and expert edge-callback events;
* `Pres R m` ("every run of `m`, returning or panicking, relates initial and final state by `R`", the
  proof style of `Proofs/Observers.lean`, restated here so that this file only depends on the engine
  model and `Proofs/Heights.lean`) and `Pres Quiet m` for those functions;
* master equations for `shouldCutoff`, `maybeChangeValue`, `maybeChangeValueManual`,
  `parentIterCanRecomputeNow`, `recomputeOne` (per kind).
-/
/-- `Pres Stamp …` facts of `Proofs/StepStamp.lean`, looked up through `simp`'s index (a `macro_rules`
alternative per lemma is too slow once there are dozens) -/
register_simp_attr stamp_simps

namespace IncrVerif.Proofs.Step
open IncrVerif.Engine IncrVerif.Proofs

/-! ## more run rules -/

theorem run_throw {α} (e : Panic) (s : State) : (throw e : M α).run.run s = (.error e, s) := rfl

theorem run_logEv (e : Event) (s : State) :
    (logEv e).run.run s = (.ok (), { s with log := e :: s.log }) := rfl

theorem run_bumpCounter (f : Counters → Counters) (s : State) :
    (bumpCounter f).run.run s = (.ok (), { s with counters := f s.counters }) := rfl

theorem run_tick_none (s : State) (h : s.panicCountdown = none) : tick.run.run s = (.ok (), s) := by
  simp only [tick, run_bind, run_get, h, run_pure]

theorem run_getNode_some {s : State} {n : Nat} {nd : Node} (h : s.nodes[n]? = some nd) :
    (getNode n).run.run s = (.ok nd, s) := by
  rw [run_getNode, h]

theorem nodeD_of_some {s : State} {n : Nat} {nd : Node} (h : s.nodes[n]? = some nd) :
    s.nodeD n = nd := by
  simp [State.nodeD, h]

theorem some_of_lt {s : State} {n : Nat} (h : n < s.nodes.size) : s.nodes[n]? = some (s.nodeD n) := by
  simp [State.nodeD, Array.getElem?_eq_getElem h]

theorem lt_of_some {s : State} {n : Nat} {nd : Node} (h : s.nodes[n]? = some nd) :
    n < s.nodes.size := (Array.getElem?_eq_some_iff.1 h).1

/-- a bind that returned: both halves returned -/
theorem bind_ok_inv {α β} {x : M α} {f : α → M β} {s s' : State} {r : β}
    (h : (x >>= f).run.run s = (.ok r, s')) :
    ∃ a s1, x.run.run s = (.ok a, s1) ∧ (f a).run.run s1 = (.ok r, s') := by
  rw [run_bind] at h
  rcases hx : x.run.run s with ⟨_ | a, s1⟩
  · rw [hx] at h; cases h
  · rw [hx] at h; exact ⟨a, s1, rfl, h⟩

/-- the node array after a `modNode` -/
theorem nodeD_modify (s : State) (n m : Nat) (f : Node → Node) :
    ({ s with nodes := s.nodes.modify n f } : State).nodeD m =
      if n = m ∧ m < s.nodes.size then f (s.nodeD m) else s.nodeD m := by
  simp only [State.nodeD, Array.getElem?_modify]
  by_cases h : n = m
  · subst h
    by_cases h2 : n < s.nodes.size
    · simp [h2]
    · simp [h2]
  · simp [h]

/-! ## `Pres R m`: every run of `m` (returning or panicking) relates initial and final state by `R` -/

class PreOrd (R : State → State → Prop) : Prop where
  refl : ∀ s, R s s
  trans : ∀ {a b c}, R a b → R b c → R a c

structure Pres (R : State → State → Prop) {α} (m : M α) : Prop where
  h : ∀ s r s', m.run.run s = (r, s') → R s s'

theorem Pres.mono {R R' : State → State → Prop} {α} {m : M α} (hm : Pres R m)
    (h : ∀ s s', R s s' → R' s s') : Pres R' m :=
  ⟨fun s r s' e => h _ _ (hm.h s r s' e)⟩

section
variable {R : State → State → Prop} [PreOrd R]

theorem Pres.pure {α} (a : α) : Pres R (pure a : M α) := by
  constructor; intro s r s' h; rw [run_pure] at h; cases h; exact PreOrd.refl s
theorem Pres.get : Pres R (get : M State) := by
  constructor; intro s r s' h; rw [run_get] at h; cases h; exact PreOrd.refl s
theorem Pres.throw {α} (e : Panic) : Pres R (throw e : M α) := by
  constructor; intro s r s' h; rw [run_throw] at h; cases h; exact PreOrd.refl s
theorem Pres.panic {α} (e : String) : Pres R (IncrVerif.Engine.panic e : M α) := Pres.throw _
omit [PreOrd R] in
theorem Pres.modify {f : State → State} (hf : ∀ s, R s (f s)) : Pres R (modify f : M Unit) := by
  constructor; intro s r s' h; rw [run_modify] at h; cases h; exact hf s
theorem Pres.bind {α β} {x : M α} {f : α → M β} (hx : Pres R x) (hf : ∀ a, Pres R (f a)) :
    Pres R (x >>= f) := by
  constructor
  intro s r s' h
  rw [run_bind] at h
  rcases hx' : x.run.run s with ⟨r1, s1⟩
  rw [hx'] at h
  have h1 := hx.h s r1 s1 hx'
  cases r1 with
  | ok a => exact PreOrd.trans h1 ((hf a).h s1 r s' h)
  | error e => cases h; exact h1
theorem Pres.map {α β} {x : M α} (f : α → β) (hx : Pres R x) : Pres R (f <$> x) := by
  rw [map_eq_pure_bind]; exact Pres.bind hx (fun _ => Pres.pure _)
theorem Pres.mapM {α β} {f : α → M β} (hf : ∀ a, Pres R (f a)) (l : List α) :
    Pres R (l.mapM f) := by
  induction l with
  | nil => simp; exact Pres.pure _
  | cons a l ih => simp; exact Pres.bind (hf a) (fun _ => Pres.bind ih (fun _ => Pres.pure _))
theorem Pres.forIn {α β} (l : List α) (init : β)
    (f : α → β → M (ForInStep β)) (hf : ∀ a b, Pres R (f a b)) : Pres R (forIn l init f) := by
  induction l generalizing init with
  | nil => rw [List.forIn_nil]; exact Pres.pure _
  | cons a l ih =>
    rw [List.forIn_cons]
    refine Pres.bind (hf a init) fun r => ?_
    cases r with
    | done b => exact Pres.pure _
    | yield b => exact ih b
end

section
variable {R : State → State → Prop} [PreOrd R]
/-- a program that never changes the state -/
theorem Pres.of_readonly {α} (m : M α) (h : ∀ s, (m.run.run s).2 = s) : Pres R m := by
  constructor
  intro s r s' e
  have := h s
  rw [e] at this
  cases this
  exact PreOrd.refl _
theorem Pres.getNode (n) : Pres R (getNode n) :=
  Pres.of_readonly _ fun s => by rw [run_getNode]; cases s.nodes[n]? <;> rfl
theorem Pres.getVar (n) : Pres R (getVar n) :=
  Pres.of_readonly _ fun s => by
    simp only [Engine.getVar, run_bind, run_get]; cases s.vars[n]? <;> rfl
theorem Pres.getBind (n) : Pres R (getBind n) :=
  Pres.of_readonly _ fun s => by
    simp only [Engine.getBind, run_bind, run_get]; cases s.binds[n]? <;> rfl
theorem Pres.getExpert (n) : Pres R (getExpert n) :=
  Pres.of_readonly _ fun s => by
    simp only [Engine.getExpert, run_bind, run_get]; cases s.experts[n]? <;> rfl
theorem Pres.dassert (c s) : Pres R (dassert c s) :=
  Pres.of_readonly _ fun t => by rw [run_dassert]; split <;> rfl
theorem Pres.assertM (c s) : Pres R (assertM c s) :=
  Pres.of_readonly _ fun t => by rw [run_assertM]; split <;> rfl
end

/-- leaves of the decomposition: extended by `macro_rules` below -/
syntax "qleaf" : tactic
macro_rules | `(tactic| qleaf) => `(tactic| fail "no leaf")

/-- leaves that must be tried BEFORE a bind is taken apart (patterns of the form `get >>= …`) -/
syntax "qspecial" : tactic
macro_rules | `(tactic| qspecial) => `(tactic| fail "no special leaf")

/-- one structural step.  The structural rules come before the (many) leaves: a goal that is a bind
is never a leaf. -/
macro "qstep" : tactic => `(tactic| first
  | with_reducible apply Pres.pure | with_reducible apply Pres.get | with_reducible apply Pres.panic
  | with_reducible apply Pres.throw
  | qspecial
  | with_reducible apply Pres.bind | with_reducible apply Pres.map | with_reducible apply Pres.mapM
  | with_reducible apply Pres.getNode | with_reducible apply Pres.dassert
  | with_reducible apply Pres.getBind | with_reducible apply Pres.getExpert
  | with_reducible apply Pres.getVar | with_reducible apply Pres.assertM
  | qleaf
  | intro _ | split | dsimp only)

/-- decompose a `Pres` goal along the structure of the program -/
macro "qpres" : tactic => `(tactic| repeat (any_goals qstep))

/-! ## the `Quiet` relation -/

/-- the events the notification part of a step may log: cutoff calls and expert edge callbacks -/
def Noise : Event → Prop
  | .cut .. => True
  | .inv what _ _ _ => what = "cb"
  | _ => False

/-- node `b` is node `a` up to `heightInRch` (which may only go from "not in the heap" to "in the
heap"), `inHandleAfterStab` and `didChange` -/
structure NodeSame (a b : Node) : Prop where
  kind : b.kind = a.kind
  createdIn : b.createdIn = a.createdIn
  cutoff : b.cutoff = a.cutoff
  value : b.value = a.value
  valid : b.valid = a.valid
  recomputedAt : b.recomputedAt = a.recomputedAt
  changedAt : b.changedAt = a.changedAt
  height : b.height = a.height
  parents : b.parents = a.parents
  observers : b.observers = a.observers
  forceNecessary : b.forceNecessary = a.forceNecessary
  oldState : b.oldState = a.oldState
  inRch : a.inRch = true → b.inRch = true

theorem NodeSame.refl (a : Node) : NodeSame a a :=
  ⟨rfl, rfl, rfl, rfl, rfl, rfl, rfl, rfl, rfl, rfl, rfl, rfl, id⟩

theorem NodeSame.trans {a b c : Node} (h1 : NodeSame a b) (h2 : NodeSame b c) : NodeSame a c :=
  ⟨h2.kind.trans h1.kind, h2.createdIn.trans h1.createdIn, h2.cutoff.trans h1.cutoff,
   h2.value.trans h1.value, h2.valid.trans h1.valid, h2.recomputedAt.trans h1.recomputedAt,
   h2.changedAt.trans h1.changedAt, h2.height.trans h1.height, h2.parents.trans h1.parents,
   h2.observers.trans h1.observers, h2.forceNecessary.trans h1.forceNecessary,
   h2.oldState.trans h1.oldState, fun h => h2.inRch (h1.inRch h)⟩

theorem NodeSame.kind? {a b : Node} (h : NodeSame a b) : b.kind? = a.kind? := by
  simp [Node.kind?, h.kind, h.valid]

theorem NodeSame.isNecessary {a b : Node} (h : NodeSame a b) : b.isNecessary = a.isNecessary := by
  simp [Node.isNecessary, h.parents, h.observers, h.forceNecessary]

/-- `s'` is `s` after some notification work (see the module comment) -/
structure Quiet (s s' : State) : Prop where
  size : s'.nodes.size = s.nodes.size
  node : ∀ m, NodeSame (s.nodeD m) (s'.nodeD m)
  vars : s'.vars = s.vars
  binds : s'.binds = s.binds
  stabNum : s'.stabNum = s.stabNum
  cfg : s'.cfg = s.cfg
  counters : s'.counters = s.counters
  scope : s'.currentScope = s.currentScope
  log : ∃ tail, s'.log = tail ++ s.log ∧ ∀ e ∈ tail, Noise e
  pc : s.panicCountdown = none → s'.panicCountdown = none

theorem Quiet.refl (s : State) : Quiet s s :=
  ⟨rfl, fun _ => NodeSame.refl _, rfl, rfl, rfl, rfl, rfl, rfl, ⟨[], rfl, fun _ h => by cases h⟩, id⟩

theorem Quiet.trans {a b c : State} (h1 : Quiet a b) (h2 : Quiet b c) : Quiet a c where
  size := h2.size.trans h1.size
  node m := (h1.node m).trans (h2.node m)
  vars := h2.vars.trans h1.vars
  binds := h2.binds.trans h1.binds
  stabNum := h2.stabNum.trans h1.stabNum
  cfg := h2.cfg.trans h1.cfg
  counters := h2.counters.trans h1.counters
  scope := h2.scope.trans h1.scope
  log := by
    obtain ⟨t1, e1, n1⟩ := h1.log
    obtain ⟨t2, e2, n2⟩ := h2.log
    refine ⟨t2 ++ t1, by rw [e2, e1, List.append_assoc], ?_⟩
    intro e he
    rcases List.mem_append.1 he with h | h
    · exact n2 e h
    · exact n1 e h
  pc h := h2.pc (h1.pc h)

instance : PreOrd Quiet := ⟨Quiet.refl, Quiet.trans⟩

/-- a step that leaves nodes, vars, binds, round number, config, counters, scope, log and the fault
counter alone -/
theorem Quiet.of_eq {s s' : State} (h1 : s'.nodes = s.nodes) (h2 : s'.vars = s.vars)
    (h3 : s'.binds = s.binds) (h4 : s'.stabNum = s.stabNum) (h5 : s'.cfg = s.cfg)
    (h6 : s'.counters = s.counters) (h7 : s'.currentScope = s.currentScope) (h8 : s'.log = s.log)
    (h9 : s'.panicCountdown = s.panicCountdown) : Quiet s s' := by
  refine ⟨by rw [h1], fun m => ?_, h2, h3, h4, h5, h6, h7, ⟨[], by simp [h8], fun _ h => by cases h⟩,
    fun h => by rw [h9]; exact h⟩
  have : s'.nodeD m = s.nodeD m := by simp [State.nodeD, h1]
  rw [this]; exact NodeSame.refl _

theorem Quiet.modNode (s : State) (n : Nat) (f : Node → Node) (hf : ∀ x, NodeSame x (f x)) :
    Quiet s { s with nodes := s.nodes.modify n f } := by
  refine ⟨by simp, fun m => ?_, rfl, rfl, rfl, rfl, rfl, rfl, ⟨[], rfl, fun _ h => by cases h⟩, id⟩
  rw [nodeD_modify]
  split
  · exact hf _
  · exact NodeSame.refl _

theorem Quiet.logNoise (s : State) (e : Event) (he : Noise e) :
    Quiet s { s with log := e :: s.log } :=
  ⟨rfl, fun _ => NodeSame.refl _, rfl, rfl, rfl, rfl, rfl, rfl,
    ⟨[e], rfl, fun x hx => by rw [List.mem_singleton] at hx; rw [hx]; exact he⟩, id⟩

/-! ## `Pres Quiet` for the notification functions -/

/-- closes `∀ x, NodeSame x (f x)` when `f` only updates `inHandleAfterStab` / `didChange` -/
macro "nodesame" : tactic =>
  `(tactic| (intro _; exact ⟨rfl, rfl, rfl, rfl, rfl, rfl, rfl, rfl, rfl, rfl, rfl, rfl, id⟩))

theorem Pres.modNode_same (n : Nat) (f : Node → Node) (hf : ∀ x, NodeSame x (f x)) :
    Pres Quiet (modNode n f) := by
  unfold Engine.modNode; exact Pres.modify fun s => Quiet.modNode s n f hf

theorem Pres.logNoise (e : Event) (he : Noise e) : Pres Quiet (logEv e) := by
  unfold Engine.logEv; exact Pres.modify fun s => Quiet.logNoise s e he

macro_rules
  | `(tactic| qleaf) =>
    `(tactic| ((with_reducible apply Pres.modify); intro _;
               exact Quiet.of_eq rfl rfl rfl rfl rfl rfl rfl rfl rfl))
macro_rules
  | `(tactic| qleaf) => `(tactic| ((with_reducible apply Pres.modNode_same); nodesame))
macro_rules
  | `(tactic| qleaf) => `(tactic| ((with_reducible apply Pres.logNoise); first | trivial | rfl))

theorem Pres.tick : Pres Quiet tick := by
  constructor
  intro s r s' h
  unfold Engine.tick at h
  simp only [run_bind, run_get] at h
  cases hp : s.panicCountdown with
  | none => rw [hp] at h; cases h; exact Quiet.refl s
  | some k =>
    rw [hp] at h
    simp only [run_ite, run_bind, run_modify, run_panic] at h
    split at h
    · cases h
      exact ⟨rfl, fun _ => NodeSame.refl _, rfl, rfl, rfl, rfl, rfl, rfl,
        ⟨[], rfl, fun _ h => by cases h⟩, fun _ => rfl⟩
    · cases h
      exact ⟨rfl, fun _ => NodeSame.refl _, rfl, rfl, rfl, rfl, rfl, rfl,
        ⟨[], rfl, fun _ h => by cases h⟩, fun h => by rw [hp] at h; cases h⟩
macro_rules | `(tactic| qleaf) => `(tactic| with_reducible apply Pres.tick)

theorem Pres.modExpert (e f) : Pres Quiet (modExpert e f) := by unfold Engine.modExpert; qpres
macro_rules | `(tactic| qleaf) => `(tactic| with_reducible apply Pres.modExpert)

theorem Pres.valueUnwrap {R : State → State → Prop} [PreOrd R] (env n site) :
    Pres R (valueUnwrap env n site) := by unfold Engine.valueUnwrap; qpres
macro_rules | `(tactic| qleaf) => `(tactic| with_reducible apply Pres.valueUnwrap)

theorem Pres.scopeHeight {R : State → State → Prop} [PreOrd R] (sc) : Pres R (scopeHeight sc) := by
  unfold Engine.scopeHeight; qpres
macro_rules | `(tactic| qleaf) => `(tactic| with_reducible apply Pres.scopeHeight)

theorem Pres.shouldCutoff (env n o v) : Pres Quiet (shouldCutoff env n o v) := by
  unfold Engine.shouldCutoff; qpres
macro_rules | `(tactic| qleaf) => `(tactic| with_reducible apply Pres.shouldCutoff)

theorem Pres.edgeOnChange (env e edge) : Pres Quiet (edgeOnChange env e edge) := by
  unfold Engine.edgeOnChange; qpres
macro_rules | `(tactic| qleaf) => `(tactic| with_reducible apply Pres.edgeOnChange)

theorem Pres.runEdgeCallback (env e i) : Pres Quiet (runEdgeCallback env e i) := by
  unfold Engine.runEdgeCallback; qpres
macro_rules | `(tactic| qleaf) => `(tactic| with_reducible apply Pres.runEdgeCallback)

theorem Pres.handleAfterStabilisation (n) : Pres Quiet (handleAfterStabilisation n) := by
  unfold Engine.handleAfterStabilisation; qpres
macro_rules | `(tactic| qleaf) => `(tactic| with_reducible apply Pres.handleAfterStabilisation)

theorem Pres.maybeHandleAfterStabilisation (n) : Pres Quiet (maybeHandleAfterStabilisation n) := by
  unfold Engine.maybeHandleAfterStabilisation; qpres
macro_rules | `(tactic| qleaf) => `(tactic| with_reducible apply Pres.maybeHandleAfterStabilisation)

theorem Pres.rchMinHeight : Pres Quiet rchMinHeight := by unfold Engine.rchMinHeight; qpres
macro_rules | `(tactic| qleaf) => `(tactic| with_reducible apply Pres.rchMinHeight)


theorem inserted_nodeD (n : Nat) (h : Int) (s : State) (m : Nat) :
    (inserted n h s).nodeD m =
      if n = m ∧ m < s.nodes.size then { s.nodeD m with heightInRch := h } else s.nodeD m :=
  nodeD_modify s n m _

theorem Quiet.inserted (n : Nat) (h : Int) (s : State) (hh : 0 ≤ h) : Quiet s (inserted n h s) := by
  refine ⟨Array.size_modify .., fun m => ?_, rfl, rfl, rfl, rfl, rfl, rfl,
    ⟨[], rfl, fun _ h => by cases h⟩, id⟩
  rw [inserted_nodeD]
  split
  · exact ⟨rfl, rfl, rfl, rfl, rfl, rfl, rfl, rfl, rfl, rfl, rfl, rfl,
      fun _ => by simpa [Node.inRch] using hh⟩
  · exact NodeSame.refl _

theorem Pres.rchInsert (n : Nat) : Pres Quiet (rchInsert n) := by
  constructor
  intro s r s' h
  rw [rchInsert_run] at h
  cases hn : s.nodes[n]? with
  | none => rw [hn] at h; cases h; exact Quiet.refl s
  | some nd =>
    rw [hn] at h
    simp only at h
    by_cases h1 : s.cfg.debug = true ∧ (!nd.inRch && s.needsToBeComputed n) = false
    · rw [if_pos h1] at h; cases h; exact Quiet.refl s
    rw [if_neg h1] at h
    by_cases h2 : s.cfg.debug = true ∧ nd.height > s.rch.maxAllowed
    · rw [if_pos h2] at h; cases h; exact Quiet.refl s
    rw [if_neg h2] at h
    by_cases h3 : nd.height < 0
    · rw [if_pos h3] at h; cases h; exact Quiet.of_eq rfl rfl rfl rfl rfl rfl rfl rfl rfl
    rw [if_neg h3] at h
    by_cases h4 : nd.height > s.rch.maxAllowed
    · rw [if_pos h4] at h; cases h; exact Quiet.of_eq rfl rfl rfl rfl rfl rfl rfl rfl rfl
    rw [if_neg h4] at h
    cases h; exact Quiet.inserted n nd.height s (by omega)
macro_rules | `(tactic| qleaf) => `(tactic| with_reducible apply Pres.rchInsert)

theorem Pres.parentIterCanRecomputeNow (p child : Nat) :
    Pres Quiet (parentIterCanRecomputeNow p child) := by
  unfold Engine.parentIterCanRecomputeNow; qpres
macro_rules | `(tactic| qleaf) => `(tactic| with_reducible apply Pres.parentIterCanRecomputeNow)

theorem Pres.childChanged (env : Env) (fuel p child ci : Nat) (o : Option Val) :
    Pres Quiet (childChanged env fuel p child ci o) := by
  induction fuel generalizing p child ci o with
  | zero => unfold Engine.childChanged; qpres
  | succ fuel ih =>
    unfold Engine.childChanged
    qpres
    all_goals (apply Pres.forIn; intro a b; qpres; exact ih _ _ _ _)
macro_rules | `(tactic| qleaf) => `(tactic| with_reducible apply Pres.childChanged)

/-! ## peeling rules, inversion rules, loop rules -/

theorem run_bind_ok {α β} {x : M α} {f : α → M β} {s s1 : State} {a : α}
    (h : x.run.run s = (.ok a, s1)) : (x >>= f).run.run s = (f a).run.run s1 := by
  rw [run_bind, h]

theorem run_bind_get {β} (f : State → M β) (s : State) : (get >>= f).run.run s = (f s).run.run s :=
  run_bind_ok (run_get s)
theorem run_bind_modify {β} (g : State → State) (f : Unit → M β) (s : State) :
    (modify g >>= f).run.run s = (f ()).run.run (g s) := run_bind_ok (run_modify g s)
theorem run_bind_modNode {β} (n : Nat) (g : Node → Node) (f : Unit → M β) (s : State) :
    (modNode n g >>= f).run.run s = (f ()).run.run { s with nodes := s.nodes.modify n g } :=
  run_bind_ok (run_modNode n g s)
theorem run_bind_bumpCounter {β} (g : Counters → Counters) (f : Unit → M β) (s : State) :
    (bumpCounter g >>= f).run.run s = (f ()).run.run { s with counters := g s.counters } :=
  run_bind_ok (run_bumpCounter g s)

def touched (n : Nat) (s : State) : State :=
  { s with nodes := s.nodes.modify n fun x => { x with changedAt := s.stabNum },
           counters := { s.counters with changed := s.counters.changed + 1 } }

theorem mcvm_true_quiet (env : Env) (fuel n : Nat) (o : Option Val) (b : Bool) (s s' : State)
    (r : Except Panic (Option Nat))
    (h : (maybeChangeValueManual env fuel n o true b).run.run s = (r, s')) :
    Quiet (touched n s) s' := by
  unfold maybeChangeValueManual at h
  simp only [Bool.not_true, Bool.false_eq_true, if_false, run_bind_get, run_bind_modNode,
    run_bind_bumpCounter] at h
  refine Pres.h ?_ _ _ _ h
  qpres
  all_goals (apply Pres.forIn; intro a b; qpres)

theorem getNode_ok_inv {n : Nat} {s s' : State} {nd : Node}
    (h : (getNode n).run.run s = (.ok nd, s')) : s' = s ∧ s.nodes[n]? = some nd := by
  rw [run_getNode] at h
  cases hn : s.nodes[n]? with
  | none => rw [hn] at h; cases h
  | some x => rw [hn] at h; cases h; exact ⟨rfl, rfl⟩

theorem get_ok_inv {s s' a : State} (h : (get : M State).run.run s = (.ok a, s')) : a = s ∧ s' = s := by
  rw [run_get] at h; cases h; exact ⟨rfl, rfl⟩

theorem dassert_ok_inv {c : Bool} {site : String} {s s' : State} {u : Unit}
    (h : (dassert c site).run.run s = (.ok u, s')) : s' = s := by
  rw [run_dassert] at h
  split at h <;> cases h
  rfl

theorem pure_ok_inv {α} {a r : α} {s s' : State} (h : (pure a : M α).run.run s = (.ok r, s')) :
    r = a ∧ s' = s := by
  rw [run_pure] at h; cases h; exact ⟨rfl, rfl⟩

/-- a successful `insert`: the node exists, its height is within the heap, and it is now marked -/
theorem rchInsert_ok_inv {n : Nat} {s s' : State} {u : Unit}
    (hr : (rchInsert n).run.run s = (.ok u, s')) :
    ∃ nd, s.nodes[n]? = some nd ∧ 0 ≤ nd.height ∧ nd.height ≤ s.rch.maxAllowed ∧
      s' = inserted n nd.height s := by
  rw [rchInsert_run] at hr
  cases hn : s.nodes[n]? with
  | none => rw [hn] at hr; cases hr
  | some nd =>
    rw [hn] at hr
    simp only at hr
    by_cases h1 : s.cfg.debug = true ∧ (!nd.inRch && s.needsToBeComputed n) = false
    · rw [if_pos h1] at hr; cases hr
    rw [if_neg h1] at hr
    by_cases h2 : s.cfg.debug = true ∧ nd.height > s.rch.maxAllowed
    · rw [if_pos h2] at hr; cases hr
    rw [if_neg h2] at hr
    by_cases h3 : nd.height < 0
    · rw [if_pos h3] at hr; cases hr
    rw [if_neg h3] at hr
    by_cases h4 : nd.height > s.rch.maxAllowed
    · rw [if_pos h4] at hr; cases hr
    rw [if_neg h4] at hr
    cases hr
    exact ⟨nd, rfl, by omega, by omega, rfl⟩

theorem rchInsert_ok_inRch {n : Nat} {s s' : State} {u : Unit}
    (hr : (rchInsert n).run.run s = (.ok u, s')) :
    n < s'.nodes.size ∧ (s'.nodeD n).inRch = true := by
  obtain ⟨nd, hn, h0, _, rfl⟩ := rchInsert_ok_inv hr
  have hlt := lt_of_some hn
  refine ⟨by simpa [inserted] using hlt, ?_⟩
  rw [inserted_nodeD, if_pos ⟨rfl, hlt⟩]
  simpa [Node.inRch] using h0


/-- loop rule: a state predicate kept by every iteration is kept by the loop -/
theorem forIn_keep {α} (K : State → Prop) (f : α → PUnit → M (ForInStep PUnit))
    (hkeep : ∀ b s r s', K s → (f b ⟨⟩).run.run s = (r, s') → K s') (l : List α) :
    ∀ s r s', K s → (forIn l PUnit.unit f).run.run s = (r, s') → K s' := by
  induction l with
  | nil => intro s r s' hk h; rw [List.forIn_nil, run_pure] at h; cases h; exact hk
  | cons a l ih =>
    intro s r s' hk h
    rw [List.forIn_cons, run_bind] at h
    rcases hx : (f a ⟨⟩).run.run s with ⟨x | x, s1⟩
    · rw [hx] at h; cases h; exact hkeep a s _ _ hk hx
    · rw [hx] at h
      have hk1 := hkeep a s _ _ hk hx
      cases x with
      | done b => simp only [run_pure] at h; cases h; exact hk1
      | yield b => exact ih s1 r s' hk1 h

/-- loop rule with a per-element postcondition that later iterations keep -/
theorem forIn_post {α} (P : α → State → Prop) (f : α → PUnit → M (ForInStep PUnit))
    (hkeep : ∀ a b s r s', P a s → (f b ⟨⟩).run.run s = (r, s') → P a s')
    (l : List α)
    (hpost : ∀ a, a ∈ l → ∀ s r s', (f a ⟨⟩).run.run s = (.ok r, s') → r = .yield ⟨⟩ ∧ P a s') :
    ∀ s r s', (forIn l PUnit.unit f).run.run s = (.ok r, s') → ∀ a, a ∈ l → P a s' := by
  induction l with
  | nil => intro s r s' _ a ha; cases ha
  | cons a l ih =>
    intro s r s' h
    rw [List.forIn_cons] at h
    obtain ⟨x, s1, hx, hrest⟩ := bind_ok_inv h
    obtain ⟨rfl, hp⟩ := hpost a (List.mem_cons_self ..) s x s1 hx
    simp only at hrest
    intro a' ha'
    rcases List.mem_cons.1 ha' with rfl | hmem
    · exact forIn_keep (P a') f (hkeep a') l s1 _ s' hp hrest
    · exact ih (fun a ha => hpost a (List.mem_cons_of_mem _ ha)) s1 r s' hrest a' hmem

/-! ## `shouldCutoff` -/

/-- the verdict of the cutoff of node `n` on `(old, new)`: `true` = "suppress".  `none`: the
`dependOn` input does not exist (the model panics) -/
def cutoffVerdict (env : Env) (s : State) (n : Nat) (old new : Val) : Option Bool :=
  match (s.nodeD n).cutoff with
  | .always => some true
  | .never => some false
  | .eq => some (old == new)
  | .fn c => some (env.cutoff c old new)
  | .boxed c => some (env.cutoff c old new)
  | .dependOn i => (s.nodes[i]?).map fun ni => ni.changedAt == (s.nodeD n).changedAt

/-- the events a cutoff check logs: one `cut` event for a user-supplied cutoff function, else none -/
def cutoffLog (env : Env) (s : State) (n : Nat) (old new : Val) : List Event :=
  match (s.nodeD n).cutoff with
  | .fn c => [.cut c n old new (env.cutoff c old new)]
  | .boxed c => [.cut c n old new (env.cutoff c old new)]
  | _ => []

/-- `s` with events prepended to the (reversed) log -/
def logged (es : List Event) (s : State) : State := { s with log := es ++ s.log }

theorem shouldCutoff_run (env : Env) (n : Nat) (old new : Val) (s : State) (nd : Node)
    (hn : s.nodes[n]? = some nd) (hp : s.panicCountdown = none) :
    (shouldCutoff env n old new).run.run s =
      match cutoffVerdict env s n old new with
      | some b => (.ok b, logged (cutoffLog env s n old new) s)
      | none => (.error (.site "model:no-such-node"), s) := by
  have hD : s.nodeD n = nd := nodeD_of_some hn
  unfold shouldCutoff cutoffVerdict cutoffLog
  rw [run_bind_ok (run_getNode_some hn), hD]
  cases hc : nd.cutoff with
  | always => rfl
  | never => rfl
  | eq => rfl
  | fn c => simp only [run_bind_ok (run_tick_none s hp), run_bind, run_logEv, run_pure]; rfl
  | boxed c => simp only [run_bind_ok (run_tick_none s hp), run_bind, run_logEv, run_pure]; rfl
  | dependOn i =>
    cases hi : s.nodes[i]? with
    | none => simp only [run_bind, run_getNode, hi]; rfl
    | some ni =>
      simp only [run_bind_ok (run_getNode_some hi), run_bind_ok (run_getNode_some hn), run_pure]
      rw [hi]; rfl


/-! ## `parentIterCanRecomputeNow` -/

/-- `scope.height()` as a function of the state -/
def scopeHeightOf (s : State) : Scope → Except Panic Int
  | .top => .ok 0
  | .bind b => match s.binds[b]? with
    | none => .error (.site "model:no-such-bind")
    | some br => match s.nodes[br.lhsChange]? with
      | none => .error (.site "model:no-such-node")
      | some x => .ok x.height

theorem scopeHeight_run (sc : Scope) (s : State) :
    (scopeHeight sc).run.run s = (scopeHeightOf s sc, s) := by
  cases sc with
  | top => rfl
  | bind b =>
    simp only [scopeHeight, scopeHeightOf, getBind, run_bind, run_get]
    cases s.binds[b]? with
    | none => rfl
    | some br =>
      simp only [run_pure, run_getNode]
      cases s.nodes[br.lhsChange]? <;> rfl

/-- what `min_height` returns: the height of the first non-empty bucket (the bucket count when the
heap is empty) -/
def minHeightOf (s : State) : Int :=
  if s.rch.length == 0 then (s.rch.queues.size : Int)
  else if s.rch.lowerBound < 0 then s.rch.lowerBound
  else (firstNonEmpty s.rch.queues (s.rch.queues.size + 1) s.rch.lowerBound.toNat : Nat)

/-- `min_height` also raises the heap's lower bound to what it returns -/
def withMinHeight (s : State) : State :=
  { s with rch := { s.rch with lowerBound := minHeightOf s } }

theorem rchMinHeight_run (s : State) :
    rchMinHeight.run.run s = (.ok (minHeightOf s), withMinHeight s) := rfl

/-- the `can_recompute_now` flag of `parent_iter_can_recompute_now`, for a parent `pn` of kind `k`,
a child of height `ch`, the heap's minimum height `minH` -/
def canRecomputeNow (s : State) (pn : Node) (k : Kind) (ch minH : Int) : Except Panic Bool :=
  match k with
  | .const _ => .error (.site "node:parent_iter_can_recompute_now:not-a-parent")
  | .var _ => .error (.site "node:parent_iter_can_recompute_now:not-a-parent")
  | .fold .. => .ok false
  | .expert _ => .ok false
  | .map _ args =>
    if args.length ≥ 2 then .ok false
    else (scopeHeightOf s pn.createdIn).map fun sh => decide (ch > sh) && decide (minH > sh)
  | .bindLhsChange _ => (scopeHeightOf s pn.createdIn).map fun sh => decide (ch > sh) && decide (minH > sh)
  | .mapRef .. => (scopeHeightOf s pn.createdIn).map fun sh => decide (ch > sh) && decide (minH > sh)
  | .mapWithOld .. => (scopeHeightOf s pn.createdIn).map fun sh => decide (ch > sh) && decide (minH > sh)
  | .bindMain _ lc => match s.nodes[lc]? with
    | none => .error (.site "model:no-such-node")
    | some l => .ok (decide (ch > l.height) && decide (minH > l.height))

/-- bind rule with the result of the first half supplied separately -/
theorem run_bind_of {α β} {x : M α} {f : α → M β} {s s1 : State} {res : Except Panic α}
    (hx : x.run.run s = (res, s1)) :
    (x >>= f).run.run s = match (generalizing := false) res with
      | .ok a => (f a).run.run s1
      | .error e => (.error e, s1) := by
  rw [run_bind, hx]; cases res <;> rfl

/-- relabel the result of a run, keeping panics -/
def mapOk' {α β} (b : β) (r : Except Panic α × State) : Except Panic β × State :=
  match r with
  | (.ok _, s') => (.ok b, s')
  | (.error e, s') => (.error e, s')

/-- the part of `parent_iter_can_recompute_now` after the `can` flag is known -/
theorem picrn_tail_run (p : Nat) (pn : Node) (minH : Int) (can : Bool) (s : State) :
    ((if can || pn.height ≤ minH then pure true
      else do
        let s ← get
        dassert (s.needsToBeComputed p) "node:parent_iter_can_recompute_now:needs-to-be-computed"
        dassert (!pn.inRch) "node:parent_iter_can_recompute_now:not-in-rch"
        rchInsert p
        pure false) : M Bool).run.run s =
      if (can || decide (pn.height ≤ minH)) = true then (.ok true, s)
      else if s.cfg.debug = true ∧ s.needsToBeComputed p = false then
        (.error (.site "node:parent_iter_can_recompute_now:needs-to-be-computed"), s)
      else if s.cfg.debug = true ∧ pn.inRch = true then
        (.error (.site "node:parent_iter_can_recompute_now:not-in-rch"), s)
      else mapOk' false ((rchInsert p).run.run s) := by
  simp only [run_ite, run_pure, run_bind, run_get, run_dassert]
  by_cases h1 : (can || decide (pn.height ≤ minH)) = true
  · rw [if_pos h1, if_pos h1]
  rw [if_neg h1, if_neg h1]
  by_cases h2 : s.cfg.debug = true ∧ s.needsToBeComputed p = false
  · rw [if_pos h2, if_pos h2]
  rw [if_neg h2, if_neg h2]
  dsimp only
  by_cases h3 : s.cfg.debug = true ∧ pn.inRch = true
  · have h3' : s.cfg.debug = true ∧ (!pn.inRch) = false := by simpa using h3
    rw [if_pos h3, if_pos h3']
  have h3' : ¬ (s.cfg.debug = true ∧ (!pn.inRch) = false) := by simpa using h3
  rw [if_neg h3, if_neg h3']
  dsimp only
  generalize (rchInsert p).run.run s = r
  rcases r with ⟨_ | _, _⟩ <;> rfl

/-- complete description of `parent_iter_can_recompute_now p child` -/
theorem picrn_run (p child : Nat) (s : State) :
    (parentIterCanRecomputeNow p child).run.run s =
      match s.nodes[p]? with
      | none => (.error (.site "model:no-such-node"), s)
      | some pn => match pn.kind? with
        | none => (.ok false, s)
        | some k => match s.nodes[child]? with
          | none => (.error (.site "model:no-such-node"), withMinHeight s)
          | some cn => match canRecomputeNow s pn k cn.height (minHeightOf s) with
            | .error e => (.error e, withMinHeight s)
            | .ok can =>
              if (can || decide (pn.height ≤ minHeightOf s)) = true then (.ok true, withMinHeight s)
              else if s.cfg.debug = true ∧ s.needsToBeComputed p = false then
                (.error (.site "node:parent_iter_can_recompute_now:needs-to-be-computed"), withMinHeight s)
              else if s.cfg.debug = true ∧ pn.inRch = true then
                (.error (.site "node:parent_iter_can_recompute_now:not-in-rch"), withMinHeight s)
              else mapOk' false ((rchInsert p).run.run (withMinHeight s)) := by
  unfold parentIterCanRecomputeNow
  cases hp : s.nodes[p]? with
  | none => simp only [run_bind, run_getNode, hp]
  | some pn =>
    rw [run_bind_ok (run_getNode_some hp)]
    dsimp only
    cases hk : pn.kind? with
    | none => rfl
    | some k =>
      dsimp only
      rw [run_bind_ok (rchMinHeight_run s)]
      have hc' : (withMinHeight s).nodes[child]? = s.nodes[child]? := rfl
      cases hc : s.nodes[child]? with
      | none => simp only [run_bind, run_getNode, hc', hc]
      | some cn =>
        rw [hc] at hc'
        rw [run_bind_ok (run_getNode_some hc')]
        dsimp only
        have htail := fun can => picrn_tail_run p pn (minHeightOf s) can (withMinHeight s)
        have hsh : scopeHeightOf (withMinHeight s) pn.createdIn = scopeHeightOf s pn.createdIn := rfl
        cases k with
        | const v => rfl
        | var c => rfl
        | fold f i cs => exact htail false
        | expert e => exact htail false
        | map f args =>
          simp only [canRecomputeNow]
          split
          · exact htail false
          · rw [run_bind_of (scopeHeight_run _ _), hsh]
            cases scopeHeightOf s pn.createdIn with
            | error e => rfl
            | ok sh => exact htail _
        | bindLhsChange b =>
          simp only [canRecomputeNow]
          rw [run_bind_of (scopeHeight_run _ _), hsh]
          cases scopeHeightOf s pn.createdIn with
          | error e => rfl
          | ok sh => exact htail _
        | mapRef p i =>
          simp only [canRecomputeNow]
          rw [run_bind_of (scopeHeight_run _ _), hsh]
          cases scopeHeightOf s pn.createdIn with
          | error e => rfl
          | ok sh => exact htail _
        | mapWithOld g i =>
          simp only [canRecomputeNow]
          rw [run_bind_of (scopeHeight_run _ _), hsh]
          cases scopeHeightOf s pn.createdIn with
          | error e => rfl
          | ok sh => exact htail _
        | bindMain b lc =>
          have hl : (withMinHeight s).nodes[lc]? = s.nodes[lc]? := rfl
          simp only [canRecomputeNow]
          cases hlc : s.nodes[lc]? with
          | none => rw [hlc] at hl; simp only [run_bind, run_getNode, hl]
          | some l =>
            rw [hlc] at hl
            rw [run_bind_ok (run_getNode_some hl)]
            exact htail _


/-! ## `maybeChangeValueManual`: changes are never lost -/

/-- node `p` exists and is in the recompute heap -/
def InHeap (p : Nat) (t : State) : Prop := p < t.nodes.size ∧ (t.nodeD p).inRch = true

theorem Quiet.inHeap {s s' : State} (q : Quiet s s') {p : Nat} (h : InHeap p s) : InHeap p s' :=
  ⟨by rw [q.size]; exact h.1, (q.node p).inRch h.2⟩

theorem childChanged_ok_valid {env : Env} {fuel p c ci : Nat} {o : Option Val} {s s' : State} {u : Unit}
    (h : (childChanged env fuel p c ci o).run.run s = (.ok u, s')) :
    p < s.nodes.size ∧ (s.nodeD p).valid = true := by
  cases fuel with
  | zero => unfold childChanged at h; cases h
  | succ fuel =>
    unfold childChanged at h
    obtain ⟨nd, s1, hg, h2⟩ := bind_ok_inv h
    obtain ⟨rfl, hnd⟩ := getNode_ok_inv hg
    refine ⟨lt_of_some hnd, ?_⟩
    rw [nodeD_of_some hnd]
    cases hv : nd.valid with
    | true => rfl
    | false =>
      have : nd.kind? = none := by simp [Node.kind?, hv]
      rw [this] at h2
      cases h2

theorem picrn_false_inHeap {p child : Nat} {s s' : State}
    (h : (parentIterCanRecomputeNow p child).run.run s = (.ok false, s'))
    (hlt : p < s.nodes.size) (hv : (s.nodeD p).valid = true) : InHeap p s' := by
  rw [picrn_run, some_of_lt hlt] at h
  have hk : (s.nodeD p).kind? = some (s.nodeD p).kind := by simp [Node.kind?, hv]
  simp only [hk] at h
  cases hc : s.nodes[child]? with
  | none => rw [hc] at h; cases h
  | some cn =>
    rw [hc] at h
    dsimp only at h
    cases hcan : canRecomputeNow s (s.nodeD p) (s.nodeD p).kind cn.height (minHeightOf s) with
    | error e => rw [hcan] at h; cases h
    | ok can =>
      rw [hcan] at h
      dsimp only at h
      split at h
      · cases h
      split at h
      · cases h
      split at h
      · cases h
      rcases hi : (rchInsert p).run.run (withMinHeight s) with ⟨_ | u, s2⟩
      · rw [hi] at h; cases h
      · rw [hi] at h
        cases h
        exact rchInsert_ok_inRch hi


theorem bind_dassert_inv {β} {c : Bool} {site : String} {f : Unit → M β} {s s' : State} {r : β}
    (h : (dassert c site >>= f).run.run s = (.ok r, s')) : (f ()).run.run s = (.ok r, s') := by
  obtain ⟨u, s1, h1, h2⟩ := bind_ok_inv h
  obtain rfl := dassert_ok_inv h1
  exact h2

theorem bind_getNode_inv {β} {n : Nat} {f : Node → M β} {s s' : State} {r : β}
    (h : (getNode n >>= f).run.run s = (.ok r, s')) :
    ∃ nd, s.nodes[n]? = some nd ∧ (f nd).run.run s = (.ok r, s') := by
  obtain ⟨nd, s1, h1, h2⟩ := bind_ok_inv h
  obtain ⟨rfl, hnd⟩ := getNode_ok_inv h1
  exact ⟨nd, hnd, h2⟩

theorem touched_nodeD (n m : Nat) (s : State) :
    (touched n s).nodeD m =
      if n = m ∧ m < s.nodes.size then { s.nodeD m with changedAt := s.stabNum } else s.nodeD m :=
  nodeD_modify s n m _

/-- "changes are never lost": after a propagating `maybe_change_value_manual` (with `child_changed`
notifications on) every parent of the node is in the recompute heap, except possibly the first
parent when it is handed back to the caller for direct recomputation -/
theorem mcvm_parents (env : Env) (fuel n : Nat) (o : Option Val) (s s' : State)
    (r : Option Nat) (nd : Node) (hn : s.nodes[n]? = some nd)
    (h : (maybeChangeValueManual env fuel n o true true).run.run s = (.ok r, s')) :
    ∀ p, p ∈ nd.parents.map (·.1) →
      InHeap p s' ∨ (p < s'.nodes.size ∧ r = some p ∧ (nd.parents.head?).map (·.1) = some p) := by
  unfold maybeChangeValueManual at h
  simp only [Bool.not_true, Bool.false_eq_true, if_false, if_true, run_bind_get, run_bind_modNode,
    run_bind_bumpCounter] at h
  obtain ⟨u, s1, h1, h2⟩ := bind_ok_inv h
  have q1 : Quiet (touched n s) s1 := (Pres.maybeHandleAfterStabilisation n).h _ _ _ h1
  obtain ⟨nd1, s1', hg, h3⟩ := bind_ok_inv h2
  obtain ⟨rfl, hnd1⟩ := getNode_ok_inv hg
  have hpar : nd1.parents = nd.parents := by
    have := (q1.node n).parents
    rw [nodeD_of_some hnd1, touched_nodeD, if_pos ⟨rfl, lt_of_some hn⟩, nodeD_of_some hn] at this
    exact this
  rw [hpar] at h3
  rcases hps : nd.parents with _ | ⟨⟨p0, ci0⟩, rest⟩
  · intro p hp; cases hp
  rw [hps] at h3
  dsimp only at h3
  obtain ⟨u2, s2, hloop, hlast⟩ := bind_ok_inv h3
  have hrest : ∀ a, a ∈ rest → InHeap a.1 s2 := by
    refine forIn_post (fun a t => InHeap a.1 t) _ ?_ rest ?_ s1' _ s2 hloop
    · intro a b t r t' hp hb
      refine Quiet.inHeap (Pres.h ?_ _ _ _ hb) hp
      qpres
    · intro a _ t r t' hb
      obtain ⟨_, t1, hcc, hb1⟩ := bind_ok_inv hb
      rw [run_bind_get] at hb1
      obtain ⟨na, hna, hb4⟩ := bind_getNode_inv (bind_dassert_inv hb1)
      split at hb4
      · obtain ⟨_, t5, hins, hb5⟩ := bind_ok_inv hb4
        obtain ⟨rfl, rfl⟩ := pure_ok_inv hb5
        exact ⟨rfl, rchInsert_ok_inRch hins⟩
      · obtain ⟨rfl, rfl⟩ := pure_ok_inv hb4
        rename_i hin
        refine ⟨rfl, lt_of_some hna, ?_⟩
        rw [nodeD_of_some hna]
        simpa using hin
  -- the first parent
  obtain ⟨_, s3, hcc, hl1⟩ := bind_ok_inv hlast
  have hv0 := childChanged_ok_valid hcc
  have q3 : Quiet s2 s3 := (Pres.childChanged ..).h _ _ _ hcc
  rw [run_bind_get] at hl1
  obtain ⟨nd0, hnd0, hl4⟩ := bind_getNode_inv (bind_dassert_inv hl1)
  have hv3 : p0 < s3.nodes.size ∧ (s3.nodeD p0).valid = true :=
    ⟨by rw [q3.size]; exact hv0.1, by rw [(q3.node p0).valid]; exact hv0.2⟩
  -- common conclusion once the final state is known to extend `st` quietly
  have fin : ∀ t, Quiet s3 t → (InHeap p0 t ∨ (p0 < t.nodes.size ∧ r = some p0)) →
      ∀ p, p ∈ ((p0, ci0) :: rest).map (·.1) →
        InHeap p t ∨ (p < t.nodes.size ∧ r = some p ∧
          (((p0, ci0) :: rest).head?).map (·.1) = some p) := by
    intro t qt h0 p hp
    rw [List.map_cons, List.mem_cons] at hp
    rcases hp with rfl | hp
    · rcases h0 with h0 | ⟨h0, h0'⟩
      · exact Or.inl h0
      · exact Or.inr ⟨h0, h0', rfl⟩
    · obtain ⟨a, ha, rfl⟩ := List.mem_map.1 hp
      exact Or.inl (qt.inHeap (q3.inHeap (hrest a ha)))
  split at hl4
  · obtain ⟨b, s4, hpi, hl5⟩ := bind_ok_inv hl4
    have q4 : Quiet s3 s4 := (Pres.parentIterCanRecomputeNow ..).h _ _ _ hpi
    cases b with
    | true =>
      simp only [if_true] at hl5
      obtain ⟨rfl, rfl⟩ := pure_ok_inv hl5
      exact fin _ q4 (Or.inr ⟨by rw [q4.size]; exact hv3.1, rfl⟩)
    | false =>
      simp only [Bool.false_eq_true, if_false] at hl5
      obtain ⟨rfl, rfl⟩ := pure_ok_inv hl5
      exact fin _ q4 (Or.inl (picrn_false_inHeap hpi hv3.1 hv3.2))
  · obtain ⟨rfl, rfl⟩ := pure_ok_inv hl4
    rename_i hin
    refine fin _ (Quiet.refl _) (Or.inl ⟨hv3.1, ?_⟩)
    rw [nodeD_of_some hnd0]
    simpa using hin


/-! ## `maybeChangeValue` -/

/-- node `n`'s `value` field set to `v` -/
def setValue (n : Nat) (v : Option Val) (s : State) : State :=
  { s with nodes := s.nodes.modify n fun x => { x with value := v } }

theorem array_modify_modify {α} (a : Array α) (n : Nat) (f g : α → α) :
    (a.modify n f).modify n g = a.modify n (g ∘ f) := by
  apply Array.ext_getElem?
  intro i
  simp only [Array.getElem?_modify]
  by_cases h : n = i
  · simp [h]
  · simp [h]

theorem setValue_setValue (n : Nat) (v w : Option Val) (s : State) :
    setValue n v (setValue n w s) = setValue n v s := by
  simp only [setValue, array_modify_modify]
  rfl

theorem setValue_nodeD (n m : Nat) (v : Option Val) (s : State) :
    (setValue n v s).nodeD m =
      if n = m ∧ m < s.nodes.size then { s.nodeD m with value := v } else s.nodeD m :=
  nodeD_modify s n m _

theorem setValue_getElem? (n m : Nat) (v : Option Val) (s : State) :
    (setValue n v s).nodes[m]? =
      (s.nodes[m]?).map fun x => if n = m then { x with value := v } else x := by
  simp only [setValue, Array.getElem?_modify]
  by_cases h : n = m
  · simp [h]
  · simp [h]

theorem cutoffVerdict_setValue (env : Env) (n m : Nat) (v : Option Val) (s : State) (old new : Val) :
    cutoffVerdict env (setValue n v s) m old new = cutoffVerdict env s m old new := by
  unfold cutoffVerdict
  have h1 : ((setValue n v s).nodeD m).cutoff = (s.nodeD m).cutoff := by
    rw [setValue_nodeD]; split <;> rfl
  have h2 : ((setValue n v s).nodeD m).changedAt = (s.nodeD m).changedAt := by
    rw [setValue_nodeD]; split <;> rfl
  rw [h1, h2]
  cases (s.nodeD m).cutoff <;> try rfl
  rename_i i
  simp only [setValue_getElem?]
  cases s.nodes[i]? with
  | none => rfl
  | some x => simp only [Option.map_some]; split <;> rfl

theorem cutoffLog_setValue (env : Env) (n m : Nat) (v : Option Val) (s : State) (old new : Val) :
    cutoffLog env (setValue n v s) m old new = cutoffLog env s m old new := by
  unfold cutoffLog
  have h1 : ((setValue n v s).nodeD m).cutoff = (s.nodeD m).cutoff := by
    rw [setValue_nodeD]; split <;> rfl
  rw [h1]

theorem run_mcvm_false (env : Env) (fuel n : Nat) (o : Option Val) (b : Bool) (s : State) :
    (maybeChangeValueManual env fuel n o false b).run.run s = (.ok none, s) := by
  unfold maybeChangeValueManual
  simp only [Bool.not_false, if_true, run_pure]

/-- `maybe_change_value` = clear the value, ask the cutoff (only when there was a value), store the
new value, then `maybe_change_value_manual` with "did change" = "not cut off" -/
theorem mcv_run (env : Env) (fuel n : Nat) (new : Val) (s : State) (nd : Node)
    (hn : s.nodes[n]? = some nd) :
    (maybeChangeValue env fuel n new).run.run s =
      match nd.value with
      | none =>
        (maybeChangeValueManual env fuel n none true true).run.run
          (setValue n (some new) s)
      | some old =>
        match (shouldCutoff env n old new).run.run (setValue n none s) with
        | (.ok c, s1) =>
          (maybeChangeValueManual env fuel n (some old) (!c) true).run.run (setValue n (some new) s1)
        | (.error e, s1) => (.error e, s1) := by
  unfold maybeChangeValue
  rw [run_bind_ok (run_getNode_some hn), run_bind_modNode]
  cases hv : nd.value with
  | none =>
    simp only [pure_bind, run_bind_modNode]
    rw [← setValue_setValue n (some new) none s]
    rfl
  | some old =>
    simp only [pure_bind]
    rw [run_bind]
    simp only [setValue]
    generalize (shouldCutoff env n old new).run.run _ = r
    rcases r with ⟨_ | c, s1⟩
    · rfl
    · simp only [run_bind_modNode]


/-- does `maybe_change_value n new` treat the new value as a change?  First result: yes, without
asking the cutoff.  Otherwise: the negated cutoff verdict on `(old, new)`. -/
def mcvChanges (env : Env) (s : State) (n : Nat) (new : Val) : Option Bool :=
  match (s.nodeD n).value with
  | none => some true
  | some old => (cutoffVerdict env s n old new).map (!·)

/-- the events the cutoff check of `maybe_change_value n new` logs -/
def mcvLog (env : Env) (s : State) (n : Nat) (new : Val) : List Event :=
  match (s.nodeD n).value with
  | none => []
  | some old => cutoffLog env s n old new

theorem setValue_logged (n : Nat) (v : Option Val) (es : List Event) (s : State) :
    setValue n v (logged es s) = logged es (setValue n v s) := rfl

/-- master equation of `maybe_change_value` (no fault armed) -/
theorem mcv_run' (env : Env) (fuel n : Nat) (new : Val) (s : State) (nd : Node)
    (hn : s.nodes[n]? = some nd) (hp : s.panicCountdown = none) :
    (maybeChangeValue env fuel n new).run.run s =
      match mcvChanges env s n new with
      | none => (.error (.site "model:no-such-node"), setValue n none s)
      | some d =>
        (maybeChangeValueManual env fuel n nd.value d true).run.run
          (setValue n (some new) (logged (mcvLog env s n new) s)) := by
  rw [mcv_run env fuel n new s nd hn]
  unfold mcvChanges mcvLog
  rw [nodeD_of_some hn]
  cases hv : nd.value with
  | none => rfl
  | some old =>
    dsimp only
    have hn' : (setValue n none s).nodes[n]? = some { nd with value := none } := by
      rw [setValue_getElem?, hn]; simp
    rw [shouldCutoff_run env n old new _ _ hn' hp, cutoffVerdict_setValue, cutoffLog_setValue]
    cases cutoffVerdict env s n old new with
    | none => rfl
    | some c =>
      simp only [Option.map_some]
      rw [← setValue_logged, setValue_setValue]

/-- cutoff says "suppress": the value is replaced, nothing else happens -/
theorem mcv_suppress (env : Env) (fuel n : Nat) (new : Val) (s : State) (nd : Node)
    (hn : s.nodes[n]? = some nd) (hp : s.panicCountdown = none)
    (hd : mcvChanges env s n new = some false) :
    (maybeChangeValue env fuel n new).run.run s =
      (.ok none, setValue n (some new) (logged (mcvLog env s n new) s)) := by
  rw [mcv_run' env fuel n new s nd hn hp, hd]
  exact run_mcvm_false ..

/-- the state in which the parents of `n` are notified: new value stored, `changedAt` stamped,
`changed` counter bumped -/
def changedState (env : Env) (n : Nat) (new : Val) (s : State) : State :=
  touched n (setValue n (some new) (logged (mcvLog env s n new) s))

/-- cutoff says "propagate" (or first result): everything after the stamping is `Quiet`, and every
parent ends up in the heap or is handed back -/
theorem mcv_propagate (env : Env) (fuel n : Nat) (new : Val) (s s' : State) (nd : Node)
    (r : Option Nat)
    (hn : s.nodes[n]? = some nd) (hp : s.panicCountdown = none)
    (hd : mcvChanges env s n new = some true)
    (h : (maybeChangeValue env fuel n new).run.run s = (.ok r, s')) :
    Quiet (changedState env n new s) s' ∧
    ∀ p, p ∈ nd.parents.map (·.1) →
      InHeap p s' ∨ (p < s'.nodes.size ∧ r = some p ∧ (nd.parents.head?).map (·.1) = some p) := by
  rw [mcv_run' env fuel n new s nd hn hp, hd] at h
  dsimp only at h
  refine ⟨mcvm_true_quiet _ _ _ _ _ _ _ _ h, ?_⟩
  have hn' : (setValue n (some new) (logged (mcvLog env s n new) s)).nodes[n]?
      = some { nd with value := some new } := by
    rw [setValue_getElem?]
    show Option.map _ s.nodes[n]? = _
    rw [hn]; simp
  exact mcvm_parents env fuel n nd.value _ s' r { nd with value := some new } hn' h

/-- also when the call panics, everything after the stamping is `Quiet` -/
theorem mcv_propagate_any (env : Env) (fuel n : Nat) (new : Val) (s s' : State) (nd : Node)
    (r : Except Panic (Option Nat))
    (hn : s.nodes[n]? = some nd) (hp : s.panicCountdown = none)
    (hd : mcvChanges env s n new = some true)
    (h : (maybeChangeValue env fuel n new).run.run s = (r, s')) :
    Quiet (changedState env n new s) s' := by
  rw [mcv_run' env fuel n new s nd hn hp, hd] at h
  exact mcvm_true_quiet _ _ _ _ _ _ _ _ h


/-! ## `childChanged` on a MapRef parent -/

/-- node `p`'s sticky `didChange` flag OR-ed with `did` -/
def orDidChange (p : Nat) (did : Bool) (s : State) : State :=
  { s with nodes := s.nodes.modify p fun x => { x with didChange := x.didChange || did } }

/-- the forwarding loop of `child_changed`: the MapRef node `p` tells each of its own parents that it
changed, passing on its projected old value -/
def forwardChildChanged (env : Env) (fuel p : Nat) (selfOld : Option Val) (parents : List (Nat × Nat)) :
    M Unit := do
  for (pp, ci) in parents do
    childChanged env fuel pp p ci selfOld

/-- what `child_changed` does for a MapRef parent `p = map_ref(pr, ·)` of `child`: project the
child's old and new value, ask `p`'s own cutoff about the projections (no old value: changed), OR
the answer into `p.didChange`, and forward to `p`'s parents -/
theorem childChanged_mapRef_run (env : Env) (fuel p child ci : Nat) (oldOpt : Option Val) (s : State)
    (nd : Node) (pr i : Nat) (cn : Val)
    (hp : s.nodes[p]? = some nd) (hk : nd.kind? = some (.mapRef pr i))
    (hv : s.value env child = some cn) :
    (childChanged env (fuel + 1) p child ci oldOpt).run.run s =
      match oldOpt with
      | none => (forwardChildChanged env fuel p none nd.parents).run.run (orDidChange p true s)
      | some o =>
        match (shouldCutoff env p (env.proj pr o) (env.proj pr cn)).run.run s with
        | (.ok c, s1) =>
          (forwardChildChanged env fuel p (some (env.proj pr o)) (s1.nodeD p).parents).run.run
            (orDidChange p (!c) s1)
        | (.error e, s1) => (.error e, s1) := by
  unfold childChanged
  rw [run_bind_ok (run_getNode_some hp), hk]
  dsimp only
  have hvu : (valueUnwrap env child "node:child_changed:ChildHasNoValue").run.run s = (.ok cn, s) := by
    simp only [valueUnwrap, run_bind_get, hv, run_pure]
  rw [run_bind_ok hvu]
  have fwd : ∀ (selfOld : Option Val) (d : Bool) (t : State) (nd' : Node),
      t.nodes[p]? = some nd' →
      ((do
        modNode p fun x => { x with didChange := x.didChange || d }
        for (pp, ci) in (← getNode p).parents do
          childChanged env fuel pp p ci selfOld) : M Unit).run.run t =
      (forwardChildChanged env fuel p selfOld nd'.parents).run.run (orDidChange p d t) := by
    intro selfOld d t nd' ht
    have ht' : (orDidChange p d t).nodes[p]? = some { nd' with didChange := nd'.didChange || d } := by
      simp [orDidChange, Array.getElem?_modify, ht]
    rw [run_bind_modNode]
    show (getNode p >>= _).run.run (orDidChange p d t) = _
    rw [run_bind_ok (run_getNode_some ht')]
    rfl
  cases oldOpt with
  | none =>
    simp only [Option.map_none, pure_bind]
    exact fwd none true s nd hp
  | some o =>
    simp only [Option.map_some]
    rw [run_bind]
    rcases hsc : (shouldCutoff env p (env.proj pr o) (env.proj pr cn)).run.run s with ⟨_ | c, s1⟩
    · rfl
    · dsimp only
      have q : Quiet s s1 := (Pres.shouldCutoff ..).h _ _ _ hsc
      have hlt : p < s1.nodes.size := by rw [q.size]; exact lt_of_some hp
      simp only [pure_bind]
      exact fwd _ _ s1 _ (some_of_lt hlt)


/-! ## what `State.value` depends on (restated from `Proofs/Observers.lean`) -/

/-- the fields of a node that `State.value` can see -/
def valueCore (nd : Node) : Kind × Bool × Option Val := (nd.kind, nd.valid, nd.value)

/-- one unfolding of `valueWith`, in terms of the visible fields only -/
def valueStep' (proj : Nat → Val → Val) (c : Kind × Bool × Option Val) (rec : Nat → Option Val) :
    Option Val :=
  match c with
  | (.mapRef p i, true, _) => (rec i).map (proj p)
  | (_, _, v) => v

theorem valueWith_succ' (proj : Nat → Val → Val) (s : State) (fuel n : Nat) :
    s.valueWith proj (fuel + 1) n
      = valueStep' proj (valueCore (s.nodeD n)) (s.valueWith proj fuel) := by
  simp only [State.valueWith, valueStep', valueCore, Node.kind?]
  cases hv : (s.nodeD n).valid <;> cases hk : (s.nodeD n).kind <;> simp

/-- same size, same `kind`/`valid`/`value` everywhere: same values -/
theorem value_congr (env : Env) (s s' : State) (hsz : s'.nodes.size = s.nodes.size)
    (h : ∀ m, valueCore (s'.nodeD m) = valueCore (s.nodeD m)) (n : Nat) :
    s'.value env n = s.value env n := by
  simp only [State.value, hsz]
  generalize s.nodes.size + 1 = fuel
  induction fuel generalizing n with
  | zero => rfl
  | succ f ih =>
    rw [valueWith_succ', valueWith_succ', h n]
    congr 1
    funext i; exact ih i

/-- MapRef inputs are earlier nodes (true of every graph built through the API; same predicate as
`Obs.MapRefsBackward`) -/
def MapRefsBack (s : State) : Prop :=
  ∀ (n : Nat) (nd : Node) (p i : Nat), s.nodes[n]? = some nd → nd.kind = Kind.mapRef p i → i < n

/-- with MapRef inputs pointing backward, the value of node `a` only depends on nodes `≤ a` -/
theorem valueWith_congr_below (proj : Nat → Val → Val) (s s' : State) (hwf : MapRefsBack s)
    (a : Nat) (h : ∀ m, m ≤ a → valueCore (s'.nodeD m) = valueCore (s.nodeD m)) :
    ∀ f f', a < f → a < f' → s'.valueWith proj f' a = s.valueWith proj f a := by
  induction a using Nat.strongRecOn with
  | _ a ih =>
    intro f f' hf hf'
    obtain ⟨f, rfl⟩ : ∃ g, f = g + 1 := ⟨f - 1, by omega⟩
    obtain ⟨f', rfl⟩ : ∃ g, f' = g + 1 := ⟨f' - 1, by omega⟩
    rw [valueWith_succ', valueWith_succ', h a (Nat.le_refl _)]
    generalize hc : valueCore (s.nodeD a) = c
    obtain ⟨k, v, val⟩ := c
    cases k <;> try rfl
    rename_i p i
    cases v <;> try rfl
    have hk : (s.nodeD a).kind = .mapRef p i := by
      have := congrArg Prod.fst hc; simpa [valueCore] using this
    have hi : i < a := by
      by_cases hlt : a < s.nodes.size
      · exact hwf a _ p i (some_of_lt hlt) hk
      · have : s.nodeD a = default := by
          simp [State.nodeD, Array.getElem?_eq_none (Nat.le_of_not_lt hlt)]
        rw [this] at hk; cases hk
    simp only [valueStep']
    rw [ih i hi (fun m hm => h m (by omega)) f f' (by omega) (by omega)]

theorem value_congr_below (env : Env) (s s' : State) (hwf : MapRefsBack s)
    (hsz : s'.nodes.size = s.nodes.size) (a : Nat) (ha : a < s.nodes.size)
    (h : ∀ m, m ≤ a → valueCore (s'.nodeD m) = valueCore (s.nodeD m)) :
    s'.value env a = s.value env a := by
  simp only [State.value, hsz]
  exact valueWith_congr_below env.proj s s' hwf a h _ _ (by omega) (by omega)


/-! ## `recomputeOne`: master equations per kind -/

/-- the first thing `recompute_one n` does: (debug) remember the running node, bump the `recomputed`
counter, stamp `recomputedAt := stabNum` -/
def started (n : Nat) (s : State) : State :=
  { s with
    currentlyRunning := if s.cfg.debug = true then some n else s.currentlyRunning,
    counters := { s.counters with recomputed := s.counters.recomputed + 1 },
    nodes := s.nodes.modify n fun x => { x with recomputedAt := s.stabNum } }

theorem started_nodeD (n m : Nat) (s : State) :
    (started n s).nodeD m =
      if n = m ∧ m < s.nodes.size then { s.nodeD m with recomputedAt := s.stabNum } else s.nodeD m :=
  nodeD_modify s n m _

theorem started_getElem? (n : Nat) (s : State) (nd : Node) (hn : s.nodes[n]? = some nd) :
    (started n s).nodes[n]? = some { nd with recomputedAt := s.stabNum } := by
  simp [started, Array.getElem?_modify, hn]

theorem started_value (env : Env) (n : Nat) (s : State) (a : Nat) :
    (started n s).value env a = s.value env a := by
  apply value_congr env s (started n s) (by simp [started])
  intro m
  rw [started_nodeD]
  split <;> rfl

/-- the values of a list of nodes, if all of them have one -/
def valuesOf (env : Env) (s : State) : List Nat → Option (List Val)
  | [] => some []
  | a :: as =>
    match s.value env a, valuesOf env s as with
    | some v, some vs => some (v :: vs)
    | _, _ => none

theorem valuesOf_congr (env : Env) (s s' : State) (args : List Nat)
    (h : ∀ a, a ∈ args → s'.value env a = s.value env a) :
    valuesOf env s' args = valuesOf env s args := by
  induction args with
  | nil => rfl
  | cons a as ih =>
    simp only [valuesOf]
    rw [h a (List.mem_cons_self ..), ih (fun b hb => h b (List.mem_cons_of_mem _ hb))]

theorem valuesOf_eq_some_iff (env : Env) (s : State) (args : List Nat) (vals : List Val) :
    valuesOf env s args = some vals ↔ args.map (s.value env) = vals.map some := by
  induction args generalizing vals with
  | nil =>
    cases vals <;> simp [valuesOf]
  | cons a as ih =>
    simp only [valuesOf, List.map_cons]
    cases hv : s.value env a with
    | none => cases vals <;> simp
    | some v =>
      cases hvs : valuesOf env s as with
      | none =>
        cases vals with
        | nil => simp
        | cons w ws =>
          simp only [List.map_cons, List.cons.injEq, Option.some.injEq, reduceCtorEq, false_iff, not_and]
          intro _ h
          have := (ih ws).2 h
          rw [hvs] at this; cases this
      | some vs =>
        cases vals with
        | nil => simp
        | cons w ws =>
          simp only [List.map_cons, List.cons.injEq, Option.some.injEq]
          constructor
          · rintro ⟨rfl, rfl⟩; exact ⟨rfl, (ih vs).1 hvs⟩
          · rintro ⟨rfl, h⟩
            have := (ih ws).2 h
            rw [hvs] at this; cases this; exact ⟨rfl, rfl⟩

theorem run_valueUnwrap (env : Env) (a : Nat) (site : String) (s : State) :
    (valueUnwrap env a site).run.run s = match s.value env a with
      | some v => (.ok v, s)
      | none => (.error (.site site), s) := by
  simp only [valueUnwrap, run_bind_get]
  cases s.value env a <;> rfl

theorem run_mapM_valueUnwrap (env : Env) (site : String) (s : State) (args : List Nat) :
    (args.mapM fun a => valueUnwrap env a site).run.run s = match valuesOf env s args with
      | some vs => (.ok vs, s)
      | none => (.error (.site site), s) := by
  induction args with
  | nil => simp only [List.mapM_nil, valuesOf, run_pure]
  | cons a as ih =>
    simp only [List.mapM_cons, valuesOf, run_bind, run_valueUnwrap]
    cases s.value env a with
    | none => rfl
    | some v =>
      simp only [ih]
      cases valuesOf env s as <;> rfl

theorem run_bind_tick_none {β} (f : Unit → M β) (s : State) (h : s.panicCountdown = none) :
    (tick >>= f).run.run s = (f ()).run.run s := run_bind_ok (run_tick_none s h)

theorem run_bind_logEv {β} (e : Event) (f : Unit → M β) (s : State) :
    (logEv e >>= f).run.run s = (f ()).run.run { s with log := e :: s.log } :=
  run_bind_ok (run_logEv e s)

theorem runEffects_nil (env : Env) (fuel : Nat) (arg : Int) : runEffects env fuel [] arg = pure () := rfl



theorem recomputeOne_map_run (env : Env) (fuel n : Nat) (s : State) (nd : Node) (f : Nat)
    (args : List Nat) (vals : List Val)
    (hn : s.nodes[n]? = some nd) (hv : nd.valid = true) (hk : nd.kind = .map f args)
    (hf : f < fnZip) (hvals : valuesOf env s args = some vals) (heff : env.fnEff f vals = [])
    (hp : s.panicCountdown = none) :
    (recomputeOne env fuel n).run.run s =
      (maybeChangeValue env fuel n (env.fn f vals)).run.run
        (logged [.inv s!"f{f}" n vals (env.fn f vals).render] (started n s)) := by
  have hk? : ({ nd with recomputedAt := s.stabNum } : Node).kind? = some (.map f args) := by
    simp [Node.kind?, hv, hk]
  have hvals' : valuesOf env (started n s) args = some vals := by
    rw [valuesOf_congr env s (started n s) args (fun a _ => started_value env n s a)]; exact hvals
  have hn' := started_getElem? n s nd hn
  unfold recomputeOne
  simp only [run_bind_get]
  cases hd : s.cfg.debug
  all_goals
    simp only [started, hd, Bool.false_eq_true, if_false, if_true, run_bind_modify,
      run_bind_bumpCounter, run_bind_get, run_bind_modNode] at hn' hvals' ⊢
    rw [run_bind_ok (run_getNode_some hn'), hk?]
    dsimp only
    rw [run_bind_of (run_mapM_valueUnwrap env _ _ args), hvals']
    dsimp only
    rw [if_pos hf]
    simp only [run_bind_tick_none, hp, heff, runEffects_nil, pure_bind, run_bind_logEv]
    rfl


theorem recomputeOne_mapBuiltin_run (env : Env) (fuel n : Nat) (s : State) (nd : Node) (f : Nat)
    (args : List Nat) (vals : List Val)
    (hn : s.nodes[n]? = some nd) (hv : nd.valid = true) (hk : nd.kind = .map f args)
    (hf : ¬ f < fnZip) (hpk : f < fnPerKey) (hvals : valuesOf env s args = some vals) :
    (recomputeOne env fuel n).run.run s =
      (maybeChangeValue env fuel n (env.fn f vals)).run.run (started n s) := by
  have hk? : ({ nd with recomputedAt := s.stabNum } : Node).kind? = some (.map f args) := by
    simp [Node.kind?, hv, hk]
  have hvals' : valuesOf env (started n s) args = some vals := by
    rw [valuesOf_congr env s (started n s) args (fun a _ => started_value env n s a)]; exact hvals
  have hn' := started_getElem? n s nd hn
  unfold recomputeOne
  simp only [run_bind_get]
  cases hd : s.cfg.debug
  all_goals
    simp only [started, hd, Bool.false_eq_true, if_false, if_true, run_bind_modify,
      run_bind_bumpCounter, run_bind_get, run_bind_modNode] at hn' hvals' ⊢
    rw [run_bind_ok (run_getNode_some hn'), hk?]
    dsimp only
    rw [run_bind_of (run_mapM_valueUnwrap env _ _ args), hvals']
    dsimp only
    rw [if_neg hf, if_neg (Nat.not_le.2 hpk)]

theorem recomputeOne_var_run (env : Env) (fuel n : Nat) (s : State) (nd : Node) (c : Nat)
    (vc : VarCell)
    (hn : s.nodes[n]? = some nd) (hv : nd.valid = true) (hk : nd.kind = .var c)
    (hc : s.vars[c]? = some vc) :
    (recomputeOne env fuel n).run.run s =
      (maybeChangeValue env fuel n vc.value).run.run (started n s) := by
  have hk? : ({ nd with recomputedAt := s.stabNum } : Node).kind? = some (.var c) := by
    simp [Node.kind?, hv, hk]
  have hn' := started_getElem? n s nd hn
  unfold recomputeOne
  simp only [run_bind_get]
  cases hd : s.cfg.debug
  all_goals
    simp only [started, hd, Bool.false_eq_true, if_false, if_true, run_bind_modify,
      run_bind_bumpCounter, run_bind_get, run_bind_modNode] at hn' ⊢
    rw [run_bind_ok (run_getNode_some hn'), hk?]
    dsimp only
    simp only [getVar, bind_assoc, run_bind_get, hc, pure_bind]

theorem recomputeOne_const_run (env : Env) (fuel n : Nat) (s : State) (nd : Node) (v : Val)
    (hn : s.nodes[n]? = some nd) (hv : nd.valid = true) (hk : nd.kind = .const v) :
    (recomputeOne env fuel n).run.run s =
      (maybeChangeValue env fuel n v).run.run (started n s) := by
  have hk? : ({ nd with recomputedAt := s.stabNum } : Node).kind? = some (.const v) := by
    simp [Node.kind?, hv, hk]
  have hn' := started_getElem? n s nd hn
  unfold recomputeOne
  simp only [run_bind_get]
  cases hd : s.cfg.debug
  all_goals
    simp only [started, hd, Bool.false_eq_true, if_false, if_true, run_bind_modify,
      run_bind_bumpCounter, run_bind_get, run_bind_modNode] at hn' ⊢
    rw [run_bind_ok (run_getNode_some hn'), hk?]

theorem recomputeOne_fold_run (env : Env) (fuel n : Nat) (s : State) (nd : Node) (f : Nat)
    (init : Val) (cs : List Nat) (vals : List Val)
    (hn : s.nodes[n]? = some nd) (hv : nd.valid = true) (hk : nd.kind = .fold f init cs)
    (hvals : valuesOf env s cs = some vals) (hp : s.panicCountdown = none) :
    (recomputeOne env fuel n).run.run s =
      (maybeChangeValue env fuel n (vals.foldl (env.foldStep f) init)).run.run
        (logged [.inv s!"fold{f}" n vals (vals.foldl (env.foldStep f) init).render] (started n s)) := by
  have hk? : ({ nd with recomputedAt := s.stabNum } : Node).kind? = some (.fold f init cs) := by
    simp [Node.kind?, hv, hk]
  have hvals' : valuesOf env (started n s) cs = some vals := by
    rw [valuesOf_congr env s (started n s) cs (fun a _ => started_value env n s a)]; exact hvals
  have hn' := started_getElem? n s nd hn
  unfold recomputeOne
  simp only [run_bind_get]
  cases hd : s.cfg.debug
  all_goals
    simp only [started, hd, Bool.false_eq_true, if_false, if_true, run_bind_modify,
      run_bind_bumpCounter, run_bind_get, run_bind_modNode] at hn' hvals' ⊢
    rw [run_bind_ok (run_getNode_some hn'), hk?]
    dsimp only
    rw [run_bind_of (run_mapM_valueUnwrap env _ _ cs), hvals']
    dsimp only
    simp only [run_bind_tick_none, hp, run_bind_logEv]
    rfl


/-- node `n`'s `value` and `oldState` set by a MapWithOld recompute -/
def setWithOld (n : Nat) (new : Val) (σ' : Val) (s : State) : State :=
  { s with nodes := s.nodes.modify n fun y => { y with value := some new, oldState := σ' } }

theorem recomputeOne_mapWithOld_run (env : Env) (fuel n : Nat) (s : State) (nd : Node) (g i : Nat)
    (x σ' new : Val) (did : Bool)
    (hn : s.nodes[n]? = some nd) (hv : nd.valid = true) (hk : nd.kind = .mapWithOld g i)
    (hg : g < opBase)
    (hx : s.value env i = some x) (hp : s.panicCountdown = none)
    (hw : env.withOld g nd.oldState nd.value x = (σ', new, did)) :
    (recomputeOne env fuel n).run.run s =
      (maybeChangeValueManual env fuel n none did true).run.run
        (setWithOld n new σ'
          (logged [.inv s!"g{g}" n ((match nd.value with | some o => [o] | none => []) ++ [x])
            s!"{new.render},{did}"] (started n s))) := by
  have hk? : ({ nd with recomputedAt := s.stabNum } : Node).kind? = some (.mapWithOld g i) := by
    simp [Node.kind?, hv, hk]
  have hx' : (started n s).value env i = some x := by rw [started_value]; exact hx
  have hn' := started_getElem? n s nd hn
  have h1 : (env.withOld g nd.oldState nd.value x).1 = σ' := by rw [hw]
  have h2 : (env.withOld g nd.oldState nd.value x).2.1 = new := by rw [hw]
  have h3 : (env.withOld g nd.oldState nd.value x).2.2 = did := by rw [hw]
  unfold recomputeOne
  simp only [run_bind_get]
  cases hd : s.cfg.debug
  all_goals
    simp only [started, hd, Bool.false_eq_true, if_false, if_true, run_bind_modify,
      run_bind_bumpCounter, run_bind_get, run_bind_modNode] at hn' hx' ⊢
    rw [run_bind_ok (run_getNode_some hn'), hk?]
    dsimp only
    rw [run_bind_of (run_valueUnwrap env i _ _), hx']
    dsimp only
    rw [h1, h2, h3]
    simp only [withOldEvents, hg, if_true, bind_assoc, run_bind_modNode, run_bind_tick_none, hp,
      run_bind_logEv, setWithOld, logged, array_modify_modify]
    rfl


theorem recomputeOne_bindMain_run (env : Env) (fuel n : Nat) (s : State) (nd : Node) (b lc r : Nat)
    (br : BindRec) (rn : Node) (v : Val)
    (hn : s.nodes[n]? = some nd) (hv : nd.valid = true) (hk : nd.kind = .bindMain b lc)
    (hb : s.binds[b]? = some br) (hr : br.rhs = some r) (hrn : s.nodes[r]? = some rn)
    (hrv : rn.valid = true) (hval : s.value env r = some v) :
    (recomputeOne env fuel n).run.run s =
      (maybeChangeValue env fuel n v).run.run (started n s) := by
  have hk? : ({ nd with recomputedAt := s.stabNum } : Node).kind? = some (.bindMain b lc) := by
    simp [Node.kind?, hv, hk]
  have hval' : (started n s).value env r = some v := by rw [started_value]; exact hval
  have hn' := started_getElem? n s nd hn
  have hrn' : ∃ rn', (started n s).nodes[r]? = some rn' ∧ rn'.valid = true := by
    by_cases h : n = r
    · subst h
      rw [hn] at hrn; cases hrn
      exact ⟨_, hn', hrv⟩
    · exact ⟨rn, by simp [started, Array.getElem?_modify, h, hrn], hrv⟩
  obtain ⟨rn', hrn', hrv'⟩ := hrn'
  unfold recomputeOne
  simp only [run_bind_get]
  cases hd : s.cfg.debug
  all_goals
    simp only [started, hd, Bool.false_eq_true, if_false, if_true, run_bind_modify,
      run_bind_bumpCounter, run_bind_get, run_bind_modNode] at hn' hval' hrn' ⊢
    rw [run_bind_ok (run_getNode_some hn'), hk?]
    dsimp only
    simp only [getBind, bind_assoc, run_bind_get, hb, pure_bind, hr]
    rw [run_bind_ok (run_getNode_some hrn')]
    simp only [hrv', if_true, run_bind_get, hval']


/-! ## the frame of a recompute step -/

/-- what a recompute step of node `n` (of a map-like kind) may change: the `value`, `changedAt`,
`recomputedAt`, `oldState` of `n` itself, and of every node `heightInRch` (only from "not in the heap"
to "in the heap"), `inHandleAfterStab`, `didChange` -/
structure StepFrame (n : Nat) (s s' : State) : Prop where
  size : s'.nodes.size = s.nodes.size
  kind : ∀ m, (s'.nodeD m).kind = (s.nodeD m).kind
  valid : ∀ m, (s'.nodeD m).valid = (s.nodeD m).valid
  cutoff : ∀ m, (s'.nodeD m).cutoff = (s.nodeD m).cutoff
  height : ∀ m, (s'.nodeD m).height = (s.nodeD m).height
  parents : ∀ m, (s'.nodeD m).parents = (s.nodeD m).parents
  observers : ∀ m, (s'.nodeD m).observers = (s.nodeD m).observers
  createdIn : ∀ m, (s'.nodeD m).createdIn = (s.nodeD m).createdIn
  forceNecessary : ∀ m, (s'.nodeD m).forceNecessary = (s.nodeD m).forceNecessary
  inRch : ∀ m, (s.nodeD m).inRch = true → (s'.nodeD m).inRch = true
  value : ∀ m, m ≠ n → (s'.nodeD m).value = (s.nodeD m).value
  changedAt : ∀ m, m ≠ n → (s'.nodeD m).changedAt = (s.nodeD m).changedAt
  recomputedAt : ∀ m, m ≠ n → (s'.nodeD m).recomputedAt = (s.nodeD m).recomputedAt
  oldState : ∀ m, m ≠ n → (s'.nodeD m).oldState = (s.nodeD m).oldState
  vars : s'.vars = s.vars
  binds : s'.binds = s.binds
  stabNum : s'.stabNum = s.stabNum
  cfg : s'.cfg = s.cfg
  scope : s'.currentScope = s.currentScope

theorem StepFrame.refl (n : Nat) (s : State) : StepFrame n s s := by
  constructor <;> intros <;> first | rfl | assumption

theorem StepFrame.trans {n : Nat} {a b c : State} (h1 : StepFrame n a b) (h2 : StepFrame n b c) :
    StepFrame n a c where
  size := h2.size.trans h1.size
  kind m := (h2.kind m).trans (h1.kind m)
  valid m := (h2.valid m).trans (h1.valid m)
  cutoff m := (h2.cutoff m).trans (h1.cutoff m)
  height m := (h2.height m).trans (h1.height m)
  parents m := (h2.parents m).trans (h1.parents m)
  observers m := (h2.observers m).trans (h1.observers m)
  createdIn m := (h2.createdIn m).trans (h1.createdIn m)
  forceNecessary m := (h2.forceNecessary m).trans (h1.forceNecessary m)
  inRch m h := h2.inRch m (h1.inRch m h)
  value m hm := (h2.value m hm).trans (h1.value m hm)
  changedAt m hm := (h2.changedAt m hm).trans (h1.changedAt m hm)
  recomputedAt m hm := (h2.recomputedAt m hm).trans (h1.recomputedAt m hm)
  oldState m hm := (h2.oldState m hm).trans (h1.oldState m hm)
  vars := h2.vars.trans h1.vars
  binds := h2.binds.trans h1.binds
  stabNum := h2.stabNum.trans h1.stabNum
  cfg := h2.cfg.trans h1.cfg
  scope := h2.scope.trans h1.scope

theorem Quiet.toFrame {s s' : State} (q : Quiet s s') (n : Nat) : StepFrame n s s' where
  size := q.size
  kind m := (q.node m).kind
  valid m := (q.node m).valid
  cutoff m := (q.node m).cutoff
  height m := (q.node m).height
  parents m := (q.node m).parents
  observers m := (q.node m).observers
  createdIn m := (q.node m).createdIn
  forceNecessary m := (q.node m).forceNecessary
  inRch m := (q.node m).inRch
  value m _ := (q.node m).value
  changedAt m _ := (q.node m).changedAt
  recomputedAt m _ := (q.node m).recomputedAt
  oldState m _ := (q.node m).oldState
  vars := q.vars
  binds := q.binds
  stabNum := q.stabNum
  cfg := q.cfg
  scope := q.scope

/-- an update of node `n` that only touches `value`/`changedAt`/`recomputedAt`/`oldState` -/
def SelfUpdate (f : Node → Node) : Prop :=
  ∀ x, (f x).kind = x.kind ∧ (f x).valid = x.valid ∧ (f x).cutoff = x.cutoff ∧
    (f x).height = x.height ∧ (f x).parents = x.parents ∧ (f x).observers = x.observers ∧
    (f x).createdIn = x.createdIn ∧ (f x).forceNecessary = x.forceNecessary ∧
    (f x).heightInRch = x.heightInRch

theorem StepFrame.modify (n : Nat) (s s' : State) (f : Node → Node) (hf : SelfUpdate f)
    (hn : s'.nodes = s.nodes.modify n f) (hv : s'.vars = s.vars) (hb : s'.binds = s.binds)
    (hs : s'.stabNum = s.stabNum) (hc : s'.cfg = s.cfg) (hsc : s'.currentScope = s.currentScope) :
    StepFrame n s s' := by
  have hD : ∀ m, s'.nodeD m = if n = m ∧ m < s.nodes.size then f (s.nodeD m) else s.nodeD m := by
    intro m
    have := nodeD_modify s n m f
    simp only [State.nodeD] at this ⊢
    rw [hn]; exact this
  have hne : ∀ m, m ≠ n → s'.nodeD m = s.nodeD m := by
    intro m hm
    rw [hD, if_neg (fun h => hm h.1.symm)]
  refine ⟨by rw [hn]; simp, ?_, ?_, ?_, ?_, ?_, ?_, ?_, ?_, ?_, ?_, ?_, ?_, ?_, hv, hb, hs, hc, hsc⟩
  any_goals (intro m hm; rw [hne m hm])
  all_goals intro m
  all_goals rw [hD]
  all_goals split
  all_goals first | rfl | skip
  · exact (hf _).1
  · exact (hf _).2.1
  · exact (hf _).2.2.1
  · exact (hf _).2.2.2.1
  · exact (hf _).2.2.2.2.1
  · exact (hf _).2.2.2.2.2.1
  · exact (hf _).2.2.2.2.2.2.1
  · exact (hf _).2.2.2.2.2.2.2.1
  · intro h; simpa [Node.inRch, (hf _).2.2.2.2.2.2.2.2] using h
  · exact id

theorem StepFrame.started (n : Nat) (s : State) : StepFrame n s (started n s) := by
  refine StepFrame.modify n s _ (fun x => { x with recomputedAt := s.stabNum }) ?_ rfl rfl rfl rfl rfl rfl
  exact fun _ => ⟨rfl, rfl, rfl, rfl, rfl, rfl, rfl, rfl, rfl⟩

theorem StepFrame.logged (n : Nat) (es : List Event) (s : State) : StepFrame n s (logged es s) := by
  constructor <;> intros <;> first | rfl | assumption

theorem StepFrame.setValue (n : Nat) (v : Option Val) (s : State) : StepFrame n s (setValue n v s) := by
  refine StepFrame.modify n s _ (fun x => { x with value := v }) ?_ rfl rfl rfl rfl rfl rfl
  exact fun _ => ⟨rfl, rfl, rfl, rfl, rfl, rfl, rfl, rfl, rfl⟩

theorem StepFrame.touched (n : Nat) (s : State) : StepFrame n s (touched n s) := by
  refine StepFrame.modify n s _ (fun x => { x with changedAt := s.stabNum }) ?_ rfl rfl rfl rfl rfl rfl
  exact fun _ => ⟨rfl, rfl, rfl, rfl, rfl, rfl, rfl, rfl, rfl⟩

theorem StepFrame.setWithOld (n : Nat) (new σ' : Val) (s : State) : StepFrame n s (setWithOld n new σ' s) := by
  refine StepFrame.modify n s _ (fun y => { y with value := some new, oldState := σ' }) ?_ rfl rfl rfl rfl rfl rfl
  exact fun _ => ⟨rfl, rfl, rfl, rfl, rfl, rfl, rfl, rfl, rfl⟩


/-! ## what a recompute step establishes -/

/-- outcome of a successful recompute step of node `n` that computed value `v`, new closure state
`σ`, logged `evs` for the user function, and returned `r` -/
structure StepPost (n : Nat) (v σ : Val) (evs : List Event) (s s' : State) : Prop where
  frame : StepFrame n s s'
  value : (s'.nodeD n).value = some v
  recomputedAt : (s'.nodeD n).recomputedAt = s.stabNum
  changedAt : (s'.nodeD n).changedAt = s.stabNum ∨ (s'.nodeD n).changedAt = (s.nodeD n).changedAt
  oldState : (s'.nodeD n).oldState = σ
  recomputed : s'.counters.recomputed = s.counters.recomputed + 1
  log : ∃ tail, s'.log = tail ++ evs ++ s.log ∧ ∀ e, e ∈ tail → Noise e
  pc : s'.panicCountdown = none

theorem cutoffLog_noise (env : Env) (t : State) (n : Nat) (old new : Val) :
    ∀ e, e ∈ cutoffLog env t n old new → Noise e := by
  intro e he
  unfold cutoffLog at he
  split at he
  · rw [List.mem_singleton] at he; rw [he]; trivial
  · rw [List.mem_singleton] at he; rw [he]; trivial
  · cases he

theorem mcvLog_noise (env : Env) (t : State) (n : Nat) (new : Val) :
    ∀ e, e ∈ mcvLog env t n new → Noise e := by
  intro e he
  unfold mcvLog at he
  split at he
  · cases he
  · exact cutoffLog_noise _ _ _ _ _ e he

/-- the explicit part of a step: `recomputedAt` stamped, user-function events logged, cutoff events
`L` logged, value (and closure state) stored, and, if `stamp`, `changedAt` stamped and the `changed`
counter bumped; followed by `Quiet` work -/
theorem stepPost_of_quiet (n : Nat) (v σ : Val) (evs L : List Event) (s S s' : State) (nd : Node)
    (stamp : Bool)
    (hn : s.nodes[n]? = some nd) (hp : s.panicCountdown = none)
    (hL : ∀ e, e ∈ L → Noise e)
    (hS : S = (if stamp then touched n else id)
      (setWithOld n v σ (logged L (logged evs (started n s)))))
    (q : Quiet S s') : StepPost n v σ evs s s' := by
  have hlt := lt_of_some hn
  have hD := nodeD_of_some hn
  have fr0 : StepFrame n s (setWithOld n v σ (logged L (logged evs (started n s)))) :=
    ((StepFrame.started n s).trans ((StepFrame.logged n evs _).trans (StepFrame.logged n L _))).trans
      (StepFrame.setWithOld n v σ _)
  have nd0 : (setWithOld n v σ (logged L (logged evs (started n s)))).nodeD n =
      { nd with recomputedAt := s.stabNum, value := some v, oldState := σ } := by
    have h1 := nodeD_modify (logged L (logged evs (started n s))) n n
      (fun y => { y with value := some v, oldState := σ })
    have h2 : (logged L (logged evs (started n s))).nodeD n = (started n s).nodeD n := rfl
    have hsz : (logged L (logged evs (started n s))).nodes.size = s.nodes.size := by
      simp [logged, started]
    rw [if_pos ⟨rfl, by rw [hsz]; exact hlt⟩, h2, started_nodeD, if_pos ⟨rfl, hlt⟩, hD] at h1
    exact h1
  cases stamp with
  | false =>
    simp only [Bool.false_eq_true, if_false, id] at hS
    subst hS
    have hq := q.node n
    rw [nd0] at hq
    refine ⟨fr0.trans (q.toFrame n), hq.value, hq.recomputedAt, Or.inr ?_, hq.oldState, ?_, ?_, ?_⟩
    · rw [hq.changedAt, hD]
    · rw [q.counters]; rfl
    · obtain ⟨tail, e1, e2⟩ := q.log
      refine ⟨tail ++ L, ?_, ?_⟩
      · rw [e1]; simp [setWithOld, logged, started]
      · intro e he
        rcases List.mem_append.1 he with h | h
        · exact e2 e h
        · exact hL e h
    · exact q.pc hp
  | true =>
    simp only [if_true] at hS
    subst hS
    have hq := q.node n
    have hsz : (setWithOld n v σ (logged L (logged evs (started n s)))).nodes.size = s.nodes.size := by
      simp [setWithOld, logged, started]
    rw [touched_nodeD, if_pos ⟨rfl, by rw [hsz]; exact hlt⟩, nd0] at hq
    refine ⟨(fr0.trans (StepFrame.touched n _)).trans (q.toFrame n), hq.value, hq.recomputedAt,
      Or.inl ?_, hq.oldState, ?_, ?_, ?_⟩
    · rw [hq.changedAt]; rfl
    · rw [q.counters]; rfl
    · obtain ⟨tail, e1, e2⟩ := q.log
      refine ⟨tail ++ L, ?_, ?_⟩
      · rw [e1]; simp [touched, setWithOld, logged, started]
      · intro e he
        rcases List.mem_append.1 he with h | h
        · exact e2 e h
        · exact hL e h
    · exact q.pc hp


theorem setValue_eq_setWithOld (n : Nat) (v : Val) (t : State) (x : Node) (h : t.nodes[n]? = some x) :
    setValue n (some v) t = setWithOld n v x.oldState t := by
  have : (t.nodes.modify n fun y => { y with value := some v }) =
      t.nodes.modify n fun y => { y with value := some v, oldState := x.oldState } := by
    apply Array.ext_getElem?
    intro i
    simp only [Array.getElem?_modify]
    by_cases hi : n = i
    · subst hi; simp [h]
    · simp [hi]
  simp only [setValue, setWithOld, this]

/-- a successful `maybe_change_value n v` right after the start of `recompute_one n` -/
theorem mcv_stepPost (env : Env) (fuel n : Nat) (v : Val) (evs : List Event) (s s' : State)
    (nd : Node) (r : Option Nat)
    (hn : s.nodes[n]? = some nd) (hp : s.panicCountdown = none)
    (h : (maybeChangeValue env fuel n v).run.run (logged evs (started n s)) = (.ok r, s')) :
    StepPost n v nd.oldState evs s s' := by
  have hn0 : (logged evs (started n s)).nodes[n]? = some { nd with recomputedAt := s.stabNum } :=
    started_getElem? n s nd hn
  have hp0 : (logged evs (started n s)).panicCountdown = none := hp
  have hnL : (logged (mcvLog env (logged evs (started n s)) n v) (logged evs (started n s))).nodes[n]?
      = some { nd with recomputedAt := s.stabNum } := hn0
  have hset := setValue_eq_setWithOld n v _ _ hnL
  cases hd : mcvChanges env (logged evs (started n s)) n v with
  | none => rw [mcv_run' env fuel n v _ _ hn0 hp0, hd] at h; cases h
  | some d =>
    cases d with
    | false =>
      rw [mcv_suppress env fuel n v _ _ hn0 hp0 hd] at h
      cases h
      exact stepPost_of_quiet n v nd.oldState evs (mcvLog env (logged evs (started n s)) n v) s _ _ nd false hn hp
        (mcvLog_noise _ _ _ _) hset
        (Quiet.refl _)
    | true =>
      have q := (mcv_propagate env fuel n v _ s' _ r hn0 hp0 hd h).1
      refine stepPost_of_quiet n v nd.oldState evs (mcvLog env (logged evs (started n s)) n v) s _ s' nd true hn hp
        (mcvLog_noise _ _ _ _) ?_ q
      simp only [changedState, if_true]
      rw [hset]


/-- a successful `maybe_change_value_manual n none did true` right after a MapWithOld machine ran -/
theorem mcvm_stepPost (env : Env) (fuel n : Nat) (new σ' : Val) (did : Bool) (evs : List Event)
    (s s' : State) (nd : Node) (r : Option Nat)
    (hn : s.nodes[n]? = some nd) (hp : s.panicCountdown = none)
    (h : (maybeChangeValueManual env fuel n none did true).run.run
      (setWithOld n new σ' (logged evs (started n s))) = (.ok r, s')) :
    StepPost n new σ' evs s s' := by
  cases did with
  | false =>
    rw [run_mcvm_false] at h
    cases h
    exact stepPost_of_quiet n new σ' evs [] s _ _ nd false hn hp (fun _ h => by cases h) rfl
      (Quiet.refl _)
  | true =>
    have q := mcvm_true_quiet _ _ _ _ _ _ _ _ h
    exact stepPost_of_quiet n new σ' evs [] s _ s' nd true hn hp (fun _ h => by cases h) rfl q

/-! ## staleness after a step -/

theorem children_congr (n : Nat) (s s' : State) (hk : (s'.nodeD n).kind? = (s.nodeD n).kind?)
    (hb : s'.binds = s.binds) (hne : ∀ e, (s.nodeD n).kind? ≠ some (.expert e)) :
    s'.children n = s.children n := by
  unfold State.children
  rw [hk, hb]
  cases hk' : (s.nodeD n).kind? with
  | none => rfl
  | some k =>
    cases k <;> try rfl
    exact absurd hk' (hne _)

/-- after a step that stamped `recomputedAt n := stabNum` and whose frame is `StepFrame n`, node `n`
is not stale, provided nothing it depends on claims to have changed in the future -/
theorem not_stale_after (n : Nat) (s s' : State) (fr : StepFrame n s s')
    (hrec : (s'.nodeD n).recomputedAt = s.stabNum) (h0 : 0 ≤ s.stabNum)
    (hself : (s'.nodeD n).changedAt ≤ s.stabNum)
    (hne : ∀ e, (s.nodeD n).kind ≠ .expert e)
    (hch : ∀ c, c ∈ s.children n → (s.nodeD c).changedAt ≤ s.stabNum)
    (hvar : ∀ c vc, (s.nodeD n).kind = .var c → s.vars[c]? = some vc → vc.setAt ≤ s.stabNum) :
    s'.isStale n = false := by
  have hk : (s'.nodeD n).kind? = (s.nodeD n).kind? := by
    simp [Node.kind?, fr.kind n, fr.valid n]
  have hne' : ∀ e, (s.nodeD n).kind? ≠ some (.expert e) := by
    intro e h
    simp only [Node.kind?] at h
    split at h
    · exact hne e (Option.some.inj h)
    · cases h
  have hcs := children_congr n s s' hk fr.binds hne'
  have hany : ((s'.children n).any fun c => (s'.nodeD c).changedAt > (s'.nodeD n).recomputedAt) = false := by
    rw [List.any_eq_false]
    intro c hc
    rw [hcs] at hc
    rw [hrec]
    have : (s'.nodeD c).changedAt ≤ s.stabNum := by
      by_cases hcn : c = n
      · rw [hcn]; exact hself
      · rw [fr.changedAt c hcn]; exact hch c hc
    simpa using this
  have hr1 : ((s'.nodeD n).recomputedAt == -1) = false := by
    rw [hrec]
    simp only [beq_eq_false_iff_ne, ne_eq]
    omega
  unfold State.isStale
  simp only [hany, hr1, Bool.or_false, hk]
  cases hk' : (s.nodeD n).kind? with
  | none => rfl
  | some k =>
    have hkk : (s.nodeD n).kind = k := by
      simp only [Node.kind?] at hk'
      split at hk'
      · cases hk'; rfl
      · cases hk'
    cases k <;> try rfl
    · rename_i c
      simp only [fr.vars]
      cases hvc : s.vars[c]? with
      | none => rfl
      | some vc =>
        have := hvar c vc hkk hvc
        rw [hrec]
        simpa using this
    · exact absurd hk' (hne' _)


/-! ## per kind: what a successful `recompute_one` establishes -/

theorem recomputeOne_map_post (env : Env) (fuel n : Nat) (s s' : State) (nd : Node) (f : Nat)
    (args : List Nat) (vals : List Val) (r : Option Nat)
    (hn : s.nodes[n]? = some nd) (hv : nd.valid = true) (hk : nd.kind = .map f args)
    (hf : f < fnZip) (hvals : valuesOf env s args = some vals) (heff : env.fnEff f vals = [])
    (hp : s.panicCountdown = none)
    (h : (recomputeOne env fuel n).run.run s = (.ok r, s')) :
    StepPost n (env.fn f vals) nd.oldState [.inv s!"f{f}" n vals (env.fn f vals).render] s s' := by
  rw [recomputeOne_map_run env fuel n s nd f args vals hn hv hk hf hvals heff hp] at h
  exact mcv_stepPost env fuel n _ _ s s' nd r hn hp h

theorem recomputeOne_mapBuiltin_post (env : Env) (fuel n : Nat) (s s' : State) (nd : Node) (f : Nat)
    (args : List Nat) (vals : List Val) (r : Option Nat)
    (hn : s.nodes[n]? = some nd) (hv : nd.valid = true) (hk : nd.kind = .map f args)
    (hf : ¬ f < fnZip) (hpk : f < fnPerKey) (hvals : valuesOf env s args = some vals)
    (hp : s.panicCountdown = none)
    (h : (recomputeOne env fuel n).run.run s = (.ok r, s')) :
    StepPost n (env.fn f vals) nd.oldState [] s s' := by
  rw [recomputeOne_mapBuiltin_run env fuel n s nd f args vals hn hv hk hf hpk hvals] at h
  exact mcv_stepPost env fuel n _ [] s s' nd r hn hp h

theorem recomputeOne_var_post (env : Env) (fuel n : Nat) (s s' : State) (nd : Node) (c : Nat)
    (vc : VarCell) (r : Option Nat)
    (hn : s.nodes[n]? = some nd) (hv : nd.valid = true) (hk : nd.kind = .var c)
    (hc : s.vars[c]? = some vc) (hp : s.panicCountdown = none)
    (h : (recomputeOne env fuel n).run.run s = (.ok r, s')) :
    StepPost n vc.value nd.oldState [] s s' := by
  rw [recomputeOne_var_run env fuel n s nd c vc hn hv hk hc] at h
  exact mcv_stepPost env fuel n _ [] s s' nd r hn hp h

theorem recomputeOne_const_post (env : Env) (fuel n : Nat) (s s' : State) (nd : Node) (v : Val)
    (r : Option Nat)
    (hn : s.nodes[n]? = some nd) (hv : nd.valid = true) (hk : nd.kind = .const v)
    (hp : s.panicCountdown = none)
    (h : (recomputeOne env fuel n).run.run s = (.ok r, s')) :
    StepPost n v nd.oldState [] s s' := by
  rw [recomputeOne_const_run env fuel n s nd v hn hv hk] at h
  exact mcv_stepPost env fuel n _ [] s s' nd r hn hp h

theorem recomputeOne_fold_post (env : Env) (fuel n : Nat) (s s' : State) (nd : Node) (f : Nat)
    (init : Val) (cs : List Nat) (vals : List Val) (r : Option Nat)
    (hn : s.nodes[n]? = some nd) (hv : nd.valid = true) (hk : nd.kind = .fold f init cs)
    (hvals : valuesOf env s cs = some vals) (hp : s.panicCountdown = none)
    (h : (recomputeOne env fuel n).run.run s = (.ok r, s')) :
    StepPost n (vals.foldl (env.foldStep f) init) nd.oldState
      [.inv s!"fold{f}" n vals (vals.foldl (env.foldStep f) init).render] s s' := by
  rw [recomputeOne_fold_run env fuel n s nd f init cs vals hn hv hk hvals hp] at h
  exact mcv_stepPost env fuel n _ _ s s' nd r hn hp h

theorem recomputeOne_mapWithOld_post (env : Env) (fuel n : Nat) (s s' : State) (nd : Node) (g i : Nat)
    (x σ' new : Val) (did : Bool) (r : Option Nat)
    (hn : s.nodes[n]? = some nd) (hv : nd.valid = true) (hk : nd.kind = .mapWithOld g i)
    (hg : g < opBase)
    (hx : s.value env i = some x) (hp : s.panicCountdown = none)
    (hw : env.withOld g nd.oldState nd.value x = (σ', new, did))
    (h : (recomputeOne env fuel n).run.run s = (.ok r, s')) :
    StepPost n new σ'
      [.inv s!"g{g}" n ((match nd.value with | some o => [o] | none => []) ++ [x])
        s!"{new.render},{did}"] s s' := by
  rw [recomputeOne_mapWithOld_run env fuel n s nd g i x σ' new did hn hv hk hg hx hp hw] at h
  exact mcvm_stepPost env fuel n new σ' did _ s s' nd r hn hp h

theorem recomputeOne_bindMain_post (env : Env) (fuel n : Nat) (s s' : State) (nd : Node) (b lc r0 : Nat)
    (br : BindRec) (rn : Node) (v : Val) (r : Option Nat)
    (hn : s.nodes[n]? = some nd) (hv : nd.valid = true) (hk : nd.kind = .bindMain b lc)
    (hb : s.binds[b]? = some br) (hr : br.rhs = some r0) (hrn : s.nodes[r0]? = some rn)
    (hrv : rn.valid = true) (hval : s.value env r0 = some v) (hp : s.panicCountdown = none)
    (h : (recomputeOne env fuel n).run.run s = (.ok r, s')) :
    StepPost n v nd.oldState [] s s' := by
  rw [recomputeOne_bindMain_run env fuel n s nd b lc r0 br rn v hn hv hk hb hr hrn hrv hval] at h
  exact mcv_stepPost env fuel n _ [] s s' nd r hn hp h

/-- the user-function event of a map node is not one of the notification events -/
theorem inv_f_not_noise (f n : Nat) (vals : List Val) (res : String) :
    ¬ Noise (.inv s!"f{f}" n vals res) := by
  intro h
  have h' : s!"f{f}" = "cb" := h
  have := congrArg String.toList h'
  simp at this
  have h2 : (toString "f").toList = ['f'] := by decide
  rw [h2] at this
  simp at this

/-- values of the arguments, read in the post-state of a step of `n`, when arguments are earlier
nodes than `n` and MapRef inputs point backward -/
theorem valuesOf_after (env : Env) (n : Nat) (s s' : State) (fr : StepFrame n s s') (hwf : MapRefsBack s)
    (args : List Nat) (hlt : ∀ a, a ∈ args → a < n) (hn : n < s.nodes.size) :
    valuesOf env s' args = valuesOf env s args := by
  apply valuesOf_congr
  intro a ha
  apply value_congr_below env s s' hwf fr.size a (by have := hlt a ha; omega)
  intro m hm
  have hmn : m ≠ n := by have := hlt a ha; omega
  simp only [valueCore, fr.kind m, fr.valid m, fr.value m hmn]


/-! ## the treated kinds in one relation -/

/-- `Computes env s n nd v σ evs`: node `n` (record `nd`, in state `s`) is of one of the kinds treated
here and, from the values its inputs have in `s`, its recompute function yields value `v`, closure
state `σ` (only MapWithOld has one; otherwise the old `nd.oldState`) and logs the user-function events
`evs`.  Kinds: `map` with a user function (`f < fnZip`) without effects, the built-in `map`s (zip, first,
ident: `fnZip ≤ f < fnPerKey`), `var`, `const`, `fold`, `map_with_old` with a user-written machine
(`g < opBase`), `bind_main` whose rhs is valid and has a value.  Not covered: the `lhs_change` closures of
per-key operators (`map` with `f ≥ fnPerKey`) and the closures of the incremental-map operators
(`map_with_old` with `g ≥ opBase`). -/
inductive Computes (env : Env) (s : State) (n : Nat) (nd : Node) : Val → Val → List Event → Prop
  | map (f : Nat) (args : List Nat) (vals : List Val) :
      nd.kind = .map f args → f < fnZip → valuesOf env s args = some vals → env.fnEff f vals = [] →
      Computes env s n nd (env.fn f vals) nd.oldState [.inv s!"f{f}" n vals (env.fn f vals).render]
  | mapBuiltin (f : Nat) (args : List Nat) (vals : List Val) :
      nd.kind = .map f args → ¬ f < fnZip → f < fnPerKey → valuesOf env s args = some vals →
      Computes env s n nd (env.fn f vals) nd.oldState []
  | var (c : Nat) (vc : VarCell) :
      nd.kind = .var c → s.vars[c]? = some vc → Computes env s n nd vc.value nd.oldState []
  | const (v : Val) : nd.kind = .const v → Computes env s n nd v nd.oldState []
  | fold (f : Nat) (init : Val) (cs : List Nat) (vals : List Val) :
      nd.kind = .fold f init cs → valuesOf env s cs = some vals →
      Computes env s n nd (vals.foldl (env.foldStep f) init) nd.oldState
        [.inv s!"fold{f}" n vals (vals.foldl (env.foldStep f) init).render]
  | mapWithOld (g i : Nat) (x σ' new : Val) (did : Bool) :
      nd.kind = .mapWithOld g i → g < opBase → s.value env i = some x →
      env.withOld g nd.oldState nd.value x = (σ', new, did) →
      Computes env s n nd new σ'
        [.inv s!"g{g}" n ((match nd.value with | some o => [o] | none => []) ++ [x])
          s!"{new.render},{did}"]
  | bindMain (b lc r0 : Nat) (br : BindRec) (rn : Node) (v : Val) :
      nd.kind = .bindMain b lc → s.binds[b]? = some br → br.rhs = some r0 →
      s.nodes[r0]? = some rn → rn.valid = true → s.value env r0 = some v →
      Computes env s n nd v nd.oldState []

/-- C01/C02 in one statement: a successful step on a valid node of a treated kind stores what
`Computes` says, stamps the node, and respects the frame -/
theorem recomputeOne_post (env : Env) (fuel n : Nat) (s s' : State) (nd : Node) (v σ : Val)
    (evs : List Event) (r : Option Nat)
    (hn : s.nodes[n]? = some nd) (hv : nd.valid = true) (hp : s.panicCountdown = none)
    (hc : Computes env s n nd v σ evs)
    (h : (recomputeOne env fuel n).run.run s = (.ok r, s')) :
    StepPost n v σ evs s s' := by
  cases hc with
  | map f args vals hk hf hvals heff =>
    exact recomputeOne_map_post env fuel n s s' nd f args vals r hn hv hk hf hvals heff hp h
  | mapBuiltin f args vals hk hf hpk hvals =>
    exact recomputeOne_mapBuiltin_post env fuel n s s' nd f args vals r hn hv hk hf hpk hvals hp h
  | var c vc hk hvc => exact recomputeOne_var_post env fuel n s s' nd c vc r hn hv hk hvc hp h
  | const v hk => exact recomputeOne_const_post env fuel n s s' nd v r hn hv hk hp h
  | fold f init cs vals hk hvals =>
    exact recomputeOne_fold_post env fuel n s s' nd f init cs vals r hn hv hk hvals hp h
  | mapWithOld g i x σ' new did hk hg hx hw =>
    exact recomputeOne_mapWithOld_post env fuel n s s' nd g i x σ v did r hn hv hk hg hx hp hw h
  | bindMain b lc r0 br rn v hk hb hr hrn hrv hval =>
    exact recomputeOne_bindMain_post env fuel n s s' nd b lc r0 br rn v r hn hv hk hb hr hrn hrv hval hp h

/-- `State.value` of a node that is not a (valid) MapRef is its `value` field -/
theorem value_plain (env : Env) (s : State) (n : Nat) (h : ∀ p i, (s.nodeD n).kind ≠ .mapRef p i) :
    s.value env n = (s.nodeD n).value := by
  unfold State.value
  rw [valueWith_succ']
  unfold valueStep' valueCore
  split
  · rename_i p i _ heq
    have := congrArg Prod.fst heq
    exact absurd this (h p i)
  · rename_i heq
    have := congrArg (fun x => x.2.2) heq
    exact this.symm

theorem Computes.not_mapRef {env : Env} {s : State} {n : Nat} {nd : Node} {v σ : Val}
    {evs : List Event} (hc : Computes env s n nd v σ evs) : ∀ p i, nd.kind ≠ .mapRef p i := by
  intro p i h
  cases hc <;> simp_all

theorem Computes.not_expert {env : Env} {s : State} {n : Nat} {nd : Node} {v σ : Val}
    {evs : List Event} (hc : Computes env s n nd v σ evs) : ∀ e, nd.kind ≠ .expert e := by
  intro e h
  cases hc <;> simp_all


/-! ## `recomputeOne` on an invalid or missing node -/

theorem recomputeOne_invalid_run (env : Env) (fuel n : Nat) (s : State) (nd : Node)
    (hn : s.nodes[n]? = some nd) (hv : nd.valid = false) :
    (recomputeOne env fuel n).run.run s =
      (.error (.site "node:recompute_one:invalid-node"), started n s) := by
  have hk? : ({ nd with recomputedAt := s.stabNum } : Node).kind? = none := by
    simp [Node.kind?, hv]
  have hn' := started_getElem? n s nd hn
  unfold recomputeOne
  simp only [run_bind_get]
  cases hd : s.cfg.debug
  all_goals
    simp only [started, hd, Bool.false_eq_true, if_false, if_true, run_bind_modify,
      run_bind_bumpCounter, run_bind_get, run_bind_modNode] at hn' ⊢
    rw [run_bind_ok (run_getNode_some hn'), hk?]
    rfl

theorem recomputeOne_missing_run (env : Env) (fuel n : Nat) (s : State)
    (hn : s.nodes[n]? = none) :
    (recomputeOne env fuel n).run.run s =
      (.error (.site "model:no-such-node"), started n s) := by
  have hn' : (started n s).nodes[n]? = none := by
    simp [started, Array.getElem?_modify, hn]
  unfold recomputeOne
  simp only [run_bind_get]
  cases hd : s.cfg.debug
  all_goals
    simp only [started, hd, Bool.false_eq_true, if_false, if_true, run_bind_modify,
      run_bind_bumpCounter, run_bind_get, run_bind_modNode] at hn' ⊢
    rw [run_bind, run_getNode, hn']


/-! ## glue for the C06 statements -/

theorem cutoffVerdict_of_run (env : Env) (n : Nat) (old new : Val) (s : State) (nd : Node) (b : Bool)
    (hn : s.nodes[n]? = some nd) (hp : s.panicCountdown = none)
    (h : ((shouldCutoff env n old new).run.run s).1 = .ok b) :
    cutoffVerdict env s n old new = some b := by
  rw [shouldCutoff_run env n old new s nd hn hp] at h
  cases hv : cutoffVerdict env s n old new with
  | none => rw [hv] at h; cases h
  | some c => rw [hv] at h; cases h; rfl

theorem mcvChanges_some (env : Env) (n : Nat) (old new : Val) (s : State) (nd : Node) (b : Bool)
    (hn : s.nodes[n]? = some nd) (hv : nd.value = some old) (hp : s.panicCountdown = none)
    (h : ((shouldCutoff env n old new).run.run s).1 = .ok b) :
    mcvChanges env s n new = some (!b) ∧ mcvLog env s n new = cutoffLog env s n old new := by
  unfold mcvChanges mcvLog
  rw [nodeD_of_some hn, hv]
  simp only [cutoffVerdict_of_run env n old new s nd b hn hp h, Option.map_some, and_self]

theorem mcvChanges_none (env : Env) (n : Nat) (new : Val) (s : State) (nd : Node)
    (hn : s.nodes[n]? = some nd) (hv : nd.value = none) :
    mcvChanges env s n new = some true ∧ mcvLog env s n new = [] := by
  unfold mcvChanges mcvLog
  rw [nodeD_of_some hn, hv]
  exact ⟨rfl, rfl⟩

/-- the explicit state in which parents are notified, field by field -/
theorem changedState_facts (env : Env) (n : Nat) (new : Val) (s : State) (nd : Node)
    (hn : s.nodes[n]? = some nd) :
    StepFrame n s (changedState env n new s) ∧
    (changedState env n new s).nodeD n = { nd with value := some new, changedAt := s.stabNum } ∧
    (changedState env n new s).counters = { s.counters with changed := s.counters.changed + 1 } ∧
    (changedState env n new s).log = mcvLog env s n new ++ s.log ∧
    (changedState env n new s).rch = s.rch ∧
    (changedState env n new s).panicCountdown = s.panicCountdown := by
  have hlt := lt_of_some hn
  refine ⟨((StepFrame.logged n _ s).trans (StepFrame.setValue n _ _)).trans (StepFrame.touched n _),
    ?_, rfl, rfl, rfl, rfl⟩
  unfold changedState
  have hsz : (setValue n (some new) (logged (mcvLog env s n new) s)).nodes.size = s.nodes.size := by
    simp [setValue, logged]
  rw [touched_nodeD, if_pos ⟨rfl, by rw [hsz]; exact hlt⟩, setValue_nodeD,
    if_pos ⟨rfl, by exact hlt⟩]
  have : (logged (mcvLog env s n new) s).nodeD n = nd := nodeD_of_some hn
  rw [this]
  rfl

/-- field-level reading of `mcv_propagate` -/
theorem mcv_propagate_facts (env : Env) (fuel n : Nat) (new : Val) (s s' : State) (nd : Node)
    (r : Option Nat)
    (hn : s.nodes[n]? = some nd) (hp : s.panicCountdown = none)
    (hd : mcvChanges env s n new = some true)
    (h : (maybeChangeValue env fuel n new).run.run s = (.ok r, s')) :
    StepFrame n s s' ∧
    (s'.nodeD n).value = some new ∧ (s'.nodeD n).changedAt = s.stabNum ∧
    (s'.nodeD n).recomputedAt = nd.recomputedAt ∧
    s'.counters = { s.counters with changed := s.counters.changed + 1 } ∧
    (∃ tail, s'.log = tail ++ mcvLog env s n new ++ s.log ∧ ∀ e, e ∈ tail → Noise e) ∧
    s'.panicCountdown = none := by
  obtain ⟨q, _⟩ := mcv_propagate env fuel n new s s' nd r hn hp hd h
  obtain ⟨fr, hD, hc, hl, _, hpc⟩ := changedState_facts env n new s nd hn
  have hq := q.node n
  rw [hD] at hq
  refine ⟨fr.trans (q.toFrame n), hq.value, hq.changedAt, hq.recomputedAt, by rw [q.counters, hc],
    ?_, q.pc (by rw [hpc]; exact hp)⟩
  obtain ⟨tail, e1, e2⟩ := q.log
  exact ⟨tail, by rw [e1, hl, List.append_assoc], e2⟩


/-! ## the frame of a cutoff check -/

/-- `s'` differs from `s` at most in `log` and `panicCountdown` -/
def OnlyLogPc (s s' : State) : Prop :=
  s' = { s with log := s'.log, panicCountdown := s'.panicCountdown }

instance : PreOrd OnlyLogPc where
  refl _ := rfl
  trans := by
    intro a b c h1 h2
    unfold OnlyLogPc at *
    rw [h2, h1]

theorem Pres.shouldCutoff_onlyLogPc (env : Env) (n : Nat) (o v : Val) :
    Pres OnlyLogPc (Engine.shouldCutoff env n o v) := by
  unfold Engine.shouldCutoff Engine.tick Engine.logEv
  qpres
  all_goals (apply Pres.modify; intro s; rfl)


/-! ## "the call returned", as a decidable test (for the non-vacuity examples) -/

/-- the call returned (did not panic) -/
def returned {α} (x : Except Panic α × State) : Bool := match x.1 with | .ok _ => true | .error _ => false

theorem returned_iff {α} (x : Except Panic α × State) : returned x = true ↔ ∃ r s', x = (.ok r, s') := by
  rcases x with ⟨_ | r, s'⟩
  · simp [returned]
  · simp [returned]


/-! ## example environment and states (non-vacuity witnesses used by the property files) -/

/-- functions: `f0` = sum of the integer views, others = first argument; cutoff `c0` = "equal integer
views mod 2"; projections and fold steps simple arithmetic -/
def exEnv : Env where
  fn f vals := if f = 0 then .int (vals.foldl (fun a v => a + v.toInt) 0) else vals.headD .unit
  fnEff _ _ := []
  foldStep _ a v := .int (a.toInt + v.toInt)
  proj _ v := .int (v.toInt % 2)
  withOld _ σ old v := (.int (σ.toInt + 1), .int (v.toInt + (old.getD .unit).toInt), true)
  cutoff _ a b := a.toInt % 2 == b.toInt % 2
  body _ _ := { instrs := [], ret := .abs 0 }
  handler _ _ := []
  expertFn _ _ _ := .unit
  withOldCalls _ _ _ _ := []
  memo _ := { instrs := [], ret := .abs 0 }
  perKey _ := { instrs := [], ret := .abs 0 }

/-- round 1 of a small graph.  node 0: var cell 0 (old value 1, the cell now holds 4), parents 1, 2, 3;
node 1: `map f0 [0]`; node 2: `fold f0 10 [0, 0]`; node 3: `map_ref p0 0`; node 4: `map_with_old g0 0`;
node 5: constant 7; node 6: `bind_main` of bind 0 whose rhs is node 5.  All necessary (observed),
heights consistent, nothing in the heap, limit 8. -/
def exS : State :=
  { State.init 8 with
    nodes := #[
      { kind := .var 0, createdIn := .top, value := some (.int 1), recomputedAt := 0, changedAt := 0,
        height := 0, parents := [(1, 0), (2, 0), (3, 0), (4, 0)], cutoff := .never },
      { kind := .map 0 [0], createdIn := .top, value := some (.int 1), recomputedAt := 0, changedAt := 0,
        height := 1, observers := [0], cutoff := .fn 0 },
      { kind := .fold 0 (.int 10) [0, 0], createdIn := .top, value := some (.int 12), recomputedAt := 0,
        changedAt := 0, height := 1, observers := [1] },
      { kind := .mapRef 0 0, createdIn := .top, recomputedAt := 0, changedAt := 0, height := 1,
        observers := [2], didChange := false },
      { kind := .mapWithOld 0 0, createdIn := .top, value := some (.int 1), recomputedAt := 0,
        changedAt := 0, height := 1, observers := [3], oldState := .int 0 },
      { kind := .const (.int 7), createdIn := .top, value := some (.int 7), recomputedAt := 0,
        changedAt := 0, height := 0, parents := [(6, 1)], cutoff := .always },
      { kind := .bindMain 0 0, createdIn := .top, recomputedAt := -1, height := 2, observers := [4],
        cutoff := .dependOn 5 }],
    vars := #[{ value := .int 4, setAt := 1, node := 0 }],
    binds := #[{ lhs := 0, body := 0, lhsChange := 0, main := 6, rhs := some 5 }],
    stabNum := 1, status := .stabilising }


end IncrVerif.Proofs.Step
