import IncrVerif.Proofs.Heights
/-!
# Helper lemmas for the local step theorems (C06 cutoffs, C02 glitch-freedom, C01 consistency)

* a few more `run_*` rules (on top of the calculus of `Proofs/Heights.lean`);
* `Quiet s s'`: what the *notification* part of a recompute step (cutoff check, `child_changed`,
  heap insertions, `parent_iter_can_recompute_now`, handler bookkeeping) may do to the state: it never
  touches `kind`/`valid`/`value`/`changedAt`/`recomputedAt`/`cutoff`/`height`/`parents`/… of any node, never
  removes a node from the recompute heap, leaves vars, binds, counters and the round number alone,
  and only logs `cut` events and expert edge-callback events;
* `Pres R m` ("every run of `m`, returning or panicking, relates initial and final state by `R`", the
  proof style of `Proofs/Observers.lean`, restated here so that this file only depends on the engine
  model and `Proofs/Heights.lean`) and `Pres Quiet m` for those functions;
* master equations for `shouldCutoff`, `maybeChangeValue`, `maybeChangeValueManual`,
  `parentIterCanRecomputeNow`, `recomputeOne` (per kind).
-/
namespace IncrVerif.Proofs.Step
open IncrVerif.Engine IncrVerif.Proofs

/-! ## more run rules -/

theorem run_throw {α} (e : Panic) (s : State) : (throw e : M α).run.run s = (.error e, s) := rfl

theorem run_logEv (e : Event) (s : State) :
    (logEv e).run.run s = (.ok (), { s with log := e :: s.log }) := rfl

theorem run_bumpCounter (f : Counters → Counters) (s : State) :
    (bumpCounter f).run.run s = (.ok (), { s with counters := f s.counters }) := rfl

theorem run_tick_none (s : State) (h : s.panicCountdown = none) : tick.run.run s = (.ok (), s) := by
  simp only [tick, run_bind, run_get, h, run_pure]

theorem run_getNode_some {s : State} {n : Nat} {nd : Node} (h : s.nodes[n]? = some nd) :
    (getNode n).run.run s = (.ok nd, s) := by
  rw [run_getNode, h]

theorem nodeD_of_some {s : State} {n : Nat} {nd : Node} (h : s.nodes[n]? = some nd) :
    s.nodeD n = nd := by
  simp [State.nodeD, h]

theorem some_of_lt {s : State} {n : Nat} (h : n < s.nodes.size) : s.nodes[n]? = some (s.nodeD n) := by
  simp [State.nodeD, Array.getElem?_eq_getElem h]

theorem lt_of_some {s : State} {n : Nat} {nd : Node} (h : s.nodes[n]? = some nd) :
    n < s.nodes.size := (Array.getElem?_eq_some_iff.1 h).1

/-- a bind that returned: both halves returned -/
theorem bind_ok_inv {α β} {x : M α} {f : α → M β} {s s' : State} {r : β}
    (h : (x >>= f).run.run s = (.ok r, s')) :
    ∃ a s1, x.run.run s = (.ok a, s1) ∧ (f a).run.run s1 = (.ok r, s') := by
  rw [run_bind] at h
  rcases hx : x.run.run s with ⟨_ | a, s1⟩
  · rw [hx] at h; cases h
  · rw [hx] at h; exact ⟨a, s1, rfl, h⟩

/-- the node array after a `modNode` -/
theorem nodeD_modify (s : State) (n m : Nat) (f : Node → Node) :
    ({ s with nodes := s.nodes.modify n f } : State).nodeD m =
      if n = m ∧ m < s.nodes.size then f (s.nodeD m) else s.nodeD m := by
  simp only [State.nodeD, Array.getElem?_modify]
  by_cases h : n = m
  · subst h
    by_cases h2 : n < s.nodes.size
    · simp [h2]
    · simp [h2]
  · simp [h]

/-! ## `Pres R m`: every run of `m` (returning or panicking) relates initial and final state by `R` -/

class PreOrd (R : State → State → Prop) : Prop where
  refl : ∀ s, R s s
  trans : ∀ {a b c}, R a b → R b c → R a c

structure Pres (R : State → State → Prop) {α} (m : M α) : Prop where
  h : ∀ s r s', m.run.run s = (r, s') → R s s'

theorem Pres.mono {R R' : State → State → Prop} {α} {m : M α} (hm : Pres R m)
    (h : ∀ s s', R s s' → R' s s') : Pres R' m :=
  ⟨fun s r s' e => h _ _ (hm.h s r s' e)⟩

section
variable {R : State → State → Prop} [PreOrd R]

theorem Pres.pure {α} (a : α) : Pres R (pure a : M α) := by
  constructor; intro s r s' h; rw [run_pure] at h; cases h; exact PreOrd.refl s
theorem Pres.get : Pres R (get : M State) := by
  constructor; intro s r s' h; rw [run_get] at h; cases h; exact PreOrd.refl s
theorem Pres.throw {α} (e : Panic) : Pres R (throw e : M α) := by
  constructor; intro s r s' h; rw [run_throw] at h; cases h; exact PreOrd.refl s
theorem Pres.panic {α} (e : String) : Pres R (IncrVerif.Engine.panic e : M α) := Pres.throw _
omit [PreOrd R] in
theorem Pres.modify {f : State → State} (hf : ∀ s, R s (f s)) : Pres R (modify f : M Unit) := by
  constructor; intro s r s' h; rw [run_modify] at h; cases h; exact hf s
theorem Pres.bind {α β} {x : M α} {f : α → M β} (hx : Pres R x) (hf : ∀ a, Pres R (f a)) :
    Pres R (x >>= f) := by
  constructor
  intro s r s' h
  rw [run_bind] at h
  rcases hx' : x.run.run s with ⟨r1, s1⟩
  rw [hx'] at h
  have h1 := hx.h s r1 s1 hx'
  cases r1 with
  | ok a => exact PreOrd.trans h1 ((hf a).h s1 r s' h)
  | error e => cases h; exact h1
theorem Pres.map {α β} {x : M α} (f : α → β) (hx : Pres R x) : Pres R (f <$> x) := by
  rw [map_eq_pure_bind]; exact Pres.bind hx (fun _ => Pres.pure _)
theorem Pres.mapM {α β} {f : α → M β} (hf : ∀ a, Pres R (f a)) (l : List α) :
    Pres R (l.mapM f) := by
  induction l with
  | nil => simp; exact Pres.pure _
  | cons a l ih => simp; exact Pres.bind (hf a) (fun _ => Pres.bind ih (fun _ => Pres.pure _))
theorem Pres.forIn {α β} (l : List α) (init : β)
    (f : α → β → M (ForInStep β)) (hf : ∀ a b, Pres R (f a b)) : Pres R (forIn l init f) := by
  induction l generalizing init with
  | nil => rw [List.forIn_nil]; exact Pres.pure _
  | cons a l ih =>
    rw [List.forIn_cons]
    refine Pres.bind (hf a init) fun r => ?_
    cases r with
    | done b => exact Pres.pure _
    | yield b => exact ih b
end

/-- leaves of the decomposition: extended by `macro_rules` below -/
syntax "qleaf" : tactic
macro_rules | `(tactic| qleaf) => `(tactic| fail "no leaf")

/-- one structural step -/
macro "qstep" : tactic => `(tactic| first
  | with_reducible apply Pres.pure | with_reducible apply Pres.get | with_reducible apply Pres.panic
  | with_reducible apply Pres.throw
  | qleaf
  | with_reducible apply Pres.bind | with_reducible apply Pres.map | with_reducible apply Pres.mapM
  | intro _ | split | dsimp only)

/-- decompose a `Pres` goal along the structure of the program -/
macro "qpres" : tactic => `(tactic| repeat (any_goals qstep))

section
variable {R : State → State → Prop} [PreOrd R]
theorem Pres.getNode (n) : Pres R (getNode n) := by unfold Engine.getNode; qpres
theorem Pres.getVar (n) : Pres R (getVar n) := by unfold Engine.getVar; qpres
theorem Pres.getBind (n) : Pres R (getBind n) := by unfold Engine.getBind; qpres
theorem Pres.getExpert (n) : Pres R (getExpert n) := by unfold Engine.getExpert; qpres
theorem Pres.dassert (c s) : Pres R (dassert c s) := by unfold Engine.dassert; qpres
theorem Pres.assertM (c s) : Pres R (assertM c s) := by unfold Engine.assertM; qpres
end

macro_rules | `(tactic| qleaf) => `(tactic| with_reducible apply Pres.getNode)
macro_rules | `(tactic| qleaf) => `(tactic| with_reducible apply Pres.getVar)
macro_rules | `(tactic| qleaf) => `(tactic| with_reducible apply Pres.getBind)
macro_rules | `(tactic| qleaf) => `(tactic| with_reducible apply Pres.getExpert)
macro_rules | `(tactic| qleaf) => `(tactic| with_reducible apply Pres.dassert)
macro_rules | `(tactic| qleaf) => `(tactic| with_reducible apply Pres.assertM)

/-! ## the `Quiet` relation -/

/-- the events the notification part of a step may log: cutoff calls and expert edge callbacks -/
def Noise : Event → Prop
  | .cut .. => True
  | .inv what _ _ _ => what = "cb"
  | _ => False

/-- node `b` is node `a` up to `heightInRch` (which may only go from "not in the heap" to "in the
heap"), `inHandleAfterStab` and `didChange` -/
structure NodeSame (a b : Node) : Prop where
  kind : b.kind = a.kind
  createdIn : b.createdIn = a.createdIn
  cutoff : b.cutoff = a.cutoff
  value : b.value = a.value
  valid : b.valid = a.valid
  recomputedAt : b.recomputedAt = a.recomputedAt
  changedAt : b.changedAt = a.changedAt
  height : b.height = a.height
  parents : b.parents = a.parents
  observers : b.observers = a.observers
  forceNecessary : b.forceNecessary = a.forceNecessary
  oldState : b.oldState = a.oldState
  inRch : a.inRch = true → b.inRch = true

theorem NodeSame.refl (a : Node) : NodeSame a a :=
  ⟨rfl, rfl, rfl, rfl, rfl, rfl, rfl, rfl, rfl, rfl, rfl, rfl, id⟩

theorem NodeSame.trans {a b c : Node} (h1 : NodeSame a b) (h2 : NodeSame b c) : NodeSame a c :=
  ⟨h2.kind.trans h1.kind, h2.createdIn.trans h1.createdIn, h2.cutoff.trans h1.cutoff,
   h2.value.trans h1.value, h2.valid.trans h1.valid, h2.recomputedAt.trans h1.recomputedAt,
   h2.changedAt.trans h1.changedAt, h2.height.trans h1.height, h2.parents.trans h1.parents,
   h2.observers.trans h1.observers, h2.forceNecessary.trans h1.forceNecessary,
   h2.oldState.trans h1.oldState, fun h => h2.inRch (h1.inRch h)⟩

theorem NodeSame.kind? {a b : Node} (h : NodeSame a b) : b.kind? = a.kind? := by
  simp [Node.kind?, h.kind, h.valid]

theorem NodeSame.isNecessary {a b : Node} (h : NodeSame a b) : b.isNecessary = a.isNecessary := by
  simp [Node.isNecessary, h.parents, h.observers, h.forceNecessary]

/-- `s'` is `s` after some notification work (see the module comment) -/
structure Quiet (s s' : State) : Prop where
  size : s'.nodes.size = s.nodes.size
  node : ∀ m, NodeSame (s.nodeD m) (s'.nodeD m)
  vars : s'.vars = s.vars
  binds : s'.binds = s.binds
  stabNum : s'.stabNum = s.stabNum
  cfg : s'.cfg = s.cfg
  counters : s'.counters = s.counters
  scope : s'.currentScope = s.currentScope
  log : ∃ tail, s'.log = tail ++ s.log ∧ ∀ e ∈ tail, Noise e
  pc : s.panicCountdown = none → s'.panicCountdown = none

theorem Quiet.refl (s : State) : Quiet s s :=
  ⟨rfl, fun _ => NodeSame.refl _, rfl, rfl, rfl, rfl, rfl, rfl, ⟨[], rfl, fun _ h => by cases h⟩, id⟩

theorem Quiet.trans {a b c : State} (h1 : Quiet a b) (h2 : Quiet b c) : Quiet a c where
  size := h2.size.trans h1.size
  node m := (h1.node m).trans (h2.node m)
  vars := h2.vars.trans h1.vars
  binds := h2.binds.trans h1.binds
  stabNum := h2.stabNum.trans h1.stabNum
  cfg := h2.cfg.trans h1.cfg
  counters := h2.counters.trans h1.counters
  scope := h2.scope.trans h1.scope
  log := by
    obtain ⟨t1, e1, n1⟩ := h1.log
    obtain ⟨t2, e2, n2⟩ := h2.log
    refine ⟨t2 ++ t1, by rw [e2, e1, List.append_assoc], ?_⟩
    intro e he
    rcases List.mem_append.1 he with h | h
    · exact n2 e h
    · exact n1 e h
  pc h := h2.pc (h1.pc h)

instance : PreOrd Quiet := ⟨Quiet.refl, Quiet.trans⟩

/-- a step that leaves nodes, vars, binds, round number, config, counters, scope, log and the fault
counter alone -/
theorem Quiet.of_eq {s s' : State} (h1 : s'.nodes = s.nodes) (h2 : s'.vars = s.vars)
    (h3 : s'.binds = s.binds) (h4 : s'.stabNum = s.stabNum) (h5 : s'.cfg = s.cfg)
    (h6 : s'.counters = s.counters) (h7 : s'.currentScope = s.currentScope) (h8 : s'.log = s.log)
    (h9 : s'.panicCountdown = s.panicCountdown) : Quiet s s' := by
  refine ⟨by rw [h1], fun m => ?_, h2, h3, h4, h5, h6, h7, ⟨[], by simp [h8], fun _ h => by cases h⟩,
    fun h => by rw [h9]; exact h⟩
  have : s'.nodeD m = s.nodeD m := by simp [State.nodeD, h1]
  rw [this]; exact NodeSame.refl _

theorem Quiet.modNode (s : State) (n : Nat) (f : Node → Node) (hf : ∀ x, NodeSame x (f x)) :
    Quiet s { s with nodes := s.nodes.modify n f } := by
  refine ⟨by simp, fun m => ?_, rfl, rfl, rfl, rfl, rfl, rfl, ⟨[], rfl, fun _ h => by cases h⟩, id⟩
  rw [nodeD_modify]
  split
  · exact hf _
  · exact NodeSame.refl _

theorem Quiet.logNoise (s : State) (e : Event) (he : Noise e) :
    Quiet s { s with log := e :: s.log } :=
  ⟨rfl, fun _ => NodeSame.refl _, rfl, rfl, rfl, rfl, rfl, rfl,
    ⟨[e], rfl, fun x hx => by rw [List.mem_singleton] at hx; rw [hx]; exact he⟩, id⟩

/-! ## `Pres Quiet` for the notification functions -/

/-- closes `∀ x, NodeSame x (f x)` when `f` only updates `inHandleAfterStab` / `didChange` -/
macro "nodesame" : tactic =>
  `(tactic| (intro _; exact ⟨rfl, rfl, rfl, rfl, rfl, rfl, rfl, rfl, rfl, rfl, rfl, rfl, id⟩))

theorem Pres.modNode_same (n : Nat) (f : Node → Node) (hf : ∀ x, NodeSame x (f x)) :
    Pres Quiet (modNode n f) := by
  unfold Engine.modNode; exact Pres.modify fun s => Quiet.modNode s n f hf

theorem Pres.logNoise (e : Event) (he : Noise e) : Pres Quiet (logEv e) := by
  unfold Engine.logEv; exact Pres.modify fun s => Quiet.logNoise s e he

macro_rules
  | `(tactic| qleaf) =>
    `(tactic| ((with_reducible apply Pres.modify); intro _;
               exact Quiet.of_eq rfl rfl rfl rfl rfl rfl rfl rfl rfl))
macro_rules
  | `(tactic| qleaf) => `(tactic| ((with_reducible apply Pres.modNode_same); nodesame))
macro_rules
  | `(tactic| qleaf) => `(tactic| ((with_reducible apply Pres.logNoise); first | trivial | rfl))

theorem Pres.tick : Pres Quiet tick := by
  constructor
  intro s r s' h
  unfold Engine.tick at h
  simp only [run_bind, run_get] at h
  cases hp : s.panicCountdown with
  | none => rw [hp] at h; cases h; exact Quiet.refl s
  | some k =>
    rw [hp] at h
    simp only [run_ite, run_bind, run_modify, run_panic] at h
    split at h
    · cases h
      exact ⟨rfl, fun _ => NodeSame.refl _, rfl, rfl, rfl, rfl, rfl, rfl,
        ⟨[], rfl, fun _ h => by cases h⟩, fun _ => rfl⟩
    · cases h
      exact ⟨rfl, fun _ => NodeSame.refl _, rfl, rfl, rfl, rfl, rfl, rfl,
        ⟨[], rfl, fun _ h => by cases h⟩, fun h => by rw [hp] at h; cases h⟩
macro_rules | `(tactic| qleaf) => `(tactic| with_reducible apply Pres.tick)

theorem Pres.modExpert (e f) : Pres Quiet (modExpert e f) := by unfold Engine.modExpert; qpres
macro_rules | `(tactic| qleaf) => `(tactic| with_reducible apply Pres.modExpert)

theorem Pres.valueUnwrap {R : State → State → Prop} [PreOrd R] (env n site) :
    Pres R (valueUnwrap env n site) := by unfold Engine.valueUnwrap; qpres
macro_rules | `(tactic| qleaf) => `(tactic| with_reducible apply Pres.valueUnwrap)

theorem Pres.scopeHeight {R : State → State → Prop} [PreOrd R] (sc) : Pres R (scopeHeight sc) := by
  unfold Engine.scopeHeight; qpres
macro_rules | `(tactic| qleaf) => `(tactic| with_reducible apply Pres.scopeHeight)

theorem Pres.shouldCutoff (env n o v) : Pres Quiet (shouldCutoff env n o v) := by
  unfold Engine.shouldCutoff; qpres
macro_rules | `(tactic| qleaf) => `(tactic| with_reducible apply Pres.shouldCutoff)

theorem Pres.edgeOnChange (env e edge) : Pres Quiet (edgeOnChange env e edge) := by
  unfold Engine.edgeOnChange; qpres
macro_rules | `(tactic| qleaf) => `(tactic| with_reducible apply Pres.edgeOnChange)

theorem Pres.runEdgeCallback (env e i) : Pres Quiet (runEdgeCallback env e i) := by
  unfold Engine.runEdgeCallback; qpres
macro_rules | `(tactic| qleaf) => `(tactic| with_reducible apply Pres.runEdgeCallback)

theorem Pres.handleAfterStabilisation (n) : Pres Quiet (handleAfterStabilisation n) := by
  unfold Engine.handleAfterStabilisation; qpres
macro_rules | `(tactic| qleaf) => `(tactic| with_reducible apply Pres.handleAfterStabilisation)

theorem Pres.maybeHandleAfterStabilisation (n) : Pres Quiet (maybeHandleAfterStabilisation n) := by
  unfold Engine.maybeHandleAfterStabilisation; qpres
macro_rules | `(tactic| qleaf) => `(tactic| with_reducible apply Pres.maybeHandleAfterStabilisation)

theorem Pres.rchMinHeight : Pres Quiet rchMinHeight := by unfold Engine.rchMinHeight; qpres
macro_rules | `(tactic| qleaf) => `(tactic| with_reducible apply Pres.rchMinHeight)


theorem inserted_nodeD (n : Nat) (h : Int) (s : State) (m : Nat) :
    (inserted n h s).nodeD m =
      if n = m ∧ m < s.nodes.size then { s.nodeD m with heightInRch := h } else s.nodeD m :=
  nodeD_modify s n m _

theorem Quiet.inserted (n : Nat) (h : Int) (s : State) (hh : 0 ≤ h) : Quiet s (inserted n h s) := by
  refine ⟨Array.size_modify .., fun m => ?_, rfl, rfl, rfl, rfl, rfl, rfl,
    ⟨[], rfl, fun _ h => by cases h⟩, id⟩
  rw [inserted_nodeD]
  split
  · exact ⟨rfl, rfl, rfl, rfl, rfl, rfl, rfl, rfl, rfl, rfl, rfl, rfl,
      fun _ => by simpa [Node.inRch] using hh⟩
  · exact NodeSame.refl _

theorem Pres.rchInsert (n : Nat) : Pres Quiet (rchInsert n) := by
  constructor
  intro s r s' h
  rw [rchInsert_run] at h
  cases hn : s.nodes[n]? with
  | none => rw [hn] at h; cases h; exact Quiet.refl s
  | some nd =>
    rw [hn] at h
    simp only at h
    by_cases h1 : s.cfg.debug = true ∧ (!nd.inRch && s.needsToBeComputed n) = false
    · rw [if_pos h1] at h; cases h; exact Quiet.refl s
    rw [if_neg h1] at h
    by_cases h2 : s.cfg.debug = true ∧ nd.height > s.rch.maxAllowed
    · rw [if_pos h2] at h; cases h; exact Quiet.refl s
    rw [if_neg h2] at h
    by_cases h3 : nd.height < 0
    · rw [if_pos h3] at h; cases h; exact Quiet.of_eq rfl rfl rfl rfl rfl rfl rfl rfl rfl
    rw [if_neg h3] at h
    by_cases h4 : nd.height > s.rch.maxAllowed
    · rw [if_pos h4] at h; cases h; exact Quiet.of_eq rfl rfl rfl rfl rfl rfl rfl rfl rfl
    rw [if_neg h4] at h
    cases h; exact Quiet.inserted n nd.height s (by omega)
macro_rules | `(tactic| qleaf) => `(tactic| with_reducible apply Pres.rchInsert)

theorem Pres.parentIterCanRecomputeNow (p child : Nat) :
    Pres Quiet (parentIterCanRecomputeNow p child) := by
  unfold Engine.parentIterCanRecomputeNow; qpres
macro_rules | `(tactic| qleaf) => `(tactic| with_reducible apply Pres.parentIterCanRecomputeNow)

theorem Pres.childChanged (env : Env) (fuel p child ci : Nat) (o : Option Val) :
    Pres Quiet (childChanged env fuel p child ci o) := by
  induction fuel generalizing p child ci o with
  | zero => unfold Engine.childChanged; qpres
  | succ fuel ih =>
    unfold Engine.childChanged
    qpres
    all_goals (apply Pres.forIn; intro a b; qpres; exact ih _ _ _ _)
macro_rules | `(tactic| qleaf) => `(tactic| with_reducible apply Pres.childChanged)

/-! ## peeling rules, inversion rules, loop rules -/

theorem run_bind_ok {α β} {x : M α} {f : α → M β} {s s1 : State} {a : α}
    (h : x.run.run s = (.ok a, s1)) : (x >>= f).run.run s = (f a).run.run s1 := by
  rw [run_bind, h]

theorem run_bind_get {β} (f : State → M β) (s : State) : (get >>= f).run.run s = (f s).run.run s :=
  run_bind_ok (run_get s)
theorem run_bind_modify {β} (g : State → State) (f : Unit → M β) (s : State) :
    (modify g >>= f).run.run s = (f ()).run.run (g s) := run_bind_ok (run_modify g s)
theorem run_bind_modNode {β} (n : Nat) (g : Node → Node) (f : Unit → M β) (s : State) :
    (modNode n g >>= f).run.run s = (f ()).run.run { s with nodes := s.nodes.modify n g } :=
  run_bind_ok (run_modNode n g s)
theorem run_bind_bumpCounter {β} (g : Counters → Counters) (f : Unit → M β) (s : State) :
    (bumpCounter g >>= f).run.run s = (f ()).run.run { s with counters := g s.counters } :=
  run_bind_ok (run_bumpCounter g s)

def touched (n : Nat) (s : State) : State :=
  { s with nodes := s.nodes.modify n fun x => { x with changedAt := s.stabNum },
           counters := { s.counters with changed := s.counters.changed + 1 } }

theorem mcvm_true_quiet (env : Env) (fuel n : Nat) (o : Option Val) (b : Bool) (s s' : State)
    (r : Except Panic (Option Nat))
    (h : (maybeChangeValueManual env fuel n o true b).run.run s = (r, s')) :
    Quiet (touched n s) s' := by
  unfold maybeChangeValueManual at h
  simp only [Bool.not_true, Bool.false_eq_true, if_false, run_bind_get, run_bind_modNode,
    run_bind_bumpCounter] at h
  refine Pres.h ?_ _ _ _ h
  qpres
  all_goals (apply Pres.forIn; intro a b; qpres)

theorem getNode_ok_inv {n : Nat} {s s' : State} {nd : Node}
    (h : (getNode n).run.run s = (.ok nd, s')) : s' = s ∧ s.nodes[n]? = some nd := by
  rw [run_getNode] at h
  cases hn : s.nodes[n]? with
  | none => rw [hn] at h; cases h
  | some x => rw [hn] at h; cases h; exact ⟨rfl, rfl⟩

theorem get_ok_inv {s s' a : State} (h : (get : M State).run.run s = (.ok a, s')) : a = s ∧ s' = s := by
  rw [run_get] at h; cases h; exact ⟨rfl, rfl⟩

theorem dassert_ok_inv {c : Bool} {site : String} {s s' : State} {u : Unit}
    (h : (dassert c site).run.run s = (.ok u, s')) : s' = s := by
  rw [run_dassert] at h
  split at h <;> cases h
  rfl

theorem pure_ok_inv {α} {a r : α} {s s' : State} (h : (pure a : M α).run.run s = (.ok r, s')) :
    r = a ∧ s' = s := by
  rw [run_pure] at h; cases h; exact ⟨rfl, rfl⟩

/-- a successful `insert`: the node exists, its height is within the heap, and it is now marked -/
theorem rchInsert_ok_inv {n : Nat} {s s' : State} {u : Unit}
    (hr : (rchInsert n).run.run s = (.ok u, s')) :
    ∃ nd, s.nodes[n]? = some nd ∧ 0 ≤ nd.height ∧ nd.height ≤ s.rch.maxAllowed ∧
      s' = inserted n nd.height s := by
  rw [rchInsert_run] at hr
  cases hn : s.nodes[n]? with
  | none => rw [hn] at hr; cases hr
  | some nd =>
    rw [hn] at hr
    simp only at hr
    by_cases h1 : s.cfg.debug = true ∧ (!nd.inRch && s.needsToBeComputed n) = false
    · rw [if_pos h1] at hr; cases hr
    rw [if_neg h1] at hr
    by_cases h2 : s.cfg.debug = true ∧ nd.height > s.rch.maxAllowed
    · rw [if_pos h2] at hr; cases hr
    rw [if_neg h2] at hr
    by_cases h3 : nd.height < 0
    · rw [if_pos h3] at hr; cases hr
    rw [if_neg h3] at hr
    by_cases h4 : nd.height > s.rch.maxAllowed
    · rw [if_pos h4] at hr; cases hr
    rw [if_neg h4] at hr
    cases hr
    exact ⟨nd, rfl, by omega, by omega, rfl⟩

theorem rchInsert_ok_inRch {n : Nat} {s s' : State} {u : Unit}
    (hr : (rchInsert n).run.run s = (.ok u, s')) :
    n < s'.nodes.size ∧ (s'.nodeD n).inRch = true := by
  obtain ⟨nd, hn, h0, _, rfl⟩ := rchInsert_ok_inv hr
  have hlt := lt_of_some hn
  refine ⟨by simpa [inserted] using hlt, ?_⟩
  rw [inserted_nodeD, if_pos ⟨rfl, hlt⟩]
  simpa [Node.inRch] using h0


/-- loop rule: a state predicate kept by every iteration is kept by the loop -/
theorem forIn_keep {α} (K : State → Prop) (f : α → PUnit → M (ForInStep PUnit))
    (hkeep : ∀ b s r s', K s → (f b ⟨⟩).run.run s = (r, s') → K s') (l : List α) :
    ∀ s r s', K s → (forIn l PUnit.unit f).run.run s = (r, s') → K s' := by
  induction l with
  | nil => intro s r s' hk h; rw [List.forIn_nil, run_pure] at h; cases h; exact hk
  | cons a l ih =>
    intro s r s' hk h
    rw [List.forIn_cons, run_bind] at h
    rcases hx : (f a ⟨⟩).run.run s with ⟨x | x, s1⟩
    · rw [hx] at h; cases h; exact hkeep a s _ _ hk hx
    · rw [hx] at h
      have hk1 := hkeep a s _ _ hk hx
      cases x with
      | done b => simp only [run_pure] at h; cases h; exact hk1
      | yield b => exact ih s1 r s' hk1 h

/-- loop rule with a per-element postcondition that later iterations keep -/
theorem forIn_post {α} (P : α → State → Prop) (f : α → PUnit → M (ForInStep PUnit))
    (hkeep : ∀ a b s r s', P a s → (f b ⟨⟩).run.run s = (r, s') → P a s')
    (l : List α)
    (hpost : ∀ a, a ∈ l → ∀ s r s', (f a ⟨⟩).run.run s = (.ok r, s') → r = .yield ⟨⟩ ∧ P a s') :
    ∀ s r s', (forIn l PUnit.unit f).run.run s = (.ok r, s') → ∀ a, a ∈ l → P a s' := by
  induction l with
  | nil => intro s r s' _ a ha; cases ha
  | cons a l ih =>
    intro s r s' h
    rw [List.forIn_cons] at h
    obtain ⟨x, s1, hx, hrest⟩ := bind_ok_inv h
    obtain ⟨rfl, hp⟩ := hpost a (List.mem_cons_self ..) s x s1 hx
    simp only at hrest
    intro a' ha'
    rcases List.mem_cons.1 ha' with rfl | hmem
    · exact forIn_keep (P a') f (hkeep a') l s1 _ s' hp hrest
    · exact ih (fun a ha => hpost a (List.mem_cons_of_mem _ ha)) s1 r s' hrest a' hmem

end IncrVerif.Proofs.Step
