import IncrVerif.Proofs.DriverH1
/-!
# `RmSpec`, part 2: along the unlinking cascade the heights of the nodes that are still necessary do not change
-/
namespace IncrVerif.Proofs.DriverH
open IncrVerif.Engine IncrVerif.Driver IncrVerif.Proofs IncrVerif.Proofs.Step IncrVerif.Proofs.Sched
open IncrVerif.Proofs.ExpertH IncrVerif.Proofs.ExpertH.QR

/-- necessity does not grow, and the nodes that are still necessary keep their height -/
def NH (s s' : State) : Prop :=
  ∀ m, s'.isNecessary m = true → s.isNecessary m = true ∧ (s'.nodeD m).height = (s.nodeD m).height

theorem NH.refl (s : State) : NH s s := fun _ h => ⟨h, rfl⟩
theorem NH.trans {a b c : State} (h1 : NH a b) (h2 : NH b c) : NH a c := fun m h =>
  ⟨(h1 m (h2 m h).1).1, ((h2 m h).2).trans (h1 m (h2 m h).1).2⟩

/-! ## a small frame: the fields necessity reads are unchanged, heights are unchanged outside `X` -/

/-- what necessity reads of a node -/
def necKey (nd : Node) := (nd.parents, nd.observers, nd.forceNecessary)

structure NHF (X : Nat → Prop) (s s' : State) : Prop where
  key : ∀ m, necKey (s'.nodeD m) = necKey (s.nodeD m)
  hgt : ∀ m, ¬ X m → (s'.nodeD m).height = (s.nodeD m).height

theorem NHF.refl (X : Nat → Prop) (s : State) : NHF X s s := ⟨fun _ => rfl, fun _ _ => rfl⟩
theorem NHF.trans {X : Nat → Prop} {a b c : State} (h1 : NHF X a b) (h2 : NHF X b c) : NHF X a c :=
  ⟨fun m => (h2.key m).trans (h1.key m), fun m hm => (h2.hgt m hm).trans (h1.hgt m hm)⟩
instance (X : Nat → Prop) : Step.PreOrd (NHF X) := ⟨NHF.refl X, NHF.trans⟩

theorem NHF.of_nodes {X : Nat → Prop} {s s' : State} (h1 : s'.nodes = s.nodes) : NHF X s s' := by
  have : ∀ m, s'.nodeD m = s.nodeD m := fun m => by simp [State.nodeD, h1]
  exact ⟨fun m => by rw [this], fun m _ => by rw [this]⟩

theorem NHF.modNode {X : Nat → Prop} (s : State) (n : Nat) (f : Node → Node)
    (hf : ∀ x, necKey (f x) = necKey x) (hh : ∀ x, ¬ X n → (f x).height = x.height) :
    NHF X s { s with nodes := s.nodes.modify n f } := by
  refine ⟨fun m => ?_, fun m hm => ?_⟩
  · rw [nodeD_modify]; split
    · exact hf _
    · rfl
  · rw [nodeD_modify]; split
    · rename_i e; exact hh _ (by rw [e.1]; exact hm)
    · rfl

theorem PresNH.modNode {X : Nat → Prop} (n : Nat) (f : Node → Node)
    (hf : ∀ x, necKey (f x) = necKey x) (hh : ∀ x, ¬ X n → (f x).height = x.height) :
    Step.Pres (NHF X) (Engine.modNode n f) := by
  unfold Engine.modNode; exact Step.Pres.modify fun s => NHF.modNode s n f hf hh

macro_rules
  | `(tactic| qleaf) =>
    `(tactic| ((with_reducible apply Step.Pres.modify); intro _; exact NHF.of_nodes rfl))
macro_rules
  | `(tactic| qleaf) =>
    `(tactic| ((with_reducible apply PresNH.modNode) <;> intros <;> first | rfl | (exfalso; rename_i hx; exact hx rfl)))

macro "nh_leaf " n:ident : command =>
  `(macro_rules | `(tactic| qleaf) => `(tactic| with_reducible apply $n))

section
variable {X : Nat → Prop}
theorem PresNH.logEv (e) : Step.Pres (NHF X) (Engine.logEv e) := by unfold Engine.logEv; qpres
nh_leaf PresNH.logEv
theorem PresNH.modExpert (e f) : Step.Pres (NHF X) (Engine.modExpert e f) := by unfold Engine.modExpert; qpres
nh_leaf PresNH.modExpert
theorem PresNH.observabilityChange (e b) : Step.Pres (NHF X) (Engine.observabilityChange e b) := by
  unfold Engine.observabilityChange; qpres
nh_leaf PresNH.observabilityChange
theorem PresNH.rchUnlink (n) : Step.Pres (NHF X) (Engine.rchUnlink n) := by unfold Engine.rchUnlink; qpres
nh_leaf PresNH.rchUnlink
theorem PresNH.rchRemove (n) : Step.Pres (NHF X) (Engine.rchRemove n) := by unfold Engine.rchRemove; qpres
nh_leaf PresNH.rchRemove
theorem PresNH.handleAfterStabilisation (n) : Step.Pres (NHF X) (Engine.handleAfterStabilisation n) := by
  unfold Engine.handleAfterStabilisation; qpres
nh_leaf PresNH.handleAfterStabilisation
theorem PresNH.maybeHandleAfterStabilisation (n) : Step.Pres (NHF X) (Engine.maybeHandleAfterStabilisation n) := by
  unfold Engine.maybeHandleAfterStabilisation; qpres
nh_leaf PresNH.maybeHandleAfterStabilisation
end

theorem PresNH.setHeight (n h) : Step.Pres (NHF (· = n)) (Engine.setHeight n h) := by
  unfold Engine.setHeight; qpres

theorem NHF.nec {X : Nat → Prop} {s s' : State} (h : NHF X s s') (m : Nat) : s'.isNecessary m = s.isNecessary m := by
  have := h.key m
  simp only [necKey, Prod.mk.injEq] at this
  exact U4.nec_congr this.1 this.2.1 this.2.2

/-- the frame gives `NH` when the nodes whose height may have changed were not necessary -/
theorem NHF.nh {X : Nat → Prop} {s s' : State} (h : NHF X s s') (hX : ∀ m, X m → s.isNecessary m = false) :
    NH s s' := by
  intro m hm
  rw [h.nec m] at hm
  refine ⟨hm, h.hgt m (fun hx => ?_)⟩
  rw [hX m hx] at hm; cases hm

theorem NHF.nh0 {s s' : State} (h : NHF (fun _ => False) s s') : NH s s' := h.nh (fun _ hx => hx.elim)

/-! ## `removeParent` -/

theorem swapRemove_nil {α} (i : Nat) : swapRemove ([] : List α) i = [] := by simp [swapRemove]

theorem NH.removeParent {c i p : Nat} {s s' : State} {u : Unit}
    (h : (removeParent c i p).run.run s = (.ok u, s')) : NH s s' := by
  obtain ⟨nd, pi, -, -, e⟩ := removeParent_ok_inv h
  rw [e]
  intro m hm
  rw [isNecessary_iff] at hm
  rw [isNecessary_iff]
  rw [nodeD_modify] at hm ⊢
  split at hm
  · rename_i hc
    rw [if_pos hc]
    refine ⟨?_, rfl⟩
    rcases hm with hm | hm
    · left
      intro e0
      apply hm
      show swapRemove (s.nodeD m).parents pi = []
      rw [e0]; exact swapRemove_nil _
    · exact Or.inr hm
  · rename_i hc
    rw [if_neg hc]
    exact ⟨hm, rfl⟩

/-! ## the cascade -/

def BUnh (fuel : Nat) : Prop :=
  ∀ n s s', (becameUnnecessary fuel n).run.run s = (.ok (), s') → s.isNecessary n = false → NH s s'
def CUnh (fuel : Nat) : Prop :=
  ∀ c s s', (checkIfUnnecessary fuel c).run.run s = (.ok (), s') → NH s s'
def RCnh (fuel : Nat) : Prop :=
  ∀ n s s', (removeChildren fuel n).run.run s = (.ok (), s') → NH s s'

theorem cu_nh (fuel : Nat) (ih : BUnh fuel) : CUnh (fuel + 1) := by
  intro c s s' h
  unfold Engine.checkIfUnnecessary at h
  rw [run_bind_get] at h
  cases hn : s.isNecessary c with
  | true =>
    rw [hn] at h
    simp only [Bool.not_true, Bool.false_eq_true, if_false] at h
    obtain ⟨-, rfl⟩ := pure_ok_inv h
    exact NH.refl _
  | false =>
    rw [hn] at h
    simp only [Bool.not_false, if_true] at h
    exact ih c s s' h hn

theorem rc_nh (fuel : Nat) (ih : CUnh fuel) : RCnh (fuel + 1) := by
  intro n s s' h
  unfold Engine.removeChildren at h
  rw [run_bind_get] at h
  obtain ⟨b, s3, h3, h⟩ := bind_ok_inv h
  obtain ⟨-, e3⟩ := pure_ok_inv h
  rw [e3]
  exact forIn_ok_inv _ (s.children n) (fun _ (_ : Nat) t => NH s t)
    (by
      intro j c b t r t' _ hrel hbody
      obtain ⟨_, t1, ha, hbody⟩ := bind_ok_inv hbody
      obtain ⟨_, t2, hc, hbody⟩ := bind_ok_inv hbody
      obtain ⟨hr, ht'⟩ := pure_ok_inv hbody
      rw [ht']
      exact ⟨_, hr, (hrel.trans (NH.removeParent ha)).trans (ih c t1 t2 hc)⟩)
    (s.children n) 0 0 s b s3 (by simp) (Nat.zero_le _) (NH.refl s) h3

theorem bu_nh (fuel : Nat) (ih : RCnh fuel) : BUnh (fuel + 1) := by
  intro n s s' h hn
  unfold Engine.becameUnnecessary at h
  obtain ⟨s0, hs0, h⟩ := bind_modify_inv h
  obtain ⟨_, s1, h1, h⟩ := bind_ok_inv h
  obtain ⟨_, s2, h2, h⟩ := bind_ok_inv h
  obtain ⟨_, s3, h3, h⟩ := bind_ok_inv h
  have F0 : NHF (· = n) s s0 := by rw [hs0]; exact NHF.of_nodes rfl
  have F1 : NHF (· = n) s0 s1 := (PresNH.maybeHandleAfterStabilisation n).h _ _ _ h1
  have F2 : NHF (· = n) s1 s2 := (PresNH.setHeight n (-1)).h _ _ _ h2
  have N2 : NH s s2 := ((F0.trans F1).trans F2).nh (fun m hm => by rw [hm]; exact hn)
  have N3 : NH s2 s3 := ih n s2 s3 h3
  have F4 : NHF (fun _ => False) s3 s' := by
    refine Step.Pres.h ?_ _ _ _ h
    qpres
  exact (N2.trans N3).trans F4.nh0

theorem unlink_nh (fuel : Nat) : BUnh fuel ∧ CUnh fuel ∧ RCnh fuel := by
  induction fuel with
  | zero =>
    refine ⟨?_, ?_, ?_⟩
    · intro n s s' h; unfold Engine.becameUnnecessary at h; cases h
    · intro n s s' h; unfold Engine.checkIfUnnecessary at h; cases h
    · intro n s s' h; unfold Engine.removeChildren at h; cases h
  | succ fuel ih => exact ⟨bu_nh fuel ih.2.2, cu_nh fuel ih.1, rc_nh fuel ih.2.1⟩

theorem NH.checkIfUnnecessary {fuel c : Nat} {s s' : State}
    (h : (checkIfUnnecessary fuel c).run.run s = (.ok (), s')) : NH s s' :=
  (unlink_nh fuel).2.1 c s s' h

end IncrVerif.Proofs.DriverH
