import IncrVerif.Proofs.PerKeyH4
/-!
# Per-key operators over whole histories, part 4: the fragment of histories, contracts of the action/history level

`EnvP env`: the built-in identity function is the identity (true of `Defs.toEnv`).  Every contract of PK3 may assume it.
`PActionOK env s a`: the API actions of the fragment, relative to the state in which the action is executed.
-/
namespace IncrVerif.Proofs.PerKeyH
open IncrVerif.Engine IncrVerif.Driver IncrVerif.Proofs IncrVerif.Proofs.Step IncrVerif.Proofs.Sched
open IncrVerif.Proofs.ExpertH IncrVerif.Proofs.EffH IncrVerif.Proofs.DriverH

/-- the conversion nodes around an operator are identities -/
def EnvP (env : Env) : Prop := ∀ args : List Val, env.fn fnIdent args = args.headD .unit

theorem toEnv_envP (d : Defs) : EnvP d.toEnv := by
  intro args
  simp [Defs.toEnv, fnIdent, fnZip, fnFirst]

/-- the node-creating instructions of the fragment (top level): static instructions over top-level operands, and
`perKey cut fam x` (`cut` absent or the default `.eq`) over a variable holding a map, for a template of the fragment whose outer nodes already exist -/
def PInstrOK (env : Env) (s : State) : Instr → Prop
  | .const _ => True
  | .var v => ∀ m, v = .map m → IncrVerif.AMap.Sorted m
  | .map f args => f < fnZip ∧ (∀ vals, env.fnEff f vals = []) ∧ ∀ a, a ∈ args → QR.OpndOK a
  | .fold f _ cs => f < xBase ∧ ∀ a, a ∈ cs → QR.OpndOK a
  | .zip a b => QR.OpndOK a ∧ QR.OpndOK b
  | .perKey cut fam x => (cut = none ∨ cut = some .eq) ∧ TemplOK env (env.perKey fam) ∧
      (∃ k o c vc m, x = .outer k ∧ s.top[k]? = some o ∧ (s.nodeD o).kind = .var c ∧ s.vars[c]? = some vc ∧
        vc.value = .map m ∧ IncrVerif.AMap.Sorted m ∧
        (∀ w, (s.nodeD o).value = some w → ∃ m2, w = .map m2 ∧ IncrVerif.AMap.Sorted m2 ∧ keysSub m2 m)) ∧
      (∀ k : Nat, k ∈ templOuter (env.perKey fam) → ∃ o, s.top[k]? = some o)
  | _ => False

/-- a write to a variable that holds a map must store a sorted map with at least the same keys (stage 1: no removal) -/
def PWriteOK (s : State) (v : Nat) (new : Val) : Prop :=
  (∀ m', new = .map m' → IncrVerif.AMap.Sorted m') ∧
  ∀ vc m, s.vars[v]? = some vc → vc.value = .map m → ∃ m', new = .map m' ∧ keysSub m m'

def MapVar (s : State) (v : Nat) : Prop := ∃ vc m, s.vars[v]? = some vc ∧ vc.value = .map m

def PActionOK (env : Env) (s : State) : Action → Prop
  | .create i => PInstrOK env s i
  | .observe n => QR.OpndOK n
  | .cloneObs _ | .dropObs _ | .disallow _ => True
  | .set v x => PWriteOK s v x
  | .replace v x => PWriteOK s v x
  | .modify v _ | .update v _ | .replaceWith v _ => ¬ MapVar s v
  | .get _ | .stabilise | .isStable | .stats => True
  | _ => False

/-- every action of a run is an action of the fragment, in the state in which it is executed -/
def RunOKP (env : Env) : List Action → State → Array Nat → Prop
  | [], _, _ => True
  | a :: as, s, tk => PActionOK env s a ∧
      ∀ r s', (stepAction env a tk).run.run s = (.ok r, s') → RunOKP env as s' r.2

/-- every action but `stabilise` keeps the invariant between actions -/
def ActionSpecP (env : Env) : Prop :=
  ∀ (rk : Nat → Nat) (s s' : State) (a : Action) (tk : Array Nat) (r : String × Array Nat),
    PQ env rk s → PActionOK env s a → a ≠ .stabilise →
    (stepAction env a tk).run.run s = (.ok r, s') → ∃ rk', PQ env rk' s'

end IncrVerif.Proofs.PerKeyH
