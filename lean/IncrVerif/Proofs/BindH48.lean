import IncrVerif.Proofs.BindH47
/-!
# Binds, fragment F1, part d: frames — what `All1`, child lists, staleness and the rank read (`BL.KeyEq`), `AboveR`
-/
namespace IncrVerif.Proofs.BindH
open IncrVerif.Engine IncrVerif.Proofs IncrVerif.Proofs.Step IncrVerif.Proofs.Sched IncrVerif.Proofs.Quiet

/-- nodes of higher rank than `n` are untouched (the rank version of `Quiet.Above`) -/
def AboveR (s : State) (n : Nat) (s' : State) : Prop := ∀ m, rkOf s n < rkOf s m → s'.nodeD m = s.nodeD m

namespace BL.KeyEq
variable {env : Env} {s s' : State} {dy : List Nat}

theorem rk (E : BL.KeyEq s s') (m : Nat) : rkOf s' m = rkOf s m := rkOf_congr E.size E.binds E.createdIn m

theorem children1 (E : BL.KeyEq s s') (A : All1 env s dy) (m : Nat) : s'.children m = s.children m := by
  by_cases hm : m < s.nodes.size
  · exact children_congr_B (E.kind m) (E.valid m) E.binds (A.node m hm).kind
  · rw [children_default s m (by omega), children_default s' m (by rw [E.size]; omega)]

theorem isStale1 (E : BL.KeyEq s s') (A : All1 env s dy) (m : Nat) : s'.isStale m = s.isStale m := by
  by_cases hm : m < s.nodes.size
  · exact isStale_congr_B (A.node m hm).kind (E.kind m) (E.valid m) (E.recomputedAt m) E.vars E.binds
      (fun c _ => E.changedAt c)
  · rw [BL.isStale_default s m (by omega), BL.isStale_default s' m (by rw [E.size]; omega)]

theorem frag1 (E : BL.KeyEq s s') (A : All1 env s dy) (hpc : s'.panicCountdown = none)
    (hsc : s'.currentScope = .top) : All1 env s' dy := by
  refine ⟨hpc, hsc, fun n hn => ?_, ?_, ?_, ?_, ?_⟩
  · have sn := A.node n (by rw [← E.size]; exact hn)
    refine ⟨by rw [E.kind]; exact sn.kind, by rw [E.cutoff]; exact sn.cutoff, ?_, ?_, ?_, ?_, ?_, ?_, ?_⟩
    · rw [E.children1 A, E.size]; exact sn.kidsIn
    · intro c hc; rw [E.children1 A] at hc; rw [E.valid]; exact sn.kidsValid c hc
    · rw [E.kind, E.binds]; exact sn.lcRec
    · rw [E.kind, E.binds]; exact sn.mainRec
    · intro c b hc hk
      rw [E.children1 A] at hc
      rw [E.kind] at hk ⊢
      exact sn.lcChild c b hc hk
    · intro h
      rw [E.createdIn] at h
      obtain ⟨h1, h2⟩ := sn.top h
      refine ⟨by rw [E.valid]; exact h1, ?_⟩
      intro c hc
      rw [E.children1 A] at hc
      rw [E.createdIn, E.kind]
      exact h2 c hc
    · intro b h
      rw [E.createdIn] at h
      obtain ⟨h1, h2, br, h3, h4, h5⟩ := sn.inScope b h
      refine ⟨by rw [E.kind]; exact h1, by rw [E.kind]; exact h2, br, by rw [E.binds]; exact h3, h4, ?_⟩
      intro c hc
      rw [E.children1 A] at hc
      rw [E.createdIn]
      exact h5 c hc
  · intro b br hb
    rw [E.binds] at hb
    rw [E.size, E.kind, E.kind, E.createdIn, E.createdIn]
    exact A.recs b br hb
  · intro b br hb m
    rw [E.binds] at hb
    rw [E.size, E.valid, E.createdIn]
    exact A.gen b br hb m
  · intro b br hb
    rw [E.binds] at hb
    exact A.genDy b br hb
  · intro m hm
    rw [E.size, E.createdIn]
    exact A.dyIn m hm

end BL.KeyEq

end IncrVerif.Proofs.BindH
