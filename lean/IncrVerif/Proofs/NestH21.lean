import IncrVerif.Proofs.NestH20
/-!
# Nested binds (F2), the closure run, part 2: the static part `All2` through growth

* `NN.n2_old`: the static facts of an old node through growth (the rank may be extended).
* `NN.all2_core`: `All2` of the grown state from the facts about the new nodes and the new records.
* `NN.all2_reset2`: forgetting the list of registered nodes of bind `b` — the registered nodes become the dying generation (port of `CN.all1_reset`).
* `NN.Ext b br1 s s'`: `s'` is `s` plus pristine nodes of scope `.bind b`, registered there, plus fresh records whose two nodes are new;
  `Ext.all2`: `All2` through such an extension, given `N2` and the rank bounds of the new nodes.
-/
namespace IncrVerif.Proofs.NestH
open IncrVerif.Engine IncrVerif.Proofs IncrVerif.Proofs.Step IncrVerif.Proofs.Sched IncrVerif.Proofs.Quiet
open IncrVerif.Proofs.BindH

namespace NN

theorem lt_of_getElem? {α} {a : Array α} {i : Nat} {x : α} (h : a[i]? = some x) : i < a.size := by
  rcases Nat.lt_or_ge i a.size with h1 | h1
  · exact h1
  · rw [Array.getElem?_eq_none h1] at h; cases h

section old
variable {env : Env} {rk rk' : Nat → Nat} {s s' : State} {dy dy' : List Nat}

/-- the static facts of an old node, through growth -/
theorem n2_old (G : Grow2 s s') (A : All2 env rk s dy) (hRk : RkExt rk rk' s.nodes.size) {n : Nat}
    (hn : n < s.nodes.size)
    (hdy : ∀ b c, (s.nodeD n).createdIn = .bind b → c ∈ s.children n → (s.nodeD c).createdIn = .bind b →
      (c ∈ dy ↔ n ∈ dy) → (c ∈ dy' ↔ n ∈ dy')) : N2 env rk' s' dy' n := by
  have sn := A.node n hn
  have hch := G.children_old A hn
  have hkid : ∀ c, c ∈ s.children n → s'.nodeD c = s.nodeD c := fun c hc => G.old c (sn.kidsIn c hc)
  refine ⟨by rw [G.old n hn]; exact sn.kind, by rw [G.old n hn]; exact sn.cutoff, ?_, ?_, ?_, ?_, ?_, ?_, ?_, ?_⟩
  · intro c hc
    rw [hch] at hc
    have := sn.kidsIn c hc
    have := G.size
    omega
  · intro c hc
    rw [hch] at hc
    rw [hkid c hc]; exact sn.kidsValid c hc
  · intro c hc
    rw [hch] at hc
    exact (hRk c n (sn.kidsIn c hc) hn).2 (sn.kidLt c hc)
  · intro b hk
    rw [G.old n hn] at hk
    obtain ⟨br, hb, e⟩ := sn.lcRec b hk
    obtain ⟨l, hb'⟩ := G.binds b br hb
    exact ⟨_, hb', e⟩
  · intro b lc hk
    rw [G.old n hn] at hk
    obtain ⟨br, hb, e1, e2⟩ := sn.mainRec b lc hk
    obtain ⟨l, hb'⟩ := G.binds b br hb
    exact ⟨_, hb', e1, e2⟩
  · intro c b hc hk
    rw [hch] at hc
    rw [hkid c hc] at hk
    rw [G.old n hn]
    exact sn.lcChild c b hc hk
  · intro h
    rw [G.old n hn] at h ⊢
    obtain ⟨h1, h2⟩ := sn.top h
    refine ⟨h1, ?_⟩
    intro c hc
    rw [hch] at hc
    rw [hkid c hc]
    exact h2 c hc
  · intro b h
    rw [G.old n hn] at h ⊢
    obtain ⟨h1, br, h3, h4, h5⟩ := sn.inScope b h
    obtain ⟨l, hb'⟩ := G.binds b br h3
    refine ⟨h1, _, hb', h4, ?_⟩
    intro c hc
    rw [hch] at hc
    rw [hkid c hc]
    rcases h5 c hc with h6 | ⟨h6, h7⟩ | h6
    · exact Or.inl h6
    · exact Or.inr (Or.inl ⟨h6, hdy b c h hc h6 h7⟩)
    · exact Or.inr (Or.inr h6)

/-- **`All2` of a grown state**, from the facts about the new nodes (`hNewN2`, `hNewV`), the new records (`hBn`), the rank, and the registration facts -/
theorem all2_core (G : Grow2 s s') (A : All2 env rk s dy) (hRk : RkExt rk rk' s.nodes.size)
    (hpc : s'.panicCountdown = none) (hsc : s'.currentScope = .top)
    (hdy : ∀ n b c, n < s.nodes.size → (s.nodeD n).createdIn = .bind b → c ∈ s.children n →
      (s.nodeD c).createdIn = .bind b → (c ∈ dy ↔ n ∈ dy) → (c ∈ dy' ↔ n ∈ dy'))
    (hBn : ∀ (b' : Nat) (br' : BindRec), s.binds.size ≤ b' → s'.binds[b']? = some br' →
      s.nodes.size ≤ br'.lhsChange ∧ br'.main = br'.lhsChange + 1 ∧ br'.main < s'.nodes.size ∧
      (s'.nodeD br'.lhsChange).kind = .bindLhsChange b' ∧ (s'.nodeD br'.main).kind = .bindMain b' br'.lhsChange ∧
      (s'.nodeD br'.main).createdIn = (s'.nodeD br'.lhsChange).createdIn)
    (hNewN2 : ∀ m, s.nodes.size ≤ m → m < s'.nodes.size → N2 env rk' s' dy' m)
    (hNewV : ∀ m, s.nodes.size ≤ m → m < s'.nodes.size → ∀ (b' : Nat) (br' : BindRec),
      (s'.nodeD m).createdIn = .bind b' → s'.binds[b']? = some br' →
      (s'.nodeD br'.lhsChange).valid = true ∧ (s'.nodeD br'.main).valid = true ∧
      rk' br'.lhsChange < rk' m ∧ rk' m < rk' br'.main)
    (hInj : ∀ n m, n < s'.nodes.size → m < s'.nodes.size → rk' n = rk' m → n = m)
    (hgen : ∀ (b : Nat) (br : BindRec), s'.binds[b]? = some br → ∀ m,
      (m ∈ br.allNodesCreatedOnRhs ∨ (m ∈ dy' ∧ (s'.nodeD m).createdIn = .bind b)) ↔
        (m < s'.nodes.size ∧ (s'.nodeD m).valid = true ∧ (s'.nodeD m).createdIn = .bind b))
    (hgenDy : ∀ (b : Nat) (br : BindRec), s'.binds[b]? = some br → ∀ m, m ∈ br.allNodesCreatedOnRhs → m ∉ dy')
    (hdyIn : ∀ m, m ∈ dy' → m < s'.nodes.size ∧ ∃ b, (s'.nodeD m).createdIn = .bind b) :
    All2 env rk' s' dy' := by
  have hsz := G.size
  -- an old record in the new table
  have hrec : ∀ (b' : Nat) (br0 br' : BindRec), s.binds[b']? = some br0 → s'.binds[b']? = some br' →
      br'.lhsChange = br0.lhsChange ∧ br'.main = br0.main ∧ br0.main = br0.lhsChange + 1 ∧ br0.main < s.nodes.size ∧
      s'.nodeD br0.lhsChange = s.nodeD br0.lhsChange ∧ s'.nodeD br0.main = s.nodeD br0.main := by
    intro b' br0 br' hb0 hb'
    obtain ⟨-, -, e3, e4, -⟩ := G.binds.bwd hb0 hb'
    obtain ⟨h1, h2, -⟩ := A.recs b' br0 hb0
    exact ⟨e3, e4, h1, h2, G.old _ (by omega), G.old _ h2⟩
  refine ⟨hpc, hsc, ?_, ?_, hgen, hgenDy, hdyIn, ?_, ?_, ?_, hInj⟩
  · intro n hn
    rcases Nat.lt_or_ge n s.nodes.size with h | h
    · exact n2_old G A hRk h (fun b c => hdy n b c h)
    · exact hNewN2 n h hn
  · intro b' br' hb'
    rcases Nat.lt_or_ge b' s.binds.size with h | h
    · have hb0 : s.binds[b']? = some s.binds[b'] := Array.getElem?_eq_getElem h
      obtain ⟨e3, e4, h1, h2, o1, o2⟩ := hrec b' _ br' hb0 hb'
      obtain ⟨-, -, h3, h4, h5⟩ := A.recs b' _ hb0
      rw [e3, e4, o1, o2]
      exact ⟨h1, by omega, h3, h4, h5⟩
    · obtain ⟨-, h2, h3, h4, h5, h6⟩ := hBn b' br' h hb'
      exact ⟨h2, h3, h4, h5, h6⟩
  · intro n b' br' hn hv hsc' hb'
    rcases Nat.lt_or_ge n s.nodes.size with h | h
    · rw [G.old n h] at hv hsc'
      obtain ⟨br0, hb0, -⟩ := A.scope_bind h hsc'
      obtain ⟨e3, e4, -, -, o1, o2⟩ := hrec b' br0 br' hb0 hb'
      rw [e3, e4, o1, o2]
      exact A.scopeValid n b' br0 h hv hsc' hb0
    · obtain ⟨h1, h2, -⟩ := hNewV n h hn b' br' hsc' hb'
      exact ⟨h1, h2⟩
  · intro b' br' hb'
    rcases Nat.lt_or_ge b' s.binds.size with h | h
    · have hb0 : s.binds[b']? = some s.binds[b'] := Array.getElem?_eq_getElem h
      obtain ⟨e3, e4, -, -, o1, o2⟩ := hrec b' _ br' hb0 hb'
      rw [e3, e4, o1, o2]
      exact A.recValid b' _ hb0
    · obtain ⟨h1, h2, h3, -⟩ := hBn b' br' h hb'
      rw [(G.new br'.lhsChange h1 (by omega)).1, (G.new br'.main (by omega) h3).1]
  · intro n b' br' hn hsc' hb'
    rcases Nat.lt_or_ge n s.nodes.size with h | h
    · rw [G.old n h] at hsc'
      obtain ⟨br0, hb0, -⟩ := A.scope_bind h hsc'
      obtain ⟨e3, e4, h1, h2, -, -⟩ := hrec b' br0 br' hb0 hb'
      rw [e3, e4]
      obtain ⟨r1, r2⟩ := A.scopeRk n b' br0 h hsc' hb0
      exact ⟨(hRk _ _ (by omega) h).2 r1, (hRk _ _ h h2).2 r2⟩
    · obtain ⟨-, -, h3, h4⟩ := hNewV n h hn b' br' hsc' hb'
      exact ⟨h3, h4⟩

end old

/-! ## forgetting the list of registered nodes -/

section reset
variable {env : Env} {rk : Nat → Nat} {s s' : State}

/-- **the reset**: the registered nodes of bind `b` become the dying generation -/
theorem all2_reset2 (A : All2 env rk s []) {b : Nat} {br : BindRec} (hb : s.binds[b]? = some br)
    (G : Grow2 s s') (hsz : s'.nodes.size = s.nodes.size)
    (hbs : s'.binds = s.binds.modify b fun x => { x with allNodesCreatedOnRhs := [] })
    (hpc : s'.panicCountdown = none) (hsc : s'.currentScope = .top) :
    All2 env rk s' br.allNodesCreatedOnRhs := by
  have hD : ∀ m, s'.nodeD m = s.nodeD m := by
    intro m
    rcases Nat.lt_or_ge m s.nodes.size with h | h
    · exact G.old m h
    · rw [nodeD_default s m h, nodeD_default s' m (by omega)]
  -- membership in the list of bind `b`
  have hmem : ∀ m, m ∈ br.allNodesCreatedOnRhs ↔
      (m < s.nodes.size ∧ (s.nodeD m).valid = true ∧ (s.nodeD m).createdIn = .bind b) := by
    intro m
    rw [← A.gen b br hb m]
    constructor
    · exact Or.inl
    · rintro (h | ⟨h, -⟩)
      · exact h
      · cases h
  have hbb : s'.binds[b]? = some { br with allNodesCreatedOnRhs := [] } := by
    rw [hbs, Array.getElem?_modify, if_pos rfl, hb]; rfl
  have hbo : ∀ b', b' ≠ b → s'.binds[b']? = s.binds[b']? := by
    intro b' hne
    rw [hbs, Array.getElem?_modify, if_neg (fun e => hne e.symm)]
  have hbsz : s'.binds.size = s.binds.size := by rw [hbs, Array.size_modify]
  refine all2_core G A (RkExt.refl rk _) hpc hsc ?_ ?_ ?_ ?_ ?_ ?_ ?_ ?_
  · intro n b' c hn hnb hc hcb _
    have sn := A.node n hn
    have hnv : (s.nodeD n).valid = true := by
      cases hv : (s.nodeD n).valid with
      | true => rfl
      | false => rw [children_of_invalid hv] at hc; cases hc
    rw [hmem, hmem]
    constructor
    · rintro ⟨-, -, h⟩
      rw [hcb] at h
      exact ⟨hn, hnv, by rw [hnb]; exact h⟩
    · rintro ⟨-, -, h⟩
      rw [hnb] at h
      exact ⟨sn.kidsIn c hc, sn.kidsValid c hc, by rw [hcb]; exact h⟩
  · intro b' br' h hb'
    have := lt_of_getElem? hb'
    omega
  · intro m h1 h2; omega
  · intro m h1 h2; omega
  · intro n m hn hm
    rw [hsz] at hn hm
    exact A.rkInj n m hn hm
  · intro b' br' hb' m
    rw [hD m, hsz]
    by_cases e : b' = b
    · subst e
      rw [hbb] at hb'
      cases hb'
      constructor
      · rintro (h | ⟨h, -⟩)
        · cases h
        · exact (hmem m).1 h
      · intro h
        exact Or.inr ⟨(hmem m).2 h, h.2.2⟩
    · rw [hbo b' e] at hb'
      rw [← A.gen b' br' hb' m]
      constructor
      · rintro (h | ⟨h1, h2⟩)
        · exact Or.inl h
        · have := ((hmem m).1 h1).2.2
          rw [this] at h2
          injection h2 with h2
          exact absurd h2.symm e
      · rintro (h | ⟨h, -⟩)
        · exact Or.inl h
        · cases h
  · intro b' br' hb' m hm hmd
    by_cases e : b' = b
    · subst e
      rw [hbb] at hb'
      cases hb'
      cases hm
    · rw [hbo b' e] at hb'
      have h1 := ((A.gen b' br' hb' m).1 (Or.inl hm)).2.2
      have h2 := ((hmem m).1 hmd).2.2
      rw [h1] at h2
      injection h2 with h2
      exact e h2
  · intro m hm
    rw [hD m, hsz]
    obtain ⟨h1, -, h2⟩ := (hmem m).1 hm
    exact ⟨h1, b, h2⟩

end reset

/-! ## extensions: new nodes in scope `.bind b`, new records -/

/-- `s'` is `s` plus pristine nodes created in scope `.bind b` and registered there (`br1`: the record of `b` in `s`), plus fresh records whose two nodes are new -/
structure Ext (b : Nat) (br1 : BindRec) (s s' : State) : Prop where
  size : s.nodes.size ≤ s'.nodes.size
  old : ∀ m, m < s.nodes.size → s'.nodeD m = s.nodeD m
  new : ∀ m, s.nodes.size ≤ m → m < s'.nodes.size →
    (s'.nodeD m).createdIn = .bind b ∧ (s'.nodeD m).valid = true ∧ (s'.nodeD m).recomputedAt = -1 ∧
    (s'.nodeD m).changedAt = -1 ∧ (s'.nodeD m).value = none ∧ (s'.nodeD m).parents = [] ∧
    (s'.nodeD m).observers = [] ∧ (s'.nodeD m).forceNecessary = false ∧ (s'.nodeD m).heightInRch = -1 ∧
    (s'.nodeD m).heightInAhh = -1 ∧ (s'.nodeD m).numOnUpdateHandlers = 0
  bindB : ∃ l, s'.binds[b]? = some { br1 with allNodesCreatedOnRhs := l } ∧
    ∀ m, m ∈ l ↔ (m ∈ br1.allNodesCreatedOnRhs ∨ (s.nodes.size ≤ m ∧ m < s'.nodes.size))
  bindsGrow : s.binds.size ≤ s'.binds.size
  bindsOther : ∀ b', b' ≠ b → b' < s.binds.size → s'.binds[b']? = s.binds[b']?
  bindsNew : ∀ (b' : Nat) (br' : BindRec), s.binds.size ≤ b' → s'.binds[b']? = some br' →
    br'.rhs = none ∧ br'.allNodesCreatedOnRhs = [] ∧
    s.nodes.size ≤ br'.lhsChange ∧ br'.main = br'.lhsChange + 1 ∧ br'.main < s'.nodes.size ∧
    (s'.nodeD br'.lhsChange).kind = .bindLhsChange b' ∧ (s'.nodeD br'.main).kind = .bindMain b' br'.lhsChange
  vars : s'.vars = s.vars
  stabNum : s'.stabNum = s.stabNum
  status : s'.status = s.status
  cfg : s'.cfg = s.cfg
  scope : s'.currentScope = s.currentScope
  pc : s'.panicCountdown = s.panicCountdown
  rch : s'.rch = s.rch
  ahh : s'.ahh = s.ahh
  top : s'.top = s.top
  pinv : s'.propagateInvalidity = s.propagateInvalidity

namespace Ext
variable {env : Env} {rk rk' : Nat → Nat} {b : Nat} {br1 : BindRec} {s s' : State} {dy : List Nat}

theorem grow2 (C : Ext b br1 s s') (hb : s.binds[b]? = some br1) : Grow2 s s' where
  size := C.size
  old := C.old
  new m h1 h2 := by
    obtain ⟨-, h, -, -, -, h5, h6, h7, h8, h9, -⟩ := C.new m h1 h2
    exact ⟨h, h5, h6, h7, h8, h9⟩
  binds b' br' hb' := by
    by_cases e : b' = b
    · subst e
      rw [hb] at hb'; cases hb'
      obtain ⟨l, hl, -⟩ := C.bindB
      exact ⟨l, hl⟩
    · rw [C.bindsOther b' e (lt_of_getElem? hb'), hb']
      exact ⟨br'.allNodesCreatedOnRhs, rfl⟩
  vars := C.vars
  rch := C.rch
  ahh := C.ahh

/-- **`All2` through an extension** -/
theorem all2 (C : Ext b br1 s s') (A : All2 env rk s dy) (hb : s.binds[b]? = some br1)
    (hRk : RkExt rk rk' s.nodes.size)
    (hv : (s.nodeD br1.lhsChange).valid = true)
    (hNewN2 : ∀ m, s.nodes.size ≤ m → m < s'.nodes.size → N2 env rk' s' dy m)
    (hNewRk : ∀ m, s.nodes.size ≤ m → m < s'.nodes.size → rk' br1.lhsChange < rk' m ∧ rk' m < rk' br1.main)
    (hInj : ∀ n m, n < s'.nodes.size → m < s'.nodes.size → rk' n = rk' m → n = m) :
    All2 env rk' s' dy := by
  have G := C.grow2 hb
  have hbl := lt_of_getElem? hb
  obtain ⟨l, hbb, hl⟩ := C.bindB
  obtain ⟨r1, r2, -⟩ := A.recs b br1 hb
  have hvm : (s.nodeD br1.main).valid = true := by rw [A.recValid b br1 hb]; exact hv
  have hnew : ∀ m, s.nodes.size ≤ m → m < s'.nodes.size →
      (s'.nodeD m).createdIn = .bind b ∧ (s'.nodeD m).valid = true := by
    intro m h1 h2
    obtain ⟨h3, h4, -⟩ := C.new m h1 h2
    exact ⟨h3, h4⟩
  have hdyOld : ∀ m, m ∈ dy → m < s.nodes.size := fun m hm => (A.dyIn m hm).1
  refine all2_core G A hRk (by rw [C.pc]; exact A.pc) (by rw [C.scope]; exact A.scope) (fun _ _ _ _ _ _ _ h => h)
    ?_ hNewN2 ?_ hInj ?_ ?_ ?_
  · intro b' br' h hb'
    obtain ⟨-, -, h3, h4, h5, h6, h7⟩ := C.bindsNew b' br' h hb'
    refine ⟨h3, h4, h5, h6, h7, ?_⟩
    rw [(hnew br'.lhsChange h3 (by omega)).1, (hnew br'.main (by omega) h5).1]
  · intro m h1 h2 b' br' hsc hb'
    rw [(hnew m h1 h2).1] at hsc
    injection hsc with hsc
    subst hsc
    rw [hbb] at hb'
    cases hb'
    show (s'.nodeD br1.lhsChange).valid = true ∧ (s'.nodeD br1.main).valid = true ∧ _
    rw [C.old br1.lhsChange (by omega), C.old br1.main r2]
    exact ⟨hv, hvm, hNewRk m h1 h2⟩
  · intro b' br' hb' m
    by_cases e : b' = b
    · subst e
      rw [hbb] at hb'
      cases hb'
      show (m ∈ l ∨ _) ↔ _
      rw [hl m]
      rcases Nat.lt_or_ge m s.nodes.size with h | h
      · have e1 : ∀ P : Prop, (m < s'.nodes.size ∧ P) ↔ (m < s.nodes.size ∧ P) :=
          fun P => ⟨fun x => ⟨h, x.2⟩, fun x => ⟨by have := C.size; omega, x.2⟩⟩
        rw [C.old m h, e1, ← A.gen b' br1 hb m]
        constructor
        · rintro ((h1 | h1) | h1)
          · exact Or.inl h1
          · omega
          · exact Or.inr h1
        · rintro (h1 | h1)
          · exact Or.inl (Or.inl h1)
          · exact Or.inr h1
      · constructor
        · rintro ((h1 | h1) | ⟨h1, -⟩)
          · have := ((A.gen b' br1 hb m).1 (Or.inl h1)).1
            omega
          · exact ⟨h1.2, (hnew m h h1.2).2, (hnew m h h1.2).1⟩
          · have := hdyOld m h1
            omega
        · rintro ⟨h1, -, -⟩
          exact Or.inl (Or.inr ⟨h, h1⟩)
    · rcases Nat.lt_or_ge b' s.binds.size with hlt | hge
      · rw [C.bindsOther b' e hlt] at hb'
        rcases Nat.lt_or_ge m s.nodes.size with h | h
        · have e1 : ∀ P : Prop, (m < s'.nodes.size ∧ P) ↔ (m < s.nodes.size ∧ P) :=
            fun P => ⟨fun x => ⟨h, x.2⟩, fun x => ⟨by have := C.size; omega, x.2⟩⟩
          rw [C.old m h, e1, ← A.gen b' br' hb' m]
        · constructor
          · rintro (h1 | ⟨h1, -⟩)
            · have := ((A.gen b' br' hb' m).1 (Or.inl h1)).1
              omega
            · have := hdyOld m h1
              omega
          · rintro ⟨h1, -, h3⟩
            rw [(hnew m h h1).1] at h3
            injection h3 with h3
            exact absurd h3.symm e
      · obtain ⟨-, hnil, -⟩ := C.bindsNew b' br' hge hb'
        rw [hnil]
        -- no node is of the scope of a new record
        have hno : ¬ (m < s'.nodes.size ∧ (s'.nodeD m).createdIn = .bind b') := by
          rintro ⟨h1, h2⟩
          rcases Nat.lt_or_ge m s.nodes.size with h | h
          · rw [C.old m h] at h2
            obtain ⟨br0, hb0, -⟩ := A.scope_bind h h2
            have := lt_of_getElem? hb0
            omega
          · rw [(hnew m h h1).1] at h2
            injection h2 with h2
            omega
        constructor
        · rintro (h1 | ⟨h1, h2⟩)
          · cases h1
          · exact absurd ⟨by have := hdyOld m h1; have := C.size; omega, h2⟩ hno
        · rintro ⟨h1, -, h3⟩
          exact absurd ⟨h1, h3⟩ hno
  · intro b' br' hb' m hm
    by_cases e : b' = b
    · subst e
      rw [hbb] at hb'
      cases hb'
      rcases (hl m).1 hm with h | h
      · exact A.genDy b' br1 hb m h
      · intro hd
        have := hdyOld m hd
        omega
    · rcases Nat.lt_or_ge b' s.binds.size with hlt | hge
      · rw [C.bindsOther b' e hlt] at hb'
        exact A.genDy b' br' hb' m hm
      · obtain ⟨-, hnil, -⟩ := C.bindsNew b' br' hge hb'
        rw [hnil] at hm
        cases hm
  · intro m hm
    obtain ⟨h1, h2⟩ := A.dyIn m hm
    rw [C.old m h1]
    exact ⟨by have := C.size; omega, h2⟩

/-- **`GInv2` through an extension** -/
theorem ginv2 {ex : Nat → Prop} (C : Ext b br1 s s') (I : GInv2 env rk s allClosed ex dy) (hb : s.binds[b]? = some br1)
    (hRk : RkExt rk rk' s.nodes.size)
    (hv : (s.nodeD br1.lhsChange).valid = true)
    (hNewN2 : ∀ m, s.nodes.size ≤ m → m < s'.nodes.size → N2 env rk' s' dy m)
    (hNewRk : ∀ m, s.nodes.size ≤ m → m < s'.nodes.size → rk' br1.lhsChange < rk' m ∧ rk' m < rk' br1.main)
    (hInj : ∀ n m, n < s'.nodes.size → m < s'.nodes.size → rk' n = rk' m → n = m) :
    GInv2 env rk' s' allClosed ex dy :=
  (C.grow2 hb).ginv2 I (C.all2 I.frag hb hRk hv hNewN2 hNewRk hInj)

end Ext

end NN

end IncrVerif.Proofs.NestH
