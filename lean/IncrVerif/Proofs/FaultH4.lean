import IncrVerif.Proofs.FaultH3
import IncrVerif.Proofs.Poison
/-!
# Faults in whole histories, part 3: the phases of `stabilise` are in lockstep

`recomputeOne` of a static node, the direct-recompute chain, the heap drain, the propagation phase, the first part of
`stabilise_end` (no invocation at all) and the handler loop with effect-free handlers.
-/
namespace IncrVerif.Proofs.FaultH
open IncrVerif.Engine IncrVerif.Proofs IncrVerif.Proofs.Step IncrVerif.Proofs.Sched
open IncrVerif.Proofs.SubsH (PureHandlers)

variable {env : Env}

/-- the log entry of a node function or fold pass -/
abbrev IsInv (e : Event) : Prop := ∃ w n a r, e = .inv w n a r
/-- the log entry of an update-handler call -/
abbrev IsNotif (e : Event) : Prop := ∃ t u, e = .notif t u

theorem value_setCd (env' : Env) (c : Option Nat) (s : State) (n : Nat) :
    (setCd c s).value env' n = s.value env' n :=
  value_congr env' s (setCd c s) rfl (fun _ => rfl) n

theorem nodeUpdate_setCd (env' : Env) (c : Option Nat) (s : State) (n : Nat) :
    (setCd c s).nodeUpdate env' n = s.nodeUpdate env' n := by
  unfold State.nodeUpdate
  rw [value_setCd]
  rfl
macro_rules | `(tactic| csim_get) => `(tactic| (simp only [nodeUpdate_setCd, value_setCd]; done))

theorem Comm.valueUnwrap (env' : Env) (n : Nat) (site : String) : Comm env (Engine.valueUnwrap env' n site) := by
  intro c s hn r s' h
  rw [run_valueUnwrap] at h ⊢
  rw [value_setCd]
  cases hv : s.value env' n <;> rw [hv] at h <;> cases h <;> exact ⟨rfl, hn, rfl⟩
macro_rules | `(tactic| csim_leaf) => `(tactic| with_reducible exact Comm.valueUnwrap _ _ _)

theorem Comm.mapM_valueUnwrap (env' : Env) (site : String) (l : List Nat) :
    Comm env (l.mapM fun a => Engine.valueUnwrap env' a site) :=
  Comm.mapM (fun a => Comm.valueUnwrap env' a site) l
macro_rules | `(tactic| csim_leaf) => `(tactic| with_reducible exact Comm.mapM_valueUnwrap _ _ _)

/-! ## one recomputation -/

theorem Lock.recomputeOne (fuel n : Nat) : Lock env IsInv (Engine.recomputeOne env fuel n) := by
  intro s
  unfold Engine.recomputeOne
  lsim
  all_goals
    rcases hk : nd.kind? with _ | k
    · dsimp only; lsim
    · have hkk := kind_of_kind? hk
      rw [hkk] at hsk
      cases k <;> dsimp only
      case const v => lsim
      case var c => lsim
      case map f args =>
        refine LockAt.seq (LockAt.of_comm fun c => Comm.mapM_valueUnwrap env _ args c _) fun vals s1 _ => ?_
        refine LockAt.cond (fun hf => ?_) (fun hf => ?_)
        · rw [hsk.2 hf vals, runEffects_nil]; simp only [pure_bind]; lsim
        · rw [if_neg (Nat.not_le.2 hsk.1)]; lsim
      case fold f init cs => lsim
      all_goals exact hsk.elim
macro_rules | `(tactic| lsim_leaf) => `(tactic| with_reducible exact Lock.recomputeOne _ _)

theorem Lock.recompute : ∀ (fuel n : Nat), Lock env IsInv (Engine.recompute env fuel n) := by
  intro fuel
  induction fuel with
  | zero => intro n s; unfold Engine.recompute; exact LockAt.thr _
  | succ fuel ih =>
    intro n s
    unfold Engine.recompute
    refine LockAt.seq (Lock.recomputeOne fuel n s) fun r s1 _ => ?_
    cases r with
    | none => exact LockAt.ret _
    | some p => exact ih p s1
macro_rules | `(tactic| lsim_leaf) => `(tactic| with_reducible exact Lock.recompute _ _)

theorem Lock.drainHeap : ∀ (fuel : Nat), Lock env IsInv (Engine.drainHeap env fuel) := by
  intro fuel
  induction fuel with
  | zero => intro s; unfold Engine.drainHeap; exact LockAt.thr _
  | succ fuel ih =>
    intro s
    unfold Engine.drainHeap
    refine LockAt.seq (LockAt.of_comm fun c => Comm.rchRemoveMin c s) fun r s1 _ => ?_
    cases r with
    | none => exact LockAt.ret _
    | some n => exact LockAt.seq (Lock.recompute fuel n s1) fun _ s2 _ => ih s2
macro_rules | `(tactic| lsim_leaf) => `(tactic| with_reducible exact Lock.drainHeap _)

theorem Lock.propagate (fuel : Nat) : Lock env IsInv (Poison.propagate env fuel) := by
  intro s
  unfold Poison.propagate
  lsim

/-! ## `stabilise_end` before the handlers: no invocation -/

theorem Comm.stabiliseEndPrepare : Comm env (Poison.stabiliseEndPrepare env) := by
  intro c s
  unfold Poison.stabiliseEndPrepare
  csim
  all_goals (split <;> csim)

/-! ## the handlers -/

theorem Lock.runAll (heff : PureHandlers env) (fuel o n : Nat) (nu : NodeUpdate) (now : Int) :
    Lock env IsNotif (Engine.runAll env fuel o n nu now) := by
  intro s
  unfold Engine.runAll
  lsim
  split <;> (try (lsim; done))
  refine LockAt.cond (fun _ => ?_) (fun _ => LockAt.ret _)
  split
  · lsim
  · simp only [heff _ _, runEffects_nil]
    rename_i d _
    cases d <;> dsimp only <;> lsim

theorem Lock.runHandlers (heff : PureHandlers env) (fuel : Nat) (q : List (Nat × NodeUpdate)) :
    Lock env IsNotif (Poison.runHandlers env fuel q) := by
  intro s
  unfold Poison.runHandlers
  lsim
  exact Lock.runAll heff _ _ _ _ _ _

end IncrVerif.Proofs.FaultH
