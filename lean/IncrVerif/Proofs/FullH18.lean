import IncrVerif.Proofs.FullH17
import IncrVerif.Proofs.BindH11
import IncrVerif.Proofs.MapRef9
/-!
# C01 full fragment: the `didChange` invariant through the recompute step of a node that is neither a map_ref, nor a map_with_old,
nor a change-detector node (`const`, `var`, `map`, `fold`, `bindMain`): SAME ghost
-/
namespace IncrVerif.Proofs.FullH
open IncrVerif.Engine IncrVerif.Proofs IncrVerif.Proofs.Step IncrVerif.Proofs.Sched IncrVerif.Proofs.Quiet
open IncrVerif.Proofs.MapRefH (ValFrame)
open IncrVerif.Proofs.BindH (DInv BGraph Below Edge)

section
variable {env : Env} {sp : Nat → Val → Val} {g : Nat → Option Val} {s : State}

theorem kind?_of_valid {n : Nat} (hv : (s.nodeD n).valid = true) : (s.nodeD n).kind? = some (s.nodeD n).kind := by
  simp [Node.kind?, hv]

/-- the virtual stored values of the arguments are the values read -/
theorem plainVals_virt_of_settled (l : List Nat) (h : ∀ a, a ∈ l → tv g s a = s.value env a) :
    plainVals (virt g s) l = valuesOf env s l := by
  rw [virt_plainVals, valuesOf_eq_evalArgs]
  exact evalArgs_congr _ _ _ h

/-- a valid node of the fragment that is neither a map_ref, nor a map_with_old, nor a change-detector node, whose children are settled and have
values: its successful step is a `maybe_change_value` of the value of its defining expression IN THE VIRTUAL STATE -/
theorem recomputeOne_as_mcv {fuel n : Nat} {r : Option Nat} {s' : State} (F : FFrag env sp g s)
    (gr : BGraph (VE env sp) (virt g s)) (hn : n < s.nodes.size) (hv : (s.nodeD n).valid = true)
    (hk1 : ∀ p i, (s.nodeD n).kind ≠ .mapRef p i) (hk2 : ∀ m i, (s.nodeD n).kind ≠ .mapWithOld m i)
    (hk3 : ∀ b, (s.nodeD n).kind ≠ .bindLhsChange b)
    (hkids : ∀ a, a ∈ s.children n → tv g s a = s.value env a ∧ (s.value env a).isSome = true)
    (h : (recomputeOne env fuel n).run.run s = (.ok r, s')) :
    ∃ v es, BindH.TargetB (VE env sp) (virt g s) n v ∧ (recomputeOne env fuel n).run.run s =
      (maybeChangeValue env fuel n v).run.run (logged es (started n s)) := by
  have hnn := some_of_lt hn
  have hR := F.fr.kinds n hn
  have hnv : n < (virt g s).nodes.size := by rw [virt_size]; exact hn
  have hvv : ((virt g s).nodeD n).valid = true := by rw [virt_nodeD, virtNode_valid]; exact hv
  have hk? := kind?_of_valid hv
  have hkv : ((virt g s).nodeD n).kind = virtKind (s.nodeD n).kind := by rw [virt_nodeD, virtNode_kind]
  cases hkd : (s.nodeD n).kind with
  | const w =>
    rw [hkd] at hkv
    exact ⟨w, [], by simp only [BindH.TargetB, Target, hkv, virtKind], recomputeOne_const_run env fuel n s _ w hnn hv hkd⟩
  | var c =>
    rw [hkd] at hkv
    obtain ⟨vc, hvc⟩ := gr.var n c hnv hvv hkv
    refine ⟨vc.value, [], ?_, recomputeOne_var_run env fuel n s _ c vc hnn hv hkd hvc⟩
    simp only [BindH.TargetB, Target, hkv, virtKind]; exact ⟨vc, hvc, rfl⟩
  | map f args =>
    rw [hkd] at hR hkv
    have hch : s.children n = args := by unfold State.children; rw [hk?, hkd]
    rw [hch] at hkids
    obtain ⟨vals, hvals⟩ := MapRefH.valuesOf_of_isSome env s args (fun a ha => (hkids a ha).2)
    have hpv : plainVals (virt g s) args = some vals := by
      rw [plainVals_virt_of_settled args (fun a ha => (hkids a ha).1)]; exact hvals
    have ht : BindH.TargetB (VE env sp) (virt g s) n (env.fn f vals) := by
      simp only [BindH.TargetB, Target, hkv, virtKind]
      exact ⟨vals, hpv, (virtEnv_fn_real env sp hR.1 vals).symm⟩
    by_cases hf : f < fnZip
    · exact ⟨_, _, ht, recomputeOne_map_run env fuel n s _ f args vals hnn hv hkd hf hvals (hR.2 hf vals) F.pc⟩
    · refine ⟨_, [], ht, recomputeOne_mapBuiltin_run env fuel n s _ f args vals hnn hv hkd hf ?_ hvals⟩
      have := hR.1; unfold pBase at this; unfold fnPerKey; omega
  | fold f init cs =>
    rw [hkd] at hkv
    have hch : s.children n = cs := by unfold State.children; rw [hk?, hkd]
    rw [hch] at hkids
    obtain ⟨vals, hvals⟩ := MapRefH.valuesOf_of_isSome env s cs (fun a ha => (hkids a ha).2)
    have hpv : plainVals (virt g s) cs = some vals := by
      rw [plainVals_virt_of_settled cs (fun a ha => (hkids a ha).1)]; exact hvals
    refine ⟨_, _, ?_, recomputeOne_fold_run env fuel n s _ f init cs vals hnn hv hkd hvals F.pc⟩
    simp only [BindH.TargetB, Target, hkv, virtKind]
    exact ⟨vals, hpv, rfl⟩
  | mapRef p i => exact absurd hkd (hk1 p i)
  | mapWithOld m i => exact absurd hkd (hk2 m i)
  | bindLhsChange b => exact absurd hkd (hk3 b)
  | bindMain b lc =>
    rw [hkd] at hkv
    obtain ⟨br, hbr, -, -, -⟩ := gr.mainRec n b lc hnv hvv hkv
    have hbr' : s.binds[b]? = some br := hbr
    cases hr : br.rhs with
    | none =>
      obtain ⟨e, t, he⟩ := BindH.BS.recomputeOne_bindMain_norhs env fuel n s _ b lc br hnn hv hkd hbr' hr
      rw [he] at h; cases h
    | some r0 =>
      have hch : s.children n = [lc, r0] := by
        simp only [State.children, hk?, hkd, hbr', hr]
      have hmem : r0 ∈ s.children n := by rw [hch]; simp
      obtain ⟨hrlt, hrv⟩ := (gr.node n hnv hvv).2.2 r0 (by rw [virt_children]; exact hmem)
      rw [virt_size] at hrlt
      rw [virt_nodeD, virtNode_valid] at hrv
      obtain ⟨hset, hsome⟩ := hkids r0 hmem
      cases hval : s.value env r0 with
      | none => rw [hval] at hsome; cases hsome
      | some v =>
        refine ⟨v, [], ?_, recomputeOne_bindMain_run env fuel n s _ b lc r0 br _ v hnn hv hkd hbr' hr (some_of_lt hrlt) hrv hval⟩
        simp only [BindH.TargetB, hkv, virtKind]
        exact ⟨br, r0, hbr, hr, by rw [← hval, ← hset]; rfl⟩
  | expert e => exact absurd hkd (F.fr.noExp n e)

/-- **the `didChange` invariant through the step of a node that is neither a map_ref, nor a map_with_old, nor a change-detector node**
(`const`, `var`, `map`, `fold`, `bindMain`) whose ACTUAL cutoff is `.eq` or `.never`: the same ghost; the fragment is kept as well -/
theorem static_keepsK' {t : State} {n fuel : Nat} {r : Option Nat} {s' : State}
    (D : DInvF env sp t s g (some n))
    (hk1 : ∀ p i, (s.nodeD n).kind ≠ .mapRef p i) (hk2 : ∀ m i, (s.nodeD n).kind ≠ .mapWithOld m i)
    (hk3 : ∀ b, (s.nodeD n).kind ≠ .bindLhsChange b)
    (hcut : (s.nodeD n).cutoff = .eq ∨ (s.nodeD n).cutoff = .never)
    (h : (recomputeOne env fuel n).run.run s = (.ok r, s')) : KInv env g s' ∧ FFrag env sp g s' := by
  have gr := D.inv.graph
  obtain ⟨hnv, -⟩ := D.inv.cur n rfl
  have hlt : n < s.nodes.size := by have := gr.nec_lt hnv; rw [virt_size] at this; exact this
  have hvv := (gr.nec n hnv).1
  have hv : (s.nodeD n).valid = true := by rw [virt_nodeD, virtNode_valid] at hvv; exact hvv
  obtain ⟨v, es, -, hrun⟩ := recomputeOne_as_mcv (fuel := fuel) D.frag gr hlt hv hk1 hk2 hk3 (kids_settled D) h
  rw [hrun] at h
  have hv0 : ((logged es (started n s)).nodeD n).value = (s.nodeD n).value := by
    show ((started n s).nodeD n).value = _
    rw [started_nodeD]; split <;> rfl
  exact mcv_keepsK D.frag gr D.k hlt hk1 hcut ((ValFrame.started n s).logged es) hv0 h

theorem static_keepsK {env : Env} {sp : Nat → Val → Val} {t s : State} {g : Nat → Option Val} {n fuel : Nat} {r : Option Nat}
    {s' : State} (D : DInvF env sp t s g (some n))
    (hk1 : ∀ p i, (s.nodeD n).kind ≠ .mapRef p i) (hk2 : ∀ m i, (s.nodeD n).kind ≠ .mapWithOld m i)
    (hk3 : ∀ b, (s.nodeD n).kind ≠ .bindLhsChange b)
    (hcut : (s.nodeD n).cutoff = .eq ∨ (s.nodeD n).cutoff = .never)
    (h : (recomputeOne env fuel n).run.run s = (.ok r, s')) : KInv env g s' :=
  (static_keepsK' D hk1 hk2 hk3 hcut h).1

end
end IncrVerif.Proofs.FullH
