import IncrVerif.Proofs.NestH9
/-!
# Nested binds (F2), linking cascade, part 3: specs, scope lemmas, `addParentWithoutAdjustingHeights` step

Port of `BindH51` (`CL3`) to `GInv2`.  Hypotheses of the specs as in F1: `hnu` (no node is unlinking), `HF` (a forced node of a
scope: the scope's change detector is necessary and closed) and, for `becameNecessary n` only, `hlc` (if `n` is the change
detector of a bind, the edge from the bind's main node to its right-hand side is not wanted).
New in F2: the main node of a bind need not be valid (dead inner binds) — `GInv2.main_children` gets its validity from
`All2.scopeValid` (a necessary node of the scope is valid) or from the open parent.
-/
namespace IncrVerif.Proofs.NestH
open IncrVerif.Engine IncrVerif.Proofs IncrVerif.Proofs.Step IncrVerif.Proofs.Sched IncrVerif.Proofs.Quiet
open IncrVerif.Proofs.BindH

namespace NL
open BL CL

def BNSpec2 (env : Env) (fuel : Nat) : Prop :=
  ∀ (rk : Nat → Nat) n s s' op (ex : Nat → Prop) (dy : List Nat),
    (becameNecessary env fuel n).run.run s = (.ok (), s') → GInv2 env rk s op ex dy →
    op n = .linking 0 → (s.nodeD n).inRch = false → (∀ m, op m ≠ .closed → rk n ≤ rk m) →
    (∀ p i, (p, i) ∈ (s.nodeD n).parents → op p ≠ .closed) →
    (∀ m k, op m ≠ .unlinking k) → HF s op →
    (∀ (b : Nat) (br : BindRec), s.binds[b]? = some br → br.lhsChange = n → ¬ Wants s op br.main 1) →
    GInv2 env rk s' (upd op n .closed) ex dy ∧ AboveR2 rk s n s' ∧ LRel (· = n) s s'

def APSpec2 (env : Env) (fuel : Nat) : Prop :=
  ∀ (rk : Nat → Nat) c idx p s s' op (ex : Nat → Prop) (dy : List Nat),
    (addParentWithoutAdjustingHeights env fuel c idx p).run.run s = (.ok (), s') →
    GInv2 env rk s op ex dy → op p = .linking idx → (s.children p)[idx]? = some c →
    (∀ m, op m ≠ .closed → rk c < rk m) →
    (∀ m k, op m ≠ .unlinking k) → HF s op →
    GInv2 env rk s' (upd op p (.linking (idx + 1))) ex dy ∧ AboveR2 rk s c s' ∧ LRel (fun _ => False) s s' ∧
      s'.isNecessary c = true

/-! ## scope lemmas -/

section
variable {env : Env} {rk : Nat → Nat} {s s' : State} {op : Nat → Op} {ex : Nat → Prop} {dy : List Nat}

/-- the whole scope of bind `b` -/
theorem scope_all_no_parents2 (I : GInv2 env rk s op ex dy) (hnu : ∀ m k, op m ≠ .unlinking k) {b : Nat}
    {br : BindRec} (hb : s.binds[b]? = some br) (hw : ¬ Wants s op br.main 1)
    (hnf : ∀ m, (s.nodeD m).createdIn = .bind b → (s.nodeD m).forceNecessary = false) :
    ∀ m, (s.nodeD m).createdIn = .bind b → s.isNecessary m = false := by
  intro m hsc
  cases hnec : s.isNecessary m with
  | false => rfl
  | true =>
    exfalso
    have hm := nec_lt_size hnec
    have hp := I.scope_no_parents hb (fun m => m < s.nodes.size ∧ (s.nodeD m).createdIn = .bind b)
      (fun m h => h) (fun p m hp hm _ => ⟨lt_size_of_mem_children hm, hp⟩) (fun _ _ _ => hw) hnu
      (fun m h => hnf m h.2) m ⟨hm, hsc⟩
    simp only [State.isNecessary, Node.isNecessary, hp, I.scopeObs m b hsc, hnf m hsc] at hnec
    cases hnec

/-- a necessary node of a scope: the scope's change detector is necessary -/
theorem GInv2.scope_lc_nec (I : GInv2 env rk s op ex dy) (hnu : ∀ m k, op m ≠ .unlinking k) (hF : HF s op)
    {n b : Nat} {br : BindRec} (hsc : (s.nodeD n).createdIn = .bind b) (hb : s.binds[b]? = some br)
    (hnec : s.isNecessary n = true) : s.isNecessary br.lhsChange = true := by
  by_cases hfo : ∃ m, (s.nodeD m).createdIn = .bind b ∧ (s.nodeD m).forceNecessary = true
  · obtain ⟨m, h1, h2⟩ := hfo
    exact (hF m b br h2 h1 hb).1
  · by_cases hw : Wants s op br.main 1
    · have h0 := wants_zero_of_one hnu hw
      have hvm : (s.nodeD br.main).valid = true :=
        (I.frag.scopeValid n b br (nec_lt_size hnec) (GInv2.valid_of_nec I hnec) hsc hb).2
      have hk : (s.children br.main)[0]? = some br.lhsChange := by rw [I.main_children hb hvm]; rfl
      exact nec_of_mem_parents (I.conv br.main 0 br.lhsChange hk h0)
    · exfalso
      have := scope_all_no_parents2 I hnu hb hw (fun m h => by
        cases hf : (s.nodeD m).forceNecessary with
        | false => rfl
        | true => exact absurd ⟨m, h, hf⟩ hfo) n hsc
      rw [this] at hnec; cases hnec

/-- an open change detector whose main node does not want its right-hand side: no node of its scope is necessary -/
theorem GInv2.scopeQuiet_of (I : GInv2 env rk s op ex dy) (hnu : ∀ m k, op m ≠ .unlinking k) (hF : HF s op)
    {n : Nat} (hopn : op n ≠ .closed)
    (hlc : ∀ (b : Nat) (br : BindRec), s.binds[b]? = some br → br.lhsChange = n → ¬ Wants s op br.main 1) : ScopeQuiet s n := by
  intro m b br hsc hb e
  refine scope_all_no_parents2 I hnu hb (hlc b br hb e) (fun m' h => ?_) m hsc
  cases hf : (s.nodeD m').forceNecessary with
  | false => rfl
  | true =>
    have := (hF m' b br hf h hb).2
    rw [e] at this
    exact absurd this hopn

theorem scopeQuiet_transport2 (A : All2 env rk s dy) {n : Nat} (hsq : ScopeQuiet s n) (E : KeyEq s s')
    (hab : AboveR2 rk s n s') : ScopeQuiet s' n := by
  intro m b br hsc hb e
  rw [E.createdIn] at hsc; rw [E.binds] at hb
  by_cases hm : m < s.nodes.size
  · have h1 := (A.scope_rk hm hsc hb).1
    rw [e] at h1
    simp only [State.isNecessary, hab m h1]
    exact hsq m b br hsc hb e
  · cases h : s'.isNecessary m with
    | false => rfl
    | true =>
      have := nec_lt_size h
      rw [E.size] at this
      exact absurd this hm

end
/-! ## `addParentWithoutAdjustingHeights` -/

theorem ap_step2 (env : Env) (fuel : Nat) (ih : BNSpec2 env fuel) : APSpec2 env (fuel + 1) := by
  intro rk c idx p s s' op ex dy h I hop hk hlow hnu hF
  have hopp : op p ≠ .closed := by rw [hop]; exact Op.linking_ne_closed _
  have hp : p < s.nodes.size := I.opLt p hopp
  have hc : c < s.nodes.size := GInv2.kid_in I hk
  have hne : c ≠ p := GInv2.kid_ne I hk
  have hcv : (s.nodeD c).valid = true := GInv2.kid_valid I hk
  have hpv : (s.nodeD p).valid = true := GInv2.valid_of_open I hopp
  have hcl : op c = .closed := by
    cases e : op c with
    | closed => rfl
    | linking k => have := hlow c (by rw [e]; exact fun e => by cases e); omega
    | unlinking k => have := hlow c (by rw [e]; exact fun e => by cases e); omega
  unfold addParentWithoutAdjustingHeights at h
  rw [run_bind_get] at h
  replace h := bind_dassert_inv h
  rw [run_bind_get] at h
  dsimp only at h
  unfold addParent at h
  obtain ⟨s1, hs1, h⟩ := bind_modNode_inv h
  have U : NodeUpd c (fParents ((s.nodeD c).parents ++ [(p, idx)])) s s1 := by
    rw [hs1]; exact NodeUpd.modify' hc rfl
  have hb1 : s1.binds = s.binds := by rw [hs1]
  have hon1 : Only c s s1 := by rw [hs1]; exact Only.modify c _ s
  have hl1 : LRel (fun _ => False) s s1 := by
    rw [hs1]
    refine ⟨CFrame.modNode s c _ (fun _ => rfl), rfl, fun m x hx => ?_, fun m _ _ => ?_⟩
    · rw [nodeD_modify]; split
      · rename_i e; rw [← e.1] at hx ⊢; exact List.mem_append_left _ hx
      · exact hx
    · rw [nodeD_modify]; split <;> rfl
  have hnec1 : s1.isNecessary c = true := by
    rw [isNecessary_iff]; left
    rw [U.self.parents]; simp [fParents]
  obtain ⟨nd, hnd, h⟩ := bind_getNode_inv h
  have hvalid : nd.valid = true := by
    have : s1.nodeD c = nd := nodeD_of_some hnd
    rw [← this, U.self.valid]; exact hcv
  simp only [hvalid, Bool.not_true, Bool.false_eq_true, if_false] at h
  -- the tail: the parent is not an expert node
  have tail : ∀ (t t' : State), CFrame s t → t.nodes.size = s.nodes.size →
      (do let x ← getNode p
          match x.kind? with
          | some (.expert e) => runEdgeCallback env e idx
          | _ => pure ()).run.run t = (.ok (), t') → t' = t := by
    intro t t' hf hsz ht
    obtain ⟨pn, hpn, ht⟩ := bind_getNode_inv ht
    have hpk : pn.kind? = some (s.nodeD p).kind := by
      have e : t.nodeD p = pn := nodeD_of_some hpn
      have := hf.node p
      simp only [nodeKey, Prod.mk.injEq] at this
      rw [← e, Node.kind?, this.2.2.2.2.1, this.1, hpv]; rfl
    rw [hpk] at ht
    have hsk := (GInv2.node I hp).kind
    cases hkd : (s.nodeD p).kind <;> rw [hkd] at ht hsk <;>
      first | exact (pure_ok_inv ht).2 | exact False.elim hsk
  cases hwas : s.isNecessary c with
  | true =>
    rw [hwas] at h
    simp only [Bool.not_true, Bool.false_eq_true, if_false] at h
    -- (D15) the child is not a `map_ref` node
    obtain ⟨cn, hcn, h⟩ := bind_getNode_inv h
    have hcq : cn.kind? = some (s.nodeD c).kind := by
      have e : s1.nodeD c = cn := nodeD_of_some hcn
      rw [← e, Node.kind?, U.self.valid, U.self.kind]
      show (if (s.nodeD c).valid = true then some (s.nodeD c).kind else none) = _
      rw [hcv]; rfl
    rw [hcq] at h
    have hsk := (GInv2.node I hc).kind
    have h' : (do let x ← getNode p
                  match x.kind? with
                  | some (.expert e) => runEdgeCallback env e idx
                  | _ => pure ()).run.run s1 = (.ok (), s') := by
      cases hkd : (s.nodeD c).kind <;> rw [hkd] at h hsk <;> first | exact h | exact False.elim hsk
    have e := tail s1 s' hl1.fr U.size h'
    subst e
    exact ⟨GInv2.addEdge_nec I U hb1 hop hk hwas hcl, only_aboveR2 hon1, hl1, hnec1⟩
  | false =>
    rw [hwas] at h
    simp only [Bool.not_false, if_true] at h
    obtain ⟨_, s2, h2, h⟩ := bind_ok_inv h
    obtain ⟨I1, hpar1, hnq1⟩ := GInv2.addEdge_open I U hb1 hop hk hwas hcl
    obtain ⟨I2, hab2, hl2⟩ := ih rk c s1 s2 _ ex dy h2 I1 (upd_self _ _ _) hnq1
      (by
        intro m hm
        by_cases e : m = c
        · rw [e]; exact Nat.le_refl _
        · rw [upd_other _ _ _ e] at hm
          by_cases e2 : m = p
          · rw [e2]; exact Nat.le_of_lt (I.kid_rk hk)
          · rw [upd_other _ _ _ e2] at hm
            exact Nat.le_of_lt (hlow m hm))
      (by
        intro q i hq
        rw [hpar1] at hq
        simp only [List.mem_singleton, Prod.mk.injEq] at hq
        rw [hq.1, upd_other _ _ _ (Ne.symm hne), upd_self]
        exact fun e => by cases e)
      (by
        intro m k
        by_cases e : m = c
        · rw [e, upd_self]; exact fun e => by cases e
        · rw [upd_other _ _ _ e]
          by_cases e2 : m = p
          · rw [e2, upd_self]; exact fun e => by cases e
          · rw [upd_other _ _ _ e2]; exact hnu m k)
      (hF.lrel hl1 (by
        intro m ho hn
        have e : m ≠ c := fun e => by rw [e, hwas] at hn; cases hn
        have e2 : m ≠ p := fun e => by rw [e] at ho; exact hopp ho
        rw [upd_other _ _ _ e, upd_other _ _ _ e2]; exact ho))
      (by
        -- if `c` is a change detector then `p` is its main node and `idx = 0`
        intro b br hb hl
        rw [hb1] at hb
        obtain ⟨-, -, h3, -, -⟩ := I.frag.recs b br hb
        rw [hl] at h3
        have hkp := (GInv2.node I hp).lcChild c b (List.mem_of_getElem? hk) h3
        obtain ⟨br', hb', hm', -⟩ := (GInv2.node I hp).mainRec b c hkp
        rw [hb] at hb'; cases hb'
        rw [hm', wants_linking (by rw [upd_other _ _ _ (Ne.symm hne), upd_self])]
        intro hi
        have h0 : Wants s op p 0 := (wants_linking hop).2 (by omega)
        have hk0 : (s.children p)[0]? = some c := by
          rw [← hm', I.main_children hb (by rw [hm']; exact hpv), hl]; rfl
        have := nec_of_mem_parents (I.conv p 0 c hk0 h0)
        rw [hwas] at this; cases this)
    have e := tail s2 s' (hl1.fr.trans hl2.fr) (hl2.fr.size.trans U.size) h
    subst e
    rw [upd_upd, upd_eq_self _ c .closed (by rw [upd_other _ _ _ hne]; exact hcl)] at I2
    refine ⟨I2, AboveR2.trans (only_aboveR2 hon1) hab2, ?_, ?_⟩
    · -- `c` was not necessary in `s`, so its height is not constrained by the relation from `s`
      refine ⟨hl1.fr.trans hl2.fr, hl2.pinv.trans hl1.pinv, fun m x hx => hl2.par m x (hl1.par m x hx),
        fun m _ hm => ?_⟩
      have e : m ≠ c := fun e => by rw [e, hwas] at hm; cases hm
      exact (hl2.hgt m e (hl1.nec hm)).trans (hl1.hgt m (fun h => h) hm)
    · exact hl2.nec hnec1

end NL

end IncrVerif.Proofs.NestH
