import IncrVerif.Proofs.BindH20
/-!
# Binds, linking cascade, part 2: closing a linking node; a new observer (pure step lemmas)

Port of the second half of `Quiet4`.  Difference: `GInvB.lnec` does not say that a linking node is not queued, so the
closing lemmas take it as a hypothesis (`hnq`).
-/
namespace IncrVerif.Proofs.BindH
open IncrVerif.Engine IncrVerif.Proofs IncrVerif.Proofs.Step IncrVerif.Proofs.Sched IncrVerif.Proofs.Quiet
open BL

namespace BL

section
variable {env : Env} {s s' : State} {op : Nat → Op} {ex : Nat → Prop}

/-- closing a linking node that is not queued, general form: `s'` is `s` up to the heap and the heap marker of `n`; if
`n` is stale it has been queued (marker = height), otherwise nothing changed for it -/
theorem GInvB.close_link_gen {n k : Nat} (I : GInvB env s op ex) (hop : op n = .linking k)
    (hnq : (s.nodeD n).inRch = false)
    (hk : (s.children n).length ≤ k)
    (hh : ∀ (i c : Nat), (s.children n)[i]? = some c → (s.nodeD c).height < (s.nodeD n).height)
    (h0 : 0 ≤ (s.nodeD n).height)
    (hpc : s'.panicCountdown = s.panicCountdown) (hsc : s'.currentScope = s.currentScope)
    (hsz : s'.nodes.size = s.nodes.size) (hv : s'.vars = s.vars) (hb : s'.binds = s.binds)
    (hnode : ∀ m, ∃ x, s'.nodeD m = { s.nodeD m with heightInRch := x })
    (hmark : ∀ m, m ≠ n → (s'.nodeD m).heightInRch = (s.nodeD m).heightInRch)
    (hheap : HeapG s')
    (hq : (s.isStale n = false ∧ (s'.nodeD n).heightInRch = (s.nodeD n).heightInRch) ∨
          (s.isStale n = true ∧ (s'.nodeD n).heightInRch = (s.nodeD n).height)) :
    GInvB env s' (upd op n .closed) ex := by
  have E : KeyEq s s' := by
    refine ⟨hsz, hb, hv, ?_, ?_, ?_, ?_, ?_, ?_⟩ <;> intro m <;> obtain ⟨x, e⟩ := hnode m <;> rw [e]
  have hpa : ∀ m, (s'.nodeD m).parents = (s.nodeD m).parents := fun m => by
    obtain ⟨x, e⟩ := hnode m; rw [e]
  have hht : ∀ m, (s'.nodeD m).height = (s.nodeD m).height := fun m => by
    obtain ⟨x, e⟩ := hnode m; rw [e]
  have hnec : ∀ m, s'.isNecessary m = s.isNecessary m := fun m => by
    obtain ⟨x, e⟩ := hnode m
    simp only [State.isNecessary, Node.isNecessary, e]
  have hstale : ∀ m, s'.isStale m = s.isStale m := E.isStale I.frag
  have hch : ∀ m, s'.children m = s.children m := E.children I.frag
  have hinr : ∀ m, m ≠ n → (s'.nodeD m).inRch = (s.nodeD m).inRch := fun m h => by
    simp only [Node.inRch, hmark m h]
  have hnn := I.lnec n k hop
  have hnq' : ¬ (0 ≤ (s.nodeD n).heightInRch) := by
    intro h; simp only [Node.inRch] at hnq; simp [h] at hnq
  have hopn : upd op n .closed n = .closed := upd_self ..
  have hopo : ∀ m, m ≠ n → upd op n .closed m = op m := fun m h => upd_other _ _ _ h
  have hw : ∀ q i c, (s.children q)[i]? = some c →
      (Wants s' (upd op n .closed) q i ↔ Wants s op q i) := by
    intro q i c hkq
    by_cases e : q = n
    · rw [e] at hkq ⊢
      rw [wants_closed hopn, wants_linking hop, hnec, hnn]
      have : i < (s.children n).length := by
        rcases Nat.lt_or_ge i (s.children n).length with h | h
        · exact h
        · rw [List.getElem?_eq_none h] at hkq; cases hkq
      simp; omega
    · unfold Wants; rw [hopo q e, hnec]
  refine { frag := E.frag I.frag (by rw [hpc]; exact I.frag.pc) (by rw [hsc]; exact I.frag.scope),
           par := ?_, conv := ?_, nodup := ?_, hlt := ?_, hpos := ?_,
           lnec := ?_, unec := ?_, heap := hheap, hgt := ?_, qnec := ?_, queued := ?_,
           qstale := ?_, opLt := ?_ }
  · intro c q i hm
    rw [hpa] at hm
    obtain ⟨h1, h2⟩ := I.par c q i hm
    rw [hch]; exact ⟨h1, (hw q i c h1).2 h2⟩
  · intro q i c hkq hw'
    rw [hch] at hkq
    rw [hpa]; exact I.conv q i c hkq ((hw q i c hkq).1 hw')
  · intro m; rw [hpa]; exact I.nodup m
  · intro c q i hm ho
    rw [hpa] at hm
    rw [hht, hht]
    by_cases e : q = n
    · rw [e] at hm ⊢; exact hh i c (I.par c n i hm).1
    · rw [hopo q e] at ho; exact I.hlt c q i hm ho
  · intro m hn ho
    rw [hnec] at hn
    rw [hht]
    by_cases e : m = n
    · rw [e]; exact h0
    · rw [hopo m e] at ho; exact I.hpos m hn ho
  · intro q k' ho
    have e : q ≠ n := by intro e; rw [e, hopn] at ho; cases ho
    rw [hopo q e] at ho
    rw [hnec]; exact I.lnec q k' ho
  · intro q k' ho
    have e : q ≠ n := by intro e; rw [e, hopn] at ho; cases ho
    rw [hopo q e] at ho
    rw [hnec]; exact I.unec q k' ho
  · intro m hq' ho
    by_cases e : m = n
    · rw [e] at hq' ⊢
      rcases hq with ⟨-, h2⟩ | ⟨-, h2⟩
      · simp only [Node.inRch, h2] at hq'; exact absurd (by simpa using hq') hnq'
      · rw [h2, hht]
    · rw [hinr m e] at hq'
      rw [hopo m e] at ho
      rw [hmark m e, hht]; exact I.hgt m hq' ho
  · intro m hq'
    rw [hnec]
    by_cases e : m = n
    · rw [e]; exact Or.inl hnn
    · rw [hinr m e] at hq'
      rcases I.qnec m hq' with h | ⟨k', h⟩
      · exact Or.inl h
      · exact Or.inr ⟨k', by rw [hopo m e]; exact h⟩
  · intro m ho hn hs hx
    rw [hnec] at hn
    rw [hstale] at hs
    by_cases e : m = n
    · rw [e] at hs ⊢
      rcases hq with ⟨h1, -⟩ | ⟨-, h2⟩
      · rw [h1] at hs; cases hs
      · simp only [Node.inRch, h2]; simpa using h0
    · rw [hopo m e] at ho
      rw [hinr m e]; exact I.queued m ho hn hs hx
  · intro m hq'
    rw [hstale]
    by_cases e : m = n
    · rw [e] at hq' ⊢
      rcases hq with ⟨-, h2⟩ | ⟨h1, -⟩
      · simp only [Node.inRch, h2] at hq'; exact absurd (by simpa using hq') hnq'
      · exact h1
    · rw [hinr m e] at hq'; exact I.qstale m hq'
  · intro m ho
    have e : m ≠ n := by intro e; rw [e, hopn] at ho; exact ho rfl
    rw [hopo m e] at ho
    rw [hsz]; exact I.opLt m ho

/-- closing a linking node that is not stale (and not queued) -/
theorem GInvB.close_link_fresh {n k : Nat} (I : GInvB env s op ex) (hop : op n = .linking k)
    (hnq : (s.nodeD n).inRch = false)
    (hk : (s.children n).length ≤ k)
    (hh : ∀ (i c : Nat), (s.children n)[i]? = some c → (s.nodeD c).height < (s.nodeD n).height)
    (h0 : 0 ≤ (s.nodeD n).height) (hst : s.isStale n = false) :
    GInvB env s (upd op n .closed) ex :=
  GInvB.close_link_gen I hop hnq hk hh h0 rfl rfl rfl rfl rfl (fun _ => ⟨_, rfl⟩) (fun _ _ => rfl) I.heap
    (Or.inl ⟨hst, rfl⟩)

/-- closing a linking node that is stale (and not queued): it is inserted into the recompute heap -/
theorem GInvB.close_link_stale {n k : Nat} (I : GInvB env s op ex) (hop : op n = .linking k)
    (hnq : (s.nodeD n).inRch = false)
    (hk : (s.children n).length ≤ k)
    (hh : ∀ (i c : Nat), (s.children n)[i]? = some c → (s.nodeD c).height < (s.nodeD n).height)
    (h0 : 0 ≤ (s.nodeD n).height) (hmax : (s.nodeD n).height ≤ s.rch.maxAllowed)
    (hst : s.isStale n = true) :
    GInvB env (inserted n (s.nodeD n).height s) (upd op n .closed) ex := by
  have hlt : n < s.nodes.size := I.opLt n (by rw [hop]; exact Op.linking_ne_closed _)
  refine GInvB.close_link_gen I hop hnq hk hh h0 rfl rfl (Array.size_modify ..) rfl rfl ?_ ?_
    (I.heap.inserted hlt hnq h0 hmax) (Or.inr ⟨hst, ?_⟩)
  · intro m
    rw [inserted_nodeD]
    split
    · exact ⟨_, rfl⟩
    · exact ⟨_, rfl⟩
  · intro m hm
    rw [inserted_nodeD, if_neg (fun e => hm e.1.symm)]
  · rw [inserted_nodeD, if_pos ⟨rfl, hlt⟩]

/-! ## observers -/

/-- a new observer on a node that is already necessary -/
theorem GInvB.addObs_nec {n : Nat} {l : List Nat} (I : GInvB env s op ex) (U : NodeUpd n (fObservers l) s s')
    (hb : s'.binds = s.binds)
    (hl : l ≠ []) (hn : s.isNecessary n = true) : GInvB env s' op ex := by
  have K := keeps_fObservers l
  have E := KeyEq.of_upd U K hb
  have hpa : ∀ m, (s'.nodeD m).parents = (s.nodeD m).parents := fun m => by
    by_cases e : m = n
    · rw [e]; exact U.parents_self
    · exact U.parents_other e
  have hht : ∀ m, (s'.nodeD m).height = (s.nodeD m).height := fun m => by
    by_cases e : m = n
    · rw [e]; exact U.height_self
    · exact U.height_other e
  have hnec : ∀ m, s'.isNecessary m = s.isNecessary m := fun m => by
    by_cases e : m = n
    · rw [e, hn]; exact (U.nec_self_iff K).2 (Or.inr (Or.inl hl))
    · exact U.nec_other e
  have hw : ∀ q i, Wants s' op q i ↔ Wants s op q i := fun q i => by unfold Wants; rw [hnec]
  refine { frag := E.frag I.frag (by rw [U.pc]; exact I.frag.pc) (by rw [U.scope]; exact I.frag.scope),
           par := ?_, conv := ?_, nodup := ?_, hlt := ?_, hpos := ?_,
           lnec := ?_, unec := ?_, heap := U.heap K I.heap, hgt := ?_, qnec := ?_, queued := ?_,
           qstale := ?_, opLt := ?_ }
  · intro c q i hm
    rw [hpa] at hm
    rw [E.children I.frag, hw]; exact I.par c q i hm
  · intro q i c hk hw'
    rw [E.children I.frag] at hk
    rw [hw] at hw'
    rw [hpa]; exact I.conv q i c hk hw'
  · intro m; rw [hpa]; exact I.nodup m
  · intro c q i hm ho
    rw [hpa] at hm
    rw [hht, hht]
    exact I.hlt c q i hm ho
  · intro m hn ho
    rw [hnec] at hn
    rw [hht]; exact I.hpos m hn ho
  · intro q k ho
    rw [hnec]; exact I.lnec q k ho
  · intro q k ho
    rw [hnec]; exact I.unec q k ho
  · intro m hq ho
    rw [U.inRch K] at hq
    rw [U.heightInRch K, hht]; exact I.hgt m hq ho
  · intro m hq
    rw [U.inRch K] at hq
    rw [hnec]; exact I.qnec m hq
  · intro m ho hn hs hx
    rw [hnec] at hn
    rw [E.isStale I.frag] at hs
    rw [U.inRch K]; exact I.queued m ho hn hs hx
  · intro m hq
    rw [U.inRch K] at hq
    rw [E.isStale I.frag]; exact I.qstale m hq
  · intro m ho
    rw [U.size]; exact I.opLt m ho

/-- a new observer on an unnecessary node: it is now open with no edge recorded, and it is not queued -/
theorem GInvB.addObs_open {n : Nat} {l : List Nat} (I : GInvB env s op ex) (U : NodeUpd n (fObservers l) s s')
    (hb : s'.binds = s.binds)
    (hl : l ≠ []) (hn : s.isNecessary n = false) (hcl : op n = .closed) :
    GInvB env s' (upd op n (.linking 0)) ex ∧ (s'.nodeD n).parents = [] ∧ (s'.nodeD n).inRch = false := by
  have K := keeps_fObservers l
  have E := KeyEq.of_upd U K hb
  have hpa : ∀ m, (s'.nodeD m).parents = (s.nodeD m).parents := fun m => by
    by_cases e : m = n
    · rw [e]; exact U.parents_self
    · exact U.parents_other e
  have hnq : (s.nodeD n).inRch = false := GInvB.not_queued_of_not_nec I hn hcl
  refine ⟨?_, by rw [hpa]; exact parents_nil_of_not_nec hn, by rw [U.inRch K]; exact hnq⟩
  have hht : ∀ m, (s'.nodeD m).height = (s.nodeD m).height := fun m => by
    by_cases e : m = n
    · rw [e]; exact U.height_self
    · exact U.height_other e
  have hnec : ∀ m, m ≠ n → s'.isNecessary m = s.isNecessary m := fun m e => U.nec_other e
  have hnecn : s'.isNecessary n = true := (U.nec_self_iff K).2 (Or.inr (Or.inl hl))
  have hopn : upd op n (.linking 0) n = .linking 0 := upd_self ..
  have hopo : ∀ m, m ≠ n → upd op n (.linking 0) m = op m := fun m h => upd_other _ _ _ h
  have hcl' : ∀ m, upd op n (.linking 0) m = .closed → m ≠ n ∧ op m = .closed :=
    fun m h => upd_closed_inv (Op.linking_ne_closed _) h
  have hw : ∀ q i, Wants s' (upd op n (.linking 0)) q i ↔ Wants s op q i := fun q i => by
    by_cases e : q = n
    · rw [e, wants_linking hopn, wants_closed hcl, hn]; simp
    · unfold Wants; rw [hopo q e, hnec q e]
  refine { frag := E.frag I.frag (by rw [U.pc]; exact I.frag.pc) (by rw [U.scope]; exact I.frag.scope),
           par := ?_, conv := ?_, nodup := ?_, hlt := ?_, hpos := ?_,
           lnec := ?_, unec := ?_, heap := U.heap K I.heap, hgt := ?_, qnec := ?_, queued := ?_,
           qstale := ?_, opLt := ?_ }
  · intro c q i hm
    rw [hpa] at hm
    rw [E.children I.frag, hw]; exact I.par c q i hm
  · intro q i c hk hw'
    rw [E.children I.frag] at hk
    rw [hw] at hw'
    rw [hpa]; exact I.conv q i c hk hw'
  · intro m; rw [hpa]; exact I.nodup m
  · intro c q i hm ho
    rw [hpa] at hm
    rw [hht, hht]
    exact I.hlt c q i hm (hcl' q ho).2
  · intro m hn' ho
    obtain ⟨h1, h2⟩ := hcl' m ho
    rw [hnec m h1] at hn'
    rw [hht]; exact I.hpos m hn' h2
  · intro q k ho
    by_cases e : q = n
    · rw [e]; exact hnecn
    · rw [hopo q e] at ho
      rw [hnec q e]; exact I.lnec q k ho
  · intro q k ho
    have e : q ≠ n := by intro e; rw [e, hopn] at ho; cases ho
    rw [hopo q e] at ho
    rw [hnec q e]; exact I.unec q k ho
  · intro m hq ho
    rw [U.inRch K] at hq
    rw [U.heightInRch K, hht]; exact I.hgt m hq (hcl' m ho).2
  · intro m hq
    rw [U.inRch K] at hq
    have e : m ≠ n := by intro e; rw [e, hnq] at hq; cases hq
    rw [hnec m e]
    rcases I.qnec m hq with h | ⟨k, h⟩
    · exact Or.inl h
    · exact Or.inr ⟨k, by rw [hopo m e]; exact h⟩
  · intro m ho hn' hs hx
    obtain ⟨h1, h2⟩ := hcl' m ho
    rw [hnec m h1] at hn'
    rw [E.isStale I.frag] at hs
    rw [U.inRch K]; exact I.queued m h2 hn' hs hx
  · intro m hq
    rw [U.inRch K] at hq
    rw [E.isStale I.frag]; exact I.qstale m hq
  · intro m ho
    rw [U.size]
    by_cases e : m = n
    · rw [e]; exact U.lt
    · rw [hopo m e] at ho; exact I.opLt m ho

end

end BL

end IncrVerif.Proofs.BindH
