import IncrVerif.Proofs.FullH67
import IncrVerif.Proofs.FullH69
/-!
# C01 full fragment: NON-VACUITY, part 10 — the headline theorem applies to `exHistG` (depend_on, cutoff action); reference semantics = reads
-/
namespace IncrVerif.Proofs.FullH
open IncrVerif.Engine IncrVerif.Driver IncrVerif.Proofs IncrVerif.Proofs.Step IncrVerif.Proofs.Sched IncrVerif.Proofs.Quiet
open IncrVerif.Proofs.NestH (progOf)

/-- the state `exHistG` ends in satisfies the history invariant -/
theorem exHistG_inv (po : Nat → Bool) :
    ∃ s tk, Quiet.runActions fEnv exHistG (State.init 128 true) #[] = .ok (s, tk) ∧ HI fEnv fSp po exHistG s := by
  obtain ⟨s, tk, h⟩ := exHistG_runs
  exact ⟨s, tk, h, history_full fEnv_kit exHistG_frag h⟩

/-- **the headline theorem applies at every `stabilise` of `exHistG`**: every in-use observer (on the depend_on node, on the node whose cutoff becomes `.never`,
on its parent) reads `Spec.denoteTop` of its handle in the program text of the prefix -/
theorem exHistG_headline {as bs : List Action} (e : exHistG = as ++ Action.stabilise :: bs) :
    ∃ s tk s1 tk1 s2, Quiet.runActions fEnv exHistG (State.init 128 true) #[] = .ok (s, tk) ∧
      Quiet.runActions fEnv as (State.init 128 true) #[] = .ok (s1, tk1) ∧
      (stabilise fEnv fuelDefault).run.run s1 = (.ok (), s2) ∧ QInvFE fEnv fSp s2 ∧
      (∀ (o : Nat) (ob : ObsRec), s2.observers[o]? = some ob → ob.state = .inUse →
        ∃ v j, s2.tryGetValue fEnv o = .ok v ∧ s2.top[j]? = some ob.node ∧
          ∃ F, ∀ f, F ≤ f → Spec.denoteTop (progOf fEnv (fun _ => true) as) f j = some v) ∧
      Quiet.runActions fEnv bs s2 tk1 = .ok (s, tk) := by
  obtain ⟨s, tk, h⟩ := exHistG_runs
  have hH := exHistG_frag
  have h0 := h
  rw [e] at h hH
  obtain ⟨s1, tk1, s2, k1, k2, k3, k4, k5⟩ :=
    history_stabilise_denote fEnv_kit fEnv_envS (fun _ => true) fEnv_zip (fun _ => rfl) (fun _ _ => rfl) fEnv_first hH h
  exact ⟨s, tk, s1, tk1, s2, h0, k1, k2, k3, k4, k5⟩

/-- the five `stabilise`s of `exHistG` -/
theorem exHistG_splits :
    exHistG = exHistG.take 10 ++ Action.stabilise :: exHistG.drop 11 ∧
    exHistG = exHistG.take 12 ++ Action.stabilise :: exHistG.drop 13 ∧
    exHistG = exHistG.take 15 ++ Action.stabilise :: exHistG.drop 16 ∧
    exHistG = exHistG.take 17 ++ Action.stabilise :: exHistG.drop 18 ∧
    exHistG = exHistG.take 19 ++ Action.stabilise :: exHistG.drop 20 :=
  ⟨rfl, rfl, rfl, rfl, rfl⟩

set_option maxRecDepth 100000 in
/-- the text-level reference semantics of handles 4 (`depend_on n3 n2`), 5, 6 in the program text of the five prefixes (fuel 40): the values the three
observers read (`exHistG_reads`); the `cutoff` action (in the third prefix) does not change the semantics -/
theorem exHistG_denote :
    ([10, 12, 15, 17, 19].map fun k => [4, 5, 6].map fun j => Spec.denoteTop (progOf fEnv (fun _ => true) (exHistG.take k)) 40 j) =
      [[some (.int 16), some (.int 0), some (.int 0)], [some (.int 18), some (.int 0), some (.int 0)],
       [some (.int 20), some (.int 0), some (.int 0)], [some (.int 1), some (.int 1), some (.int 2)],
       [some (.int 1), some (.int 1), some (.int 2)]] := by
  decide +kernel


end IncrVerif.Proofs.FullH
