import IncrVerif.Proofs.PerKeyH71
import IncrVerif.Proofs.PerKeyH72
import IncrVerif.Proofs.PerKeyH36
/-!
# Per-key operators, a run of an expert node, part 5: `XStepSpec` (but the clause `AuxP.slots` of the new state)

`xStepSpec_of_slots`: one `recomputeOne env fuel n` on an expert node `n` of a per-key operator, from `PD env s (some n)`
and `NoRem s`, GIVEN `SlotInv env s'` (proved by `pk-slots`), gives
`PD env s' r ∧ NoRem s' ∧ PStep s s' ∧ ((V s').nodeD n).recomputedAt = s.stabNum`.
`EntryOK.input` of a per-key input node that RUNS (its virtual stamp is not `-1` afterwards): the node is current, hence
necessary, hence reached from its instance's return node (`priv_nec_below`, the ownership walk of LC2d).
-/
namespace IncrVerif.Proofs.PerKeyH
open IncrVerif IncrVerif.Engine IncrVerif.Driver IncrVerif.Proofs IncrVerif.Proofs.Step IncrVerif.Proofs.Sched
open IncrVerif.Proofs.ExpertH IncrVerif.Proofs.ExpertH.QR IncrVerif.Proofs.EffH IncrVerif.Proofs.DriverH
open IncrVerif.Proofs.Xp

/-! ## the frames from `s` to `readyP` -/

section
variable (env : Env) (n : Nat) {e : Nat} {s : State} {er : ExpertRec}

theorem readyP_xg (he : s.experts[e]? = some er) : XG s (readyP env n e s er) := by
  obtain ⟨f1, f2, f3, _, _, f6, _, _, _⟩ := Xp.readyRec_fields env s er
  refine ⟨readyP_size env n e s er, readyP_kind env n e s er, fun e' er0 h => ?_, fun e' er' h' => ?_⟩
  · by_cases hee : e' = e
    · subst hee
      rw [he] at h; cases h
      exact ⟨_, readyP_get env n he, f1, f2, f3, f6⟩
    · exact ⟨er0, by rw [readyP_get_ne env n e s er hee]; exact h, rfl, rfl, rfl, rfl⟩
  · by_cases hee : e' = e
    · subst hee
      rw [readyP_get env n he] at h'; cases h'
      exact ⟨er, he, f1, f2, f3, f6⟩
    · rw [readyP_get_ne env n e s er hee] at h'
      exact ⟨er', h', rfl, rfl, rfl, rfl⟩

theorem readyP_xs (he : s.experts[e]? = some er) : XS s (readyP env n e s er) := by
  obtain ⟨_, _, _, f4, f5, _, _, _, _⟩ := Xp.readyRec_fields env s er
  refine ⟨by rw [readyP_experts]; simp, fun e' => ?_⟩
  by_cases hee : e' = e
  · subst hee
    rw [readyP_get env n he, he]
    simp only [Option.map_some, xSS, f4, f5]
  · rw [readyP_get_ne env n e s er hee]

theorem readyP_df (he : s.experts[e]? = some er) : DFX s (readyP env n e s er) :=
  ⟨readyP_size env n e s er, readyP_kind env n e s er,
    ⟨readyP_size env n e s er, rfl, fun m => by rw [readyP_nodeD, started_nodeD]; split <;> rfl⟩,
    readyP_xs env n he, rfl,
    ⟨rfl, rfl, rfl, rfl, rfl, fun m => by rw [readyP_nodeD, started_nodeD]; split <;> rfl, fun _ => rfl⟩, rfl⟩

end

/-! ## shapes, read in the actual states -/

theorem xs_shape_actualV {s s' : State} (hsh : ∀ m, SameShape ((V s).nodeD m) ((V s').nodeD m)) (m : Nat) :
    (s'.nodeD m).createdIn = (s.nodeD m).createdIn ∧ (s'.nodeD m).valid = (s.nodeD m).valid ∧
    (s'.nodeD m).cutoff = (s.nodeD m).cutoff ∧ (s'.nodeD m).height = (s.nodeD m).height ∧
    (s'.nodeD m).parents = (s.nodeD m).parents ∧ (s'.nodeD m).observers = (s.nodeD m).observers ∧
    (s'.nodeD m).forceNecessary = (s.nodeD m).forceNecessary := by
  have h := hsh m
  rw [V_nodeD, V_nodeD] at h
  exact ⟨h.createdIn, h.valid, h.cutoff, h.height, h.parents, h.observers, h.forceNecessary⟩

/-! ## the theorem -/

/-- **`XStepSpec env`, given the slot invariant of the new state** -/
theorem xStepSpec_of_slots (env : Env) (fuel n e : Nat) (s s' : State) (r : Option Nat) (D : PD env s (some n))
    (N : NoRem s) (hk : (s.nodeD n).kind = .expert e)
    (h : (recomputeOne env fuel n).run.run s = (.ok r, s')) (hslots : SlotInv env s') :
    PD env s' r ∧ NoRem s' ∧ PStep s s' ∧ ((V s').nodeD n).recomputedAt = s.stabNum := by
  have I := D.inv
  have A := D.aux
  have F := A.frag
  obtain ⟨er, v, ch, he, hnode, hv, hrun, fr', R⟩ := xstep_rel D hk h
  -- the target
  have ht : BindH.TargetB (penv env) (V s) n v := by
    obtain ⟨hpk, -, -⟩ := F.xok e er he
    cases hp : er.pk with
    | none => rw [hp] at hpk; cases hpk
    | some p =>
      obtain ⟨op, ko⟩ := p
      cases ko with
      | none => exact target_result D hk he hnode hp hv
      | some key => exact (target_input D hk he hp hv).1
  have I' := BindH.stepB_inv I ht R
  -- frames
  have df : DFX s s' := (readyP_df env n he).trans (DFX.maybeChangeValue hrun)
  have G : XG s s' := (readyP_xg env n he).trans (XG.of_xf ((PresX.maybeChangeValue env fuel n v).h _ _ _ hrun))
  have hpkeys : s'.perkeys = s.perkeys := (KQ.maybeChangeValue env fuel n v).h (readyP env n e s er) _ _ hrun
  have hsh : ∀ m, SameShape ((V s).nodeD m) ((V s').nodeD m) := R.shapes
  have hkD := df.keyD
  simp only [KeyD, stateKeyD, Prod.mk.injEq] at hkD
  obtain ⟨k1, k2, k3, k4, -, k6, k7, k8, -, -, -⟩ := hkD
  have hc := df.calm
  have hvars : s'.vars = s.vars := R.vars
  have hstab : s'.stabNum = s.stabNum := R.stabNum
  have hobs : ∀ m, (s'.nodeD m).observers = (s.nodeD m).observers := fun m => (xs_shape_actualV hsh m).2.2.2.2.2.1
  have F' : PFrag env s' := pfrag_frame F G fr' (fun m => (xs_shape_actualV hsh m).2.2.1)
    (fun m => (xs_shape_actualV hsh m).1) (fun m => (xs_shape_actualV hsh m).2.2.2.2.2.2) k3
  -- values of the other nodes
  have hval : ∀ m, m ≠ n → (s'.nodeD m).value = (s.nodeD m).value := by
    intro m hm
    have := (R.other m hm).value
    rw [V_nodeD, V_nodeD] at this
    exact this
  have hvalX : ∀ m, (∀ e', (s.nodeD m).kind ≠ .expert e') → (s'.nodeD m).value = (s.nodeD m).value := by
    intro m hne
    apply hval
    intro hmn; subst hmn
    exact hne e hk
  -- the bookkeeping
  have P' : PKOK env s' := by
    refine pkok_frame A.pk G hpkeys k4 hobs k1 (fun op pr hp => ?_) (fun op pr hp => ?_)
      (fun op pr e2 er2 key p d hp hres he2 hm h0 => ?_)
    · obtain ⟨x, e2, er2, hN, -⟩ := (A.pk.ops op pr hp).nodes
      exact hvalX _ (fun e' he' => by rw [hN.conv] at he'; cases he')
    · obtain ⟨x, e2, er2, hN, -⟩ := (A.pk.ops op pr hp).nodes
      have hlck : (s.nodeD pr.lhsChange).kind = .map (fnPerKey + op) [pr.result - 1] := by
        rw [hN.lc]; exact hN.lcKind
      have hlt : pr.lhsChange < s.nodes.size := by rw [hN.lc]; have := hN.lt; omega
      have hne : pr.lhsChange ≠ n := by
        intro hh; rw [hh, hk] at hlck; cases hlck
      have hvalid : ((V s).nodeD pr.lhsChange).valid = true := by
        rw [V_nodeD, vNode_valid]; exact F.valid _ hlt
      rw [← V_isStale s', ← V_isStale s]
      rcases BindH.stepB_stale_other I R hne (by rw [V_size]; exact hlt) hvalid with h1 | ⟨-, h2, -⟩
      · exact h1.1
      · exfalso
        rw [children_eq_kids (V s) _ hvalid (staticKind_VD F _), V_kids, hlck] at h2
        simp only [ExpertH.kidsX, List.mem_singleton] at h2
        have hc := hN.conv
        rw [← h2, hk] at hc
        cases hc
    · -- the semantic link of the per-key input nodes: the node that ran is necessary, hence used by its instance
      by_cases hpn : p = n
      · subst hpn
        have hnec : s.isNecessary p = true := by
          have := (I.cur p rfl).1
          rwa [V_isNecessary] at this
        exact Or.inr (priv_nec_below D hp hm hres he2 hnec)
      · exact Or.inl (by rw [(R.other p hpn).recomputedAt]; exact h0)
  have N' : NoRem s' := norem_frame N G.kind hpkeys hvars hvalX
  -- the auxiliary invariant
  obtain ⟨rk, hrk⟩ := A.rank
  have A' : AuxP env s' := by
    refine ⟨F', ahhEmpty_of_ahf A.ahh df.ahf, fr'.pinv, fun m => ?_, ⟨rk, ?_⟩, fun c => ?_, ?_, P', hslots,
      fun m o ho => ?_, fun k x hx => by rw [k4] at hx; rw [df.size]; exact A.named k x hx⟩
    · rw [hc.num]; exact A.handlers m
    · exact allStatic_of_shapes hrk (by rw [V_size, V_size]; exact df.size) hsh fr'.pc k3
    · rw [(xs_shape_actualV hsh c).2.2.2.2.1]; exact A.nodup c
    · exact varsOK_of_shapes A.vars (by rw [V_size, V_size]; exact df.size) hsh hvars
    · rw [hobs] at ho
      rw [k1]; exact A.obs m o ho
  -- the frame of the step
  have S : PStep s s' := by
    refine ⟨R.frame, Nat.le_of_eq df.size.symm, ?_, fun m _ => ?_, fun m hm => ?_⟩
    · simp only [eKey, Prod.mk.injEq]
      exact ⟨hvars, k8, hstab, hc.status, df.cfg, k3, k1, hc.newObservers, hc.disallowedObservers, k2,
        hc.setDuringStab, hc.deadVars, hc.has A.handlers, k7, k4, k6, R.qsize, fr'.pc.trans F.pc.symm⟩
    · obtain ⟨h1, h2, h3, -, -, h6, h7⟩ := xs_shape_actualV hsh m
      simp only [dnKey, Prod.mk.injEq]
      exact ⟨df.kind m, h1, h3, h2, h6, h7, hc.num m⟩
    · rw [nodeD_default_of_ge s' m (by rw [df.size]; exact hm)]; rfl
  exact ⟨⟨I', A'⟩, N', S, R.recomputedAt.trans (V_stabNum s)⟩

end IncrVerif.Proofs.PerKeyH
