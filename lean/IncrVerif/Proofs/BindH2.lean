import IncrVerif.Proofs.BindH1
/-!
# Binds, part 1b: Boolean checkers for `Sched.HeapInv` and `OrderInv`, with soundness proofs

They serve two purposes: non-vacuity examples on states REACHED by running concrete histories
(`decide +kernel`), and — run outside the kernel on generated histories — a search for reachable states that
violate a proposed invariant.
-/
namespace IncrVerif.Proofs.BindH
open IncrVerif.Engine IncrVerif.Proofs IncrVerif.Proofs.Step IncrVerif.Proofs.Sched

/-- a Boolean predicate holds for every node index of the state -/
def allN (s : State) (P : Nat → Bool) : Bool := (List.range s.nodes.size).all P

theorem allN_sound {s : State} {P : Nat → Bool} (h : allN s P = true) (n : Nat) (hn : n < s.nodes.size) :
    P n = true := by
  unfold allN at h
  rw [List.all_eq_true] at h
  exact h n (List.mem_range.2 hn)

theorem nodeD_default' (s : State) (n : Nat) (h : ¬ n < s.nodes.size) : s.nodeD n = default :=
  nodeD_default_of_ge s n (by omega)

theorem not_nec_of_ge {s : State} {n : Nat} (h : ¬ n < s.nodes.size) : s.isNecessary n = false := by
  rw [State.isNecessary, nodeD_default' s n h]; rfl

theorem not_inRch_of_ge {s : State} {n : Nat} (h : ¬ n < s.nodes.size) : (s.nodeD n).inRch = false := by
  rw [nodeD_default' s n h]; rfl

theorem lt_of_nec {s : State} {n : Nat} (h : s.isNecessary n = true) : n < s.nodes.size := by
  false_or_by_contra
  rename_i hn
  rw [not_nec_of_ge hn] at h; cases h

theorem lt_of_inRch {s : State} {n : Nat} (h : (s.nodeD n).inRch = true) : n < s.nodes.size := by
  false_or_by_contra
  rename_i hn
  rw [not_inRch_of_ge hn] at h; cases h

/-! ## the heap -/

/-- every bucket -/
def allB (s : State) (P : Nat → List Nat → Bool) : Bool :=
  (List.range s.rch.queues.size).all fun h => P h (s.rch.queues[h]?.getD [])

theorem allB_sound {s : State} {P : Nat → List Nat → Bool} (h : allB s P = true) (i : Nat)
    (hi : i < s.rch.queues.size) : P i s.rch.queues[i] = true := by
  unfold allB at h
  rw [List.all_eq_true] at h
  have := h i (List.mem_range.2 hi)
  rw [Array.getElem?_eq_getElem hi] at this
  exact this

def heapWFB (s : State) : Bool :=
  allB s (fun h q => q.all fun n => decide (n < s.nodes.size) && decide ((s.nodeD n).heightInRch = (h : Int)))
  && allN s (fun n => allB s fun h q => !decide ((s.nodeD n).heightInRch = (h : Int)) || q.contains n)
  && allB s (fun _ q => decide q.Nodup)
  && decide (s.rch.length = bucketSum s.rch.queues)
  && allN s (fun n => decide ((s.nodeD n).heightInRch = -1) ||
      (decide (0 ≤ (s.nodeD n).heightInRch) && decide ((s.nodeD n).heightInRch < (s.rch.queues.size : Int))))

theorem heapWFB_sound {s : State} (h : heapWFB s = true) : HeapWF s := by
  unfold heapWFB at h
  simp only [Bool.and_eq_true] at h
  obtain ⟨⟨⟨⟨h1, h2⟩, h3⟩, h4⟩, h5⟩ := h
  refine ⟨?_, ?_, of_decide_eq_true h4, ?_⟩
  · intro i hi n
    constructor
    · intro hm
      have := allB_sound h1 i hi
      rw [List.all_eq_true] at this
      have := this n hm
      simp only [Bool.and_eq_true, decide_eq_true_eq] at this
      exact this
    · rintro ⟨hn, hk⟩
      have := allB_sound (allN_sound h2 n hn) i hi
      simp only [Bool.or_eq_true, Bool.not_eq_true', decide_eq_false_iff_not] at this
      rcases this with h | h
      · exact absurd hk h
      · exact List.contains_iff_mem.1 h
  · intro i hi
    exact of_decide_eq_true (allB_sound h3 i hi)
  · intro n hn
    have := allN_sound h5 n hn
    simp only [Bool.or_eq_true, Bool.and_eq_true, decide_eq_true_eq] at this
    exact this

def heapInvB (s : State) : Bool :=
  heapWFB s
  && allN s (fun m => !(s.nodeD m).inRch ||
      (decide ((s.nodeD m).heightInRch = (s.nodeD m).height) && decide (s.rch.lowerBound ≤ (s.nodeD m).height)
        && s.isNecessary m))
  && decide (0 ≤ s.rch.lowerBound)

theorem heapInvB_sound {s : State} (h : heapInvB s = true) : HeapInv s := by
  unfold heapInvB at h
  simp only [Bool.and_eq_true] at h
  obtain ⟨⟨h1, h2⟩, h3⟩ := h
  have key : ∀ m, (s.nodeD m).inRch = true →
      (s.nodeD m).heightInRch = (s.nodeD m).height ∧ s.rch.lowerBound ≤ (s.nodeD m).height ∧
        s.isNecessary m = true := by
    intro m hm
    have := allN_sound h2 m (lt_of_inRch hm)
    simp only [hm, Bool.not_true, Bool.false_or, Bool.and_eq_true, decide_eq_true_eq] at this
    exact ⟨this.1.1, this.1.2, this.2⟩
  exact ⟨heapWFB_sound h1, fun m hm => (key m hm).1, fun m hm => (key m hm).2.1, of_decide_eq_true h3,
    fun m hm => (key m hm).2.2⟩

/-! ## the ordering invariants -/

/-- the bind a node was created in -/
def scopeBind (s : State) (n : Nat) : Option (Nat × BindRec) :=
  match (s.nodeD n).createdIn with
  | .top => none
  | .bind b => (s.binds[b]?).map fun br => (b, br)

theorem scopeBind_some {s : State} {n b : Nat} {br : BindRec} (hsc : (s.nodeD n).createdIn = .bind b)
    (hb : s.binds[b]? = some br) : scopeBind s n = some (b, br) := by
  simp only [scopeBind, hsc, hb, Option.map_some]

def scopeB (s : State) : Bool :=
  allN s fun n => !((s.nodeD n).valid && s.isNecessary n) ||
    match scopeBind s n with
    | none => true
    | some (_, br) => decide (br.lhsChange < s.nodes.size) &&
        decide ((s.nodeD br.lhsChange).height < (s.nodeD n).height) && s.isNecessary br.lhsChange

def pendingB (s : State) (x : Option Nat) : Bool :=
  allN s fun m => !(s.isNecessary m && s.isStale m) || (s.nodeD m).inRch || decide (x = some m)

def mainLcB (s : State) : Bool :=
  allN s fun p => !((s.nodeD p).valid && s.isNecessary p) ||
    match (s.nodeD p).kind with
    | .bindMain _ lc' => decide (lc' < s.nodes.size) && (s.nodeD lc').valid && s.isNecessary lc' &&
        decide ((s.nodeD lc').createdIn = (s.nodeD p).createdIn)
    | _ => true

def lcParB (s : State) : Bool :=
  (List.range s.binds.size).all fun b =>
    match s.binds[b]? with
    | none => true
    | some br => (s.nodeD br.lhsChange).parents.all fun pi => decide ((s.nodeD pi.1).createdIn ≠ .bind b)

def orderInvB (s : State) (x : Option Nat) : Bool :=
  heapInvB s && scopeB s && pendingB s x && mainLcB s && lcParB s

theorem orderInvB_sound {s : State} {x : Option Nat} (h : orderInvB s x = true) : OrderInv s x := by
  unfold orderInvB at h
  simp only [Bool.and_eq_true] at h
  obtain ⟨⟨⟨⟨h1, h2⟩, h3⟩, h4⟩, h5⟩ := h
  have sc : ∀ n b br, (s.nodeD n).valid = true → s.isNecessary n = true →
      (s.nodeD n).createdIn = .bind b → s.binds[b]? = some br →
      br.lhsChange < s.nodes.size ∧ (s.nodeD br.lhsChange).height < (s.nodeD n).height ∧
        s.isNecessary br.lhsChange = true := by
    intro n b br hv hn hsc hb
    have := allN_sound h2 n (lt_of_nec hn)
    simp only [hv, hn, Bool.and_self, Bool.not_true, Bool.false_or, scopeBind_some hsc hb,
      Bool.and_eq_true, decide_eq_true_eq] at this
    exact ⟨this.1.1, this.1.2, this.2⟩
  refine ⟨heapInvB_sound h1, fun n b br hv hn hsc hb => ⟨(sc n b br hv hn hsc hb).1, (sc n b br hv hn hsc hb).2.1⟩,
    fun n b br hv hn hsc hb => (sc n b br hv hn hsc hb).2.2, ?_, ?_, ?_⟩
  · intro m hn hst
    have := allN_sound h3 m (lt_of_nec hn)
    simp only [hn, hst, Bool.and_self, Bool.not_true, Bool.false_or, Bool.or_eq_true,
      decide_eq_true_eq] at this
    exact this
  · intro p b' lc' hv hn hk
    have := allN_sound h4 p (lt_of_nec hn)
    simp only [hv, hn, Bool.and_self, Bool.not_true, Bool.false_or, hk, Bool.and_eq_true,
      decide_eq_true_eq] at this
    exact ⟨this.1.1.1, this.1.1.2, this.1.2, this.2⟩
  · intro b br p i hb hp
    unfold lcParB at h5
    rw [List.all_eq_true] at h5
    have hlt : b < s.binds.size := (Array.getElem?_eq_some_iff.1 hb).1
    have := h5 b (List.mem_range.2 hlt)
    simp only [hb, List.all_eq_true, decide_eq_true_eq] at this
    exact this (p, i) hp

end IncrVerif.Proofs.BindH
