import IncrVerif.Proofs.TidyH21
/-!
# T3a part 5: `subscribe`, `unsubscribe`, `stateUnsub` return
-/
namespace IncrVerif.Proofs.TidyH.SubsT
open IncrVerif.Engine IncrVerif.Driver IncrVerif.Proofs IncrVerif.Proofs.Step IncrVerif.Proofs.Sched
open IncrVerif.Proofs.Quiet

/-- the frame of the subscription actions, with the adjust-heights heap -/
def HFa (s s' : State) : Prop := SubsH.P9.HF s s' ∧ s'.ahh = s.ahh

theorem HFa.refl (s : State) : HFa s s := ⟨SubsH.P9.HF.refl s, rfl⟩
theorem HFa.trans {a b c : State} (h1 : HFa a b) (h2 : HFa b c) : HFa a c :=
  ⟨h1.1.trans h2.1, h2.2.trans h1.2⟩

theorem HFa.tinv {N : Nat} {s s' : State} (F : HFa s s') (T : TInv N s) : TInv N s' := tinv_of_hf T F.1 F.2

theorem HFa.sizes {s s' : State} (F : HFa s s') :
    s'.nodes.size = s.nodes.size ∧ s'.vars.size = s.vars.size ∧ s'.observers.size = s.observers.size :=
  ⟨F.1.size, by rw [F.1.vars], F.1.obsSize⟩

/-- `handleAfterStabilisation` of an existing node returns, within the frame -/
theorem has_total {n : Nat} {s : State} (hn : n < s.nodes.size) :
    Tot (handleAfterStabilisation n) s (fun _ s' => HFa s s') := by
  obtain ⟨s', h⟩ := P23.has_ok (n := n) (s := s) hn
  refine Tot.of_ok h ?_
  rcases P12.has_cases h with e | e
  · rw [e]; exact HFa.refl s
  · rw [e]; exact ⟨SubsH.P9.HF.of_hasMarked s n, rfl⟩

/-- **`subscribe` returns** when the observer exists -/
theorem subscribe_total {env : Env} {s : State} {o hid : Nat} (Q : SubsH.QInv env s)
    (ho : o < s.observers.size) : Tot (subscribe o hid) s (fun _ s' => HFa s s') := by
  have h0 : s.observers[o]? = some s.observers[o] := Array.getElem?_eq_getElem ho
  generalize s.observers[o] = ob at h0
  have hlt : ob.node < s.nodes.size := Q.obs.inRange o ob h0
  unfold subscribe
  refine Tot.bind_get ?_
  rw [if_neg (by rw [Q.alive]; decide)]
  refine P23.Tot.bind_getObs h0 ?_
  cases hst : ob.state with
  | disallowed => exact Tot.pure (HFa.refl s)
  | unlinked => exact Tot.pure (HFa.refl s)
  | created =>
    dsimp only
    refine Tot.bind_modify ?_
    refine P23.Tot.bind_modObs ?_
    rw [if_neg (by decide)]
    have F3 : HFa s { ({ s with nextToken := s.nextToken + 1 } : State) with
        observers := s.observers.modify o fun x =>
          { x with handlers := x.handlers ++ [{ token := s.nextToken, hid := hid, createdAt := s.stabNum }] } } :=
      ⟨(SubsH.P9.HF.of_nextToken s 1).trans (SubsH.P9.HF.of_modObs _ o _), rfl⟩
    refine Tot.bind (has_total (by exact hlt)) ?_
    intro _ s4 _ F4
    exact Tot.pure (F3.trans F4)
  | inUse =>
    dsimp only
    refine Tot.bind_modify ?_
    refine P23.Tot.bind_modObs ?_
    rw [if_pos (by decide)]
    refine Tot.bind_modNode ?_
    have F3 : HFa s { ({ ({ s with nextToken := s.nextToken + 1 } : State) with
        observers := s.observers.modify o fun x =>
          { x with handlers := x.handlers ++ [{ token := s.nextToken, hid := hid, createdAt := s.stabNum }] } } :
          State) with
        nodes := s.nodes.modify ob.node fun x => { x with numOnUpdateHandlers := x.numOnUpdateHandlers + 1 } } :=
      ⟨((SubsH.P9.HF.of_nextToken s 1).trans (SubsH.P9.HF.of_modObs _ o _)).trans
        (SubsH.P9.HF.of_modNode _ _ _), rfl⟩
    refine Tot.bind (has_total (by rw [Array.size_modify]; exact hlt)) ?_
    intro _ s4 _ F4
    exact Tot.pure (F3.trans F4)

/-- **`unsubscribe` returns** when the owner of the token exists -/
theorem unsubscribe_total {s : State} {o t owner : Nat} (ho : owner < s.observers.size) :
    Tot (unsubscribe o t owner) s (fun _ s' => HFa s s') := by
  unfold unsubscribe
  split
  · exact Tot.pure (HFa.refl s)
  rename_i hne
  have hown : owner = o := by simpa using hne
  rw [hown] at ho
  have h0 : s.observers[o]? = some s.observers[o] := Array.getElem?_eq_getElem ho
  generalize s.observers[o] = ob at h0
  refine P23.Tot.bind_getObs h0 ?_
  cases hst : ob.state with
  | disallowed => exact Tot.pure (HFa.refl s)
  | unlinked => exact Tot.pure (HFa.refl s)
  | created =>
    dsimp only
    refine P23.Tot.bind_modObs ?_
    rw [if_neg (by simp)]
    exact Tot.pure ⟨SubsH.P9.HF.of_modObs s o _, rfl⟩
  | inUse =>
    dsimp only
    refine P23.Tot.bind_modObs ?_
    split
    · refine Tot.bind_modNode ?_
      exact Tot.pure ⟨(SubsH.P9.HF.of_modObs s o _).trans (SubsH.P9.HF.of_modNode _ _ _), rfl⟩
    · exact Tot.pure ⟨SubsH.P9.HF.of_modObs s o _, rfl⟩

/-- the token table names existing observers -/
def TokIn (tk : Array Nat) (s : State) : Prop := ∀ (t o : Nat), tk[t]? = some o → o < s.observers.size

theorem TokIn.mono {tk : Array Nat} {s s' : State} (h : TokIn tk s) (hsz : s.observers.size ≤ s'.observers.size) :
    TokIn tk s' := fun t o ht => Nat.lt_of_lt_of_le (h t o ht) hsz

theorem TokIn.push {tk : Array Nat} {s : State} {o : Nat} (h : TokIn tk s) (ho : o < s.observers.size) :
    TokIn (tk.push o) s := by
  intro t o' ht
  rw [Array.getElem?_push] at ht
  split at ht
  · cases ht; exact ho
  · exact h t o' ht

/-- the three subscription actions -/
def SubsOnly : Action → Prop
  | .subscribe _ _ | .unsubscribe _ _ | .stateUnsub _ => True
  | _ => False

/-- what a subscription action needs: `subscribe` names an existing observer (`unsubscribe` and `stateUnsub`
look the owner up in the token table, whose entries exist) -/
def SubsOK (s : State) : Action → Prop
  | .subscribe o _ => o < s.observers.size
  | _ => True

theorem subs_total {env : Env} {N : Nat} {s : State} {a : Action} {tk : Array Nat}
    (Q : SubsH.QInv env s) (T : TInv N s) (K : TokIn tk s) (ha : SubsOnly a) (hok : SubsOK s a) :
    Tot (stepAction env a tk) s (fun r s' => TokIn r.2 s' ∧ TInv N s' ∧ Grown a s s') := by
  cases a <;> try exact ha.elim
  case subscribe o hid =>
    simp only [stepAction]
    refine Tot.bind (subscribe_total (hid := hid) Q hok) ?_
    intro r s1 _ F
    have hz := F.sizes
    cases r with
    | ok t =>
      refine Tot.pure ⟨?_, F.tinv T, P27.Grown_same rfl hz.1 hz.2.1 hz.2.2⟩
      exact (K.push hok).mono (Nat.le_of_eq hz.2.2.symm)
    | error e =>
      exact Tot.pure ⟨K.mono (Nat.le_of_eq hz.2.2.symm), F.tinv T, P27.Grown_same rfl hz.1 hz.2.1 hz.2.2⟩
  case unsubscribe o t =>
    simp only [stepAction]
    cases ht : tk[t]? with
    | none => exact Tot.pure ⟨K, T, P27.Grown_same rfl rfl rfl rfl⟩
    | some owner =>
      dsimp only
      refine Tot.bind (unsubscribe_total (o := o) (t := t) (K t owner ht)) ?_
      intro r s1 _ F
      have hz := F.sizes
      cases r with
      | ok u =>
        cases u
        exact Tot.pure ⟨K.mono (Nat.le_of_eq hz.2.2.symm), F.tinv T, P27.Grown_same rfl hz.1 hz.2.1 hz.2.2⟩
      | error e =>
        exact Tot.pure ⟨K.mono (Nat.le_of_eq hz.2.2.symm), F.tinv T, P27.Grown_same rfl hz.1 hz.2.1 hz.2.2⟩
  case stateUnsub t =>
    simp only [stepAction]
    cases ht : tk[t]? with
    | none => exact Tot.pure ⟨K, T, P27.Grown_same rfl rfl rfl rfl⟩
    | some owner =>
      dsimp only
      refine Tot.bind_get ?_
      split
      · refine Tot.bind (P27.discard_total (unsubscribe_total (o := owner) (t := t) (K t owner ht))) ?_
        intro _ s1 _ F
        have hz := F.sizes
        exact Tot.pure ⟨K.mono (Nat.le_of_eq hz.2.2.symm), F.tinv T, P27.Grown_same rfl hz.1 hz.2.1 hz.2.2⟩
      · exact Tot.pure ⟨K, T, P27.Grown_same rfl rfl rfl rfl⟩

end IncrVerif.Proofs.TidyH.SubsT
