import IncrVerif.Proofs.PerKeyH101
import IncrVerif.Proofs.AssocMapLemmas
/-!
# Per-key operators, API actions part 11: `create (.perKey cut fam (.outer k))` (`cut` absent or `.eq`) keeps the invariant between actions
(`action_create_perKey`), and `ActionSpecP` modulo the slots of the static actions (`actionSpecP_of_slots`)
-/
namespace IncrVerif.Proofs.PerKeyH
open IncrVerif.Engine IncrVerif.Driver IncrVerif.Proofs IncrVerif.Proofs.Step IncrVerif.Proofs.Sched
open IncrVerif.Proofs.ExpertH IncrVerif.Proofs.EffH IncrVerif.Proofs.DriverH

/-- what `PInstrOK env s (.perKey fam.cut fam.fam (.outer k))` says, `k` naming node `a0` -/
structure PkIn (env : Env) (s : State) (fam : FamCut) (a0 k : Nat) : Prop where
  cut : fam.cut = none ∨ fam.cut = some .eq
  templ : TemplOK env (env.perKey fam.fam)
  top : s.top[k]? = some a0
  var : ∃ c vc m, (s.nodeD a0).kind = .var c ∧ s.vars[c]? = some vc ∧ vc.value = .map m ∧ IncrVerif.AMap.Sorted m ∧
    (∀ w, (s.nodeD a0).value = some w → ∃ m2, w = .map m2 ∧ IncrVerif.AMap.Sorted m2 ∧ keysSub m2 m)
  outer : ∀ j : Nat, j ∈ templOuter (env.perKey fam.fam) → ∃ o, s.top[j]? = some o

section
variable {env : Env} {s : State} {fam : FamCut} {a0 k : Nat}

theorem priv_new {x : Nat} (h : Priv env (pkNewOp fam s) x) : x = s.nodes.size + 2 := by
  rcases h with h | ⟨key, p, d, hm, -⟩
  · exact h
  · cases hm

/-- the bookkeeping of the new operator -/
theorem opOK_pkc_new (F : PFrag env s) (I : PkIn env s fam a0 k)
    (hin : ∀ n c, n < s.nodes.size → c ∈ kidsX s.experts (s.nodeD n).kind → c < s.nodes.size)
    (htop : ∀ (j n : Nat), s.top[j]? = some n → n < s.nodes.size) :
    OpOK env (pkCreated fam a0 s) s.perkeys.size (pkNewOp fam s) := by
  have ha : a0 < s.nodes.size := htop k a0 I.top
  have hr1 : (pkNewOp fam s).result - 1 = s.nodes.size := rfl
  refine ⟨I.cut, fun c x hc hx hp => ?_, fun x hp => ?_, fun j x hj hp => ?_, I.templ, ?_, List.nodup_nil, List.nodup_nil,
    IncrVerif.AMap.sorted_nil, fun key => rfl, fun hs => ?_⟩
  · have ex := priv_new hp
    by_cases hlt : c < s.nodes.size
    · rw [kidsX_pkc_old fam a0 F hlt] at hx
      have := hin c x hlt hx; omega
    · rcases kidsX_pkc_new fam a0 (by omega) hx with ⟨-, e⟩ | ⟨e, -⟩ | ⟨-, e⟩ | ⟨-, e⟩
      · omega
      · exact Or.inl e
      · omega
      · omega
  · rw [priv_new hp, pkc_nodeD_2]
  · have ex := priv_new hp
    rcases pkc_top_inv fam a0 s hj with h1 | h1
    · have := htop j x h1; omega
    · omega
  · obtain ⟨c, vc, m, hkc, -⟩ := I.var
    refine ⟨a0, s.experts.size, pkNewRec s, ?_, pkc_expert_new fam a0 s, rfl,
      ⟨s.nextDep, [], rfl, fun ed h => (by cases h), fun key p d h => (by cases h)⟩, fun key p d h => (by cases h),
      fun j hj => ?_⟩
    · refine ⟨Nat.le_add_left _ _, rfl, by rw [pkc_size]; show s.nodes.size + 1 + 2 < _; omega, ?_, by rw [hr1]; exact ha,
        ⟨c, by rw [pkc_nodeD_lt fam a0 s ha]; exact hkc⟩, ?_, ?_, ?_⟩
      · rw [hr1, pkc_nodeD_0]
      · show ((pkCreated fam a0 s).nodeD (s.nodes.size + 1)).kind = _
        rw [pkc_nodeD_1]
      · show ((pkCreated fam a0 s).nodeD (s.nodes.size + 2)).kind = _
        rw [pkc_nodeD_2]; rfl
      · show ((pkCreated fam a0 s).nodeD (s.nodes.size + 3)).kind = _
        rw [pkc_nodeD_3]; rfl
    · obtain ⟨o, ho⟩ := I.outer j hj
      exact ⟨o, pkc_top_old fam a0 s ho, by rw [hr1]; exact htop j o ho⟩
  · exfalso
    have : (pkCreated fam a0 s).isStale (s.nodes.size + 2) = true := by
      unfold State.isStale
      rw [pkc_nodeD_2]
      rfl
    rw [show (pkNewOp fam s).lhsChange = s.nodes.size + 2 from rfl, this] at hs
    cases hs

/-! ## the potential -/

/-- the potential of the new state -/
def psiNew (ψ : Nat → Nat) (N : Nat) : Nat → Nat := fun n =>
  if n = N then 2 * N else if n = N + 1 then 2 * (N + 2) + 1 else if n = N + 2 then 2 * (N + 2)
  else if n = N + 3 then 2 * (N + 3) else ψ n

theorem psiNew_lt (ψ : Nat → Nat) {N n : Nat} (h : n < N) : psiNew ψ N n = ψ n := by
  unfold psiNew
  rw [if_neg (by omega), if_neg (by omega), if_neg (by omega), if_neg (by omega)]
theorem psiNew_0 (ψ : Nat → Nat) (N : Nat) : psiNew ψ N N = 2 * N := by
  unfold psiNew; rw [if_pos rfl]
theorem psiNew_1 (ψ : Nat → Nat) (N : Nat) : psiNew ψ N (N + 1) = 2 * (N + 2) + 1 := by
  unfold psiNew; rw [if_neg (by omega), if_pos rfl]
theorem psiNew_2 (ψ : Nat → Nat) (N : Nat) : psiNew ψ N (N + 2) = 2 * (N + 2) := by
  unfold psiNew; rw [if_neg (by omega), if_neg (by omega), if_pos rfl]
theorem psiNew_3 (ψ : Nat → Nat) (N : Nat) : psiNew ψ N (N + 3) = 2 * (N + 3) := by
  unfold psiNew; rw [if_neg (by omega), if_neg (by omega), if_neg (by omega), if_pos rfl]

theorem pot_pkc (F : PFrag env s) (P : PKOK env s) (I : PkIn env s fam a0 k) {ψ : Nat → Nat} (hψ : Pot s ψ)
    (hin : ∀ n c, n < s.nodes.size → c ∈ kidsX s.experts (s.nodeD n).kind → c < s.nodes.size)
    (htop : ∀ (j n : Nat), s.top[j]? = some n → n < s.nodes.size) :
    Pot (pkCreated fam a0 s) (psiNew ψ s.nodes.size) := by
  have ha : a0 < s.nodes.size := htop k a0 I.top
  refine ⟨fun n c hn hc => ?_, fun j n h => ?_, fun op pr hpr => ?_, fun n hn => ?_⟩
  · by_cases hlt : n < s.nodes.size
    · rw [kidsX_pkc_old fam a0 F hlt] at hc
      have hc' := hin n c hlt hc
      rw [psiNew_lt ψ hlt, psiNew_lt ψ hc']; exact hψ.mono n c hlt hc
    · rcases kidsX_pkc_new fam a0 (by omega) hc with ⟨rfl, rfl⟩ | ⟨rfl, rfl⟩ | ⟨rfl, rfl⟩ | ⟨rfl, rfl⟩
      · rw [psiNew_0, psiNew_lt ψ ha, hψ.top k c I.top]; omega
      · rw [psiNew_1, psiNew_2]; omega
      · rw [psiNew_2, psiNew_0]; omega
      · rw [psiNew_3, psiNew_1]; omega
  · rcases pkc_top_inv fam a0 s h with h1 | rfl
    · rw [psiNew_lt ψ (htop j n h1)]; exact hψ.top j n h1
    · rw [psiNew_3]
  · rcases pkc_perkey_inv fam a0 s hpr with h1 | ⟨rfl, rfl⟩
    · obtain ⟨a, b, c, d⟩ := hψ.op op pr h1
      obtain ⟨x, e, er, hN, he, hpk, hch, hent, hout⟩ := (P.ops op pr h1).nodes
      have hlt := hN.lt
      have hlc := hN.lc
      refine ⟨by rw [psiNew_lt ψ (by omega)]; exact a, by rw [psiNew_lt ψ (by omega)]; exact b,
        by rw [psiNew_lt ψ (by omega)]; exact c, fun key p dd hm => ?_⟩
      rw [psiNew_lt ψ (hent key p dd hm).plt]; exact d key p dd hm
    · refine ⟨psiNew_1 ψ _, psiNew_2 ψ _, psiNew_0 ψ _, fun key p d h => by cases h⟩
  · rcases pkc_cases fam a0 s hn with h | rfl | rfl | rfl | rfl
    · rw [psiNew_lt ψ h]; exact hψ.le n h
    · rw [psiNew_0]; omega
    · rw [psiNew_1]; omega
    · rw [psiNew_2]; omega
    · rw [psiNew_3]; omega

/-! ## the bookkeeping invariant -/

theorem pkok_pkc (F : PFrag env s) (P : PKOK env s) (I : PkIn env s fam a0 k)
    (hin : ∀ n c, n < s.nodes.size → c ∈ kidsX s.experts (s.nodeD n).kind → c < s.nodes.size)
    (htop : ∀ (j n : Nat), s.top[j]? = some n → n < s.nodes.size) : PKOK env (pkCreated fam a0 s) := by
  have ha : a0 < s.nodes.size := htop k a0 I.top
  refine ⟨fun op pr hpr => ?_, fun e er he => ?_, ?_, fun n f args hn hk hf => ?_, fun o ob ho => ?_,
    fun op pr hpr v hv => ?_⟩
  · rcases pkc_perkey_inv fam a0 s hpr with h1 | ⟨rfl, rfl⟩
    · have h := P.ops op pr h1
      obtain ⟨x, e, er, hN, -⟩ := h.nodes
      have hlt := hN.lt
      refine h.of_frame (kf_pkc fam a0 F) (fun c x h1 h2 hx hp => ?_)
        (fun x hx ho => by rw [pkc_nodeD_lt fam a0 s hx]; exact ho) (fun j x hj => ?_) fun hs => ?_
      · have hxl := priv_lt h hp
        rcases kidsX_pkc_new fam a0 h1 hx with ⟨-, e⟩ | ⟨-, e⟩ | ⟨-, e⟩ | ⟨-, e⟩
        · rw [e] at hp; exact h.privTop k a0 I.top hp
        · omega
        · omega
        · omega
      · rcases pkc_top_inv fam a0 s hj with h1 | h1
        · exact Or.inl h1
        · right; intro hpv
          have := priv_lt h hpv; omega
      · have hl : pr.lhsChange < s.nodes.size := by rw [hN.lc]; omega
        rw [isStale_pkc_old fam a0 F hin hl] at hs
        rw [pkc_nodeD_lt fam a0 s (by omega)]; exact h.input hs
    · exact opOK_pkc_new F I hin htop
  · rcases pkc_expert_inv fam a0 s he with h | ⟨rfl, rfl⟩
    · obtain ⟨op, pr, hpr, h'⟩ := P.recs e er h
      exact ⟨op, pr, pkc_perkey_old fam a0 s hpr, h'⟩
    · exact ⟨s.perkeys.size, pkNewOp fam s, pkc_perkey_new fam a0 s, Or.inl ⟨rfl, rfl⟩⟩
  · obtain ⟨ψ, hψ⟩ := P.pot
    exact ⟨_, pot_pkc F P I hψ hin htop⟩
  · rcases pkc_cases fam a0 s hn with h | rfl | rfl | rfl | rfl
    · rw [pkc_nodeD_lt fam a0 s h] at hk
      obtain ⟨pr, hpr, hl⟩ := P.lcs n f args h hk hf
      exact ⟨pr, pkc_perkey_old fam a0 s hpr, hl⟩
    · rw [pkc_nodeD_0] at hk
      cases hk
      exact absurd hf (by decide)
    · rw [pkc_nodeD_1] at hk; cases hk
    · rw [pkc_nodeD_2] at hk
      cases hk
      rw [Nat.add_sub_cancel_left]
      exact ⟨pkNewOp fam s, pkc_perkey_new fam a0 s, rfl⟩
    · rw [pkc_nodeD_3] at hk
      cases hk
      exact absurd hf (by decide)
  · obtain ⟨j, hj⟩ := P.obsTop o ob ho
    exact ⟨j, pkc_top_old fam a0 s hj⟩
  · rcases pkc_perkey_inv fam a0 s hpr with h1 | ⟨rfl, rfl⟩
    · obtain ⟨x, e, er, hN, -⟩ := (P.ops op pr h1).nodes
      have hlt := hN.lt
      rw [pkc_nodeD_lt fam a0 s (by omega)] at hv
      exact P.maps op pr h1 v hv
    · rw [show (pkNewOp fam s).result - 1 = s.nodes.size from rfl, pkc_nodeD_0] at hv
      cases hv

/-! ## the key sets -/

theorem norem_pkc (P : PKOK env s) (N : NoRem s) (I : PkIn env s fam a0 k)
    (htop : ∀ (j n : Nat), s.top[j]? = some n → n < s.nodes.size) : NoRem (pkCreated fam a0 s) := by
  have ha : a0 < s.nodes.size := htop k a0 I.top
  intro op pr hpr
  rcases pkc_perkey_inv fam a0 s hpr with hp | ⟨rfl, rfl⟩
  · obtain ⟨x0, e, er, hN, -⟩ := (P.ops op pr hp).nodes
    have hlt := hN.lt
    have hx0 := hN.xlt
    obtain ⟨x, c, vc, mv, hk1, hk2, hv, hval, hs, h1, h2, h3⟩ := (N op pr hp).input
    have ex : x = x0 := by
      have := hN.conv
      rw [hk1] at this
      cases this; rfl
    have hr : (pkCreated fam a0 s).nodeD (pr.result - 1) = s.nodeD (pr.result - 1) :=
      pkc_nodeD_lt fam a0 s (by omega)
    have hx : (pkCreated fam a0 s).nodeD x = s.nodeD x := pkc_nodeD_lt fam a0 s (by omega)
    exact ⟨⟨x, c, vc, mv, by rw [hr]; exact hk1, by rw [hx]; exact hk2, hv, hval, hs, h1,
      by rw [hx]; exact h2, by rw [hr, hx]; exact h3⟩⟩
  · obtain ⟨c, vc, m, hkc, hv, hval, hs, hw⟩ := I.var
    have hx : (pkCreated fam a0 s).nodeD a0 = s.nodeD a0 := pkc_nodeD_lt fam a0 s ha
    have hnil : ∀ l : List (Int × Int), keysSub [] l := fun l key h => by cases h
    refine ⟨⟨a0, c, vc, m, ?_, by rw [hx]; exact hkc, hv, hval, hs, hnil m, fun w hw' => ?_, fun w hw' => ?_⟩⟩
    · rw [show (pkNewOp fam s).result - 1 = s.nodes.size from rfl, pkc_nodeD_0]
    · rw [hx] at hw'
      obtain ⟨m2, e, a, b⟩ := hw w hw'
      exact ⟨m2, e, a, b, hnil m2⟩
    · rw [show (pkNewOp fam s).result - 1 = s.nodes.size from rfl, pkc_nodeD_0] at hw'
      cases hw'

end

/-! ## the action -/

/-- **`create (.perKey cut fam x)` (`cut` absent or `.eq`) keeps the invariant between actions**, for a re-chosen rank -/
theorem action_create_perKey {env : Env} {rk : Nat → Nat} {s s' : State} {cut : Option CutoffK} {fam : Nat} {x : Opnd}
    {tk : Array Nat} {r : String × Array Nat} (Q : PQ env rk s) (hi : PInstrOK env s (.perKey cut fam x))
    (h : (stepAction env (.create (.perKey cut fam x)) tk).run.run s = (.ok r, s')) : ∃ rk', PQ env rk' s' := by
  obtain ⟨hcut, htempl, ⟨k, o, c, vc, m, rfl, hk, hkind, hv, hval, hs, hw⟩, houter⟩ := hi
  have I : PkIn env s ⟨fam, cut⟩ o k := ⟨hcut, htempl, hk, ⟨c, vc, m, hkind, hv, hval, hs, hw⟩, houter⟩
  have hin := kids_lt_of_q Q.q
  have htop := top_lt_of_q Q.q
  rw [perKey_create_inv (fam := ⟨fam, cut⟩) Q.frag.scope hk h]
  exact ⟨swapRk rk s.nodes.size, pfrag_pkc ⟨fam, cut⟩ o Q.frag, qinv_pkc ⟨fam, cut⟩ o Q.frag Q.pk.recs Q.q (htop k o hk),
    ahhEmpty_pkc ⟨fam, cut⟩ o Q.ahh, pkok_pkc Q.frag Q.pk I hin htop, slotInv_pkc ⟨fam, cut⟩ o Q.frag Q.slots hin,
    norem_pkc Q.pk Q.norem I htop⟩

end IncrVerif.Proofs.PerKeyH
