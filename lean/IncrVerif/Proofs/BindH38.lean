import IncrVerif.Proofs.BindH37
/-!
# Binds, the run of a change detector in fragment F0, part 3: from the drain invariant to the state after `relink`

* `ginvB_restamp`: the structural invariant in the state `pre n br v s` in which `relink` starts (the running node
  has been stamped: it is not stale any more and needs no excuse; the bind's main node is excused instead);
* `MidRel`: the state after `relink` against the state before the run;
* `nec_above`: the bind's main node (and everything above it) is still necessary after `relink`.
-/
namespace IncrVerif.Proofs.BindH
open IncrVerif.Engine IncrVerif.Proofs IncrVerif.Proofs.Step IncrVerif.Proofs.Sched IncrVerif.Proofs.Quiet
namespace BC

theorem nodeKey_inv {a b : Node} (h : Quiet.nodeKey b = Quiet.nodeKey a) :
    b.kind = a.kind ∧ b.createdIn = a.createdIn ∧ b.cutoff = a.cutoff ∧ b.value = a.value ∧ b.valid = a.valid ∧
      b.recomputedAt = a.recomputedAt ∧ b.changedAt = a.changedAt ∧ b.observers = a.observers ∧
      b.forceNecessary = a.forceNecessary := by
  simp only [Quiet.nodeKey, Prod.mk.injEq] at h
  exact ⟨h.1, h.2.1, h.2.2.1, h.2.2.2.1, h.2.2.2.2.1, h.2.2.2.2.2.1, h.2.2.2.2.2.2.1, h.2.2.2.2.2.2.2.1,
    h.2.2.2.2.2.2.2.2.1⟩

/-! ## the state in which `relink` starts -/

theorem pre_nodeD (n : Nat) (br : BindRec) (v : Val) (s : State) (m : Nat) :
    (pre n br v s).nodeD m =
      if n = m ∧ m < s.nodes.size then { s.nodeD m with recomputedAt := s.stabNum } else s.nodeD m :=
  started_nodeD n m s

theorem pre_other {n : Nat} (br : BindRec) (v : Val) (s : State) {m : Nat} (h : m ≠ n) :
    (pre n br v s).nodeD m = s.nodeD m := by
  rw [pre_nodeD, if_neg (fun e => h e.1.symm)]

theorem pre_self {n : Nat} (br : BindRec) (v : Val) {s : State} (h : n < s.nodes.size) :
    (pre n br v s).nodeD n = { s.nodeD n with recomputedAt := s.stabNum } := by
  rw [pre_nodeD, if_pos ⟨rfl, h⟩]

theorem pre_size (n : Nat) (br : BindRec) (v : Val) (s : State) :
    (pre n br v s).nodes.size = s.nodes.size := by
  simp [pre, logged, started]

/-- the structural invariant when one node (not queued) is re-stamped: only `queued` and `qstale` have to be
re-established -/
theorem ginvB_restamp {env : Env} {s s1 : State} {n : Nat} {x : Int} {ex ex' : Nat → Prop}
    (G : GInvB env s allClosed ex)
    (hpc : s1.panicCountdown = s.panicCountdown) (hsc : s1.currentScope = s.currentScope)
    (hsz : s1.nodes.size = s.nodes.size) (hrch : s1.rch = s.rch) (hvars : s1.vars = s.vars)
    (hbinds : s1.binds = s.binds)
    (hother : ∀ m, m ≠ n → s1.nodeD m = s.nodeD m)
    (hself : s1.nodeD n = { s.nodeD n with recomputedAt := x })
    (hnq : (s.nodeD n).inRch = false) (hfresh : s1.isStale n = false)
    (hq : ∀ m, m ≠ n → s.isNecessary m = true → s.isStale m = true → ¬ ex' m → (s.nodeD m).inRch = true) :
    GInvB env s1 allClosed ex' := by
  -- per-node facts
  have hkind : ∀ m, (s1.nodeD m).kind = (s.nodeD m).kind := fun m => by
    by_cases e : m = n
    · subst e; rw [hself]
    · rw [hother m e]
  have hvalid : ∀ m, (s1.nodeD m).valid = (s.nodeD m).valid := fun m => by
    by_cases e : m = n
    · subst e; rw [hself]
    · rw [hother m e]
  have hcutoff : ∀ m, (s1.nodeD m).cutoff = (s.nodeD m).cutoff := fun m => by
    by_cases e : m = n
    · subst e; rw [hself]
    · rw [hother m e]
  have hcreated : ∀ m, (s1.nodeD m).createdIn = (s.nodeD m).createdIn := fun m => by
    by_cases e : m = n
    · subst e; rw [hself]
    · rw [hother m e]
  have hparents : ∀ m, (s1.nodeD m).parents = (s.nodeD m).parents := fun m => by
    by_cases e : m = n
    · subst e; rw [hself]
    · rw [hother m e]
  have hheight : ∀ m, (s1.nodeD m).height = (s.nodeD m).height := fun m => by
    by_cases e : m = n
    · subst e; rw [hself]
    · rw [hother m e]
  have hhrch : ∀ m, (s1.nodeD m).heightInRch = (s.nodeD m).heightInRch := fun m => by
    by_cases e : m = n
    · subst e; rw [hself]
    · rw [hother m e]
  have hchg : ∀ m, (s1.nodeD m).changedAt = (s.nodeD m).changedAt := fun m => by
    by_cases e : m = n
    · subst e; rw [hself]
    · rw [hother m e]
  have hinr : ∀ m, (s1.nodeD m).inRch = (s.nodeD m).inRch := fun m => by
    unfold Node.inRch; rw [hhrch m]
  have hnec : ∀ m, s1.isNecessary m = s.isNecessary m := fun m => by
    by_cases e : m = n
    · subst e; unfold State.isNecessary; rw [hself]; rfl
    · unfold State.isNecessary; rw [hother m e]
  have hch : ∀ m, s1.children m = s.children m := fun m => by
    by_cases hm : m < s.nodes.size
    · exact children_congr_B (hkind m) (hvalid m) hbinds (G.frag.node m hm).kind
    · rw [children_default s m (by omega), children_default s1 m (by rw [hsz]; omega)]
  have hst : ∀ m, m ≠ n → s1.isStale m = s.isStale m := fun m e => by
    by_cases hm : m < s.nodes.size
    · exact isStale_congr_B (G.frag.node m hm).kind (hkind m) (hvalid m) (by rw [hother m e]) hvars hbinds
        (fun c _ => hchg c)
    · rw [BL.isStale_default s m (by omega), BL.isStale_default s1 m (by rw [hsz]; omega)]
  have hw : ∀ p i, Wants s1 allClosed p i ↔ Wants s allClosed p i := fun p i => by
    rw [wants_closed rfl, wants_closed rfl, hnec]
  exact {
    frag := by
      refine ⟨by rw [hpc]; exact G.frag.pc, by rw [hsc]; exact G.frag.scope, fun m hm => ?_⟩
      have sn := G.frag.node m (by rw [← hsz]; exact hm)
      refine ⟨by rw [hvalid]; exact sn.valid, by rw [hkind]; exact sn.kind, by rw [hcutoff]; exact sn.cutoff,
        by rw [hcreated]; exact sn.top, ?_, ?_, ?_, ?_⟩
      · rw [hch]; exact sn.kidsLt
      · rw [hkind, hbinds]; exact sn.lcRec
      · rw [hkind, hbinds]; exact sn.mainRec
      · intro c b hc hk
        rw [hch] at hc
        rw [hkind] at hk ⊢
        exact sn.lcChild c b hc hk
    par := fun c p i hm => by
      rw [hparents] at hm
      rw [hch, hw]
      exact G.par c p i hm
    conv := fun p i c hk hwn => by
      rw [hch] at hk
      rw [hw] at hwn
      rw [hparents]
      exact G.conv p i c hk hwn
    nodup := fun c => by rw [hparents]; exact G.nodup c
    hlt := fun c p i hm ho => by
      rw [hparents] at hm
      rw [hheight, hheight]
      exact G.hlt c p i hm ho
    hpos := fun m hn ho => by
      rw [hnec] at hn
      rw [hheight]; exact G.hpos m hn ho
    lnec := fun p k ho => by cases ho
    unec := fun p k ho => by cases ho
    heap := G.heap.congr hrch hsz hhrch
    hgt := fun m hq' ho => by
      rw [hinr] at hq'
      rw [hhrch, hheight]; exact G.hgt m hq' ho
    qnec := fun m hq' => by
      rw [hinr] at hq'
      rw [hnec]; exact G.qnec m hq'
    queued := fun m _ hn hs hx => by
      have e : m ≠ n := by
        intro e; subst e; rw [hfresh] at hs; cases hs
      rw [hnec] at hn
      rw [hst m e] at hs
      rw [hinr]; exact hq m e hn hs hx
    qstale := fun m hq' => by
      rw [hinr] at hq'
      have e : m ≠ n := by
        intro e; subst e; rw [hnq] at hq'; cases hq'
      rw [hst m e]; exact G.qstale m hq'
    opLt := fun m ho => absurd rfl ho }

/-- the adjust-heights heap of the state in which `relink` starts -/
theorem ahhEmpty_pre {n : Nat} (br : BindRec) (v : Val) {s : State} (h : AhhEmpty s) :
    AhhEmpty (pre n br v s) := by
  refine ⟨h.length, h.buckets, fun m => ?_⟩
  rw [pre_nodeD]
  split
  · exact h.marks m
  · exact h.marks m

/-! ## facts about the bind of the running change detector -/

/-- the child list of a bind's main node -/
theorem children_main {s : State} {m b lc : Nat} {br : BindRec} (hv : (s.nodeD m).valid = true)
    (hk : (s.nodeD m).kind = .bindMain b lc) (hb : s.binds[b]? = some br) :
    s.children m = lc :: (match br.rhs with | some r => [r] | none => []) := by
  simp only [State.children, BS.kind?_of_valid hv, hk, hb]
  rfl

/-- what `DInv` and `F0Inv` say about the bind of the running change detector -/
theorem lc_facts {env : Env} {s : State} {n b : Nat} (I : DInv env s (some n)) (A : F0Inv env s)
    (hk : (s.nodeD n).kind = .bindLhsChange b) :
    ∃ br, s.binds[b]? = some br ∧ br.lhsChange = n ∧ n < br.main ∧ br.main < s.nodes.size ∧
      (s.nodeD br.main).kind = .bindMain b n ∧ n ∈ s.children br.main ∧ s.isNecessary br.main = true ∧
      (s.nodeD br.main).recomputedAt < s.stabNum := by
  obtain ⟨hn, hlt, hv, -, -⟩ := I.cur_facts
  obtain ⟨br, hb, hlc⟩ := (A.frag.node n hlt).lcRec b hk
  obtain ⟨h1, h2, -, h4⟩ := A.recs b br hb
  rw [hlc] at h1 h4
  have hvm := (A.frag.node br.main h2).valid
  have hmem : n ∈ s.children br.main := by rw [children_main hvm h4 hb]; simp
  refine ⟨br, hb, hlc, h1, h2, h4, hmem, ?_, I.fresh br.main n (Below.of_edge (Edge.child hmem)) (Or.inr rfl)⟩
  -- `n` is necessary, unobserved and not forced: it has a recorded parent, which is the main node
  rcases (isNecessary_iff s n).1 hn with hp | ho | hf
  · obtain ⟨⟨p, i⟩, hpi⟩ := List.exists_mem_of_ne_nil _ hp
    obtain ⟨hpn, hci⟩ := I.graph.parent n p i hpi
    have hpl := I.graph.nec_lt hpn
    have hkp := (A.frag.node p hpl).lcChild n b (List.mem_of_getElem? hci) hk
    obtain ⟨br', hb', hm', -⟩ := (A.frag.node p hpl).mainRec b n hkp
    rw [hb] at hb'; cases hb'
    rw [hm']; exact hpn
  · exact absurd (A.lcObs n b hk) ho
  · rw [A.noForce n] at hf; cases hf

/-! ## the state after `relink` against the state before the run -/

/-- fields that nothing in the run of a change detector (in F0) touches -/
structure NK (a b : Node) : Prop where
  kind : b.kind = a.kind
  valid : b.valid = a.valid
  cutoff : b.cutoff = a.cutoff
  createdIn : b.createdIn = a.createdIn
  observers : b.observers = a.observers
  forceNecessary : b.forceNecessary = a.forceNecessary

structure MidRel (n b rhs : Nat) (br : BindRec) (s t : State) : Prop where
  size : t.nodes.size = s.nodes.size
  nk : ∀ m, NK (s.nodeD m) (t.nodeD m)
  value : ∀ m, (t.nodeD m).value = (s.nodeD m).value
  recO : ∀ m, m ≠ n → (t.nodeD m).recomputedAt = (s.nodeD m).recomputedAt
  chgO : ∀ m, m ≠ n → (t.nodeD m).changedAt = (s.nodeD m).changedAt
  recN : (t.nodeD n).recomputedAt = s.stabNum
  chgN : (t.nodeD n).changedAt = s.stabNum
  bind : t.binds[b]? = some { br with rhs := some rhs }
  bindsSize : t.binds.size = s.binds.size
  bindsOther : ∀ b', b' ≠ b → t.binds[b']? = s.binds[b']?
  vars : t.vars = s.vars
  stabNum : t.stabNum = s.stabNum
  top : t.top = s.top

theorem midRel_of {n b rhs : Nat} {br : BindRec} {v : Val} {s t : State} (hlt : n < s.nodes.size)
    (R : RRelB b n rhs br (pre n br v s) t) : MidRel n b rhs br s t := by
  have hs : ∀ m, m ≠ n → _ := fun m e => nodeKey_inv (R.node m e)
  have hn := nodeKey_inv R.self
  rw [pre_self br v hlt] at hn
  refine ⟨R.size.trans (pre_size ..), fun m => ?_, fun m => ?_, fun m e => ?_, fun m e => ?_, hn.2.2.2.2.2.1,
    hn.2.2.2.2.2.2.1, R.bind, R.bindsSize, R.bindsOther, R.vars, R.stabNum, R.top⟩
  · by_cases e : m = n
    · subst e
      exact ⟨hn.1, hn.2.2.2.2.1, hn.2.2.1, hn.2.1, hn.2.2.2.2.2.2.2.1, hn.2.2.2.2.2.2.2.2⟩
    · have h := hs m e
      rw [pre_other br v s e] at h
      exact ⟨h.1, h.2.2.2.2.1, h.2.2.1, h.2.1, h.2.2.2.2.2.2.2.1, h.2.2.2.2.2.2.2.2⟩
  · by_cases e : m = n
    · subst e; exact hn.2.2.2.1
    · have h := hs m e
      rw [pre_other br v s e] at h
      exact h.2.2.2.1
  · have h := hs m e
    rw [pre_other br v s e] at h
    exact h.2.2.2.2.2.1
  · have h := hs m e
    rw [pre_other br v s e] at h
    exact h.2.2.2.2.2.2.1

namespace MidRel
variable {env : Env} {n b rhs : Nat} {br : BindRec} {s t : State}

/-- the record a bind index names after `relink`, against the one before -/
theorem bind_cases (M : MidRel n b rhs br s t) (hb : s.binds[b]? = some br) (b' : Nat) :
    (b' = b ∧ t.binds[b']? = some { br with rhs := some rhs } ∧ s.binds[b']? = some br) ∨
      (b' ≠ b ∧ t.binds[b']? = s.binds[b']?) := by
  by_cases e : b' = b
  · subst e; exact Or.inl ⟨rfl, M.bind, hb⟩
  · exact Or.inr ⟨e, M.bindsOther b' e⟩

/-- every child list but the main node's is unchanged -/
theorem children (M : MidRel n b rhs br s t) (A : AllB env s) (hb : s.binds[b]? = some br) {m : Nat}
    (hm : m ≠ br.main) : t.children m = s.children m := by
  by_cases hlt : m < s.nodes.size
  · have sn := A.node m hlt
    have hv := sn.valid
    have hv' : (t.nodeD m).valid = true := by rw [(M.nk m).valid]; exact hv
    have hk' := (M.nk m).kind
    unfold State.children
    rw [BS.kind?_of_valid hv, BS.kind?_of_valid hv', hk']
    cases hkd : (s.nodeD m).kind with
    | bindLhsChange b' =>
      dsimp only
      rcases M.bind_cases hb b' with ⟨-, h1, h2⟩ | ⟨-, h1⟩
      · rw [h1, h2]
      · rw [h1]
    | bindMain b' lc =>
      dsimp only
      rcases M.bind_cases hb b' with ⟨e, -, h2⟩ | ⟨-, h1⟩
      · exfalso
        obtain ⟨br', hb', hm', -⟩ := sn.mainRec b' lc hkd
        rw [h2] at hb'; cases hb'
        exact hm hm'.symm
      · rw [h1]
    | expert e => have := sn.kind; rw [hkd] at this; exact this.elim
    | _ => rfl
  · rw [children_default s m (by omega), children_default t m (by rw [M.size]; omega)]

/-- the child list of the main node after `relink` -/
theorem children_main' (M : MidRel n b rhs br s t) (A : AllB env s) (hlt : br.main < s.nodes.size)
    (hk : (s.nodeD br.main).kind = .bindMain b n) : t.children br.main = [n, rhs] := by
  have hv : (t.nodeD br.main).valid = true := by rw [(M.nk _).valid]; exact (A.node _ hlt).valid
  rw [children_main hv (by rw [(M.nk _).kind]; exact hk) M.bind]

theorem nec_of (M : MidRel n b rhs br s t) {m : Nat}
    (h : (s.nodeD m).observers ≠ [] ∨ (s.nodeD m).forceNecessary = true) : t.isNecessary m = true := by
  rw [isNecessary_iff]
  rcases h with h | h
  · exact Or.inr (Or.inl (by rw [(M.nk m).observers]; exact h))
  · exact Or.inr (Or.inr (by rw [(M.nk m).forceNecessary]; exact h))

/-- everything at or above the bind's main node that was necessary still is -/
theorem nec_above {ex ex' : Nat → Prop} (M : MidRel n b rhs br s t) (G : GInvB env s allClosed ex)
    (Gt : GInvB env t allClosed ex') (hb : s.binds[b]? = some br) :
    ∀ k m, s.nodes.size - m ≤ k → br.main ≤ m → s.isNecessary m = true → t.isNecessary m = true := by
  intro k
  induction k with
  | zero =>
    intro m hk _ hn
    have := nec_lt_size hn
    omega
  | succ k ih =>
    intro m hk hmm hn
    rcases (isNecessary_iff s m).1 hn with hp | ho | hf
    · obtain ⟨⟨q, i⟩, hqi⟩ := List.exists_mem_of_ne_nil _ hp
      obtain ⟨hci, hwq⟩ := G.par m q i hqi
      have hqn : s.isNecessary q = true := (wants_closed rfl).1 hwq
      have hmq : m < q := G.kid_lt hci
      have hql : q < s.nodes.size := G.kid_lt_size hci
      have hqt := ih q (by omega) (by omega) hqn
      have hci' : (t.children q)[i]? = some m := by
        rw [M.children G.frag hb (by omega)]; exact hci
      exact nec_of_mem_parents (Gt.conv q i m hci' ((wants_closed rfl).2 hqt))
    · exact M.nec_of (Or.inl ho)
    · exact M.nec_of (Or.inr hf)

end MidRel

end BC
end IncrVerif.Proofs.BindH
