import IncrVerif.Proofs.DriverH26
/-!
# Drivers: the real run of a driver, part 2 — `stepMapSpec`

One `recomputeOne` of a `map` node with a user function: its effects rewire the expert nodes it drives (`StepW` on
the virtual states, by the contracts `EffectsSpec`, `MidOfDInv`, `StepWOfMid`), then `maybeChangeValue` is an ordinary
static step `BindH.StepRelB` of the node in the new graph.
-/
namespace IncrVerif.Proofs.DriverH
open IncrVerif.Engine IncrVerif.Driver IncrVerif.Proofs IncrVerif.Proofs.Step IncrVerif.Proofs.Sched
open IncrVerif.Proofs.ExpertH IncrVerif.Proofs.ExpertH.QR IncrVerif.Proofs.EffH

/-- the fields of `nodeKey`, one by one -/
theorem EF.nk {D : Nat → Prop} {s s' : State} (h : EF D s s') (m : Nat) :
    (s'.nodeD m).kind = (s.nodeD m).kind ∧ (s'.nodeD m).createdIn = (s.nodeD m).createdIn ∧
    (s'.nodeD m).cutoff = (s.nodeD m).cutoff ∧ (s'.nodeD m).value = (s.nodeD m).value ∧
    (s'.nodeD m).valid = (s.nodeD m).valid ∧ (s'.nodeD m).recomputedAt = (s.nodeD m).recomputedAt ∧
    (s'.nodeD m).changedAt = (s.nodeD m).changedAt ∧ (s'.nodeD m).observers = (s.nodeD m).observers ∧
    (s'.nodeD m).forceNecessary = (s.nodeD m).forceNecessary ∧
    (s'.nodeD m).numOnUpdateHandlers = (s.nodeD m).numOnUpdateHandlers := by
  have := h.node m
  simpa only [nodeKey, Prod.mk.injEq] using this

theorem EF.dnKey {D : Nat → Prop} {s s' : State} (h : EF D s s') (m : Nat) :
    dnKey (s'.nodeD m) = dnKey (s.nodeD m) := by
  obtain ⟨h1, h2, h3, -, h5, -, -, h8, h9, h10⟩ := h.nk m
  simp only [DriverH.dnKey, h1, h2, h3, h5, h8, h9, h10]

/-- the protected edges along the frames `XF` (children, `nextDep`, kinds) and `XS` (`script`, `sel`) -/
theorem Drives.of_xf_xs {s s' : State} (hx : XF s s') (hs : XS s s') {m x : Nat} (h : Drives s m x) :
    Drives s' m x := by
  obtain ⟨h1, e, er, h2, h3, ed, h4, h5, h6, h7, h8⟩ := h
  obtain ⟨er', he', hf, -, hc, -, -⟩ := hx.xrec h3
  obtain ⟨er2, he2, hsc, hsel⟩ := hs.get h3
  rw [he'] at he2; cases he2
  refine ⟨by rw [hx.size]; exact h1, e, er', by rw [hx.kind]; exact h2, he', ed, by rw [hc]; exact h4, h5,
    by rw [hx.nextDep]; exact h6, by rw [hsc]; exact h7, ?_⟩
  intro d c hd
  rw [hsel] at hd
  exact h8 d c hd


/-! ## the run, split -/

/-- the event a user `map` node logs -/
def mapEv (env : Env) (n f : Nat) (vals : List Val) : Event := .inv s!"f{f}" n vals (env.fn f vals).render

theorem keep_mapEv (env : Env) (n f : Nat) (vals : List Val) : ∀ e, e ∈ [mapEv env n f vals] → keepEv e = true := by
  intro e he; simp only [List.mem_singleton] at he; subst he; exact isF_f f

/-- a successful run of a user `map` node: the arguments were read, the effects ran from `started n s` to some `s2`,
then `maybeChangeValue` ran from `s2` (with the event logged) to the final state -/
theorem run_split {env : Env} {fuel n f : Nat} {args : List Nat} {s s' : State} {r : Option Nat}
    (F : XFrag (noEff env) s) (hlt : n < s.nodes.size) (hk : (s.nodeD n).kind = .map f args) (hf : f < fnZip)
    (h : (recomputeOne env fuel n).run.run s = (.ok r, s')) :
    ∃ vals s2, valuesOf env s args = some vals ∧
      (runEffects env fuel (env.fnEff f vals) ((vals.headD .unit).toInt)).run.run (started n s) = (.ok (), s2) ∧
      (maybeChangeValue env fuel n (env.fn f vals)).run.run (logged [mapEv env n f vals] s2) = (.ok r, s') := by
  have hnd := some_of_lt hlt
  have hval := F.valid n hlt
  obtain ⟨vals, hvals⟩ := recomputeOne_ok_vals hnd hval (Or.inl ⟨f, hk⟩) h
  rw [recomputeOne_mapEff_run env fuel n s _ f args vals hnd hval hk hf hvals F.pc] at h
  obtain ⟨u, s2, hX, h2⟩ := bind_ok_inv h
  rw [run_bind_logEv] at h2
  exact ⟨vals, s2, hvals, hX, h2⟩


/-! ## the static step in the new graph -/

theorem eKey_fields {a b : State} (h : eKey a = eKey b) :
    a.vars = b.vars ∧ a.binds = b.binds ∧ a.stabNum = b.stabNum ∧ a.top = b.top ∧
      a.propagateInvalidity = b.propagateInvalidity ∧ a.panicCountdown = b.panicCountdown := by
  simp only [eKey, Prod.mk.injEq] at h
  obtain ⟨h1, h2, h3, -, -, -, -, -, -, -, -, -, -, h14, h15, -, -, h18⟩ := h
  exact ⟨h1, h2, h3, h15, h14, h18⟩

theorem map_not_expert {k : Kind} {f : Nat} {args : List Nat} (hk : k = .map f args) : ∀ e, k ≠ .expert e := by
  intro e h; rw [hk] at h; cases h

/-- the run of `maybeChangeValue` after the effects is a static step `StepRelB` of `n` from the unstamped virtual
state of `s2`, towards the target of `n`'s defining expression -/
theorem static_step {env : Env} {fuel n f : Nat} {args : List Nat} {vals : List Val} {s s2 s' : State}
    {r : Option Nat} {D : Nat → Prop}
    (frs : Fr s) (hlt : n < s.nodes.size)
    (hk : (s.nodeD n).kind = .map f args) (hvals : valuesOf env s args = some vals)
    (M2 : Mid (noEff env) s2) (ef : EF D (started n s) s2)
    (I' : BindH.DInv (virtEnv (noEff env)) (unstamp n (s.nodeD n).recomputedAt (virt s2)) (some n))
    (h : (maybeChangeValue env fuel n (env.fn f vals)).run.run (logged [mapEv env n f vals] s2) = (.ok r, s')) :
    ∃ ch, BindH.StepRelB n (env.fn f vals) ch r (unstamp n (s.nodeD n).recomputedAt (virt s2)) (virt s') ∧
      BindH.TargetB (virtEnv (noEff env)) (unstamp n (s.nodeD n).recomputedAt (virt s2)) n (env.fn f vals) ∧
      Fr s' := by
  have fr2 : Fr s2 := M2.fr
  obtain ⟨hvirt, fr'⟩ := Sim.maybeChangeValue env fuel n _ _ (fr2.logged _) r s' h
  rw [virt_logged _ _ (keep_mapEv env n f vals)] at hvirt
  have henv : maybeChangeValue (virtEnv (noEff env)) fuel n (env.fn f vals) =
      maybeChangeValue (virtEnv env) fuel n (env.fn f vals) := mcv_noEff (virtEnv env) fuel n _
  rw [← henv] at hvirt
  obtain ⟨k1, -, -, -, -, k6, -, -, -, -⟩ := ef.nk n
  have hkn2 : (s2.nodeD n).kind = .map f args := by rw [k1, started_kind, hk]
  have hvn : (virt s2).nodeD n = s2.nodeD n := by
    rw [virt_nodeD, virtNode_of_not_expert _ _ (map_not_expert hkn2)]
  have hstab : s2.stabNum = s.stabNum := (eKey_fields ef.key).2.2.1
  have hrec : ((logged [mapEv env n f vals] (virt s2)).nodeD n).recomputedAt =
      (unstamp n (s.nodeD n).recomputedAt (virt s2)).stabNum := by
    show ((virt s2).nodeD n).recomputedAt = s2.stabNum
    rw [hvn, k6, hstab, started_nodeD, if_pos ⟨rfl, hlt⟩]
  obtain ⟨ch, R⟩ := BindH.BS.mcv_stepB I'.graph I'.heap (I'.cur n rfl).1
    (upd_unstamp n _ (virt s2) _ fr2.pc) rfl (unstamp_fields n _ (virt s2) n).1.symm hrec
    (unstamp_fields n _ (virt s2) n).2.1.symm hvirt
  refine ⟨ch, R, ?_, fr'⟩
  have hkU : ((unstamp n (s.nodeD n).recomputedAt (virt s2)).nodeD n).kind = .map f args := by
    rw [← (unstamp_shape n _ (virt s2) n).kind, hvn, hkn2]
  simp only [BindH.TargetB, Target, hkU]
  refine ⟨vals, ?_, rfl⟩
  rw [valuesOf_eq_evalArgs] at hvals
  rw [← hvals]
  unfold plainVals
  refine evalArgs_congr _ _ _ fun a _ => ?_
  rw [value_plain env s a (frs.not_mapRef a), (unstamp_fields n _ (virt s2) a).1, virt_nodeD, virtNode_value,
    (ef.nk a).2.2.2.1, (started_value_field n s a).1]


/-! ## what the run of `maybeChangeValue` keeps -/

theorem SameShape.symm' {a b : Node} (h : SameShape a b) : SameShape b a :=
  ⟨h.kind.symm, h.createdIn.symm, h.valid.symm, h.cutoff.symm, h.height.symm, h.parents.symm, h.observers.symm,
    h.forceNecessary.symm⟩

/-- the auxiliary invariant, the state fields, the node fields and the protected edges along the run of
`maybeChangeValue` that ends a run of a `map` node -/
theorem post_frames {env : Env} {fuel n : Nat} {v : Val} {ch : Bool} {r0 : Int} {es : List Event} {s2 s' : State}
    {r : Option Nat}
    (A2 : AuxD (noEff env) s2) (fr' : Fr s')
    (R : BindH.StepRelB n v ch r (unstamp n r0 (virt s2)) (virt s'))
    (h : (maybeChangeValue env fuel n v).run.run (logged es s2) = (.ok r, s')) :
    AuxD (noEff env) s' ∧ s'.nodes.size = s2.nodes.size ∧ eKey s' = eKey s2 ∧
      (∀ m, dnKey (s'.nodeD m) = dnKey (s2.nodeD m)) ∧ (∀ m x, Drives s2 m x → Drives s' m x) := by
  have hxf : XF s2 s' :=
    (XF.of_nodes rfl rfl rfl : XF s2 (logged es s2)).trans ((PresX.maybeChangeValue env fuel n v).h _ _ _ h)
  have hahf : AhF s2 s' :=
    (AhF.of_nodes rfl rfl : AhF s2 (logged es s2)).trans ((PresAh.maybeChangeValue env fuel n v).h _ _ _ h)
  have hxs : XS s2 s' :=
    (XS.of_experts rfl : XS s2 (logged es s2)).trans ((PresS.maybeChangeValue env fuel n v).h _ _ _ h)
  have C : Calm (logged es s2) s' := (PresC.maybeChangeValue env fuel n v).h _ _ _ h
  have hnum : ∀ m, (s'.nodeD m).numOnUpdateHandlers = (s2.nodeD m).numOnUpdateHandlers := fun m => C.num m
  -- the shapes, read in the virtual states
  have shv : ∀ m, SameShape ((virt s2).nodeD m) ((virt s').nodeD m) := fun m =>
    (SameShape.symm' (unstamp_shape n r0 (virt s2) m)).trans (R.shapes m)
  have sh : ∀ m, (s'.nodeD m).createdIn = (s2.nodeD m).createdIn ∧ (s'.nodeD m).valid = (s2.nodeD m).valid ∧
      (s'.nodeD m).cutoff = (s2.nodeD m).cutoff ∧ (s'.nodeD m).parents = (s2.nodeD m).parents ∧
      (s'.nodeD m).observers = (s2.nodeD m).observers ∧
      (s'.nodeD m).forceNecessary = (s2.nodeD m).forceNecessary := by
    intro m
    have k := shv m
    rw [virt_nodeD, virt_nodeD] at k
    exact ⟨k.createdIn, k.valid, k.cutoff, k.parents, k.observers, k.forceNecessary⟩
  have hsz : s'.nodes.size = s2.nodes.size := hxf.size
  have hkey : eKey s' = eKey s2 :=
    eKey_mcv (s := logged es s2) A2.handlers R.vars R.stabNum R.qsize (R.pc.trans A2.frag.pc.symm) h
  refine ⟨⟨A2.frag.of_xf hxf fr', ahhEmpty_of_ahf A2.ahh hahf, fr'.pinv, fun m => by rw [hnum]; exact A2.handlers m,
    ?_, fun c => by rw [(sh c).2.2.2.1]; exact A2.nodup c, ?_⟩, hsz, hkey, fun m => ?_,
    fun m x hd => hd.of_xf_xs hxf hxs⟩
  · obtain ⟨rk, A⟩ := A2.rank
    refine ⟨rk, allStatic_congr A (by rw [virt_size, virt_size, hsz]) shv R.pc ?_⟩
    have K : KeyD (logged es s2) s' := (PresK.maybeChangeValue env fuel n v).h _ _ _ h
    have hK : stateKeyD s' = stateKeyD (logged es s2) := K
    simp only [stateKeyD, Prod.mk.injEq] at hK
    exact hK.2.2.1
  · exact varsOK_congr A2.vars (by rw [virt_size, virt_size, hsz]) (fun m => (shv m).kind) R.vars
  · obtain ⟨h1, h2, h3, -, h5, h6⟩ := sh m
    simp only [dnKey, hxf.kind m, h1, h2, h3, h5, h6, hnum m]


/-! ## the rewiring step keeps the stamps of this round -/

theorem frameB_of_stepW {env : Env} {X : Nat → Prop} {n : Nat} {S S' : State} (I : BindH.DInv env S (some n))
    (W : StepW env X n S S') : BindH.FrameB S S' where
  stabNum := W.stabNum
  vars := W.vars
  grow := by rw [W.size]; exact Nat.le_refl _
  ran m hm := by
    by_cases hlt : m < S.nodes.size
    · obtain ⟨k0, -, -, -, k⟩ := W.old m hlt
      by_cases hX : X m
      · exfalso
        have := I.fresh m n (BindH.Below.of_edge (BindH.Edge.child (W.rewired m hX).1)) (Or.inr rfl)
        omega
      · exact ⟨by rw [(k hX).2.1]; exact hm, k0⟩
    · exfalso
      rw [nodeD_default_of_ge S m (by omega)] at hm
      have h1 := I.stamps.now
      have h2 : (default : Node).recomputedAt = -1 := rfl
      omega

/-! ## the theorem -/

/-- **One `recomputeOne` of a `map` node with a user function** (possibly a driver), from the drain invariant with
drivers, given the contracts of the effect list and the two bridges. -/
theorem stepMapSpec (env : Env) (hEff : EffectsSpec env) (hM : MidOfDInv (EffH.noEff env))
    (hW : StepWOfMid (EffH.noEff env)) : StepMapSpec env := by
  intro fuel n f args s s' r D hk hf h
  have I := D.inv
  have A := D.aux
  obtain ⟨hnecV, hltV, -, -, -⟩ := I.cur_facts
  have hlt : n < s.nodes.size := by rw [← virt_size]; exact hltV
  have hnec : s.isNecessary n = true := by rw [← virt_isNecessary]; exact hnecV
  have frs : Fr s := A.frag.fr A.pinv
  have hne := map_not_expert hk
  -- the run, split
  obtain ⟨vals, s2, hvals, hX, hrun⟩ := run_split A.frag hlt hk hf h
  -- the effects
  have M1 : Mid (noEff env) (started n s) := hM n s I A hne
  have hOK : ∀ eff, eff ∈ env.fnEff f vals → EffOK (started n s) n eff := fun eff he =>
    (D.drv n f args hlt hk hf vals eff he).to_started
  obtain ⟨M2, ef, hDr, hn2⟩ := hEff fuel n _ _ (started n s) s2 M1 hOK hX
  have hnec2 : s2.isNecessary n = true := hn2 (by rw [started_isNecessary]; exact hnec)
  -- the rewiring step of the virtual states
  obtain ⟨W, A2⟩ := hW n (DOf (started n s) n) s s2 I A hne M2 ef
    (fun e x hD hkx => driver_child A.frag hD hkx) hnec2
  have I' := stepW_inv I W
  -- the static step of `n` in the new graph
  obtain ⟨ch, R, ht, fr'⟩ := static_step frs hlt hk hvals M2 ef I' hrun
  have I'' := BindH.stepB_inv I' ht R
  -- frames
  obtain ⟨A', hsz, hkey, hnode, hDr'⟩ := post_frames A2 fr' R hrun
  have hsize : s'.nodes.size = s.nodes.size := hsz.trans (ef.size.trans (started_size n s))
  have hkey' : eKey s' = eKey s := hkey.trans ef.key
  have hnode' : ∀ m, dnKey (s'.nodeD m) = dnKey (s.nodeD m) := fun m =>
    (hnode m).trans ((ef.dnKey m).trans (started_dnKey n s m))
  have hkind : ∀ m, (s'.nodeD m).kind = (s.nodeD m).kind := fun m => congrArg Prod.fst (hnode' m)
  have hstab : s2.stabNum = s.stabNum := (eKey_fields ef.key).2.2.1
  refine ⟨⟨I'', A', ?_⟩, ⟨(frameB_of_stepW I W).trans R.frame, hsize, hkey', hnode'⟩, R.recomputedAt.trans hstab⟩
  exact drvOK_frameM D.drv hsize hkind (eKey_fields hkey').2.2.2.1
    (fun m x hd => hDr' m x (hDr m x hd.to_started))

end IncrVerif.Proofs.DriverH
