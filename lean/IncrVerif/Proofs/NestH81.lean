import IncrVerif.Proofs.NestH76
import IncrVerif.Proofs.NestH16
import IncrVerif.Proofs.NestH80
/-!
# Total correctness for nested binds (F2), unlinking side, part 2: headline statements

`checkIfUnnecessary_total2`, `becameUnnecessary_total2`, `removeChildren_total2`: under the structural invariant `GInv2` (nested binds,
ghost rank `rk`), on the open node of lowest rank, with fuel linear in the POSITION `cnt rk s.nodes.size n` of the node in the rank
order, the unlinking cascade RETURNS (no panic: `getNode`, `removeParent`'s `"not-a-parent"`, the `dassert` of `becameUnnecessary`,
`rchRemove`/`rchUnlink`, fuel), and keeps the height bound `HBo2`.  The `…_full2` versions also give everything the partial-correctness
specs (`NU3`) give (`GInv2` afterwards, `AboveR2`, `URel`) and `NecH` (necessity shrinks, necessary nodes keep their height).
-/
namespace IncrVerif.Proofs.NestH
open IncrVerif.Engine IncrVerif.Proofs IncrVerif.Proofs.Step IncrVerif.Proofs.Sched IncrVerif.Proofs.Quiet
open IncrVerif.Proofs.BindH
open IncrVerif.Proofs.Quiet.P22

section
variable {env : Env} {rk : Nat → Nat} {fuel : Nat} {s : State} {op : Nat → Op} {ex : Nat → Prop} {dy : List Nat}

/-- **the unlinking cascade returns** (fragment F2), with everything known about the final state -/
theorem checkIfUnnecessary_full2 {c : Nat} (I : GInv2 env rk s op ex dy) (hb : HBo2 rk s op)
    (hlow : ∀ m, op m ≠ .closed → rk c ≤ rk m)
    (hcase : (s.isNecessary c = true ∧ op c = .closed) ∨ (s.isNecessary c = false ∧ op c = .unlinking 0))
    (hf : 3 * cnt rk s.nodes.size c + 3 ≤ fuel) :
    Tot (checkIfUnnecessary fuel c) s (fun _ s' =>
      GInv2 env rk s' (upd op c .closed) ex dy ∧ AboveR2 rk s c s' ∧ URel s s' ∧ NecH s s' ∧
        HBo2 rk s' (upd op c .closed)) := by
  obtain ⟨u, s', hrun, N⟩ := (TU.unlink_tot2 fuel).2.1 env rk c s op ex dy I hlow hcase hf
  obtain ⟨I', hab, hu⟩ := checkIfUnnecessary_spec2 hrun I hlow hcase
  refine ⟨u, s', hrun, I', hab, hu, N, TU.hbo2_of_necH hb N hu.fr.size (fun m ho hm => ?_)⟩
  by_cases e : m = c
  · rw [e] at hm ⊢
    rcases hcase with ⟨_, h⟩ | ⟨h, _⟩
    · exact h
    · rw [h] at hm; cases hm
  · rw [upd_other _ _ _ e] at ho; exact ho

/-- **the unlinking cascade returns**, and the height bound is kept -/
theorem checkIfUnnecessary_total2 {c : Nat} (I : GInv2 env rk s op ex dy) (hb : HBo2 rk s op)
    (hlow : ∀ m, op m ≠ .closed → rk c ≤ rk m)
    (hcase : (s.isNecessary c = true ∧ op c = .closed) ∨ (s.isNecessary c = false ∧ op c = .unlinking 0))
    (hf : 3 * cnt rk s.nodes.size c + 3 ≤ fuel) :
    Tot (checkIfUnnecessary fuel c) s (fun _ s' => HBo2 rk s' (upd op c .closed)) :=
  (checkIfUnnecessary_full2 I hb hlow hcase hf).mono (fun _ _ h => h.2.2.2.2)

/-- the position of a node of the state is below the node count: fuel `3 * size` is always enough -/
theorem checkIfUnnecessary_full2_size {c : Nat} (I : GInv2 env rk s op ex dy) (hb : HBo2 rk s op)
    (hlow : ∀ m, op m ≠ .closed → rk c ≤ rk m)
    (hcase : (s.isNecessary c = true ∧ op c = .closed) ∨ (s.isNecessary c = false ∧ op c = .unlinking 0))
    (hf : 3 * s.nodes.size ≤ fuel) :
    Tot (checkIfUnnecessary fuel c) s (fun _ s' =>
      GInv2 env rk s' (upd op c .closed) ex dy ∧ AboveR2 rk s c s' ∧ URel s s' ∧ NecH s s' ∧
        HBo2 rk s' (upd op c .closed)) := by
  have hc : c < s.nodes.size := by
    rcases hcase with ⟨h, _⟩ | ⟨_, h⟩
    · exact nec_lt_size h
    · exact I.opLt c (by rw [h]; exact Op.unlinking_ne_closed _)
  have := cnt_lt_size (rk := rk) hc
  exact checkIfUnnecessary_full2 I hb hlow hcase (by omega)

/-- `becameUnnecessary n` on the open node of lowest rank, labelled `.unlinking 0`, returns -/
theorem becameUnnecessary_full2 {n : Nat} (I : GInv2 env rk s op ex dy) (hb : HBo2 rk s op)
    (hop : op n = .unlinking 0) (hlow : ∀ m, op m ≠ .closed → rk n ≤ rk m)
    (hf : 3 * cnt rk s.nodes.size n + 2 ≤ fuel) :
    Tot (becameUnnecessary fuel n) s (fun _ s' =>
      GInv2 env rk s' (upd op n .closed) ex dy ∧ AboveR2 rk s n s' ∧ URel s s' ∧ NecH s s' ∧
        HBo2 rk s' (upd op n .closed)) := by
  obtain ⟨u, s', hrun, N⟩ := (TU.unlink_tot2 fuel).1 env rk n s op ex dy I hop hlow hf
  obtain ⟨I', hab, hu⟩ := becameUnnecessary_spec2 hrun I hop hlow
  refine ⟨u, s', hrun, I', hab, hu, N, TU.hbo2_of_necH hb N hu.fr.size (fun m ho hm => ?_)⟩
  by_cases e : m = n
  · rw [e] at hm
    rw [I.unec n 0 hop] at hm; cases hm
  · rw [upd_other _ _ _ e] at ho; exact ho

theorem becameUnnecessary_total2 {n : Nat} (I : GInv2 env rk s op ex dy) (hb : HBo2 rk s op)
    (hop : op n = .unlinking 0) (hlow : ∀ m, op m ≠ .closed → rk n ≤ rk m)
    (hf : 3 * cnt rk s.nodes.size n + 2 ≤ fuel) :
    Tot (becameUnnecessary fuel n) s (fun _ s' => HBo2 rk s' (upd op n .closed)) :=
  (becameUnnecessary_full2 I hb hop hlow hf).mono (fun _ _ h => h.2.2.2.2)

/-- `removeChildren n` on the open node of lowest rank, labelled `.unlinking 0`, returns: afterwards none of its child edges is
recorded; `n` itself and the nodes of higher rank are untouched -/
theorem removeChildren_full2 {n : Nat} (I : GInv2 env rk s op ex dy) (hb : HBo2 rk s op)
    (hop : op n = .unlinking 0) (hlow : ∀ m, op m ≠ .closed → rk n ≤ rk m)
    (hf : 3 * cnt rk s.nodes.size n + 1 ≤ fuel) :
    Tot (removeChildren fuel n) s (fun _ s' =>
      GInv2 env rk s' (upd op n (.unlinking (s.children n).length)) ex dy ∧
        (∀ m, rk n ≤ rk m → s'.nodeD m = s.nodeD m) ∧ URel s s' ∧ NecH s s' ∧
        HBo2 rk s' (upd op n (.unlinking (s.children n).length))) := by
  obtain ⟨u, s', hrun, N⟩ := (TU.unlink_tot2 fuel).2.2 env rk n s op ex dy I hop hlow hf
  obtain ⟨I', hsame, hu⟩ := removeChildren_spec2 hrun I hop hlow
  refine ⟨u, s', hrun, I', hsame, hu, N, TU.hbo2_of_necH hb N hu.fr.size (fun m ho hm => ?_)⟩
  by_cases e : m = n
  · rw [e, upd_self] at ho; cases ho
  · rw [upd_other _ _ _ e] at ho; exact ho

theorem removeChildren_total2 {n : Nat} (I : GInv2 env rk s op ex dy) (hb : HBo2 rk s op)
    (hop : op n = .unlinking 0) (hlow : ∀ m, op m ≠ .closed → rk n ≤ rk m)
    (hf : 3 * cnt rk s.nodes.size n + 1 ≤ fuel) :
    Tot (removeChildren fuel n) s (fun _ s' => HBo2 rk s' (upd op n (.unlinking (s.children n).length))) :=
  (removeChildren_full2 I hb hop hlow hf).mono (fun _ _ h => h.2.2.2.2)

end

end IncrVerif.Proofs.NestH
