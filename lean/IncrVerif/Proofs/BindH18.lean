import IncrVerif.Proofs.BindH17
import IncrVerif.Proofs.BindH3
/-!
# Binds, part Kx: non-vacuity of `DInv` and `StepL` on states reached by concrete histories (`decide +kernel` on the
sound Boolean checkers `dinvRB`, `stepLRB`)
-/
namespace IncrVerif.Proofs.BindH
open IncrVerif.Engine IncrVerif.Proofs IncrVerif.Proofs.Step IncrVerif.Proofs.Sched

theorem bEnv_pure : ∀ f vals, bEnv.fnEff f vals = [] := fun _ _ => rfl

/-- a rank function given by a table (index = node) -/
def rkTab (l : List Nat) (a : Nat) : Nat := l.getD a 0

/-- a labelling given by the list of its members -/
def labOf (l : List Nat) (a : Nat) : Bool := l.contains a

/-! ## example A (`B1x.exA`): v1 has been recomputed in this round; node 4 (created in scope `.bind 0`: change detector
node 2, main node 3; children `[1, 1]`) is stale and queued.  Ranks: `rk 2 < rk 4 < rk 3`. -/

theorem exA_dinv : DInv bEnv exA none :=
  dinvRB_sound (rk := rkTab [1, 1, 2, 4, 3]) (clean := labOf [1]) (low := fun _ => false) bEnv_pure (by decide +kernel)

/-- the checker does discriminate: the rank `id` fails (the main node 3 has the child 4, so `rk 4 < rk 3` is needed), and so
does an empty `clean` (node 1 has been recomputed in this round) -/
example : dinvRB bEnv exA none id (labOf [1]) (fun _ => false) = false ∧
    dinvRB bEnv exA none (rkTab [1, 1, 2, 4, 3]) (fun _ => false) (fun _ => false) = false := by decide +kernel

/-- the state in which the drain starts -/
theorem exA0_dinv : DInv bEnv exA0 none :=
  dinvRB_sound (rk := rkTab [1, 1, 2, 4, 3]) (clean := fun _ => false) (low := fun _ => false) bEnv_pure
    (by decide +kernel)

/-! ## example D (`B1x.exD`): a current node (5), a queued change detector (7), a node of its scope (9) above both -/

theorem exD_dinv : DInv bEnv exD (some 5) :=
  dinvRB_sound (rk := rkTab [1, 1, 2, 2, 3, 4, 3, 3, 6, 5]) (clean := labOf [0, 1, 2, 3, 4, 6])
    (low := labOf [5, 4, 3, 1]) bEnv_pure (by decide +kernel)

/-! ## example L: a run of a change detector -/

/-- v0 = 0, v1 = 1, `bind b0 v0` (change detector 2, main 3; the closure run on 0 creates node 4 = `map f0 [1, 1]`),
observed, stabilised; then `v0 := 1` -/
def exL0 : State :=
  runActs bEnv [.create (.var (.int 0)), .create (.var (.int 1)), .create (.bind 0 (.outer 0)),
    .observe (.outer 2), .stabilise, .set 0 (.int 1)] (State.init 8 true)

/-- the var node 0 has been popped and has run; it handed over its only parent, the change detector 2 -/
def exL : State := after (recomputeOne bEnv 9 0) (after rchRemoveMin exL0)

example : retOf rchRemoveMin exL0 = some (some 0) ∧
    retOf (recomputeOne bEnv 9 0) (after rchRemoveMin exL0) = some (some 2) ∧
    (exL.nodeD 2).kind = .bindLhsChange 0 := by decide +kernel

/-- the state in which the change detector is about to run -/
theorem exL_dinv : DInv bEnv exL (some 2) :=
  dinvRB_sound (rk := rkTab [1, 1, 2, 4, 3]) (clean := labOf [0]) (low := labOf [2, 0]) bEnv_pure (by decide +kernel)

/-- … after its run: the closure ran on 1 and created node 5 = `map f0 [1]`; node 4 died; the main node 3 and the new
node 5 are queued -/
def exL' : State := after (recomputeOne bEnv 20 2) exL

theorem exL_run : (recomputeOne bEnv 20 2).run.run exL = (.ok none, exL') :=
  run_eq_of_retOf (by decide +kernel)

theorem exL_stepL : ∃ br br', StepL bEnv 2 0 br br' none exL exL' :=
  stepLRB_sound (rk' := rkTab [1, 1, 2, 4, 0, 3]) bEnv_pure (by decide +kernel)

example : exL.nodes.size = 5 ∧ exL'.nodes.size = 6 ∧ (exL'.nodeD 4).valid = false ∧
    (exL'.nodeD 5).valid = true ∧ (exL'.nodeD 5).kind = .map 0 [1] ∧ (exL'.nodeD 5).createdIn = .bind 0 ∧
    (exL'.nodeD 5).inRch = true ∧ (exL'.nodeD 3).inRch = true ∧ exL'.children 3 = [2, 5] := by decide +kernel

/-- the drain invariant holds again (no current node) -/
theorem exL'_dinv : DInv bEnv exL' none :=
  dinvRB_sound (rk := rkTab [1, 1, 2, 4, 0, 3]) (clean := labOf [0, 2, 4]) (low := fun _ => false) bEnv_pure
    (by decide +kernel)

end IncrVerif.Proofs.BindH
