import IncrVerif.Proofs.PerKeyH13
/-!
# A run of a per-key change detector, part 3: FRAME LEMMAS — the bookkeeping invariant along `BF`

`BF D a b` (LC1): nodes and records are only appended, old nodes keep their kind, `top` is unchanged, old records keep
`node`, `pk`; the `children` of old records are only appended, and unchanged outside `D`.
* group 1: `kidsX_bf`, `kidsX_bf_same`, `Below.bf`, `Inst.bf`, `OpNodes.bf`
* group 2: `EntryOK.bf_core`, `EntryOK.bf`, `EntryOK.bf_other`
* group 3: `priv_kind`, `OpOK.bf_other` (LC3b)
-/
namespace IncrVerif.Proofs.PerKeyH
open IncrVerif.Engine IncrVerif.Driver IncrVerif.Proofs IncrVerif.Proofs.Step IncrVerif.Proofs.Sched
open IncrVerif.Proofs.ExpertH IncrVerif.Proofs.EffH IncrVerif.Proofs.DriverH IncrVerif.Proofs.ExpertH.QR

/-! ## 1. basic -/

theorem bf_nodeD_ge (s : State) (m : Nat) (h : s.nodes.size ≤ m) : s.nodeD m = default := by
  simp only [State.nodeD]
  rw [Array.getElem?_eq_none h]; rfl

theorem bf_kidsX_ge (s : State) (m : Nat) (h : s.nodes.size ≤ m) : kidsX s.experts (s.nodeD m).kind = [] := by
  rw [bf_nodeD_ge s m h]; rfl

/-- the children of a node are still its children -/
theorem kidsX_bf {D : Nat → Prop} {a b : State} (B : BF D a b) {c x : Nat}
    (hx : x ∈ kidsX a.experts (a.nodeD c).kind) : x ∈ kidsX b.experts (b.nodeD c).kind := by
  by_cases hc : c < a.nodes.size
  · rw [B.kind c hc]
    cases hk : (a.nodeD c).kind <;> rw [hk] at hx <;> try exact hx
    rename_i e
    simp only [kidsX] at hx ⊢
    cases he : a.experts[e]? with
    | none => rw [xRec_none he] at hx; simp at hx
    | some er =>
      obtain ⟨er', he', -, -, -, ext, hext⟩ := B.xrec e er he
      rw [xRec_some he] at hx
      rw [xRec_some he', hext, List.map_append]
      exact List.mem_append_left _ hx
  · rw [bf_kidsX_ge a c (by omega)] at hx
    cases hx

/-- an old node whose record (if any) is outside `D` keeps its children -/
theorem kidsX_bf_same {D : Nat → Prop} {a b : State} (B : BF D a b) {c : Nat} (hc : c < a.nodes.size)
    (h : ∀ e, (a.nodeD c).kind = .expert e → ¬ D e ∧ ∃ er, a.experts[e]? = some er) :
    kidsX b.experts (b.nodeD c).kind = kidsX a.experts (a.nodeD c).kind := by
  rw [B.kind c hc]
  cases hk : (a.nodeD c).kind <;> try rfl
  rename_i e
  obtain ⟨hnD, er, he⟩ := h e hk
  obtain ⟨er', he', -, -, hsame, -⟩ := B.xrec e er he
  simp only [kidsX]
  rw [xRec_some he, xRec_some he', hsame hnD]

theorem Below.bf {D : Nat → Prop} {a b : State} (B : BF D a b) {x y : Nat} (h : ExpertH.Below a x y) :
    ExpertH.Below b x y := by
  induction h with
  | refl a => exact .refl a
  | step h1 _ ih => exact .step (kidsX_bf B h1) ih

theorem Inst.bf {D : Nat → Prop} {a b : State} (B : BF D a b) {t : Template} {key : Int} {p : Nat}
    {locs : List Nat} {m : Nat} (h : Inst a t key p locs m) : Inst b t key p locs m where
  len := h.len
  lt c hc := Nat.lt_of_lt_of_le (h.lt c hc) B.grow
  kind j i c hi hc := by
    rw [B.top, B.kind c (h.lt c (List.mem_of_getElem? hc))]; exact h.kind j i c hi hc
  ret := by rw [B.top]; exact h.ret

theorem OpNodes.bf {D : Nat → Prop} {a b : State} (B : BF D a b) {op : Nat} {pr pr' : PerKeyRec} {x e : Nat}
    (hr : pr'.result = pr.result) (hl : pr'.lhsChange = pr.lhsChange)
    (N : OpNodes a op pr x e) : OpNodes b op pr' x e := by
  have h0 := N.lt
  have hx := N.xlt
  refine ⟨by rw [hr]; exact N.pos, by rw [hr, hl]; exact N.lc, by rw [hr]; exact Nat.lt_of_lt_of_le N.lt B.grow,
    ?_, by rw [hr]; exact N.xlt, ?_, ?_, ?_, ?_⟩
  · rw [hr, B.kind _ (by omega)]; exact N.conv
  · rw [B.kind _ (by omega)]; exact N.xvar
  · rw [hr, B.kind _ (by omega)]; exact N.result
  · rw [hr, B.kind _ (by omega)]; exact N.lcKind
  · rw [hr, B.kind _ (by omega)]; exact N.out

/-! ## 2. one entry -/

/-- the general form: the record of the per-key input node is outside `D`; the dependencies of the result are kept -/
theorem EntryOK.bf_core {env : Env} {D : Nat → Prop} {a b : State} {op : Nat} {pr pr' : PerKeyRec}
    {er er' : ExpertRec} {key : Int} {p d : Nat} (B : BF D a b)
    (hP : ∀ ep erp, a.experts[ep]? = some erp → erp.pk = some (op, some key) → ¬ D ep)
    (hc : ∀ ed : ExpertEdge, ed ∈ er.children → ed ∈ er'.children)
    (hr : pr'.result = pr.result) (hl : pr'.lhsChange = pr.lhsChange) (hf : pr'.fam = pr.fam)
    (h : EntryOK env a op pr er key p d) : EntryOK env b op pr' er' key p d where
  plt := Nat.lt_of_lt_of_le h.plt B.grow
  pnode := by
    obtain ⟨ep, erp, d0, h1, h2, h3, h4⟩ := h.pnode
    obtain ⟨erp', h2', -, k3, k4, -⟩ := B.xrec ep erp h2
    exact ⟨ep, erp', d0, by rw [B.kind p h.plt]; exact h1, h2', k3.trans h3,
      by rw [k4 (hP ep erp h2 h3), hl]; exact h4⟩
  edge := by
    obtain ⟨ed, locs, h1, h2, h3, h4, h5, h6⟩ := h.edge
    rw [hr, hf]
    exact ⟨ed, locs, hc ed h1, h2, h3, h4.bf B, h5, h6⟩
  input := by
    rcases h.input with ⟨ed, h1, h2, h3⟩ | h0
    · exact Or.inl ⟨ed, hc ed h1, h2, Below.bf B h3⟩
    · obtain ⟨ep, erp, d0, hk, -⟩ := h.pnode
      exact Or.inr (B.stamp p ep h.plt hk h0)
  consec := by
    obtain ⟨ed, h1, h2, h3, h4⟩ := h.consec
    rw [hf]
    exact ⟨ed, hc ed h1, h2, h3.bf B, Nat.lt_of_lt_of_le h4 B.grow⟩

/-- an entry of the RUNNING operator: its result record `eres` is the only record whose children may grow -/
theorem EntryOK.bf {env : Env} {D : Nat → Prop} {a b : State} {op eres : Nat} {pr pr' : PerKeyRec}
    {er er' : ExpertRec} {key : Int} {p d : Nat} (B : BF D a b) (hD : ∀ e, D e → e = eres)
    (he : a.experts[eres]? = some er) (he' : b.experts[eres]? = some er') (hpk : er.pk = some (op, none))
    (hr : pr'.result = pr.result) (hl : pr'.lhsChange = pr.lhsChange) (hf : pr'.fam = pr.fam)
    (h : EntryOK env a op pr er key p d) : EntryOK env b op pr' er' key p d := by
  refine h.bf_core B (fun ep erp h1 h2 hd => ?_) (fun ed hed => ?_) hr hl hf
  · have := hD ep hd
    subst this
    rw [he] at h1
    cases h1
    rw [hpk] at h2
    cases h2
  · obtain ⟨er1, he1, -, -, -, ext, hext⟩ := B.xrec eres er he
    rw [he'] at he1
    cases he1
    rw [hext]
    exact List.mem_append_left _ hed

/-- an entry of ANOTHER operator: no record of that operator is in `D` (the record `eres` is not a per-key input record
of `op`; the result record `er` of `op` keeps its children) -/
theorem EntryOK.bf_other {env : Env} {D : Nat → Prop} {a b : State} {op eres : Nat} {pr pr' : PerKeyRec}
    {er er' eres_rec : ExpertRec} {key : Int} {p d : Nat} (B : BF D a b) (hD : ∀ e, D e → e = eres)
    (hres : a.experts[eres]? = some eres_rec) (hpk : ∀ k : Int, eres_rec.pk ≠ some (op, some k))
    (hc : er'.children = er.children)
    (hr : pr'.result = pr.result) (hl : pr'.lhsChange = pr.lhsChange) (hf : pr'.fam = pr.fam)
    (h : EntryOK env a op pr er key p d) : EntryOK env b op pr' er' key p d := by
  refine h.bf_core B (fun ep erp h1 h2 hd => ?_) (fun ed hed => by rw [hc]; exact hed) hr hl hf
  have := hD ep hd
  subst this
  rw [hres] at h1
  cases h1
  exact hpk key h2

end IncrVerif.Proofs.PerKeyH
