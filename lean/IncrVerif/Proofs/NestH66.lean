import IncrVerif.Proofs.NestH64
import IncrVerif.Proofs.NestH48
import IncrVerif.Proofs.NestH49
import IncrVerif.Proofs.NestH50
import IncrVerif.Proofs.BindH107
import IncrVerif.Proofs.BindH109
import IncrVerif.Proofs.NestH65
/-!
# Nested binds (F2), part 4h-2: whole histories of the fragment

* `N4h.top_step2`: a successful action of the fragment changes the number of naming-table entries exactly as `HistF2` counts them: a `create` pushes one
  entry (`step_create2`), every other action leaves the table alone (`BindH.C2h.PresTop.stepAction`: nothing but `create` writes `top`);
* `runActions_q2`, `runActions_split2`, `history_q2`, `history_prefix2`, `history_stabilise2` (ports of `BindH.runActions_q1`, … of `Proofs/BindH109.lean`).
-/
namespace IncrVerif.Proofs.NestH
open IncrVerif.Engine IncrVerif.Driver IncrVerif.Proofs IncrVerif.Proofs.Step IncrVerif.Proofs.Sched IncrVerif.Proofs.Quiet
open IncrVerif.Proofs.BindH

namespace N4h

/-- apart from `create`, the actions of F2 are those of F1 -/
theorem actionF1_of_F2 {env : Env} {T : Nat} {a : Action} (ha : ActionF2 env T a) (hc : ∀ i, a ≠ .create i) :
    ActionF1 env T a := by
  cases a <;> first | exact ha | exact (hc _ rfl).elim

/-- the number of naming-table entries after an action of the fragment -/
theorem top_step2 {env : Env} {s s' : State} {a : Action} {tokens : Array Nat} {r : String × Array Nat}
    (Q : QI2 env s) :
    ActionF2 env s.top.size a → (stepAction env a tokens).run.run s = (.ok r, s') →
    s'.top.size = (match a with | .create _ => s.top.size + 1 | _ => s.top.size) := by
  intro ha h
  by_cases hc : ∃ i, a = .create i
  · obtain ⟨i, e⟩ := hc
    rw [e] at h ha ⊢
    obtain ⟨-, -, m, hm, -⟩ := step_create2 Q ha h
    show s'.top.size = s.top.size + 1
    rw [hm, Array.size_push]
  · have hc' : ∀ i, a ≠ .create i := fun i e => hc ⟨i, e⟩
    have ht := ((C2h.PresTop.stepAction tokens (actionF1_of_F2 ha hc') hc').h _ _ _ h).top
    rw [ht]
    cases a <;> first | rfl | exact (hc' _ rfl).elim

end N4h

section
variable {env : Env}
  (STAB : ∀ {fuel : Nat} {s s' : State}, QI2 env s → (stabilise env fuel).run.run s = (.ok (), s') → QI2 env s')
include STAB

/-- a run of `as ++ bs` from a state satisfying the invariant: the prefix runs, reaches a state satisfying the invariant, and the rest is a history of
the fragment for the naming table of that state -/
theorem runActions_split2 {as bs : List Action} {s s' : State} {tk tk' : Array Nat}
    (Q : QI2 env s) (hH : HistF2 env s.top.size (as ++ bs))
    (h : Quiet.runActions env (as ++ bs) s tk = .ok (s', tk')) :
    ∃ s1 tk1, Quiet.runActions env as s tk = .ok (s1, tk1) ∧ QI2 env s1 ∧ HistF2 env s1.top.size bs ∧
      Quiet.runActions env bs s1 tk1 = .ok (s', tk') := by
  induction as generalizing s tk with
  | nil => exact ⟨s, tk, rfl, Q, hH, h⟩
  | cons a as ih =>
    simp only [List.cons_append, Quiet.runActions] at h ⊢
    obtain ⟨ha, hrest⟩ := hH
    rcases hx : (stepAction env a tk).run.run s with ⟨_ | r, s1⟩
    · rw [hx] at h; cases h
    · rw [hx] at h
      have Q1 := step_q2 STAB Q ha hx
      have ht := N4h.top_step2 Q ha hx
      have hrest' : HistF2 env s1.top.size (as ++ bs) := by rw [ht]; exact hrest
      exact ih Q1 hrest' h

/-- **a list of actions.** A history of the fragment that runs without panic from a state satisfying the invariant ends in a state satisfying it. -/
theorem runActions_q2 {acts : List Action} {s s' : State} {tk tk' : Array Nat}
    (Q : QI2 env s) (hH : HistF2 env s.top.size acts)
    (h : Quiet.runActions env acts s tk = .ok (s', tk')) : QI2 env s' := by
  have hH' : HistF2 env s.top.size (acts ++ []) := by rw [List.append_nil]; exact hH
  have h' : Quiet.runActions env (acts ++ []) s tk = .ok (s', tk') := by rw [List.append_nil]; exact h
  obtain ⟨s1, tk1, -, Q1, -, h2⟩ := runActions_split2 STAB Q hH' h'
  simp only [Quiet.runActions] at h2
  cases h2
  exact Q1

/-- **whole histories.** The initial state followed by a history of the fragment. -/
theorem history_q2 {N : Nat} {d : Bool} {acts : List Action} {s : State} {tk : Array Nat}
    (hH : HistF2 env 0 acts) (h : Quiet.runActions env acts (State.init N d) #[] = .ok (s, tk)) : QI2 env s :=
  runActions_q2 STAB (qi2_init env N d) hH h

/-- **every state reached.** If a history of the fragment runs (without panic) from the initial state, then every prefix runs, and the state it reaches
satisfies the invariant (and the rest of the history is a history of the fragment for its naming table). -/
theorem history_prefix2 {N : Nat} {d : Bool} {as bs : List Action} {s : State} {tk : Array Nat}
    (hH : HistF2 env 0 (as ++ bs)) (h : Quiet.runActions env (as ++ bs) (State.init N d) #[] = .ok (s, tk)) :
    ∃ s1 tk1, Quiet.runActions env as (State.init N d) #[] = .ok (s1, tk1) ∧ QI2 env s1 ∧
      HistF2 env s1.top.size bs ∧ Quiet.runActions env bs s1 tk1 = .ok (s, tk) :=
  runActions_split2 STAB (qi2_init env N d) hH h

/-- **every `stabilise` of a history.** At each `stabilise` action of a history of the fragment that runs from the initial state: the state `s1` before it
satisfies the invariant, the `stabilise` returns a state `s2`, which satisfies the invariant, and the rest of the history runs from `s2`. -/
theorem history_stabilise2 {N : Nat} {d : Bool} {as bs : List Action} {s : State} {tk : Array Nat}
    (hH : HistF2 env 0 (as ++ Action.stabilise :: bs))
    (h : Quiet.runActions env (as ++ Action.stabilise :: bs) (State.init N d) #[] = .ok (s, tk)) :
    ∃ s1 tk1 s2, Quiet.runActions env as (State.init N d) #[] = .ok (s1, tk1) ∧ QI2 env s1 ∧
      (stabilise env fuelDefault).run.run s1 = (.ok (), s2) ∧ QI2 env s2 ∧ HistF2 env s2.top.size bs ∧
      Quiet.runActions env bs s2 tk1 = .ok (s, tk) := by
  obtain ⟨s1, tk1, h1, Q1, hH1, h2⟩ := history_prefix2 STAB hH h
  simp only [Quiet.runActions] at h2
  rcases hx : (stepAction env .stabilise tk1).run.run s1 with ⟨_ | r, s2⟩
  · rw [hx] at h2; cases h2
  · rw [hx] at h2
    replace h2 : Quiet.runActions env bs s2 r.2 = .ok (s, tk) := h2
    have hst := Quiet.step_stabilise hx
    have ht := N4h.top_step2 Q1 hH1.1 hx
    have hH2 : HistF2 env s2.top.size bs := by rw [ht]; exact hH1.2
    have htk : r.2 = tk1 := by
      unfold stepAction at hx
      dsimp only at hx
      obtain ⟨u, s3, h3, h4⟩ := bind_ok_inv hx
      obtain ⟨e, -⟩ := pure_ok_inv h4
      rw [e]
    rw [htk] at h2
    exact ⟨s1, tk1, s2, h1, Q1, hst, STAB Q1 hst, hH2, h2⟩

end

end IncrVerif.Proofs.NestH
