import IncrVerif.Proofs.Sched9
import IncrVerif.Proofs.SchedW
import IncrVerif.Proofs.SchedEx
/-!
# A concrete quiescent state (non-vacuity witness for L4)
-/
namespace IncrVerif.Proofs.Sched
open IncrVerif.Engine IncrVerif.Proofs IncrVerif.Proofs.Step

/-- the three-node graph of `exD` at rest in round 1: var 0 holds 1 (written in round 0), node 1 =
`map f0 [0]` = 1, node 2 = `map f0 [0, 1]` = 2 (observed); empty heap, nothing deferred -/
def exQ : State :=
  { State.init 3 with
    nodes := #[
      { kind := .var 0, createdIn := .top, value := some (.int 1), recomputedAt := 0, changedAt := 0,
        height := 0, parents := [(1, 0), (2, 0)] },
      { kind := .map 0 [0], createdIn := .top, value := some (.int 1), recomputedAt := 0, changedAt := 0,
        height := 1, parents := [(2, 1)] },
      { kind := .map 0 [0, 1], createdIn := .top, value := some (.int 2), recomputedAt := 0,
        changedAt := 0, height := 2, observers := [0], cutoff := .never }],
    vars := #[{ value := .int 1, setAt := 0, node := 0 }],
    stabNum := 1 }

theorem exQ_ge (m : Nat) (h : 3 ≤ m) : exQ.nodeD m = default :=
  nodeD_default_of_ge exQ m h

theorem exQ_static (n : Nat) (h : n < 3) : StaticKind exEnv (exQ.nodeD n).kind := by
  match n, h with
  | 0, _ => exact True.intro
  | 1, _ => exact ⟨by decide, fun _ _ => rfl⟩
  | 2, _ => exact ⟨by decide, fun _ _ => rfl⟩

theorem exQ_graph : Graph exEnv exQ where
  pc := rfl
  nec := by
    refine cases3 _ ?_ ?_ ?_ ?_
    · intro _; exact ⟨by decide, rfl, exQ_static 0 (by omega), Or.inl rfl, by decide⟩
    · intro _; exact ⟨by decide, rfl, exQ_static 1 (by omega), Or.inl rfl, by decide⟩
    · intro _; exact ⟨by decide, rfl, exQ_static 2 (by omega), Or.inr rfl, by decide⟩
    · intro m hm h; rw [State.isNecessary, exQ_ge m hm] at h; cases h
  var := by
    refine cases3 _ ?_ ?_ ?_ ?_
    · intro c _ hk; cases hk; exact ⟨_, rfl⟩
    · intro c _ hk; cases hk
    · intro c _ hk; cases hk
    · intro m hm c h; rw [State.isNecessary, exQ_ge m hm] at h; cases h
  child := by
    refine cases3 _ ?_ ?_ ?_ ?_
    · intro _ i c h; simp [exQ, State.nodeD, kids] at h
    · intro _ i c h
      match i with
      | 0 => cases h; exact ⟨rfl, by decide, by decide⟩
      | i + 1 => simp [exQ, State.nodeD, kids] at h
    · intro _ i c h
      match i with
      | 0 => cases h; exact ⟨rfl, by decide, by decide⟩
      | 1 => cases h; exact ⟨rfl, by decide, by decide⟩
      | i + 2 => simp [exQ, State.nodeD, kids] at h
    · intro m hm h; rw [State.isNecessary, exQ_ge m hm] at h; cases h
  parent := by
    refine cases3 _ ?_ ?_ ?_ ?_
    · intro p i h
      have : (p, i) = (1, 0) ∨ (p, i) = (2, 0) := by simpa [exQ, State.nodeD] using h
      rcases this with h | h <;> cases h <;> exact ⟨rfl, rfl⟩
    · intro p i h
      have : (p, i) = (2, 1) := by simpa [exQ, State.nodeD] using h
      cases this; exact ⟨rfl, rfl⟩
    · intro p i h; simp [exQ, State.nodeD] at h
    · intro m hm p i h; rw [exQ_ge m hm] at h; cases h

theorem exQ_not_queued : ∀ m, (exQ.nodeD m).heightInRch = -1 := by
  refine cases3 _ rfl rfl rfl ?_
  intro m hm; rw [exQ_ge m hm]; rfl

theorem exQ_inRch (m : Nat) : (exQ.nodeD m).inRch = false := by
  simp [Node.inRch, exQ_not_queued m]

theorem exQ_bucket (h : Nat) (hh : h < exQ.rch.queues.size) : exQ.rch.queues[h] = [] := by
  have h4 : h < 4 := hh
  match h, hh, h4 with
  | 0, _, _ => rfl
  | 1, _, _ => rfl
  | 2, _, _ => rfl
  | 3, _, _ => rfl

theorem exQ_heapWF : HeapWF exQ where
  mem := by
    intro h hh n
    rw [exQ_bucket h hh]
    constructor
    · intro h'; cases h'
    · intro ⟨_, h'⟩
      rw [exQ_not_queued n] at h'
      omega
  nodup := by intro h hh; rw [exQ_bucket h hh]; exact List.nodup_nil
  length := by decide
  range := by intro n _; exact Or.inl (exQ_not_queued n)

theorem exQ_heap : HeapInv exQ where
  wf := exQ_heapWF
  hgt m h := by rw [exQ_inRch m] at h; cases h
  lb m h := by rw [exQ_inRch m] at h; cases h
  lb0 := by decide
  nec m h := by rw [exQ_inRch m] at h; cases h

theorem exQ_not_stale : ∀ m, exQ.isNecessary m = true → exQ.isStale m = false := by
  refine cases3 _ ?_ ?_ ?_ ?_
  · intro _; decide
  · intro _; decide
  · intro _; decide
  · intro m hm h; rw [State.isNecessary, exQ_ge m hm] at h; cases h

/-- the example state satisfies the quiescent invariant -/
theorem exQ_quietInv : QuietInv exEnv exQ where
  graph := exQ_graph
  heap := exQ_heap
  now := by decide
  stamps := by
    refine cases3 _ ?_ ?_ ?_ ?_
    · decide
    · decide
    · decide
    · intro m hm; rw [exQ_ge m hm]; decide
  varStamp := by
    intro c vc h
    match c with
    | 0 =>
      have h' : some ({ value := .int 1, setAt := 0, node := 0 } : VarCell) = some vc := h
      cases h'; decide
    | c + 1 => simp [exQ] at h
  queued m := by
    constructor
    · intro h; rw [exQ_inRch m] at h; cases h
    · intro ⟨hm, hs⟩; rw [exQ_not_stale m hm] at hs; cases hs
  cons := by
    refine cases3 _ ?_ ?_ ?_ ?_
    · intro _ _; exact ⟨.int 1, ⟨_, rfl, rfl⟩, rfl⟩
    · intro _ _; exact ⟨.int 1, ⟨[.int 1], rfl, rfl⟩, rfl⟩
    · intro _ _; exact ⟨.int 2, ⟨[.int 1, .int 1], rfl, rfl⟩, rfl⟩
    · intro m hm h; rw [State.isNecessary, exQ_ge m hm] at h; cases h
  watch := by
    refine cases3 _ ?_ ?_ ?_ ?_
    · intro c _ hk; cases hk; exact ⟨_, rfl, rfl⟩
    · intro c _ hk; cases hk
    · intro c _ hk; cases hk
    · intro m hm c h; rw [State.isNecessary, exQ_ge m hm] at h; cases h
  cell := by
    intro c vc h _
    match c with
    | 0 =>
      have h' : some ({ value := .int 1, setAt := 0, node := 0 } : VarCell) = some vc := h
      cases h'; rfl
    | c + 1 => simp [exQ] at h
  status := rfl

theorem exQ_idle : Idle exQ where
  newObservers := rfl
  disallowedObservers := rfl
  setDuringStab := rfl
  deadVars := rfl
  handleAfterStab := rfl
  handlers := by
    refine cases3 _ ?_ ?_ ?_ ?_
    · decide
    · decide
    · decide
    · intro m hm; rw [exQ_ge m hm]; decide

/-- a write to the variable of the example returns … -/
theorem exQ_write : ∃ r s1, (writeVar 0 (fun _ => .int 4) true).run.run exQ = (.ok r, s1) :=
  (returned_iff _).1 (by decide +kernel)

/-- … and so does the `stabilise` after it -/
theorem exQ_write_stabilise :
    ∃ s2, (stabilise exEnv 10).run.run ((writeVar 0 (fun _ => .int 4) true).run.run exQ).2 = (.ok (), s2) := by
  have h : returned ((stabilise exEnv 10).run.run
      ((writeVar 0 (fun _ => .int 4) true).run.run exQ).2) = true := by decide +kernel
  obtain ⟨r, s', e⟩ := (returned_iff _).1 h
  exact ⟨s', e⟩

/-- the observed node then reads `4 + 4` -/
example : ((stabilise exEnv 10).run.run ((writeVar 0 (fun _ => .int 4) true).run.run exQ).2).2.value
    exEnv 2 = some (.int 8) := by decide +kernel

end IncrVerif.Proofs.Sched
