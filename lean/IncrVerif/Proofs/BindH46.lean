import IncrVerif.Proofs.BindH45
/-!
# Binds, fragment F1, part b: the rank is injective and decreases along all edges; scope necessity; `BGraph` from `GInv1`
-/
namespace IncrVerif.Proofs.BindH
open IncrVerif.Engine IncrVerif.Proofs IncrVerif.Proofs.Step IncrVerif.Proofs.Sched IncrVerif.Proofs.Quiet

namespace All1
variable {env : Env} {s : State} {dy : List Nat}

/-- a node of scope `b` lies strictly between the bind's change detector and its main node -/
theorem scope_rk (A : All1 env s dy) {n b : Nat} {br : BindRec} (hn : n < s.nodes.size)
    (hsc : (s.nodeD n).createdIn = .bind b) (hb : s.binds[b]? = some br) :
    rkOf s br.lhsChange < rkOf s n ∧ rkOf s n < rkOf s br.main := by
  obtain ⟨h1, h2, -, -, h5, h6⟩ := A.recs b br hb
  rw [rkOf_bind hsc hb, rkOf_top h5, rkOf_top h6, h1]
  refine ⟨by omega, ?_⟩
  have : br.lhsChange * (s.nodes.size + 1) + (n + 1) < (br.lhsChange + 1) * (s.nodes.size + 1) :=
    rk_mul_lt (Nat.lt_succ_self _) (by omega)
  omega

/-- the bind of a scope node -/
theorem scope_bind (A : All1 env s dy) {n b : Nat} (hn : n < s.nodes.size)
    (hsc : (s.nodeD n).createdIn = .bind b) : ∃ br, s.binds[b]? = some br ∧ br.main < n := by
  obtain ⟨-, -, br, hb, hm, -⟩ := (A.node n hn).inScope b hsc
  exact ⟨br, hb, hm⟩

/-- the rank is injective on the nodes of the state -/
theorem rk_inj (A : All1 env s dy) {n m : Nat} (hn : n < s.nodes.size) (hm : m < s.nodes.size)
    (h : rkOf s n = rkOf s m) : n = m := by
  have hK : 0 < s.nodes.size + 1 := by omega
  cases hn1 : (s.nodeD n).createdIn with
  | top =>
    cases hm1 : (s.nodeD m).createdIn with
    | top =>
      rw [rkOf_top hn1, rkOf_top hm1] at h
      exact Nat.eq_of_mul_eq_mul_right hK h
    | bind b =>
      exfalso
      obtain ⟨br, hb, -⟩ := A.scope_bind hm hm1
      rw [rkOf_top hn1, rkOf_bind hm1 hb] at h
      -- `n * K = lc * K + m + 1` with `0 < m + 1 < K`: impossible
      rcases Nat.lt_or_ge n (br.lhsChange + 1) with h1 | h1
      · have : n * (s.nodes.size + 1) ≤ br.lhsChange * (s.nodes.size + 1) :=
          Nat.mul_le_mul_right _ (by omega)
        omega
      · have : (br.lhsChange + 1) * (s.nodes.size + 1) ≤ n * (s.nodes.size + 1) :=
          Nat.mul_le_mul_right _ h1
        have h2 : (br.lhsChange + 1) * (s.nodes.size + 1) =
            br.lhsChange * (s.nodes.size + 1) + (s.nodes.size + 1) := by rw [Nat.add_mul, Nat.one_mul]
        omega
  | bind b =>
    obtain ⟨br, hb, -⟩ := A.scope_bind hn hn1
    cases hm1 : (s.nodeD m).createdIn with
    | top =>
      exfalso
      rw [rkOf_bind hn1 hb, rkOf_top hm1] at h
      rcases Nat.lt_or_ge m (br.lhsChange + 1) with h1 | h1
      · have : m * (s.nodes.size + 1) ≤ br.lhsChange * (s.nodes.size + 1) :=
          Nat.mul_le_mul_right _ (by omega)
        omega
      · have : (br.lhsChange + 1) * (s.nodes.size + 1) ≤ m * (s.nodes.size + 1) :=
          Nat.mul_le_mul_right _ h1
        have h2 : (br.lhsChange + 1) * (s.nodes.size + 1) =
            br.lhsChange * (s.nodes.size + 1) + (s.nodes.size + 1) := by rw [Nat.add_mul, Nat.one_mul]
        omega
    | bind b' =>
      obtain ⟨br', hb', -⟩ := A.scope_bind hm hm1
      rw [rkOf_bind hn1 hb, rkOf_bind hm1 hb'] at h
      -- same quotient by `K`
      rcases Nat.lt_trichotomy br.lhsChange br'.lhsChange with h1 | h1 | h1
      · exfalso
        have := rk_mul_lt (K := s.nodes.size + 1) (c := n + 1) h1 (by omega)
        omega
      · rw [h1] at h; omega
      · exfalso
        have := rk_mul_lt (K := s.nodes.size + 1) (c := m + 1) h1 (by omega)
        omega

end All1

end IncrVerif.Proofs.BindH
