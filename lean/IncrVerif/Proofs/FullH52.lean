import IncrVerif.Proofs.FullH48
import IncrVerif.Proofs.FullH50
import IncrVerif.Proofs.FullH51
/-!
# C01 full fragment: whole histories
-/
namespace IncrVerif.Proofs.FullH
open IncrVerif.Engine IncrVerif.Driver IncrVerif.Proofs IncrVerif.Proofs.Step IncrVerif.Proofs.Sched IncrVerif.Proofs.Quiet
open IncrVerif.Proofs.NestH (GenOK2 F2Inv QG2 QI2 QInv2 den2 ProgOK progOf progStep ObsNamed ZipPair)
open IncrVerif.Proofs.NestH.N7k (BKey)

section
variable {env : Env} {sp : Nat → Val → Val}

/-- the invariant of a history: the invariant between API actions, the virtual state is described by the program text of the VIRTUAL history, observers watch named nodes -/
def HI (env : Env) (sp : Nat → Val → Val) (po : Nat → Bool) (acts : List Action) (s : State) : Prop :=
  ∃ g, QInvF env sp s g ∧ ProgOK (progOf (VE env sp) po (acts.map virtA)) (VE env sp) (virt g s) ∧ ObsNamed s

theorem zipPair_virt (Z : ZipPair env) : ZipPair (VE env sp) := by
  intro a b
  rw [virtEnv_fn_real env sp (by decide : fnZip < pBase)]
  exact Z a b

theorem bkey_virt {s s' : State} (g g' : Nat → Option Val) (K : BKey s s') : BKey (virt g s) (virt g' s') where
  size := by rw [virt_size, virt_size]; exact K.size
  kind m hm := by
    rw [virt_size] at hm
    rw [virt_nodeD, virt_nodeD, virtNode_kind, virtNode_kind, K.kind m hm]
  binds := K.binds

theorem stabilise_run_of_step {s s' : State} {tk : Array Nat} {r : String × Array Nat}
    (h : (stepAction env .stabilise tk).run.run s = (.ok r, s')) :
    (stabilise env fuelDefault).run.run s = (.ok (), s') ∧ r.2 = tk := by
  refine ⟨Quiet.step_stabilise h, ?_⟩
  unfold stepAction at h
  dsimp only at h
  obtain ⟨u, s3, h3, h4⟩ := bind_ok_inv h
  obtain ⟨e, -⟩ := pure_ok_inv h4
  rw [e]

/-- **one API action of the full fragment keeps the history invariant** -/
theorem step_hi (X : Kit env sp) {po : Nat → Bool} {acts : List Action} {s s' : State} {a : Action} {tk : Array Nat}
    {r : String × Array Nat} (H : HI env sp po acts s) (hA : ActionFull env sp s.top.size a)
    (h : (stepAction env a tk).run.run s = (.ok r, s')) : HI env sp po (acts ++ [a]) s' := by
  obtain ⟨g, Q, P, O⟩ := H
  have hprog : progOf (VE env sp) po ((acts ++ [a]).map virtA) = progStep (progOf (VE env sp) po (acts.map virtA)) (virtA a) := by
    rw [List.map_append, NestH.progOf_append]; rfl
  by_cases hs : a = .stabilise
  · subst hs
    obtain ⟨hst, -⟩ := stabilise_run_of_step h
    obtain ⟨g', R⟩ := stabilise_full X Q hst
    obtain ⟨rk, Qv⟩ := Q.q.1
    refine ⟨g', R.inv, ?_, ?_⟩
    · rw [hprog]
      show ProgOK (progOf (VE env sp) po (acts.map virtA)) (VE env sp) (virt g' s')
      have K := bkey_virt g g' ((NestH.N7k.PresBK.stabilise env fuelDefault).h _ _ _ hst)
      exact NestH.N7.progOK_frame P (NestH.N7.top_in Qv) R.top K (fun c => by
        show (s'.vars[c]?).map VarCell.value = (s.vars[c]?).map VarCell.value
        rw [R.vars])
    · intro o ob' ho
      have hlt : o < s.observers.size := by rw [← R.obs.1]; exact (Array.getElem?_eq_some_iff.1 ho).1
      obtain ⟨ob1, k1, k2, -⟩ := R.obs.2 o s.observers[o] (Array.getElem?_eq_getElem hlt)
      rw [ho] at k1; cases k1
      obtain ⟨j, hj⟩ := O o s.observers[o] (Array.getElem?_eq_getElem hlt)
      exact ⟨j, by rw [R.top, k2]; exact hj⟩
  · obtain ⟨ht, hlc⟩ := topLt_of_qg2 Q.q
    obtain ⟨hv, -, -⟩ := stepAction_sim hA hs Q.frag ht hlc h
    have Q' := step_fullG Q hA hs h
    have haV : NestH.ActionF2 (VE env sp) (virt g s).top.size (virtA a) := actionF2_virt hA
    refine ⟨g, Q', ?_, ?_⟩
    · rw [hprog]
      exact NestH.progOK_step Q.q.1 haV hv P
    · exact NestH.obsNamed_step (s := virt g s) (s' := virt g s') Q.q.1 haV hv O

theorem hi_init (env : Env) (sp : Nat → Val → Val) (po : Nat → Bool) (N : Nat) (d : Bool) :
    HI env sp po [] (State.init N d) := by
  obtain ⟨g, Q⟩ := qinvF_init env sp N d
  refine ⟨g, Q, ?_, NestH.obsNamed_init N d⟩
  rw [virt_init]
  exact NestH.progOK_init (VE env sp) po N d

theorem histFull_cons {T : Nat} {a : Action} {as : List Action} (h : HistFull env sp T (a :: as)) :
    ActionFull env sp T a ∧ HistFull env sp (nextT a T) as := h

theorem top_step {s s' : State} {a : Action} {tk : Array Nat} {r : String × Array Nat} {g : Nat → Option Val}
    (X : Kit env sp) (Q : QInvF env sp s g) (hA : ActionFull env sp s.top.size a)
    (h : (stepAction env a tk).run.run s = (.ok r, s')) (l : List Action)
    (hl : HistFull env sp (nextT a s.top.size) l) :
    HistFull env sp s'.top.size l := by
  by_cases hs : a = .stabilise
  · subst hs
    obtain ⟨hst, -⟩ := stabilise_run_of_step h
    obtain ⟨g', R⟩ := stabilise_full X Q hst
    rw [R.top]; exact hl
  · obtain ⟨ht, hlc⟩ := topLt_of_qg2 Q.q
    obtain ⟨hv, -, -⟩ := stepAction_sim hA hs Q.frag ht hlc h
    have haV : NestH.ActionF2 (VE env sp) (virt g s).top.size (virtA a) := actionF2_virt hA
    have := NestH.N4h.top_step2 Q.q.1 haV hv
    have e : (virt g s').top.size = s'.top.size := rfl
    have e2 : (virt g s).top.size = s.top.size := rfl
    rw [e, e2] at this
    rw [this]
    cases a <;> try exact hl
    rename_i i
    cases i <;> exact hl

/-- a run of `as ++ bs` from a state satisfying the history invariant -/
theorem runActions_split (X : Kit env sp) {po : Nat → Bool} {pre as bs : List Action} {s s' : State} {tk tk' : Array Nat}
    (H : HI env sp po pre s) (hH : HistFull env sp s.top.size (as ++ bs))
    (h : Quiet.runActions env (as ++ bs) s tk = .ok (s', tk')) :
    ∃ s1 tk1, Quiet.runActions env as s tk = .ok (s1, tk1) ∧ HI env sp po (pre ++ as) s1 ∧ HistFull env sp s1.top.size bs ∧
      Quiet.runActions env bs s1 tk1 = .ok (s', tk') := by
  induction as generalizing s tk pre with
  | nil => exact ⟨s, tk, rfl, by rw [List.append_nil]; exact H, hH, h⟩
  | cons a as ih =>
    simp only [List.cons_append, Quiet.runActions] at h ⊢
    obtain ⟨ha, hrest⟩ := histFull_cons hH
    rcases hx : (stepAction env a tk).run.run s with ⟨_ | r, s1⟩
    · rw [hx] at h; cases h
    · rw [hx] at h
      have H1 := step_hi X H ha hx
      obtain ⟨g, Q, -, -⟩ := H
      have hrest' : HistFull env sp s1.top.size (as ++ bs) := top_step X Q ha hx _ hrest
      obtain ⟨s2, tk2, k1, k2, k3, k4⟩ := ih H1 hrest' h
      exact ⟨s2, tk2, k1, by rw [List.append_assoc] at k2; exact k2, k3, k4⟩

/-- **Whole histories.** Every state reached from the initial state by a history of the full fragment (that runs without panic) satisfies the invariant. -/
theorem history_full (X : Kit env sp) {po : Nat → Bool} {N : Nat} {d : Bool} {acts : List Action} {s : State} {tk : Array Nat}
    (hH : HistFull env sp 0 acts) (h : Quiet.runActions env acts (State.init N d) #[] = .ok (s, tk)) :
    HI env sp po acts s := by
  have hH' : HistFull env sp (State.init N d).top.size (acts ++ []) := by rw [List.append_nil]; exact hH
  have h' : Quiet.runActions env (acts ++ []) (State.init N d) #[] = .ok (s, tk) := by
    rw [List.append_nil]; exact h
  obtain ⟨s1, tk1, -, Q1, -, h2⟩ := runActions_split X (hi_init env sp po N d) hH' h'
  simp only [Quiet.runActions] at h2
  cases h2
  exact Q1

/-- **Every `stabilise` of a history of the full fragment**: the state before it satisfies the invariant, and afterwards every in-use observer watches a named
node `top[j]` and reads `Spec.denoteTop` of handle `j` in the program text of the VIRTUAL history (map_ref / map_with_old instructions replaced by pure `map`s
with the projection / the machine's specification `sp m`) -/
theorem history_stabilise_virt (X : Kit env sp) (po : Nat → Bool) (Z : ZipPair env) {N : Nat} {d : Bool} {as bs : List Action}
    {s : State} {tk : Array Nat} (hH : HistFull env sp 0 (as ++ Action.stabilise :: bs))
    (h : Quiet.runActions env (as ++ Action.stabilise :: bs) (State.init N d) #[] = .ok (s, tk)) :
    ∃ s1 tk1 s2, Quiet.runActions env as (State.init N d) #[] = .ok (s1, tk1) ∧ QInvFE env sp s1 ∧
      (stabilise env fuelDefault).run.run s1 = (.ok (), s2) ∧ QInvFE env sp s2 ∧
      (∀ (o : Nat) (ob : ObsRec), s2.observers[o]? = some ob → ob.state = .inUse →
        ∃ v j, s2.tryGetValue env o = .ok v ∧ s2.top[j]? = some ob.node ∧
          ∃ F, ∀ f, F ≤ f → Spec.denoteTop (progOf (VE env sp) po (as.map virtA)) f j = some v) ∧
      (∀ n, s2.isNecessary n = true → (s2.nodeD n).valid = true ∧ s2.isStale n = false) ∧
      Quiet.runActions env bs s2 tk1 = .ok (s, tk) := by
  obtain ⟨s1, tk1, h1, H1, hH1, h2⟩ := runActions_split X (hi_init env sp po N d) hH h
  rw [List.nil_append] at H1
  simp only [Quiet.runActions] at h2
  rcases hx : (stepAction env .stabilise tk1).run.run s1 with ⟨_ | r, s2⟩
  · rw [hx] at h2; cases h2
  · rw [hx] at h2
    replace h2 : Quiet.runActions env bs s2 r.2 = .ok (s, tk) := h2
    obtain ⟨hst, htk⟩ := stabilise_run_of_step hx
    rw [htk] at h2
    obtain ⟨g, Q, P, O⟩ := H1
    obtain ⟨g', R⟩ := stabilise_full X Q hst
    obtain ⟨rk, Qv⟩ := Q.q.1
    have P2 : ProgOK (progOf (VE env sp) po (as.map virtA)) (VE env sp) (virt g' s2) := by
      have K := bkey_virt g g' ((NestH.N7k.PresBK.stabilise env fuelDefault).h _ _ _ hst)
      exact NestH.N7.progOK_frame P (NestH.N7.top_in Qv) R.top K (fun c => by
        show (s2.vars[c]?).map VarCell.value = (s1.vars[c]?).map VarCell.value
        rw [R.vars])
    refine ⟨s1, tk1, s2, h1, ⟨g, Q⟩, hst, ⟨g', R.inv⟩, ?_, R.fresh, h2⟩
    intro o ob ho hu
    obtain ⟨v, hv, K, hK⟩ := stabF_reads R o ob ho hu
    have hlt : o < s1.observers.size := by rw [← R.obs.1]; exact (Array.getElem?_eq_some_iff.1 ho).1
    obtain ⟨ob1, k1, k2, -⟩ := R.obs.2 o s1.observers[o] (Array.getElem?_eq_getElem hlt)
    rw [ho] at k1; cases k1
    obtain ⟨j, hj⟩ := O o s1.observers[o] (Array.getElem?_eq_getElem hlt)
    have hj2 : (virt g' s2).top[j]? = some ob.node := by
      show s2.top[j]? = _
      rw [R.top, k2]; exact hj
    exact ⟨v, j, hv, hj2, (NestH.agree_large P2 (zipPair_virt Z) hj2 v).1 ⟨K, hK⟩⟩

/-- **HEADLINE (identity machines): reads = the text-level reference semantics of the ACTUAL program.**  If every `map_with_old` machine is a pure identity
machine (`sp m v = v`; the reference semantics `Spec.denote` covers exactly these: `po m = true`), then at every `stabilise` of a history of the full fragment
every in-use observer reads `Spec.denoteTop` of its handle in the program text of the prefix, evaluated on the current variable values. -/
theorem history_stabilise_denote (X : Kit env sp) (E : EnvS env sp) (po : Nat → Bool) (Z : ZipPair env)
    (hpo : ∀ m, po m = true) (hsp : ∀ m v, sp m v = v) (hF : FirstFn env) {N : Nat} {d : Bool} {as bs : List Action}
    {s : State} {tk : Array Nat} (hH : HistFull env sp 0 (as ++ Action.stabilise :: bs))
    (h : Quiet.runActions env (as ++ Action.stabilise :: bs) (State.init N d) #[] = .ok (s, tk)) :
    ∃ s1 tk1 s2, Quiet.runActions env as (State.init N d) #[] = .ok (s1, tk1) ∧
      (stabilise env fuelDefault).run.run s1 = (.ok (), s2) ∧ QInvFE env sp s2 ∧
      (∀ (o : Nat) (ob : ObsRec), s2.observers[o]? = some ob → ob.state = .inUse →
        ∃ v j, s2.tryGetValue env o = .ok v ∧ s2.top[j]? = some ob.node ∧
          ∃ F, ∀ f, F ≤ f → Spec.denoteTop (progOf env po as) f j = some v) ∧
      Quiet.runActions env bs s2 tk1 = .ok (s, tk) := by
  obtain ⟨s1, tk1, s2, h1, -, hst, Q2, hr, -, h2⟩ := history_stabilise_virt X po Z hH h
  refine ⟨s1, tk1, s2, h1, hst, Q2, ?_, h2⟩
  intro o ob ho hu
  obtain ⟨v, j, hv, hj, F, hFv⟩ := hr o ob ho hu
  refine ⟨v, j, hv, hj, F, fun f hf => ?_⟩
  rw [← denoteTop_virt_hist E (histFull_append as _ 0 hH) hpo hsp hF f j]
  exact hFv f hf

end
end IncrVerif.Proofs.FullH
