import IncrVerif.Proofs.Quiet28
/-!
# map_ref fragment, part 1: the virtual static state

`virt g s`: the state `s` in which every `map_ref` node `mapRef p i` is replaced by the static node
`map (projBase + p) [i]` carrying the ghost value `g n` ("the projection the parents of `n` last consumed") and a
normalised `didChange` flag.  `virtEnv env` interprets the function ids `projBase + p` as the projections.
Everything the structural/scheduling invariants of the static fragment read (`parents`, heights, stamps, heap,
`children`, `isStale`, `isNecessary`) is the same in `s` and `virt g s`.
-/
namespace IncrVerif.Proofs.MapRefH
open IncrVerif.Engine IncrVerif.Proofs IncrVerif.Proofs.Step IncrVerif.Proofs.Sched IncrVerif.Proofs.Quiet

/-- function ids from here on (below `fnPerKey`) name the projections in the virtual environment -/
def projBase : Nat := 1000003

theorem projBase_gt : fnIdent < projBase := by decide
theorem projBase_ge_zip : fnZip ≤ projBase := by decide

def virtKind : Kind → Kind
  | .mapRef p i => .map (projBase + p) [i]
  | k => k

def virtNode (gv : Option Val) (nd : Node) : Node :=
  match nd.kind with
  | .mapRef p i => { nd with kind := .map (projBase + p) [i], value := gv, didChange := true }
  | _ => { nd with didChange := true }

def virt (g : Nat → Option Val) (s : State) : State :=
  { s with nodes := s.nodes.mapIdx fun i nd => virtNode (g i) nd }

def virtEnv (env : Env) : Env :=
  { env with fn := fun f vals =>
      if projBase ≤ f then env.proj (f - projBase) (vals.headD .unit) else env.fn f vals }

/-- kinds of the fragment static + map_ref -/
def RKind (env : Env) : Kind → Prop
  | .const _ => True
  | .var _ => True
  | .map f _ => f < projBase ∧ (f < fnZip → ∀ vals, env.fnEff f vals = [])
  | .fold _ _ _ => True
  | .mapRef p _ => projBase + p < fnPerKey
  | _ => False

theorem virtNode_default (gv : Option Val) : virtNode gv default = default := rfl

theorem virt_nodeD (g : Nat → Option Val) (s : State) (m : Nat) :
    (virt g s).nodeD m = virtNode (g m) (s.nodeD m) := by
  unfold State.nodeD virt
  simp only [Array.getElem?_mapIdx]
  cases h : s.nodes[m]? with
  | none => simp [virtNode_default]
  | some nd => simp

theorem virt_size (g : Nat → Option Val) (s : State) : (virt g s).nodes.size = s.nodes.size := by
  simp [virt]

theorem virt_getElem? (g : Nat → Option Val) (s : State) (m : Nat) :
    (virt g s).nodes[m]? = (s.nodes[m]?).map (virtNode (g m)) := by
  simp [virt, Array.getElem?_mapIdx]

section fields
variable (gv : Option Val) (nd : Node)

theorem virtNode_kind : (virtNode gv nd).kind = virtKind nd.kind := by
  unfold virtNode virtKind; split <;> simp_all
theorem virtNode_valid : (virtNode gv nd).valid = nd.valid := by unfold virtNode; split <;> rfl
theorem virtNode_cutoff : (virtNode gv nd).cutoff = nd.cutoff := by unfold virtNode; split <;> rfl
theorem virtNode_createdIn : (virtNode gv nd).createdIn = nd.createdIn := by unfold virtNode; split <;> rfl
theorem virtNode_parents : (virtNode gv nd).parents = nd.parents := by unfold virtNode; split <;> rfl
theorem virtNode_observers : (virtNode gv nd).observers = nd.observers := by unfold virtNode; split <;> rfl
theorem virtNode_forceNecessary : (virtNode gv nd).forceNecessary = nd.forceNecessary := by
  unfold virtNode; split <;> rfl
theorem virtNode_height : (virtNode gv nd).height = nd.height := by unfold virtNode; split <;> rfl
theorem virtNode_heightInRch : (virtNode gv nd).heightInRch = nd.heightInRch := by unfold virtNode; split <;> rfl
theorem virtNode_heightInAhh : (virtNode gv nd).heightInAhh = nd.heightInAhh := by unfold virtNode; split <;> rfl
theorem virtNode_recomputedAt : (virtNode gv nd).recomputedAt = nd.recomputedAt := by unfold virtNode; split <;> rfl
theorem virtNode_changedAt : (virtNode gv nd).changedAt = nd.changedAt := by unfold virtNode; split <;> rfl
theorem virtNode_num : (virtNode gv nd).numOnUpdateHandlers = nd.numOnUpdateHandlers := by
  unfold virtNode; split <;> rfl
theorem virtNode_inHas : (virtNode gv nd).inHandleAfterStab = nd.inHandleAfterStab := by
  unfold virtNode; split <;> rfl
theorem virtNode_oldState : (virtNode gv nd).oldState = nd.oldState := by unfold virtNode; split <;> rfl
theorem virtNode_isNecessary : (virtNode gv nd).isNecessary = nd.isNecessary := by
  simp [Node.isNecessary, virtNode_parents, virtNode_observers, virtNode_forceNecessary]
theorem virtNode_inRch : (virtNode gv nd).inRch = nd.inRch := by simp [Node.inRch, virtNode_heightInRch]

theorem virtNode_value_of_not_mapRef (h : ∀ p i, nd.kind ≠ .mapRef p i) : (virtNode gv nd).value = nd.value := by
  unfold virtNode; split
  · rename_i p i hk; exact absurd hk (h p i)
  · rfl
theorem virtNode_value_mapRef {p i : Nat} (h : nd.kind = .mapRef p i) : (virtNode gv nd).value = gv := by
  unfold virtNode; rw [h]
theorem virtNode_didChange : (virtNode gv nd).didChange = true := by unfold virtNode; split <;> rfl
theorem virtNode_not_mapRef (p i : Nat) : (virtNode gv nd).kind ≠ .mapRef p i := by
  rw [virtNode_kind]; cases nd.kind <;> simp [virtKind]
end fields

theorem kids_virtKind (k : Kind) : kids (virtKind k) = match k with | .mapRef _ i => [i] | k => kids k := by
  cases k <;> rfl

/-- the children of a kind of the fragment (what `State.children` yields for a valid node) -/
def kidsR : Kind → List Nat
  | .map _ args => args
  | .fold _ _ cs => cs
  | .mapRef _ i => [i]
  | _ => []

theorem kids_virtKind' (k : Kind) : kids (virtKind k) = kidsR k := by cases k <;> rfl

theorem staticKind_virt {env : Env} {k : Kind} (h : RKind env k) : StaticKind (virtEnv env) (virtKind k) := by
  cases k <;> simp only [RKind] at h <;> simp only [virtKind, StaticKind]
  case map f args =>
    refine ⟨by have := h.1; unfold projBase at this; unfold fnPerKey; omega, fun hf vals => h.2 hf vals⟩
  case mapRef p i =>
    refine ⟨h, fun hf => ?_⟩
    have := projBase_ge_zip; omega
  all_goals exact h

/-! ## state-level readers -/

variable (g : Nat → Option Val) (s : State)

theorem virt_isNecessary (m : Nat) : (virt g s).isNecessary m = s.isNecessary m := by
  simp [State.isNecessary, virt_nodeD, virtNode_isNecessary]

theorem virt_vars : (virt g s).vars = s.vars := rfl
theorem virt_rch : (virt g s).rch = s.rch := rfl
theorem virt_stabNum : (virt g s).stabNum = s.stabNum := rfl

theorem virtNode_kind? (gv : Option Val) (nd : Node) : (virtNode gv nd).kind? = (nd.kind?).map virtKind := by
  simp only [Node.kind?, virtNode_valid, virtNode_kind]
  split <;> rfl

theorem virt_kind? (m : Nat) : ((virt g s).nodeD m).kind? = ((s.nodeD m).kind?).map virtKind := by
  rw [virt_nodeD, virtNode_kind?]

theorem virt_children (m : Nat) : (virt g s).children m = s.children m := by
  unfold State.children
  rw [virt_kind?]
  cases h : (s.nodeD m).kind? with
  | none => rfl
  | some k => cases k <;> rfl

theorem virt_isStale (m : Nat) : (virt g s).isStale m = s.isStale m := by
  unfold State.isStale
  simp only [virt_children, virt_nodeD, virtNode_kind?, virtNode_recomputedAt, virtNode_changedAt, virt_vars]
  cases h : (s.nodeD m).kind? with
  | none => rfl
  | some k => cases k <;> rfl

theorem virt_needsToBeComputed (m : Nat) : (virt g s).needsToBeComputed m = s.needsToBeComputed m := by
  simp [State.needsToBeComputed, virt_isNecessary, virt_isStale]

theorem virt_staleOf {env : Env} (m : Nat) (hv : (s.nodeD m).valid = true) (hk : RKind env (s.nodeD m).kind) :
    staleOf (virt g s) m = s.isStale m := by
  rw [← virt_isStale g s m]
  exact (isStale_static (env := virtEnv env) (virt g s) m (by rw [virt_nodeD, virtNode_valid]; exact hv)
    (by rw [virt_nodeD, virtNode_kind]; exact staticKind_virt hk)).symm

end IncrVerif.Proofs.MapRefH
