import IncrVerif.Proofs.EffH17
/-!
# Effects, part 18 (V3): what the handlers are told (S2) and the per-token log of whole histories (S3) when node
functions and update handlers have write effects — ports of `Proofs/Subs11.lean` and `Proofs/Subs15.lean`
-/
namespace IncrVerif.Proofs.EffH
open IncrVerif.Engine IncrVerif.Driver IncrVerif.Proofs IncrVerif.Proofs.Step IncrVerif.Proofs.Sched
open IncrVerif.Proofs.Quiet
open IncrVerif.Proofs.SubsH (HInv UInv hOf expected notifTok endNotifs tokLog specT liveObs TInv NStep Shape)


namespace P18
open IncrVerif.Proofs.SubsH

/-! ## nodes after `stabiliseEnd` -/

theorem nodeValue {env : Env} {s s' : State} (E : EndedW env s s') (m : Nat) :
    (s'.nodeD m).value = (s.nodeD m).value := by
  obtain ⟨h, e⟩ := E.node m; rw [e]
theorem nodeChangedAt {env : Env} {s s' : State} (E : EndedW env s s') (m : Nat) :
    (s'.nodeD m).changedAt = (s.nodeD m).changedAt := by
  obtain ⟨h, e⟩ := E.node m; rw [e]

/-! ## the log: only the notifications matter -/

theorem filterMap_pick_filter (t : Nat) : ∀ l : List Event,
    (l.filter isNotif).filterMap (pickTok t) = l.filterMap (pickTok t)
  | [] => rfl
  | e :: l => by
    cases e <;> simp [List.filter_cons, isNotif, List.filterMap_cons, pickTok, filterMap_pick_filter t l]

theorem tokLog_notifs (t : Nat) (l : List Event) : tokLog t l = tokLog t (notifs l) := by
  unfold tokLog notifs
  rw [← List.filter_reverse, filterMap_pick_filter]

theorem notifs_log {env : Env} {s t3 s' : State} (M : MidStateW env s t3 s') :
    notifs s'.log = (endNotifs env t3).reverse ++ notifs s.log := by
  obtain ⟨pre, e, hp⟩ := M.log
  rw [M.ended.logN, e]
  unfold notifs
  rw [List.filter_append]
  have : pre.filter isNotif = [] := by
    rw [List.filter_eq_nil_iff]
    intro a ha
    have := hp a ha
    cases a <;> first | exact this.elim | simp [isNotif]
  rw [this, List.nil_append]

/-! ## the intermediate state (port of `SubsH.P11.*`) -/

theorem hrec {env : Env} {s t3 s' : State} (M : MidStateW env s t3 s') {o : Nat} {ob : ObsRec}
    (ho : t3.observers[o]? = some ob) :
    ∃ ob', s'.observers[o]? = some ob' ∧ ob'.node = ob.node ∧ ob'.state = ob.state := by
  refine ⟨_, M.ended.obs o ob ho, ?_, ?_⟩ <;> split <;> rfl

theorem hback {env : Env} {s t3 s' : State} (M : MidStateW env s t3 s') {o : Nat} {ob' : ObsRec}
    (ho' : s'.observers[o]? = some ob') :
    ∃ ob, t3.observers[o]? = some ob ∧ ob'.node = ob.node ∧ ob'.state = ob.state := by
  have hlt : o < t3.observers.size := by
    rw [← M.ended.obsSize]; exact (Array.getElem?_eq_some_iff.1 ho').1
  obtain ⟨ob, ho⟩ : ∃ ob, t3.observers[o]? = some ob := ⟨_, Array.getElem?_eq_getElem hlt⟩
  obtain ⟨ob1, h1, h2, h3⟩ := hrec M ho
  rw [ho'] at h1; cases h1
  exact ⟨ob, ho, h2, h3⟩

/-- a linked observer of `t3`: in use, its node is valid and has a value -/
theorem mem_obs {env : Env} {s t3 s' : State} (M : MidStateW env s t3 s') {n o : Nat}
    (ho : o ∈ (t3.nodeD n).observers) :
    ∃ ob3 v, t3.observers[o]? = some ob3 ∧ ob3.node = n ∧ ob3.state = .inUse ∧
      (t3.nodeD n).valid = true ∧ t3.isNecessary n = true ∧ t3.value env n = some v ∧
      (t3.nodeD n).value = some v := by
  obtain ⟨ob3, h1, h2, h3⟩ := (M.obs.mem n o).1 ho
  have hst : ob3.state = .inUse := by
    rcases h3 with h3 | h3
    · exact h3
    · have := (M.obs.dis o ob3 h1).1 h3; cases this
  have hnec : t3.isNecessary n = true :=
    (Quiet.isNecessary_iff t3 n).2 (Or.inr (Or.inl (List.ne_nil_of_mem ho)))
  obtain ⟨hv1, hv2⟩ := M.hval n hnec
  obtain ⟨v, hv⟩ := Option.isSome_iff_exists.1 hv2
  exact ⟨ob3, v, h1, h2, hst, hv1, hnec, hv, by rw [← M.plain n hnec]; exact hv⟩

/-- `expected`, read in `t3` -/
theorem expected_eq {env : Env} {s t3 s' : State} (M : MidStateW env s t3 s') {o : Nat} {ob3 : ObsRec}
    {v : Val} (h : HandlerRec) (ho : t3.observers[o]? = some ob3) (hst : ob3.state = .inUse)
    (hv : (t3.nodeD ob3.node).value = some v) :
    expected s s' o h = if h.prev = .neverBeenUpdated then some (.initialised v)
      else if (t3.nodeD ob3.node).changedAt = s.stabNum then some (.changed v) else none := by
  obtain ⟨ob', h1, h2, h3⟩ := hrec M ho
  have e1 : (s'.nodeD ob3.node).value = some v := by rw [nodeValue M.ended]; exact hv
  have e2 : (s'.nodeD ob3.node).changedAt = (t3.nodeD ob3.node).changedAt := nodeChangedAt M.ended _
  unfold expected
  simp only [h1, h2, h3, hst, if_true, e1, e2]

/-- the handlers of a linked observer of `t3`, as registered in `s` -/
theorem handlers_s {env : Env} {s t3 s' : State} (M : MidStateW env s t3 s') {o : Nat} {ob3 : ObsRec}
    (ho : t3.observers[o]? = some ob3) : ∃ ob, s.observers[o]? = some ob ∧ ob.handlers = ob3.handlers := by
  have hlt : o < s.observers.size := by
    rw [← M.obsMap.1]; exact (Array.getElem?_eq_some_iff.1 ho).1
  have hs : s.observers[o]? = some s.observers[o] := Array.getElem?_eq_getElem hlt
  refine ⟨_, hs, ?_⟩
  rw [← hOf_of_some hs, ← M.handlers o, hOf_of_some ho]

/-- the notifications of one linked observer -/
theorem obsNotifs_eq {env : Env} {s t3 s' : State} (M : MidStateW env s t3 s') {n o : Nat}
    (ho : o ∈ (t3.nodeD n).observers) :
    ∃ ob3, t3.observers[o]? = some ob3 ∧ ob3.node = n ∧ ob3.state = .inUse ∧
      obsNotifs env t3 n o =
        ob3.handlers.filterMap fun h => (expected s s' o h).map (Event.notif h.token) := by
  obtain ⟨ob3, v, h1, h2, hst, hvalid, hnec, hv, hv'⟩ := mem_obs M ho
  refine ⟨ob3, h1, h2, hst, ?_⟩
  have e : obsNotifs env t3 n o = ob3.handlers.filterMap (notifOf (nuAt env t3 n) v) := by
    simp only [obsNotifs, h1, hv]
  rw [e]
  refine P11.filterMap_congr fun h hh => ?_
  subst h2
  rw [P11.nuAt_eq hvalid hnec hv, P11.notifOf_eq (M.hinv.prev o ob3 h h1 hh), expected_eq M h h1 hst hv',
    M.stabNum]

theorem mem_endNotifs {env : Env} {s t3 s' : State} (M : MidStateW env s t3 s') (e : Event) :
    e ∈ endNotifs env t3 ↔ ∃ n o ob3 h, n ∈ t3.handleAfterStab ∧ o ∈ (t3.nodeD n).observers ∧
      t3.observers[o]? = some ob3 ∧ ob3.node = n ∧ ob3.state = .inUse ∧ h ∈ ob3.handlers ∧
      (expected s s' o h).map (Event.notif h.token) = some e := by
  unfold endNotifs
  simp only [List.mem_flatMap]
  constructor
  · rintro ⟨n, hn, o, ho, he⟩
    obtain ⟨ob3, h1, h2, h3, h4⟩ := obsNotifs_eq M ho
    rw [h4] at he
    obtain ⟨h, hh, hhe⟩ := List.mem_filterMap.1 he
    exact ⟨n, o, ob3, h, hn, ho, h1, h2, h3, hh, hhe⟩
  · rintro ⟨n, o, ob3, h, hn, ho, h1, h2, h3, hh, hhe⟩
    refine ⟨n, hn, o, ho, ?_⟩
    obtain ⟨ob3', h1', -, -, h4⟩ := obsNotifs_eq M ho
    rw [h1] at h1'; cases h1'
    rw [h4]
    exact List.mem_filterMap.2 ⟨h, hh, hhe⟩

/-- the tokens registered on the linked observers of the queued nodes of `t3`: no token twice -/
theorem tokens_nodup {env : Env} {s t3 s' : State} (M : MidStateW env s t3 s') :
    (t3.handleAfterStab.flatMap fun n => (t3.nodeD n).observers.flatMap fun o =>
      (hOf t3 o).map (·.token)).Nodup := by
  have huniq : ∀ o o' x, x ∈ (hOf t3 o).map (·.token) → x ∈ (hOf t3 o').map (·.token) → o = o' := by
    intro o o' x hx hx'
    cases e : t3.observers[o]? with
    | none => simp [hOf, e] at hx
    | some ob =>
      cases e' : t3.observers[o']? with
      | none => simp [hOf, e'] at hx'
      | some ob' =>
        rw [hOf_of_some e] at hx
        rw [hOf_of_some e'] at hx'
        exact M.hinv.tok.unique o o' ob ob' e e' x hx hx'
  refine P11.nodup_flatMap M.hinv.has.nodup (fun n _ => ?_) ?_
  · refine P11.nodup_flatMap (M.hinv.obsNodup n) (fun o _ => ?_) (fun o o' x _ _ hx hx' => huniq o o' x hx hx')
    cases e : t3.observers[o]? with
    | none => simp [hOf, e]
    | some ob => rw [hOf_of_some e]; exact M.hinv.tokNodup o ob e
  · intro n n' x _ _ hx hx'
    obtain ⟨o, ho, hxo⟩ := List.mem_flatMap.1 hx
    obtain ⟨o', ho', hxo'⟩ := List.mem_flatMap.1 hx'
    have := huniq o o' x hxo hxo'
    subst this
    obtain ⟨ob, h1, h2, -⟩ := (M.obs.mem n o).1 ho
    obtain ⟨ob', h1', h2', -⟩ := (M.obs.mem n' o).1 ho'
    rw [h1] at h1'; cases h1'
    rw [← h2, ← h2']

theorem obsInv_final {env : Env} {fuel : Nat} {s t2 t3 s' : State} (X : WStab env fuel s t2 t3 s') :
    SubsH.ObsInv s' [] [] := by
  have := X.inv.u.core.obs
  unfold SubsH.ObsOK at this
  rw [X.newObservers, X.disallowedObservers] at this
  exact this

end P18

/-- **S2 from the intermediate state** (port of `SubsH.endNotifs_spec`): the notifications `stabiliseEnd` logs are
exactly the expected ones, each token at most once -/
theorem endNotifs_specW {env : Env} {s t3 s' : State} (U : UInv (noEff env) s) (M : MidStateW env s t3 s') :
    (∀ e, e ∈ endNotifs env t3 → ∃ t u, e = .notif t u) ∧
    (∀ t u, Event.notif t u ∈ endNotifs env t3 ↔
      ∃ (o : Nat) (ob : ObsRec) (h : HandlerRec), s.observers[o]? = some ob ∧ h ∈ ob.handlers ∧ h.token = t ∧
        expected s s' o h = some u) ∧
    ((endNotifs env t3).filterMap notifTok).Nodup := by
  have _ := U
  open IncrVerif.Proofs.SubsH in
  refine ⟨fun e he => ?_, fun t u => ⟨fun he => ?_, ?_⟩, ?_⟩
  · obtain ⟨n, o, ob3, h, -, -, -, -, -, -, hhe⟩ := (P18.mem_endNotifs M e).1 he
    obtain ⟨u, -, hu⟩ := Option.map_eq_some_iff.1 hhe
    exact ⟨_, _, hu.symm⟩
  · obtain ⟨n, o, ob3, h, -, -, h1, -, -, hh, hhe⟩ := (P18.mem_endNotifs M _).1 he
    obtain ⟨u', hu', hu⟩ := Option.map_eq_some_iff.1 hhe
    cases hu
    obtain ⟨ob, hs, hsh⟩ := P18.handlers_s M h1
    exact ⟨o, ob, h, hs, by rw [hsh]; exact hh, rfl, hu'⟩
  · rintro ⟨o, ob, h, hs, hh, ht, hexp⟩
    -- the record in `s'`, then in `t3`
    have hex := hexp
    unfold expected at hex
    split at hex
    · rename_i ob' ho'
      split at hex
      · rename_i hst'
        obtain ⟨ob3, h1, h2, h3⟩ := P18.hback M ho'
        have hst : ob3.state = .inUse := by rw [← h3]; exact hst'
        have hmem : o ∈ (t3.nodeD ob3.node).observers := (M.obs.mem _ o).2 ⟨ob3, h1, rfl, Or.inl hst⟩
        obtain ⟨ob, hs', hsh⟩ := P18.handlers_s M h1
        rw [hs] at hs'; cases hs'
        have hh3 : h ∈ ob3.handlers := by rw [← hsh]; exact hh
        obtain ⟨ob3', v, h1', -, -, -, -, -, hv⟩ := P18.mem_obs (env := env) M hmem
        rw [h1] at h1'; cases h1'
        have hE := P18.expected_eq M h h1 hst hv
        rw [hexp] at hE
        have hq : ob3.node ∈ t3.handleAfterStab := by
          by_cases hp : h.prev = .neverBeenUpdated
          · exact M.hinv.pending o ob3 h h1 (Or.inr hst) hh3 hp
          · rw [if_neg hp] at hE
            by_cases hc : (t3.nodeD ob3.node).changedAt = s.stabNum
            · refine M.queued _ hc ?_
              rw [M.hinv.count]
              unfold SubsH.numOf
              have h1le := SubsH.P11.le_sum (fun o => ((hOf t3 o).length : Int)) (fun _ => Int.natCast_nonneg _) hmem
              have : 0 < (hOf t3 o).length := by
                rw [SubsH.hOf_of_some h1]; exact List.length_pos_of_mem hh3
              omega
            · rw [if_neg hc] at hE; cases hE
        refine (P18.mem_endNotifs M _).2 ⟨ob3.node, o, ob3, h, hq, hmem, h1, rfl, hst, hh3, ?_⟩
        rw [hexp, ← ht]; rfl
      · cases hex
    · cases hex
  · refine List.Sublist.nodup ?_ (P18.tokens_nodup M)
    unfold endNotifs
    rw [List.filterMap_flatMap]
    refine SubsH.P11.sublist_flatMap _ fun n _ => ?_
    rw [List.filterMap_flatMap]
    exact SubsH.P11.sublist_flatMap _ fun o _ => SubsH.P11.obsNotifs_toks env t3 n o

/-- **S2** (port of `SubsH.stabilise_delivers`): the notifications in the log grow by `del` — the expected
notification of every handler record registered before the call, every token at most once; besides notifications the
call logs only non-notifications (function invocations, `note`s of `replace*`) -/
theorem stabilise_delivers_w {env : Env} (hw : WOnly env) (hH : WHandlers env) {fuel : Nat} {s s' : State}
    (U : UInvE env s) (h : (stabilise env fuel).run.run s = (.ok (), s')) :
    ∃ del : List Event, notifs s'.log = del.reverse ++ notifs s.log ∧
      (∀ e, e ∈ del → ∃ t u, e = .notif t u) ∧
      (∀ t u, Event.notif t u ∈ del ↔
        ∃ (o : Nat) (ob : ObsRec) (h : HandlerRec), s.observers[o]? = some ob ∧ h ∈ ob.handlers ∧
          h.token = t ∧ expected s s' o h = some u) ∧
      (del.filterMap notifTok).Nodup := by
  obtain ⟨t2, t3, X⟩ := stabilise_w hw hH U h
  obtain ⟨a, b, c⟩ := endNotifs_specW U.u X.mid
  exact ⟨endNotifs env t3, P18.notifs_log X.mid, a, b, c⟩

/-- port of `SubsH.stab_live` / `Props.C09History.expected_live`: what a record on a created or in-use observer is
told: the observer is in use afterwards and reads `v` (the value computed from the PRE-STABILISE variables);
`Initialised v` if the handler was never called, else `Changed v` iff the stored value of the node is not the one from
before the call, else nothing -/
theorem expected_live_w {env : Env} {fuel : Nat} {s t2 t3 s' : State} (U : UInvE env s)
    (X : WStab env fuel s t2 t3 s') {o : Nat} {ob : ObsRec} (h : HandlerRec)
    (ho : s.observers[o]? = some ob) (hs : ob.state = .created ∨ ob.state = .inUse) :
    ∃ ob' v, s'.observers[o]? = some ob' ∧ ob'.node = ob.node ∧ ob'.state = .inUse ∧
      (s'.nodeD ob.node).value = some v ∧ s'.tryGetValue env o = .ok v ∧
      expected s s' o h = (if h.prev = .neverBeenUpdated then some (.initialised v)
        else if (s.nodeD ob.node).value = some v then none else some (.changed v)) := by
  have _ := U
  have M := X.mid
  obtain ⟨ob', ho', hn', hst'⟩ := X.obs.2 o ob ho
  have hst : ob'.state = .inUse := by
    rw [hst']; rcases hs with e | e <;> rw [e] <;> rfl
  have O' := P18.obsInv_final X
  have Q' := X.inv.u.core
  have hmem : o ∈ (s'.nodeD ob'.node).observers := (O'.mem ob'.node o).2 ⟨ob', ho', rfl, Or.inl hst⟩
  have hnec : s'.isNecessary ob'.node = true := by
    rw [isNecessary_iff]; right; left; exact List.ne_nil_of_mem hmem
  obtain ⟨-, hval, hv, hsome⟩ := X.values ob'.node hnec _ (Nat.lt_succ_self _)
  obtain ⟨v, hev⟩ := Option.isSome_iff_exists.1 hsome
  have hvalue : (s'.nodeD ob'.node).value = some v := by rw [hval]; exact hev
  have hread : s'.tryGetValue env o = .ok v := by
    unfold State.tryGetValue
    rw [Q'.alive, Q'.status, ho']
    simp only [Bool.not_true, Bool.false_eq_true, if_false, hst]
    rw [hv, hev]
    rfl
  refine ⟨ob', v, ho', hn', hst, by rw [← hn']; exact hvalue, hread, ?_⟩
  have hch : (s'.nodeD ob'.node).changedAt = (t3.nodeD ob'.node).changedAt := P18.nodeChangedAt M.ended _
  have hvl : (s'.nodeD ob'.node).value = (t3.nodeD ob'.node).value := P18.nodeValue M.ended _
  have hvc := (M.valchg ob'.node).1
  rw [← hch, ← hvl, hvalue] at hvc
  unfold expected
  rw [ho']
  simp only [hst, if_true, hvalue]
  by_cases hp : h.prev = .neverBeenUpdated
  · rw [if_pos hp, if_pos hp]
  · rw [if_neg hp, if_neg hp, ← hn']
    by_cases hc : (s'.nodeD ob'.node).changedAt = s.stabNum
    · rw [if_pos hc, if_neg (fun e => (hvc.1 hc) e.symm)]
    · rw [if_neg hc]
      have : (s.nodeD ob'.node).value = some v := by
        apply Classical.byContradiction
        intro hne
        exact hc (hvc.2 (fun e => hne e.symm))
      rw [if_pos this]

/-- a record on a disallowed or unlinked observer is told nothing -/
theorem expected_dead_w {env : Env} {fuel : Nat} {s t2 t3 s' : State} (U : UInvE env s)
    (X : WStab env fuel s t2 t3 s') {o : Nat} {ob : ObsRec} (h : HandlerRec)
    (ho : s.observers[o]? = some ob) (hs : ¬ (ob.state = .created ∨ ob.state = .inUse)) :
    expected s s' o h = none := by
  have _ := U
  obtain ⟨ob', ho', -, hst'⟩ := X.obs.2 o ob ho
  have hst : ob'.state ≠ .inUse := by
    rw [hst']
    cases e : ob.state
    · exact absurd (Or.inl e) hs
    · exact absurd (Or.inr e) hs
    · intro x; cases x
    · intro x; cases x
  unfold expected
  rw [ho']
  simp only [hst, if_false]

namespace P18
open IncrVerif.Proofs.SubsH

/-- every handler record after a `stabilise` comes from a record of the same observer with the same token -/
theorem stab_back {env : Env} {s t3 s' : State} (M : MidStateW env s t3 s') {o : Nat} {ob' : ObsRec}
    {h' : HandlerRec} (ho' : s'.observers[o]? = some ob') (hm : h' ∈ ob'.handlers) :
    ∃ ob h, s.observers[o]? = some ob ∧ h ∈ ob.handlers ∧ h.token = h'.token := by
  have hlt : o < t3.observers.size := by
    rw [← M.ended.obsSize]; exact (Array.getElem?_eq_some_iff.1 ho').1
  obtain ⟨ob3, ho3⟩ : ∃ ob3, t3.observers[o]? = some ob3 := ⟨_, Array.getElem?_eq_getElem hlt⟩
  have hlt0 : o < s.observers.size := by rw [← M.obsMap.1]; exact hlt
  obtain ⟨ob, ho⟩ : ∃ ob, s.observers[o]? = some ob := ⟨_, Array.getElem?_eq_getElem hlt0⟩
  have hh : ob3.handlers = ob.handlers := by
    have := M.handlers o
    rw [hOf_of_some ho3, hOf_of_some ho] at this
    exact this
  have hE := M.ended.obs o ob3 ho3
  rw [ho'] at hE
  injection hE with hE
  rw [hE] at hm
  split at hm
  · simp only [List.mem_map] at hm
    obtain ⟨h3, hm3, e3⟩ := hm
    refine ⟨ob, h3, ho, by rw [← hh]; exact hm3, ?_⟩
    rw [← e3]
    unfold stepPrev
    split <;> rfl
  · exact ⟨ob, h', ho, by rw [← hh]; exact hm, rfl⟩

/-- **a `stabilise` keeps the link between the log of `t` and the state** (port of `SubsH.TInv.stabilise`) -/
theorem tinv_stabilise {env : Env} (hw : WOnly env) (hH : WHandlers env) {fuel : Nat} {s s' : State} {t : Nat}
    {acc : List Update} (U : UInvE env s) (hrun : (stabilise env fuel).run.run s = (.ok (), s'))
    (T : TInv s t acc) : TInv s' t (accAfter env s s' t acc) := by
  obtain ⟨t2, t3, X⟩ := stabilise_w hw hH U hrun
  have M := X.mid
  obtain ⟨-, hspec, hnodup⟩ := endNotifs_specW U.u M
  obtain ⟨P1, P2⟩ := filterMap_pick_of_nodup t (endNotifs env t3) hnodup
  have hlog : tokLog t s'.log = acc ++ (endNotifs env t3).filterMap (pickTok t) := by
    rw [tokLog_notifs, notifs_log M, tokLog_append, tokLog_reverse, ← tokLog_notifs, T.log]
  have hnt : s'.nextToken = s.nextToken := by rw [M.ended.nextToken, M.nextToken]
  have O' := obsInv_final X
  -- the case of a live registration
  have key : ∀ o ob h, s.observers[o]? = some ob → (ob.state = .created ∨ ob.state = .inUse) →
      h ∈ ob.handlers → h.token = t →
      ∃ ob' v, s'.observers[o]? = some ob' ∧ ob'.node = ob.node ∧ ob'.state = .inUse ∧
        (s'.nodeD ob.node).value = some v ∧ accAfter env s s' t acc = acc ++ nextUpdates env s' o acc ∧
        (endNotifs env t3).filterMap (pickTok t) = nextUpdates env s' o acc ∧
        ∃ u, (acc ++ nextUpdates env s' o acc).getLast? = some u ∧ valOf u = some v := by
    intro o ob h ho hs hm ht
    obtain ⟨ob', v, ho', hn', hst', hval', hread, hexp⟩ := expected_live_w U X h ho hs
    have hlive : liveObs s t = some o := liveObs_of_live U.u.hinv ⟨ob, ho, hs, hm, ht⟩
    have hacc : accAfter env s s' t acc = acc ++ nextUpdates env s' o acc := by
      unfold accAfter; rw [hlive]
    -- membership in the delivered notifications is decided by this registration alone
    have hmem : ∀ u, Event.notif t u ∈ endNotifs env t3 ↔ expected s s' o h = some u := by
      intro u
      rw [hspec]
      constructor
      · rintro ⟨o2, ob2, h2, ho2, hm2, ht2, he2⟩
        obtain ⟨e1, e2, e3⟩ := reg_unique U.u.hinv ho2 hm2 ht2 ho hm ht
        subst e1; subst e3; exact he2
      · intro he; exact ⟨o, ob, h, ho, hm, ht, he⟩
    obtain ⟨T1, T2⟩ := T.live o h ⟨ob, ho, hs, hm, ht⟩
    refine ⟨ob', v, ho', hn', hst', hval', hacc, ?_⟩
    unfold nextUpdates
    rw [hread]
    by_cases hp : h.prev = .neverBeenUpdated
    · have hacc0 : acc = [] := T1.1 hp
      rw [if_pos hp] at hexp
      rw [hacc0]
      simp only [List.getLast?_nil, List.nil_append]
      exact ⟨P1 _ ((hmem _).2 hexp), _, rfl, rfl⟩
    · have hne : acc ≠ [] := fun e => hp (T1.2 e)
      obtain ⟨ob0, u, w, ho0, -, hl, hw, hvalw⟩ := T2 hne
      rw [ho] at ho0; cases ho0
      rw [if_neg hp, hvalw] at hexp
      rw [hl]
      simp only [hw]
      by_cases e : w = v
      · rw [if_pos (by rw [e])] at hexp ⊢
        refine ⟨P2 fun u' hu' => ?_, u, by rw [List.append_nil]; exact hl, by rw [hw, e]⟩
        rw [hmem, hexp] at hu'; cases hu'
      · have : ¬ (some w = some v) := fun x => e (Option.some.inj x)
        rw [if_neg this] at hexp ⊢
        exact ⟨P1 _ ((hmem _).2 hexp), _, getLast?_append_singleton _ _, rfl⟩
  -- no live registration: nothing is delivered
  have dead : liveObs s t = none → (endNotifs env t3).filterMap (pickTok t) = [] := by
    intro hl
    apply P2
    intro u hu
    rw [hspec] at hu
    obtain ⟨o2, ob2, h2, ho2, hm2, ht2, he2⟩ := hu
    have hs2 : ¬ (ob2.state = .created ∨ ob2.state = .inUse) :=
      fun hs => liveObs_none hl o2 h2 ⟨ob2, ho2, hs, hm2, ht2⟩
    rw [expected_dead_w U X h2 ho2 hs2] at he2; cases he2
  refine ⟨?_, ?_, ?_⟩
  · -- the log
    rw [hlog]
    cases hl : liveObs s t with
    | none => unfold accAfter; rw [hl, dead hl, List.append_nil]
    | some o =>
      obtain ⟨h, ob, ho, hs, hm, ht⟩ := liveObs_some hl
      obtain ⟨-, -, -, -, -, -, hacc, hdel, -⟩ := key o ob h ho hs hm ht
      rw [hacc, hdel]
  · -- unborn tokens
    intro hle
    rw [hnt] at hle
    have hacc0 := T.unborn hle
    cases hl : liveObs s t with
    | none => unfold accAfter; rw [hl]; exact hacc0
    | some o =>
      obtain ⟨h, ob, ho, hs, hm, ht⟩ := liveObs_some hl
      have := U.u.hinv.tok.fresh o ob ho t (List.mem_map.2 ⟨h, hm, ht⟩)
      omega
  · -- live registrations afterwards
    rintro o h' ⟨ob', ho', hs', hm', ht'⟩
    obtain ⟨ob, h, ho, hm, hth⟩ := stab_back M ho' hm'
    have ht : h.token = t := hth.trans ht'
    -- the observer was created or in use before
    obtain ⟨ob1, ho1, -, hst1⟩ := X.obs.2 o ob ho
    rw [ho'] at ho1; cases ho1
    have hs : ob.state = .created ∨ ob.state = .inUse := by
      cases e : ob.state
      · exact Or.inl rfl
      · exact Or.inr rfl
      · rw [e] at hst1
        rcases hs' with x | x <;> rw [x] at hst1 <;> cases hst1
      · rw [e] at hst1
        rcases hs' with x | x <;> rw [x] at hst1 <;> cases hst1
    obtain ⟨ob2, v, ho2, hn2, hst2, hval2, hacc, -, u, hlast, hvu⟩ := key o ob h ho hs hm ht
    rw [ho'] at ho2; cases ho2
    have hne : accAfter env s s' t acc ≠ [] := by
      rw [hacc]; intro e; rw [e] at hlast; cases hlast
    have hcalled := X.called o ob' h' ho' hst2 hm'
    refine ⟨⟨fun e => absurd e hcalled, fun e => absurd e hne⟩, fun _ => ?_⟩
    exact ⟨ob', u, v, ho', hst2, by rw [hacc]; exact hlast, hvu, by rw [hn2]; exact hval2⟩

/-- port of `SubsH.specT_run` -/
theorem specT_run {env : Env} (hw : WOnly env) (hH : WHandlers env) {t : Nat} {acts : List Action} {s s' : State}
    {tk tk' : Array Nat} {acc : List Update} (U : UInvE env s) (T : TInv s t acc)
    (ha : ∀ a, a ∈ acts → WAction env a) (h : runActions env acts s tk = .ok (s', tk')) :
    TInv s' t (specT env t acts s tk acc) := by
  induction acts generalizing s tk acc with
  | nil => simp only [runActions] at h; cases h; exact T
  | cons a as ih =>
    simp only [runActions] at h
    rcases hx : (stepAction env a tk).run.run s with ⟨_ | r, s1⟩
    · rw [hx] at h; cases h
    · rw [hx] at h
      have haa := ha a (List.mem_cons_self ..)
      have U1 := step_w hw hH U haa hx
      rw [specT_cons_ok env t a as s s1 tk acc r hx]
      refine ih U1 ?_ (fun b hb => ha b (List.mem_cons_of_mem _ hb)) h
      by_cases e : a = .stabilise
      · subst e
        exact tinv_stabilise hw hH U (step_stabilise hx) T
      · rw [stepAcc_other env t s s1 acc e]
        have hnd : ∀ e c cb, a ≠ .addDep e c cb := by
          intro e c cb heq; rw [heq] at haa; exact haa.elim
        have h0 := hx
        rw [← stepAction_noEff env a tk e hnd] at h0
        exact T.nstep ((SubsH.step_u U.u (pureHandlers_noEff env) haa h0).2 e)

end P18


/-- **S3 / C09 with effects** (port of `SubsH.history_notifications`): along every history of the fragment from the
initial state, the updates logged for token `t` are exactly `specT` -/
theorem history_notifications_w {env : Env} (hw : WOnly env) (hH : WHandlers env) {N : Nat} {d : Bool}
    {acts : List Action} {s : State} {tk : Array Nat} (ha : ∀ a, a ∈ acts → WAction env a)
    (h : runActions env acts (State.init N d) #[] = .ok (s, tk)) (t : Nat) :
    tokLog t s.log = specT env t acts (State.init N d) #[] [] :=
  (P18.specT_run hw hH (uinve_init env N d) (SubsH.tinv_init N d t) ha h).log

/-- hence: `Initialised` at most once and first, then only `Changed`; never `Invalidated` -/
theorem history_shape_w {env : Env} (hw : WOnly env) (hH : WHandlers env) {N : Nat} {d : Bool}
    {acts : List Action} {s : State} {tk : Array Nat} (ha : ∀ a, a ∈ acts → WAction env a)
    (h : runActions env acts (State.init N d) #[] = .ok (s, tk)) (t : Nat) : Shape (tokLog t s.log) := by
  rw [history_notifications_w hw hH ha h t]
  exact SubsH.specT_shape env t acts _ _ trivial

end IncrVerif.Proofs.EffH
