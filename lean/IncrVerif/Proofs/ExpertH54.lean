import IncrVerif.Proofs.BindH13
/-!
# Drivers: a run of a node that REWIRES other (static, fold-like) nodes re-establishes the drain invariant
(pure logic, from the contract `StepD`; the analogue of `StepL`/`stepL_inv`)
-/
namespace IncrVerif.Proofs.ExpertH.Drv
open IncrVerif.Engine IncrVerif.Proofs IncrVerif.Proofs.Step IncrVerif.Proofs.Sched IncrVerif.Proofs.BindH

/-- `s'` is `s` after a successful run of the driver `n` that computed `v` (stamped `changedAt` iff `ch`), returned `r`,
and rewired the nodes `x` with `X x` -/
structure StepD (env : Env) (X : Nat → Prop) (n : Nat) (v : Val) (ch : Bool) (r : Option Nat) (s s' : State) :
    Prop where
  size : s'.nodes.size = s.nodes.size
  vars : s'.vars = s.vars
  binds : s'.binds = s.binds
  stabNum : s'.stabNum = s.stabNum
  /-- structure and heap of the new state, wholesale -/
  graph' : BGraph env s'
  heap' : HeapInv s'
  stamps' : Stamps s'
  qstale' : ∀ m, (s'.nodeD m).inRch = true → s'.isStale m = true
  pending' : ∀ m, s'.isNecessary m = true → s'.isStale m = true → (s'.nodeD m).inRch = true ∨ r = some m
  /-- the driver itself: a node whose own edges are not touched -/
  notX : ¬ X n
  self : (s'.nodeD n).recomputedAt = s.stabNum ∧
    (s'.nodeD n).changedAt = (if ch = true then s.stabNum else (s.nodeD n).changedAt) ∧
    (s'.nodeD n).value = some v ∧ (s'.nodeD n).valid = true ∧ (s'.nodeD n).kind = (s.nodeD n).kind ∧
    s'.children n = s.children n ∧ (s'.nodeD n).createdIn = (s.nodeD n).createdIn
  target : TargetB env s n v
  unch : ch = false → (s.nodeD n).value = some v ∧ r = none
  /-- the other nodes: unchanged in what evaluation reads; kind, own stamp and own edges unchanged unless they are
  rewired -/
  old : ∀ m, m < s.nodes.size → m ≠ n →
    (s'.nodeD m).valid = (s.nodeD m).valid ∧
    (s'.nodeD m).createdIn = (s.nodeD m).createdIn ∧ (s'.nodeD m).value = (s.nodeD m).value ∧
    (s'.nodeD m).changedAt = (s.nodeD m).changedAt ∧
    (¬ X m → (s'.nodeD m).kind = (s.nodeD m).kind ∧
      (s'.nodeD m).recomputedAt = (s.nodeD m).recomputedAt ∧ s'.children m = s.children m)
  /-- the rewired nodes: the driver was their child, they are stale afterwards, and their own stamp (which the
  rewiring may reset in order to force staleness) is not of this round -/
  rewired : ∀ x, X x → n ∈ s.children x ∧ s'.isStale x = true ∧ (s'.nodeD x).recomputedAt < s.stabNum
  /-- the handed-over parent (direct recompute): a necessary unqueued parent of `n`, nothing queued is lower -/
  ret : ∀ p, r = some p → n ∈ s'.children p ∧ (s'.nodeD p).inRch = false ∧ s'.isNecessary p = true ∧
    ∀ m, (s'.nodeD m).inRch = true → (s'.nodeD p).height ≤ (s'.nodeD m).height

/-- a parent of the current node has not been recomputed in this round (discharges the stamp clause of
`StepD.rewired` when the rewiring leaves `recomputedAt` alone) -/
theorem parent_fresh {env : Env} {s : State} {n x : Nat} (I : DInv env s (some n)) (h : n ∈ s.children x) :
    (s.nodeD x).recomputedAt < s.stabNum :=
  I.fresh x n (Below.of_edge (Edge.child h)) (Or.inr rfl)

section
variable {env : Env} {X : Nat → Prop} {n : Nat} {v : Val} {ch : Bool} {r : Option Nat} {s s' : State}

/-- the rewired nodes are valid nodes of the old state, different from the driver -/
theorem StepD.rewired_facts (R : StepD env X n v ch r s s') {x : Nat} (hx : X x) :
    x < s.nodes.size ∧ (s.nodeD x).valid = true ∧ x ≠ n := by
  have he : Edge s x n := Edge.child (R.rewired x hx).1
  exact ⟨he.lt_size, he.valid, fun e => R.notX (e ▸ hx)⟩

/-- the driver is not stale afterwards -/
theorem StepD.self_fresh (R : StepD env X n v ch r s s') (I : DInv env s (some n)) : s'.isStale n = false := by
  have hlt' : n < s'.nodes.size := by rw [R.size]; exact I.cur_facts.2.1
  apply isStale_fresh (R.graph'.node n hlt' R.self.2.2.2.1).1 R.stamps'.now (by rw [R.self.1, R.stabNum])
  · exact R.stamps'.var
  · intro c; exact (R.stamps'.node c).2

/-- the stamp `changedAt` of a node is unchanged, except for the driver when it changed -/
theorem StepD.changedAt_same (R : StepD env X n v ch r s s') {c : Nat} (hc : c < s.nodes.size)
    (h : c ≠ n ∨ ch = false) : (s'.nodeD c).changedAt = (s.nodeD c).changedAt := by
  by_cases hcn : c = n
  · subst hcn
    rcases h with h | h
    · exact absurd rfl h
    · rw [R.self.2.1, h]; rfl
  · exact (R.old c hc hcn).2.2.2.1

/-- the stored value of a node is unchanged, except for the driver when it changed -/
theorem StepD.value_same (R : StepD env X n v ch r s s') {c : Nat} (hc : c < s.nodes.size)
    (h : c ≠ n ∨ ch = false) : (s'.nodeD c).value = (s.nodeD c).value := by
  by_cases hcn : c = n
  · subst hcn
    rcases h with h | h
    · exact absurd rfl h
    · rw [R.self.2.2.1, (R.unch h).1]
  · exact (R.old c hc hcn).2.2.1

/-- staleness of a node that is neither the driver nor rewired is unchanged, unless it is a parent of a driver
that changed -/
theorem StepD.stale_kept (R : StepD env X n v ch r s s') (g : BGraph env s) {m : Nat} (hm : m < s.nodes.size)
    (hne : m ≠ n) (hX : ¬ X m) (hp : n ∉ s.children m ∨ ch = false) : s'.isStale m = s.isStale m := by
  obtain ⟨k0, -, -, -, k⟩ := R.old m hm hne
  obtain ⟨k1, k4, k6⟩ := k hX
  cases hv : (s.nodeD m).valid with
  | false => rw [isStale_invalid hv, isStale_invalid (by rw [k0]; exact hv)]
  | true =>
    have hB := (g.node m hm hv).1
    apply isStale_congr hB k1 k0 k4 (fun c => by rw [R.vars]) k6
    intro c hc
    have hclt := ((g.node m hm hv).2.2 c hc).1
    apply R.changedAt_same hclt
    rcases hp with hp | hp
    · exact Or.inl (fun e => hp (e ▸ hc))
    · exact Or.inr hp

/-- a parent (neither the driver nor rewired) of a driver that changed is stale afterwards -/
theorem StepD.parent_stale (R : StepD env X n v ch r s s') (I : DInv env s (some n)) {m : Nat}
    (hm : m < s.nodes.size) (hne : m ≠ n) (hX : ¬ X m) (hv' : (s'.nodeD m).valid = true)
    (hc : n ∈ s.children m) (hch : ch = true) : s'.isStale m = true := by
  obtain ⟨-, -, -, -, k⟩ := R.old m hm hne
  obtain ⟨-, k4, k6⟩ := k hX
  have hm' : m < s'.nodes.size := by rw [R.size]; exact hm
  apply isStale_of_child hv' (R.graph'.node m hm' hv').1 (by rw [k6]; exact hc)
  rw [R.self.2.1, if_pos hch, k4]
  exact parent_fresh I hc

/-- an edge of the new graph that leaves a node that is not rewired is an edge of the old graph -/
theorem StepD.edge_old (R : StepD env X n v ch r s s') (hnv : (s.nodeD n).valid = true) {a c : Nat}
    (ha : a < s.nodes.size) (hX : ¬ X a) (he : Edge s' a c) : Edge s a c := by
  have hv' := he.valid
  by_cases han : a = n
  · subst han
    cases he with
    | child hc => rw [R.self.2.2.2.2.2.1] at hc; exact Edge.child hc
    | scope hv2 hsc hb =>
      rw [R.binds] at hb
      exact Edge.scope hnv (R.self.2.2.2.2.2.2.symm.trans hsc) hb
  · obtain ⟨k0, k2, -, -, k⟩ := R.old a ha han
    cases he with
    | child hc => rw [(k hX).2.2] at hc; exact Edge.child hc
    | scope hv2 hsc hb =>
      rw [R.binds] at hb
      rw [k2] at hsc
      exact Edge.scope (by rw [← k0]; exact hv2) hsc hb

/-- the key of the `fresh` field: a path of the new graph to a node that is stale (or handed over) afterwards gives,
in the OLD graph, a path to a node that was stale before (and is not `n`), or to `n` itself -/
theorem StepD.path_old (R : StepD env X n v ch r s s') (I : DInv env s (some n)) {a d : Nat} (h : Below s' a d)
    (hd : s'.isStale d = true ∨ r = some d) (ha : a < s.nodes.size) :
    ∃ d0, Below s a d0 ∧ ((s.isStale d0 = true ∧ d0 ≠ n) ∨ (d0 = n ∧ a ≠ n)) := by
  have g := I.graph
  obtain ⟨hn, hnlt, hnv, -, -⟩ := I.cur_facts
  -- a parent of the driver (in the old graph) always works; the rewired nodes are such parents
  have hparOK : ∀ x, n ∈ s.children x →
      ∃ d0, Below s x d0 ∧ ((s.isStale d0 = true ∧ d0 ≠ n) ∨ (d0 = n ∧ x ≠ n)) := by
    intro x hx
    exact ⟨n, Below.of_edge (Edge.child hx), Or.inr ⟨rfl, g.edge_ne (Edge.child hx)⟩⟩
  induction h with
  | refl a =>
    by_cases haX : X a
    · exact hparOK a (R.rewired a haX).1
    by_cases hap : n ∈ s.children a
    · exact hparOK a hap
    by_cases han : a = n
    · exfalso
      subst han
      rcases hd with hd | hd
      · rw [R.self_fresh I] at hd; cases hd
      · exact R.graph'.edge_ne (Edge.child (R.ret a hd).1) rfl
    · rcases hd with hd | hd
      · rw [R.stale_kept g ha han haX (Or.inl hap)] at hd
        exact ⟨a, Below.refl a, Or.inl ⟨hd, han⟩⟩
      · exfalso
        have h1 := (R.ret a hd).1
        rw [((R.old a ha han).2.2.2.2 haX).2.2] at h1
        exact hap h1
  | step he hcd ih =>
    rename_i a c d
    by_cases haX : X a
    · exact hparOK a (R.rewired a haX).1
    have he0 : Edge s a c := R.edge_old hnv ha haX he
    obtain ⟨d0, hb0, hcase⟩ := ih hd (g.edge_target he0).1
    refine ⟨d0, Below.step he0 hb0, ?_⟩
    rcases hcase with h1 | ⟨h1, h2⟩
    · exact Or.inl h1
    · refine Or.inr ⟨h1, ?_⟩
      intro e
      subst e
      subst h1
      exact g.no_cycle hb0 he0

/-- **A run of a driver re-establishes the drain invariant**, with the handed-over parent (if any) as the new current
node. -/
theorem stepD_inv (I : DInv env s (some n)) (R : StepD env X n v ch r s s') : DInv env s' r := by
  have g := I.graph
  obtain ⟨hn, hnlt, hnv, hnq, hnr⟩ := I.cur_facts
  refine ⟨R.graph', R.heap', R.stamps', R.qstale', R.pending', ?_, ?_, ?_⟩
  · -- cons
    intro m hmlt' hmv hst
    have hm : m < s.nodes.size := by rw [← R.size]; exact hmlt'
    by_cases hmn' : m = n
    · subst hmn'
      refine ⟨v, ?_, R.self.2.2.1⟩
      apply TargetB.congr' hnv (g.node m hm hnv).1 R.self.2.2.2.2.1 R.vars _ _ R.target
      · intro b lc _; rw [R.binds]
      · intro c hc
        have hclt := ((g.node m hm hnv).2.2 c hc).1
        exact R.value_same hclt (Or.inl (Ne.symm (g.edge_ne (Edge.child hc))))
    by_cases hmX : X m
    · rw [(R.rewired m hmX).2.1] at hst; cases hst
    obtain ⟨k0, -, k3, -, k⟩ := R.old m hm hmn'
    obtain ⟨k1, -, k6⟩ := k hmX
    have hv : (s.nodeD m).valid = true := by rw [← k0]; exact hmv
    have hB := (g.node m hm hv).1
    -- `m` is not a parent of a driver that changed
    have hp : n ∉ s.children m ∨ ch = false := by
      by_cases hc : n ∈ s.children m
      · cases hch : ch with
        | false => exact Or.inr rfl
        | true => rw [R.parent_stale I hm hmn' hmX hmv hc hch] at hst; cases hst
      · exact Or.inl hc
    rw [R.stale_kept g hm hmn' hmX hp] at hst
    obtain ⟨w, hw, hval⟩ := I.cons m hm hv hst
    refine ⟨w, ?_, by rw [k3]; exact hval⟩
    apply TargetB.congr' hv hB k1 R.vars _ _ hw
    · intro b lc _; rw [R.binds]
    · intro c hc
      have hclt := ((g.node m hm hv).2.2 c hc).1
      apply R.value_same hclt
      rcases hp with hp | hp
      · exact Or.inl (fun e => hp (e ▸ hc))
      · exact Or.inr hp
  · -- fresh
    intro a d hbel hd
    rw [R.stabNum]
    by_cases hnew : s.nodes.size ≤ a
    · rw [nodeD_default_of_ge s' a (by rw [R.size]; omega)]
      show (-1 : Int) < s.stabNum
      have := I.stamps.now; omega
    have ha : a < s.nodes.size := by omega
    obtain ⟨d0, hb0, hcase⟩ := R.path_old I hbel hd ha
    have key : (s.nodeD a).recomputedAt < s.stabNum ∧ a ≠ n := by
      rcases hcase with ⟨h1, h2⟩ | ⟨h1, h2⟩
      · refine ⟨I.fresh a d0 hb0 (Or.inl h1), ?_⟩
        intro e
        subst e
        have hdn := (g.below_nec hb0 hn).1
        rcases I.pending d0 hdn h1 with h3 | h3
        · rw [(I.cur a rfl).2 d0 hb0] at h3; cases h3
        · injection h3 with h3; exact h2 h3.symm
      · subst h1
        exact ⟨I.fresh a d0 hb0 (Or.inr rfl), h2⟩
    by_cases haX : X a
    · exact (R.rewired a haX).2.2
    · rw [((R.old a ha key.2).2.2.2.2 haX).2.1]
      exact key.1
  · -- cur
    intro p hp
    obtain ⟨-, hq, hnec, hmin⟩ := R.ret p hp
    refine ⟨hnec, ?_⟩
    intro d hd
    by_cases hdp : d = p
    · rw [hdp]; exact hq
    · cases hq' : (s'.nodeD d).inRch with
      | false => rfl
      | true =>
        have := hmin d hq'
        have := R.graph'.below_lt hd hnec (Ne.symm hdp)
        omega

end

/-! ## consequences of the invariant for a node that is about to run -/

/-- an expert node runs after its drivers: when `x` is about to run, every child of `x` is necessary, not queued and
not stale -/
theorem children_settled {env : Env} {x : Nat} {s : State} (I : DInv env s (some x)) :
    ∀ c, c ∈ s.children x → s.isNecessary c = true ∧ (s.nodeD c).inRch = false ∧ s.isStale c = false := by
  intro c hc
  obtain ⟨hn, hbel⟩ := I.cur x rfl
  have he : Edge s x c := Edge.child hc
  have hcn := (I.graph.edge_nec hn he).1
  have hq := hbel c (Below.of_edge he)
  refine ⟨hcn, hq, ?_⟩
  cases hst : s.isStale c with
  | false => rfl
  | true =>
    exfalso
    rcases I.pending c hcn hst with h | h
    · rw [hq] at h; cases h
    · injection h with h; exact I.graph.edge_ne he h

/-- … and carries its defining value (so all drivers have run on the current inputs) -/
theorem children_consistent {env : Env} {x : Nat} {s : State} (I : DInv env s (some x)) :
    ∀ c, c ∈ s.children x → ConsistentB env s c := by
  intro c hc
  obtain ⟨hlt, hv⟩ := I.graph.edge_target (Edge.child hc)
  exact I.cons c hlt hv (children_settled I c hc).2.2

end IncrVerif.Proofs.ExpertH.Drv
