import IncrVerif.Proofs.NestH72
import IncrVerif.Proofs.BindH104
/-!
# Nested binds (F2), part 5g2: "generations are current" (`GenOK2`) through a drain, part 2 — a run of a change detector; the drain

Port of `BindH104` (`C3g2`).  A run of the change detector `n` of bind `b`: the closure run (phase 1) registers the image of the template for the CURRENT lhs value
(`ClosureElabSpec2`, a hypothesis); phases 2–4 keep the naming table, the kinds of all nodes, the records (up to their lists) of the inner binds just created and the
lhs value, and install the right-hand side.  For the other OLD binds whose change detector is still VALID: record (`StepL2.bindsOld` + `All2.recValid`), kinds of
registered nodes, records of registered inner binds (up to their lists), lhs value and the staleness of the change detector are unchanged (`StepL2`).  The records of
the inner binds created by the run have pristine, hence STALE change detectors (`StepL2.new`): no obligation.  The records of the inner binds that died have INVALID
change detectors: no obligation.
-/
namespace IncrVerif.Proofs.NestH
open IncrVerif.Engine IncrVerif.Proofs IncrVerif.Proofs.Step IncrVerif.Proofs.Sched IncrVerif.Proofs.Quiet
open IncrVerif.Proofs.BindH

namespace N5g

set_option maxHeartbeats 800000 in
/-- **a run of a change detector keeps `GenOK2`** -/
theorem lc_gen2 {env : Env} (CS : ClosureSpec2 env) (RS : RelinkSpec2 env) (IS : InvalSpec2 env)
    (ES : ClosureElabSpec2 env) {fuel n b : Nat} {rk : Nat → Nat} {s s' : State} {r : Option Nat}
    (I : DInv env s (some n)) (A : F2Inv env rk s) (G : GenOK2 env s) (hk : (s.nodeD n).kind = .bindLhsChange b)
    (h : (recomputeOne env fuel n).run.run s = (.ok r, s')) : GenOK2 env s' := by
  have g := I.graph
  obtain ⟨br0, br0', rk', L, A', -⟩ := recomputeOne_lcF2 CS RS IS I A hk h
  obtain ⟨br, X⟩ := NC.lc_pre2 I A hk
  have ebr : br0 = br := by
    have := L.bind
    rw [X.hb] at this
    exact (Option.some.inj this).symm
  rw [ebr] at L
  obtain ⟨rhs, s1, s2, s3, h1, h2, h3, h4⟩ := CC.lc_run_inv X.hlt X.hvn hk X.hb h
  obtain ⟨rk1, l, P⟩ := NC.phase1 CS X A h1
  have Q := NC.phase2 RS X A P h2
  have R := NC.phase3 IS X A P Q h3
  have M := NC.midRel2_of X A P Q R
  -- the image of the template after phase 1
  obtain ⟨v, l', locs, hv, hbl, E⟩ := ES n b rhs br rk (started n s) s1 (· = br.main) h1 X.g0 X.ahh0 X.hb X.hlc
    (by rw [CC.started_self X.hlt]; exact X.hvn)
    (by
      obtain ⟨f, hf⟩ := A.closures b br X.hb
      rw [X.hlc] at hf
      exact ⟨f, BodyOK2.mono (s := s) (s' := started n s) rfl (fun r h _ => h) f _ hf⟩)
    (fun k r hk => by
      obtain ⟨h1, h2, h3⟩ := A.topOK k r hk
      obtain ⟨y, e⟩ := CC.started_upto n s r
      refine ⟨by rw [CC.started_size]; exact h1, by rw [e]; exact h2, fun b' => by rw [e]; exact h3 b'⟩)
  have el : l' = l := by
    rw [P.bind] at hbl
    exact (congrArg BindRec.allNodesCreatedOnRhs (Option.some.inj hbl)).symm
  rw [el] at E
  -- the last step: naming table, bind table, kinds
  have K4 : KeyD s3 s' := (PresK.maybeChangeValue env fuel n .unit).h s3 _ s' h4
  simp only [KeyD, stateKeyD, Prod.mk.injEq] at K4
  obtain ⟨-, -, -, htop4, -, -, -, hb4, -⟩ := K4
  have D4 := ((C2k.PresD.maybeChangeValue (b := b) env fuel n .unit).h s3 _ s' h4).1
  have htop1 : s1.top = s.top := P.rel.top
  have htop : s'.top = s.top := by rw [htop4, M.top]
  have hsz3 : s3.nodes.size = s1.nodes.size := R.rel.size.trans Q.rel.size
  have kind13 : ∀ m, (s3.nodeD m).kind = (s1.nodeD m).kind := by
    intro m
    rw [← Q.kind m]
    by_cases hd : Dying s2 br.allNodesCreatedOnRhs m
    · exact (R.rel.dead m hd).2.1
    · rw [R.rel.other m hd]
  have hnlt' : n < s'.nodes.size := Nat.lt_of_lt_of_le X.hlt L.grow
  -- an old node that is a child of a valid old node of `s'` is kept
  intro b' br' hb' hvl' hst'
  by_cases eb : b' = b
  · -- the bind whose change detector ran
    rw [eb, hb4, M.bind] at hb'
    have ebr' := (Option.some.inj hb').symm
    rw [ebr']
    obtain ⟨-, -, f3, f4, -, f6, -⟩ := rec_facts2 A.frag X.hb (by rw [X.hlc]; exact X.hvn)
    rw [X.hlc] at f3 f6
    have hlhsne : br.lhs ≠ n := by intro e; rw [e] at f6; omega
    have hlhsv' : (s'.nodeD br.lhs).valid = true := by
      refine ((L.graph'.node n hnlt' L.self.2.2.2.1).2.2 br.lhs ?_).2
      rw [L.self.2.2.2.2.2.1, f3]; exact List.mem_singleton.2 rfl
    refine ⟨v, rhs, locs, ?_, rfl, ?_⟩
    · show (s'.nodeD br.lhs).value = some v
      rw [(L.kept f4 hlhsne hlhsv').2.2.2.1, ← CC.started_other s hlhsne]
      exact hv
    · show ElabOf2 s' (env.body br.body v) v l locs rhs
      refine elabOf2_mono (C3g.top_mono_of_eq (by rw [htop, htop1])) ?_ ?_ E
      · intro m hm
        obtain ⟨-, m2⟩ := (P.lmem m).1 (loc_mem E hm)
        rw [(D4.old m (by rw [hsz3]; exact m2)).1, kind13]
      · intro b2 br2 k1 k2
        obtain ⟨m1, -⟩ := (P.lmem _).1 (loc_mem E k2)
        have e2 : b2 ≠ b := by
          intro e
          rw [e, P.bind] at k1
          have := (Option.some.inj k1).symm
          rw [this] at m1
          have : br.main < s.nodes.size := X.hml
          have : ({ br with allNodesCreatedOnRhs := l } : BindRec).main = br.main := rfl
          omega
        have k3 : s2.binds[b2]? = some br2 := by rw [Q.rel.bindsOther b2 e2]; exact k1
        obtain ⟨r1, r2⟩ := R.rel.binds b2 br2 k3
        by_cases hd : Dying s2 br.allNodesCreatedOnRhs br2.main
        · exact ⟨{ br2 with allNodesCreatedOnRhs := [] }, by rw [hb4]; exact r1 hd, ⟨rfl, rfl, rfl, rfl⟩⟩
        · exact ⟨br2, by rw [hb4]; exact r2 hd, RecSame.refl _⟩
  · by_cases hlt : b' < s.binds.size
    · -- another old bind whose change detector is still valid
      obtain ⟨br0, hb0⟩ := NC.getElem?_some_of_lt hlt
      obtain ⟨br1, j1, j2, j3⟩ := L.bindsOld.2 b' br0 eb hb0
      rw [hb'] at j1
      have e1 := Option.some.inj j1
      rw [← e1] at j2 j3
      have hmv' : (s'.nodeD br0.main).valid = true := by
        rw [← j2.main, A'.frag.recValid b' br' hb']; exact hvl'
      have ebr0 : br' = br0 := j3 hmv'
      rw [ebr0] at hb' hvl' hst' ⊢
      obtain ⟨-, -, c3', -, c5', -⟩ := rec_facts2 A'.frag hb' hvl'
      have c1 := A.frag.lc_lt hb0
      have c3 := (A.frag.recs b' br0 hb0).2.2.1
      have hlcne : br0.lhsChange ≠ n := by
        intro e
        rw [e, hk] at c3
        injection c3 with c3
        exact eb c3.symm
      have hlcmain : br0.lhsChange ≠ br.main := by
        intro e
        rw [e, X.hkm] at c3; cases c3
      have hvl0 : (s.nodeD br0.lhsChange).valid = true := (L.kept c1 hlcne hvl').1
      have hst0 : s.isStale br0.lhsChange = false := by
        rw [← L.stale_kept g hk c1 hlcne hlcmain hvl']; exact hst'
      obtain ⟨-, -, -, hl1, -⟩ := rec_facts2 A.frag hb0 hvl0
      have hl2 : br0.lhs ≠ n := by
        intro e
        exact A.lhsOK b' br0 hb0 hvl0 b (by rw [e]; exact hk)
      refine gen_rec2 G hb0 hvl0 hst0 (C3g.top_mono_of_eq htop) (L.kept hl1 hl2 c5').2.2.2.1 ?_ ?_
      · intro m hm
        by_cases hmn : m = n
        · rw [hmn]; exact L.self.2.2.2.2.1
        · obtain ⟨d1, -, -⟩ := (A.frag.gen b' br0 hb0 m).1 (Or.inl hm)
          obtain ⟨-, d2', -⟩ := (A'.frag.gen b' br0 hb' m).1 (Or.inl hm)
          exact (L.kept d1 hmn d2').2.1
      · intro b2 br2 k1 _
        by_cases e2 : b2 = b
        · rw [e2, X.hb] at k1
          have := Option.some.inj k1
          rw [← this]
          exact ⟨_, by rw [e2]; exact L.bind', ⟨L.lc.2.2.2.1, L.lc.2.2.2.2, L.lc.2.1.trans L.lc.1.symm, L.lc.2.2.1⟩⟩
        · obtain ⟨br3, i1, i2, -⟩ := L.bindsOld.2 b2 br2 e2 k1
          exact ⟨br3, i1, RecSame.of_bsame i2⟩
    · -- the record of an inner bind created by this run: its change detector is pristine, hence stale
      exfalso
      have hb3 : s3.binds[b']? = some br' := by rw [← hb4]; exact hb'
      obtain ⟨-, -, n3, -⟩ := M.bindsNew b' br' (by omega) hb3
      have hlc' := A'.frag.lc_lt hb'
      rw [(L.new _ n3 hlc').2.2 hvl'] at hst'
      cases hst'

end N5g

/-- **every step of a drain keeps `GenOK2`** (together with the auxiliary invariant `AuxS2` of a drain inside `stabilise`) -/
theorem lcStepsOK_gen2 {env : Env} (CS : ClosureSpec2 env) (RS : RelinkSpec2 env) (IS : InvalSpec2 env)
    (ES : ClosureElabSpec2 env) (t : State) : LcStepsOK2 env (fun s => AuxS2 env t s ∧ GenOK2 env s) where
  lc fuel n b s s' r I A hk h := by
    obtain ⟨h1, h2⟩ := (lcStepsOK_auxS_F2 (fun _ _ _ _ _ _ _ I A hk h => recomputeOne_lcF2 CS RS IS I A hk h) t).lc
      fuel n b s s' r I A.1 hk h
    obtain ⟨rk, A0⟩ := A.1.1
    exact ⟨h1, h2, N5g.lc_gen2 CS RS IS ES I A0 A.2 hk h⟩
  other fuel n s s' r I A hk h := by
    obtain ⟨rk, A0⟩ := A.1.1
    exact ⟨(lcStepsOK_auxS_F2 (fun _ _ _ _ _ _ _ I A hk h => recomputeOne_lcF2 CS RS IS I A hk h) t).other
      fuel n s s' r I A.1 hk h, N5g.static_gen2 I A0 A.2 hk h⟩
  pop s s1 n I A h := by
    obtain ⟨rk, A0⟩ := A.1.1
    exact ⟨(lcStepsOK_auxS_F2 (fun _ _ _ _ _ _ _ I A hk h => recomputeOne_lcF2 CS RS IS I A hk h) t).pop
      s s1 n I A.1 h, N5g.pop_gen2 I A0 A.2 h⟩

/-- the same with `Aux2` alone as the auxiliary invariant -/
theorem lcStepsOK_gen2' {env : Env} (CS : ClosureSpec2 env) (RS : RelinkSpec2 env) (IS : InvalSpec2 env)
    (ES : ClosureElabSpec2 env) : LcStepsOK2 env (fun s => Aux2 env s ∧ GenOK2 env s) where
  lc fuel n b s s' r I A hk h := by
    obtain ⟨h1, h2⟩ := (lcStepsOK_F2 (fun _ _ _ _ _ _ _ I A hk h => recomputeOne_lcF2 CS RS IS I A hk h)).lc
      fuel n b s s' r I A.1 hk h
    obtain ⟨rk, A0⟩ := A.1
    exact ⟨h1, h2, N5g.lc_gen2 CS RS IS ES I A0 A.2 hk h⟩
  other fuel n s s' r I A hk h := by
    obtain ⟨rk, A0⟩ := A.1
    exact ⟨(lcStepsOK_F2 (fun _ _ _ _ _ _ _ I A hk h => recomputeOne_lcF2 CS RS IS I A hk h)).other
      fuel n s s' r I A.1 hk h, N5g.static_gen2 I A0 A.2 hk h⟩
  pop s s1 n I A h := by
    obtain ⟨rk, A0⟩ := A.1
    exact ⟨(lcStepsOK_F2 (fun _ _ _ _ _ _ _ I A hk h => recomputeOne_lcF2 CS RS IS I A hk h)).pop
      s s1 n I A.1 h, N5g.pop_gen2 I A0 A.2 h⟩

/-- **a successful drain keeps `GenOK2`**: from the drain invariant, the auxiliary invariant and current generations, `drainHeap` ends with all three (and an empty
heap) -/
theorem drainHeap_gen2 {env : Env} (CS : ClosureSpec2 env) (RS : RelinkSpec2 env) (IS : InvalSpec2 env)
    (ES : ClosureElabSpec2 env) {fuel : Nat} {t s s' : State} (I : DInv env s none) (X : AuxS2 env t s)
    (G : GenOK2 env s) (h : (drainHeap env fuel).run.run s = (.ok (), s')) :
    DInv env s' none ∧ AuxS2 env t s' ∧ GenOK2 env s' ∧ s'.rch.length = 0 ∧ FrameB s s' := by
  obtain ⟨I', ⟨X', G'⟩, he, f⟩ := drainHeap_invB2 (lcStepsOK_gen2 CS RS IS ES t) fuel s s' I ⟨X, G⟩ h
  exact ⟨I', X', G', he, f⟩

/-- the drain in fragment F2 keeps `GenOK2` -/
theorem drainHeap_gen_F2 {env : Env} (CS : ClosureSpec2 env) (RS : RelinkSpec2 env) (IS : InvalSpec2 env)
    (ES : ClosureElabSpec2 env) {fuel : Nat} {s s' : State} (I : DInv env s none) (A : Aux2 env s)
    (G : GenOK2 env s) (h : (drainHeap env fuel).run.run s = (.ok (), s')) :
    DInv env s' none ∧ Aux2 env s' ∧ GenOK2 env s' := by
  obtain ⟨I', ⟨A', G'⟩, -, -⟩ := drainHeap_invB2 (lcStepsOK_gen2' CS RS IS ES) fuel s s' I ⟨A, G⟩ h
  exact ⟨I', A', G'⟩

end IncrVerif.Proofs.NestH
