import IncrVerif.Proofs.Subs6
import IncrVerif.Proofs.Subs7
import IncrVerif.Proofs.Subs8
import IncrVerif.Proofs.Subs9
/-!
# Subscriptions, part 10: `stabilise` with pending observers and effect-free update handlers

`stabilise_u` (after `Quiet.stabilise_q` of `Proofs/Quiet16.lean`): from `UInv`, a `stabilise` that returns ends in
`UInv`; `MidState` describes the state between the drain and `stabilise_end`.
-/
namespace IncrVerif.Proofs.SubsH
open IncrVerif.Engine IncrVerif.Driver IncrVerif.Proofs IncrVerif.Proofs.Step IncrVerif.Proofs.Sched IncrVerif.Proofs.Quiet

/-! ## reading `PFrame` -/

namespace PFrame
variable {s s' : State}

theorem nk (h : PFrame s s') (m : Nat) :
    (s'.nodeD m).kind = (s.nodeD m).kind ∧ (s'.nodeD m).createdIn = (s.nodeD m).createdIn ∧
    (s'.nodeD m).cutoff = (s.nodeD m).cutoff ∧ (s'.nodeD m).value = (s.nodeD m).value ∧
    (s'.nodeD m).valid = (s.nodeD m).valid ∧ (s'.nodeD m).recomputedAt = (s.nodeD m).recomputedAt ∧
    (s'.nodeD m).changedAt = (s.nodeD m).changedAt ∧
    (s'.nodeD m).forceNecessary = (s.nodeD m).forceNecessary := by
  have := h.node m
  simpa only [nodeKeyP, Prod.mk.injEq] using this

theorem kind (h : PFrame s s') (m : Nat) : (s'.nodeD m).kind = (s.nodeD m).kind := (h.nk m).1
theorem value (h : PFrame s s') (m : Nat) : (s'.nodeD m).value = (s.nodeD m).value := (h.nk m).2.2.2.1
theorem recomputedAt (h : PFrame s s') (m : Nat) :
    (s'.nodeD m).recomputedAt = (s.nodeD m).recomputedAt := (h.nk m).2.2.2.2.2.1
theorem changedAt (h : PFrame s s') (m : Nat) :
    (s'.nodeD m).changedAt = (s.nodeD m).changedAt := (h.nk m).2.2.2.2.2.2.1
theorem sk (h : PFrame s s') :
    s'.vars = s.vars ∧ s'.stabNum = s.stabNum ∧ s'.status = s.status ∧ s'.cfg = s.cfg ∧
    s'.currentScope = s.currentScope ∧ s'.setDuringStab = s.setDuringStab ∧ s'.deadVars = s.deadVars ∧
    s'.top = s.top ∧ s'.handles = s.handles ∧ s'.alive = s.alive ∧
    s'.rch.queues.size = s.rch.queues.size ∧ s'.ahh = s.ahh ∧ s'.binds = s.binds ∧ s'.memos = s.memos ∧
    s'.slots = s.slots := by
  have := h.key
  simpa only [stateKeyP, Prod.mk.injEq] using this

theorem vars (h : PFrame s s') : s'.vars = s.vars := h.sk.1
theorem stabNum (h : PFrame s s') : s'.stabNum = s.stabNum := h.sk.2.1
theorem status (h : PFrame s s') : s'.status = s.status := h.sk.2.2.1
theorem setDuringStab (h : PFrame s s') : s'.setDuringStab = s.setDuringStab := h.sk.2.2.2.2.2.1
theorem deadVars (h : PFrame s s') : s'.deadVars = s.deadVars := h.sk.2.2.2.2.2.2.1
theorem top (h : PFrame s s') : s'.top = s.top := h.sk.2.2.2.2.2.2.2.1
theorem alive (h : PFrame s s') : s'.alive = s.alive := h.sk.2.2.2.2.2.2.2.2.2.1

theorem staleOf (h : PFrame s s') (m : Nat) : staleOf s' m = staleOf s m :=
  staleOf_congr (h.kind m) (h.recomputedAt m) h.vars (fun c _ => h.changedAt c)

theorem consistent {env : Env} (h : PFrame s s') {m : Nat} (hc : Consistent env s m) :
    Consistent env s' m := by
  obtain ⟨w, hw, hv⟩ := hc
  exact ⟨w, Target.congr (h.kind m) h.vars (fun c _ => h.value c) hw, by rw [h.value]; exact hv⟩

theorem varsOK (h : PFrame s s') (V : VarsOK s) : VarsOK s' where
  node n c hn hk := by
    rw [h.size] at hn
    rw [h.kind] at hk
    rw [h.vars]; exact V.node n c hn hk
  cell c vc hc := by
    rw [h.vars] at hc
    rw [h.size, h.kind]; exact V.cell c vc hc

end PFrame

/-! ## the two ends of the drain -/

/-! ## `stabilise` -/

/-- fields of the state that the observer bookkeeping does not read (observer lists instead of nodes) -/
theorem obsInv_congr' {s s' : State} {pn pd : List Nat} (O : ObsInv s pn pd)
    (h1 : s'.observers = s.observers) (h2 : s'.nodes.size = s.nodes.size)
    (h3 : ∀ m, (s'.nodeD m).observers = (s.nodeD m).observers) : ObsInv s' pn pd := by
  refine ⟨?_, ?_, ?_, ?_, ?_, ?_, O.disNodup⟩
  · intro o ob h; rw [h1] at h; rw [h2]; exact O.inRange o ob h
  · intro n o; rw [h3, h1]; exact O.mem n o
  · intro o ob h; rw [h1] at h; exact O.created o ob h
  · intro o h; rw [h1]; exact O.newIn o h
  · intro o ob h; rw [h1] at h; exact O.dis o ob h
  · intro o h; rw [h1]; exact O.disIn o h

/-- `t3` is the state between the drain and `stabiliseEnd` of a `stabilise` from `s` to `s'` -/
structure MidState (env : Env) (s t3 s' : State) : Prop where
  ended : Ended env t3 s'
  /-- nothing was delivered before the end of the drain -/
  log : ∃ pre, t3.log = pre ++ s.log ∧ ∀ e, e ∈ pre → NotNotif e
  handlers : ∀ o, hOf t3 o = hOf s o
  obs : ObsInv t3 [] []
  obsMap : ObsMap stabilisedState s t3
  hinv : HInv t3
  stabNum : t3.stabNum = s.stabNum
  nextToken : t3.nextToken = s.nextToken
  hval : ∀ n, t3.isNecessary n = true → (t3.nodeD n).valid = true ∧ (t3.value env n).isSome = true
  plain : ∀ n, t3.isNecessary n = true → t3.value env n = (t3.nodeD n).value
  /-- the cutoff is exact: stamped in this round iff the stored value changed -/
  valchg : ∀ m, ((t3.nodeD m).changedAt = s.stabNum ↔ (t3.nodeD m).value ≠ (s.nodeD m).value) ∧
    ((t3.nodeD m).changedAt ≠ s.stabNum → (t3.nodeD m).changedAt = (s.nodeD m).changedAt)
  /-- changed nodes with update handlers are queued -/
  queued : ∀ n, (t3.nodeD n).changedAt = s.stabNum → 0 < (t3.nodeD n).numOnUpdateHandlers →
    n ∈ t3.handleAfterStab

/-- the conclusions of `stabilise_u` about the final state -/
structure Stabilised (env : Env) (fuel : Nat) (s s' : State) : Prop where
  inv : UInv env s'
  newObservers : s'.newObservers = []
  disallowedObservers : s'.disallowedObservers = []
  vars : s'.vars = s.vars
  stabNum : s'.stabNum = s.stabNum + 1
  size : s'.nodes.size = s.nodes.size
  kind : ∀ m, (s'.nodeD m).kind = (s.nodeD m).kind
  obs : ObsMap stabilisedState s s'
  /-- necessity only grew by `addNewObservers`… and this is what is necessary at the end -/
  values : ∀ n, s'.isNecessary n = true → ∀ k, (s'.nodeD n).height.toNat < k →
    (s'.nodeD n).valid = true ∧ s'.isStale n = false ∧ (s'.nodeD n).value = eval env s' k n ∧
      s'.value env n = eval env s' k n ∧ (eval env s' k n).isSome = true
  /-- the drain: it starts in a state `t` with the drain invariant and the final graph; no node runs
  twice, only necessary nodes run -/
  drain : ∃ t t3, DrainInv env t ∧ (drainHeap env fuel).run.run t = (.ok (), t3) ∧
    (∀ m, s'.isNecessary m = t.isNecessary m) ∧ t.vars = s.vars ∧ t.stabNum = s.stabNum ∧
    (∀ m, (t.nodeD m).kind = (s.nodeD m).kind) ∧
    (drainTrace env fuel t).Nodup ∧
    ∀ m, m ∈ drainTrace env fuel t → s'.isNecessary m = true ∧
      (t.nodeD m).recomputedAt < t.stabNum ∧ (s'.nodeD m).recomputedAt = s.stabNum
  /-- the update handlers -/
  mid : ∃ t3, MidState env s t3 s'
  /-- afterwards every handler of an observer in use has been called -/
  called : ∀ (o : Nat) (ob : ObsRec) (h : HandlerRec), s'.observers[o]? = some ob → ob.state = .inUse →
    h ∈ ob.handlers → h.prev ≠ .neverBeenUpdated

set_option maxHeartbeats 1000000 in
/-- **`stabilise` with pending observers and effect-free update handlers.** -/
theorem stabilise_u {env : Env} {fuel : Nat} {s s' : State} (U : UInv env s) (heff : PureHandlers env)
    (h : (stabilise env fuel).run.run s = (.ok (), s')) : Stabilised env fuel s s' := by
  have Q := U.core
  unfold stabilise at h
  rw [run_bind_get] at h
  obtain ⟨_, sa, ha, h⟩ := bind_ok_inv h
  have hsa : sa = s := by
    rw [run_assertM] at ha
    split at ha <;> cases ha
    rfl
  rw [hsa] at h
  obtain ⟨s0, hs0, h⟩ := bind_modify_inv h
  obtain ⟨_, t1, h1, h⟩ := bind_ok_inv h
  obtain ⟨_, t2, h2, h⟩ := bind_ok_inv h
  obtain ⟨_, t3, h3, h4⟩ := bind_ok_inv h
  -- the state with the status set
  have hnd0 : ∀ m, s0.nodeD m = s.nodeD m := fun m => by rw [hs0]; rfl
  have S0 : SInv env s0 s0.newObservers s0.disallowedObservers := by
    rw [hs0]
    exact ⟨Q.struct.congr (SameG.of_nodes rfl rfl rfl rfl rfl),
      ⟨Q.obs.inRange, Q.obs.mem, Q.obs.created, Q.obs.newIn, Q.obs.dis, Q.obs.disIn, Q.obs.disNodup⟩,
      Q.pinv, U.hinv.of_nodes rfl rfl rfl rfl rfl⟩
  -- the prefix
  obtain ⟨S1, hn1, hd1, F1, O1, N1, K1, L1, T1⟩ := addNewObservers_s S0 h1
  obtain ⟨S2, hn2, hd2, F2, O2, K2, L2, T2⟩ := unlinkDisallowedObservers_s S1 hn1 h2
  have F : PFrame s0 t2 := F1.trans F2
  have hvars0 : s0.vars = s.vars := by rw [hs0]
  have hstab0 : s0.stabNum = s.stabNum := by rw [hs0]
  have hsz0 : s0.nodes.size = s.nodes.size := by rw [hs0]
  have hlog0 : s0.log = s.log := by rw [hs0]
  have hobs0 : s0.observers = s.observers := by rw [hs0]
  have V2 : VarsOK t2 := F.varsOK (by
    refine ⟨?_, ?_⟩
    · intro n c hn hk; rw [hnd0] at hk; rw [hvars0]; exact Q.vars.node n c (by rw [← hsz0]; exact hn) hk
    · intro c vc hc; rw [hvars0] at hc; rw [hsz0, hnd0]; exact Q.vars.cell c vc hc)
  have st2 : ∀ m, (t2.nodeD m).recomputedAt < t2.stabNum ∧ (t2.nodeD m).changedAt < t2.stabNum := by
    intro m
    rw [F.recomputedAt, F.changedAt, F.stabNum, hstab0, hnd0]; exact Q.stamps m
  have cons2 : ∀ m, m < t2.nodes.size → staleOf t2 m = false → Consistent env t2 m := by
    intro m hm hs
    rw [F.staleOf] at hs
    have hs' : staleOf s m = false := by
      rw [← hs]; exact (staleOf_congr (by rw [hnd0]) (by rw [hnd0]) hvars0 (fun c _ => by rw [hnd0])).symm
    have hc := Q.cons m (by rw [← hsz0, ← F.size]; exact hm) hs'
    have hc0 : Consistent env s0 m := by
      obtain ⟨w, hw, hv⟩ := hc
      exact ⟨w, Target.congr (by rw [hnd0]) hvars0 (fun c _ => by rw [hnd0]) hw, by rw [hnd0]; exact hv⟩
    exact F.consistent hc0
  have D2 : DrainInv env t2 :=
    drainInv_of S2.struct V2 (by rw [F.stabNum, hstab0]; exact Q.now) st2
      (fun c vc hc => by rw [F.vars, hvars0] at hc; rw [F.stabNum, hstab0]; exact Q.varStamp c vc hc) cons2
  have U2 : UnnecOK env t2 := fun m hm _ => ⟨(st2 m).1, cons2 m hm⟩
  -- the drain
  obtain ⟨D3, he3, f3⟩ := drainHeap_inv fuel t2 t3 D2 h3
  have c3 := drainHeap_calm fuel t2 t3 D2 h3
  have k3 := drainHeap_keyD D2 h3
  have U3 := drainHeap_unnec D2 U2 h3
  have hu3 := drainHeap_hush fuel t2 t3 D2 h3
  have vc3 := drainHeap_valchg D2 st2
    (fun m hm => (S2.struct.node (nec_lt_size hm)).cutoff) h3
  obtain ⟨hnodup, honce⟩ := drain_once fuel t2 t3 D2 h3
  simp only [stateKeyD, Prod.mk.injEq] at k3
  obtain ⟨k_obs, k_all, k_scope, k_top, k_handles, k_alive, k_pinv, -⟩ := k3
  have S3 : Struct env t3 := Struct.ofDrained S2.struct f3 D3 he3 k_scope
  have hstab2 : t2.stabNum = s.stabNum := by rw [F.stabNum, hstab0]
  have H3 : HInv t3 := P12u.hinv_hush S2.hinv hu3 k_obs (fun m => (f3.shape m).observers) f3.stabNum
  have O3 : ObsInv t3 [] [] := obsInv_congr' S2.obs k_obs f3.size (fun m => (f3.shape m).observers)
  have hval3 : ∀ n, t3.isNecessary n = true →
      (t3.nodeD n).valid = true ∧ (t3.value env n).isSome = true := by
    intro n hn
    obtain ⟨v1, -, v3, -, v5⟩ := drained_values D3 he3 n hn ((t3.nodeD n).height.toNat + 1) (Nat.lt_succ_self _)
    refine ⟨v1, ?_⟩
    rw [D3.graph.value_plain hn, v3]; exact v5
  -- the end
  have E := stabiliseEnd_spec (env := env) (fuel := fuel) (s := t3) (s' := s') heff D3.graph.pc
    (by rw [c3.setDuringStab, F.setDuringStab, hs0]; exact Q.setDuringStab)
    (by rw [c3.deadVars, F.deadVars, hs0]; exact Q.deadVars) O3 H3 hval3 h4
  obtain ⟨H', hcalled⟩ := E.hinv O3 H3 hval3
  -- nodes of the final state
  have hE : ∀ m, NodeG (t3.nodeD m) (s'.nodeD m) ∧ (s'.nodeD m).value = (t3.nodeD m).value := by
    intro m
    rw [E.node m]
    exact ⟨⟨rfl, rfl, rfl, rfl, rfl, rfl, rfl, rfl, rfl, rfl, rfl⟩, rfl⟩
  have G3 : SameG t3 s' := ⟨E.pc, E.scope, E.size, E.rch, E.vars, fun m => (hE m).1⟩
  have S' : Struct env s' := S3.congr G3
  have hnec' : ∀ m, s'.isNecessary m = t2.isNecessary m := fun m => by rw [G3.nec, f3.nec]
  have hkind' : ∀ m, (s'.nodeD m).kind = (t2.nodeD m).kind := fun m => by
    rw [(hE m).1.kind, (f3.shape m).kind]
  have hvars' : s'.vars = t2.vars := by rw [E.vars, f3.vars]
  have hsize' : s'.nodes.size = t2.nodes.size := by rw [E.size, f3.size]
  have V' : VarsOK s' := by
    refine ⟨?_, ?_⟩
    · intro n c hn hk; rw [hkind'] at hk; rw [hvars']; exact V2.node n c (by rw [← hsize']; exact hn) hk
    · intro c vc hc; rw [hvars'] at hc; rw [hsize', hkind']; exact V2.cell c vc hc
  have hnobs' : ∀ m, (s'.nodeD m).observers = (t3.nodeD m).observers := fun m => (hE m).1.observers
  have hno' : s'.newObservers = [] := by rw [E.newObservers, c3.newObservers]; exact hn2
  have hdo' : s'.disallowedObservers = [] := by rw [E.disallowedObservers, c3.disallowedObservers]; exact hd2
  -- observer records of the final state: node and state as in `t3`
  have hrec : ∀ (o : Nat) (ob : ObsRec), t3.observers[o]? = some ob →
      ∃ ob', s'.observers[o]? = some ob' ∧ ob'.node = ob.node ∧ ob'.state = ob.state := by
    intro o ob ho
    refine ⟨_, E.obs o ob ho, ?_, ?_⟩ <;> split <;> rfl
  have hback : ∀ (o : Nat) (ob' : ObsRec), s'.observers[o]? = some ob' →
      ∃ ob, t3.observers[o]? = some ob ∧ ob'.node = ob.node ∧ ob'.state = ob.state := by
    intro o ob' ho'
    have hlt : o < t3.observers.size := by
      rw [← E.obsSize]; exact (Array.getElem?_eq_some_iff.1 ho').1
    obtain ⟨ob, ho⟩ : ∃ ob, t3.observers[o]? = some ob := ⟨_, Array.getElem?_eq_getElem hlt⟩
    obtain ⟨ob1, h1, h2, h3⟩ := hrec o ob ho
    rw [ho'] at h1; cases h1
    exact ⟨ob, ho, h2, h3⟩
  have O' : ObsOK s' := by
    unfold ObsOK
    rw [hno', hdo']
    refine ⟨?_, ?_, ?_, ?_, ?_, ?_, List.nodup_nil⟩
    · intro o ob ho
      obtain ⟨ob0, h0, hn, -⟩ := hback o ob ho
      rw [hn, E.size]; exact O3.inRange o ob0 h0
    · intro n o
      rw [hnobs', O3.mem]
      constructor
      · rintro ⟨ob, ho, hn, hs⟩
        obtain ⟨ob', h1, h2, h3⟩ := hrec o ob ho
        exact ⟨ob', h1, by rw [h2]; exact hn, by rw [h3]; exact hs⟩
      · rintro ⟨ob', ho', hn, hs⟩
        obtain ⟨ob, h1, h2, h3⟩ := hback o ob' ho'
        exact ⟨ob, h1, by rw [← h2]; exact hn, by rw [← h3]; exact hs⟩
    · intro o ob ho hc
      obtain ⟨ob0, h0, -, hs⟩ := hback o ob ho
      exact O3.created o ob0 h0 (by rw [← hs]; exact hc)
    · intro o ho; cases ho
    · intro o ob ho
      obtain ⟨ob0, h0, -, hs⟩ := hback o ob ho
      rw [hs]; exact O3.dis o ob0 h0
    · intro o ho; cases ho
  have hstale' : ∀ m, staleOf s' m = staleOf t3 m := G3.staleOf
  have hcons3 : ∀ m, m < t3.nodes.size → staleOf t3 m = false → Consistent env t3 m := by
    intro m hm hs
    cases hn : t3.isNecessary m with
    | true => exact (D3.all_consistent he3 m hn).2
    | false => exact (U3 m hm hn).2 hs
  have Q' : QInv env s' := by
    refine ⟨S', V', O', ?_, ?_, ?_, ?_, E.status, ?_, E.setDuringStab, E.deadVars, ?_, ?_⟩
    · rw [E.stabNum]; have := D3.stamps.now; omega
    · intro m
      rw [(hE m).1.recomputedAt, (hE m).1.changedAt, E.stabNum]
      have := D3.stamps.node m; omega
    · intro c vc hc
      rw [E.vars] at hc; rw [E.stabNum]; have := D3.stamps.var c vc hc; omega
    · intro m hm hs
      rw [hstale'] at hs
      obtain ⟨w, hw, hv⟩ := hcons3 m (by rw [← E.size]; exact hm) hs
      exact ⟨w, Target.congr (hE m).1.kind E.vars (fun c _ => (hE c).2) hw, by rw [(hE m).2]; exact hv⟩
    · rw [E.alive, k_alive, F.alive, hs0]; exact Q.alive
    · rw [E.pinv, k_pinv]; exact S2.pinv
    · intro k n hk
      rw [E.top, k_top, F.top, hs0] at hk
      rw [hsize', F.size, hsz0]; exact Q.top k n hk
  -- observers of `t3` in terms of `s`
  have hmap3 : ObsMap stabilisedState s t3 := by
    refine ⟨by rw [k_obs, O2.1, O1.1, hs0], fun o ob ho => ?_⟩
    have ho0 : s0.observers[o]? = some ob := by rw [hs0]; exact ho
    obtain ⟨ob1, h1o, h1n, h1s⟩ := O1.2 o ob ho0
    obtain ⟨ob2, h2o, h2n, h2s⟩ := O2.2 o ob1 h1o
    exact ⟨ob2, by rw [k_obs]; exact h2o, by rw [h2n, h1n], by rw [h2s, h1s, stabilisedState_eq]⟩
  refine ⟨⟨Q', H'⟩, hno', hdo', by rw [hvars', F.vars, hvars0], by rw [E.stabNum, f3.stabNum, F.stabNum, hstab0],
    by rw [hsize', F.size, hsz0], fun m => by rw [hkind', F.kind, hnd0], ?_, ?_, ?_, ?_, hcalled⟩
  · -- observers
    refine ⟨by rw [E.obsSize]; exact hmap3.1, fun o ob ho => ?_⟩
    obtain ⟨ob3, h3o, h3n, h3s⟩ := hmap3.2 o ob ho
    obtain ⟨ob', h1, h2, h3⟩ := hrec o ob3 h3o
    exact ⟨ob', h1, by rw [h2, h3n], by rw [h3, h3s]⟩
  · -- values
    intro n hn k hk
    have hn3 : t3.isNecessary n = true := by rw [← G3.nec]; exact hn
    have hk3 : (t3.nodeD n).height.toNat < k := by rw [← (hE n).1.height]; exact hk
    obtain ⟨v1, v2, v3, -, v5⟩ := drained_values D3 he3 n hn3 k hk3
    have hev : eval env s' k n = eval env t3 k n := eval_congr (fun m => (hE m).1.kind) E.vars k n
    have hv' : (s'.nodeD n).value = eval env s' k n := by rw [(hE n).2, hev]; exact v3
    refine ⟨by rw [(hE n).1.valid]; exact v1, ?_, hv', ?_, by rw [hev]; exact v5⟩
    · rw [GInv.isStale S' (nec_lt_size hn), hstale', ← D3.graph.isStale hn3]; exact v2
    · rw [(Q'.quiet.graph).value_plain hn]; exact hv'
  · -- the drain
    refine ⟨t2, t3, D2, h3, hnec', by rw [F.vars, hvars0], by rw [F.stabNum, hstab0],
      fun m => by rw [F.kind, hnd0], hnodup, fun m hm => ?_⟩
    obtain ⟨a1, a2, a3⟩ := honce m hm
    exact ⟨by rw [hnec']; exact a1, a2, by rw [(hE m).1.recomputedAt, a3, F.stabNum, hstab0]⟩
  · -- the update handlers
    refine ⟨t3, E, ?_, fun o => by rw [hOf_congr k_obs, K2, K1, hOf_congr hobs0], O3, hmap3, H3,
      by rw [f3.stabNum, hstab2], by rw [hu3.nextToken, T2, T1, hs0], hval3, fun n hn => D3.graph.value_plain hn, fun m => ?_, fun n hc hnum => ?_⟩
    · obtain ⟨p1, e1, q1⟩ := L1
      obtain ⟨p2, e2, q2⟩ := L2
      obtain ⟨p3, e3, q3⟩ := hu3.log
      refine ⟨p3 ++ (p2 ++ p1), by rw [e3, e2, e1, hlog0]; simp only [List.append_assoc], fun e he => ?_⟩
      rcases List.mem_append.1 he with h | h
      · exact q3 e h
      · rcases List.mem_append.1 h with h | h
        · exact q2 e h
        · exact q1 e h
    · have := vc3 m
      rw [hstab2, F.value, hnd0, F.changedAt, hnd0] at this
      exact this
    · refine hu3.changed S2.hinv.has n ?_ (by rw [← hu3.num]; exact hnum)
      have := (st2 n).2
      rw [hc]; omega

end IncrVerif.Proofs.SubsH
