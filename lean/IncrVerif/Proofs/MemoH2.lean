import IncrVerif.Proofs.MemoH1
/-!
# C20 over whole histories, part 2: invalidation, effects, and the functions that call memoised functions

* `ILocal R`: everything up to `runEffects`, `perKeyDriver`, `addNewObservers`, `runAll` is `Pres R`.
* generic layer for the functions that contain a memoised call (`elabInstrM`, `elabTemplate`,
  `recomputeOne`, `recompute`, `drainHeap`), given `Pres R (memoCall env m key)` for the calls `P m key`
  that the bind closures make (`BodiesP P env`);
* `Split R x`: a run of `x` is an `R`-step, or an `R`-step followed by the sweep of the weak tables
  (`sweep`); `stabiliseEnd`, `stabilise` are `Split R`;
* the API actions that are plain `R`-steps (`PresI.stepAction_other`).
-/
namespace IncrVerif.Proofs.MemoH
open IncrVerif.Engine IncrVerif.Proofs.Obs IncrVerif.Proofs.Memo

theorem Pres.forIn_mem' {R : State → State → Prop} [PreOrd R] {α β} {l : List α} {init : β}
    {f : α → β → M (ForInStep β)} (hf : ∀ a, a ∈ l → ∀ b, Pres R (f a b)) :
    Pres R (forIn l init f) := by
  induction l generalizing init with
  | nil => rw [List.forIn_nil]; exact Pres.pure _
  | cons a l ih =>
    rw [List.forIn_cons]
    refine Pres.bind (hf a List.mem_cons_self init) fun r => ?_
    cases r with
    | done b => exact Pres.pure _
    | yield b => exact ih fun a' ha' b => hf a' (List.mem_cons_of_mem _ ha') b

section
variable {R : State → State → Prop} [ILocal R]

theorem PresI.modNode (n f) (hf : ∀ x, nodeK (f x) = nodeK x) : Pres R (modNode n f) := by
  unfold Engine.modNode; exact Pres.modify fun s => ILocal.of_frame0 _ _ (F0.modNode s n f hf)
macro_rules
  | `(tactic| mleaf) => `(tactic| ((with_reducible apply PresI.modNode); intro _; rfl))

theorem PresI.invalidateNode (fuel n) : Pres R (invalidateNode fuel n) := by
  induction fuel generalizing n with
  | zero => unfold Engine.invalidateNode; mpres
  | succ fuel ih => unfold Engine.invalidateNode; mpres; all_goals exact ih _
memo_leaf PresI.invalidateNode
theorem PresI.propagateInvalidity (fuel) : Pres R (propagateInvalidity fuel) := by
  induction fuel with
  | zero => unfold Engine.propagateInvalidity; mpres
  | succ fuel ih => unfold Engine.propagateInvalidity; mpres; all_goals exact ih
memo_leaf PresI.propagateInvalidity
theorem PresI.becameNecessaryPropagate (env fuel n) :
    Pres R (becameNecessaryPropagate env fuel n) := by
  unfold Engine.becameNecessaryPropagate; mpres
memo_leaf PresI.becameNecessaryPropagate
theorem PresI.stateAddParent (env fuel c i p) : Pres R (stateAddParent env fuel c i p) := by
  unfold Engine.stateAddParent; mpres
memo_leaf PresI.stateAddParent
theorem PresI.changeChildBindRhs (env fuel m o nw i) :
    Pres R (changeChildBindRhs env fuel m o nw i) := by
  unfold Engine.changeChildBindRhs; mpres
memo_leaf PresI.changeChildBindRhs
theorem PresI.expertAddDependency (env fuel n c cb) :
    Pres R (expertAddDependency env fuel n c cb) := by
  unfold Engine.expertAddDependency; mpres
memo_leaf PresI.expertAddDependency
theorem PresI.expertInvalidate (fuel n) : Pres R (expertInvalidate fuel n) := by
  unfold Engine.expertInvalidate; mpres
memo_leaf PresI.expertInvalidate
theorem PresI.runEffects (env fuel effs arg) : Pres R (runEffects env fuel effs arg) := by
  unfold Engine.runEffects; mpres
memo_leaf PresI.runEffects
set_option maxHeartbeats 1000000 in
theorem PresI.perKeyDriver (env fuel op m) : Pres R (perKeyDriver env fuel op m) := by
  unfold Engine.perKeyDriver; mpres
memo_leaf PresI.perKeyDriver
theorem PresI.addNewObservers (env fuel) : Pres R (addNewObservers env fuel) := by
  unfold Engine.addNewObservers; mpres
memo_leaf PresI.addNewObservers
theorem PresI.runAll (env fuel o n nu now) : Pres R (runAll env fuel o n nu now) := by
  unfold Engine.runAll; mpres
memo_leaf PresI.runAll

/-! ## the functions that contain a memoised call -/

/-- every memoised call instruction `i` makes satisfies `P` -/
def InstrP (P : Nat → Int → Prop) (i : Instr) : Prop := ∀ m key, i = .memoCall m key → P m key

/-- every memoised call a bind closure can make satisfies `P` -/
def BodiesP (P : Nat → Int → Prop) (env : Env) : Prop :=
  ∀ body v, ∀ i ∈ (env.body body v).instrs, InstrP P i

variable {env : Env} {P : Nat → Int → Prop}

theorem PresB.elabInstrM (hm : ∀ m key, P m key → Pres R (memoCall env m key)) (loc v) {i : Instr}
    (hi : InstrP P i) : Pres R (elabInstrM env loc v i) := by
  unfold Engine.elabInstrM
  split
  · exact Pres.map _ (hm _ _ (hi _ _ rfl))
  · exact PresF.elabInstr _ _ _

theorem PresB.elabTemplate (hm : ∀ m key, P m key → Pres R (memoCall env m key)) (v) {t : Template}
    (ht : ∀ i ∈ t.instrs, InstrP P i) : Pres R (elabTemplate env t v) := by
  unfold Engine.elabTemplate
  refine Pres.bind (Pres.forIn_mem' fun i hi b => ?_) fun _ => Pres.resolveOpnd _ _
  refine Pres.bind (PresB.elabInstrM hm _ _ (ht i hi)) fun r => ?_
  split <;> exact Pres.pure _

set_option maxHeartbeats 1000000 in
theorem PresB.recomputeOne (hm : ∀ m key, P m key → Pres R (memoCall env m key))
    (hb : BodiesP P env) (fuel n) : Pres R (recomputeOne env fuel n) := by
  unfold Engine.recomputeOne; mpres
  all_goals exact PresB.elabTemplate hm _ (hb _ _)

theorem PresB.recompute (hm : ∀ m key, P m key → Pres R (memoCall env m key))
    (hb : BodiesP P env) (fuel n) : Pres R (recompute env fuel n) := by
  induction fuel generalizing n with
  | zero => unfold Engine.recompute; mpres
  | succ fuel ih =>
    unfold Engine.recompute
    refine Pres.bind (PresB.recomputeOne hm hb _ _) fun r => ?_
    split
    · exact Pres.pure _
    · exact ih _

theorem PresB.drainHeap (hm : ∀ m key, P m key → Pres R (memoCall env m key))
    (hb : BodiesP P env) (fuel) : Pres R (drainHeap env fuel) := by
  induction fuel with
  | zero => unfold Engine.drainHeap; mpres
  | succ fuel ih =>
    unfold Engine.drainHeap
    refine Pres.bind PresF.rchRemoveMin fun r => ?_
    split
    · exact Pres.pure _
    · exact Pres.bind (PresB.recompute hm hb _ _) fun _ => ih

/-! ## the sweep at the end of `stabilise` -/

/-- the last two steps of `stabilise_end`: the weak tables are swept, the status is reset -/
def sweep (s : State) : State := { gcStep s with status := .notStabilising }

/-- every run of `x` is an `R`-step, possibly followed by the sweep -/
def Split (R : State → State → Prop) {α} (x : M α) : Prop :=
  ∀ s r s', x.run.run s = (r, s') → R s s' ∨ ∃ s1, R s s1 ∧ s' = sweep s1

omit [ILocal R] in
theorem Split.bind [PreOrd R] {α β} {x : M α} {f : α → M β} (hx : Pres R x) (hf : ∀ a, Split R (f a)) :
    Split R (x >>= f) := by
  intro s r s' h
  rw [run_bind] at h
  rcases hx' : x.run.run s with ⟨r1, s1⟩
  rw [hx'] at h
  have h1 := hx.h s r1 s1 hx'
  cases r1 with
  | error e => cases h; exact .inl h1
  | ok a =>
    rcases hf a s1 r s' h with h2 | ⟨s2, h2, h3⟩
    · exact .inl (PreOrd.trans h1 h2)
    · exact .inr ⟨s2, PreOrd.trans h1 h2, h3⟩

omit [ILocal R] in
theorem Split.tail [PreOrd R] :
    Split R ((modify gcStep : M Unit) >>= fun _ =>
      (modify fun s => { s with status := .notStabilising } : M Unit)) := by
  intro s r s' h
  rw [run_bind, run_modify] at h
  exact .inr ⟨s, PreOrd.refl s, by cases h; rfl⟩

theorem Split.stabiliseEnd (env fuel) : Split R (stabiliseEnd env fuel) := by
  unfold Engine.stabiliseEnd
  repeat (first
    | exact Split.tail
    | (refine Split.bind ?_ fun _ => ?_; rotate_left)
    | dsimp only)
  all_goals mpres

theorem Split.stabilise (hm : ∀ m key, P m key → Pres R (memoCall env m key))
    (hb : BodiesP P env) (fuel) : Split R (stabilise env fuel) := by
  unfold Engine.stabilise
  repeat (first
    | exact Split.stabiliseEnd _ _
    | (refine Split.bind ?_ fun _ => ?_; rotate_left)
    | dsimp only)
  all_goals (first | exact PresB.drainHeap hm hb _ | mpres)

/-! ## API actions that are plain steps -/

/-- the actions that touch neither `top`, `handles`, the observer handles, nor run `stabilise` -/
def Action.isPlain : Action → Bool
  | .stabilise | .create _ | .observe _ | .cloneObs _ | .dropObs _ | .dropHandle _ => false
  | _ => true

theorem PresI.stepAction_plain (env : Env) (a : Action) (tokens : Array Nat)
    (ha : Action.isPlain a = true) : Pres R (stepAction env a tokens) := by
  cases a <;> simp only [Action.isPlain, Bool.false_eq_true] at ha
  all_goals simp only [Engine.stepAction]
  all_goals mpres

/-- `create i`: the instruction, then the new handle -/
theorem PresB.stepAction_create (hm : ∀ m key, P m key → Pres R (memoCall env m key))
    {i : Instr} (hi : InstrP P i) (tokens : Array Nat)
    (hpush : ∀ (s : State) (n : Nat), R s { s with top := s.top.push n, handles := n :: s.handles }) :
    Pres R (stepAction env (.create i) tokens) := by
  simp only [Engine.stepAction]
  refine Pres.bind (PresB.elabInstrM hm _ _ hi) fun r => ?_
  split
  · exact Pres.bind (Pres.modify fun s => hpush s _) fun _ => Pres.pure _
  · exact Pres.pure _

theorem PresI.stepAction_observe (env : Env) (o : Opnd) (tokens : Array Nat)
    (hpush : ∀ (s : State) (ob : ObsRec) (l : List Nat),
      R s { s with observers := s.observers.push ob, newObservers := l }) :
    Pres R (stepAction env (.observe o) tokens) := by
  simp only [Engine.stepAction]
  refine Pres.bind (Pres.resolveOpnd _ _) fun n => Pres.bind Pres.get fun s0 => ?_
  refine Pres.bind (Pres.modify fun s => hpush s _ _) fun _ => ?_
  mpres

theorem PresI.stepAction_cloneObs (env : Env) (o : Nat) (tokens : Array Nat)
    (hclone : ∀ (s : State) (f : ObsRec → ObsRec), (∀ x, (f x).node = x.node ∧ x.clones ≤ (f x).clones) →
      R s { s with observers := s.observers.modify o f }) :
    Pres R (stepAction env (.cloneObs o) tokens) := by
  simp only [Engine.stepAction]
  refine Pres.bind ?_ fun _ => Pres.pure _
  unfold Engine.modObs
  exact Pres.modify fun s => hclone s _ fun x => And.intro rfl (Nat.le_succ _)

theorem Split.stepAction_stabilise (hm : ∀ m key, P m key → Pres R (memoCall env m key))
    (hb : BodiesP P env) (tokens : Array Nat) : Split R (stepAction env .stabilise tokens) := by
  simp only [Engine.stepAction]
  intro s r s' h
  rw [run_bind] at h
  rcases hx : (Engine.stabilise env fuelDefault).run.run s with ⟨r1, s1⟩
  rw [hx] at h
  have := Split.stabilise (R := R) hm hb fuelDefault s r1 s1 hx
  cases r1 with
  | error e => cases h; exact this
  | ok a => cases h; exact this

end

/-- what `dropHandle` and `dropObs` leave alone: the node table, binds and memo tables -/
structure Quiet0 (s s' : State) : Prop where
  nodes : s'.nodes = s.nodes
  binds : s'.binds = s.binds
  memos : s'.memos = s.memos
  top : s'.top = s.top

instance : PreOrd Quiet0 :=
  ⟨fun _ => ⟨rfl, rfl, rfl, rfl⟩,
   fun h1 h2 => ⟨h2.1.trans h1.1, h2.2.trans h1.2, h2.3.trans h1.3, h2.4.trans h1.4⟩⟩

macro "qpres" : tactic => `(tactic| repeat (any_goals (first
  | with_reducible apply Pres.pure | with_reducible apply Pres.get
  | with_reducible apply Pres.bind | with_reducible apply Pres.getObs | with_reducible apply Pres.resolveOpnd
  | ((with_reducible apply Pres.modify); intro _; exact Quiet0.mk rfl rfl rfl rfl)
  | intro _ | split | dsimp only)))

theorem Quiet0.stepAction_dropHandle (env : Env) (o : Opnd) (tokens : Array Nat) :
    Pres Quiet0 (stepAction env (.dropHandle o) tokens) := by
  simp only [Engine.stepAction]; qpres

theorem Quiet0.disallowFutureUse (o : Nat) : Pres Quiet0 (disallowFutureUse o) := by
  unfold Engine.disallowFutureUse Engine.bumpCounter Engine.modObs; qpres

theorem Quiet0.stepAction_dropObs (env : Env) (o : Nat) (tokens : Array Nat) :
    Pres Quiet0 (stepAction env (.dropObs o) tokens) := by
  simp only [Engine.stepAction]
  unfold Engine.modObs
  repeat (any_goals (first
    | with_reducible apply Quiet0.disallowFutureUse
    | with_reducible apply Pres.pure | with_reducible apply Pres.get
    | with_reducible apply Pres.bind | with_reducible apply Pres.getObs
    | ((with_reducible apply Pres.modify); intro _; exact Quiet0.mk rfl rfl rfl rfl)
    | intro _ | split | dsimp only))

end IncrVerif.Proofs.MemoH
