import IncrVerif.Proofs.CutH10
-- Port of Proofs/Quiet6.lean to ARBITRARY cutoffs (scratch name Q6); overview in Props/C06History.lean
/-!
# Part 5: the frame of the cascades, and the linking cascade
-/
namespace IncrVerif.Proofs.CutH
open IncrVerif.Engine IncrVerif.Proofs IncrVerif.Proofs.Step IncrVerif.Proofs.Sched

/-! ## the frame of the cascades -/

/-- what the cascades never change of a node -/
def nodeKey (nd : Node) :=
  (nd.kind, nd.createdIn, nd.cutoff, nd.value, nd.valid, nd.recomputedAt, nd.changedAt, nd.observers,
    nd.forceNecessary, nd.numOnUpdateHandlers)

/-- what the cascades never change of a state -/
def stateKey (s : State) :=
  (s.vars, s.observers, s.stabNum, s.status, s.cfg, s.currentScope, s.setDuringStab,
    s.deadVars, s.newObservers, s.disallowedObservers, s.allObservers, s.top, s.handles, s.alive,
    s.rch.queues.size, s.ahh, s.binds, s.memos, s.slots)

structure CFrame (s s' : State) : Prop where
  size : s'.nodes.size = s.nodes.size
  node : ∀ m, nodeKey (s'.nodeD m) = nodeKey (s.nodeD m)
  key : stateKey s' = stateKey s
  pc : s.panicCountdown = none → s'.panicCountdown = none

theorem CFrame.refl (s : State) : CFrame s s := ⟨rfl, fun _ => rfl, rfl, id⟩
theorem CFrame.trans {a b c : State} (h1 : CFrame a b) (h2 : CFrame b c) : CFrame a c :=
  ⟨h2.size.trans h1.size, fun m => (h2.node m).trans (h1.node m), h2.key.trans h1.key,
    fun h => h2.pc (h1.pc h)⟩
instance : PreOrd CFrame := ⟨CFrame.refl, CFrame.trans⟩

theorem CFrame.of_nodes {s s' : State} (h1 : s'.nodes = s.nodes) (h2 : stateKey s' = stateKey s)
    (h3 : s'.panicCountdown = s.panicCountdown) : CFrame s s' := by
  refine ⟨by rw [h1], fun m => ?_, h2, fun h => by rw [h3]; exact h⟩
  have : s'.nodeD m = s.nodeD m := by simp [State.nodeD, h1]
  rw [this]

theorem CFrame.modNode (s : State) (n : Nat) (f : Node → Node) (hf : ∀ x, nodeKey (f x) = nodeKey x) :
    CFrame s { s with nodes := s.nodes.modify n f } := by
  refine ⟨by simp, fun m => ?_, rfl, id⟩
  rw [nodeD_modify]; split
  · exact hf _
  · rfl

theorem PresF.modNode (n : Nat) (f : Node → Node) (hf : ∀ x, nodeKey (f x) = nodeKey x) :
    Step.Pres CFrame (modNode n f) := by
  unfold Engine.modNode; exact Step.Pres.modify fun s => CFrame.modNode s n f hf

macro_rules
  | `(tactic| qleaf) =>
    `(tactic| ((with_reducible apply Step.Pres.modify); intro _; exact CFrame.of_nodes rfl rfl rfl))
macro_rules
  | `(tactic| qleaf) => `(tactic| ((with_reducible apply PresF.modNode); intro _; rfl))
macro_rules
  | `(tactic| qleaf) =>
    `(tactic| ((with_reducible apply Step.Pres.modify); intro _;
               exact CFrame.of_nodes rfl (by simp [stateKey]) rfl))

macro "cf_leaf " n:ident : command =>
  `(macro_rules | `(tactic| qleaf) => `(tactic| with_reducible apply $n))

theorem PresF.logEv (e) : Step.Pres CFrame (logEv e) := by unfold Engine.logEv; qpres
cf_leaf PresF.logEv
theorem PresF.modExpert (e f) : Step.Pres CFrame (modExpert e f) := by unfold Engine.modExpert; qpres
cf_leaf PresF.modExpert

theorem PresF.tick : Step.Pres CFrame tick := by
  constructor
  intro s r s' h
  unfold Engine.tick at h
  rw [run_bind, run_get] at h
  simp only at h
  cases hp : s.panicCountdown with
  | none => rw [hp] at h; simp only [run_pure] at h; cases h; exact CFrame.refl s
  | some k =>
    rw [hp] at h
    simp only at h
    split at h
    · simp only [run_bind, run_modify, run_panic] at h
      cases h
      exact ⟨rfl, fun _ => rfl, rfl, fun h => by simp [hp] at h⟩
    · rw [run_modify] at h; cases h
      exact ⟨rfl, fun _ => rfl, rfl, fun h => by simp [hp] at h⟩
cf_leaf PresF.tick

theorem PresF.bumpCounter (f) : Step.Pres CFrame (bumpCounter f) := by unfold Engine.bumpCounter; qpres
cf_leaf PresF.bumpCounter
theorem PresF.edgeOnChange (env e edge) : Step.Pres CFrame (edgeOnChange env e edge) := by
  unfold Engine.edgeOnChange; qpres
cf_leaf PresF.edgeOnChange
theorem PresF.runEdgeCallback (env e i) : Step.Pres CFrame (runEdgeCallback env e i) := by
  unfold Engine.runEdgeCallback; qpres
cf_leaf PresF.runEdgeCallback
theorem PresF.observabilityChange (e b) : Step.Pres CFrame (observabilityChange e b) := by
  unfold Engine.observabilityChange; qpres
cf_leaf PresF.observabilityChange
theorem PresF.setHeight (n h) : Step.Pres CFrame (setHeight n h) := by unfold Engine.setHeight; qpres
cf_leaf PresF.setHeight
theorem PresF.rchLink (n) : Step.Pres CFrame (rchLink n) := by unfold Engine.rchLink; qpres
cf_leaf PresF.rchLink
theorem PresF.rchInsert (n) : Step.Pres CFrame (rchInsert n) := by unfold Engine.rchInsert; qpres
cf_leaf PresF.rchInsert
theorem PresF.rchUnlink (n) : Step.Pres CFrame (rchUnlink n) := by unfold Engine.rchUnlink; qpres
cf_leaf PresF.rchUnlink
theorem PresF.rchRemove (n) : Step.Pres CFrame (rchRemove n) := by unfold Engine.rchRemove; qpres
cf_leaf PresF.rchRemove
theorem PresF.addParent (c i p) : Step.Pres CFrame (addParent c i p) := by unfold Engine.addParent; qpres
cf_leaf PresF.addParent
theorem PresF.removeParent (c i p) : Step.Pres CFrame (removeParent c i p) := by
  unfold Engine.removeParent; qpres
cf_leaf PresF.removeParent
theorem PresF.handleAfterStabilisation (n) : Step.Pres CFrame (handleAfterStabilisation n) := by
  unfold Engine.handleAfterStabilisation; qpres
cf_leaf PresF.handleAfterStabilisation
theorem PresF.maybeHandleAfterStabilisation (n) : Step.Pres CFrame (maybeHandleAfterStabilisation n) := by
  unfold Engine.maybeHandleAfterStabilisation; qpres
cf_leaf PresF.maybeHandleAfterStabilisation
theorem PresF.scopeIsNecessary (sc) : Step.Pres CFrame (scopeIsNecessary sc) := by
  unfold Engine.scopeIsNecessary; qpres
cf_leaf PresF.scopeIsNecessary

theorem PresF.markMapRefUnknown (fuel n) : Step.Pres CFrame (markMapRefUnknown fuel n) := by
  induction fuel generalizing n with
  | zero => unfold Engine.markMapRefUnknown; qpres
  | succ fuel ih =>
    unfold Engine.markMapRefUnknown
    qpres
    all_goals (apply Step.Pres.forIn; intro a b; qpres; exact ih _)
cf_leaf PresF.markMapRefUnknown

theorem PresF.scopeHeight (sc) : Step.Pres CFrame (scopeHeight sc) := Step.Pres.scopeHeight sc

theorem PresF.link (env : Env) (fuel : Nat) :
    (∀ n, Step.Pres CFrame (becameNecessary env fuel n)) ∧
    (∀ c i p, Step.Pres CFrame (addParentWithoutAdjustingHeights env fuel c i p)) := by
  induction fuel with
  | zero =>
    constructor
    · intro n; unfold becameNecessary; qpres
    · intro c i p; unfold addParentWithoutAdjustingHeights; qpres
  | succ fuel ih =>
    constructor
    · intro n
      unfold becameNecessary
      qpres
      all_goals (apply Step.Pres.forIn; intro a b; qpres; exact ih.2 _ _ _)
    · intro c i p
      unfold addParentWithoutAdjustingHeights
      qpres
      all_goals exact ih.1 _

theorem PresF.becameNecessary (env fuel n) : Step.Pres CFrame (becameNecessary env fuel n) :=
  (PresF.link env fuel).1 n
cf_leaf PresF.becameNecessary

/-! ## inversion helpers -/

theorem bind_modNode_inv {β} {n : Nat} {g : Node → Node} {f : Unit → M β} {s s' : State} {r : β}
    (h : (modNode n g >>= f).run.run s = (.ok r, s')) :
    ∃ s1, s1 = { s with nodes := s.nodes.modify n g } ∧ (f ()).run.run s1 = (.ok r, s') := by
  rw [run_bind_modNode] at h; exact ⟨_, rfl, h⟩

theorem bind_modify_inv {β} {g : State → State} {f : Unit → M β} {s s' : State} {r : β}
    (h : (modify g >>= f).run.run s = (.ok r, s')) :
    ∃ s1, s1 = g s ∧ (f ()).run.run s1 = (.ok r, s') := by
  rw [run_bind_modify] at h; exact ⟨_, rfl, h⟩

theorem NodeUpd.modify' {n : Nat} {f g : Node → Node} {s : State} (h : n < s.nodes.size)
    (hfg : g (s.nodeD n) = f (s.nodeD n)) : NodeUpd n f s { s with nodes := s.nodes.modify n g } := by
  refine ⟨h, rfl, rfl, by simp, rfl, rfl, fun m hm => ?_, ?_⟩
  · rw [nodeD_modify, if_neg (fun e => hm e.1.symm)]; exact NodeG.refl _
  · rw [nodeD_modify, if_pos ⟨rfl, h⟩, hfg]; exact NodeG.refl _

/-! ## relations between the states of a linking cascade -/

/-- nodes above `n` are untouched -/
def Above (n : Nat) (s s' : State) : Prop := ∀ m, n < m → s'.nodeD m = s.nodeD m

theorem Above.refl (n : Nat) (s : State) : Above n s s := fun _ _ => rfl
theorem Above.trans {n : Nat} {a b c : State} (h1 : Above n a b) (h2 : Above n b c) : Above n a c :=
  fun m hm => (h2 m hm).trans (h1 m hm)
theorem Above.mono {n k : Nat} {a b : State} (h : Above n a b) (hk : n ≤ k) : Above k a b :=
  fun m hm => h m (by omega)

theorem Above.modify (n : Nat) (f : Node → Node) (s : State) (k : Nat) (hk : n ≤ k) :
    Above k s { s with nodes := s.nodes.modify n f } := by
  intro m hm
  rw [nodeD_modify, if_neg (fun e => by omega)]

theorem Above.of_nodes {s s' : State} (k : Nat) (h : s'.nodes = s.nodes) : Above k s s' := by
  intro m _; simp [State.nodeD, h]

/-- parent lists grow, necessary nodes outside `X` keep their height -/
structure LRel (X : Nat → Prop) (s s' : State) : Prop where
  fr : CFrame s s'
  pinv : s'.propagateInvalidity = s.propagateInvalidity
  par : ∀ m x, x ∈ (s.nodeD m).parents → x ∈ (s'.nodeD m).parents
  hgt : ∀ m, ¬ X m → s.isNecessary m = true → (s'.nodeD m).height = (s.nodeD m).height

theorem CFrame.observers {s s' : State} (h : CFrame s s') (m : Nat) :
    (s'.nodeD m).observers = (s.nodeD m).observers := by
  have := h.node m; simp only [nodeKey, Prod.mk.injEq] at this; exact this.2.2.2.2.2.2.2.1
theorem CFrame.forceNecessary {s s' : State} (h : CFrame s s') (m : Nat) :
    (s'.nodeD m).forceNecessary = (s.nodeD m).forceNecessary := by
  have := h.node m; simp only [nodeKey, Prod.mk.injEq] at this; exact this.2.2.2.2.2.2.2.2.1
theorem CFrame.kind {s s' : State} (h : CFrame s s') (m : Nat) :
    (s'.nodeD m).kind = (s.nodeD m).kind := by
  have := h.node m; simp only [nodeKey, Prod.mk.injEq] at this; exact this.1

theorem LRel.nec {X : Nat → Prop} {s s' : State} (h : LRel X s s') {m : Nat}
    (hm : s.isNecessary m = true) : s'.isNecessary m = true := by
  rw [isNecessary_iff] at hm ⊢
  rw [h.fr.observers, h.fr.forceNecessary]
  rcases hm with hm | hm
  · left
    obtain ⟨x, hx⟩ := List.exists_mem_of_ne_nil _ hm
    exact List.ne_nil_of_mem (h.par m x hx)
  · exact Or.inr hm

theorem LRel.refl (X : Nat → Prop) (s : State) : LRel X s s :=
  ⟨CFrame.refl s, rfl, fun _ _ h => h, fun _ _ _ => rfl⟩

theorem LRel.trans {X : Nat → Prop} {a b c : State} (h1 : LRel X a b) (h2 : LRel X b c) : LRel X a c :=
  ⟨h1.fr.trans h2.fr, h2.pinv.trans h1.pinv, fun m x h => h2.par m x (h1.par m x h),
   fun m hx hm => (h2.hgt m hx (h1.nec hm)).trans (h1.hgt m hx hm)⟩

theorem LRel.mono {X Y : Nat → Prop} {a b : State} (h : LRel X a b) (hxy : ∀ m, X m → Y m) : LRel Y a b :=
  ⟨h.fr, h.pinv, h.par, fun m hy hm => h.hgt m (fun hx => hy (hxy m hx)) hm⟩

/-- a step that only changes fields the relation does not read -/
theorem LRel.of_nodes {X : Nat → Prop} {s s' : State} (h1 : s'.nodes = s.nodes)
    (h2 : stateKey s' = stateKey s) (h3 : s'.panicCountdown = s.panicCountdown)
    (h4 : s'.propagateInvalidity = s.propagateInvalidity) : LRel X s s' := by
  have hnd : ∀ m, s'.nodeD m = s.nodeD m := fun m => by simp [State.nodeD, h1]
  exact ⟨CFrame.of_nodes h1 h2 h3, h4, fun m x h => by rw [hnd]; exact h, fun m _ _ => by rw [hnd]⟩
