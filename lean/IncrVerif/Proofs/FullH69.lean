import IncrVerif.Proofs.FullH68
import IncrVerif.Proofs.FullH63
/-!
# C01 full fragment: NON-VACUITY, part 8 — `exHistG` (depend_on, cutoff action) runs; reads and `changedAt` stamps (kernel-checked)
-/
namespace IncrVerif.Proofs.FullH
open IncrVerif.Engine IncrVerif.Driver IncrVerif.Proofs IncrVerif.Proofs.Step IncrVerif.Proofs.Sched IncrVerif.Proofs.Quiet
open IncrVerif.Proofs.BindH

/-- the three reads (observers on `n4 = depend_on n3 n2`, `n5 = map f1 [n1, n2]`, `n6 = map f0 [n5, n5]`) -/
def EX.reads3 (acts : List Action) : Option Val × Option Val × Option Val :=
  (C2h.readB fEnv acts 0, C2h.readB fEnv acts 1, C2h.readB fEnv acts 2)

theorem EX.reads3_split {acts : List Action} {a b c : Option Val} (h : EX.reads3 acts = (a, b, c)) :
    C2h.readB fEnv acts 0 = a ∧ C2h.readB fEnv acts 1 = b ∧ C2h.readB fEnv acts 2 = c := by
  simp only [EX.reads3, Prod.mk.injEq] at h; exact h

set_option maxRecDepth 100000 in
/-- the example history runs without panic -/
theorem exHistG_runs : ∃ s tk, Quiet.runActions fEnv exHistG (State.init 128 true) #[] = .ok (s, tk) :=
  C2h.ranB_iff (by decide +kernel)

set_option maxRecDepth 100000 in
/-- the reads after the five `stabilise`s: the depend_on node reads what the bind reads: `(5+4)+7 = 16`, `(5+6)+7 = 18`, `(5+8)+7 = 20`, `1`, `1` -/
theorem exHistG_reads :
    EX.reads3 (exHistG.take 11) = (some (.int 16), some (.int 0), some (.int 0)) ∧
    EX.reads3 (exHistG.take 13) = (some (.int 18), some (.int 0), some (.int 0)) ∧
    EX.reads3 (exHistG.take 16) = (some (.int 20), some (.int 0), some (.int 0)) ∧
    EX.reads3 (exHistG.take 18) = (some (.int 1), some (.int 1), some (.int 2)) ∧
    EX.reads3 exHistG = (some (.int 1), some (.int 1), some (.int 2)) :=
  ⟨by decide +kernel, by decide +kernel, by decide +kernel, by decide +kernel, by decide +kernel⟩

end IncrVerif.Proofs.FullH
