import IncrVerif.Proofs.CutH15
import IncrVerif.Engine.Run
-- Port of Proofs/Quiet10.lean to ARBITRARY cutoffs (scratch name Q10); overview in Props/C06History.lean
/-!
# Part 9: node creation through the API keeps `QInv`
-/
namespace IncrVerif.Proofs.CutH
open IncrVerif.Engine IncrVerif.Driver IncrVerif.Proofs IncrVerif.Proofs.Step IncrVerif.Proofs.Sched
variable {e : Bool}

/-- operands of the fragment: handles on top-level nodes -/
def OpndOK : Opnd → Prop
  | .outer _ => True
  | _ => False

/-- the node-creating instructions of the static fragment -/
def StaticInstr (env : Env) : Instr → Prop
  | .const _ => True
  | .var _ => True
  | .map f args => f < fnPerKey ∧ (f < fnZip → ∀ vals, env.fnEff f vals = []) ∧ ∀ a, a ∈ args → OpndOK a
  | .fold _ _ cs => ∀ a, a ∈ cs → OpndOK a
  | .zip a b => OpndOK a ∧ OpndOK b
  | .dependOn a b => OpndOK a ∧ OpndOK b
  | .cutoff n _ => OpndOK n
  | _ => False

/-- does the instruction keep "every cutoff ever in force was exact"?  `dependOn` installs the `preserve_cutoff`
closure; `cutoff n c` installs `c` -/
def ExactInstr : Instr → Bool
  | .dependOn _ _ => false
  | .cutoff _ c => decide (ExactCut c)
  | _ => true

/-- a freshly created top-level node -/
def newNode (k : Kind) (cut : CutoffK := .eq) : Node := { kind := k, createdIn := .top, cutoff := cut }

/-- `s1` is `s` plus one fresh top-level node of kind `k` (and, for a `var`, its cell); `tp`: the naming table after -/
structure Created (k : Kind) (cut : CutoffK) (s s1 : State) (tp : Array Nat) : Prop where
  nodes : s1.nodes = s.nodes.push (newNode k cut)
  vars : ((∀ c, k ≠ .var c) ∧ s1.vars = s.vars) ∨
    ∃ v, k = .var s.vars.size ∧
      s1.vars = s.vars.push { value := v, setAt := s.stabNum, node := s.nodes.size }
  rch : s1.rch = s.rch
  pc : s1.panicCountdown = s.panicCountdown
  scope : s1.currentScope = s.currentScope
  stabNum : s1.stabNum = s.stabNum
  status : s1.status = s.status
  alive : s1.alive = s.alive
  setDuringStab : s1.setDuringStab = s.setDuringStab
  deadVars : s1.deadVars = s.deadVars
  handleAfterStab : s1.handleAfterStab = s.handleAfterStab
  pinv : s1.propagateInvalidity = s.propagateInvalidity
  observers : s1.observers = s.observers
  newObservers : s1.newObservers = s.newObservers
  disallowedObservers : s1.disallowedObservers = s.disallowedObservers
  top : s1.top = tp

namespace Created
variable {env : Env} {k : Kind} {cut : CutoffK} {s s1 : State} {tp : Array Nat}

theorem size (C : Created k cut s s1 tp) : s1.nodes.size = s.nodes.size + 1 := by
  rw [C.nodes, Array.size_push]

theorem nodeD_new (C : Created k cut s s1 tp) : s1.nodeD s.nodes.size = newNode k cut := by
  simp only [State.nodeD, C.nodes, Array.getElem?_push, if_true, Option.getD_some]

theorem nodeD_old (C : Created k cut s s1 tp) {m : Nat} (h : m ≠ s.nodes.size) : s1.nodeD m = s.nodeD m := by
  simp only [State.nodeD, C.nodes, Array.getElem?_push, if_neg h]

theorem nodeD_lt (C : Created k cut s s1 tp) {m : Nat} (h : m < s.nodes.size) : s1.nodeD m = s.nodeD m :=
  C.nodeD_old (by omega)

theorem nec_new (C : Created k cut s s1 tp) : s1.isNecessary s.nodes.size = false := by
  rw [State.isNecessary, C.nodeD_new]; rfl

theorem nec_old (C : Created k cut s s1 tp) {m : Nat} (h : m ≠ s.nodes.size) : s1.isNecessary m = s.isNecessary m := by
  rw [State.isNecessary, State.isNecessary, C.nodeD_old h]

theorem ne_of_nec (C : Created k cut s s1 tp) {m : Nat} (h : s1.isNecessary m = true) : m ≠ s.nodes.size := by
  intro e; rw [e, C.nec_new] at h; cases h

theorem ne_of_par (C : Created k cut s s1 tp) {m : Nat} {x : Nat × Nat} (h : x ∈ (s1.nodeD m).parents) :
    m ≠ s.nodes.size := by
  intro e; rw [e, C.nodeD_new] at h; cases h

theorem ne_of_inRch (C : Created k cut s s1 tp) {m : Nat} (h : (s1.nodeD m).inRch = true) :
    m ≠ s.nodes.size := by
  intro e; rw [e, C.nodeD_new] at h; cases h

theorem vars_old (C : Created k cut s s1 tp) {c : Nat} {vc : VarCell} (h : s.vars[c]? = some vc) :
    s1.vars[c]? = some vc := by
  rcases C.vars with ⟨-, e⟩ | ⟨v, -, e⟩
  · rw [e]; exact h
  · have hc : c < s.vars.size := (Array.getElem?_eq_some_iff.1 h).1
    rw [e, Array.getElem?_push, if_neg (by omega)]; exact h

theorem staleOf_old (C : Created k cut s s1 tp) (Q : QInv env e s) {m : Nat} (hm : m < s.nodes.size) :
    staleOf s1 m = staleOf s m := by
  have sn := Q.struct.node hm
  have hkids : ∀ c, c ∈ kids (s.nodeD m).kind → (s1.nodeD c).changedAt = (s.nodeD c).changedAt := by
    intro c hc
    rw [C.nodeD_lt (by have := sn.kidsLt c hc; omega)]
  unfold staleOf
  rw [C.nodeD_lt hm]
  cases hk : (s.nodeD m).kind with
  | var c =>
    obtain ⟨vc, hvc, -⟩ := Q.vars.node m c hm hk
    simp only [hvc, C.vars_old hvc]
  | const v => rfl
  | map f args =>
    rw [hk] at hkids
    simp only
    congr 1
    exact any_congr' _ _ _ (fun a ha => by rw [hkids a ha])
  | fold f init cs =>
    rw [hk] at hkids
    simp only
    congr 1
    exact any_congr' _ _ _ (fun a ha => by rw [hkids a ha])
  | _ => have := sn.kind; rw [hk] at this; exact this.elim

theorem plainVals_old (C : Created k cut s s1 tp) (l : List Nat) (h : ∀ c, c ∈ l → c < s.nodes.size) :
    plainVals s1 l = plainVals s l := by
  unfold plainVals
  exact evalArgs_congr _ _ _ (fun a ha => by rw [C.nodeD_lt (h a ha)])

theorem consistent_old (C : Created k cut s s1 tp) (Q : QInv env e s) {m : Nat} (hm : m < s.nodes.size)
    (h : Consistent env s m) : Consistent env s1 m := by
  have sn := Q.struct.node hm
  have hkids : ∀ c, c ∈ kids (s.nodeD m).kind → c < s.nodes.size := by
    intro c hc
    have := sn.kidsLt c hc; omega
  obtain ⟨v, ht, hv⟩ := h
  refine ⟨v, ?_, by rw [C.nodeD_lt hm]; exact hv⟩
  unfold Target at ht ⊢
  rw [C.nodeD_lt hm]
  cases hk : (s.nodeD m).kind with
  | var c =>
    rw [hk] at ht
    obtain ⟨vc, hvc, e⟩ := ht
    exact ⟨vc, C.vars_old hvc, e⟩
  | const w => rw [hk] at ht; exact ht
  | map f args =>
    rw [hk] at ht hkids
    simp only at ht ⊢
    rw [C.plainVals_old args hkids]; exact ht
  | fold f init cs =>
    rw [hk] at ht hkids
    simp only at ht ⊢
    rw [C.plainVals_old cs hkids]; exact ht
  | _ => rw [hk] at ht; exact ht.elim

theorem consE_old (C : Created k cut s s1 tp) (Q : QInv env e s) {m : Nat} (hm : m < s.nodes.size)
    (h : ConsE env e s m) : ConsE env e s1 m := by
  obtain ⟨v, hv, ht⟩ := h
  refine ⟨v, by rw [C.nodeD_lt hm]; exact hv, fun he => ?_⟩
  obtain ⟨w, hw, hvw⟩ := C.consistent_old Q hm ⟨v, ht he, hv⟩
  rw [C.nodeD_lt hm, hv] at hvw
  cases hvw; exact hw

theorem stale_new (C : Created k cut s s1 tp) (h0 : 0 ≤ s.stabNum) (hk : StaticKind env k) :
    staleOf s1 s.nodes.size = true := by
  unfold staleOf
  rw [C.nodeD_new]
  cases k with
  | var c =>
    rcases C.vars with ⟨h, -⟩ | ⟨v, e, ev⟩
    · exact absurd rfl (h c)
    · injection e with e
      simp only [newNode]
      rw [ev, e, Array.getElem?_push, if_pos rfl]
      simp only [gt_iff_lt, decide_eq_true_eq]; omega
  | const v => rfl
  | map f args => rfl
  | fold f init cs => rfl
  | _ => exact hk.elim

theorem heapWF (C : Created k cut s s1 tp) (h : HeapWF s) : HeapWF s1 := by
  rw [← HWF_release_iff] at h ⊢
  unfold HWF at *
  have e : markerOf s1.nodes = markerOf s.nodes := by
    funext m
    show (s1.nodeD m).heightInRch = (s.nodeD m).heightInRch
    by_cases hm : m = s.nodes.size
    · rw [hm, C.nodeD_new, nodeD_default s _ (Nat.le_refl _)]; rfl
    · rw [C.nodeD_old hm]
  rw [C.rch, e]; exact ⟨h.1, by simp⟩

theorem struct (C : Created k cut s s1 tp) (Q : QInv env e s) (hk : StaticKind env k)
    (hkids : ∀ c, c ∈ kids k → c < s.nodes.size) : Struct env s1 := by
  have I := Q.struct
  have wants_old : ∀ {p i}, p ≠ s.nodes.size → (Wants s1 allClosed p i ↔ Wants s allClosed p i) := by
    intro p i hp
    rw [wants_closed rfl, wants_closed rfl, C.nec_old hp]
  have inRch_lt : ∀ {m}, (s1.nodeD m).inRch = true → m < s.nodes.size ∧ (s.nodeD m).inRch = true := by
    intro m hq
    have hne := C.ne_of_inRch hq
    rw [C.nodeD_old hne] at hq
    exact ⟨lt_size_of_inRch hq, hq⟩
  refine
    { static := ⟨by rw [C.pc]; exact I.static.pc, by rw [C.scope]; exact I.static.scope, ?_⟩
      par := ?_, conv := ?_, nodup := ?_, hlt := ?_, hpos := ?_
      lnec := fun p k ho => by cases ho
      unec := fun p k ho => by cases ho
      heap := ⟨C.heapWF I.heap.wf, ?_, by rw [C.rch]; exact I.heap.lb0⟩
      hgt := ?_, qnec := ?_, queued := ?_, qstale := ?_
      opLt := fun m ho => absurd rfl ho }
  · intro n hn
    rw [C.size] at hn
    by_cases e : n = s.nodes.size
    · refine ⟨?_, ?_, ?_, ?_, ?_⟩ <;> rw [e, C.nodeD_new]
      · rfl
      · exact hk
      · rfl
      · rfl
      · exact hkids
    · have sn := I.node (show n < s.nodes.size by omega)
      refine ⟨?_, ?_, ?_, ?_, ?_⟩ <;> rw [C.nodeD_old e]
      · exact sn.valid
      · exact sn.kind
      · exact sn.top
      · exact sn.force
      · exact sn.kidsLt
  · intro c p i h
    have hc := C.ne_of_par h
    rw [C.nodeD_old hc] at h
    have hp : p ≠ s.nodes.size := by have := I.par_lt_size h; omega
    rw [C.nodeD_old hp, wants_old hp]
    exact I.par c p i h
  · intro p i c hkd hw
    have hp : p ≠ s.nodes.size := C.ne_of_nec ((wants_closed rfl).1 hw)
    rw [C.nodeD_old hp] at hkd
    rw [wants_old hp] at hw
    have hm := I.conv p i c hkd hw
    have hc : c ≠ s.nodes.size := by have := mem_parents_lt_size hm; omega
    rw [C.nodeD_old hc]; exact hm
  · intro c
    by_cases e : c = s.nodes.size
    · rw [e, C.nodeD_new]; exact List.nodup_nil
    · rw [C.nodeD_old e]; exact I.nodup c
  · intro c p i h ho
    have hc := C.ne_of_par h
    rw [C.nodeD_old hc] at h
    have hp : p ≠ s.nodes.size := by have := I.par_lt_size h; omega
    rw [C.nodeD_old hc, C.nodeD_old hp]
    exact I.hlt c p i h ho
  · intro n hn ho
    have e := C.ne_of_nec hn
    rw [C.nec_old e] at hn
    rw [C.nodeD_old e]; exact I.hpos n hn ho
  · intro m hq
    obtain ⟨hlt, hq'⟩ := inRch_lt hq
    rw [C.rch, C.nodeD_lt hlt]; exact I.heap.lb m hq'
  · intro m hq ho
    obtain ⟨hlt, hq'⟩ := inRch_lt hq
    rw [C.nodeD_lt hlt]; exact I.hgt m hq' ho
  · intro m hq
    obtain ⟨hlt, hq'⟩ := inRch_lt hq
    rw [C.nec_old (by omega)]; exact I.qnec m hq'
  · intro m ho hn hs
    have e := C.ne_of_nec hn
    rw [C.nec_old e] at hn
    have hlt := nec_lt_size hn
    rw [C.staleOf_old Q hlt] at hs
    rw [C.nodeD_old e]; exact I.queued m ho hn hs
  · intro m hq
    obtain ⟨hlt, hq'⟩ := inRch_lt hq
    rw [C.staleOf_old Q hlt]; exact I.qstale m hq'

theorem varsOK (C : Created k cut s s1 tp) (V : VarsOK s) : VarsOK s1 := by
  constructor
  · intro n c hn hkd
    rw [C.size] at hn
    by_cases e : n = s.nodes.size
    · rw [e, C.nodeD_new] at hkd
      rcases C.vars with ⟨h, -⟩ | ⟨v, ek, ev⟩
      · exact absurd hkd (h c)
      · have hc : c = s.vars.size := by
          have : k = .var c := hkd
          rw [this] at ek; injection ek
        refine ⟨{ value := v, setAt := s.stabNum, node := s.nodes.size }, ?_, e.symm⟩
        rw [ev, hc, Array.getElem?_push, if_pos rfl]
    · rw [C.nodeD_old e] at hkd
      obtain ⟨vc, h1, h2⟩ := V.node n c (by omega) hkd
      exact ⟨vc, C.vars_old h1, h2⟩
  · intro c vc h
    have old : s.vars[c]? = some vc → vc.node < s1.nodes.size ∧ (s1.nodeD vc.node).kind = .var c := by
      intro h'
      obtain ⟨h1, h2⟩ := V.cell c vc h'
      rw [C.size, C.nodeD_lt h1]
      exact ⟨by omega, h2⟩
    rcases C.vars with ⟨-, e⟩ | ⟨v, ek, ev⟩
    · rw [e] at h; exact old h
    · rw [ev, Array.getElem?_push] at h
      split at h
      · rename_i hc
        injection h with h
        rw [← h, C.size]
        refine ⟨by simp, ?_⟩
        show (s1.nodeD s.nodes.size).kind = _
        rw [C.nodeD_new, hc]; exact ek
      · exact old h

theorem obsOK (C : Created k cut s s1 tp) (O : ObsOK s) : ObsOK s1 := by
  unfold ObsOK at O ⊢
  rw [C.newObservers, C.disallowedObservers]
  refine ⟨?_, ?_, ?_, ?_, ?_, ?_, O.disNodup⟩
  · intro o ob h
    rw [C.observers] at h
    have := O.inRange o ob h
    rw [C.size]; exact ⟨by omega, this.2⟩
  · intro n o
    rw [C.observers]
    by_cases e : n = s.nodes.size
    · rw [e, C.nodeD_new]
      constructor
      · intro h; cases h
      · rintro ⟨ob, h1, h2, -⟩
        have := (O.inRange o ob h1).1
        omega
    · rw [C.nodeD_old e]; exact O.mem n o
  · rw [C.observers]; exact O.created
  · rw [C.observers]; exact O.newIn
  · rw [C.observers]; exact O.dis
  · rw [C.observers]; exact O.disIn

/-- **creation, pure part.** -/
theorem qinv (C : Created k cut s s1 (s.top.push s.nodes.size)) (Q : QInv env e s) (hk : StaticKind env k)
    (hkids : ∀ c, c ∈ kids k → c < s.nodes.size) (hcut : e = true → ExactCut cut) : QInv env e s1 where
  struct := C.struct Q hk hkids
  vars := C.varsOK Q.vars
  obs := C.obsOK Q.obs
  now := by rw [C.stabNum]; exact Q.now
  stamps m := by
    rw [C.stabNum]
    by_cases e : m = s.nodes.size
    · rw [e, C.nodeD_new]
      have := Q.now
      exact ⟨show (-1 : Int) < _ by omega, show (-1 : Int) < _ by omega⟩
    · rw [C.nodeD_old e]; exact Q.stamps m
  varStamp c vc h := by
    rw [C.stabNum]
    rcases C.vars with ⟨-, e⟩ | ⟨v, -, ev⟩
    · rw [e] at h; exact Q.varStamp c vc h
    · rw [ev, Array.getElem?_push] at h
      split at h
      · injection h with h
        rw [← h]; exact Int.le_refl _
      · exact Q.varStamp c vc h
  cons m hm hs := by
    rw [C.size] at hm
    by_cases e : m = s.nodes.size
    · rw [e, C.stale_new Q.now hk] at hs; cases hs
    · have hlt : m < s.nodes.size := by omega
      rw [C.staleOf_old Q hlt] at hs
      exact C.consE_old Q hlt (Q.cons m hlt hs)
  exact he m := by
    by_cases em : m = s.nodes.size
    · rw [em, C.nodeD_new]; exact hcut he
    · rw [C.nodeD_old em]; exact Q.exact he m
  status := by rw [C.status]; exact Q.status
  alive := by rw [C.alive]; exact Q.alive
  setDuringStab := by rw [C.setDuringStab]; exact Q.setDuringStab
  deadVars := by rw [C.deadVars]; exact Q.deadVars
  handleAfterStab := by rw [C.handleAfterStab]; exact Q.handleAfterStab
  handlers m := by
    by_cases e : m = s.nodes.size
    · rw [e, C.nodeD_new]; exact Int.le_refl _
    · rw [C.nodeD_old e]; exact Q.handlers m
  pinv := by rw [C.pinv]; exact Q.pinv
  top kk n h := by
    rw [C.top, Array.getElem?_push] at h
    rw [C.size]
    split at h
    · injection h with h; omega
    · have := Q.top kk n h; omega

end Created
/-! ## the monadic part -/

theorem map_ok_inv {α β} {f : α → β} {x : M α} {s s' : State} {r : β}
    (h : (f <$> x).run.run s = (.ok r, s')) : ∃ a, x.run.run s = (.ok a, s') ∧ r = f a := by
  rw [map_eq_pure_bind] at h
  obtain ⟨a, s1, h1, h2⟩ := bind_ok_inv h
  obtain ⟨e1, e2⟩ := pure_ok_inv h2
  rw [e2]
  exact ⟨a, h1, e1⟩

theorem createNode_top_run (k : Kind) (cut : CutoffK) (s : State) :
    (createNode k .top cut).run.run s = (.ok s.nodes.size,
      { s with counters := { s.counters with created := s.counters.created + 1 },
               nodes := s.nodes.push (newNode k cut) }) := rfl

theorem createVar_top_run (v : Val) (s : State) :
    (createVar v .top).run.run s = (.ok s.nodes.size,
      { s with counters := { s.counters with created := s.counters.created + 1 },
               nodes := s.nodes.push (newNode (.var s.vars.size)),
               vars := s.vars.push { value := v, setAt := s.stabNum, node := s.nodes.size } }) := rfl

theorem createNode_created {k : Kind} {cut : CutoffK} {s s1 : State} {n : Nat} (hk : ∀ c, k ≠ .var c)
    (h : (createNode k .top cut).run.run s = (.ok n, s1)) : n = s.nodes.size ∧ Created k cut s s1 s.top := by
  rw [createNode_top_run] at h
  cases h
  exact ⟨rfl, ⟨rfl, Or.inl ⟨hk, rfl⟩, rfl, rfl, rfl, rfl, rfl, rfl, rfl, rfl, rfl, rfl, rfl, rfl, rfl, rfl⟩⟩

theorem createVar_created {v : Val} {s s1 : State} {n : Nat}
    (h : (createVar v .top).run.run s = (.ok n, s1)) :
    n = s.nodes.size ∧ Created (.var s.vars.size) .eq s s1 s.top := by
  rw [createVar_top_run] at h
  cases h
  exact ⟨rfl, ⟨rfl, Or.inr ⟨v, rfl, rfl⟩, rfl, rfl, rfl, rfl, rfl, rfl, rfl, rfl, rfl, rfl, rfl, rfl, rfl, rfl⟩⟩

/-! ## the action `cutoff n c`: pure part -/

/-- `s` with the cutoff of node `n` replaced by `c` -/
def cutSet (n : Nat) (c : CutoffK) (s : State) : State :=
  { s with nodes := s.nodes.modify n fun x => { x with cutoff := c } }

theorem cutSet_nodeD (n : Nat) (c : CutoffK) (s : State) (m : Nat) :
    (cutSet n c s).nodeD m =
      if n = m ∧ m < s.nodes.size then { s.nodeD m with cutoff := c } else s.nodeD m :=
  nodeD_modify s n m _

theorem cutSet_sameC (n : Nat) (c : CutoffK) (s : State) : SameC s (cutSet n c s) := by
  refine ⟨rfl, rfl, by simp [cutSet], rfl, rfl, fun m => ?_⟩
  rw [cutSet_nodeD]
  split
  · exact ⟨rfl, rfl, rfl, rfl, rfl, rfl, rfl, rfl, rfl, rfl⟩
  · exact (NodeG.refl _).toC

theorem cutSet_value (n : Nat) (c : CutoffK) (s : State) (m : Nat) :
    ((cutSet n c s).nodeD m).value = (s.nodeD m).value := by
  rw [cutSet_nodeD]; split <;> rfl

theorem cutSet_observers (n : Nat) (c : CutoffK) (s : State) (m : Nat) :
    ((cutSet n c s).nodeD m).observers = (s.nodeD m).observers := by
  rw [cutSet_nodeD]; split <;> rfl

theorem cutSet_handlers (n : Nat) (c : CutoffK) (s : State) (m : Nat) :
    ((cutSet n c s).nodeD m).numOnUpdateHandlers = (s.nodeD m).numOnUpdateHandlers := by
  rw [cutSet_nodeD]; split <;> rfl

theorem cutSet_cutoff (n : Nat) (c : CutoffK) (s : State) (m : Nat) :
    ((cutSet n c s).nodeD m).cutoff = if n = m ∧ m < s.nodes.size then c else (s.nodeD m).cutoff := by
  rw [cutSet_nodeD]; split <;> rfl

/-- **the action `cutoff n c`, pure part**: replacing a cutoff keeps the invariant; the flag survives iff `c` is exact -/
theorem cutSet_qinv {env : Env} {s : State} (n : Nat) (c : CutoffK) (Q : QInv env e s)
    (hc : e = true → ExactCut c) : QInv env e (cutSet n c s) := by
  have G := cutSet_sameC n c s
  have hsz : (cutSet n c s).nodes.size = s.nodes.size := G.size
  refine { struct := Q.struct.congrC G, vars := ?_, obs := ?_, now := Q.now, stamps := ?_, varStamp := Q.varStamp,
           cons := ?_, exact := ?_, status := Q.status, alive := Q.alive, setDuringStab := Q.setDuringStab,
           deadVars := Q.deadVars, handleAfterStab := Q.handleAfterStab, handlers := ?_, pinv := Q.pinv,
           top := ?_ }
  · refine ⟨fun m c' hm hk => ?_, fun c' vc h => ?_⟩
    · rw [hsz] at hm; rw [(G.node m).kind] at hk; exact Q.vars.node m c' hm hk
    · rw [hsz, (G.node vc.node).kind]; exact Q.vars.cell c' vc h
  · have O := Q.obs
    refine ⟨fun o ob h => by rw [hsz]; exact O.inRange o ob h, fun m o => ?_, O.created, O.newIn, O.dis, O.disIn,
      O.disNodup⟩
    rw [cutSet_observers]; exact O.mem m o
  · intro m; rw [(G.node m).recomputedAt, (G.node m).changedAt]; exact Q.stamps m
  · intro m hm hs
    rw [hsz] at hm
    rw [G.staleOf] at hs
    obtain ⟨v, hv, ht⟩ := Q.cons m hm hs
    exact ⟨v, by rw [cutSet_value]; exact hv,
      fun he => Target.congr (G.node m).kind rfl (fun a _ => cutSet_value n c s a) (ht he)⟩
  · intro he m
    rw [cutSet_cutoff]
    split
    · exact hc he
    · exact Q.exact he m
  · intro m; rw [cutSet_handlers]; exact Q.handlers m
  · intro k m h; rw [hsz]; exact Q.top k m h

theorem resolveOpnd_outer_inv {o : Opnd} {s s1 : State} {n : Nat} (ho : OpndOK o)
    (h : (resolveOpnd [] o).run.run s = (.ok n, s1)) : s1 = s ∧ ∃ k : Nat, s.top[k]? = some n := by
  cases o with
  | outer k =>
    unfold resolveOpnd at h
    simp only at h
    rw [run_bind_get] at h
    cases hm : s.top[k]? with
    | some m =>
      rw [hm] at h
      obtain ⟨e1, e2⟩ := pure_ok_inv h
      rw [e1]; exact ⟨e2, k, hm⟩
    | none => rw [hm] at h; cases h
  | _ => exact ho.elim

theorem mapM_resolve_inv {s : State} (htop : ∀ (k n : Nat), s.top[k]? = some n → n < s.nodes.size) :
    ∀ (l : List Opnd) (r : List Nat) (s1 : State), (∀ a, a ∈ l → OpndOK a) →
      (l.mapM (fun o => resolveOpnd [] o)).run.run s = (.ok r, s1) →
      s1 = s ∧ ∀ c, c ∈ r → c < s.nodes.size := by
  intro l
  induction l with
  | nil =>
    intro r s1 _ h
    rw [List.mapM_nil] at h
    obtain ⟨e1, e2⟩ := pure_ok_inv h
    rw [e1]; exact ⟨e2, fun c hc => by cases hc⟩
  | cons a l ih =>
    intro r s1 hl h
    rw [List.mapM_cons] at h
    obtain ⟨b, t, h1, h2⟩ := bind_ok_inv h
    obtain ⟨et, k, hk⟩ := resolveOpnd_outer_inv (hl a (List.mem_cons_self ..)) h1
    rw [et] at h2
    obtain ⟨bs, t2, h3, h4⟩ := bind_ok_inv h2
    obtain ⟨et2, hbs⟩ := ih bs t2 (fun x hx => hl x (List.mem_cons_of_mem _ hx)) h3
    obtain ⟨e1, e2⟩ := pure_ok_inv h4
    rw [e1, e2]
    refine ⟨et2, fun c hc => ?_⟩
    rcases List.mem_cons.1 hc with e | hc
    · rw [e]; exact htop k b hk
    · exact hbs c hc

theorem isConstant_ok_inv {a : Nat} {s s1 : State} {r : Option Val}
    (h : (isConstant a).run.run s = (.ok r, s1)) : s1 = s := by
  unfold isConstant at h
  obtain ⟨nd, -, h⟩ := bind_getNode_inv h
  split at h <;> exact (pure_ok_inv h).2

/-- what a static instruction does: it creates one top-level node, or (`cutoff n c`) replaces a cutoff -/
theorem elab_static {env : Env} {s s1 : State} {i : Instr} {ro : Option Nat} (Q : QInv env e s)
    (hi : StaticInstr env i) (h : (elabInstrM env [] .unit i).run.run s = (.ok ro, s1)) :
    (∃ k cut, ro = some s.nodes.size ∧ StaticKind env k ∧ (∀ c, c ∈ kids k → c < s.nodes.size) ∧
      (ExactInstr i = true → ExactCut cut) ∧ Created k cut s s1 s.top) ∨
    (∃ n c, i = .cutoff n c ∧ ∃ m, ro = none ∧ s1 = cutSet m c s) := by
  have hsc := Q.struct.static.scope
  cases i with
  | const v =>
    left
    unfold elabInstrM at h
    simp only at h
    unfold elabInstr at h
    rw [run_bind_get] at h
    simp only [hsc] at h
    obtain ⟨n, h1, e⟩ := map_ok_inv h
    obtain ⟨en, C⟩ := createNode_created (by intro c e; cases e) h1
    exact ⟨.const v, .eq, by rw [e, en], trivial, (fun c hc => by cases hc), fun _ => trivial, C⟩
  | var v =>
    left
    unfold elabInstrM at h
    simp only at h
    unfold elabInstr at h
    rw [run_bind_get] at h
    simp only at h
    obtain ⟨n, h1, e⟩ := map_ok_inv h
    obtain ⟨en, C⟩ := createVar_created h1
    exact ⟨.var s.vars.size, .eq, by rw [e, en], trivial, (fun c hc => by cases hc), fun _ => trivial, C⟩
  | map f args =>
    left
    unfold elabInstrM at h
    simp only at h
    unfold elabInstr at h
    rw [run_bind_get] at h
    simp only [hsc] at h
    obtain ⟨as, t, h1, h2⟩ := bind_ok_inv h
    obtain ⟨et, has⟩ := mapM_resolve_inv Q.top args as t hi.2.2 h1
    rw [et] at h2
    obtain ⟨n, h3, e⟩ := map_ok_inv h2
    obtain ⟨en, C⟩ := createNode_created (by intro c e; cases e) h3
    exact ⟨.map f as, .eq, by rw [e, en], ⟨hi.1, hi.2.1⟩, has, fun _ => trivial, C⟩
  | fold f init cs =>
    left
    unfold elabInstrM at h
    simp only at h
    unfold elabInstr at h
    rw [run_bind_get] at h
    simp only [hsc] at h
    obtain ⟨as, t, h1, h2⟩ := bind_ok_inv h
    obtain ⟨et, has⟩ := mapM_resolve_inv Q.top cs as t hi h1
    rw [et] at h2
    split at h2
    · obtain ⟨n, h3, e⟩ := map_ok_inv h2
      obtain ⟨en, C⟩ := createNode_created (by intro c e; cases e) h3
      exact ⟨.const init, .eq, by rw [e, en], trivial, (fun c hc => by cases hc), fun _ => trivial, C⟩
    · obtain ⟨n, h3, e⟩ := map_ok_inv h2
      obtain ⟨en, C⟩ := createNode_created (by intro c e; cases e) h3
      exact ⟨.fold f init as, .eq, by rw [e, en], trivial, has, fun _ => trivial, C⟩
  | zip a b =>
    left
    unfold elabInstrM at h
    simp only at h
    unfold elabInstr at h
    rw [run_bind_get] at h
    simp only [hsc] at h
    obtain ⟨na, t, h1, h2⟩ := bind_ok_inv h
    obtain ⟨et, ka, hka⟩ := resolveOpnd_outer_inv hi.1 h1
    rw [et] at h2
    obtain ⟨nb, t, h1, h2⟩ := bind_ok_inv h2
    obtain ⟨et, kb, hkb⟩ := resolveOpnd_outer_inv hi.2 h1
    rw [et] at h2
    obtain ⟨ca, t, h1, h2⟩ := bind_ok_inv h2
    rw [isConstant_ok_inv h1] at h2
    obtain ⟨cb, t, h1, h2⟩ := bind_ok_inv h2
    rw [isConstant_ok_inv h1] at h2
    split at h2
    · obtain ⟨n, h3, e⟩ := map_ok_inv h2
      obtain ⟨en, C⟩ := createNode_created (by intro c e; cases e) h3
      rename_i va vb _ _
      exact ⟨.const (.pair va vb), .eq, by rw [e, en], trivial, (fun c hc => by cases hc), fun _ => trivial, C⟩
    · obtain ⟨n, h3, e⟩ := map_ok_inv h2
      obtain ⟨en, C⟩ := createNode_created (by intro c e; cases e) h3
      refine ⟨.map fnZip [na, nb], .eq, by rw [e, en], ⟨by decide, fun hlt => absurd hlt (by decide)⟩, ?_,
        fun _ => trivial, C⟩
      intro c hc
      simp only [kids, List.mem_cons, List.not_mem_nil, or_false] at hc
      rcases hc with e | e
      · rw [e]; exact Q.top ka na hka
      · rw [e]; exact Q.top kb nb hkb
  | dependOn a b =>
    left
    unfold elabInstrM at h
    simp only at h
    unfold elabInstr at h
    rw [run_bind_get] at h
    simp only [hsc] at h
    obtain ⟨na, t, h1, h2⟩ := bind_ok_inv h
    obtain ⟨et, ka, hka⟩ := resolveOpnd_outer_inv hi.1 h1
    rw [et] at h2
    obtain ⟨nb, t, h1, h2⟩ := bind_ok_inv h2
    obtain ⟨et, kb, hkb⟩ := resolveOpnd_outer_inv hi.2 h1
    rw [et] at h2
    obtain ⟨n, h3, e⟩ := map_ok_inv h2
    obtain ⟨en, C⟩ := createNode_created (by intro c e; cases e) h3
    refine ⟨.map fnFirst [na, nb], .dependOn na, by rw [e, en], ⟨by decide, fun hlt => absurd hlt (by decide)⟩, ?_,
      (fun hx => by cases hx), C⟩
    intro c hc
    simp only [kids, List.mem_cons, List.not_mem_nil, or_false] at hc
    rcases hc with e | e
    · rw [e]; exact Q.top ka na hka
    · rw [e]; exact Q.top kb nb hkb
  | cutoff n c =>
    right
    unfold elabInstrM at h
    simp only at h
    unfold elabInstr at h
    rw [run_bind_get] at h
    simp only at h
    obtain ⟨m, t, h1, h2⟩ := bind_ok_inv h
    obtain ⟨et, -, -⟩ := resolveOpnd_outer_inv hi h1
    rw [et] at h2
    obtain ⟨s2, e2, h3⟩ := bind_modNode_inv h2
    obtain ⟨e3, e4⟩ := pure_ok_inv h3
    exact ⟨n, c, rfl, m, e3, by rw [e4, e2]; rfl⟩
  | _ => exact hi.elim

/-- **creation.** A successful `create` action with a static instruction keeps the invariant; the flag "every
cutoff ever in force was exact" survives iff the instruction is `ExactInstr`. -/
theorem step_create {env : Env} {s s' : State} {i : Instr} {tokens : Array Nat} {r : String × Array Nat}
    (Q : QInv env e s) (hi : StaticInstr env i) (hx : e = true → ExactInstr i = true)
    (h : (stepAction env (.create i) tokens).run.run s = (.ok r, s')) : QInv env e s' := by
  unfold stepAction at h
  simp only at h
  obtain ⟨ro, s1, h1, h2⟩ := bind_ok_inv h
  rcases elab_static Q hi h1 with ⟨k, cut, ero, hk, hkids, hcut, C⟩ | ⟨n, c, ei, m, ero, es1⟩
  · rw [ero] at h2
    simp only at h2
    obtain ⟨s2, e2, h3⟩ := bind_modify_inv h2
    obtain ⟨-, e3⟩ := pure_ok_inv h3
    rw [e3, e2]
    refine Created.qinv (k := k) (cut := cut) ?_ Q hk hkids (fun he => hcut (hx he))
    exact ⟨C.nodes, C.vars, C.rch, C.pc, C.scope, C.stabNum, C.status, C.alive, C.setDuringStab, C.deadVars,
      C.handleAfterStab, C.pinv, C.observers, C.newObservers, C.disallowedObservers,
      by show s1.top.push _ = _; rw [C.top]⟩
  · rw [ero] at h2
    simp only at h2
    obtain ⟨-, e3⟩ := pure_ok_inv h2
    rw [e3, es1]
    refine cutSet_qinv m c Q (fun he => ?_)
    have := hx he
    rw [ei] at this
    simpa [ExactInstr] using this

end IncrVerif.Proofs.CutH
