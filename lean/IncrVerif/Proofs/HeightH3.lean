import IncrVerif.Proofs.HeightH2
/-!
# C19 for whole histories, part 3: the invariant between actions, the condition on a `stabilise`
-/
namespace IncrVerif.Proofs.HeightH
open IncrVerif.Engine IncrVerif.Driver IncrVerif.Proofs IncrVerif.Proofs.Step IncrVerif.Proofs.Sched
open IncrVerif.Proofs.Quiet

/-- the exact-height version of `Quiet.TInv`: no bound on the number of nodes; instead every necessary node has
exactly its static height, which has been seen, and the largest height seen is within the limit `N` of both heaps;
the adjust-heights heap is empty -/
structure TInvH (N : Nat) (s : State) : Prop where
  hx : HEx s allClosed
  room : RoomH N s
  ahh0 : s.ahh.length = 0
  linked : ∀ (c : Nat) (vc : VarCell), s.vars[c]? = some vc → vc.linked = true
  topSize : s.top.size = s.nodes.size
  newNodup : s.newObservers.Nodup
  newState : ∀ (o : Nat) (ob : ObsRec), o ∈ s.newObservers → s.observers[o]? = some ob →
    ob.state = .created ∨ ob.state = .unlinked

/-- the static height needed by observer `o` if it is still waiting to be added -/
def obsNeed (s : State) (o : Nat) : Option Nat :=
  match s.observers[o]? with
  | some ob => if ob.state = .created then some (needH s ob.node) else none
  | none => none

/-- the static heights needed by the observers of the list `l` that are still waiting to be added -/
def needsOf (s : State) (l : List Nat) : List Nat := l.filterMap (obsNeed s)

/-- the greatest static height a `stabilise` from `s` has to set: that of the nodes of the observers that were
created since the last `stabilise` and not dropped since (`0` if there is none) -/
def pendingNeed (s : State) : Nat := lmax (needsOf s s.newObservers)

theorem needsOf_nil (s : State) : needsOf s [] = [] := rfl
theorem needsOf_append (s : State) (l1 l2 : List Nat) : needsOf s (l1 ++ l2) = needsOf s l1 ++ needsOf s l2 := by
  unfold needsOf; rw [List.filterMap_append]

theorem obsNeed_created {s : State} {o : Nat} {ob : ObsRec} (h : s.observers[o]? = some ob)
    (hc : ob.state = .created) : obsNeed s o = some (needH s ob.node) := by
  simp only [obsNeed, h, hc, if_true]

theorem obsNeed_other {s : State} {o : Nat} {ob : ObsRec} (h : s.observers[o]? = some ob)
    (hc : ob.state ≠ .created) : obsNeed s o = none := by
  simp only [obsNeed, h, hc, if_false]

theorem needsOf_single_created {s : State} {o : Nat} {ob : ObsRec} (h : s.observers[o]? = some ob)
    (hc : ob.state = .created) : needsOf s [o] = [needH s ob.node] := by
  simp only [needsOf, List.filterMap_cons, obsNeed_created h hc, List.filterMap_nil]

theorem needsOf_single_other {s : State} {o : Nat} {ob : ObsRec} (h : s.observers[o]? = some ob)
    (hc : ob.state ≠ .created) : needsOf s [o] = [] := by
  simp only [needsOf, List.filterMap_cons, obsNeed_other h hc, List.filterMap_nil]

theorem mem_needsOf {s : State} {l : List Nat} {x : Nat} :
    x ∈ needsOf s l ↔ ∃ o ob, o ∈ l ∧ s.observers[o]? = some ob ∧ ob.state = .created ∧ x = needH s ob.node := by
  unfold needsOf
  rw [List.mem_filterMap]
  constructor
  · rintro ⟨o, ho, h⟩
    cases hob : s.observers[o]? with
    | none => simp only [obsNeed, hob] at h; cases h
    | some ob =>
      by_cases hst : ob.state = .created
      · rw [obsNeed_created hob hst] at h
        simp only [Option.some.injEq] at h
        exact ⟨o, ob, ho, hob, hst, h.symm⟩
      · rw [obsNeed_other hob hst] at h; cases h
  · rintro ⟨o, ob, ho, hob, hst, rfl⟩
    exact ⟨o, ho, obsNeed_created hob hst⟩

/-- the exact condition under which `stabilise` does not hit the height limit -/
theorem pendingNeed_le_iff {s : State} {N : Nat} :
    pendingNeed s ≤ N ↔ ∀ o ob, o ∈ s.newObservers → s.observers[o]? = some ob → ob.state = .created →
      needH s ob.node ≤ N := by
  constructor
  · intro h o ob ho hob hst
    exact Nat.le_trans (le_lmax (mem_needsOf.2 ⟨o, ob, ho, hob, hst, rfl⟩)) h
  · intro h
    apply lmax_le
    intro x hx
    obtain ⟨o, ob, ho, hob, hst, rfl⟩ := mem_needsOf.1 hx
    exact h o ob ho hob hst

/-- the action names existing things and the fuel of `stabilise` suffices (`Quiet.ActionOK` without the bound
on the number of nodes); `setMaxHeight` is always allowed -/
def ActionOKH (s : State) : Action → Prop
  | .create i => InstrIn s i
  | .observe n => OpndIn s n
  | .dropObs o | .disallow o => o < s.observers.size
  | .set v _ | .modify v _ | .update v _ | .replace v _ | .replaceWith v _ | .get v => v < s.vars.size
  | .stabilise => 3 * s.nodes.size + 4 ≤ fuelDefault
  | _ => True

end IncrVerif.Proofs.HeightH
